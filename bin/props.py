# Per-property configuration of bin/check: which harness engine/generator modes to run, which key of
# the driver's verdict line is the property's executable spec S?, and the texts that go into evidence.

STD = ["Go harness generators and canonicalisation", "hand-written Lean model tied to /repo by the correspondence run only"]

PROPS = {
    "C01": {
        "spec_key": "c01",
        "runs": [{"engine": "seq", "mode": "c01", "n_quick": 600, "n_thorough": 40000}],
        "rule": "histories of 5-25 (thorough: 5-60) public operations over a pool of 1-3 generated frames; "
                "distinct = different protocol line; non-trivial = at least one successful step on a frame with >= 2 rows",
        "assumptions": ["user-supplied columns have the receiver's length (the property's own side condition)",
                        "callbacks come from the closed family implemented identically in Go and Lean"],
        "trusted_base": STD,
    },
    "C02": {
        "spec_key": "c02",
        "runs": [{"engine": "seq", "mode": "c02", "n_quick": 600, "n_thorough": 40000}],
        "rule": "derive-then-edit histories; after every step every live frame is dumped cell by cell and all frames "
                "other than the target of an in-place edit must be unchanged; non-trivial = at least one successful step on a frame with >= 2 rows",
        "assumptions": ["Select (documented to return the live column) and callbacks returning their argument are excluded, as in the property"],
        "trusted_base": STD + ["heap model of Go slices (Core/Heap.lean) is hand-written"],
    },
    "C20": {
        "spec_key": "c20",
        "runs": [{"engine": "seq", "mode": "c20", "n_quick": 600, "n_thorough": 40000}],
        "rule": "histories biased to invalid arguments (unknown names, boundary and extreme integers, unknown option strings, "
                "mismatched operands, wrong cell types); every call under recover(); non-trivial = at least one successful step on a frame with >= 2 rows",
        "assumptions": ["scalar cells only; callbacks that themselves misbehave are outside the property"],
        "trusted_base": STD,
    },
}

def _rel(pid, key, mode, what, nq=3000, nt=200000):
    PROPS[pid] = {
        "spec_key": key,
        "runs": [{"engine": "seq", "mode": mode, "n_quick": nq, "n_thorough": nt},
                 {"engine": "seq", "mode": "c01", "n_quick": 300, "n_thorough": 20000}],
        "rule": what + "; plus general histories in which the operation occurs on derived frames; distinct = different protocol "
                "line; non-trivial = at least one successful step on a frame with >= 2 rows",
        "assumptions": [], "trusted_base": STD,
    }

_rel("C03", "c03", "c03", "pairs of frames (0-8 rows, sometimes up to 30) sharing key column k with keys from a collision-rich "
     "alphabet mixing nil/int/int64/float/string/bool, 0-3 payload columns each, all four join kinds, 1-3 joins")
_rel("C06", "c06", "c06", "frames of 0-40 rows (25% exactly two rows, which reveals Less(1,0)), 1-3 columns of one kind each with many "
     "ties and nils, 0-2 sort columns incl. unknown ones, both directions")
_rel("C07", "c07", "c07", "frames whose columns draw from alphabets built to collide under a non-injective key "
     "(x|b:y, nil vs \"nil\", 1 vs \"1\", int vs int64), all Keep values incl. invalid, subsets incl. unknown, both Inplace values")
_rel("C08", "c08", "c08", "frames of 0-12 rows x 0-4 columns; Head/Tail/RowSlice with boundary counts, Filter with an explicit accept "
     "set and a recorded call log, Iloc/Loc with repeats and absent labels, MultiSelect, DropRow, DropColumn, Row, ColumnNames, Nrows/Ncols")
_rel("C15", "c15", "c15", "frames with every nil pattern; FillNa with every kind of value; Astype over valid/unknown targets and columns "
     "of floats (negative fractions, large), ints, text, mixtures with one odd cell first/middle/last; AddDatetimeIndex over two layouts")
_rel("C19", "c19", "c19", "frames of 0-12 rows, offsets from {0, +-1, +-(n-1), +-n, +-(n+1), +-2n, MinInt64, MinInt64+1, MaxInt64, MaxInt64-1} and small random")

PROPS["C04"] = {
    "spec_key": "c04",
    "runs": [{"engine": "grp", "mode": "", "n_quick": 4000, "n_thorough": 300000}],
    "rule": "frames of 0-30 rows, 1-3 key columns over an alphabet built to collide under %v (1, int64 1, 1.0, \"1\", \"x|y\", \"x\", "
            "\"y|z\", nil, \"<nil>\", true, \"true\"), single key or key list, missing keys at low rate; distinct = different protocol "
            "line; non-trivial = at least 2 groups and at least one group with 2 rows",
    "assumptions": ["key cells are scalars without NaN"], "trusted_base": STD,
}
PROPS["C05"] = dict(PROPS["C04"], spec_key="c05",
    assumptions=["float rounding is not modelled: values are integers and small dyadics, on which float64 sums are exact; "
                 "means are compared with relative tolerance 2^-40"])

PROPS["C16"] = {
    "spec_key": "c16",
    "runs": [{"engine": "agg", "mode": "", "n_quick": 4000, "n_thorough": 300000}],
    "rule": "frames of 1-3 columns x 0-12 rows mixing int, int64, float32, float64 and numeric text in every order, one non-numeric "
            "cell at first/middle/last position in 25% of columns, NaN/+-Inf at chosen positions in 30%; Series and frame-level "
            "Sum/Mean/Min/Max, Describe, and Add of two further frames with independent lengths and optional fill; "
            "non-trivial = at least one all-numeric column with >= 2 cells",
    "assumptions": ["values are integers and small dyadics: float64 sums are exact; means compared with relative tolerance 2^-40",
                    "IEEE rounding on general inputs is outside the model"],
    "trusted_base": STD,
}
PROPS["C17"] = {
    "spec_key": "c17", "race": True,
    "runs": [{"engine": "apl", "mode": "", "n_quick": 1200, "n_thorough": 60000}],
    "rule": "frames of 0-8 rows (8%: more rows than workers) x 0-3 columns; row-wise Apply under a forced completion order "
            "(random priority per row enforced through the verif gate: the worker holding the smallest priority among those at the "
            "gate is released next), column-wise Apply; 8 callbacks incl. slice and scalar results; built and run with -race; "
            "non-trivial = row-wise, >= 2 rows, forced order different from index order",
    "assumptions": ["absence of data races is a statement about the Go memory model: the race detector over forced schedules is supporting "
                    "evidence, not proof", "callbacks are side-effect free members of the closed family"],
    "trusted_base": STD + ["verif gate hook in /repo (dataframe/verif_gate_on.go)"],
}
PROPS["C18"] = {
    "spec_key": "c18",
    "runs": [{"engine": "rsm", "mode": "", "n_quick": 3000, "n_thorough": 200000}],
    "rule": "timestamps 1900-2100 in UTC or one fixed-offset zone per frame, unsorted, with repeats, clustered around "
            "year/month/day/hour/minute boundaries; 0-3 value columns; six frequency codes plus unknown ones; 4 aggregators exposing their "
            "exact input; every case is called 8 (thorough 32) times and all results compared; non-trivial = >= 2 buckets and one bucket with >= 2 rows",
    "assumptions": ["one zone per frame, fixed offset (time.Date is then the identity on civil fields)", "mixed-zone frames are outside the model"],
    "trusted_base": STD + ["daysFromCivil (civil date -> Unix day) is validated by the correspondence run only"],
}

def _t(text, note, technique, ref):
    return {"text": text, "note": note, "technique": technique, "design_ref": ref}

_TECH = "Lean 4 theorems over a hand-written model + differential correspondence run against /repo"
_NOTE = ("Trusted: Lean kernel; the hand-written model's fidelity is validated, not proved, by the correspondence run "
         "(Go harness + native Lean driver); stdlib functions enter as oracle parameters with stated laws.")

MANIFEST_TEXT = {
    "C01": _t("Rectangularity (common length, stored under own name, Nrows = that length) is proved preserved by every modelled "
              "operation and lifted to every history by induction over the operation list; the model is tied to the code by "
              "running histories on both and comparing every live frame after every step.", _NOTE, _TECH, "DESIGN.md §6 C01"),
    "C02": _t("Non-interference is proved over a heap model of Go slices (separation invariant preserved by every step, so the "
              "heap semantics equals the value semantics); derive-then-edit histories are run on the real code and every live "
              "frame is compared cell by cell after every step.", _NOTE, _TECH, "DESIGN.md §6 C02"),
    "C20": _t("Panic-freedom and error-atomicity are theorems about the model, whose checked primitives panic exactly where Go's "
              "unchecked ones do; the real code is called with boundary/invalid arguments under recover() and compared.",
              _NOTE, _TECH, "DESIGN.md §6 C20"),
}

MANIFEST_TEXT.update({
    "C03": _t("The four joins of the model (the code's nested loops, mergeRows, AppendRow into the pre-created union, matched flag / matched-key "
              "list) are proved equal to the relational specification on rows (flatMap/filter; left wins; nil padding; order) for all frames; "
              "missing key = error. Tied to the code by running generated frame pairs through the real joins and comparing every cell.",
              _NOTE, _TECH, "DESIGN.md §6 C03"),
    "C04": _t("Single-key Groupby is proved to produce exactly the partition by key (first-appearance KeyOrder, complete rows in order); for a "
              "key list the statement is false of the code (recorded finding K1): proved under the injectivity hypothesis the proof forces and "
              "refuted on a witness by decide. The real Groups/KeyOrder are compared with the partition spec and the model.",
              _NOTE + " Open finding K1 is reported as KNOWN-FINDING.", _TECH, "DESIGN.md §6 C04"),
    "C05": _t("Grouped Sum/Mean/Count are proved equal to the per-group arithmetic (exact rationals), the numeric type table is proved total "
              "on all Go widths, and conservation (group sums add up to the column total) is proved from the partition. The real results "
              "are compared with the spec evaluated on the specification's own partition.", _NOTE + " Float rounding is not modelled.", _TECH, "DESIGN.md §6 C05"),
    "C06": _t("goframe's comparator is proved a strict weak order on homogeneous columns and equal to the specification's order (nil last in "
              "both directions, numbers by value, text bytewise, earlier columns first); relative to the sort.Sort contract (shown inhabited by "
              "the insertion sort Go uses up to 12 rows) the result is proved an ordered permutation of whole rows. The real SortValues output "
              "is checked against that relational spec; for <= 12 rows it is compared exactly with the model.",
              _NOTE + " sort.Sort enters through its contract (permutation without inversions for a strict weak order).", _TECH, "DESIGN.md §6 C06"),
    "C07": _t("The row key is proved injective for all strings (length-prefix argument) relative to one law on %v of floats/times; from it the "
              "model's DropDuplicates is proved equal to the specification (first/last/no member of each class of identical rows, in order; "
              "Inplace; invalid Keep/subset = error). The real code is run on frames built to collide under a weaker key.",
              _NOTE, _TECH, "DESIGN.md §6 C07"),
    "C08": _t("Head/Tail/RowSlice/Filter(+call log)/Iloc/Loc/MultiSelect/DropRow/DropColumn/Row/ColumnNames of the model (the code's loops over "
              "Row(i)/AppendRow and slices) are proved equal to take/drop/filter/map/flatMap/eraseIdx on rows for all frames and arguments; the "
              "real methods are run on boundary arguments and compared cell by cell.", _NOTE, _TECH, "DESIGN.md §6 C08"),
    "C15": _t("FillNa/DropNa/Astype/AddDatetimeIndex of the model are proved equal to their specifications (exactly the nil cells; exactly the "
              "rows with a nil; per-cell conversion or an error with nothing changed; truncation toward zero); the real methods are compared "
              "on every nil pattern and on columns with one unconvertible cell first/middle/last.", _NOTE, _TECH, "DESIGN.md §6 C15"),
    "C19": _t("Shift is proved cell-exact for every 64-bit offset (the wrapped subtraction of the code decides 'inside the frame' like the "
              "mathematical one), shape-preserving, identity at 0 and invertible off the ends; the real Shift is compared on boundary and "
              "extreme offsets.", _NOTE, _TECH, "DESIGN.md §6 C19"),
})

NOT_APPLICABLE = {}
