# Per-property configuration of bin/check: which harness engine/generator modes to run, which key of
# the driver's verdict line is the property's executable spec S?, and the texts that go into evidence.

STD = ["Go harness generators and canonicalisation", "hand-written Lean model tied to /repo by the correspondence run only"]

PROPS = {
    "C01": {
        "spec_key": "c01",
        "runs": [{"engine": "seq", "mode": "c01", "n_quick": 1500, "n_thorough": 1400000},
                 # the imports on their own inputs, well-formed and malformed: whatever they return is rectangular
                 {"engine": "csv", "mode": "imp", "n_quick": 1500, "n_thorough": 400000},
                 {"engine": "sqlr", "mode": "", "n_quick": 800, "n_thorough": 200000}],
        "rule": "histories of 5-25 (thorough: 5-60) public operations over a pool of 1-3 generated frames; CSV import of generated and "
                "byte-mutated texts and SQL import of configured result sets; "
                "distinct = different protocol line; non-trivial = at least one successful step on a frame with >= 2 rows",
        "assumptions": ["user-supplied columns have the receiver's length (the property's own side condition)",
                        "callbacks come from the closed family implemented identically in Go and Lean"],
        "trusted_base": STD,
    },
    "C02": {
        "spec_key": "c02",
        "runs": [{"engine": "seq", "mode": "c02", "n_quick": 1500, "n_thorough": 1400000},
                 {"engine": "grp", "mode": "", "n_quick": 800, "n_thorough": 200000}],
        "rule": "derive-then-edit histories; after every step every live frame is dumped cell by cell and all frames "
                "other than the target of an in-place edit must be unchanged; non-trivial = at least one successful step on a frame with >= 2 rows",
        "assumptions": ["Select (documented to return the live column) and callbacks returning their argument are excluded, as in the property"],
        "trusted_base": STD + ["heap model of Go slices (Core/Heap.lean) is hand-written"],
    },
    "C20": {
        "spec_key": "c20",
        "runs": [{"engine": "seq", "mode": "c20", "n_quick": 1500, "n_thorough": 1400000},
                 # cleaning and conversion histories: a conversion that fails half-way must leave the column as it was
                 {"engine": "seq", "mode": "c15", "n_quick": 1000, "n_thorough": 300000},
                 {"engine": "plot", "mode": "", "n_quick": 150, "n_thorough": 3000, "timeout": 600},
                 # every other public entry point under recover(): a panic or a call that does not return is a violation by itself
                 {"engine": "sqlw", "mode": "", "n_quick": 600, "n_thorough": 100000},
                 {"engine": "sqlr", "mode": "", "n_quick": 600, "n_thorough": 100000},
                 {"engine": "csv", "mode": "imp", "n_quick": 1000, "n_thorough": 200000},
                 {"engine": "csv", "mode": "rt", "n_quick": 600, "n_thorough": 100000},
                 {"engine": "grp", "mode": "", "n_quick": 600, "n_thorough": 100000},
                 {"engine": "agg", "mode": "", "n_quick": 600, "n_thorough": 100000},
                 {"engine": "rsm", "mode": "", "n_quick": 400, "n_thorough": 50000},
                 # the accessors and helpers no other engine calls (Column/Series Len/At/AsFloat64, Select, String, typed
                 # columns, dialect helpers, GetAllColumnNames)
                 {"engine": "misc", "mode": "", "n_quick": 600, "n_thorough": 100000}],
        "rule": "histories biased to invalid arguments (unknown names, boundary and extreme integers, unknown option strings, "
                "mismatched operands, wrong cell types); every call under recover(); non-trivial = at least one successful step on a frame with >= 2 rows",
        "assumptions": ["scalar cells only; callbacks that themselves misbehave are outside the property"],
        "trusted_base": STD,
    },
}

def _rel(pid, key, mode, what, nq=3000, nt=2800000):
    PROPS[pid] = {
        "spec_key": key,
        "runs": [{"engine": "seq", "mode": mode, "n_quick": nq, "n_thorough": nt},
                 {"engine": "seq", "mode": "c01", "n_quick": 300, "n_thorough": 280000}],
        "rule": what + "; plus general histories in which the operation occurs on derived frames; distinct = different protocol "
                "line; non-trivial = at least one successful step on a frame with >= 2 rows",
        "assumptions": [], "trusted_base": STD,
    }

_rel("C03", "c03", "c03", "pairs of frames (0-8 rows, sometimes up to 30) sharing key column k with keys from a collision-rich "
     "alphabet mixing nil/int/int64/float/string/bool, 0-3 payload columns each, all four join kinds, 1-3 joins")
_rel("C06", ["c06", "c02"], "c06", "frames of 0-40 rows (25% exactly two rows, which reveals Less(1,0)), 1-3 columns of one kind each with many "
     "ties and nils, 0-2 sort columns incl. unknown ones, both directions")
_rel("C07", ["c07", "c02"], "c07", "frames whose columns draw from alphabets built to collide under a non-injective key "
     "(x|b:y, nil vs \"nil\", 1 vs \"1\", int vs int64), all Keep values incl. invalid, subsets incl. unknown, both Inplace values, interleaved with in-place edits of receiver and result (without Inplace the result must be a new frame)")
_rel("C08", "c08", "c08", "frames of 0-12 rows x 0-4 columns; Head/Tail/RowSlice with boundary counts, Filter with an explicit accept "
     "set and a recorded call log, Iloc/Loc with repeats and absent labels, MultiSelect, DropRow, DropColumn, Row, ColumnNames, Nrows/Ncols")
_rel("C15", "c15", "c15", "frames with every nil pattern; FillNa with every kind of value; Astype over valid/unknown targets and columns "
     "of floats (negative fractions, large), ints, text, mixtures with one odd cell first/middle/last; AddDatetimeIndex over two layouts")
_rel("C19", ["c19", "c02"], "c19", "frames of 0-12 rows, offsets from {0, +-1, +-(n-1), +-n, +-(n+1), +-2n, MinInt64, MinInt64+1, MaxInt64, MaxInt64-1} and small random, interleaved with in-place edits of source and result (Shift(0) must be a copy)")

PROPS["C04"] = {
    "spec_key": "c04",
    "runs": [{"engine": "grp", "mode": "", "n_quick": 4000, "n_thorough": 2800000}],
    "rule": "frames of 0-30 rows, 1-3 key columns over an alphabet built to collide under %v (1, int64 1, 1.0, \"1\", \"x|y\", \"x\", "
            "\"y|z\", nil, \"<nil>\", true, \"true\"), single key or key list, missing keys at low rate; distinct = different protocol "
            "line; non-trivial = at least 2 groups and at least one group with 2 rows",
    "assumptions": ["key cells are scalars without NaN"], "trusted_base": STD,
}
PROPS["C05"] = dict(PROPS["C04"], spec_key="c05",
    assumptions=["float rounding is not modelled: values are integers and small dyadics, on which float64 sums are exact; "
                 "means are compared with relative tolerance 2^-40"])

PROPS["C16"] = {
    "spec_key": "c16",
    "runs": [{"engine": "agg", "mode": "", "n_quick": 4000, "n_thorough": 2800000}],
    "rule": "frames of 1-3 columns x 0-12 rows mixing int, int64, float32, float64 and numeric text in every order, one non-numeric "
            "cell at first/middle/last position in 25% of columns, NaN/+-Inf at chosen positions in 30%; Series and frame-level "
            "Sum/Mean/Min/Max, Describe, and Add of two further frames with independent lengths and optional fill; "
            "non-trivial = at least one all-numeric column with >= 2 cells",
    "assumptions": ["values are integers and small dyadics: float64 sums are exact; means compared with relative tolerance 2^-40",
                    "IEEE rounding on general inputs is outside the model"],
    "trusted_base": STD,
}
PROPS["C17"] = {
    "spec_key": "c17", "race": True,
    "runs": [{"engine": "apl", "mode": "", "n_quick": 1200, "n_thorough": 1120000}],
    "rule": "frames of 0-8 rows (8%: more rows than workers) x 0-3 columns; row-wise Apply under a forced completion order "
            "(random priority per row enforced through the verif gate: the worker holding the smallest priority among those at the "
            "gate is released next), column-wise Apply; 8 callbacks incl. slice and scalar results; built and run with -race; "
            "non-trivial = row-wise, >= 2 rows, forced order different from index order",
    "assumptions": ["absence of data races is a statement about the Go memory model: the race detector over forced schedules is supporting "
                    "evidence, not proof", "callbacks are side-effect free members of the closed family"],
    "trusted_base": STD + ["verif gate hook in /repo (dataframe/verif_gate_on.go)"],
}
PROPS["C18"] = {
    "spec_key": "c18",
    "runs": [{"engine": "rsm", "mode": "", "n_quick": 3000, "n_thorough": 1400000}],
    "rule": "timestamps 1900-2100 in UTC or one fixed-offset zone per frame, unsorted, with repeats, clustered around "
            "year/month/day/hour/minute boundaries; 0-3 value columns; six frequency codes plus unknown ones; 4 aggregators exposing their "
            "exact input; every case is called 8 (thorough 32) times and all results compared; non-trivial = >= 2 buckets and one bucket with >= 2 rows",
    "assumptions": ["one zone per frame, fixed offset (time.Date is then the identity on civil fields)", "mixed-zone frames are outside the model"],
    "trusted_base": STD + ["daysFromCivil (civil date -> Unix day) is validated by the correspondence run only"],
}

PROPS["C09"] = {
    "spec_key": "c09",
    "runs": [{"engine": "csv", "mode": "rt", "n_quick": 5000, "n_thorough": 2800000}],
    "rule": "frames of 1-4 columns x 0-5 rows; cells: ints incl. +-2^53, floats incl. NaN, +-Inf, -0, subnormal, MaxFloat64, 2^53+1, text over "
            "comma / quote / LF / CR / tab / non-ASCII / empty / backslash-dot; names from the same alphabet incl. the empty name; 15% of frames "
            "contain out-of-domain cells (untrimmed text, numeric text, CR LF inside, nil, bool) and are only compared with the model; "
            "non-trivial = in-domain frame with >= 1 row whose CSV text contains a quote",
    "assumptions": ["strconv.ParseFloat / strings.TrimSpace / %v of floats enter through the per-case oracle table (laws: CellLaw in Props/C09.lean)",
                    "the Lean model of encoding/csv is validated against the real package by the C10 runs (all byte strings up to length 5 over "
                    "the structural alphabet in the quick tier)"],
    "trusted_base": STD + ["Lean model of encoding/csv reader and writer (Std/Csv.lean)"],
}
PROPS["C10"] = {
    "spec_key": "c10",
    "runs": [{"engine": "csv", "mode": "imp", "n_quick": 5000, "n_thorough": 2800000},
             {"engine": "csv", "mode": "small", "n_quick": 19608, "n_thorough": 960800,
              "exhaustive": "FromCSVReader and encoding/csv vs the Lean reader on all byte strings of length <= 5 (quick) / <= 7 (thorough) over {a , quote CR LF space 1}"}],
    "rule": "grammar-generated tables (quoted/unquoted fields, numeric look-alikes: signs, exponents, hex floats, inf/nan spellings, "
            "underscores, 1e400, 1e-400, surrounding blanks), ragged and empty records, CR/LF variants, repeated header names, byte-level "
            "mutations (flip, insert, delete, truncate); plus EVERY byte string up to length 5 (thorough: 7) over {a , quote CR LF space 1}; "
            "the typing oracle is the harness's own strconv.ParseFloat(strings.TrimSpace(field), 64); encoding/csv's own ReadAll on the same "
            "bytes validates the Lean reader; non-trivial = at least two records",
    "assumptions": ["the Lean reader model equals encoding/csv with default settings (measured on every run, not proved)"],
    "trusted_base": STD + ["Lean model of encoding/csv reader (Std/Csv.lean)"],
}
_SQLW = {"assumptions": ["the recording driver interprets no SQL; statements are lexed, parsed and executed on an abstract database in Lean",
                         "TypeMap values are user-supplied SQL and are treated as opaque token lists"],
         "trusted_base": STD + ["Lean SQL lexer/parser and abstract transactional database (Std/SqlLex.lean, Ops/SqlWrite.lean)",
                                "database/sql's Tx life-cycle: Commit finishes the Tx whether or not the driver's commit succeeded"]}
PROPS["C11"] = dict(_SQLW, spec_key="c11",
    runs=[{"engine": "sqlw", "mode": "", "n_quick": 3000, "n_thorough": 1400000}],
    rule="frames 0-25 rows x 0-4 columns over nil/int widths/float/string/bool/time; 3 dialects + aliases + mixed case + unknown; "
         "IfExists x table present/absent; batch sizes 1..rows+2, default, 0, negative, 2^62; with/without TypeMap; four entry points; "
         "every recorded statement is lexed+parsed in Lean, executed on the abstract database and the final table compared with the "
         "frame's rows; non-trivial = at least one INSERT issued")
PROPS["C12"] = dict(_SQLW, spec_key="c12",
    runs=[{"engine": "sqlw", "mode": "fault", "n_quick": 400, "n_thorough": 560000}],
    rule="for each scenario the fault-free run is followed by one run per driver call with THAT call failing (Begin, existence query, "
         "DROP, CREATE, every INSERT batch, Commit, Rollback): exhaustive over fault positions per scenario; the abstract database is "
         "evolved from the implementation's own trace; non-trivial = at least one INSERT issued")
PROPS["C13"] = dict(_SQLW, spec_key="c13",
    runs=[{"engine": "qid", "mode": "", "n_quick": 7381, "n_thorough": 597871,
           "exhaustive": "QuoteIdentifier x 3 dialects on all strings of length <= 4 (quick) / <= 6 (thorough) over a 9-character alphabet"},
          {"engine": "qid", "mode": "random", "n_quick": 500, "n_thorough": 280000},
          {"engine": "sqlw", "mode": "names", "n_quick": 1500, "n_thorough": 700000}],
    rule="QuoteIdentifier of the three exported dialects on EVERY string up to length 4 (thorough: 6) over {\" ` ' \\ ; - space a b} plus "
         "random longer / non-ASCII names; whole ToSQL runs whose table and column names come from an injection alphabet, every statement "
         "lexed by the independent Lean lexer; non-trivial = name contains a quote character / an INSERT was issued")
PROPS["C14"] = {
    "spec_key": "c14",
    "runs": [{"engine": "sqlr", "mode": "", "n_quick": 5000, "n_thorough": 2800000}],
    "rule": "result sets of 0-20 rows x 1-5 columns; declared types from the property's list plus unknown ones and look-alikes (POINT, "
            "INTERVAL, DATETIME2, lower case); NULL rates 0/10/30/100%; handlers none/nil/zero/skip_row/map/unknown string/wrong type; "
            "ParseDates subsets with strings produced by formatting known times in the seven layouts, Unix seconds/milliseconds, "
            "unparsable strings; four entry points; nil handle, empty query, query error, iteration error at every row, scan error, "
            "duplicate column; non-trivial = successful read of >= 2 rows containing a NULL",
    "assumptions": ["database/sql scan conversions are exercised only with values of the declared column's natural Go type",
                    "time.Parse / time.Unix enter through the oracle table; the harness runs with time.Local = UTC"],
    "trusted_base": STD,
}

def _t(text, note, technique, ref):
    return {"text": text, "note": note, "technique": technique, "design_ref": ref}

_TECH = "Lean 4 theorems over a hand-written model + differential correspondence run against /repo"
_NOTE = ("Trusted: Lean kernel; the hand-written model's fidelity is validated, not proved, by the correspondence run "
         "(Go harness + native Lean driver); stdlib functions enter as oracle parameters with stated laws.")

MANIFEST_TEXT = {
    "C01": _t("Rectangularity (common length, stored under own name, Nrows = that length) is proved preserved by every modelled "
              "operation and lifted to every history by induction over the operation list; the model is tied to the code by "
              "running histories on both and comparing every live frame after every step.", _NOTE, _TECH, "DESIGN.md §6 C01"),
    "C02": _t("Non-interference is proved over a heap model of Go slices (separation invariant preserved by every step, so the "
              "heap semantics equals the value semantics); derive-then-edit histories are run on the real code and every live "
              "frame is compared cell by cell after every step.", _NOTE, _TECH, "DESIGN.md §6 C02"),
    "C20": _t("Panic-freedom and error-atomicity are theorems about the model, whose checked primitives panic exactly where Go's "
              "unchecked ones do; the real code is called with boundary/invalid arguments under recover() and compared.",
              _NOTE, _TECH, "DESIGN.md §6 C20"),
}

MANIFEST_TEXT.update({
    "C03": _t("The four joins of the model (the code's nested loops, mergeRows, AppendRow into the pre-created union, matched flag / matched-key "
              "list) are proved equal to the relational specification on rows (flatMap/filter; left wins; nil padding; order) for all frames; "
              "missing key = error. Tied to the code by running generated frame pairs through the real joins and comparing every cell.",
              _NOTE, _TECH, "DESIGN.md §6 C03"),
    "C04": _t("Single-key Groupby is proved to produce exactly the partition by key (first-appearance KeyOrder, complete rows in order); for a "
              "key list the statement is false of the code (recorded finding K1): proved under the injectivity hypothesis the proof forces and "
              "refuted on a witness by decide. The real Groups/KeyOrder are compared with the partition spec and the model.",
              _NOTE + " Open finding K1 is reported as KNOWN-FINDING.", _TECH, "DESIGN.md §6 C04"),
    "C05": _t("Grouped Sum/Mean/Count are proved equal to the per-group arithmetic (exact rationals), the numeric type table is proved total "
              "on all Go widths, and conservation (group sums add up to the column total) is proved from the partition. The real results "
              "are compared with the spec evaluated on the specification's own partition.", _NOTE + " Float rounding is not modelled.", _TECH, "DESIGN.md §6 C05"),
    "C06": _t("goframe's comparator is proved a strict weak order on homogeneous columns and equal to the specification's order (nil last in "
              "both directions, numbers by value, text bytewise, earlier columns first); relative to the sort.Sort contract (shown inhabited by "
              "the insertion sort Go uses up to 12 rows) the result is proved an ordered permutation of whole rows. The real SortValues output "
              "is checked against that relational spec; for <= 12 rows it is compared exactly with the model.",
              _NOTE + " sort.Sort enters through its contract (permutation without inversions for a strict weak order).", _TECH, "DESIGN.md §6 C06"),
    "C07": _t("The row key is proved injective for all strings (length-prefix argument) relative to one law on %v of floats/times; from it the "
              "model's DropDuplicates is proved equal to the specification (first/last/no member of each class of identical rows, in order; "
              "Inplace; invalid Keep/subset = error). The real code is run on frames built to collide under a weaker key.",
              _NOTE, _TECH, "DESIGN.md §6 C07"),
    "C08": _t("Head/Tail/RowSlice/Filter(+call log)/Iloc/Loc/MultiSelect/DropRow/DropColumn/Row/ColumnNames of the model (the code's loops over "
              "Row(i)/AppendRow and slices) are proved equal to take/drop/filter/map/flatMap/eraseIdx on rows for all frames and arguments; the "
              "real methods are run on boundary arguments and compared cell by cell.", _NOTE, _TECH, "DESIGN.md §6 C08"),
    "C15": _t("FillNa/DropNa/Astype/AddDatetimeIndex of the model are proved equal to their specifications (exactly the nil cells; exactly the "
              "rows with a nil; per-cell conversion or an error with nothing changed; truncation toward zero); the real methods are compared "
              "on every nil pattern and on columns with one unconvertible cell first/middle/last.", _NOTE, _TECH, "DESIGN.md §6 C15"),
    "C19": _t("Shift is proved cell-exact for every 64-bit offset (the wrapped subtraction of the code decides 'inside the frame' like the "
              "mathematical one), shape-preserving, identity at 0 and invertible off the ends; the real Shift is compared on boundary and "
              "extreme offsets.", _NOTE, _TECH, "DESIGN.md §6 C19"),
})

MANIFEST_TEXT.update({
    "C01": MANIFEST_TEXT["C01"], "C02": MANIFEST_TEXT["C02"], "C20": MANIFEST_TEXT["C20"],
    "C09": _t("csv layer: readAll(writeAll q recs) = recs is proved for every table of strings (induction over records, fields and bytes "
              "against the reader's state machine) and lifted through the cell layer (%v then the typing rule) to whole frames; the pinned "
              "writer is refuted on the lone-empty-field witness. Real ToCSVWriter -> FromCSVReader runs are compared byte for byte and "
              "cell for cell.", _NOTE + " encoding/csv is modelled, strconv/fmt enter as oracle laws.", _TECH, "DESIGN.md §6 C09"),
    "C10": _t("fromCSV of the model is proved total (no panic), its success and error cases are characterised exactly (reader error, no "
              "record, repeated header), and every cell is typed by the one rule; the real FromCSVReader is run on generated, mutated "
              "and exhaustively enumerated short byte strings with an independent typing oracle.", _NOTE, _TECH, "DESIGN.md §6 C10"),
    "C11": _t("Batches are proved to tile the rows exactly (1..BatchSize each), INSERTs to carry rows x columns bound values, and executing "
              "the planned statements on the abstract database is proved to leave exactly the frame's rows (after the old ones for "
              "append); fail mode writes nothing. Recorded statements of real ToSQL runs are parsed and executed in Lean and compared.",
              _NOTE, _TECH, "DESIGN.md §6 C11"),
    "C12": _t("Over the transaction-protocol model a fault at EVERY call position is proved to yield an error, no successful commit (so the "
              "published database is the initial one) and a rollback; success commits exactly once; the Tx variants never end the caller's "
              "transaction. The real code is run with the driver failing each call in turn (exhaustive per scenario).",
              _NOTE + " database/sql's asynchronous rollback on context cancellation is not modelled.", _TECH, "DESIGN.md §6 C12"),
    "C13": _t("For ALL names: the quoted identifier is lexed back as exactly the name and lexing stops at its end, quoting is injective, and "
              "DROP/CREATE/INSERT statements lex to exactly the expected token stream; the pinned quoting is refuted by decide. "
              "QuoteIdentifier is compared with the model on every string up to length 4 (6) and real statements are lexed in Lean.",
              _NOTE, _TECH, "DESIGN.md §6 C13"),
    "C14": _t("The scan-type table, the NULL policy (nil/zero/skip_row/map/unknown), the NULL-free and skip_row result shapes and the "
              "error cases (iteration/scan/query error, nil handle, empty query, unknown handler on NULL) are theorems about the model; "
              "the real FromSQL* are run against a driver serving configured result sets and compared.", _NOTE, _TECH, "DESIGN.md §6 C14"),
    "C16": _t("Series/frame Sum/Mean/Min/Max of the model are proved equal to the arithmetic reference (NaN ignored by Min and Max wherever it "
              "occurs), order-independent, bounded and attained; Describe is proved to agree with them on numeric columns; Add cell-wise. "
              "Exact rationals; real results compared on inputs where float64 arithmetic is exact.",
              _NOTE + " IEEE rounding is not modelled.", _TECH, "DESIGN.md §6 C16"),
    "C17": _t("The collector is proved schedule-independent for every delivery permutation; the worker pool as a transition system is "
              "proved to deliver every row index exactly once in every complete execution; hence every schedule gives the sequential "
              "result. The real Apply is run under forced completion orders (verif gate) with the race detector.",
              _NOTE + " Data-race freedom is a Go-memory-model statement: race detector runs are supporting evidence only.", _TECH, "DESIGN.md §6 C17"),
    "C18": _t("Truncation is proved idempotent and bucket equality characterised by civil fields; the result is proved independent of map "
              "iteration order, sorted ascending without repeats, and equal to the row-level specification; invalid requests are errors. "
              "The real Resample is called repeatedly per case and compared.", _NOTE, _TECH, "DESIGN.md §6 C18"),
})

NOT_APPLICABLE = {}
