import GoframeModel.Ops.Select
import GoframeModel.Spec.Select
import GoframeModel.Lemmas.RefineA
import GoframeModel.Lemmas.Shift
/-
  C19 — Shift moves every column by the same offset and pads with nil.
  Property theorems only; helper lemmas live in GoframeModel/Lemmas.
-/
namespace Goframe.C19
open Goframe Frame

/-- The 64-bit subtraction `i - periods` of the code decides "inside the frame" exactly as the
mathematical one does, for every 64-bit offset, including `MinInt64` and `MaxInt64`. -/
theorem shift_wrap (i n p : Int) (hi : 0 ≤ i) (hin : i < n) (hn : n < 2 ^ 62) (hp : inInt64 p) :
    ((0 ≤ wrap64 (i - p) ∧ wrap64 (i - p) < n) ↔ (0 ≤ i - p ∧ i - p < n)) ∧
    ((0 ≤ i - p ∧ i - p < n) → wrap64 (i - p) = i - p) := by
  exact wrap64_sub_iff hi hin hn hp

/-- Row `i` of every column holds what row `i - p` held, `nil` outside the frame — for every 64-bit `p`. -/
theorem shift_spec {f : Frame} {n : Nat} (hs : f.Sorted) (hr : f.RectN n) (p : Int)
    (hp : inInt64 p) (hn : (n : Int) < 2 ^ 62) :
    f.shift p = Spec.shiftSpec f p := by
  exact shift_eq_spec hs hr p hp hn

/-- cell-level reading of `shift_spec` -/
theorem shift_cell {f : Frame} {n : Nat} (hr : f.RectN n) (p : Int) (hp : inInt64 p) (hn : (n : Int) < 2 ^ 62)
    (k : Str) (c : Col) (hk : (k, c) ∈ f) (i : Nat) (hi : i < n) :
    ∃ c', (k, c') ∈ f.shift p ∧ c'.name = k ∧ c'.data.length = n ∧
      c'.data.getD i .nil = (if 0 ≤ (i : Int) - p ∧ (i : Int) - p < n then c.data.getD ((i : Int) - p).toNat .nil else .nil) := by
  exact ⟨_, mem_shift hk p, rfl, by rw [shiftCol_length]; exact (hr _ hk).1,
    shiftCol_getD (hr _ hk).1 hn hp hi⟩

/-- same shape: same column names, every column still `n` long and stored under its own name -/
theorem shift_shape {f : Frame} {n : Nat} (hr : f.RectN n) (p : Int) :
    (f.shift p).keys = f.keys ∧ (f.shift p).RectN n := by
  exact ⟨shift_keys f p, shift_rectN hr p⟩

/-- `Shift(0)` is a copy -/
theorem shift_zero {f : Frame} {n : Nat} (hr : f.RectN n) (hn : (n : Int) < 2 ^ 62) : f.shift 0 = f := by
  exact shift_zero_eq hr hn

/-- shifting by `p ≥ 0` and then by `-p` restores every row that was not pushed off the end, and the
last `p` rows are `nil`; symmetrically for `p ≤ 0` -/
theorem shift_inverse {f : Frame} {n : Nat} (hr : f.RectN n) (p : Int) (hp : inInt64 p) (hp' : inInt64 (-p))
    (hn : (n : Int) < 2 ^ 62) (k : Str) (c : Col) (hk : (k, c) ∈ f) (i : Nat) (hi : i < n) :
    ∃ c', (k, c') ∈ (f.shift p).shift (-p) ∧
      c'.data.getD i .nil =
        (if 0 ≤ (i : Int) + p ∧ (i : Int) + p < n then c.data.getD i .nil else .nil) := by
  refine ⟨_, mem_shift (mem_shift hk p) (-p), ?_⟩
  have hl : c.data.length = n := (hr _ hk).1
  have hl' : (shiftCol c.data p).length = n := by rw [shiftCol_length]; exact hl
  rw [shiftCol_getD hl' hn hp' hi]
  have e : (i : Int) - -p = (i : Int) + p := by omega
  rw [e]
  by_cases h : 0 ≤ (i : Int) + p ∧ (i : Int) + p < n
  · have hj : ((i : Int) + p).toNat < n := by omega
    have hc : 0 ≤ (((i : Int) + p).toNat : Int) - p ∧ (((i : Int) + p).toNat : Int) - p < n := by omega
    have hi' : ((((i : Int) + p).toNat : Int) - p).toNat = i := by omega
    rw [if_pos h, if_pos h, shiftCol_getD hl hn hp hj, if_pos hc, hi']
  · rw [if_neg h, if_neg h]

/-- two shifts in a row, cell by cell: a cell survives iff it stays inside the frame after each step -/
theorem shift_shift_cell {f : Frame} {n : Nat} (hr : f.RectN n) (p q : Int) (hp : inInt64 p) (hq : inInt64 q)
    (hn : (n : Int) < 2 ^ 62) (k : Str) (c : Col) (hk : (k, c) ∈ f) (i : Nat) (hi : i < n) :
    ∃ c', (k, c') ∈ (f.shift p).shift q ∧
      c'.data.getD i .nil =
        (if (0 ≤ (i : Int) - q ∧ (i : Int) - q < n) ∧ (0 ≤ (i : Int) - q - p ∧ (i : Int) - q - p < n)
         then c.data.getD ((i : Int) - q - p).toNat .nil else .nil) := by
  refine ⟨_, mem_shift (mem_shift hk p) q, ?_⟩
  have hl : c.data.length = n := (hr _ hk).1
  have hl' : (shiftCol c.data p).length = n := by rw [shiftCol_length]; exact hl
  rw [shiftCol_getD hl' hn hq hi]
  by_cases h1 : 0 ≤ (i : Int) - q ∧ (i : Int) - q < n
  · have hj : ((i : Int) - q).toNat < n := by omega
    rw [if_pos h1, shiftCol_getD hl hn hp hj]
    have e : ((((i : Int) - q).toNat : Nat) : Int) - p = (i : Int) - q - p := by omega
    rw [e]
    by_cases h2 : 0 ≤ (i : Int) - q - p ∧ (i : Int) - q - p < n
    · rw [if_pos h2, if_pos ⟨h1, h2⟩]
    · rw [if_neg h2, if_neg (fun h => h2 h.2)]
  · rw [if_neg h1, if_neg (fun h => h1 h.1)]

/-- shifts in the same direction add up: `Shift(p)` then `Shift(q)` is `Shift(p+q)` when `p, q ≥ 0`
(and, symmetrically, when `p, q ≤ 0`) -/
theorem shift_add {f : Frame} {n : Nat} (hr : f.RectN n) (p q : Int) (hp : inInt64 p) (hq : inInt64 q)
    (hpq : inInt64 (p + q)) (hsame : (0 ≤ p ∧ 0 ≤ q) ∨ (p ≤ 0 ∧ q ≤ 0))
    (hn : (n : Int) < 2 ^ 62) (k : Str) (c : Col) (hk : (k, c) ∈ f) (i : Nat) (hi : i < n) :
    ∃ c' c'', (k, c') ∈ (f.shift p).shift q ∧ (k, c'') ∈ f.shift (p + q) ∧
      c'.data.getD i .nil = c''.data.getD i .nil := by
  obtain ⟨c', hc', e'⟩ := shift_shift_cell hr p q hp hq hn k c hk i hi
  refine ⟨c', _, hc', mem_shift hk (p + q), ?_⟩
  have hl : c.data.length = n := (hr _ hk).1
  rw [e', shiftCol_getD hl hn hpq hi]
  have e : (i : Int) - (p + q) = (i : Int) - q - p := by omega
  rw [e]
  by_cases h2 : 0 ≤ (i : Int) - q - p ∧ (i : Int) - q - p < n
  · have h1 : 0 ≤ (i : Int) - q ∧ (i : Int) - q < n := by
      rcases hsame with ⟨h, h'⟩ | ⟨h, h'⟩ <;> omega
    rw [if_pos h2, if_pos ⟨h1, h2⟩]
  · rw [if_neg h2, if_neg (fun h => h2 h.2)]

/-- a shift by at least the height of the frame (either direction, up to MinInt64) leaves nothing but nil -/
theorem shift_beyond_all_nil {f : Frame} {n : Nat} (hr : f.RectN n) (p : Int) (hp : inInt64 p) (hn : (n : Int) < 2 ^ 62)
    (hbig : (n : Int) ≤ p ∨ p ≤ -(n : Int)) (k : Str) (c : Col) (hk : (k, c) ∈ f) (i : Nat) (hi : i < n) :
    ∃ c', (k, c') ∈ f.shift p ∧ c'.data.length = n ∧ c'.data.getD i .nil = .nil := by
  obtain ⟨c', hm, _, hl, hc⟩ := shift_cell hr p hp hn k c hk i hi
  refine ⟨c', hm, hl, ?_⟩
  rw [hc, if_neg]
  rcases hbig with h | h <;> omega

/-- non-vacuity: a concrete frame meets the hypotheses and a shift by MinInt64 blanks it -/
example : (Frame.shift [([97], { name := [97], data := [.int .int 1, .int .int 2] })] (-(2 ^ 63))) =
    [([97], { name := [97], data := [.nil, .nil] })] := by decide

end Goframe.C19
