import GoframeModel.Props.C05
import GoframeModel.Props.C04
import GoframeModel.Ops.Agg
/-
  C05, continued — conservation end to end, on the model of the code (not only on the specification's groups).
-/
namespace Goframe.C05
open Goframe Frame

/-- Group a frame by one key column (keys without NaN), sum a value column all of whose cells are finite
numbers of any Go integer or float width: the grouped sums, added up, equal the frame-level column total. -/
theorem grouped_sums_add_up (ω : Oracle) {f : Frame} {n : Nat} (hs : f.Sorted) (hr : f.RectN n) (k c : Str)
    (hk : f.has k = true) (hp : C04.PlainKeys f [k]) (col : Col) (hc : f.get? c = some col)
    (hnum : ∀ x ∈ col.data, ∃ q, numOf x = some (.fin q))
    (g : Grouped) (hg : f.groupByString k = .ok g) :
    FVal.sum (g.keyOrder.map (fun key => sumColumn ((Grouped.lookup g.groups key).getD []) c)) =
      FVal.sum (col.data.filterMap numOf) := by
  sorry

/-- …and that total is what the frame-level Sum reports for a column of int / int64 / float cells -/
theorem frame_sum_is_total (ω : Oracle) (d : List Cell)
    (h : ∀ x ∈ d, (∃ v, x = .int .int v) ∨ (∃ v, x = .int .int64 v) ∨ (∃ s q, x = .flt s (.fin q))) :
    seriesAgg ω .sum d = .ok (FVal.sum (d.filterMap numOf)) := by
  sorry

end Goframe.C05
