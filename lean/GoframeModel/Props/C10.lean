import GoframeModel.Std.Csv
import GoframeModel.Spec.Table
/-
  C10 — CSV import types every cell by one rule and rejects malformed input.
  `encoding/csv` is modelled (Std/Csv.lean); these theorems are about goframe's use of it.
-/
namespace Goframe.C10
open Goframe Frame Csv

/-- no input makes the import panic -/
theorem fromCSV_total (ω : Oracle) (bytes : List UInt8) : (fromCSV ω bytes).isPanic = false := by
  sorry

/-- the one typing rule: a cell is a float64 exactly when its trimmed text parses, else the trimmed text -/
theorem typeCell_rule (ω : Oracle) (s : Str) :
    (∀ v, ω.parseFloat (ω.trim s) = some v → typeCell ω s = .flt false v) ∧
    (ω.parseFloat (ω.trim s) = none → typeCell ω s = .str (ω.trim s)) := by
  sorry

/-- a successful import is rectangular, has one column per header field stored under its own name, one
row per data record in input order, and every cell is typed by the rule -/
theorem fromCSV_ok_spec (ω : Oracle) (bytes : List UInt8) (f : Frame) (h : fromCSV ω bytes = .ok f) :
    ∃ hdr recs, readAll bytes = .ok (hdr :: recs) ∧ hasDup hdr = false ∧
      f.Sorted ∧ f.RectN recs.length ∧ f.keys = Spec.sortNames hdr ∧
      ∀ j name, hdr[j]? = some name →
        f.get? name = some { name := name, data := recs.map (fun r => typeCell ω (r.getD j [])) } := by
  sorry

/-- the import fails exactly when the reader fails, the input holds no record, or a header name repeats -/
theorem fromCSV_err_iff (ω : Oracle) (bytes : List UInt8) :
    (fromCSV ω bytes).isErr = true ↔
      ((∃ e, readAll bytes = .error e) ∨ readAll bytes = .ok [] ∨
       ∃ hdr recs, readAll bytes = .ok (hdr :: recs) ∧ hasDup hdr = true) := by
  sorry

/-- the reader never returns records of different lengths (ragged input is an error) -/
theorem reader_rejects_ragged (bytes : List UInt8) (rs : List (List Str)) (h : readAll bytes = .ok rs) :
    ∀ r ∈ rs, r.length = (rs.headD []).length := by
  sorry

/-- a quote that is opened and never closed is an error -/
theorem reader_rejects_unterminated_quote (body : Str) (hb : cQuote ∉ body) :
    ∃ e, readAll (cQuote :: body) = .error e := by
  sorry

/-- a bare quote inside an unquoted field is an error -/
example : readAll [97, 34, 98, 10] = .error .bareQuote := by decide

/-- witnesses for the other rejections: ragged record, repeated header, empty input -/
example : readAll [97, 44, 98, 10, 49, 10] = .error .fieldCount := by decide
example : hasDup [[97], [98], [97]] = true := by decide
example : readAll [] = .ok [] := by decide

end Goframe.C10
