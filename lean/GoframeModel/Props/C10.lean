import GoframeModel.Std.Csv
import GoframeModel.Spec.Table
import GoframeModel.Lemmas.Csv
/-
  C10 — CSV import types every cell by one rule and rejects malformed input.
  `encoding/csv` is modelled (Std/Csv.lean); these theorems are about goframe's use of it.
-/
namespace Goframe.C10
open Goframe Frame Csv CsvLemmas

/-- no input makes the import panic -/
theorem fromCSV_total (ω : Oracle) (bytes : List UInt8) : (fromCSV ω bytes).isPanic = false := by
  unfold fromCSV
  split
  · rfl
  · rfl
  · split <;> rfl

/-- the one typing rule: a cell is a float64 exactly when its trimmed text parses, else the trimmed text -/
theorem typeCell_rule (ω : Oracle) (s : Str) :
    (∀ v, ω.parseFloat (ω.trim s) = some v → typeCell ω s = .flt false v) ∧
    (ω.parseFloat (ω.trim s) = none → typeCell ω s = .str (ω.trim s)) := by
  constructor
  · intro v hv; simp [typeCell, hv]
  · intro hv; simp [typeCell, hv]

/-- a successful import is rectangular, has one column per header field stored under its own name, one
row per data record in input order, and every cell is typed by the rule -/
theorem fromCSV_ok_spec (ω : Oracle) (bytes : List UInt8) (f : Frame) (h : fromCSV ω bytes = .ok f) :
    ∃ hdr recs, readAll bytes = .ok (hdr :: recs) ∧ hasDup hdr = false ∧
      f.Sorted ∧ f.RectN recs.length ∧ f.keys = Spec.sortNames hdr ∧
      ∀ j name, hdr[j]? = some name →
        f.get? name = some { name := name, data := recs.map (fun r => typeCell ω (r.getD j [])) } := by
  unfold fromCSV at h
  split at h
  · cases h
  · cases h
  · rename_i hdr recs hread
    split at h
    · cases h
    · rename_i hdup
      have hdup' : hasDup hdr = false := by simpa using hdup
      refine ⟨hdr, recs, hread, hdup', ?_⟩
      have hf := Outcome.ok.inj h
      have hkeys : (hdr.zipIdx.map (fun (x : Str × Nat) =>
          (x.1, ({ name := x.1, data := recs.map (fun r => typeCell ω (r.getD x.2 [])) } : Col)))).map
            (·.1) = hdr := by
        simp [List.map_map, Function.comp_def]
      obtain ⟨h1, h2, h3⟩ := foldl_insertCol
        (hdr.zipIdx.map (fun (x : Str × Nat) =>
          (x.1, ({ name := x.1, data := recs.map (fun r => typeCell ω (r.getD x.2 [])) } : Col))))
        [] (by simp [Frame.Sorted])
        (by rw [hkeys]; exact (hasDup_false_iff hdr).mp hdup') (by simp)
      rw [hf] at h1 h2 h3
      refine ⟨h1, ?_, ?_, ?_⟩
      · intro kc hkc
        rcases (h2 kc).mp hkc with hm | hm
        · obtain ⟨x, _, rfl⟩ := List.mem_map.mp hm
          simp
        · cases hm
      · rw [h3, hkeys]; rfl
      · intro j name hj
        apply get?_of_mem h1
        apply (h2 _).mpr
        left
        apply List.mem_map.mpr
        exact ⟨(name, j), List.mem_zipIdx_iff_getElem?.mpr hj, rfl⟩

/-- the import fails exactly when the reader fails, the input holds no record, or a header name repeats -/
theorem fromCSV_err_iff (ω : Oracle) (bytes : List UInt8) :
    (fromCSV ω bytes).isErr = true ↔
      ((∃ e, readAll bytes = .error e) ∨ readAll bytes = .ok [] ∨
       ∃ hdr recs, readAll bytes = .ok (hdr :: recs) ∧ hasDup hdr = true) := by
  unfold fromCSV
  split
  · rename_i e he
    simp [Outcome.isErr, he]
  · rename_i he
    simp [Outcome.isErr, he]
  · rename_i hdr recs he
    rw [he]
    cases hd : hasDup hdr <;> simp [Outcome.isErr, hd]

/-- the reader never returns records of different lengths (ragged input is an error) -/
theorem reader_rejects_ragged (bytes : List UInt8) (rs : List (List Str)) (h : readAll bytes = .ok rs) :
    ∀ r ∈ rs, r.length = (rs.headD []).length := by
  unfold readAll at h
  split at h
  · cases h
  · rename_i rs' _
    split at h
    · rename_i hok
      have := Res.ok.inj h
      subst this
      cases rs' with
      | nil => intro r hr; cases hr
      | cons r0 rest =>
        intro r hr
        rcases List.mem_cons.mp hr with rfl | hr
        · rfl
        · simp only [fieldCountOk, List.all_eq_true] at hok
          simpa using hok r hr
    · cases h

/-- a quote that is opened and never closed is an error -/
theorem reader_rejects_unterminated_quote (body : Str) (hb : cQuote ∉ body) :
    ∃ e, readAll (cQuote :: body) = .error e := by
  refine ⟨.quote, ?_⟩
  unfold readAll
  rw [normalise_cons_ne cQuote body (by decide)]
  have hn : cQuote ∉ normalise body := fun hm => hb (mem_of_mem_normalise body _ hm)
  have : machine .recStart [] [] [] (cQuote :: normalise body) = .error .quote := by
    rw [machine, if_neg (by decide), if_pos rfl]
    exact machine_quoted_noquote _ _ _ _ hn
  rw [this]

/-- a bare quote inside an unquoted field is an error -/
example : readAll [97, 34, 98, 10] = .error .bareQuote := by decide

/-- witnesses for the other rejections: ragged record, repeated header, empty input -/
example : readAll [97, 44, 98, 10, 49, 10] = .error .fieldCount := by decide
example : hasDup [[97], [98], [97]] = true := by decide
example : readAll [] = .ok [] := by decide

/-- the rule produces only two kinds of cell: a float64 or a (trimmed) text — never an int, a bool or nil -/
theorem typeCell_kinds (ω : Oracle) (s : Str) :
    (∃ v, typeCell ω s = .flt false v) ∨ (∃ t, typeCell ω s = .str t) := by
  cases h : ω.parseFloat (ω.trim s) with
  | some v => exact .inl ⟨v, by simp [typeCell, h]⟩
  | none => exact .inr ⟨ω.trim s, by simp [typeCell, h]⟩

private theorem mem_insertStr' {k y : Str} {ns : List Str} (h : y ∈ Spec.insertStr k ns) : y = k ∨ y ∈ ns := by
  induction ns with
  | nil => simpa [Spec.insertStr] using h
  | cons x xs ih =>
    unfold Spec.insertStr at h
    split at h
    · exact .inr h
    · split at h
      · rcases List.mem_cons.mp h with h | h
        · exact .inl h
        · exact .inr h
      · rcases List.mem_cons.mp h with h | h
        · exact .inr (List.mem_cons.mpr (.inl h))
        · rcases ih h with h | h
          · exact .inl h
          · exact .inr (List.mem_cons.mpr (.inr h))

private theorem mem_foldl' {y : Str} (ks : List Str) {ns : List Str}
    (h : y ∈ ks.foldl (fun acc k => Spec.insertStr k acc) ns) : y ∈ ks ∨ y ∈ ns := by
  induction ks generalizing ns with
  | nil => exact .inr h
  | cons k ks ih =>
    rcases ih h with h | h
    · exact .inl (List.mem_cons.mpr (.inr h))
    · rcases mem_insertStr' h with h | h
      · exact .inl (List.mem_cons.mpr (.inl h))
      · exact .inr h

/-- hence every cell of every imported frame is a float64 or a text -/
theorem fromCSV_cell_kinds (ω : Oracle) (bytes : List UInt8) (f : Frame) (h : fromCSV ω bytes = .ok f) :
    ∀ name col, name ∈ f.keys → f.get? name = some col →
      ∀ c ∈ col.data, (∃ v, c = .flt false v) ∨ (∃ t, c = .str t) := by
  obtain ⟨hdr, recs, _, _, _, _, hk, hcols⟩ := fromCSV_ok_spec ω bytes f h
  intro name col hmem hg c hc
  rw [hk] at hmem
  have hin : name ∈ hdr := by
    rcases mem_foldl' hdr hmem with h | h
    · exact h
    · simp at h
  obtain ⟨j, hj⟩ := List.getElem?_of_mem hin
  have := hcols j name hj
  rw [hg] at this
  cases this
  obtain ⟨r, _, rfl⟩ := List.mem_map.mp hc
  exact typeCell_kinds ω _

end Goframe.C10
