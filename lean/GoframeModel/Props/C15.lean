import GoframeModel.Ops.Clean
import GoframeModel.Spec.Select
import GoframeModel.Lemmas.RefineA
import GoframeModel.Lemmas.Clean
/-
  C15 — cleaning and column conversion are exact and all-or-nothing.
-/
namespace Goframe.C15
open Goframe Frame

def outcomeOfOption (e : Option Frame) (o : Outcome Frame) : Prop :=
  match e with
  | some x => o = .ok x
  | none => o.isErr = true

/-- `FillNa` replaces exactly the nil cells and changes nothing else -/
theorem fillNa_spec (f : Frame) (v : Cell) : f.fillNa v = Spec.fillNaSpec f v := by
  exact fillNa_eq f v

/-- `DropNa` removes exactly the rows containing a nil and keeps the others in order -/
theorem dropNa_spec {f : Frame} {n : Nat} (hs : f.Sorted) (hr : f.RectN n) :
    f.dropNa = .ok (Spec.dropNaSpec f) := by
  exact dropNa_eq hs hr

/-- no float cell of the column is NaN or ±Inf (Go leaves `int(NaN)` implementation-defined) -/
def FiniteCol (f : Frame) (k : Str) : Prop :=
  ∀ c, f.get? k = some c → ∀ x ∈ c.data, x ≠ .flt false .nan ∧ x ≠ .flt false .pinf ∧ x ≠ .flt false .ninf

/-- `Astype` converts every cell of the column by the documented rule, or returns an error (and then,
the model being a function of the old frame, nothing is changed) -/
theorem astype_spec (ω : Oracle) {f : Frame} (hs : f.Sorted) (k ty : Str) (hfin : FiniteCol f k) :
    outcomeOfOption (Spec.astypeSpec ω f k ty) (f.astype ω k ty) := by
  have h := astype_refines ω hs k ty hfin
  unfold outcomeOfOption
  split <;> rename_i e <;> rw [e] at h
  · exact h.some
  · exact h.none

theorem addDatetimeIndex_spec (ω : Oracle) {f : Frame} (hs : f.Sorted) (k layout : Str) :
    outcomeOfOption (Spec.addDatetimeIndexSpec ω f k layout) (f.addDatetimeIndex ω k layout) := by
  have h := addDatetimeIndex_refines ω hs k layout
  unfold outcomeOfOption
  split <;> rename_i e <;> rw [e] at h
  · exact h.some
  · exact h.none

/-- a successful conversion touches only the named column -/
theorem astype_other_columns (ω : Oracle) {f f' : Frame} (hs : f.Sorted) (k ty : Str)
    (h : f.astype ω k ty = .ok f') : ∀ k', k' ≠ k → f'.get? k' = f.get? k' := by
  have _ := hs
  exact astype_other h

/-- float64 → int is truncation toward zero -/
theorem trunc_toward_zero (q : Rat) :
    (0 ≤ q → (truncToInt q : Rat) ≤ q ∧ q < (truncToInt q : Rat) + 1) ∧
    (q ≤ 0 → q ≤ (truncToInt q : Rat) ∧ (truncToInt q : Rat) - 1 < q) := by
  exact truncToInt_bounds q

end Goframe.C15
