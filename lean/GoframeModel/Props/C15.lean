import GoframeModel.Ops.Clean
import GoframeModel.Spec.Select
import GoframeModel.Lemmas.RefineA
import GoframeModel.Lemmas.Clean
/-
  C15 — cleaning and column conversion are exact and all-or-nothing.
-/
namespace Goframe.C15
open Goframe Frame

def outcomeOfOption (e : Option Frame) (o : Outcome Frame) : Prop :=
  match e with
  | some x => o = .ok x
  | none => o.isErr = true

/-- `FillNa` replaces exactly the nil cells and changes nothing else -/
theorem fillNa_spec (f : Frame) (v : Cell) : f.fillNa v = Spec.fillNaSpec f v := by
  exact fillNa_eq f v

/-- `DropNa` removes exactly the rows containing a nil and keeps the others in order -/
theorem dropNa_spec {f : Frame} {n : Nat} (hs : f.Sorted) (hr : f.RectN n) :
    f.dropNa = .ok (Spec.dropNaSpec f) := by
  exact dropNa_eq hs hr

/-- no float cell of the column is NaN or ±Inf (Go leaves `int(NaN)` implementation-defined) -/
def FiniteCol (f : Frame) (k : Str) : Prop :=
  ∀ c, f.get? k = some c → ∀ x ∈ c.data, x ≠ .flt false .nan ∧ x ≠ .flt false .pinf ∧ x ≠ .flt false .ninf

/-- `Astype` converts every cell of the column by the documented rule, or returns an error (and then,
the model being a function of the old frame, nothing is changed) -/
theorem astype_spec (ω : Oracle) {f : Frame} (hs : f.Sorted) (k ty : Str) (hfin : FiniteCol f k) :
    outcomeOfOption (Spec.astypeSpec ω f k ty) (f.astype ω k ty) := by
  have h := astype_refines ω hs k ty hfin
  unfold outcomeOfOption
  split <;> rename_i e <;> rw [e] at h
  · exact h.some
  · exact h.none

theorem addDatetimeIndex_spec (ω : Oracle) {f : Frame} (hs : f.Sorted) (k layout : Str) :
    outcomeOfOption (Spec.addDatetimeIndexSpec ω f k layout) (f.addDatetimeIndex ω k layout) := by
  have h := addDatetimeIndex_refines ω hs k layout
  unfold outcomeOfOption
  split <;> rename_i e <;> rw [e] at h
  · exact h.some
  · exact h.none

/-- a successful conversion touches only the named column -/
theorem astype_other_columns (ω : Oracle) {f f' : Frame} (hs : f.Sorted) (k ty : Str)
    (h : f.astype ω k ty = .ok f') : ∀ k', k' ≠ k → f'.get? k' = f.get? k' := by
  have _ := hs
  exact astype_other h

/-- float64 → int is truncation toward zero -/
theorem trunc_toward_zero (q : Rat) :
    (0 ≤ q → (truncToInt q : Rat) ≤ q ∧ q < (truncToInt q : Rat) + 1) ∧
    (q ≤ 0 → q ≤ (truncToInt q : Rat) ∧ (truncToInt q : Rat) - 1 < q) := by
  exact truncToInt_bounds q

/-! ### consequences: the cleaned frame is clean, cleaning twice is cleaning once (every frame, every value) -/
theorem fillNa_idempotent (f : Frame) (v : Cell) : (f.fillNa v).fillNa v = f.fillNa v := by
  unfold Frame.fillNa
  rw [List.map_map]
  apply List.map_congr_left
  intro kc _
  simp only [Function.comp, List.map_map]
  congr 2
  apply List.map_congr_left
  intro c _
  simp only [Function.comp]
  cases hc : c.isNil <;> simp [hc]

theorem fillNa_no_nil (f : Frame) (v : Cell) (hv : v ≠ .nil) :
    ∀ kc ∈ f.fillNa v, ∀ c ∈ kc.2.data, c ≠ .nil := by
  intro kc hkc c hc
  unfold Frame.fillNa at hkc
  obtain ⟨kc0, _, rfl⟩ := List.mem_map.mp hkc
  simp only [List.mem_map] at hc
  obtain ⟨c0, _, rfl⟩ := hc
  cases c0 <;> simp [Cell.isNil, hv]

theorem fillNa_shape (f : Frame) (v : Cell) {n : Nat} (hr : f.RectN n) :
    (f.fillNa v).keys = f.keys ∧ (f.fillNa v).RectN n := by
  constructor
  · unfold Frame.fillNa Frame.keys; simp [List.map_map, Function.comp]
  · intro kc hkc
    unfold Frame.fillNa at hkc
    obtain ⟨kc0, h0, rfl⟩ := List.mem_map.mp hkc
    have := hr kc0 h0
    simpa using this

theorem fillNa_clean_id (f : Frame) (v : Cell) (h : ∀ kc ∈ f, ∀ c ∈ kc.2.data, c ≠ .nil) :
    f.fillNa v = f := by
  unfold Frame.fillNa
  conv => rhs; rw [← List.map_id f]
  apply List.map_congr_left
  intro kc hkc
  have : kc.2.data.map (fun c => if c.isNil then v else c) = kc.2.data := by
    conv => rhs; rw [← List.map_id kc.2.data]
    apply List.map_congr_left
    intro c hc
    have := h kc hkc c hc
    cases c <;> simp_all [Cell.isNil]
  simp [this]

theorem dropNaSpec_no_nil {f : Frame} (hs : f.Sorted) :
    ∀ kc ∈ Spec.dropNaSpec f, ∀ c ∈ kc.2.data, c ≠ .nil := by
  intro kc hkc c hc
  unfold Spec.dropNaSpec Spec.ofRows at hkc
  obtain ⟨k, hk, rfl⟩ := List.mem_map.mp hkc
  simp only [List.mem_map, List.mem_filter] at hc
  obtain ⟨r, ⟨hr, hall⟩, rfl⟩ := hc
  unfold Spec.rowsOf at hr
  obtain ⟨i, _, rfl⟩ := List.mem_map.mp hr
  unfold Frame.keys at hk
  obtain ⟨kc0, hkc0, rfl⟩ := List.mem_map.mp hk
  have hg := Row.getD_rowMap_of_mem hs (k := kc0.1) (c := kc0.2) hkc0 i
  rw [hg]
  have hmem : (kc0.1, kc0.2.data.getD i .nil) ∈ f.rowMap i := by
    unfold Frame.rowMap
    exact List.mem_map.mpr ⟨kc0, hkc0, rfl⟩
  have := (List.all_eq_true.mp hall) _ hmem
  simpa using this

theorem dropNa_no_nil {f f' : Frame} {n : Nat} (hs : f.Sorted) (hr : f.RectN n) (h : f.dropNa = .ok f') :
    ∀ kc ∈ f', ∀ c ∈ kc.2.data, c ≠ .nil := by
  rw [dropNa_eq hs hr] at h
  cases h
  exact dropNaSpec_no_nil hs

/-- non-vacuity: a frame with a nil in each position class is filled, and dropping keeps the clean row -/
example : (Frame.fillNa [([97], { name := [97], data := [.nil, .int .int 2] })] (.int .int 0)) =
    [([97], { name := [97], data := [.int .int 0, .int .int 2] })] := by decide

end Goframe.C15
