import GoframeModel.Ops.Clean
import GoframeModel.Spec.SortDedup
import GoframeModel.Lemmas.RefineD
import GoframeModel.Lemmas.Dedup
import GoframeModel.Lemmas.DedupRows
/-
  C07 — DropDuplicates removes exactly the redundant rows and nothing else.
  The code compares rows through a string key (`getRowKey`); the specification compares cells. The
  bridge is the injectivity of the key, proved for all strings (length-prefix argument) relative to one
  law about `%v` on floats and times.
-/
namespace Goframe.C07
open Goframe Frame

/-- the only stdlib law needed: two float (or two time) cells of the same Go type that print alike
under `%v` are the same cell -/
def FmtInj (ω : Oracle) : Prop :=
  (∀ s a b, ω.fmtFloat s a = ω.fmtFloat s b → a = b) ∧ (∀ a b, ω.fmtTime a = ω.fmtTime b → a = b)

/-- one cell's key determines the cell -/
theorem cellKey_injective (ω : Oracle) (h : FmtInj ω) (name : Str) (a b : Cell) (rest₁ rest₂ : Str)
    (hk : cellKey ω name a ++ rest₁ = cellKey ω name b ++ rest₂) : a = b ∧ rest₁ = rest₂ :=
  Dedup.cellKey_inj ω h.1 h.2 name a b rest₁ rest₂ hk

/-- two rows have the same key iff they are identical on the compared columns — whatever characters
the values contain -/
theorem rowKey_injective (ω : Oracle) (h : FmtInj ω) {f : Frame} {n : Nat} (hs : f.Sorted) (hr : f.RectN n)
    (cs : List Str) (hcs : ∀ c ∈ cs, f.has c = true) (i j : Nat) (hi : i < n) (hj : j < n) :
    ∃ ki kj, f.rowKey ω i cs = .ok ki ∧ f.rowKey ω j cs = .ok kj ∧
      (ki = kj ↔ Spec.sameOn cs (f.rowMap i) (f.rowMap j) = true) :=
  -- (sortedness is not needed here: `get?` and `Row.getD` both read the first entry of a key)
  have _ := hs
  ⟨_, _, Dedup.rowKey_eq ω hr cs hcs i hi, Dedup.rowKey_eq ω hr cs hcs j hj,
    Dedup.keyOf_eq_iff ω h.1 h.2 cs _ _⟩

/-- the result is exactly the specification's: first / last / no member of each class of identical
rows, in original order; without `Inplace` the receiver is untouched, with it the receiver is the result -/
theorem dedup_spec (ω : Oracle) (h : FmtInj ω) {f : Frame} {n : Nat} (hs : f.Sorted) (hr : f.RectN n)
    (o : DedupOpts) :
    (match Spec.dedupSpec f o.subset o.keep with
     | some e => f.dropDuplicates ω o = .ok (if o.inplace then (e, e) else (f, e))
     | none => (f.dropDuplicates ω o).isErr = true) := by
  have hr' := Frame.rectN_nrows hr
  unfold Spec.dedupSpec Frame.dropDuplicates
  generalize (if o.subset.isEmpty then f.keys else o.subset) = cols
  cases hp : parseKeep o.keep with
  | none => simp [Outcome.isErr]
  | some keep =>
    by_cases hany : cols.any (fun c => !f.has c) = true
    · simp [hany, Outcome.isErr]
    · have hcs : ∀ c ∈ cols, f.has c = true := by simpa using hany
      obtain ⟨keys, hkeys, hout⟩ := Dedup.dedup_core ω h.1 h.2 hs hr' cols hcs keep
      have hname : f.map (fun kc => (kc.1, { kc.2 with data := pick kc.2.data (keepIdx keep keys) })) =
          f.map (fun kc => (kc.1, { name := kc.1, data := pick kc.2.data (keepIdx keep keys) })) := by
        apply List.map_congr_left
        intro kc hkc
        rw [← (hr kc hkc).2]
      simp only [hany, hkeys, hout, hname, Outcome.bind_ok, Outcome.pure_eq]
      cases o.inplace <;> simp

/-- the pinned key (`name:value|`, nil rendered as `nil`) merges distinct rows: finding D7/D8 -/
theorem pinned_key_collides :
    let key (a b : Str) : Str := [97, 58] ++ a ++ [124] ++ [98, 58] ++ b ++ [124]
    key ([120, 124, 98, 58, 121]) ([122]) = key ([120]) ([121, 124, 98, 58, 122]) := by
  decide

/-- C01's row-alignment clause for DropDuplicates: whatever rows survive, each of them — all its cells together —
is a row of the receiver, and the columns are the receiver's -/
theorem dedup_rows_whole (ω : Oracle) (h : FmtInj ω) {f : Frame} {n : Nat} (hs : f.Sorted) (hr : f.RectN n)
    (o : DedupOpts) (src out : Frame) (hd : f.dropDuplicates ω o = .ok (src, out)) :
    out.keys = f.keys ∧ ∀ r ∈ out.rows, r ∈ f.rows := by
  have hsp := dedup_spec ω h hs hr o
  cases he : Spec.dedupSpec f o.subset o.keep with
  | none =>
    rw [he] at hsp
    rw [hd] at hsp
    simp [Outcome.isErr] at hsp
  | some e =>
    rw [he] at hsp
    have hout : out = e := by
      rw [hd] at hsp
      injection hsp with hsp
      cases hi : o.inplace <;> rw [hi] at hsp <;> simp at hsp <;> exact hsp.2
    subst hout
    obtain ⟨cs, kp, rfl⟩ := DedupRows.dedupSpec_some he
    exact DedupRows.ofRows_rows_whole hs _ (DedupRows.dedupRows_subset _ _ _)

/-- the surviving rows are a SUBLIST of the receiver's rows: kept rows keep their original relative order, and no row is
invented or repeated beyond its own occurrences -/
theorem dedupRows_sublist (cs : List Str) (keep : Frame.Keep) (rows : List Row) :
    (Spec.dedupRows cs keep rows).Sublist rows := by
  unfold Spec.dedupRows
  have h : ∀ p : Row × Nat → Bool, ((rows.zipIdx.filter p).map (·.1)).Sublist rows := by
    intro p
    have h1 : ((rows.zipIdx.filter p).map (·.1)).Sublist (rows.zipIdx.map (·.1)) :=
      List.Sublist.map _ List.filter_sublist
    rwa [List.zipIdx_map_fst] at h1
  exact h _

/-- so de-duplication never makes a frame taller -/
theorem dedupRows_length_le (cs : List Str) (keep : Frame.Keep) (rows : List Row) :
    (Spec.dedupRows cs keep rows).length ≤ rows.length :=
  (dedupRows_sublist cs keep rows).length_le

end Goframe.C07
