import GoframeModel.Props.C11
import GoframeModel.Props.C13
/-
  C11, continued — through the SQL TEXT: the statements goframe renders are parsed back by the independent
  lexer/parser into exactly their structured meaning, so executing the rendered text of a plan leaves the
  table holding exactly the frame's rows.
-/
namespace Goframe.C11
open Goframe Sql

/-- DROP and INSERT: for every table and column name, parsing the rendered text gives back the statement -/
theorem parse_render_drop (d : Dialect) (t : Str) : parse (lex d (render d (.drop t))) = some (toP d (.drop t)) := by
  sorry

theorem parse_render_insert (d : Dialect) (t : Str) (cols : List Str) (n : Nat) (hc : cols ≠ []) (hn : 0 < n) :
    parse (lex d (render d (.insert t cols n))) = some (toP d (.insert t cols n)) := by
  sorry

/-- CREATE with the types goframe infers (no TypeMap override) -/
theorem parse_render_create (d : Dialect) (t : Str) (cols : List (Str × Cell)) (hc : cols ≠ []) :
    let stmt := Stmt.create t (cols.map (fun kc => (kc.1, sqlTypeOf d kc.2)))
    parse (lex d (render d stmt)) = some (toP d stmt) := by
  sorry

/-- execute statement TEXTS with their bound values on the abstract database -/
def execTexts (d : Dialect) : DB → List (Str × List Cell) → Option DB
  | db, [] => some db
  | db, (text, args) :: rest =>
    match parse (lex d text) with
    | none => none
    | some s => (execP db s args).bind (fun db' => execTexts d db' rest)

def textsOf (d : Dialect) (calls : List Call) : List (Str × List Cell) :=
  calls.filterMap (fun c => match c with
    | .exec s args => some (render d s, args)
    | _ => none)

/-- new table (or replace), no TypeMap: executing the RENDERED SQL TEXT of the plan, lexed and parsed by the
independent lexer, leaves the table holding exactly the frame's rows in frame order -/
theorem rendered_plan_final_table_new (f : Frame) {n : Nat} (hs : f.Sorted) (hr : f.RectN n) (hne : f ≠ []) (table : Str)
    (r : Resolved) (hb : 0 < r.batch) (htm : r.typeMap = []) (ex : Bool) (hmode : ex = false ∨ r.mode = .replace) :
    let old : Table := { cols := f.keys.map (fun k => (k, [])), rows := [f.keys.map (fun k => (k, Cell.nil))] }
    let init : DB := if ex then [(table, old)] else []
    ∃ db', execTexts r.dialect init (textsOf r.dialect (bodyAfterQuery f table r ex).1) = some db' ∧
      (db'.get? table).map (·.rows) =
        some ((List.range n).map (fun i => f.map (fun kc => (kc.1, bound (kc.2.data.getD i .nil))))) := by
  sorry

end Goframe.C11
