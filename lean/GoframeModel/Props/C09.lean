import GoframeModel.Std.Csv
import GoframeModel.Spec.Table
import GoframeModel.Lemmas.CsvFrame
/-
  C09 — CSV export followed by import reproduces the frame.
  Two layers: (1) the csv layer — `readAll (writeAll q recs) = recs` for every table of strings, by
  induction over records, fields and bytes against the reader's state machine; (2) the cell layer —
  `%v` rendering followed by the typing rule gives back the number / the text.
-/
namespace Goframe.C09
open Goframe Frame Csv CsvLemmas

/-- no field contains a carriage return directly followed by a line feed (the reader normalises CR LF to
LF even inside quotes) -/
def hasCRLF : Str → Bool
  | 13 :: 10 :: _ => true
  | _ :: rest => hasCRLF rest
  | [] => false

def NoCRLF (recs : List (List Str)) : Prop := ∀ r ∈ recs, ∀ s ∈ r, hasCRLF s = false

/-- csv layer: any table with records of one positive width and no CR LF inside a field is read back
exactly, for every quoting decision `q` that quotes at least what must be quoted. Commas, quotes and
line breaks inside fields never shift a field into another column or row. -/
theorem csv_layer_roundtrip (q : Str → Bool) (hq : ∀ s, mustQuote s = true → q s = true)
    (recs : List (List Str)) (w : Nat) (hw : 0 < w) (hlen : ∀ r ∈ recs, r.length = w) (hcr : NoCRLF recs) :
    readAll (writeAll q recs) = .ok recs := by
  -- `hasCRLF` is the function `CsvLemmas.crlf`
  have bridge : ∀ s : Str, hasCRLF s = crlf s := by
    intro s
    induction s with
    | nil => rfl
    | cons a r ih =>
      cases r with
      | nil => rw [hasCRLF.eq_2 a [] (by intro _ _ h; cases h), hasCRLF.eq_3]; rfl
      | cons b r' =>
        by_cases hab : a = 13 ∧ b = 10
        · obtain ⟨rfl, rfl⟩ := hab
          rw [hasCRLF.eq_1]; rfl
        · rw [hasCRLF.eq_2 a (b :: r') (by
            intro t ha hb
            exact hab ⟨ha, (List.cons.inj hb).1⟩), ih]
          have : (a == cCR && b == cLF) = false := by
            cases h : (a == cCR && b == cLF) with
            | false => rfl
            | true =>
              simp only [Bool.and_eq_true, beq_iff_eq] at h
              exact absurd ⟨h.1, h.2⟩ hab
          simp only [crlf, this, Bool.false_or]
  exact readAll_writeAll q hq recs w hw hlen
    (fun r hr s hs => by rw [← bridge]; exact hcr r hr s hs)

/-- the standard writer's decision quotes everything that must be quoted -/
theorem needsQuotes_covers (s : Str) (h : mustQuote s = true) : needsQuotes s = true := by
  unfold needsQuotes
  split
  · rename_i h0; subst h0; simp [mustQuote] at h
  · split
    · rfl
    · simp [h]

/-- what a cell comes back as: numbers as float64 of the same value, text unchanged -/
def normalize : Cell → Cell
  | .int _ v => .flt false (.fin v)
  | .flt _ v => .flt false v
  | c => c

/-- the stdlib laws the cell layer needs, stated on one cell: `%v` of a number is trimmed and parses back
to the same value; text is trimmed and does not read as a number (the property's own domain) -/
def CellLaw (ω : Oracle) : Cell → Prop
  | .int _ v => ω.trim (intStr v) = intStr v ∧ ω.parseFloat (intStr v) = some (.fin v)
  | .flt s v => ω.trim (ω.fmtFloat s v) = ω.fmtFloat s v ∧ ω.parseFloat (ω.fmtFloat s v) = some v
  | .str t => ω.trim t = t ∧ ω.parseFloat t = none
  | _ => False

theorem cell_roundtrip (ω : Oracle) (c : Cell) (h : CellLaw ω c) : typeCell ω (ω.fmtV c) = normalize c := by
  cases c with
  | nil => exact absurd h (by simp [CellLaw])
  | int ty v =>
    obtain ⟨h1, h2⟩ := h
    simp [typeCell, Oracle.fmtV, normalize, h1, h2]
  | flt s v =>
    obtain ⟨h1, h2⟩ := h
    simp [typeCell, Oracle.fmtV, normalize, h1, h2]
  | str t =>
    obtain ⟨h1, h2⟩ := h
    simp [typeCell, Oracle.fmtV, normalize, h1, h2]
  | bool b => exact absurd h (by simp [CellLaw])
  | time t => exact absurd h (by simp [CellLaw])

/-- whole frame: export then import gives the same names, the same number of rows in the same order,
numbers numerically identical as float64 and text identical -/
theorem C09_roundtrip (ω : Oracle) {f : Frame} {n : Nat} (hs : f.Sorted) (hr : f.RectN n) (hne : f ≠ [])
    (hcells : ∀ kc ∈ f, ∀ c ∈ kc.2.data, CellLaw ω c)
    (hcr : NoCRLF (toCSVRecords ω f)) :
    fromCSV ω (toCSV ω f) =
      .ok (f.map (fun kc => (kc.1, { name := kc.1, data := kc.2.data.map normalize }))) := by
  have hw : 0 < f.length := by
    cases f with
    | nil => exact absurd rfl hne
    | cons _ _ => simp
  exact fromCSV_toCSV ω normalize hs hr hne
    (fun kc hkc c hc => cell_roundtrip ω c (hcells kc hkc c hc))
    (csv_layer_roundtrip needsQuotes needsQuotes_covers _ f.length hw (toCSVRecords_width ω f) hcr)

/-- the pinned writer loses a lone empty field (finding D10): ["", "x", ""] in one column comes back as ["x"] -/
theorem lone_empty_pinned :
    readAll ([[[]], [[120]], [[]]].flatMap (writeRecordPinned needsQuotes)) = .ok [[[120]]] ∧
    readAll (writeAll needsQuotes [[[]], [[120]], [[]]]) = .ok [[[]], [[120]], [[]]] := by
  decide

/-- the CR LF hypothesis is forced: a field "a\r\nb" comes back as "a\nb" -/
example : readAll (writeAll needsQuotes [[[97, 13, 10, 98]]]) = .ok [[[97, 10, 98]]] := by decide

/-- what a round trip does to a cell it does once: the imported cell is already in imported form -/
theorem normalize_idem (c : Cell) : normalize (normalize c) = normalize c := by
  cases c <;> rfl

/-- the imported frame is a fixed point: exporting and importing it again returns it unchanged
(a second round trip changes nothing — no drift of types or values) -/
theorem roundtrip_fixed_point (ω : Oracle) {f : Frame} {n : Nat} (hs : f.Sorted) (hr : f.RectN n) (hne : f ≠ []) :
    let g : Frame := f.map (fun kc => (kc.1, { name := kc.1, data := kc.2.data.map normalize }))
    (∀ kc ∈ g, ∀ c ∈ kc.2.data, CellLaw ω c) → NoCRLF (toCSVRecords ω g) →
    fromCSV ω (toCSV ω g) = .ok g := by
  intro g hcells hcr
  have hsg : g.Sorted := by
    unfold Frame.Sorted at hs ⊢
    simpa [g, List.pairwise_map] using hs
  have hrg : g.RectN n := by
    intro kc hkc
    obtain ⟨kc0, h0, rfl⟩ := List.mem_map.mp hkc
    exact ⟨by simpa using (hr kc0 h0).1, rfl⟩
  have hneg : g ≠ [] := by
    intro h; apply hne; simpa [g] using h
  rw [C09_roundtrip ω hsg hrg hneg hcells hcr]
  congr 1
  simp only [g, List.map_map]
  apply List.map_congr_left
  intro kc _
  simp [Function.comp, normalize_idem]

end Goframe.C09
