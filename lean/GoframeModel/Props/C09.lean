import GoframeModel.Std.Csv
import GoframeModel.Spec.Table
/-
  C09 — CSV export followed by import reproduces the frame.
  Two layers: (1) the csv layer — `readAll (writeAll q recs) = recs` for every table of strings, by
  induction over records, fields and bytes against the reader's state machine; (2) the cell layer —
  `%v` rendering followed by the typing rule gives back the number / the text.
-/
namespace Goframe.C09
open Goframe Frame Csv

/-- no field contains a carriage return directly followed by a line feed (the reader normalises CR LF to
LF even inside quotes) -/
def hasCRLF : Str → Bool
  | 13 :: 10 :: _ => true
  | _ :: rest => hasCRLF rest
  | [] => false

def NoCRLF (recs : List (List Str)) : Prop := ∀ r ∈ recs, ∀ s ∈ r, hasCRLF s = false

/-- csv layer: any table with records of one positive width and no CR LF inside a field is read back
exactly, for every quoting decision `q` that quotes at least what must be quoted. Commas, quotes and
line breaks inside fields never shift a field into another column or row. -/
theorem csv_layer_roundtrip (q : Str → Bool) (hq : ∀ s, mustQuote s = true → q s = true)
    (recs : List (List Str)) (w : Nat) (hw : 0 < w) (hlen : ∀ r ∈ recs, r.length = w) (hcr : NoCRLF recs) :
    readAll (writeAll q recs) = .ok recs := by
  sorry

/-- the standard writer's decision quotes everything that must be quoted -/
theorem needsQuotes_covers (s : Str) (h : mustQuote s = true) : needsQuotes s = true := by
  sorry

/-- what a cell comes back as: numbers as float64 of the same value, text unchanged -/
def normalize : Cell → Cell
  | .int _ v => .flt false (.fin v)
  | .flt _ v => .flt false v
  | c => c

/-- the stdlib laws the cell layer needs, stated on one cell: `%v` of a number is trimmed and parses back
to the same value; text is trimmed and does not read as a number (the property's own domain) -/
def CellLaw (ω : Oracle) : Cell → Prop
  | .int _ v => ω.trim (intStr v) = intStr v ∧ ω.parseFloat (intStr v) = some (.fin v)
  | .flt s v => ω.trim (ω.fmtFloat s v) = ω.fmtFloat s v ∧ ω.parseFloat (ω.fmtFloat s v) = some v
  | .str t => ω.trim t = t ∧ ω.parseFloat t = none
  | _ => False

theorem cell_roundtrip (ω : Oracle) (c : Cell) (h : CellLaw ω c) : typeCell ω (ω.fmtV c) = normalize c := by
  sorry

/-- whole frame: export then import gives the same names, the same number of rows in the same order,
numbers numerically identical as float64 and text identical -/
theorem C09_roundtrip (ω : Oracle) {f : Frame} {n : Nat} (hs : f.Sorted) (hr : f.RectN n) (hne : f ≠ [])
    (hcells : ∀ kc ∈ f, ∀ c ∈ kc.2.data, CellLaw ω c)
    (hcr : NoCRLF (toCSVRecords ω f)) :
    fromCSV ω (toCSV ω f) =
      .ok (f.map (fun kc => (kc.1, { name := kc.1, data := kc.2.data.map normalize }))) := by
  sorry

/-- the pinned writer loses a lone empty field (finding D10): ["", "x", ""] in one column comes back as ["x"] -/
theorem lone_empty_pinned :
    readAll ([[[]], [[120]], [[]]].flatMap (writeRecordPinned needsQuotes)) = .ok [[[120]]] ∧
    readAll (writeAll needsQuotes [[[]], [[120]], [[]]]) = .ok [[[]], [[120]], [[]]] := by
  decide

/-- the CR LF hypothesis is forced: a field "a\r\nb" comes back as "a\nb" -/
example : readAll (writeAll needsQuotes [[[97, 13, 10, 98]]]) = .ok [[[97, 10, 98]]] := by decide

end Goframe.C09
