import GoframeModel.Step
import GoframeModel.Spec.Invalid
import GoframeModel.Lemmas.NoPanic
/-
  C20 — invalid requests produce errors, never panics, and leave frames untouched.
  The model's primitives are CHECKED (indexing, slicing, map-miss-then-field-access and type assertion
  yield `Outcome.panic` exactly where Go's unchecked ones would), so "never panics" is a theorem about
  the model: the guards of the code imply the guards of the primitives, for every argument value.
-/
namespace Goframe.C20
open Goframe Frame

/-- rectangular, distinct sorted keys, and fewer than 2^62 rows (Go slices cannot be longer) -/
def Good (p : Pool) : Prop := ∀ f ∈ p, f.Rect ∧ f.Sorted ∧ (f.nrows : Int) < 2 ^ 62

/-- public API operations (direct cell assignment `Columns[k].Data[i] = v` is not an API call) -/
def IsApi : Op → Prop
  | .setCell .. => False
  | _ => True

/-- NO PANIC: for rectangular frames and ANY argument values — unknown names, negative / out-of-range /
extreme indexes and counts, unknown option strings, mismatched operands, cells of the wrong type -/
theorem no_panic (ω : Oracle) (p : Pool) (op : Op) (hp : Good p) (hapi : IsApi op) :
    (opEffect ω p op).isPanic = false := by
  refine NoPanicLemmas.opEffect_np ω p op hp ?_
  intro t k i v hop
  subst hop
  exact hapi

/-- INVALID ⇒ ERROR: every request of a class the property names is answered with an error -/
theorem invalid_is_err (ω : Oracle) (p : Pool) (op : Op) (hp : Good p)
    (hinv : Spec.invalidRequest ω p op = true) : (opEffect ω p op).isErr = true :=
  NoPanicLemmas.opEffect_invalid_err ω p op hp hinv

/-- ERROR ⇒ UNTOUCHED: an operation that returns an error leaves every live frame as it was
(`step` produces a new pool only from a successful effect) -/
theorem err_unchanged (ω : Oracle) (p : Pool) (op : Op) (ops : List Op) (e : String)
    (h : step ω p op = .err e) : run ω p (op :: ops) = run ω p ops := by
  simp only [run, h]

/-- Head / Tail / RowSlice / Shift accept every 64-bit count, bound and offset -/
theorem counts_total (f : Frame) {n : Nat} (hr : f.RectN n) (hn : (n : Int) < 2 ^ 62) (c a b : Int) :
    (f.head c).isOk = true ∧ (f.tail c).isOk = true ∧ (f.rowSlice a b).Rect ∧ (f.shift c).Rect :=
  NoPanicLemmas.counts_total f hr hn c a b

/-- the pinned code paths panic (findings D14, D15, D16, D17), as `decide` witnesses on the pinned models -/
theorem pinned_head_panics :
    (Frame.headPinned [([97], { name := [97], data := [.int .int 1] })] (-1)).isPanic = true := by decide

/-- pinned `SortValues`/`Less`: the sort column is looked up without an existence check, then dereferenced -/
def lessPinnedLookup (f : Frame) (k : Str) : Outcome Col :=
  match f.get? k with
  | some c => .ok c
  | none => .panic "nil pointer dereference"

theorem pinned_sort_missing_panics :
    (lessPinnedLookup [([97], { name := [97], data := [.int .int 1, .int .int 2] })] [122, 122]).isPanic = true := by
  decide

end Goframe.C20
