import GoframeModel.Props.C14
import GoframeModel.Spec.SqlRead
/-
  C14, continued — the model of FromSQL equals the specification function for every result set.
-/
namespace Goframe.C14
open Goframe SqlRead

/-- For every result set with rectangular rows, every NULL policy, every ParseDates list and every entry
condition, outside the one class the property leaves open (`Spec.ambiguous`): the import returns exactly the
specified frame, or — exactly when the specification says so — an error and no frame. -/
theorem fromSQL_spec (ω : Oracle) (nilHandle : Bool) (query : Str) (queryErr : Bool) (rs : ResultSet) (o : Opts)
    (hw : ∀ r ∈ rs.rows, r.length = rs.names.length) (hwt : rs.types.length = rs.names.length)
    (herr : ∀ k, rs.errAt = some k → k ≤ rs.rows.length)
    (hamb : Spec.ambiguous ω rs o = false) :
    (match Spec.specFromSQL ω nilHandle query queryErr rs o with
     | some e => fromSQL ω nilHandle query queryErr rs o = .ok e
     | none => (fromSQL ω nilHandle query queryErr rs o).isOk = false) := by
  sorry

end Goframe.C14
