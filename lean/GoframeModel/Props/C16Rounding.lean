import GoframeModel.Core.Rounding
import GoframeModel.Lemmas.FloatErr
/-
  C16 / C05, the clause "(within floating-point rounding)": how far the float64 loop can be from the
  arithmetic value that the model computes exactly. Stated for every rounding function with relative error
  ≤ u, every list, every length — no bound on sizes.
-/
namespace Goframe
namespace C16R
open Rounding FloatErr

/-- Higham's bound for recursive summation: |fl-sum − Σx| ≤ ((1+u)ⁿ − 1)·Σ|x| -/
theorem fsum_error (fl : Rat → Rat) (u : Rat) (hu : 0 ≤ u) (h : RelErr fl u) (xs : List Rat) :
    rabs (fsum fl xs - exactSum xs) ≤ ((1 + u) ^ xs.length - 1) * absSum xs := by
  rw [rabs_eq_abs, exactSum_eq_sum, absSum_eq]
  exact fsum_error_abs fl u hu h xs

/-- (1+u)ⁿ − 1 ≤ nu / (1 − nu)  (γₙ) -/
theorem gamma_le (u : Rat) (n : Nat) (hu : 0 ≤ u) (h : (n : Rat) * u < 1) :
    (1 + u) ^ n - 1 ≤ (n : Rat) * u / (1 - (n : Rat) * u) :=
  FloatErr.gamma_le u n hu h

/-- for float64 and up to 4096 summands the error is below 2⁻⁴⁰·Σ|x| — the slack the correspondence check
allows on sums (`cellApproxS` in lean/Driver/Seq.lean) -/
theorem fsum_within_tolerance (fl : Rat → Rat) (h : RelErr fl u64) (xs : List Rat) (hn : xs.length ≤ 4096) :
    rabs (fsum fl xs - exactSum xs) * 1099511627776 ≤ absSum xs := by
  have hu : (0 : Rat) ≤ u64 := by unfold u64; norm_num
  have h1 := fsum_error fl u64 hu h xs
  have h2 := gamma64_le xs.length hn
  have hA : 0 ≤ absSum xs := by rw [absSum_eq]; exact asum_nonneg xs
  have h3 := mul_le_mul_of_nonneg_right h1 (by norm_num : (0 : Rat) ≤ 1099511627776)
  have h4 := mul_le_mul_of_nonneg_right h2 hA
  calc rabs (fsum fl xs - exactSum xs) * 1099511627776
      ≤ ((1 + u64) ^ xs.length - 1) * absSum xs * 1099511627776 := h3
    _ = ((1 + u64) ^ xs.length - 1) * 1099511627776 * absSum xs := by
        rw [mul_assoc, mul_comm (absSum xs), ← mul_assoc]
    _ ≤ 1 * absSum xs := h4
    _ = absSum xs := one_mul _

/-- the mean: one more rounding for the quotient -/
theorem fmean_error (fl : Rat → Rat) (u : Rat) (hu : 0 ≤ u) (h : RelErr fl u) (xs : List Rat) (hne : xs ≠ []) :
    rabs (fmean fl xs - exactSum xs / (xs.length : Rat)) ≤
      ((1 + u) ^ (xs.length + 1) - 1) * absSum xs / (xs.length : Rat) := by
  have hlen : (0 : Rat) < (xs.length : Rat) := by
    have : 0 < xs.length := List.length_pos_iff.mpr hne
    exact_mod_cast this
  rw [rabs_eq_abs, exactSum_eq_sum, absSum_eq, pow_succ, mul_comm ((1 + u) ^ xs.length) (1 + u)]
  unfold fmean
  exact mean_step u ((1 + u) ^ xs.length) _ xs.sum (fsum fl xs) _ _ hu hlen (abs_sum_le xs)
    (fsum_error_abs fl u hu h xs) (relErr_abs h _)

/-- summing the same numbers in another order moves the float result by at most twice the bound -/
theorem fsum_perm_close (fl : Rat → Rat) (u : Rat) (hu : 0 ≤ u) (h : RelErr fl u) (xs ys : List Rat) (hp : xs.Perm ys) :
    rabs (fsum fl xs - fsum fl ys) ≤ 2 * (((1 + u) ^ xs.length - 1) * absSum xs) := by
  rw [rabs_eq_abs, absSum_eq]
  have h1 := fsum_error_abs fl u hu h xs
  have h2 := fsum_error_abs fl u hu h ys
  rw [← hp.length_eq, ← hp.sum_eq, ← (hp.map abs).sum_eq] at h2
  have e : fsum fl xs - fsum fl ys = (fsum fl xs - xs.sum) + -(fsum fl ys - xs.sum) := by ring
  have a := abs_add_le (fsum fl xs - xs.sum) (-(fsum fl ys - xs.sum))
  rw [← e, abs_neg] at a
  linarith

/-- conservation in floating point (C05): the float sums of the groups, added up in float, stay within the
bound of the float sum of the whole column, for every way of splitting the column into groups -/
theorem grouped_fsum_close (fl : Rat → Rat) (u : Rat) (hu : 0 ≤ u) (h : RelErr fl u) (xs : List Rat) (gs : List (List Rat))
    (hp : gs.flatten.Perm xs) :
    rabs (fsum fl (gs.map (fsum fl)) - fsum fl xs) ≤
      ((1 + u) ^ gs.length * (1 + u) ^ xs.length - 1) * absSum xs + ((1 + u) ^ xs.length - 1) * absSum xs := by
  rw [rabs_eq_abs, absSum_eq]
  exact grouped_abs fl u hu h xs gs hp

/-- the premises are satisfiable: the identity rounds with error 0, and a concrete non-exact rounding -/
example : RelErr (fun x => x) 0 := by
  intro x
  simp [rabs]

example : fsum (fun x => x) [1, 2, 3] = 6 := by
  simp only [fsum, List.foldl_cons, List.foldl_nil]
  norm_num

end C16R
end Goframe
