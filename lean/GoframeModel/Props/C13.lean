import GoframeModel.Std.SqlLex
import GoframeModel.Lemmas.SqlLex
/-
  C13 — table and column names cannot break out of their SQL identifier.
  The lexer is an independent byte machine (Std/SqlLex.lean); the theorems hold for ALL names.
-/
namespace Goframe.C13
open Goframe Sql

/-- the identifier text is read back as exactly the name, and lexing stops exactly at its end -/
theorem lexQuoted_quoteIdent (q : UInt8) (name rest : Str) (h : rest.head? ≠ some q) :
    lexQuoted q (quoteIdent q name ++ rest) = some (name, rest) :=
  SqlLemmas.lexQuoted_quoteIdent q name rest h

/-- distinct names give distinct identifiers -/
theorem quoteIdent_injective (q : UInt8) (a b : Str) (h : quoteIdent q a = quoteIdent q b) : a = b :=
  SqlLemmas.quoteIdent_injective q a b h

/-- in the token machine: a quoted identifier followed by any text that does not start with the quote
character lexes to ONE `qident` token carrying exactly the name, then the tokens of the rest -/
theorem lex_quoteIdent (d : Dialect) (name rest : Str) (h : rest.head? ≠ some d.q) :
    run d .top (quoteIdent d.q name ++ rest) = .qident name :: run d .top rest :=
  SqlLemmas.lex_quoteIdent d name rest h

/-- DROP TABLE: exactly the three expected tokens, for every table name -/
theorem drop_tokens (d : Dialect) (t : Str) : lex d (render d (.drop t)) = tokensOf d (.drop t) :=
  SqlLemmas.drop_tokens d t

/-- INSERT: exactly the expected tokens — no name can end its identifier early or add tokens -/
theorem insert_tokens (d : Dialect) (t : Str) (cols : List Str) (n : Nat) :
    lex d (render d (.insert t cols n)) = tokensOf d (.insert t cols n) :=
  SqlLemmas.insert_tokens d t cols n

/-- a column type is "plain" when it consists of word bytes, blanks, parentheses and commas only and does
not end in a word byte adjacent to what follows (all types goframe infers are plain) -/
def PlainType (ty : Str) : Prop :=
  ∀ b ∈ ty, isWordByte b = true ∨ b = 32 ∨ b = 40 ∨ b = 41 ∨ b = 44

/-- CREATE TABLE: exactly the expected tokens for every table and column name (types plain) -/
theorem create_tokens (d : Dialect) (t : Str) (cols : List (Str × Str)) (hty : ∀ c ∈ cols, PlainType c.2) :
    lex d (render d (.create t cols)) = tokensOf d (.create t cols) :=
  SqlLemmas.create_tokens d t cols hty

/-- the pinned `QuoteIdentifier` (no escaping) lets the name a"b end the identifier early: finding D11 -/
theorem raw_breaks_out :
    lexQuoted 34 (rawQuote 34 [97, 34, 98]) ≠ some ([97, 34, 98], []) ∧
    lexQuoted 34 (quoteIdent 34 [97, 34, 98]) = some ([97, 34, 98], []) := by
  decide

/-- and the classic injection is a single harmless identifier after the repair -/
example : lex .sqlite (render .sqlite (.drop [120, 34, 59, 32, 68, 82, 79, 80, 32, 84, 65, 66, 76, 69, 32, 116, 59, 32, 45, 45])) =
    [.word [68, 82, 79, 80], .word [84, 65, 66, 76, 69],
     .qident [120, 34, 59, 32, 68, 82, 79, 80, 32, 84, 65, 66, 76, 69, 32, 116, 59, 32, 45, 45]] := by decide

/-- escaping only doubles quote characters: the identifier is the name plus one byte per quote character in it,
plus the two delimiters — nothing is dropped or truncated, whatever the length -/
theorem quoteIdent_length (q : UInt8) (name : Str) :
    (quoteIdent q name).length = name.length + (name.filter (· == q)).length + 2 := by
  have h : ∀ n : Str, (escape q n).length = n.length + (n.filter (· == q)).length := by
    intro n
    induction n with
    | nil => rfl
    | cons c rest ih =>
      by_cases hc : c = q
      · subst hc; simp [escape, ih]; omega
      · have hb : (c == q) = false := by simpa using hc
        simp [escape, hc, hb, ih]; omega
  simp [quoteIdent, h]

end Goframe.C13
