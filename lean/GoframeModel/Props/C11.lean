import GoframeModel.Ops.SqlWrite
import GoframeModel.Lemmas.SqlWrite
import GoframeModel.Props.C13
import GoframeModel.Lemmas.SqlParse
/-
  C11 — SQL export writes every cell exactly once, for any dialect and batch size.
-/
namespace Goframe.C11
open Goframe Sql

/-- the batches tile `0 … n-1` exactly: consecutive, non-empty, at most `b` rows each -/
theorem batches_cover (b n : Nat) (hb : 0 < b) :
    (batches b n).flatMap (fun lh => List.range' lh.1 (lh.2 - lh.1)) = List.range n ∧
    ∀ lh ∈ batches b n, lh.1 < lh.2 ∧ lh.2 - lh.1 ≤ b ∧ lh.2 ≤ n :=
  SqlLemmas.batches_cover b n hb

/-- Go's loop `for start := 0; start < n; start += b` with `end := start + b` never overflows 64 bits
for frames below 2^62 rows, whatever positive batch size is given -/
theorem batch_no_overflow (b n start : Int) (hb : 0 < b) (hbi : b < 2 ^ 63) (hn : n < 2 ^ 62)
    (hs : 0 ≤ start) (hsn : start < n) (hmul : ∃ k : Int, start = k * b) :
    (if start + b > n then n else start + b) = min (start + b) n ∧
    ((start + b < 2 ^ 63) ∨ (start = 0)) :=
  SqlLemmas.batch_no_overflow b n start hb hbi hn hs hsn hmul

/-- every INSERT carries exactly rows × columns bound values, row-major -/
theorem insert_args (f : Frame) (table : Str) (lo hi : Nat) :
    ∃ args, insertCall f table lo hi = .exec (.insert table f.keys (hi - lo)) args ∧
      args.length = (hi - lo) * f.ncols :=
  SqlLemmas.insert_args f table lo hi

/-- placeholders of a rendered INSERT: `nrows` groups of `ncols`, numbered 1..k for PostgreSQL, `?` otherwise -/
def phNumbers (d : Dialect) (ncols nrows : Nat) : List (List Nat) :=
  (List.range nrows).map (fun r => (List.range ncols).map (fun c =>
    match d with | .postgres => r * ncols + c + 1 | _ => 0))

/-- the structured meaning of a statement (no text involved) -/
def toP (d : Dialect) : Stmt → PStmt
  | .drop t => .drop t
  | .create t cols => .create t (cols.map (fun c => (c.1, lex d c.2)))
  | .insert t cols n => .insert t cols (phNumbers d cols.length n)

def execCalls (d : Dialect) : DB → List Call → Option DB
  | db, [] => some db
  | db, .exec s args :: rest => (execP db (toP d s) args).bind (fun db' => execCalls d db' rest)
  | db, _ :: rest => execCalls d db rest

/-- nil is stored as NULL, every numeric width as int64 / float64 -/
theorem bound_spec : bound .nil = .nil ∧ (∀ t v, bound (.int t v) = .int .int64 v) ∧
    (∀ s v, bound (.flt s v) = .flt false v) ∧ (∀ s, bound (.str s) = .str s) ∧ (∀ b, bound (.bool b) = .bool b) :=
  ⟨rfl, fun _ _ => rfl, fun _ _ => rfl, fun _ => rfl, fun _ => rfl⟩

/-- new table (or replace): executing the planned statements in order leaves the table holding exactly the
frame's rows in frame order, each cell under its own column -/
theorem plan_final_table_new (f : Frame) {n : Nat} (hs : f.Sorted) (hr : f.RectN n) (hne : f ≠ []) (table : Str)
    (r : Resolved) (hb : 0 < r.batch) (ex : Bool) (hmode : ex = false ∨ r.mode = .replace) :
    let old : Table := { cols := f.keys.map (fun k => (k, [])), rows := [f.keys.map (fun k => (k, Cell.nil))] }
    let init : DB := if ex then [(table, old)] else []
    ∃ db', execCalls r.dialect init (bodyAfterQuery f table r ex).1 = some db' ∧
      (db'.get? table).map (·.rows) =
        some ((List.range n).map (fun i => f.map (fun kc => (kc.1, bound (kc.2.data.getD i .nil))))) := by
  intro old init
  have sem : SqlLemmas.ExecSem (execCalls r.dialect) (toP r.dialect) :=
    ⟨fun _ => rfl, fun _ _ _ _ => rfl, fun _ => rfl,
      fun t cols => ⟨_, rfl, by simp [List.map_map, Function.comp_def]⟩,
      fun t cols n => ⟨_, rfl, by simp [phNumbers], by
        intro r hr; obtain ⟨i, _, rfl⟩ := List.mem_map.1 hr; simp⟩⟩
  exact SqlLemmas.plan_final_table_new sem f hr hne table r hb ex hmode old

/-- append: the existing rows stay, the frame's rows follow -/
theorem plan_final_table_append (f : Frame) {n : Nat} (hs : f.Sorted) (hr : f.RectN n) (hne : f ≠ []) (table : Str)
    (r : Resolved) (hb : 0 < r.batch) (hmode : r.mode = .append) (old : Table)
    (hold : old.cols.map (·.1) = f.keys) :
    ∃ db', execCalls r.dialect [(table, old)] (bodyAfterQuery f table r true).1 = some db' ∧
      (db'.get? table).map (·.rows) =
        some (old.rows ++ (List.range n).map (fun i => f.map (fun kc => (kc.1, bound (kc.2.data.getD i .nil))))) := by
  have sem : SqlLemmas.ExecSem (execCalls r.dialect) (toP r.dialect) :=
    ⟨fun _ => rfl, fun _ _ _ _ => rfl, fun _ => rfl,
      fun t cols => ⟨_, rfl, by simp [List.map_map, Function.comp_def]⟩,
      fun t cols n => ⟨_, rfl, by simp [phNumbers], by
        intro r hr; obtain ⟨i, _, rfl⟩ := List.mem_map.1 hr; simp⟩⟩
  exact SqlLemmas.plan_final_table_append sem f hr hne table r hb hmode old hold

/-- IfExists "fail" (the default) on an existing table: an error, and no statement is issued -/
theorem fail_mode_writes_nothing (f : Frame) (table : Str) (r : Resolved) (h : r.mode = .fail) :
    bodyAfterQuery f table r true = ([], false) :=
  SqlLemmas.fail_mode_writes_nothing f table r h

/-- option validation: unknown IfExists / negative BatchSize / unknown or missing dialect are errors
before any call is made -/
theorem invalid_options_no_calls (f : Frame) (table : Str) (o : WriteOpts) (ex : Bool) (fa : Option Nat)
    (h : (resolve o).isErr = true) : runBody f table o ex fa 0 = ([], false) :=
  SqlLemmas.invalid_options_no_calls f table o ex fa h

example : batches 2 5 = [(0, 2), (2, 4), (4, 5)] ∧ batches 1000 0 = [] ∧ batches 5 5 = [(0, 5)] := by decide


/-- DROP and INSERT: for every table and column name, parsing the rendered text gives back the statement -/
theorem parse_render_drop (d : Dialect) (t : Str) : parse (lex d (render d (.drop t))) = some (toP d (.drop t)) := by
  rw [C13.drop_tokens]
  exact SqlParseLemmas.parse_drop t

theorem parse_render_insert (d : Dialect) (t : Str) (cols : List Str) (n : Nat) (hc : cols ≠ []) (hn : 0 < n) :
    parse (lex d (render d (.insert t cols n))) = some (toP d (.insert t cols n)) := by
  rw [C13.insert_tokens, SqlParseLemmas.parse_tokensOf_insert d t cols n hc hn]
  have : phNumbers d cols.length n = SqlParseLemmas.phRows d cols.length n := by cases d <;> rfl
  simp only [toP, this]

/-- CREATE with the types goframe infers (no TypeMap override) -/
theorem parse_render_create (d : Dialect) (t : Str) (cols : List (Str × Cell)) (hc : cols ≠ []) :
    let stmt := Stmt.create t (cols.map (fun kc => (kc.1, sqlTypeOf d kc.2)))
    parse (lex d (render d stmt)) = some (toP d stmt) := by
  intro stmt
  have hplain : ∀ c ∈ cols.map (fun kc => (kc.1, sqlTypeOf d kc.2)), C13.PlainType c.2 := by
    intro c hc'
    obtain ⟨kc, _, rfl⟩ := List.mem_map.1 hc'
    exact SqlParseLemmas.sqlTypeOf_plain d kc.2
  have hgood : ∀ c ∈ cols.map (fun kc => (kc.1, sqlTypeOf d kc.2)), SqlParseLemmas.Good (lex d c.2) := by
    intro c hc'
    obtain ⟨kc, _, rfl⟩ := List.mem_map.1 hc'
    exact SqlParseLemmas.sqlTypeOf_good d kc.2
  show parse (lex d (render d (.create t _))) = some (toP d (.create t _))
  rw [C13.create_tokens d t _ hplain,
    SqlParseLemmas.parse_tokensOf_create d t _ (by simpa using hc) hgood]
  rfl

/-- execute statement TEXTS with their bound values on the abstract database -/
def execTexts (d : Dialect) : DB → List (Str × List Cell) → Option DB
  | db, [] => some db
  | db, (text, args) :: rest =>
    match parse (lex d text) with
    | none => none
    | some s => (execP db s args).bind (fun db' => execTexts d db' rest)

def textsOf (d : Dialect) (calls : List Call) : List (Str × List Cell) :=
  calls.filterMap (fun c => match c with
    | .exec s args => some (render d s, args)
    | _ => none)

/-- when every statement of a call list is parsed back from its rendered text, executing the texts is
executing the calls -/
theorem execTexts_eq_execCalls (d : Dialect) (calls : List Call)
    (h : ∀ s args, Call.exec s args ∈ calls → parse (lex d (render d s)) = some (toP d s)) (db : DB) :
    execTexts d db (textsOf d calls) = execCalls d db calls := by
  induction calls generalizing db with
  | nil => rfl
  | cons c rest ih =>
    have ih' := fun db => ih (fun s args hm => h s args (List.mem_cons_of_mem _ hm)) db
    cases c with
    | exec s args =>
      have hp := h s args (by simp)
      simp only [textsOf, List.filterMap_cons, execTexts, execCalls, hp]
      congr 1
      funext db'
      exact ih' db'
    | begin => simpa [textsOf, execCalls] using ih' db
    | query text args => simpa [textsOf, execCalls] using ih' db
    | commit => simpa [textsOf, execCalls] using ih' db
    | rollback => simpa [textsOf, execCalls] using ih' db

/-- every statement of an export plan without TypeMap is parsed back from its rendered text -/
theorem body_calls_parse (f : Frame) (hne : f ≠ []) (table : Str) (r : Resolved) (hb : 0 < r.batch)
    (htm : r.typeMap = []) (ex : Bool) (s : Stmt) (args : List Cell)
    (hmem : Call.exec s args ∈ (bodyAfterQuery f table r ex).1) :
    parse (lex r.dialect (render r.dialect s)) = some (toP r.dialect s) := by
  unfold bodyAfterQuery at hmem
  split at hmem
  · simp at hmem
  · simp only [List.mem_append] at hmem
    rcases hmem with (hmem | hmem) | hmem
    · split at hmem
      · simp only [List.mem_singleton, Call.exec.injEq] at hmem
        rw [hmem.1]; exact parse_render_drop _ _
      · simp at hmem
    · split at hmem
      · simp at hmem
      · simp only [List.mem_singleton, Call.exec.injEq] at hmem
        rw [hmem.1]
        have hcols : f.map (fun kc => (kc.1, columnType r.dialect r.typeMap kc.1 kc.2.data)) =
            (f.map (fun kc => (kc.1, firstNonNil kc.2.data))).map (fun kc => (kc.1, sqlTypeOf r.dialect kc.2)) := by
          simp [htm, columnType, List.map_map, Function.comp_def]
        rw [hcols]
        exact parse_render_create r.dialect table _ (by simpa using hne)
    · split at hmem
      · simp at hmem
      · obtain ⟨lh, hlh, heq⟩ := List.mem_map.1 hmem
        have hlt := ((batches_cover r.batch f.nrows hb).2 lh hlh).1
        simp only [insertCall, Call.exec.injEq] at heq
        rw [← heq.1]
        exact parse_render_insert r.dialect table f.keys _ (by simpa [Frame.keys] using hne) (by omega)

/-- new table (or replace), no TypeMap: executing the RENDERED SQL TEXT of the plan, lexed and parsed by the
independent lexer, leaves the table holding exactly the frame's rows in frame order -/
theorem rendered_plan_final_table_new (f : Frame) {n : Nat} (hs : f.Sorted) (hr : f.RectN n) (hne : f ≠ []) (table : Str)
    (r : Resolved) (hb : 0 < r.batch) (htm : r.typeMap = []) (ex : Bool) (hmode : ex = false ∨ r.mode = .replace) :
    let old : Table := { cols := f.keys.map (fun k => (k, [])), rows := [f.keys.map (fun k => (k, Cell.nil))] }
    let init : DB := if ex then [(table, old)] else []
    ∃ db', execTexts r.dialect init (textsOf r.dialect (bodyAfterQuery f table r ex).1) = some db' ∧
      (db'.get? table).map (·.rows) =
        some ((List.range n).map (fun i => f.map (fun kc => (kc.1, bound (kc.2.data.getD i .nil))))) := by
  intro old init
  rw [execTexts_eq_execCalls r.dialect _ (body_calls_parse f hne table r hb htm ex) init]
  exact plan_final_table_new f hs hr hne table r hb ex hmode


/-- append, no TypeMap: executing the RENDERED SQL TEXT of the plan (lexed and parsed by the independent lexer)
keeps the existing rows and adds the frame's rows after them, in frame order -/
theorem rendered_plan_final_table_append (f : Frame) {n : Nat} (hs : f.Sorted) (hr : f.RectN n) (hne : f ≠ []) (table : Str)
    (r : Resolved) (hb : 0 < r.batch) (htm : r.typeMap = []) (hmode : r.mode = .append) (old : Table)
    (hold : old.cols.map (·.1) = f.keys) :
    ∃ db', execTexts r.dialect [(table, old)] (textsOf r.dialect (bodyAfterQuery f table r true).1) = some db' ∧
      (db'.get? table).map (·.rows) =
        some (old.rows ++ (List.range n).map (fun i => f.map (fun kc => (kc.1, bound (kc.2.data.getD i .nil))))) := by
  rw [execTexts_eq_execCalls r.dialect _ (body_calls_parse f hne table r hb htm true) _]
  exact plan_final_table_append f hs hr hne table r hb hmode old hold

end Goframe.C11
