import GoframeModel.Ops.SqlWrite
import GoframeModel.Lemmas.SqlWrite
/-
  C11 — SQL export writes every cell exactly once, for any dialect and batch size.
-/
namespace Goframe.C11
open Goframe Sql

/-- the batches tile `0 … n-1` exactly: consecutive, non-empty, at most `b` rows each -/
theorem batches_cover (b n : Nat) (hb : 0 < b) :
    (batches b n).flatMap (fun lh => List.range' lh.1 (lh.2 - lh.1)) = List.range n ∧
    ∀ lh ∈ batches b n, lh.1 < lh.2 ∧ lh.2 - lh.1 ≤ b ∧ lh.2 ≤ n :=
  SqlLemmas.batches_cover b n hb

/-- Go's loop `for start := 0; start < n; start += b` with `end := start + b` never overflows 64 bits
for frames below 2^62 rows, whatever positive batch size is given -/
theorem batch_no_overflow (b n start : Int) (hb : 0 < b) (hbi : b < 2 ^ 63) (hn : n < 2 ^ 62)
    (hs : 0 ≤ start) (hsn : start < n) (hmul : ∃ k : Int, start = k * b) :
    (if start + b > n then n else start + b) = min (start + b) n ∧
    ((start + b < 2 ^ 63) ∨ (start = 0)) :=
  SqlLemmas.batch_no_overflow b n start hb hbi hn hs hsn hmul

/-- every INSERT carries exactly rows × columns bound values, row-major -/
theorem insert_args (f : Frame) (table : Str) (lo hi : Nat) :
    ∃ args, insertCall f table lo hi = .exec (.insert table f.keys (hi - lo)) args ∧
      args.length = (hi - lo) * f.ncols :=
  SqlLemmas.insert_args f table lo hi

/-- placeholders of a rendered INSERT: `nrows` groups of `ncols`, numbered 1..k for PostgreSQL, `?` otherwise -/
def phNumbers (d : Dialect) (ncols nrows : Nat) : List (List Nat) :=
  (List.range nrows).map (fun r => (List.range ncols).map (fun c =>
    match d with | .postgres => r * ncols + c + 1 | _ => 0))

/-- the structured meaning of a statement (no text involved) -/
def toP (d : Dialect) : Stmt → PStmt
  | .drop t => .drop t
  | .create t cols => .create t (cols.map (fun c => (c.1, lex d c.2)))
  | .insert t cols n => .insert t cols (phNumbers d cols.length n)

def execCalls (d : Dialect) : DB → List Call → Option DB
  | db, [] => some db
  | db, .exec s args :: rest => (execP db (toP d s) args).bind (fun db' => execCalls d db' rest)
  | db, _ :: rest => execCalls d db rest

/-- nil is stored as NULL, every numeric width as int64 / float64 -/
theorem bound_spec : bound .nil = .nil ∧ (∀ t v, bound (.int t v) = .int .int64 v) ∧
    (∀ s v, bound (.flt s v) = .flt false v) ∧ (∀ s, bound (.str s) = .str s) ∧ (∀ b, bound (.bool b) = .bool b) :=
  ⟨rfl, fun _ _ => rfl, fun _ _ => rfl, fun _ => rfl, fun _ => rfl⟩

/-- new table (or replace): executing the planned statements in order leaves the table holding exactly the
frame's rows in frame order, each cell under its own column -/
theorem plan_final_table_new (f : Frame) {n : Nat} (hs : f.Sorted) (hr : f.RectN n) (hne : f ≠ []) (table : Str)
    (r : Resolved) (hb : 0 < r.batch) (ex : Bool) (hmode : ex = false ∨ r.mode = .replace) :
    let old : Table := { cols := f.keys.map (fun k => (k, [])), rows := [f.keys.map (fun k => (k, Cell.nil))] }
    let init : DB := if ex then [(table, old)] else []
    ∃ db', execCalls r.dialect init (bodyAfterQuery f table r ex).1 = some db' ∧
      (db'.get? table).map (·.rows) =
        some ((List.range n).map (fun i => f.map (fun kc => (kc.1, bound (kc.2.data.getD i .nil))))) := by
  intro old init
  have sem : SqlLemmas.ExecSem (execCalls r.dialect) (toP r.dialect) :=
    ⟨fun _ => rfl, fun _ _ _ _ => rfl, fun _ => rfl,
      fun t cols => ⟨_, rfl, by simp [List.map_map, Function.comp_def]⟩,
      fun t cols n => ⟨_, rfl, by simp [phNumbers], by
        intro r hr; obtain ⟨i, _, rfl⟩ := List.mem_map.1 hr; simp⟩⟩
  exact SqlLemmas.plan_final_table_new sem f hr hne table r hb ex hmode old

/-- append: the existing rows stay, the frame's rows follow -/
theorem plan_final_table_append (f : Frame) {n : Nat} (hs : f.Sorted) (hr : f.RectN n) (hne : f ≠ []) (table : Str)
    (r : Resolved) (hb : 0 < r.batch) (hmode : r.mode = .append) (old : Table)
    (hold : old.cols.map (·.1) = f.keys) :
    ∃ db', execCalls r.dialect [(table, old)] (bodyAfterQuery f table r true).1 = some db' ∧
      (db'.get? table).map (·.rows) =
        some (old.rows ++ (List.range n).map (fun i => f.map (fun kc => (kc.1, bound (kc.2.data.getD i .nil))))) := by
  have sem : SqlLemmas.ExecSem (execCalls r.dialect) (toP r.dialect) :=
    ⟨fun _ => rfl, fun _ _ _ _ => rfl, fun _ => rfl,
      fun t cols => ⟨_, rfl, by simp [List.map_map, Function.comp_def]⟩,
      fun t cols n => ⟨_, rfl, by simp [phNumbers], by
        intro r hr; obtain ⟨i, _, rfl⟩ := List.mem_map.1 hr; simp⟩⟩
  exact SqlLemmas.plan_final_table_append sem f hr hne table r hb hmode old hold

/-- IfExists "fail" (the default) on an existing table: an error, and no statement is issued -/
theorem fail_mode_writes_nothing (f : Frame) (table : Str) (r : Resolved) (h : r.mode = .fail) :
    bodyAfterQuery f table r true = ([], false) :=
  SqlLemmas.fail_mode_writes_nothing f table r h

/-- option validation: unknown IfExists / negative BatchSize / unknown or missing dialect are errors
before any call is made -/
theorem invalid_options_no_calls (f : Frame) (table : Str) (o : WriteOpts) (ex : Bool) (fa : Option Nat)
    (h : (resolve o).isErr = true) : runBody f table o ex fa 0 = ([], false) :=
  SqlLemmas.invalid_options_no_calls f table o ex fa h

example : batches 2 5 = [(0, 2), (2, 4), (4, 5)] ∧ batches 1000 0 = [] ∧ batches 5 5 = [(0, 5)] := by decide

end Goframe.C11
