import GoframeModel.Ops.Group
import GoframeModel.Spec.Group
import GoframeModel.Lemmas.RefineE
import GoframeModel.Lemmas.Group
import GoframeModel.Props.C04
import GoframeModel.Ops.Agg
import GoframeModel.Lemmas.GroupTotal
import GoframeModel.Props.C16Rounding
/-
  C05 — grouped Sum/Mean/Count equal the per-group arithmetic and conserve totals.
  Arithmetic is exact (finite floats are rationals); rounding is outside the model (DESIGN §3.4).
-/
namespace Goframe.C05
open Goframe Frame

/-- every Go integer and float width counts as numeric (the repaired type table is total on widths) -/
theorem numOf_all_widths : (∀ ty v, (numOf (.int ty v)).isSome = true) ∧ (∀ s v, (numOf (.flt s v)).isSome = true) ∧
    numOf .nil = none ∧ (∀ s, numOf (.str s) = none) ∧ (∀ b, numOf (.bool b) = none) := by
  exact ⟨fun _ _ => rfl, fun _ _ => rfl, rfl, fun _ => rfl, fun _ => rfl⟩

/-- the pinned table dropped `int64` (what FromSQL yields for INTEGER columns): finding D6 -/
theorem pinned_drops_int64 : numOfPinned (.int .int64 5) = none ∧ numOf (.int .int64 5) = some (.fin 5) := by
  decide

/-- the rows of group `key` as the implementation sees them -/
def rowsOfKey (g : Grouped) (key : Cell) : List Row := (Grouped.lookup g.groups key).getD []

/-- `Sum(cols…)`: one row per group in `KeyOrder`, the key in `GroupKey`, per requested column the sum
of the group's numeric cells (nil and text ignored) -/
theorem gsum_spec (g : Grouped) (cols : List Str) (hne : cols ≠ []) (hnd : cols.Nodup)
    (hgk : sGroupKey ∉ cols) :
    ∃ out, g.sum cols = .ok out ∧
      out.get? sGroupKey = some { name := sGroupKey, data := g.keyOrder } ∧
      ∀ c ∈ cols, out.get? c = some { name := c, data :=
        (g.keyOrder.map (fun key => Cell.flt false (Spec.groupSumSpec (rowsOfKey g key) c))) } := by
  have hcols : (if cols.isEmpty then g.allColumnNames else cols) = cols := by
    cases cols with
    | nil => exact absurd rfl hne
    | cons _ _ => rfl
  unfold Grouped.sum
  rw [hcols]
  exact Grouped.aggWith_spec g cols _ hnd hgk

/-- `Mean(cols…)`: sum divided by the number of numeric cells; 0 for a group without numeric cell -/
theorem gmean_spec (g : Grouped) (cols : List Str) (hne : cols ≠ []) (hnd : cols.Nodup)
    (hgk : sGroupKey ∉ cols) :
    ∃ out, g.mean cols = .ok out ∧
      out.get? sGroupKey = some { name := sGroupKey, data := g.keyOrder } ∧
      ∀ c ∈ cols, out.get? c = some { name := c, data :=
        (g.keyOrder.map (fun key => Cell.flt false (Spec.groupMeanSpec (rowsOfKey g key) c))) } := by
  have hcols : (if cols.isEmpty then g.allColumnNames else cols) = cols := by
    cases cols with
    | nil => exact absurd rfl hne
    | cons _ _ => rfl
  unfold Grouped.mean
  rw [hcols]
  exact Grouped.aggWith_spec g cols _ hnd hgk

/-- `Count(cols…)`: the number of rows of the group, for every requested column -/
theorem gcount_spec (g : Grouped) (cols : List Str) (hnd : cols.Nodup) (hgk : sGroupKey ∉ cols) :
    ∃ out, g.count cols = .ok out ∧
      out.get? sGroupKey = some { name := sGroupKey, data := g.keyOrder } ∧
      ∀ c ∈ cols, out.get? c = some { name := c, data :=
        (g.keyOrder.map (fun key => Cell.int .int (rowsOfKey g key).length)) } := by
  exact Grouped.aggWith_spec g cols _ hnd hgk

/-- sum of finite values is the rational sum -/
def ratSum (qs : List Rat) : Rat := qs.foldl (· + ·) 0

/-- Conservation: when the groups partition the rows (C04), the group sums of a column whose numeric
cells are finite add up to the column total. -/
theorem gsum_conserves (ks : List Str) (rows : List Row) (c : Str)
    (hp : ∀ r ∈ rows, ∀ x ∈ Spec.keyTuple ks r, x.plain = true)
    (hfin : ∀ r ∈ rows, ∀ v, numOf (Row.getD r c) = some v → ∃ q, v = .fin q) :
    FVal.sum ((Spec.groupsSpec ks rows).map (fun g => Spec.groupSumSpec g.2 c)) = Spec.groupSumSpec rows c :=
  Spec.groupSum_conserves ks rows c hp hfin

/-- with no column arguments Sum covers every non-key column (of a frame with at least one row) -/
theorem gsum_default_cols {f : Frame} {n : Nat} (hs : f.Sorted) (hr : f.RectN n) (hn : 0 < n) (k : Str)
    (hk : f.has k = true) (g : Grouped) (hg : f.groupByString k = .ok g) :
    ∀ c, c ∈ g.allColumnNames ↔ (c ∈ f.keys ∧ c ≠ k) := by
  have hne : f ≠ [] := by
    intro h; subst h; simp [Frame.has] at hk
  have hpos : 0 < f.nrows := by rw [Frame.nrows_of_rectN hr hne]; exact hn
  simp only [groupByString, hk, Bool.not_true, Bool.false_eq_true, if_false, Outcome.ok.injEq] at hg
  subst hg
  intro c
  exact Grouped.foldRows_allColumnNames (fun r => Row.getD r k) k f hpos c


/-- grouped by a LIST of columns, no column arguments: every column of the frame is covered — in particular every
non-key column, whatever its name (after the D20 repair; the pinned code left out a column named "") -/
theorem gsum_default_cols_list (ω : Oracle) {f : Frame} {n : Nat} (hr : f.RectN n) (hn : 0 < n) (hne : f ≠ [])
    (ks : List Str) (g : Grouped) (hg : f.groupByList ω ks = .ok g) :
    ∀ c, c ∈ g.allColumnNames ↔ c ∈ f.keys := by
  have hpos : 0 < f.nrows := by rw [Frame.nrows_of_rectN hr hne]; exact hn
  unfold groupByList at hg
  split at hg
  · simp at hg
  · simp only [Outcome.ok.injEq] at hg
    subst hg
    intro c
    exact Grouped.foldRows_allColumnNames_list (fun r => listKey ω ks r) f hpos c

/-- the pinned `GetAllColumnNames` compared every name with `Key`, which is "" for a list grouping: a non-key
column named "" was left out of the argument-less Sum/Mean (finding D20) -/
theorem pinned_list_skips_empty_name :
    let names : List Str := [[], [113]]
    (names.filter (fun n => !(n == ([] : Str)))) = [[113]] ∧ (names.filter (fun n => !(false && n == ([] : Str)))) = names := by
  decide

/-- Group a frame by one key column (keys without NaN), sum a value column all of whose cells are finite
numbers of any Go integer or float width: the grouped sums, added up, equal the frame-level column total. -/
theorem grouped_sums_add_up (ω : Oracle) {f : Frame} {n : Nat} (hs : f.Sorted) (hr : f.RectN n) (k c : Str)
    (hk : f.has k = true) (hp : C04.PlainKeys f [k]) (col : Col) (hc : f.get? c = some col)
    (hnum : ∀ x ∈ col.data, ∃ q, numOf x = some (.fin q))
    (g : Grouped) (hg : f.groupByString k = .ok g) :
    FVal.sum (g.keyOrder.map (fun key => sumColumn ((Grouped.lookup g.groups key).getD []) c)) =
      FVal.sum (col.data.filterMap numOf) := by
  have _ := ω
  obtain ⟨g', hg', _, hspec⟩ := C04.groupby_single_spec hs hr k hk hp
  rw [hg] at hg'
  cases hg'
  have hne : f ≠ [] := GroupTotalLemmas.ne_nil_of_has hk
  have hn : f.nrows = col.data.length := by
    rw [Frame.nrows_of_rectN hr hne, (hr _ (GroupTotalLemmas.mem_of_get? hc)).1]
  have hcol := GroupTotalLemmas.allRows_map_getD f c col hc hn
  have hplain := Frame.keyTuple_allRows_plain f [k] hp
  have hfin : ∀ r ∈ allRows f, ∀ v, numOf (Row.getD r c) = some v → ∃ q, v = .fin q := by
    intro r hrm v hv
    have hmem : Row.getD r c ∈ col.data := by
      rw [← hcol]; exact List.mem_map.2 ⟨r, hrm, rfl⟩
    obtain ⟨q, hq⟩ := hnum _ hmem
    rw [hq] at hv
    exact ⟨q, (Option.some.inj hv).symm⟩
  have hcons := gsum_conserves [k] (allRows f) c hplain hfin
  rw [← hspec] at hcons
  unfold C04.groupsOf at hcons
  rw [List.map_map, List.map_map] at hcons
  have htot : Spec.groupSumSpec (allRows f) c = FVal.sum (col.data.filterMap numOf) := by
    unfold Spec.groupSumSpec
    rw [GroupTotalLemmas.numericCells_allRows f c col hc hn]
  rw [← htot, ← hcons]
  rfl

/-- …and that total is what the frame-level Sum reports for a column of int / int64 / float cells -/
theorem frame_sum_is_total (ω : Oracle) (d : List Cell)
    (h : ∀ x ∈ d, (∃ v, x = .int .int v) ∨ (∃ v, x = .int .int64 v) ∨ (∃ s q, x = .flt s (.fin q))) :
    seriesAgg ω .sum d = .ok (FVal.sum (d.filterMap numOf)) := by
  unfold seriesAgg
  rw [GroupTotalLemmas.asFloats_eq ω d h]
  rfl


open Rounding in
/-- conservation in float64: `grouped_sums_add_up` / `gsum_conserves` above are exact statements about the
arithmetic sums. The code adds in float64; for every way of splitting a column `xs` into groups `gs`, the float
sums of the groups, themselves added up in float, stay within the stated bound of the float sum of the column
(u = 2⁻⁵³ for float64). Proof in `Props/C16Rounding.lean`. -/
theorem grouped_float_sums_close (fl : Rat → Rat) (u : Rat) (hu : 0 ≤ u) (h : RelErr fl u) (xs : List Rat)
    (gs : List (List Rat)) (hp : gs.flatten.Perm xs) :
    rabs (fsum fl (gs.map (fsum fl)) - fsum fl xs) ≤
      ((1 + u) ^ gs.length * (1 + u) ^ xs.length - 1) * absSum xs + ((1 + u) ^ xs.length - 1) * absSum xs :=
  C16R.grouped_fsum_close fl u hu h xs gs hp

end Goframe.C05
