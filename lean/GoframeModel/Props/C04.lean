import GoframeModel.Ops.Group
import GoframeModel.Spec.Group
import GoframeModel.Lemmas.RefineE
import GoframeModel.Lemmas.Group
/-
  C04 — Groupby partitions the rows exactly by key.
  Single key: proved at full strength. Key list: the code's composite key (the `%v` texts joined by `|`)
  is not injective — recorded finding K1 — so the full statement is FALSE of the code and of the model;
  it is proved under the injectivity hypothesis the proof forces (`…_partial`) and refuted on a witness.
-/
namespace Goframe.C04
open Goframe Frame

/-- key cells on which Go `==` is an equivalence relation (no NaN, no negative zero) -/
def PlainKeys (f : Frame) (ks : List Str) : Prop :=
  ∀ k ∈ ks, ∀ c, f.get? k = some c → ∀ x ∈ c.data, x.plain = true

/-- what a `GroupedDataFrame` exposes: `KeyOrder`, and for each key its rows -/
def groupsOf (g : Grouped) : List (Cell × List Row) :=
  g.keyOrder.map (fun k => (k, (Grouped.lookup g.groups k).getD []))

/-- single key: `KeyOrder` lists the distinct key cells in order of first appearance and every group
holds exactly the rows with that key, completely, in original order -/
theorem groupby_single_spec {f : Frame} {n : Nat} (hs : f.Sorted) (hr : f.RectN n) (k : Str)
    (hk : f.has k = true) (hp : PlainKeys f [k]) :
    ∃ g, f.groupByString k = .ok g ∧ g.key = k ∧
      (groupsOf g).map (fun kr => ([kr.1], kr.2)) = Spec.groupsSpec [k] (allRows f) := by
  have _ := hs; have _ := hr  -- sortedness and rectangularity are not needed by the proof
  have hplain := Frame.keyTuple_allRows_plain f [k] hp
  have hκ : ∀ r ∈ allRows f, (Row.getD r k).plain = true :=
    fun r hr => hplain r hr _ (by simp [Spec.keyTuple])
  refine ⟨Grouped.foldRows (fun r => Row.getD r k) (allRows f) { groups := [], keyOrder := [], key := k },
    ?_, Grouped.foldRows_key _ _ _, ?_⟩
  · simp [groupByString, hk, Grouped.foldRows]
  · have h1 := Grouped.foldRows_groupsOf (fun r => Row.getD r k) k (allRows f) hκ
    simp only at h1
    unfold groupsOf
    rw [h1, Spec.groupsSpec_eq_reps [k] (allRows f) hplain,
      reps_congr (fun r => Row.getD r k) (Spec.keyTuple [k]) (allRows f)
        (by intro a _ b _; simp [Spec.keyTuple]),
      List.map_map]
    apply List.map_congr_left
    intro r0 _
    simp [Spec.keyTuple]

/-- the specification's groups are a partition: every row in exactly one group -/
theorem groupsSpec_partition (ks : List Str) (rows : List Row)
    (hp : ∀ r ∈ rows, ∀ c ∈ Spec.keyTuple ks r, c.plain = true) :
    Spec.isPartition ks rows (Spec.groupsSpec ks rows) = true :=
  Spec.groupsSpec_isPartition ks rows hp

/-- rendering of key tuples is injective on the tuples of this frame (what K1 violates) -/
def RenderInj (ω : Oracle) (ks : List Str) (rows : List Row) : Prop :=
  ∀ r₁ ∈ rows, ∀ r₂ ∈ rows,
    joinBar ((Spec.keyTuple ks r₁).map ω.fmtV) = joinBar ((Spec.keyTuple ks r₂).map ω.fmtV) →
    Spec.tupleEq (Spec.keyTuple ks r₁) (Spec.keyTuple ks r₂) = true

/-- key list, partial: under `RenderInj` the groups are the partition by key tuple.
  -- UNPROVED FULL STATEMENT (false of code and model, see `groupby_list_collides`): the same without `hinj`. -/
theorem groupby_list_spec_partial (ω : Oracle) {f : Frame} {n : Nat} (hs : f.Sorted) (hr : f.RectN n) (ks : List Str)
    (hk : ∀ k ∈ ks, f.has k = true) (hp : PlainKeys f ks) (hinj : RenderInj ω ks (allRows f)) :
    ∃ g, f.groupByList ω ks = .ok g ∧
      (groupsOf g).map (·.2) = (Spec.groupsSpec ks (allRows f)).map (·.2) := by
  have _ := hs; have _ := hr  -- sortedness and rectangularity are not needed by the proof
  have hplain := Frame.keyTuple_allRows_plain f ks hp
  have hκ : ∀ r ∈ allRows f, (listKey ω ks r).plain = true := fun _ _ => rfl
  have hkey : ∀ r, listKey ω ks r = .str (joinBar ((Spec.keyTuple ks r).map ω.fmtV)) := by
    intro r; simp [listKey, Spec.keyTuple, List.map_map, Function.comp_def]
  have hiff : ∀ a ∈ allRows f, ∀ b ∈ allRows f,
      (listKey ω ks a = listKey ω ks b ↔ Spec.keyTuple ks a = Spec.keyTuple ks b) := by
    intro a ha b hb
    constructor
    · intro h
      rw [hkey a, hkey b] at h
      have ht := hinj a ha b hb (Cell.str.inj h)
      rw [Spec.tupleEq_eq_of_plain _ _ (hplain a ha) (hplain b hb)] at ht
      exact of_decide_eq_true ht
    · intro h
      rw [hkey a, hkey b, h]
  have hany : ks.any (fun k => !f.has k) = false := by
    rw [List.any_eq_false]
    intro k hkm
    simp [hk k hkm]
  refine ⟨{ Grouped.foldRows (listKey ω ks) (allRows f) { groups := [], keyOrder := [], key := [] } with single := false }, ?_, ?_⟩
  · have hset := Grouped.foldRows_setSingle (listKey ω ks) (allRows f) false { groups := [], keyOrder := [], key := [] }
    simp only [groupByList, hany, Bool.false_eq_true, if_false]
    exact congrArg Outcome.ok hset
  · show (groupsOf (Grouped.foldRows (listKey ω ks) (allRows f) { groups := [], keyOrder := [], key := [] })).map (·.2) = _
    have h1 := Grouped.foldRows_groupsOf (listKey ω ks) [] (allRows f) hκ
    simp only at h1
    unfold groupsOf
    rw [h1, Spec.groupsSpec_eq_reps ks (allRows f) hplain,
      reps_congr (listKey ω ks) (Spec.keyTuple ks) (allRows f) hiff,
      List.map_map, List.map_map]
    apply List.map_congr_left
    intro r0 hr0
    have hmem : r0 ∈ allRows f := reps_subset _ _ r0 hr0
    simp only [Function.comp]
    apply List.filter_congr
    intro r hr
    exact decide_eq_decide.2 (hiff r hr r0 hmem)

def ωplain : Oracle where
  fmtFloat _ _ := []
  fmtTime _ := []
  parseFloat _ := none
  trim s := s
  timeParse _ _ := none

/-- K1 witness: rows ("x|y","z") and ("x","y|z") grouped by [p,q] end up in ONE group, the
specification has two -/
theorem groupby_list_collides :
    let f : Frame := [([112], { name := [112], data := [.str [120, 124, 121], .str [120]] }),
                      ([113], { name := [113], data := [.str [122], .str [121, 124, 122]] })]
    (match f.groupByList ωplain [[112], [113]] with
     | .ok g => g.keyOrder.length
     | _ => 0) = 1 ∧ (Spec.groupsSpec [[112], [113]] (allRows f)).length = 2 := by
  decide

/-- grouping by a column that does not exist is an error, for both key forms -/
theorem groupby_missing (ω : Oracle) (f : Frame) (k : Str) (ks : List Str)
    (h : f.has k = false) (hks : k ∈ ks) :
    (f.groupByString k).isErr = true ∧ (f.groupByList ω ks).isErr = true := by
  constructor
  · simp [groupByString, h, Outcome.isErr]
  · have hany : ks.any (fun k => !f.has k) = true :=
      List.any_eq_true.2 ⟨k, hks, by simp [h]⟩
    simp [groupByList, hany, Outcome.isErr]

/-- a `time.Time` key equals only the identical instant in the identical location, down to the nanosecond
(keys differing below one second, or one instant seen in two zones, are different groups) -/
theorem time_keys_exact (a b : GoTime) : Cell.goEq (.time a) (.time b) = true ↔ a = b := by
  simp [Cell.goEq]

end Goframe.C04
