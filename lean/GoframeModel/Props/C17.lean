import GoframeModel.Ops.Apply
import GoframeModel.Step
import GoframeModel.Lemmas.Apply
/-
  C17 — Apply results do not depend on worker scheduling.
  Two layers. (1) The collector: whatever order the tagged results arrive in, the table it builds is the
  sequential one. (2) The worker pool as a transition system (index queue, workers, result channel):
  every complete execution delivers each row index exactly once, so (1) applies to every schedule.
-/
namespace Goframe.C17
open Goframe Frame ApplyLemmas

/-- results have the frame's width (what "element j into the j-th column" presupposes; callbacks that
return a shorter slice are outside the property) -/
def WideEnough (fn : List Cell → ApplyRes) (f : Frame) : Prop :=
  ∀ i, match fn (rowCells f i) with
    | .slice vs => f.length ≤ vs.length
    | _ => True

/-- (1) schedule independence of the collector: any delivery order that is a permutation of the row
indexes gives the result of the sequential loop -/
theorem collect_perm_invariant (fn : List Cell → ApplyRes) (f : Frame) (σ : List Nat)
    (hσ : σ.Perm (List.range f.nrows)) (hw : WideEnough fn f) :
    f.applyRowWith σ fn = f.applyRowSeq fn := by
  exact applyRowWith_perm fn f hσ (fun i vs h => by have := hw i; rw [h] at this; exact this)

/-- the sequential result itself: row i of column j holds element j of fn(row i) (slice result), the
value itself (scalar result), nil (nil result) -/
theorem applyRow_spec (fn : List Cell → ApplyRes) {f : Frame} {n : Nat} (hr : f.RectN n) (hne : f ≠ [])
    (hw : WideEnough fn f) :
    ∃ out, f.applyRowSeq fn = .ok out ∧ out.keys = f.keys ∧ out.RectN n ∧
      ∀ j k c, f[j]? = some (k, c) → ∀ i, i < n →
        ∃ c', out[j]? = some (k, c') ∧ c'.data.getD i .nil =
          (match fn (rowCells f i) with
           | .slice vs => vs.getD j .nil
           | .scalar v => v
           | .nilRes => .nil) := by
  obtain ⟨out, h1, h2, h3, h4⟩ := applyRowSeq_spec fn hr hne (fun i vs h => by have := hw i; rw [h] at this; exact this)
  refine ⟨out, h1, h2, h3, ?_⟩
  intro j k c hj i hi
  obtain ⟨c', hc, hv⟩ := h4 j k c hj i hi
  exact ⟨c', hc, by rw [hv]; cases fn (rowCells f i) <;> rfl⟩

/-! ### (2) the worker pool -/

/-- state of the pool: indexes still queued, indexes being computed by a worker, results sent to the
channel but not yet collected, indexes already written by the collector (in order of writing) -/
structure PoolSt where
  queue : List Nat
  inWorker : List Nat
  inChan : List Nat
  written : List Nat
  deriving Repr

inductive PStep : PoolSt → PoolSt → Prop
  | take (i q w c d) : PStep ⟨i :: q, w, c, d⟩ ⟨q, i :: w, c, d⟩                       -- a worker receives the next index
  | send (i w₁ w₂ q c d) : PStep ⟨q, w₁ ++ i :: w₂, c, d⟩ ⟨q, w₁ ++ w₂, c ++ [i], d⟩   -- any busy worker finishes and sends
  | recv (i q w c d) : PStep ⟨q, w, i :: c, d⟩ ⟨q, w, c, d ++ [i]⟩                     -- the collector takes the oldest result

inductive PReach : PoolSt → PoolSt → Prop
  | refl (s) : PReach s s
  | step {a b c} : PReach a b → PStep b c → PReach a c

/-- every index is in exactly one place at any time -/
theorem pool_conservation (n : Nat) (s : PoolSt) (h : PReach ⟨List.range n, [], [], []⟩ s) :
    (s.queue ++ s.inWorker ++ s.inChan ++ s.written).Perm (List.range n) := by
  generalize hs0 : (⟨List.range n, [], [], []⟩ : PoolSt) = s0 at h
  induction h with
  | refl => subst hs0; simp
  | step _ hstep ih =>
    refine List.Perm.trans ?_ ih
    cases hstep with
    | take i q w c d => exact perm_take i q w c d
    | send i w₁ w₂ q c d => exact perm_send i q w₁ w₂ c d
    | recv i q w c d => exact perm_recv i q w c d

/-- at completion each row index has been delivered exactly once (in some order) -/
theorem pool_exactly_once (n : Nat) (s : PoolSt) (h : PReach ⟨List.range n, [], [], []⟩ s)
    (hdone : s.queue = [] ∧ s.inWorker = [] ∧ s.inChan = []) : s.written.Perm (List.range n) := by
  have := pool_conservation n s h
  obtain ⟨h1, h2, h3⟩ := hdone
  simpa [h1, h2, h3] using this

/-- hence: every complete execution of the pool yields the sequential result -/
theorem applyRow_schedule_free (fn : List Cell → ApplyRes) (f : Frame) (s : PoolSt)
    (h : PReach ⟨List.range f.nrows, [], [], []⟩ s) (hdone : s.queue = [] ∧ s.inWorker = [] ∧ s.inChan = [])
    (hw : WideEnough fn f) : f.applyRowWith s.written fn = f.applyRowSeq fn := by
  exact collect_perm_invariant fn f s.written (pool_exactly_once f.nrows s h hdone) hw

/-- the cells a column-wise callback result stands for -/
def colResult (fn : List Cell → ApplyRes) (d : List Cell) : List Cell :=
  match fn d with
  | .slice vs => vs
  | .scalar v => List.replicate d.length v
  | .nilRes => []

/-- column-wise Apply: a returned slice becomes the column, a single value is repeated to the column's length -/
theorem applyCol_spec (fn : List Cell → ApplyRes) {f : Frame} (hne : f ≠ [])
    (hnil : ∀ kc ∈ f, fn kc.2.data ≠ .nilRes) :
    f.applyCol fn = .ok (f.map (fun kc => (kc.1, { name := kc.1, data := colResult fn kc.2.data }))) := by
  unfold applyCol
  have : f.isEmpty = false := by cases f <;> simp_all
  simp only [this]
  exact applyColAux_eq fn f hnil

/-- a collector that appended results in arrival order instead of writing at the row index WOULD depend
on the schedule: the mutant is refuted on a two-row frame -/
theorem arrival_order_collector_is_wrong :
    let f : Frame := [([97], { name := [97], data := [.int .int 1, .int .int 2] })]
    let fn := ApplyFn.eval .copy
    let arrival (σ : List Nat) : List Cell := σ.flatMap (fun i => match fn (rowCells f i) with | .slice vs => vs | _ => [])
    arrival [1, 0] ≠ arrival [0, 1] ∧ f.applyRowWith [1, 0] fn = f.applyRowWith [0, 1] fn := by
  decide

end Goframe.C17
