import GoframeModel.Ops.TimeSeries
import GoframeModel.Spec.Resample
import GoframeModel.Lemmas.Resample
/-
  C18 — Resample yields one correctly aggregated row per time bucket, in time order.
  `time.Date` on civil fields in a fixed-offset location is the identity on the fields (law L1, built
  into `GoTime.ofCivil`); the instant is recomputed by `daysFromCivil`, validated by the correspondence run.
-/
namespace Goframe.C18
open Goframe Frame

/-- truncation is idempotent -/
theorem truncate_idem (q : Freq) (t : GoTime) : truncate q (truncate q t) = truncate q t := by
  exact ResampleLemmas.truncate_idem q t

/-- two timestamps of one location share a bucket iff their civil fields agree down to the unit -/
def sameDownTo (q : Freq) (a b : GoTime) : Prop :=
  a.y = b.y ∧ (q ≠ .Y → a.mo = b.mo) ∧ (q ≠ .Y ∧ q ≠ .M → a.d = b.d) ∧
  (q = .H ∨ q = .T ∨ q = .S → a.h = b.h) ∧ (q = .T ∨ q = .S → a.mi = b.mi) ∧ (q = .S → a.s = b.s)

theorem same_bucket_iff (q : Freq) (a b : GoTime) (hloc : a.off = b.off ∧ a.zone = b.zone) :
    truncate q a = truncate q b ↔ sameDownTo q a b := by
  exact ResampleLemmas.same_bucket_iff q a b hloc

/-- the result does not depend on the order in which Go's map iteration yields the buckets: repeating
the call gives the same frame -/
theorem resample_order_free (ω : Oracle) (f : Frame) (k freq : Str) (agg : AggFn)
    (π₁ π₂ : List GoTime → List GoTime) (h₁ : ∀ l, (π₁ l).Perm l) (h₂ : ∀ l, (π₂ l).Perm l)
    (hinj : ∀ c, f.get? k = some c → ∀ x ∈ c.data, ∀ y ∈ c.data, ∀ s t, x = .time s → y = .time t →
      ∀ q, (truncate q s).unix = (truncate q t).unix → truncate q s = truncate q t) :
    f.resampleWith π₁ ω k freq agg = f.resampleWith π₂ ω k freq agg := by
  exact ResampleLemmas.resample_order_free ω f k freq agg π₁ π₂ h₁ h₂ hinj

/-- buckets come out in ascending time order, each once -/
theorem resample_sorted (ω : Oracle) (f : Frame) (k freq : Str) (agg : AggFn) (out : Frame)
    (h : f.resample ω k freq agg = .ok out) :
    ∃ bs : List GoTime, out.get? k = some { name := k, data := bs.map Cell.time } ∧
      bs.Pairwise (fun a b => a.unix ≤ b.unix) ∧ bs.Nodup := by
  exact ResampleLemmas.resample_sorted ω f k freq agg out h

/-- the model equals the row-level specification: one row per distinct bucket, the time column holds the
bucket start, every other column the aggregate over exactly that bucket's cells in original row order -/
theorem resample_spec (ω : Oracle) {f : Frame} {n : Nat} (hs : f.Sorted) (hr : f.RectN n)
    (k freq : Str) (agg : AggFn) :
    (match Spec.resampleSpec ω f k freq agg with
     | some e => f.resample ω k freq agg = .ok e
     | none => (f.resample ω k freq agg).isErr = true) := by
  exact ResampleLemmas.resample_spec ω hs hr k freq agg

/-- invalid requests: unknown column, unknown frequency code, a cell that is not a time.Time -/
theorem resample_invalid (ω : Oracle) (f : Frame) (k freq : Str) (agg : AggFn) :
    (f.has k = false → (f.resample ω k freq agg).isErr = true) ∧
    (parseFreq freq = none → (f.resample ω k freq agg).isErr = true) := by
  exact ResampleLemmas.resample_invalid ω f k freq agg

/-- the pinned version emitted buckets in map-iteration order: two iteration orders, two different frames
(finding D13) — `id` versus `reverse` without the final sort -/
theorem pinned_order_dependent :
    let t1 : GoTime := { unix := 0, ns := 0, off := 0, y := 1970, mo := 1, d := 1, h := 0, mi := 0, s := 0, zone := [] }
    let t2 : GoTime := { unix := 86400, ns := 0, off := 0, y := 1970, mo := 1, d := 2, h := 0, mi := 0, s := 0, zone := [] }
    ([t1, t2] : List GoTime) ≠ [t1, t2].reverse ∧ sortedBuckets [t1, t2] = sortedBuckets [t1, t2].reverse := by
  decide

example : daysFromCivil 1970 1 1 = 0 ∧ daysFromCivil 2000 3 1 = 11017 ∧ daysFromCivil 1900 3 1 = -25508 := by decide

/-- timestamps of different locations never share a bucket: the truncated time keeps the location
(so a frame mixing zones gets one bucket per zone and wall-clock start, never a merged one) -/
theorem different_location_different_bucket (q : Freq) (a b : GoTime) (h : a.off ≠ b.off ∨ a.zone ≠ b.zone) :
    truncate q a ≠ truncate q b := by
  intro heq
  have h1 : (truncate q a).off = a.off := by cases q <;> rfl
  have h2 : (truncate q b).off = b.off := by cases q <;> rfl
  have h3 : (truncate q a).zone = a.zone := by cases q <;> rfl
  have h4 : (truncate q b).zone = b.zone := by cases q <;> rfl
  rcases h with h | h
  · exact h (by rw [← h1, ← h2, heq])
  · exact h (by rw [← h3, ← h4, heq])

end Goframe.C18
