import GoframeModel.Ops.SqlRead
import GoframeModel.Std.Csv
/-
  C14 — SQL import reproduces the result set under the chosen NULL policy.
-/
namespace Goframe.C14
open Goframe SqlRead

/-- declared type → scan type, on the property's list (and the look-alikes the substring table catches) -/
theorem scanTy_table :
    scanTyOf [73, 78, 84, 69, 71, 69, 82] = .int ∧                         -- INTEGER
    scanTyOf [66, 73, 71, 73, 78, 84] = .int ∧                             -- BIGINT
    scanTyOf [82, 69, 65, 76] = .float ∧                                   -- REAL
    scanTyOf [68, 79, 85, 66, 76, 69, 32, 80, 82, 69, 67, 73, 83, 73, 79, 78] = .float ∧   -- DOUBLE PRECISION
    scanTyOf [66, 79, 79, 76, 69, 65, 78] = .bool ∧                        -- BOOLEAN
    scanTyOf [84, 73, 77, 69, 83, 84, 65, 77, 80] = .time ∧                -- TIMESTAMP
    scanTyOf [68, 65, 84, 69] = .time ∧                                    -- DATE
    scanTyOf [84, 69, 88, 84] = .string ∧                                  -- TEXT
    scanTyOf [118, 97, 114, 99, 104, 97, 114, 40, 50, 48, 41] = .string ∧  -- varchar(20): case-insensitive
    scanTyOf [80, 79, 73, 78, 84] = .int ∧                                 -- POINT contains INT
    scanTyOf [] = .string := by
  decide

/-- non-NULL values keep their typed value -/
theorem scan_keeps_value :
    (∀ x, scanCell .int (.int .int64 x) = .ok (some (.int .int64 x))) ∧
    (∀ x, scanCell .float (.flt false x) = .ok (some (.flt false x))) ∧
    (∀ b, scanCell .bool (.bool b) = .ok (some (.bool b))) ∧
    (∀ t, scanCell .time (.time t) = .ok (some (.time t))) ∧
    (∀ s, scanCell .string (.str s) = .ok (some (.str s))) ∧
    (∀ ty, scanCell ty .nil = .ok none) := by
  sorry

/-- the NULL policy: nil by default, the type's zero value under "zero", the per-column default (else
nil) under a map, skip under "skip_row", an error for an unknown handler -/
theorem null_policy (col : Str) (ty : ScanTy) :
    (∃ r, handleNull .dflt col ty = .ok r ∧ (match r with | .value c => c = .nil | .skip => False)) ∧
    (∃ r, handleNull (.named sNilH) col ty = .ok r ∧ (match r with | .value c => c = .nil | .skip => False)) ∧
    (∃ r, handleNull (.named sSkip) col ty = .ok r ∧ (match r with | .value _ => False | .skip => True)) ∧
    (∃ r, handleNull (.named sZero) col ty = .ok r ∧ (match r with
        | .value c => c = (match ty with
            | .string => .str [] | .int => .int .int64 0 | .float => .flt false (.fin 0)
            | .bool => .bool false | .time => .time zeroTime)
        | .skip => False)) ∧
    (∀ m, ∃ r, handleNull (.byColumn m) col ty = .ok r ∧ (match r with
        | .value c => c = ((m.find? (fun kv => kv.1 == col)).map (·.2)).getD .nil
        | .skip => False)) ∧
    (handleNull .badType col ty).isErr = true ∧
    (∀ s, s ≠ sNilH → s ≠ sZero → s ≠ sSkip → (handleNull (.named s) col ty).isErr = true) := by
  sorry

/-- no row contains NULL, no ParseDates: the frame is exactly the result set — one column per result
column, one row per result row in result order -/
theorem fromRows_plain (ω : Oracle) (rs : ResultSet) (h : Handler)
    (hnd : rs.names.Nodup) (hw : ∀ r ∈ rs.rows, r.length = rs.names.length) (hwt : rs.types.length = rs.names.length)
    (herr : rs.errAt = none)
    (hnat : ∀ r ∈ rs.rows, scanRowOk (rs.types.map scanTyOf) r = true ∧ ∀ c ∈ r, c ≠ .nil) :
    ∃ f, fromRows ω rs { handler := h, parseDates := [] } = .ok f ∧ f.RectN rs.rows.length ∧
      ∀ j name, rs.names[j]? = some name →
        f.get? name = some { name := name, data := rs.rows.map (fun r => r.getD j .nil) } := by
  sorry

/-- under "skip_row" exactly the rows containing a NULL are omitted (no ParseDates) -/
theorem skip_row_spec (ω : Oracle) (rs : ResultSet)
    (hnd : rs.names.Nodup) (hw : ∀ r ∈ rs.rows, r.length = rs.names.length) (hwt : rs.types.length = rs.names.length)
    (herr : rs.errAt = none) (hnat : ∀ r ∈ rs.rows, scanRowOk (rs.types.map scanTyOf) r = true) :
    ∃ f, fromRows ω rs { handler := .named sSkip, parseDates := [] } = .ok f ∧
      ∀ j name, rs.names[j]? = some name →
        f.get? name = some { name := name, data :=
          (rs.rows.filter (fun r => !(r.any (fun c => c == .nil)))).map (fun r => r.getD j .nil) } := by
  sorry

/-- iteration error at any row, scan error, nil handle, empty query, query error: an error, never a frame -/
theorem errors_give_no_frame (ω : Oracle) (rs : ResultSet) (o : Opts) (q : Str) :
    (∀ k, rs.errAt = some k → k ≤ rs.rows.length →
        (∀ r ∈ rs.rows.take k, scanRowOk (rs.types.map scanTyOf) r = true) → (fromRows ω rs o).isOk = false) ∧
    (fromSQL ω true q false rs o).isErr = true ∧ (fromSQL ω false [] false rs o).isErr = true ∧
    (fromSQL ω false q true rs o).isErr = true := by
  sorry

/-- an unknown handler is reported as soon as a NULL is met (and only then) -/
theorem unknown_handler_on_null (ω : Oracle) (rs : ResultSet) (s : Str) (pd : List Str)
    (hs : s ≠ sNilH ∧ s ≠ sZero ∧ s ≠ sSkip)
    (hw : ∀ r ∈ rs.rows, r.length = rs.names.length) (hwt : rs.types.length = rs.names.length)
    (hnull : ∃ r ∈ rs.rows, .nil ∈ r) (herr : rs.errAt = none) :
    (fromRows ω rs { handler := .named s, parseDates := pd }).isOk = false := by
  sorry

end Goframe.C14
