import GoframeModel.Ops.SqlRead
import GoframeModel.Std.Csv
import GoframeModel.Lemmas.SqlRead
import GoframeModel.Spec.SqlRead
import GoframeModel.Lemmas.SqlReadSpec
/-
  C14 — SQL import reproduces the result set under the chosen NULL policy.
-/
namespace Goframe.C14
open Goframe SqlRead SqlReadLemmas SqlReadSpecLemmas

/-- declared type → scan type, on the property's list (and the look-alikes the substring table catches) -/
theorem scanTy_table :
    scanTyOf [73, 78, 84, 69, 71, 69, 82] = .int ∧                         -- INTEGER
    scanTyOf [66, 73, 71, 73, 78, 84] = .int ∧                             -- BIGINT
    scanTyOf [82, 69, 65, 76] = .float ∧                                   -- REAL
    scanTyOf [68, 79, 85, 66, 76, 69, 32, 80, 82, 69, 67, 73, 83, 73, 79, 78] = .float ∧   -- DOUBLE PRECISION
    scanTyOf [66, 79, 79, 76, 69, 65, 78] = .bool ∧                        -- BOOLEAN
    scanTyOf [84, 73, 77, 69, 83, 84, 65, 77, 80] = .time ∧                -- TIMESTAMP
    scanTyOf [68, 65, 84, 69] = .time ∧                                    -- DATE
    scanTyOf [84, 69, 88, 84] = .string ∧                                  -- TEXT
    scanTyOf [118, 97, 114, 99, 104, 97, 114, 40, 50, 48, 41] = .string ∧  -- varchar(20): case-insensitive
    scanTyOf [80, 79, 73, 78, 84] = .int ∧                                 -- POINT contains INT
    scanTyOf [] = .string := by
  decide

/-- non-NULL values keep their typed value -/
theorem scan_keeps_value :
    (∀ x, scanCell .int (.int .int64 x) = .ok (some (.int .int64 x))) ∧
    (∀ x, scanCell .float (.flt false x) = .ok (some (.flt false x))) ∧
    (∀ b, scanCell .bool (.bool b) = .ok (some (.bool b))) ∧
    (∀ t, scanCell .time (.time t) = .ok (some (.time t))) ∧
    (∀ s, scanCell .string (.str s) = .ok (some (.str s))) ∧
    (∀ ty, scanCell ty .nil = .ok none) := by
  refine ⟨fun _ => rfl, fun _ => rfl, fun _ => rfl, fun _ => rfl, fun _ => rfl, scanCell_nil⟩

/-- the NULL policy: nil by default, the type's zero value under "zero", the per-column default (else
nil) under a map, skip under "skip_row", an error for an unknown handler -/
theorem null_policy (col : Str) (ty : ScanTy) :
    (∃ r, handleNull .dflt col ty = .ok r ∧ (match r with | .value c => c = .nil | .skip => False)) ∧
    (∃ r, handleNull (.named sNilH) col ty = .ok r ∧ (match r with | .value c => c = .nil | .skip => False)) ∧
    (∃ r, handleNull (.named sSkip) col ty = .ok r ∧ (match r with | .value _ => False | .skip => True)) ∧
    (∃ r, handleNull (.named sZero) col ty = .ok r ∧ (match r with
        | .value c => c = (match ty with
            | .string => .str [] | .int => .int .int64 0 | .float => .flt false (.fin 0)
            | .bool => .bool false | .time => .time zeroTime)
        | .skip => False)) ∧
    (∀ m, ∃ r, handleNull (.byColumn m) col ty = .ok r ∧ (match r with
        | .value c => c = ((m.find? (fun kv => kv.1 == col)).map (·.2)).getD .nil
        | .skip => False)) ∧
    (handleNull .badType col ty).isErr = true ∧
    (∀ s, s ≠ sNilH → s ≠ sZero → s ≠ sSkip → (handleNull (.named s) col ty).isErr = true) := by
  refine ⟨⟨_, rfl, rfl⟩, ⟨.value .nil, by simp [handleNull], rfl⟩, ⟨.skip, handleNull_skip col ty, trivial⟩,
    ⟨_, by simp [handleNull, sZero, sNilH]; rfl, rfl⟩, ?_, rfl, ?_⟩
  · intro m
    cases hm : m.find? (fun kv => kv.1 == col) with
    | none => exact ⟨.value .nil, by simp [handleNull, hm], by simp⟩
    | some kv => exact ⟨.value kv.2, by simp [handleNull, hm], by simp⟩
  · intro s h1 h2 h3
    simp [handleNull, h1, h2, h3, Outcome.isErr]

/-- no row contains NULL, no ParseDates: the frame is exactly the result set — one column per result
column, one row per result row in result order -/
theorem fromRows_plain (ω : Oracle) (rs : ResultSet) (h : Handler)
    (hnd : rs.names.Nodup) (hw : ∀ r ∈ rs.rows, r.length = rs.names.length) (hwt : rs.types.length = rs.names.length)
    (herr : rs.errAt = none)
    (hnat : ∀ r ∈ rs.rows, scanRowOk (rs.types.map scanTyOf) r = true ∧ ∀ c ∈ r, c ≠ .nil) :
    ∃ f, fromRows ω rs { handler := h, parseDates := [] } = .ok f ∧ f.RectN rs.rows.length ∧
      ∀ j name, rs.names[j]? = some name →
        f.get? name = some { name := name, data := rs.rows.map (fun r => r.getD j .nil) } := by
  have hrows : readRows ω { handler := h, parseDates := [] } rs.names (rs.types.map scanTyOf) rs.errAt 0 rs.rows
      = .ok rs.rows := by
    rw [herr, readRows_of_rows ω _ rs.names (rs.types.map scanTyOf) some rs.rows 0]
    · simp
    · intro r hr
      obtain ⟨h1, h2⟩ := hnat r hr
      refine ⟨h1, ?_⟩
      exact readRow_plain ω h r rs.names _ (hw r hr).symm (by simp [hwt, hw r hr]) h1 h2
  exact fromRows_of_readRows ω rs _ rs.rows hnd hrows

/-- under "skip_row" exactly the rows containing a NULL are omitted (no ParseDates) -/
theorem skip_row_spec (ω : Oracle) (rs : ResultSet)
    (hnd : rs.names.Nodup) (hw : ∀ r ∈ rs.rows, r.length = rs.names.length) (hwt : rs.types.length = rs.names.length)
    (herr : rs.errAt = none) (hnat : ∀ r ∈ rs.rows, scanRowOk (rs.types.map scanTyOf) r = true) :
    ∃ f, fromRows ω rs { handler := .named sSkip, parseDates := [] } = .ok f ∧
      ∀ j name, rs.names[j]? = some name →
        f.get? name = some { name := name, data :=
          (rs.rows.filter (fun r => !(r.any (fun c => c == .nil)))).map (fun r => r.getD j .nil) } := by
  have hrows : readRows ω { handler := .named sSkip, parseDates := [] } rs.names (rs.types.map scanTyOf)
      rs.errAt 0 rs.rows = .ok (rs.rows.filter (fun r => !(r.any (fun c => c == .nil)))) := by
    rw [herr, readRows_of_rows ω _ rs.names (rs.types.map scanTyOf)
      (fun r => if r.any (fun c => c == Cell.nil) then none else some r) rs.rows 0, filterMap_skip]
    intro r hr
    refine ⟨hnat r hr, ?_⟩
    exact readRow_skip ω r rs.names _ (hw r hr).symm (by simp [hwt, hw r hr]) (hnat r hr)
  obtain ⟨f, hf, _, hg⟩ := fromRows_of_readRows ω rs _ _ hnd hrows
  exact ⟨f, hf, hg⟩

/-- iteration error at any row, scan error, nil handle, empty query, query error: an error, never a frame -/
theorem errors_give_no_frame (ω : Oracle) (rs : ResultSet) (o : Opts) (q : Str) :
    (∀ k, rs.errAt = some k → k ≤ rs.rows.length →
        (∀ r ∈ rs.rows.take k, scanRowOk (rs.types.map scanTyOf) r = true) → (fromRows ω rs o).isOk = false) ∧
    (fromSQL ω true q false rs o).isErr = true ∧ (fromSQL ω false [] false rs o).isErr = true ∧
    (fromSQL ω false q true rs o).isErr = true := by
  refine ⟨?_, by simp [fromSQL, Outcome.isErr], by simp [fromSQL, Outcome.isErr], ?_⟩
  · intro k hk hle _
    apply fromRows_not_ok
    rw [hk]
    exact readRows_err ω o rs.names _ k rs.rows 0 (by omega) (by omega)
  · unfold fromSQL
    split
    · rfl
    · split
      · rfl
      · rfl

/-- an unknown handler is reported as soon as a NULL is met (and only then) -/
theorem unknown_handler_on_null (ω : Oracle) (rs : ResultSet) (s : Str) (pd : List Str)
    (hs : s ≠ sNilH ∧ s ≠ sZero ∧ s ≠ sSkip)
    (hw : ∀ r ∈ rs.rows, r.length = rs.names.length) (hwt : rs.types.length = rs.names.length)
    (hnull : ∃ r ∈ rs.rows, .nil ∈ r) (herr : rs.errAt = none) :
    (fromRows ω rs { handler := .named s, parseDates := pd }).isOk = false := by
  apply fromRows_not_ok
  rw [herr]
  exact readRows_unknown ω s pd rs.names _ hs (by simp [hwt]) rs.rows 0 hw hnull


/-- For every result set with rectangular rows, every NULL policy, every ParseDates list and every entry
condition, outside the one class the property leaves open (`Spec.ambiguous`): the import returns exactly the
specified frame, or — exactly when the specification says so — an error and no frame. -/
theorem fromSQL_spec (ω : Oracle) (nilHandle : Bool) (query : Str) (queryErr : Bool) (rs : ResultSet) (o : Opts)
    (hw : ∀ r ∈ rs.rows, r.length = rs.names.length) (hwt : rs.types.length = rs.names.length)
    (herr : ∀ k, rs.errAt = some k → k ≤ rs.rows.length)
    (hamb : Spec.ambiguous ω rs o = false) :
    (match Spec.specFromSQL ω nilHandle query queryErr rs o with
     | some e => fromSQL ω nilHandle query queryErr rs o = .ok e
     | none => (fromSQL ω nilHandle query queryErr rs o).isOk = false) := by
  rw [specFromSQL_eq]
  rw [ambiguous_eq] at hamb
  unfold fromSQL
  cases nilHandle
  · cases hq : query with
    | nil => simp [Outcome.isOk]
    | cons b rest =>
      cases queryErr
      · simp only [Bool.false_or, List.isEmpty_cons, Bool.false_eq_true, if_false, reduceCtorEq]
        exact fromRows_spec ω rs o hw hwt herr hamb
      · simp [Outcome.isOk]
  · simp [Outcome.isOk]


/-- under "skip_row" no imported column holds a nil: a NULL never survives as a missing cell -/
theorem skip_row_no_nil (ω : Oracle) (rs : ResultSet)
    (hnd : rs.names.Nodup) (hw : ∀ r ∈ rs.rows, r.length = rs.names.length) (hwt : rs.types.length = rs.names.length)
    (herr : rs.errAt = none) (hnat : ∀ r ∈ rs.rows, scanRowOk (rs.types.map scanTyOf) r = true) :
    ∃ f, fromRows ω rs { handler := .named sSkip, parseDates := [] } = .ok f ∧
      ∀ (j : Nat) (name : Str) (col : Col), rs.names[j]? = some name → f.get? name = some col → ∀ c ∈ col.data, c ≠ .nil := by
  obtain ⟨f, hf, hcols⟩ := skip_row_spec ω rs hnd hw hwt herr hnat
  refine ⟨f, hf, ?_⟩
  intro j name col hj hg c hc
  have := hcols j name hj
  rw [hg] at this
  cases this
  obtain ⟨r, hr, rfl⟩ := List.mem_map.mp hc
  obtain ⟨hrin, hnn⟩ := List.mem_filter.mp hr
  have hjlt : j < rs.names.length := (List.getElem?_eq_some_iff.mp hj).1
  have hlen := hw r hrin
  have hjr : j < r.length := by omega
  have hmem : r.getD j .nil ∈ r := by
    rw [List.getD_eq_getElem?_getD, List.getElem?_eq_getElem hjr]
    exact List.getElem_mem hjr
  intro hnil
  have hany : r.any (fun c => c == .nil) = true := List.any_eq_true.mpr ⟨_, hmem, by rw [hnil]; rfl⟩
  simp [hany] at hnn

end Goframe.C14
