import GoframeModel.Core.Heap
import GoframeModel.Step
import GoframeModel.Lemmas.Heap
/-
  C02 — derived frames share no mutable state with their source.
  Heap layer (Core/Heap.lean): Go slices into a store of backing arrays. The separation invariant `Sep`
  (no array reachable from two columns) is preserved by every derivation that allocates and by every
  in-place editor; under `Sep` an edit of one frame is invisible in every other frame and acts on the
  edited frame exactly as the value model says — so the heap semantics equals the value semantics the
  driver executes. The pinned `Head` (sub-slices) is refuted on a witness.
-/
namespace Goframe.C02
open Goframe Heap HeapLemmas

/-- a freshly allocated result: separation is preserved, every existing frame keeps its value, and the
new frame denotes exactly the allocated value -/
theorem alloc_sep (h : H) (f : Frame) (hs : Sep h) :
    Sep (alloc h f) ∧ (∀ fid, fid < h.frames.length → view (alloc h f) fid = view h fid) ∧
    view (alloc h f) h.frames.length = f := by
  exact alloc_spec h f hs

/-- `col.Data[i] = v` on a column of frame `fid`: only that frame changes, and as the value model says -/
theorem storeCell_frame (h : H) (hs : Sep h) (fid : Nat) (k : Str) (c : HCol) (i : Nat) (v : Cell)
    (hk : (k, c) ∈ h.frames.getD fid []) (hi : i < c.data.len)
    (hnd : ((h.frames.getD fid []).map (·.1)).Nodup) :
    Sep (storeCell h c.data i v) ∧
    (∀ other, other ≠ fid → view (storeCell h c.data i v) other = view h other) ∧
    view (storeCell h c.data i v) fid =
      (view h fid).map (fun kc => if kc.1 = k then (kc.1, { kc.2 with data := kc.2.data.set i v }) else kc) := by
  have _ := hi  -- the bound is not needed: a write past `len` is invisible in the slice
  exact storeCell_spec h hs fid k c i v hk hnd

/-- `AppendRow` (for every growth function of `append`): other frames are untouched even when the append
writes in place into spare capacity; the target gains one cell per column -/
theorem appendRow_frame (g : Nat → Nat) (h : H) (hs : Sep h) (fid : Nat) (hf : fid < h.frames.length) (vals : List Cell)
    (hv : vals.length = (h.frames.getD fid []).length) :
    Sep (appendRowH g h fid vals) ∧
    (∀ other, other ≠ fid → other < h.frames.length → view (appendRowH g h fid vals) other = view h other) ∧
    view (appendRowH g h fid vals) fid =
      ((view h fid).zip vals).map (fun (kc, v) => (kc.1, { kc.2 with data := kc.2.data ++ [v] })) := by
  exact appendRow_spec g h hs fid hf vals hv

/-- `DropRow(i)`: the in-place shift is invisible elsewhere -/
theorem dropRow_frame (h : H) (hs : Sep h) (fid : Nat) (hf : fid < h.frames.length) (i : Nat)
    (hi : ∀ kc ∈ h.frames.getD fid [], i < kc.2.data.len) :
    Sep (dropRowH h fid i) ∧
    (∀ other, other ≠ fid → other < h.frames.length → view (dropRowH h fid i) other = view h other) ∧
    view (dropRowH h fid i) fid = (view h fid).map (fun kc => (kc.1, { kc.2 with data := kc.2.data.eraseIdx i })) := by
  exact dropRow_spec h hs fid hf i hi

/-- `FillNa(v)` -/
theorem fillNa_frame (h : H) (hs : Sep h) (fid : Nat) (hf : fid < h.frames.length) (v : Cell) :
    Sep (fillNaH h fid v) ∧
    (∀ other, other ≠ fid → other < h.frames.length → view (fillNaH h fid v) other = view h other) ∧
    view (fillNaH h fid v) fid =
      (view h fid).map (fun kc => (kc.1, { kc.2 with data := kc.2.data.map (fun c => if c.isNil then v else c) })) := by
  exact fillNa_spec h hs fid hf v

/-- editors that assign freshly built slices (DropNa, Astype, AddDatetimeIndex, DropDuplicates in place) -/
theorem replaceData_frame (h : H) (hs : Sep h) (fid : Nat) (hf : fid < h.frames.length)
    (newData : Str → List Cell → List Cell) :
    Sep (replaceData h fid newData) ∧
    (∀ other, other ≠ fid → other < h.frames.length → view (replaceData h fid newData) other = view h other) ∧
    view (replaceData h fid newData) fid =
      (view h fid).map (fun kc => (kc.1, { kc.2 with data := newData kc.1 kc.2.data })) := by
  exact replaceData_spec h hs fid hf newData

/-- the pinned `Head` returned sub-slices of the source (finding D4): it breaks separation, and appending
a row to the result overwrites a cell of the SOURCE -/
theorem head_pinned_aliases :
    let h0 : H := { arrays := [[.int .int 1, .int .int 2, .int .int 3, .int .int 4]],
                    frames := [[([97], { name := [97], data := { arr := 0, off := 0, len := 4, cap := 4 } })]] }
    let h1 := headAlias h0 0 2
    let h2 := appendRowH (fun n => 2 * n) h1 1 [.int .int 99]
    view h1 1 = [([97], { name := [97], data := [.int .int 1, .int .int 2] })] ∧
    view h2 0 = [([97], { name := [97], data := [.int .int 1, .int .int 2, .int .int 99, .int .int 4] })] ∧
    view h0 0 = [([97], { name := [97], data := [.int .int 1, .int .int 2, .int .int 3, .int .int 4] })] := by
  decide

/-- with the repaired `Head` (a fresh copy) the same history leaves the source alone -/
theorem head_copy_is_safe :
    let h0 : H := { arrays := [[.int .int 1, .int .int 2, .int .int 3, .int .int 4]],
                    frames := [[([97], { name := [97], data := { arr := 0, off := 0, len := 4, cap := 4 } })]] }
    let h1 := alloc h0 [([97], { name := [97], data := [.int .int 1, .int .int 2] })]
    let h2 := appendRowH (fun n => 2 * n) h1 1 [.int .int 99]
    view h2 0 = view h0 0 ∧
    view h2 1 = [([97], { name := [97], data := [.int .int 1, .int .int 2, .int .int 99] })] := by
  decide

/-- value level: an operation that is not in place never changes an existing frame of the pool, and an
in-place operation changes only its target -/
theorem step_changes_only_target (ω : Oracle) (p p' : Pool) (op : Op) (h : step ω p op = .ok p') :
    ∀ i, i < p.length → (op.inPlace = false ∨ i ≠ op.target) → p'[i]? = p[i]? := by
  exact step_only_target ω p p' op h

end Goframe.C02
