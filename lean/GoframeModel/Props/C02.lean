import GoframeModel.Core.Heap
import GoframeModel.Core.HeapStep
import GoframeModel.Props.C01
import GoframeModel.Lemmas.HeapStep
import GoframeModel.Step
import GoframeModel.Lemmas.Heap
/-
  C02 — derived frames share no mutable state with their source.
  Heap layer (Core/Heap.lean): Go slices into a store of backing arrays. The separation invariant `Sep`
  (no array reachable from two columns) is preserved by every derivation that allocates and by every
  in-place editor; under `Sep` an edit of one frame is invisible in every other frame and acts on the
  edited frame exactly as the value model says — so the heap semantics equals the value semantics the
  driver executes. The pinned `Head` (sub-slices) is refuted on a witness.
-/
namespace Goframe.C02
open Goframe Heap HeapLemmas HeapStepLemmas

/-- a freshly allocated result: separation is preserved, every existing frame keeps its value, and the
new frame denotes exactly the allocated value -/
theorem alloc_sep (h : H) (f : Frame) (hs : Sep h) :
    Sep (alloc h f) ∧ (∀ fid, fid < h.frames.length → view (alloc h f) fid = view h fid) ∧
    view (alloc h f) h.frames.length = f := by
  exact alloc_spec h f hs

/-- `col.Data[i] = v` on a column of frame `fid`: only that frame changes, and as the value model says -/
theorem storeCell_frame (h : H) (hs : Sep h) (fid : Nat) (k : Str) (c : HCol) (i : Nat) (v : Cell)
    (hk : (k, c) ∈ h.frames.getD fid []) (hi : i < c.data.len)
    (hnd : ((h.frames.getD fid []).map (·.1)).Nodup) :
    Sep (storeCell h c.data i v) ∧
    (∀ other, other ≠ fid → view (storeCell h c.data i v) other = view h other) ∧
    view (storeCell h c.data i v) fid =
      (view h fid).map (fun kc => if kc.1 = k then (kc.1, { kc.2 with data := kc.2.data.set i v }) else kc) := by
  have _ := hi  -- the bound is not needed: a write past `len` is invisible in the slice
  exact storeCell_spec h hs fid k c i v hk hnd

/-- `AppendRow` (for every growth function of `append`): other frames are untouched even when the append
writes in place into spare capacity; the target gains one cell per column -/
theorem appendRow_frame (g : Nat → Nat) (h : H) (hs : Sep h) (fid : Nat) (hf : fid < h.frames.length) (vals : List Cell)
    (hv : vals.length = (h.frames.getD fid []).length) :
    Sep (appendRowH g h fid vals) ∧
    (∀ other, other ≠ fid → other < h.frames.length → view (appendRowH g h fid vals) other = view h other) ∧
    view (appendRowH g h fid vals) fid =
      ((view h fid).zip vals).map (fun (kc, v) => (kc.1, { kc.2 with data := kc.2.data ++ [v] })) := by
  exact appendRow_spec g h hs fid hf vals hv

/-- `DropRow(i)`: the in-place shift is invisible elsewhere -/
theorem dropRow_frame (h : H) (hs : Sep h) (fid : Nat) (hf : fid < h.frames.length) (i : Nat)
    (hi : ∀ kc ∈ h.frames.getD fid [], i < kc.2.data.len) :
    Sep (dropRowH h fid i) ∧
    (∀ other, other ≠ fid → other < h.frames.length → view (dropRowH h fid i) other = view h other) ∧
    view (dropRowH h fid i) fid = (view h fid).map (fun kc => (kc.1, { kc.2 with data := kc.2.data.eraseIdx i })) := by
  exact dropRow_spec h hs fid hf i hi

/-- `FillNa(v)` -/
theorem fillNa_frame (h : H) (hs : Sep h) (fid : Nat) (hf : fid < h.frames.length) (v : Cell) :
    Sep (fillNaH h fid v) ∧
    (∀ other, other ≠ fid → other < h.frames.length → view (fillNaH h fid v) other = view h other) ∧
    view (fillNaH h fid v) fid =
      (view h fid).map (fun kc => (kc.1, { kc.2 with data := kc.2.data.map (fun c => if c.isNil then v else c) })) := by
  exact fillNa_spec h hs fid hf v

/-- editors that assign freshly built slices (DropNa, Astype, AddDatetimeIndex, DropDuplicates in place) -/
theorem replaceData_frame (h : H) (hs : Sep h) (fid : Nat) (hf : fid < h.frames.length)
    (newData : Str → List Cell → List Cell) :
    Sep (replaceData h fid newData) ∧
    (∀ other, other ≠ fid → other < h.frames.length → view (replaceData h fid newData) other = view h other) ∧
    view (replaceData h fid newData) fid =
      (view h fid).map (fun kc => (kc.1, { kc.2 with data := newData kc.1 kc.2.data })) := by
  exact replaceData_spec h hs fid hf newData

/-- the pinned `Head` returned sub-slices of the source (finding D4): it breaks separation, and appending
a row to the result overwrites a cell of the SOURCE -/
theorem head_pinned_aliases :
    let h0 : H := { arrays := [[.int .int 1, .int .int 2, .int .int 3, .int .int 4]],
                    frames := [[([97], { name := [97], data := { arr := 0, off := 0, len := 4, cap := 4 } })]] }
    let h1 := headAlias h0 0 2
    let h2 := appendRowH (fun n => 2 * n) h1 1 [.int .int 99]
    view h1 1 = [([97], { name := [97], data := [.int .int 1, .int .int 2] })] ∧
    view h2 0 = [([97], { name := [97], data := [.int .int 1, .int .int 2, .int .int 99, .int .int 4] })] ∧
    view h0 0 = [([97], { name := [97], data := [.int .int 1, .int .int 2, .int .int 3, .int .int 4] })] := by
  decide

/-- with the repaired `Head` (a fresh copy) the same history leaves the source alone -/
theorem head_copy_is_safe :
    let h0 : H := { arrays := [[.int .int 1, .int .int 2, .int .int 3, .int .int 4]],
                    frames := [[([97], { name := [97], data := { arr := 0, off := 0, len := 4, cap := 4 } })]] }
    let h1 := alloc h0 [([97], { name := [97], data := [.int .int 1, .int .int 2] })]
    let h2 := appendRowH (fun n => 2 * n) h1 1 [.int .int 99]
    view h2 0 = view h0 0 ∧
    view h2 1 = [([97], { name := [97], data := [.int .int 1, .int .int 2, .int .int 99] })] := by
  decide

/-- value level: an operation that is not in place never changes an existing frame of the pool, and an
in-place operation changes only its target -/
theorem step_changes_only_target (ω : Oracle) (p p' : Pool) (op : Op) (h : step ω p op = .ok p') :
    ∀ i, i < p.length → (op.inPlace = false ∨ i ≠ op.target) → p'[i]? = p[i]? := by
  exact step_only_target ω p p' op h


/-! ### every operation, every history: the heap semantics equals the value semantics -/

/-- side conditions along a history (the property's own: columns handed to AddColumn have the receiver's length) -/
def OkAlong (ω : Oracle) : Pool → List Op → Prop
  | _, [] => True
  | p, op :: ops => C01.OpOk p op ∧ OkAlong ω (match step ω p op with | .ok p' => p' | _ => p) ops

/-- ONE STEP. On a separated heap whose frames are good, the heap-level effect of any public operation
(derivations allocate; in-place operations append / shift / overwrite / assign fresh slices / edit the map)
keeps the heap separated and changes the pool of frame VALUES exactly as the value model `step` says. In
particular no frame other than the target of an in-place operation changes, and a derived frame shares
nothing with its source. -/
theorem hstep_refines (g : Nat → Nat) (ω : Oracle) (h h' : H) (op : Op) (hs : Sep h) (hg : C01.Good (pool h))
    (hok : C01.OpOk (pool h) op) (hst : hstep g ω h op = .ok h') :
    Sep h' ∧ step ω (pool h) op = .ok (pool h') := by
  have _ := hok  -- the side condition only serves to carry goodness along a history
  cases he : opEffect ω (pool h) op with
  | err e => unfold hstep at hst; rw [he] at hst; cases hst
  | panic e => unfold hstep at hst; rw [he] at hst; cases hst
  | ok out =>
    cases out with
    | derived f =>
      unfold hstep at hst
      rw [he] at hst
      simp only [Outcome.ok.injEq] at hst
      subst hst
      refine ⟨(alloc_sep h f hs).1, ?_⟩
      unfold step
      rw [he, pool_alloc h f hs]
      rfl
    | mutated f' =>
      obtain ⟨ht, hm⟩ := hstep_mutated g ω h h' op f' hs (fun f hf => (hg f hf).2) he hst
      refine ⟨hm.1, ?_⟩
      unfold step
      rw [he, pool_of_mut ht hm]
      rfl

/-- an operation fails on the heap exactly when it fails on values -/
theorem hstep_fails_iff (g : Nat → Nat) (ω : Oracle) (h : H) (op : Op) :
    (hstep g ω h op).isOk = (step ω (pool h) op).isOk := by
  unfold hstep step
  cases he : opEffect ω (pool h) op with
  | err e => rfl
  | panic e => rfl
  | ok out =>
    cases out with
    | derived f => rfl
    | mutated f' =>
      cases op <;> try rfl
      case setCell t k i v =>
        simp only [Outcome.bind]
        cases List.find? (fun kc => kc.1 == k) (h.frames.getD (Op.setCell t k i v).target []) <;> rfl

/-- EVERY HISTORY: the frames a program observes on the real (aliasing-capable) heap are exactly those of the
value model, for every growth function of `append` -/
theorem hrun_refines (g : Nat → Nat) (ω : Oracle) (ops : List Op) (h : H) (hs : Sep h) (hg : C01.Good (pool h))
    (hok : OkAlong ω (pool h) ops) :
    Sep (hrun g ω h ops) ∧ pool (hrun g ω h ops) = run ω (pool h) ops := by
  induction ops generalizing h with
  | nil => exact ⟨hs, rfl⟩
  | cons op ops ih =>
    obtain ⟨hop, hrest⟩ := hok
    simp only [hrun, run]
    cases hh : hstep g ω h op with
    | ok h' =>
      obtain ⟨hs', hst'⟩ := hstep_refines g ω h h' op hs hg hop hh
      rw [hst'] at hrest ⊢
      simp only at hrest ⊢
      exact ih h' hs' (C01.step_good ω _ _ op hg hop hst') hrest
    | err e =>
      have hiff := hstep_fails_iff g ω h op
      rw [hh] at hiff
      cases hv : step ω (pool h) op with
      | ok p' => rw [hv] at hiff; cases hiff
      | err e' => rw [hv] at hrest; simp only at hrest ⊢; exact ih h hs hg hrest
      | panic e' => rw [hv] at hrest; simp only at hrest ⊢; exact ih h hs hg hrest
    | panic e =>
      have hiff := hstep_fails_iff g ω h op
      rw [hh] at hiff
      cases hv : step ω (pool h) op with
      | ok p' => rw [hv] at hiff; cases hiff
      | err e' => rw [hv] at hrest; simp only at hrest ⊢; exact ih h hs hg hrest
      | panic e' => rw [hv] at hrest; simp only at hrest ⊢; exact ih h hs hg hrest


/-- separation is NECESSARY, not only sufficient: whenever two slices view a common cell of one backing array
(a sub-slice, a capacity-clipped window, a package-level buffer handed out twice, a memoised result returned
twice), a cell assignment through the first is visible through the second -/
theorem overlap_is_visible (h : H) (s1 s2 : SliceRef) (i j : Nat) (v : Cell)
    (harr : s1.arr = s2.arr) (hov : s1.off + i = s2.off + j) (hj : j < s2.len)
    (ha : s2.arr < h.arrays.length)
    (hb : s2.off + s2.len ≤ (h.arrays.getD s2.arr []).length) :
    (readSlice (storeCell h s1 i v).arrays s2).getD j .nil = v := by
  unfold readSlice storeCell writeArr
  simp only [harr, hov]
  have hlen : s2.off + j < (h.arrays.getD s2.arr []).length := by omega
  have hlen' : s2.off + j < (h.arrays[s2.arr]).length := by
    simpa [List.getD_eq_getElem?_getD, ha] using hlen
  simp [List.getD_eq_getElem?_getD, List.getElem?_drop, hj, ha, hlen']

example : (readSlice (storeCell { arrays := [[.nil, .nil, .nil]], frames := [] }
    { arr := 0, off := 0, len := 3, cap := 3 } 1 (.bool true)).arrays { arr := 0, off := 1, len := 2, cap := 2 }).getD 0 .nil = .bool true := by
  decide

end Goframe.C02
