import GoframeModel.Props.C02
import GoframeModel.Core.HeapStep
import GoframeModel.Props.C01
/-
  C02, continued — the refinement of the value model by the heap model, for every operation and history.
-/
namespace Goframe.C02
open Goframe Heap

/-! ### every operation, every history: the heap semantics equals the value semantics -/

/-- side conditions along a history (the property's own: columns handed to AddColumn have the receiver's length) -/
def OkAlong (ω : Oracle) : Pool → List Op → Prop
  | _, [] => True
  | p, op :: ops => C01.OpOk p op ∧ OkAlong ω (match step ω p op with | .ok p' => p' | _ => p) ops

/-- ONE STEP. On a separated heap whose frames are good, the heap-level effect of any public operation
(derivations allocate; in-place operations append / shift / overwrite / assign fresh slices / edit the map)
keeps the heap separated and changes the pool of frame VALUES exactly as the value model `step` says. In
particular no frame other than the target of an in-place operation changes, and a derived frame shares
nothing with its source. -/
theorem hstep_refines (g : Nat → Nat) (ω : Oracle) (h h' : H) (op : Op) (hs : Sep h) (hg : C01.Good (pool h))
    (hok : C01.OpOk (pool h) op) (hst : hstep g ω h op = .ok h') :
    Sep h' ∧ step ω (pool h) op = .ok (pool h') := by
  sorry

/-- an operation fails on the heap exactly when it fails on values -/
theorem hstep_fails_iff (g : Nat → Nat) (ω : Oracle) (h : H) (op : Op) :
    (hstep g ω h op).isOk = (step ω (pool h) op).isOk := by
  sorry

/-- EVERY HISTORY: the frames a program observes on the real (aliasing-capable) heap are exactly those of the
value model, for every growth function of `append` -/
theorem hrun_refines (g : Nat → Nat) (ω : Oracle) (ops : List Op) (h : H) (hs : Sep h) (hg : C01.Good (pool h))
    (hok : OkAlong ω (pool h) ops) :
    Sep (hrun g ω h ops) ∧ pool (hrun g ω h ops) = run ω (pool h) ops := by
  sorry

end Goframe.C02
