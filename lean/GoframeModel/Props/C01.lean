import GoframeModel.Step
import GoframeModel.Props.C10
import GoframeModel.Ops.SqlRead
import GoframeModel.Lemmas.Rect
import GoframeModel.Props.C08
import GoframeModel.Props.C15
import GoframeModel.Lemmas.RowsWhole
import GoframeModel.Lemmas.Shift
/-
  C01 — frames stay rectangular and row-aligned through every operation history.
  One-step preservation for every public operation, lifted to every reachable pool by induction over
  the history. Row alignment (cells that shared a row still share a row) is the content of the
  refinement theorems of C03, C06, C07, C08, C15, C19: every row-preserving operation acts on whole rows.
-/
namespace Goframe.C01
open Goframe Frame

/-- `Nrows()` does not depend on which column Go's map iteration meets first: under rectangularity
every column has the reported length. -/
theorem nrows_any_column {f : Frame} {n : Nat} (h : RectN f n) :
    ∀ kc ∈ f, kc.2.data.length = nrows f := by
  intro kc hkc
  have hne : f ≠ [] := by intro h0; simp [h0] at hkc
  rw [nrows_of_rectN h hne]; exact (h kc hkc).1

/-- the invariant: every live frame is rectangular (common length, each column stored under its own
name) and its keys are strictly sorted (what the Go map guarantees: distinct keys) -/
def Good (p : Pool) : Prop := ∀ f ∈ p, f.Rect ∧ f.Sorted

/-- the property's own side condition on user-supplied data: a column handed to AddColumn has the
receiver's length (any length if the receiver has no column yet). Decidable. -/
def OpOk (p : Pool) : Op → Prop
  | .addColumn t c => ∀ f, p[t]? = some f → f = [] ∨ c.data.length = f.nrows
  | _ => True

/-- ONE STEP: every successful public operation maps good pools to good pools -/
theorem step_good (ω : Oracle) (p p' : Pool) (op : Op) (hp : Good p) (hok : OpOk p op)
    (h : step ω p op = .ok p') : Good p' := by
  refine RectLemmas.step_G ω p p' op hp ?_ h
  intro t c hop f hf
  subst hop
  exact hok f hf

/-- pools reachable by any history of public operations (failed operations leave the pool as it is) -/
inductive Reach (ω : Oracle) (p₀ : Pool) : Pool → Prop
  | init : Reach ω p₀ p₀
  | step {p p' : Pool} {op : Op} : Reach ω p₀ p → OpOk p op → Goframe.step ω p op = .ok p' → Reach ω p₀ p'

/-- EVERY HISTORY: starting from rectangular frames, after any sequence of successful operations every
live frame is rectangular, each column stored under its own name, and `Nrows` reports the common length -/
theorem reach_good (ω : Oracle) (p₀ p : Pool) (h₀ : Good p₀) (h : Reach ω p₀ p) :
    Good p ∧ ∀ f ∈ p, ∀ kc ∈ f, kc.2.data.length = f.nrows ∧ kc.2.name = kc.1 := by
  have hg : Good p := by
    induction h with
    | init => exact h₀
    | step _ hok hs ih => exact step_good ω _ _ _ ih hok hs
  refine ⟨hg, ?_⟩
  intro f hf kc hkc
  obtain ⟨n, hn⟩ := (hg f hf).1
  exact ⟨nrows_any_column hn kc hkc, (hn kc hkc).2⟩

/-! ### the two import paths also start histories from good frames -/

/-- a frame returned by the CSV import is rectangular, each column under its own name, keys sorted -/
theorem csv_import_good (ω : Oracle) (bytes : List UInt8) (f : Frame) (h : fromCSV ω bytes = .ok f) :
    f.Rect ∧ f.Sorted := by
  obtain ⟨hdr, recs, _, _, hs, hr, _, _⟩ := C10.fromCSV_ok_spec ω bytes f h
  exact ⟨⟨_, hr⟩, hs⟩

private theorem assemble_good (names : List Str) (rows : List (List Cell)) :
    ∀ (ns : List Str) (j : Nat) (acc f : Frame), acc.RectN rows.length → acc.Sorted →
      SqlRead.assemble names rows j acc ns = .ok f → f.RectN rows.length ∧ f.Sorted := by
  intro ns
  induction ns with
  | nil =>
    intro j acc f hr hs h
    simp [SqlRead.assemble] at h
    subst h; exact ⟨hr, hs⟩
  | cons n ns ih =>
    intro j acc f hr hs h
    unfold SqlRead.assemble at h
    split at h
    · cases h
    · exact ih (j + 1) _ f
        (RectLemmas.rectN_set (k := n) (c := { name := n, data := rows.map (fun r => r.getD j .nil) }) hr
          (List.length_map _) rfl)
        (RectLemmas.sorted_set hs _ _) h

/-- a frame returned by the SQL import (any NULL policy, any ParseDates) is rectangular as well -/
theorem sql_import_good (ω : Oracle) (rs : SqlRead.ResultSet) (o : SqlRead.Opts) (f : Frame)
    (h : SqlRead.fromRows ω rs o = .ok f) : f.Rect ∧ f.Sorted := by
  unfold SqlRead.fromRows at h
  simp only [] at h
  cases hrows : SqlRead.readRows ω o rs.names (rs.types.map SqlRead.scanTyOf) rs.errAt 0 rs.rows with
  | ok rows =>
    rw [hrows] at h
    simp only [Outcome.bind_ok] at h
    have := assemble_good rs.names rows rs.names 0 [] f (RectLemmas.rectN_nil _) RectLemmas.sorted_nil
      h
    exact ⟨⟨_, this.1⟩, this.2⟩
  | err e => rw [hrows] at h; cases h
  | panic p => rw [hrows] at h; cases h

/-- the pinned AppendRow created a new column with a single cell (finding D1): a ragged frame -/
theorem appendRow_pinned_ragged :
    let f : Frame := [([97], { name := [97], data := [.int .int 1, .int .int 2] })]
    let pinned : Frame := (f.set [98] { name := [98], data := [] }).map
      (fun kc => (kc.1, { kc.2 with data := kc.2.data ++ [Row.getD [([97], .int .int 3), ([98], .int .int 9)] kc.1] }))
    pinned.rect? = false ∧ (f.appendRow [([97], .int .int 3), ([98], .int .int 9)]).rect? = true := by
  decide

/-- non-vacuity: a six-operation history (AppendRow with a new column, Iloc with a repeated column
position, a join, a sort, DropNa, Shift) from a good pool runs and ends good -/
example :
    let ω : Oracle := { fmtFloat := fun _ _ => [], fmtTime := fun _ => [], parseFloat := fun _ => none,
                         trim := id, timeParse := fun _ _ => none }
    let p₀ : Pool := [[([97], { name := [97], data := [.int .int 2, .int .int 1] }), ([107], { name := [107], data := [.int .int 1, .int .int 1] })]]
    let ops : List Op := [.appendRow 0 [([97], .int .int 3), ([98], .int .int 9)], .iloc 0 [1, 0] [0, 0, 1],
                          .join 1 0 0 [107], .sortValues 0 [[97]] true, .dropNa 0, .shift 0 1]
    (run ω p₀ ops).length = 5 ∧ (run ω p₀ ops).all (fun f => f.rect?) = true := by
  decide

end Goframe.C01

/-
  C01, second sentence: "Cells that shared a row before an operation that keeps that row still share a row
  afterwards." For the row-selecting operations of the model this is stated directly: every row of the result,
  all its cells together (in column order), is a row of the source. This is the theorem behind the
  `rows-torn-apart` check the driver evaluates on the implementation's output (lean/Driver/Seq.lean).
-/


namespace Goframe.C01
open Goframe Frame

/-- `out` has the columns of `src` and every one of its rows is a row of `src` -/
def RowsFrom (src out : Frame) : Prop :=
  out.keys = src.keys ∧ ∀ r ∈ out.rows, r ∈ src.rows

/-- selecting rows by position: the frame built from any list of rows of `f` has only rows of `f` -/
theorem ofRows_rowsFrom {f : Frame} {n : Nat} (hs : f.Sorted) (hr : f.RectN n) (rs : List Row)
    (h : ∀ r ∈ rs, r ∈ Spec.rowsOf f) : RowsFrom f (Spec.ofRows f.keys rs) := by
  obtain ⟨idx, h1, rfl⟩ := C01Rows.exists_idx rs h
  have _ := hr
  rw [Spec.ofRows_rowMap hs]
  exact ⟨C01Rows.pickF_keys f idx, C01Rows.pickF_rows_mem idx h1⟩

theorem head_rows_whole {f : Frame} {n : Nat} (hs : f.Sorted) (hr : f.RectN n) (c : Int) (out : Frame)
    (h : f.head c = .ok out) : RowsFrom f out := by
  rw [C08.head_spec hs hr c] at h
  cases h
  exact ofRows_rowsFrom hs hr _ (fun r hr => List.mem_of_mem_take hr)

theorem tail_rows_whole {f : Frame} {n : Nat} (hs : f.Sorted) (hr : f.RectN n) (c : Int) (hn : (n : Int) < 2 ^ 62)
    (out : Frame) (h : f.tail c = .ok out) : RowsFrom f out := by
  rw [C08.tail_spec hs hr c hn] at h
  cases h
  exact ofRows_rowsFrom hs hr _ (fun r hr => List.mem_of_mem_drop hr)

theorem rowSlice_rows_whole {f : Frame} {n : Nat} (hs : f.Sorted) (hr : f.RectN n) (a b : Int) :
    RowsFrom f (f.rowSlice a b) := by
  rw [C08.rowSlice_spec hs hr a b]
  exact ofRows_rowsFrom hs hr _ (fun r hr => List.mem_of_mem_take (List.mem_of_mem_drop hr))

theorem filter_rows_whole {f : Frame} {n : Nat} (hs : f.Sorted) (hr : f.RectN n) (p : Nat → Row → Bool) :
    RowsFrom f (f.filter p) := by
  rw [(C08.filter_spec hs hr p).1]
  refine ofRows_rowsFrom hs hr _ (fun r hr => ?_)
  simp only [List.mem_map, List.mem_filter] at hr
  obtain ⟨ri, ⟨hmem, _⟩, rfl⟩ := hr
  exact (List.mem_zipIdx hmem).2.2 ▸ List.getElem_mem _

theorem dropNa_rows_whole {f : Frame} {n : Nat} (hs : f.Sorted) (hr : f.RectN n) (out : Frame)
    (h : f.dropNa = .ok out) : RowsFrom f out := by
  rw [C15.dropNa_spec hs hr] at h
  cases h
  exact ofRows_rowsFrom hs hr _ (fun r hr => (List.mem_filter.mp hr).1)

theorem dropRow_rows_whole {f : Frame} {n : Nat} (hs : f.Sorted) (hr : f.RectN n) (i : Int) (out : Frame)
    (h : f.dropRow i = .ok out) : RowsFrom f out := by
  have hsp := C08.dropRow_spec hs hr i
  unfold C08.outcomeOfOption at hsp
  unfold Spec.dropRowSpec at hsp
  split at hsp
  · rename_i x hx
    split at hx
    · cases hx
    · cases hx
      rw [hsp] at h
      cases h
      exact ofRows_rowsFrom hs hr _ (fun r hr => List.mem_of_mem_eraseIdx hr)
  · rw [h] at hsp
    cases hsp

/-- `Shift(p)` moves rows WHOLE: every row of the result is a row of the source, all cells together, or the
all-nil row that fills the vacated positions -/
theorem shift_rows_whole {f : Frame} {n : Nat} (hr : f.RectN n) (p : Int)
    (hp : inInt64 p) (hn : (n : Int) < 2 ^ 62) :
    (f.shift p).keys = f.keys ∧
    ∀ r ∈ (f.shift p).rows, r ∈ f.rows ∨ r = List.replicate f.keys.length Cell.nil :=
  ⟨shift_keys f p, shift_rows_mem hr p hp hn⟩

/-- non-vacuity: a two-row frame, its Head(1) has exactly the first row -/
example :
    let f : Frame := [([97], { name := [97], data := [.int .int 1, .int .int 2] }),
                      ([98], { name := [98], data := [.str [120], .str [121]] })]
    (Spec.ofRows f.keys ((Spec.rowsOf f).take 1)).rows = [[.int .int 1, .str [120]]] := by
  decide

end Goframe.C01
