import GoframeModel.Step
/-
  C01 — frames stay rectangular and row-aligned through every operation history.
  Property theorems only; helper lemmas live in GoframeModel/Lemmas.
-/
namespace Goframe.C01
open Goframe Frame

/-- `Nrows()` does not depend on which column Go's map iteration meets first: under rectangularity
every column has the reported length. -/
theorem nrows_any_column {f : Frame} {n : Nat} (h : RectN f n) :
    ∀ kc ∈ f, kc.2.data.length = nrows f := by
  intro kc hkc
  have hne : f ≠ [] := by intro h0; simp [h0] at hkc
  rw [nrows_of_rectN h hne]; exact (h kc hkc).1

end Goframe.C01
