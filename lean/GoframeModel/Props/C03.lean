import GoframeModel.Ops.Join
import GoframeModel.Spec.Join
import GoframeModel.Lemmas.Refine
import GoframeModel.Lemmas.Join
/-
  C03 — joins follow relational semantics for inner, left, right and outer.
  The model is the code: nested loops over `Row(i)`, `mergeRows` (left value wins), `AppendRow` into
  the pre-created union of columns, a matched flag / matched-key set. The specification is relational
  (`flatMap` / `filter` over rows). The theorems say they coincide for all frames.
-/
namespace Goframe.C03
open Goframe Frame

-- Only `l.Sorted` (distinct, ordered keys of the left frame) is needed: model and specification read
-- rows through the same `rowMap`, so even ragged operands are padded identically on both sides, and
-- the matched-key list of OuterJoin is scanned with Go `==`, so NaN / -0 keys need no special hypothesis.

theorem inner_spec {l r : Frame} (hl : l.Sorted) (k : Str) (hkl : l.has k = true) (hkr : r.has k = true) :
    l.innerJoin r k = .ok (Spec.ofRows (Spec.sortedUnion l.keys r.keys)
      (Spec.innerRows (Spec.rowsOf l) (Spec.rowsOf r) k)) := by
  exact Spec.innerJoin_eq hl k hkl hkr

theorem left_spec {l r : Frame} (hl : l.Sorted) (k : Str) (hkl : l.has k = true) (hkr : r.has k = true) :
    l.leftJoin r k = .ok (Spec.ofRows (Spec.sortedUnion l.keys r.keys)
      (Spec.leftRows (Spec.rowsOf l) (Spec.rowsOf r) k)) := by
  exact Spec.leftJoin_eq hl k hkl hkr

theorem right_spec {l r : Frame} (hl : l.Sorted) (k : Str) (hkl : l.has k = true) (hkr : r.has k = true) :
    l.rightJoin r k = .ok (Spec.ofRows (Spec.sortedUnion l.keys r.keys)
      (Spec.rightRows (Spec.rowsOf l) (Spec.rowsOf r) k)) := by
  exact Spec.rightJoin_eq hl k hkl hkr

/-- OuterJoin = LeftJoin result followed by the unmatched right rows in their own order. -/
theorem outer_spec {l r : Frame} (hl : l.Sorted) (k : Str) (hkl : l.has k = true) (hkr : r.has k = true) :
    l.outerJoin r k = .ok (Spec.ofRows (Spec.sortedUnion l.keys r.keys)
      (Spec.outerRows (Spec.rowsOf l) (Spec.rowsOf r) k)) := by
  exact Spec.outerJoin_eq hl k hkl hkr

/-- a missing key column is an error, for every join kind -/
theorem join_missing_key (l r : Frame) (k : Str) (h : l.has k = false ∨ r.has k = false) :
    (l.innerJoin r k).isErr = true ∧ (l.leftJoin r k).isErr = true ∧
    (l.rightJoin r k).isErr = true ∧ (l.outerJoin r k).isErr = true := by
  obtain ⟨e, he⟩ := Spec.checkExists_err h
  simp [Frame.innerJoin, Frame.leftJoin, Frame.rightJoin, Frame.outerJoin, he, Outcome.isErr]

/-- the result carries the union of both frames' columns and is rectangular -/
theorem join_columns (names : List Str) (rows : List Row) :
    (Spec.ofRows names rows).keys = names ∧ (Spec.ofRows names rows).RectN rows.length := by
  exact ⟨Spec.keys_ofRows names rows, Spec.rectN_ofRows names rows⟩

/-- keys of different Go types never match: `1`, `int64(1)`, `1.0` and `"1"` are four different keys -/
example : (Cell.int .int 1).goEq (.int .int64 1) = false ∧ (Cell.int .int 1).goEq (.str [49]) = false ∧
    (Cell.int .int 1).goEq (.flt false (.fin 1)) = false ∧ Cell.nil.goEq .nil = true := by decide

/-- "identical key (same type and value)" is exact: integer keys are equal only when type and value are — no
detour through float64 (2⁵³ and 2⁵³+1 are different keys) -/
theorem int_keys_exact (t u : IntTy) (a b : Int) :
    Cell.goEq (.int t a) (.int u b) = true ↔ (t = u ∧ a = b) := by
  simp [Cell.goEq]

example : Cell.goEq (.int .int64 9007199254740992) (.int .int64 9007199254740993) = false := by decide

/-! ### counting laws of the specification the four theorems above equate the code with -/
/-- counting law of the inner join: one row per (left, right) pair with identical key -/
theorem inner_count (l r : List Row) (k : Str) :
    (Spec.innerRows l r k).length = (l.map (fun a => (r.filter (Spec.keyEq k a)).length)).sum := by
  induction l with
  | nil => rfl
  | cons a l ih =>
    simp only [Spec.innerRows, List.flatMap_cons, List.length_append, List.length_map, List.map_cons, List.sum_cons] at ih ⊢
    rw [ih]

/-- the left join is the inner join plus each unmatched left row exactly once -/
theorem left_count (l r : List Row) (k : Str) :
    (Spec.leftRows l r k).length =
      (Spec.innerRows l r k).length + (l.filter (fun a => (r.filter (Spec.keyEq k a)).isEmpty)).length := by
  induction l with
  | nil => rfl
  | cons a l ih =>
    simp only [Spec.leftRows, Spec.innerRows, List.flatMap_cons, List.length_append, List.filter_cons] at ih ⊢
    rw [ih]
    cases h : (r.filter (Spec.keyEq k a)).isEmpty
    · simp; omega
    · have : r.filter (Spec.keyEq k a) = [] := List.isEmpty_iff.mp h
      simp [this]; omega

/-- the outer join adds each right row that no left row matches exactly once -/
theorem outer_count (l r : List Row) (k : Str) :
    (Spec.outerRows l r k).length =
      (Spec.leftRows l r k).length + (r.filter (fun b => !(l.any (fun a => Spec.keyEq k a b)))).length := by
  simp [Spec.outerRows]

/-- every inner-join row is a left-join row (and hence an outer-join row) -/
theorem inner_sub_left (l r : List Row) (k : Str) : ∀ x ∈ Spec.innerRows l r k, x ∈ Spec.leftRows l r k ∧ x ∈ Spec.outerRows l r k := by
  intro x hx
  have hl : x ∈ Spec.leftRows l r k := by
    simp only [Spec.innerRows, Spec.leftRows, List.mem_flatMap] at hx ⊢
    obtain ⟨a, ha, hxa⟩ := hx
    refine ⟨a, ha, ?_⟩
    cases h : (r.filter (Spec.keyEq k a)).isEmpty
    · simpa [h] using hxa
    · have : r.filter (Spec.keyEq k a) = [] := List.isEmpty_iff.mp h
      rw [this] at hxa; simp at hxa
  exact ⟨hl, by simp [Spec.outerRows, hl]⟩

/-- heights of the four results, on the frames the code returns: inner = one row per matching pair; left = inner + the
unmatched left rows; outer = left + the unmatched right rows -/
theorem join_heights {l r : Frame} (hl : l.Sorted) (k : Str) (hkl : l.has k = true) (hkr : r.has k = true)
    {ji jl jo : Frame} (hi : l.innerJoin r k = .ok ji) (hlf : l.leftJoin r k = .ok jl) (ho : l.outerJoin r k = .ok jo) :
    let L := Spec.rowsOf l
    let R := Spec.rowsOf r
    let ni := (L.map (fun a => (R.filter (Spec.keyEq k a)).length)).sum
    let nl := ni + (L.filter (fun a => (R.filter (Spec.keyEq k a)).isEmpty)).length
    ji.RectN ni ∧ jl.RectN nl ∧ jo.RectN (nl + (R.filter (fun b => !(L.any (fun a => Spec.keyEq k a b)))).length) := by
  intro L R ni nl
  rw [inner_spec hl k hkl hkr] at hi
  rw [left_spec hl k hkl hkr] at hlf
  rw [outer_spec hl k hkl hkr] at ho
  cases hi; cases hlf; cases ho
  refine ⟨?_, ?_, ?_⟩
  · have := Spec.rectN_ofRows (Spec.sortedUnion l.keys r.keys) (Spec.innerRows L R k)
    rwa [inner_count] at this
  · have := Spec.rectN_ofRows (Spec.sortedUnion l.keys r.keys) (Spec.leftRows L R k)
    rwa [left_count, inner_count] at this
  · have := Spec.rectN_ofRows (Spec.sortedUnion l.keys r.keys) (Spec.outerRows L R k)
    rwa [outer_count, left_count, inner_count] at this

end Goframe.C03
