import GoframeModel.Ops.Join
import GoframeModel.Spec.Join
import GoframeModel.Lemmas.Refine
import GoframeModel.Lemmas.Join
/-
  C03 — joins follow relational semantics for inner, left, right and outer.
  The model is the code: nested loops over `Row(i)`, `mergeRows` (left value wins), `AppendRow` into
  the pre-created union of columns, a matched flag / matched-key set. The specification is relational
  (`flatMap` / `filter` over rows). The theorems say they coincide for all frames.
-/
namespace Goframe.C03
open Goframe Frame

-- Only `l.Sorted` (distinct, ordered keys of the left frame) is needed: model and specification read
-- rows through the same `rowMap`, so even ragged operands are padded identically on both sides, and
-- the matched-key list of OuterJoin is scanned with Go `==`, so NaN / -0 keys need no special hypothesis.

theorem inner_spec {l r : Frame} (hl : l.Sorted) (k : Str) (hkl : l.has k = true) (hkr : r.has k = true) :
    l.innerJoin r k = .ok (Spec.ofRows (Spec.sortedUnion l.keys r.keys)
      (Spec.innerRows (Spec.rowsOf l) (Spec.rowsOf r) k)) := by
  exact Spec.innerJoin_eq hl k hkl hkr

theorem left_spec {l r : Frame} (hl : l.Sorted) (k : Str) (hkl : l.has k = true) (hkr : r.has k = true) :
    l.leftJoin r k = .ok (Spec.ofRows (Spec.sortedUnion l.keys r.keys)
      (Spec.leftRows (Spec.rowsOf l) (Spec.rowsOf r) k)) := by
  exact Spec.leftJoin_eq hl k hkl hkr

theorem right_spec {l r : Frame} (hl : l.Sorted) (k : Str) (hkl : l.has k = true) (hkr : r.has k = true) :
    l.rightJoin r k = .ok (Spec.ofRows (Spec.sortedUnion l.keys r.keys)
      (Spec.rightRows (Spec.rowsOf l) (Spec.rowsOf r) k)) := by
  exact Spec.rightJoin_eq hl k hkl hkr

/-- OuterJoin = LeftJoin result followed by the unmatched right rows in their own order. -/
theorem outer_spec {l r : Frame} (hl : l.Sorted) (k : Str) (hkl : l.has k = true) (hkr : r.has k = true) :
    l.outerJoin r k = .ok (Spec.ofRows (Spec.sortedUnion l.keys r.keys)
      (Spec.outerRows (Spec.rowsOf l) (Spec.rowsOf r) k)) := by
  exact Spec.outerJoin_eq hl k hkl hkr

/-- a missing key column is an error, for every join kind -/
theorem join_missing_key (l r : Frame) (k : Str) (h : l.has k = false ∨ r.has k = false) :
    (l.innerJoin r k).isErr = true ∧ (l.leftJoin r k).isErr = true ∧
    (l.rightJoin r k).isErr = true ∧ (l.outerJoin r k).isErr = true := by
  obtain ⟨e, he⟩ := Spec.checkExists_err h
  simp [Frame.innerJoin, Frame.leftJoin, Frame.rightJoin, Frame.outerJoin, he, Outcome.isErr]

/-- the result carries the union of both frames' columns and is rectangular -/
theorem join_columns (names : List Str) (rows : List Row) :
    (Spec.ofRows names rows).keys = names ∧ (Spec.ofRows names rows).RectN rows.length := by
  exact ⟨Spec.keys_ofRows names rows, Spec.rectN_ofRows names rows⟩

/-- keys of different Go types never match: `1`, `int64(1)`, `1.0` and `"1"` are four different keys -/
example : (Cell.int .int 1).goEq (.int .int64 1) = false ∧ (Cell.int .int 1).goEq (.str [49]) = false ∧
    (Cell.int .int 1).goEq (.flt false (.fin 1)) = false ∧ Cell.nil.goEq .nil = true := by decide

/-- "identical key (same type and value)" is exact: integer keys are equal only when type and value are — no
detour through float64 (2⁵³ and 2⁵³+1 are different keys) -/
theorem int_keys_exact (t u : IntTy) (a b : Int) :
    Cell.goEq (.int t a) (.int u b) = true ↔ (t = u ∧ a = b) := by
  simp [Cell.goEq]

example : Cell.goEq (.int .int64 9007199254740992) (.int .int64 9007199254740993) = false := by decide

end Goframe.C03
