import GoframeModel.Ops.Join
import GoframeModel.Spec.Join
import GoframeModel.Lemmas.Refine
/-
  C03 — joins follow relational semantics for inner, left, right and outer.
  The model is the code: nested loops over `Row(i)`, `mergeRows` (left value wins), `AppendRow` into
  the pre-created union of columns, a matched flag / matched-key set. The specification is relational
  (`flatMap` / `filter` over rows). The theorems say they coincide for all frames.
-/
namespace Goframe.C03
open Goframe Frame

/-- key cells are scalars on which Go `==` is an equivalence (no NaN) -/
def PlainKeys (f : Frame) (k : Str) : Prop :=
  ∀ c, f.get? k = some c → ∀ x ∈ c.data, x.plain = true

theorem inner_spec {l r : Frame} {n m : Nat} (hl : l.Sorted) (hr : r.Sorted) (hln : l.RectN n) (hrn : r.RectN m)
    (k : Str) (hkl : l.has k = true) (hkr : r.has k = true) :
    l.innerJoin r k = .ok (Spec.ofRows (Spec.sortedUnion l.keys r.keys)
      (Spec.innerRows (Spec.rowsOf l) (Spec.rowsOf r) k)) := by
  sorry

theorem left_spec {l r : Frame} {n m : Nat} (hl : l.Sorted) (hr : r.Sorted) (hln : l.RectN n) (hrn : r.RectN m)
    (k : Str) (hkl : l.has k = true) (hkr : r.has k = true) :
    l.leftJoin r k = .ok (Spec.ofRows (Spec.sortedUnion l.keys r.keys)
      (Spec.leftRows (Spec.rowsOf l) (Spec.rowsOf r) k)) := by
  sorry

theorem right_spec {l r : Frame} {n m : Nat} (hl : l.Sorted) (hr : r.Sorted) (hln : l.RectN n) (hrn : r.RectN m)
    (k : Str) (hkl : l.has k = true) (hkr : r.has k = true) :
    l.rightJoin r k = .ok (Spec.ofRows (Spec.sortedUnion l.keys r.keys)
      (Spec.rightRows (Spec.rowsOf l) (Spec.rowsOf r) k)) := by
  sorry

/-- OuterJoin = LeftJoin result followed by the unmatched right rows in their own order.
Needs key cells without NaN: the code remembers matched keys in a Go map. -/
theorem outer_spec {l r : Frame} {n m : Nat} (hl : l.Sorted) (hr : r.Sorted) (hln : l.RectN n) (hrn : r.RectN m)
    (k : Str) (hkl : l.has k = true) (hkr : r.has k = true) (hpl : PlainKeys l k) (hpr : PlainKeys r k) :
    l.outerJoin r k = .ok (Spec.ofRows (Spec.sortedUnion l.keys r.keys)
      (Spec.outerRows (Spec.rowsOf l) (Spec.rowsOf r) k)) := by
  sorry

/-- a missing key column is an error, for every join kind -/
theorem join_missing_key (l r : Frame) (k : Str) (h : l.has k = false ∨ r.has k = false) :
    (l.innerJoin r k).isErr = true ∧ (l.leftJoin r k).isErr = true ∧
    (l.rightJoin r k).isErr = true ∧ (l.outerJoin r k).isErr = true := by
  sorry

/-- the result carries the union of both frames' columns and is rectangular -/
theorem join_columns {l r : Frame} (names : List Str) (rows : List Row) :
    (Spec.ofRows names rows).keys = names ∧ (Spec.ofRows names rows).RectN rows.length := by
  sorry

/-- keys of different Go types never match: `1`, `int64(1)`, `1.0` and `"1"` are four different keys -/
example : (Cell.int .int 1).goEq (.int .int64 1) = false ∧ (Cell.int .int 1).goEq (.str [49]) = false ∧
    (Cell.int .int 1).goEq (.flt false (.fin 1)) = false ∧ Cell.nil.goEq .nil = true := by decide

end Goframe.C03
