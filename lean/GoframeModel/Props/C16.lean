import GoframeModel.Ops.Agg
import GoframeModel.Spec.Agg
import GoframeModel.Lemmas.Agg
/-
  C16 — aggregations and element-wise Add equal the arithmetic reference (exact arithmetic; IEEE
  rounding is outside the model).
-/
namespace Goframe.C16
open Goframe Frame

/-- Series Sum / Mean / Min / Max equal the reference: the values of the numeric cells summed, averaged,
least / greatest ignoring NaN wherever it occurs; an error for a non-numeric cell or (Mean/Min/Max) no cells -/
theorem series_agg_spec (ω : Oracle) (k : AggKind) (d : List Cell) :
    (match Spec.aggSpec ω k d with
     | some v => seriesAgg ω k d = .ok v
     | none => (seriesAgg ω k d).isErr = true) := by
  exact AggLemmas.series_agg_spec ω k d

/-- the pinned Min (no NaN test) returns NaN for {NaN, 2, 1} while Max gives 2: finding D12 -/
theorem min_pinned_nan :
    minLoopPinned .nan [.fin 2, .fin 1] = .nan ∧ minLoop .nan [.fin 2, .fin 1] = .fin 1 ∧
    maxLoop .nan [.fin 2, .fin 1] = .fin 2 := by
  decide

/-- on finite values the sum is the exact rational sum -/
theorem sum_finite (qs : List Rat) : FVal.sum (qs.map .fin) = .fin (qs.foldl (· + ·) 0) := by
  exact AggLemmas.sum_finite qs

/-- order independence on finite values: Sum, Min and Max do not depend on the order of the cells -/
theorem sum_perm (qs rs : List Rat) (h : qs.Perm rs) : FVal.sum (qs.map .fin) = FVal.sum (rs.map .fin) := by
  exact AggLemmas.sum_perm qs rs h

theorem min_max_perm (xs ys : List Rat) (h : xs.Perm ys) :
    Spec.leastNonNaN (xs.map .fin) = Spec.leastNonNaN (ys.map .fin) ∧
    Spec.greatestNonNaN (xs.map .fin) = Spec.greatestNonNaN (ys.map .fin) := by
  exact AggLemmas.min_max_perm xs ys h

/-- Min ≤ every value ≤ Max, and both are attained (finite values) -/
theorem min_max_bounds (x : Rat) (xs : List Rat) :
    ∃ lo hi, Spec.leastNonNaN ((x :: xs).map .fin) = .fin lo ∧ Spec.greatestNonNaN ((x :: xs).map .fin) = .fin hi ∧
      lo ∈ x :: xs ∧ hi ∈ x :: xs ∧ ∀ y ∈ x :: xs, lo ≤ y ∧ y ≤ hi := by
  exact AggLemmas.min_max_bounds x xs

/-- frame level = per column; any failing column fails the call -/
theorem frame_agg_spec (ω : Oracle) (k : AggKind) (f : Frame) :
    (match Spec.aggAllSpec ω k f with
     | some kvs => aggAll ω k f = .ok kvs
     | none => (aggAll ω k f).isErr = true) := by
  exact AggLemmas.frame_agg_spec ω k f

/-- Describe agrees with Series Mean/Min/Max and the cell count on an all-numeric column
(its count/mean/min/max rows, in that order) -/
theorem describe_agrees (ω : Oracle) {f : Frame} (hs : f.Sorted) (k : Str) (c : Col) (hk : (k, c) ∈ f)
    (hstat : k ≠ sStat) (hne : c.data ≠ []) (xs : List FVal)
    (hall : Spec.valuesOf ω c.data = some xs) (hsame : ∀ x ∈ c.data, ω.toFloat x = ω.asFloat64 x) :
    (f.describe ω).get? k = some { name := k, data :=
      [.flt false (.fin (xs.length : Rat)), .flt false ((FVal.sum xs).divNat xs.length),
       .flt false (Spec.leastNonNaN xs), .flt false (Spec.greatestNonNaN xs)] } := by
  exact AggLemmas.describe_agrees ω hs k c hk hstat hne xs hall hsame

/-- Add: cell-wise numeric sum, nil where an operand is non-numeric text, the fill value for rows present
in only one operand -/
theorem add_cell_spec (ω : Oracle) (a b : Cell) (e : Cell) (h : Spec.addCellSpec ω a b = some e) :
    addCell ω a b = .ok e := by
  exact AggLemmas.add_cell_spec ω a b e h

theorem add_col_lengths (ω : Oracle) (fill : Cell) (a b out : List Cell) (h : addCol ω fill a b = .ok out) :
    out.length = max a.length b.length ∧
    ∀ i, min a.length b.length ≤ i → i < out.length → out.getD i .nil = fill := by
  exact AggLemmas.add_col_lengths ω fill a b out h

/-- frames whose column names differ are an error (after the D16 repair), never a panic -/
theorem add_name_mismatch (ω : Oracle) (f other : Frame) (fill : Cell)
    (h : ∃ kc ∈ f, other.has kc.1 = false) : (f.add ω other fill).isErr = true := by
  exact AggLemmas.add_name_mismatch ω f other fill h

end Goframe.C16
