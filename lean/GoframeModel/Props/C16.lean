import GoframeModel.Ops.Agg
import GoframeModel.Spec.Agg
import GoframeModel.Lemmas.Agg
import GoframeModel.Props.C16Rounding
/-
  C16 — aggregations and element-wise Add equal the arithmetic reference (exact arithmetic; IEEE
  rounding is outside the model).
-/
namespace Goframe.C16
open Goframe Frame

/-- Series Sum / Mean / Min / Max equal the reference: the values of the numeric cells summed, averaged,
least / greatest ignoring NaN wherever it occurs; an error for a non-numeric cell or (Mean/Min/Max) no cells -/
theorem series_agg_spec (ω : Oracle) (k : AggKind) (d : List Cell) :
    (match Spec.aggSpec ω k d with
     | some v => seriesAgg ω k d = .ok v
     | none => (seriesAgg ω k d).isErr = true) := by
  exact AggLemmas.series_agg_spec ω k d

/-- the pinned Min (no NaN test) returns NaN for {NaN, 2, 1} while Max gives 2: finding D12 -/
theorem min_pinned_nan :
    minLoopPinned .nan [.fin 2, .fin 1] = .nan ∧ minLoop .nan [.fin 2, .fin 1] = .fin 1 ∧
    maxLoop .nan [.fin 2, .fin 1] = .fin 2 := by
  decide

/-- on finite values the sum is the exact rational sum -/
theorem sum_finite (qs : List Rat) : FVal.sum (qs.map .fin) = .fin (qs.foldl (· + ·) 0) := by
  exact AggLemmas.sum_finite qs

/-- order independence on finite values: Sum, Min and Max do not depend on the order of the cells -/
theorem sum_perm (qs rs : List Rat) (h : qs.Perm rs) : FVal.sum (qs.map .fin) = FVal.sum (rs.map .fin) := by
  exact AggLemmas.sum_perm qs rs h

theorem min_max_perm (xs ys : List Rat) (h : xs.Perm ys) :
    Spec.leastNonNaN (xs.map .fin) = Spec.leastNonNaN (ys.map .fin) ∧
    Spec.greatestNonNaN (xs.map .fin) = Spec.greatestNonNaN (ys.map .fin) := by
  exact AggLemmas.min_max_perm xs ys h

/-- Min ≤ every value ≤ Max, and both are attained (finite values) -/
theorem min_max_bounds (x : Rat) (xs : List Rat) :
    ∃ lo hi, Spec.leastNonNaN ((x :: xs).map .fin) = .fin lo ∧ Spec.greatestNonNaN ((x :: xs).map .fin) = .fin hi ∧
      lo ∈ x :: xs ∧ hi ∈ x :: xs ∧ ∀ y ∈ x :: xs, lo ≤ y ∧ y ≤ hi := by
  exact AggLemmas.min_max_bounds x xs

/-- frame level = per column; any failing column fails the call -/
theorem frame_agg_spec (ω : Oracle) (k : AggKind) (f : Frame) :
    (match Spec.aggAllSpec ω k f with
     | some kvs => aggAll ω k f = .ok kvs
     | none => (aggAll ω k f).isErr = true) := by
  exact AggLemmas.frame_agg_spec ω k f

/-- Describe agrees with Series Mean/Min/Max and the cell count on an all-numeric column
(its count/mean/min/max rows, in that order) -/
theorem describe_agrees (ω : Oracle) {f : Frame} (hs : f.Sorted) (k : Str) (c : Col) (hk : (k, c) ∈ f)
    (hstat : k ≠ sStat) (hne : c.data ≠ []) (xs : List FVal)
    (hall : Spec.valuesOf ω c.data = some xs) (hsame : ∀ x ∈ c.data, ω.toFloat x = ω.asFloat64 x) :
    (f.describe ω).get? k = some { name := k, data :=
      [.flt false (.fin (xs.length : Rat)), .flt false ((FVal.sum xs).divNat xs.length),
       .flt false (Spec.leastNonNaN xs), .flt false (Spec.greatestNonNaN xs)] } := by
  exact AggLemmas.describe_agrees ω hs k c hk hstat hne xs hall hsame

/-- Add: cell-wise numeric sum, nil where an operand is non-numeric text, the fill value for rows present
in only one operand -/
theorem add_cell_spec (ω : Oracle) (a b : Cell) (e : Cell) (h : Spec.addCellSpec ω a b = some e) :
    addCell ω a b = .ok e := by
  exact AggLemmas.add_cell_spec ω a b e h

theorem add_col_lengths (ω : Oracle) (fill : Cell) (a b out : List Cell) (h : addCol ω fill a b = .ok out) :
    out.length = max a.length b.length ∧
    ∀ i, min a.length b.length ≤ i → i < out.length → out.getD i .nil = fill := by
  exact AggLemmas.add_col_lengths ω fill a b out h

/-- frames whose column names differ are an error (after the D16 repair), never a panic -/
theorem add_name_mismatch (ω : Oracle) (f other : Frame) (fill : Cell)
    (h : ∃ kc ∈ f, other.has kc.1 = false) : (f.add ω other fill).isErr = true := by
  exact AggLemmas.add_name_mismatch ω f other fill h

/-! ### "(within floating-point rounding)"

The theorems above equate the model with the ARITHMETIC reference (finite floats are added as exact rationals).
The Go code adds in float64. The distance between the two, for every list, every length and every rounding
function with relative error ≤ u (IEEE-754 round-to-nearest: u = 2⁻⁵³, absent overflow), is bounded here;
the proofs are in `Props/C16Rounding.lean` / `Lemmas/FloatErr.lean` (these two use Mathlib's `linarith`,
`ring`, `positivity`, `norm_num`). -/

open Rounding in
/-- Series.Sum in float64 vs the arithmetic sum: |fl-sum − Σx| ≤ ((1+u)ⁿ − 1)·Σ|x| -/
theorem float_sum_error (fl : Rat → Rat) (u : Rat) (hu : 0 ≤ u) (h : RelErr fl u) (xs : List Rat) :
    rabs (fsum fl xs - exactSum xs) ≤ ((1 + u) ^ xs.length - 1) * absSum xs :=
  C16R.fsum_error fl u hu h xs

open Rounding in
/-- (1+u)ⁿ − 1 ≤ γₙ = nu / (1 − nu) -/
theorem float_gamma (u : Rat) (n : Nat) (hu : 0 ≤ u) (h : (n : Rat) * u < 1) :
    (1 + u) ^ n - 1 ≤ (n : Rat) * u / (1 - (n : Rat) * u) :=
  C16R.gamma_le u n hu h

open Rounding in
/-- float64, up to 4096 summands: the error is below 2⁻⁴⁰·Σ|x| — exactly the slack the correspondence check
grants to sums and means (`cellApproxS` in lean/Driver/Seq.lean), so a disagreement it reports is not rounding -/
theorem float_sum_within_tolerance (fl : Rat → Rat) (h : RelErr fl u64) (xs : List Rat) (hn : xs.length ≤ 4096) :
    rabs (fsum fl xs - exactSum xs) * 1099511627776 ≤ absSum xs :=
  C16R.fsum_within_tolerance fl h xs hn

open Rounding in
/-- Series.Mean in float64 (the quotient is rounded once more) vs the arithmetic mean -/
theorem float_mean_error (fl : Rat → Rat) (u : Rat) (hu : 0 ≤ u) (h : RelErr fl u) (xs : List Rat) (hne : xs ≠ []) :
    rabs (fmean fl xs - exactSum xs / (xs.length : Rat)) ≤
      ((1 + u) ^ (xs.length + 1) - 1) * absSum xs / (xs.length : Rat) :=
  C16R.fmean_error fl u hu h xs hne

open Rounding in
/-- "agree with each other on the same column": two float summations of the same cells in different orders
(Series.Sum, frame-level Sum, Describe's mean row) differ by at most twice the bound -/
theorem float_sum_order_close (fl : Rat → Rat) (u : Rat) (hu : 0 ≤ u) (h : RelErr fl u) (xs ys : List Rat)
    (hp : xs.Perm ys) :
    rabs (fsum fl xs - fsum fl ys) ≤ 2 * (((1 + u) ^ xs.length - 1) * absSum xs) :=
  C16R.fsum_perm_close fl u hu h xs ys hp

open Rounding in
example : RelErr (fun x => x) 0 ∧ fsum (fun x => x) [1, 2, 3] = exactSum [1, 2, 3] := by
  constructor
  · intro x; simp [rabs]
  · simp [fsum, exactSum]

end Goframe.C16
