import GoframeModel.Ops.Sort
import GoframeModel.Spec.SortDedup
import GoframeModel.Lemmas.Refine
import GoframeModel.Lemmas.Sort
import GoframeModel.Lemmas.SortRows
/-
  C06 — SortValues returns an ordered permutation of whole rows.
  `sort.Sort` is a parameter with the contract `SortContractSWO` (given a strict weak order it returns
  a permutation without inversions); the theorems are about goframe's comparator `Less`, `Swap` on
  whole rows, the copy, and the existence check.
-/
namespace Goframe.C06
open Goframe Frame SortLemmas

structure StrictWeakOrder {α : Type} (lt : α → α → Bool) : Prop where
  irrefl : ∀ a, lt a a = false
  trans : ∀ a b c, lt a b = true → lt b c = true → lt a c = true
  incomp_trans : ∀ a b c, lt a b = false → lt b a = false → lt b c = false → lt c b = false →
    lt a c = false ∧ lt c a = false

/-- what is assumed of `sort.Sort`: for a comparator that is a strict weak order the result is a
permutation of the input without inversions -/
def SortContractSWO (sorter : (Nat → Nat → Bool) → List Nat → List Nat) : Prop :=
  ∀ lt, StrictWeakOrder lt → ∀ xs, (sorter lt xs).Perm xs ∧ (sorter lt xs).Pairwise (fun a b => lt b a = false)

/-- every sort column holds (besides nil) only numbers / numeric text, or only non-numeric text -/
def Homog (ω : Oracle) (f : Frame) (by_ : List Str) : Prop :=
  ∀ k ∈ by_, Spec.classify ω (((f.get? k).map (·.data)).getD []) ≠ .mixed

/-- no sort-column cell converts to NaN (NaN is unordered: `Less` is then not a strict weak order) -/
def NoNaN (ω : Oracle) (f : Frame) (by_ : List Str) : Prop :=
  ∀ k ∈ by_, ∀ c, f.get? k = some c → ∀ x ∈ c.data, ω.toFloat x ≠ some .nan

/-- goframe's comparator is a strict weak order on homogeneous columns -/
theorem less_swo (ω : Oracle) (f : Frame) (by_ : List Str) (asc : Bool)
    (hh : Homog ω f by_) (hn : NoNaN ω f by_) : StrictWeakOrder (f.less ω by_ asc) := by
  have h := SortLemmas.less_swo ω f by_ asc hh (colData_noNaN hn)
  exact ⟨h.irrefl, h.trans, h.incomp_trans⟩

/-- …and it is the specification's order: nil last in both directions, numbers by value, text
bytewise, direction applied, earlier columns first -/
theorem less_is_spec (ω : Oracle) {f : Frame} {n : Nat} (hs : f.Sorted) (hr : f.RectN n) (by_ : List Str) (asc : Bool)
    (hby : ∀ k ∈ by_, f.has k = true) (hh : Homog ω f by_) (i j : Nat) (hi : i < n) (hj : j < n) :
    f.less ω by_ asc i j =
      Spec.specLt ω (by_.map (fun k => Spec.classify ω ((Spec.rowsOf f).map (fun r => Row.getD r k)))) asc
        (by_.map (fun k => Row.getD (f.rowMap i) k)) (by_.map (fun k => Row.getD (f.rowMap j) k)) := by
  -- `hs`, `hi`, `hj` are not needed: `Row.getD` and `get?` both read the first entry for a key, and
  -- a cell out of range reads as `nil` on both sides
  have _ := hs; have _ := hi; have _ := hj
  exact less_eq_specLt ω hr by_ asc hby hh i j

/-- the result has the same columns, its rows are a permutation of the input rows (cells of a row stay
together) and no later row sorts strictly before an earlier one -/
theorem sort_spec (sorter : (Nat → Nat → Bool) → List Nat → List Nat) (hc : SortContractSWO sorter)
    (ω : Oracle) {f : Frame} {n : Nat} (hs : f.Sorted) (hr : f.RectN n) (by_ : List Str) (asc : Bool)
    (hby : ∀ k ∈ by_, f.has k = true) (hh : Homog ω f by_) (hn : NoNaN ω f by_) :
    ∃ out, f.sortValuesWith sorter ω by_ asc = .ok out ∧ Spec.sortSpec ω f out by_ asc = true := by
  have _ := hs  -- not needed
  obtain ⟨hp, hpw⟩ := hc (f.less ω by_ asc) (less_swo ω f by_ asc hh hn) (List.range f.nrows)
  refine ⟨permute f (sorter (f.less ω by_ asc) (List.range f.nrows)), ?_, ?_⟩
  · unfold sortValuesWith
    have : by_.any (fun k => !f.has k) = false := by
      rw [List.any_eq_false]
      intro k hk
      simp [hby k hk]
    rw [this]
    rfl
  · exact sortSpec_permute ω hr by_ asc hby hh _ hp hpw

/-- an unknown sort column is an error -/
theorem sort_missing (sorter : (Nat → Nat → Bool) → List Nat → List Nat) (ω : Oracle) (f : Frame)
    (by_ : List Str) (asc : Bool) (h : ∃ k ∈ by_, f.has k = false) :
    (f.sortValuesWith sorter ω by_ asc).isErr = true := by
  obtain ⟨k, hk, hf⟩ := h
  unfold sortValuesWith
  have : by_.any (fun k => !f.has k) = true := by
    rw [List.any_eq_true]
    exact ⟨k, hk, by simp [hf]⟩
  rw [this]
  rfl

/-- the contract is inhabited by what `sort.Sort` does for at most 12 rows (insertion sort) -/
theorem insertionSort_contract : SortContractSWO (fun lt xs => insertionSort lt xs) := by
  intro lt h xs
  exact insertionSort_ok ⟨h.irrefl, h.trans, h.incomp_trans⟩ xs

/-- the homogeneity hypothesis is forced: on the column "10", "9", "1a" the comparator has a 3-cycle
(9 < 10 numerically, "10" < "1a" and "1a" < "9" as text) -/
def ωcycle : Oracle where
  fmtFloat _ _ := []
  fmtTime _ := []
  parseFloat s := if s = [49, 48] then some (.fin 10) else if s = [57] then some (.fin 9) else none
  trim s := s
  timeParse _ _ := none

theorem less_not_swo_without_homog :
    let f : Frame := [([97], { name := [97], data := [.str [49, 48], .str [57], .str [49, 97]] })]
    f.less ωcycle [[97]] true 1 0 = true ∧ f.less ωcycle [[97]] true 0 2 = true ∧
    f.less ωcycle [[97]] true 2 1 = true := by
  decide

/-- C01's row-alignment clause for SortValues: every row of the result — all its cells together — is a row of the
input, and the columns are the input's -/
theorem sort_rows_whole (sorter : (Nat → Nat → Bool) → List Nat → List Nat) (hc : SortContractSWO sorter)
    (ω : Oracle) {f : Frame} {n : Nat} (hs : f.Sorted) (hr : f.RectN n) (by_ : List Str) (asc : Bool)
    (hby : ∀ k ∈ by_, f.has k = true) (hh : Homog ω f by_) (hn : NoNaN ω f by_) (out : Frame)
    (h : f.sortValuesWith sorter ω by_ asc = .ok out) :
    out.keys = f.keys ∧ ∀ r ∈ out.rows, r ∈ f.rows := by
  have _ := hs; have _ := hr  -- not needed
  obtain ⟨hp, _⟩ := hc (f.less ω by_ asc) (less_swo ω f by_ asc hh hn) (List.range f.nrows)
  rw [SortRows.sortValuesWith_ok sorter ω f by_ asc hby] at h
  injection h with h
  subst h
  refine ⟨permute_keys f _, SortRows.permute_rows_mem _ ?_⟩
  intro i hi
  exact List.mem_range.1 (hp.mem_iff.1 hi)

end Goframe.C06
