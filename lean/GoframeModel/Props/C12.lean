import GoframeModel.Ops.SqlWrite
import GoframeModel.Lemmas.Tx
/-
  C12 — SQL export is all-or-nothing under a failure at any step.
  Protocol model: `runTx` (ToSQL / ToSQLContext: Begin, deferred Rollback, body, Commit) and `runBody`
  (ToSQLTx / ToSQLTxContext on the caller's transaction), with a fault at driver call number `k`.
  The database is transactional: only a successful Commit publishes.
-/
namespace Goframe.C12
open Goframe Sql TxLemmas

def commitsOk (tr : List (Call × Bool)) : Nat := (tr.filter (fun c => c.1 = .commit ∧ c.2 = true)).length
def rollbacks (tr : List (Call × Bool)) : Nat := (tr.filter (fun c => c.1 = .rollback)).length
def failedCommit (tr : List (Call × Bool)) : Bool := tr.any (fun c => c.1 = .commit ∧ c.2 = false)

/-- what is published after a trace, given what a successful run of the statements would produce:
the new state iff a Commit succeeded, the old state otherwise -/
def published {α} (old new : α) (tr : List (Call × Bool)) : α := if commitsOk tr ≥ 1 then new else old

/-- a fault at ANY call (Begin, the existence query, DROP, CREATE, any INSERT batch, Commit): the export
returns an error, nothing was committed, so the database is exactly as before; and once the transaction
had begun it is rolled back (or its Commit is what failed, which ends it) -/
theorem atomic_under_fault (f : Frame) (table : Str) (o : WriteOpts) (ex : Bool) (k : Nat)
    (hk : k < (runTx f table o ex none).1.length) :
    let (tr, ok) := runTx f table o ex (some k)
    ok = false ∧ commitsOk tr = 0 ∧ (∀ {α} (old new : α), published old new tr = old) ∧
    (k > 0 → rollbacks tr = 1 ∨ failedCommit tr = true) := by
  have key : (runTx f table o ex (some k)).2 = false ∧ commitsOk (runTx f table o ex (some k)).1 = 0 ∧
      (k > 0 → rollbacks (runTx f table o ex (some k)).1 = 1 ∨
        failedCommit (runTx f table o ex (some k)).1 = true) := by
    by_cases hk0 : k = 0
    · subst hk0
      simp [runTx, commitsOk]
    · have hk1 : 1 ≤ k := by omega
      have hb := runBody_isBody f table o ex (some k) 1
      have hok := @runBody_ok_some f table o ex k
      unfold runTx
      simp only [Option.some.injEq, hk0, if_false]
      generalize runBody f table o ex (some k) 1 = p at hb hok ⊢
      obtain ⟨tr, ok⟩ := p
      simp only at hb
      cases ok with
      | false =>
        simp only [Bool.false_eq_true, if_false, true_and]
        unfold commitsOk rollbacks
        rw [filter_wrap tr _ _ _ hb (fun x => commit_not_body x true),
          filter_wrap tr _ _ _ hb rollback_not_body]
        simp
      | true =>
        obtain ⟨h1, h2⟩ := hok rfl hk1
        have hci : k = 1 + tr.length := by omega
        simp only [hci, if_true, true_and]
        unfold commitsOk failedCommit
        rw [filter_wrap tr _ _ _ hb (fun x => commit_not_body x true),
          any_wrap tr _ _ _ hb (fun x => commit_not_body x false)]
        simp
  generalize runTx f table o ex (some k) = p at key ⊢
  obtain ⟨tr, ok⟩ := p
  obtain ⟨k1, k2, k3⟩ := key
  simp only at k1 k2 k3 ⊢
  refine ⟨k1, k2, ?_, k3⟩
  intro α old new
  simp [published, k2]

/-- without a fault: success iff the body succeeds; then exactly one Commit, as the last call, and no Rollback -/
theorem commit_exactly_once (f : Frame) (table : Str) (o : WriteOpts) (ex : Bool) :
    let (tr, ok) := runTx f table o ex none
    (ok = true → commitsOk tr = 1 ∧ rollbacks tr = 0 ∧ (tr.getLast?.map (·.1)) = some .commit) ∧
    (ok = false → commitsOk tr = 0 ∧ rollbacks tr = 1) := by
  have hb := runBody_isBody f table o ex none 1
  unfold runTx
  simp only [reduceCtorEq, if_false]
  generalize runBody f table o ex none 1 = p at hb ⊢
  obtain ⟨tr, ok⟩ := p
  simp only at hb
  cases ok with
  | false =>
    simp only [Bool.false_eq_true, if_false]
    unfold commitsOk rollbacks
    rw [filter_wrap tr _ _ _ hb (fun x => commit_not_body x true),
      filter_wrap tr _ _ _ hb rollback_not_body]
    simp
  | true =>
    simp only [if_true]
    have hl : ((Call.begin, true) :: tr ++ [(Call.commit, true)]).getLast? = some (Call.commit, true) := by
      rw [List.getLast?_concat]
    unfold commitsOk rollbacks
    rw [filter_wrap tr _ _ _ hb (fun x => commit_not_body x true),
      filter_wrap tr _ _ _ hb rollback_not_body, hl]
    simp

/-- an error of the body (validation, existing table in "fail" mode) is also rolled back, never committed -/
theorem body_error_rolls_back (f : Frame) (table : Str) (o : WriteOpts) (ex : Bool) (fa : Option Nat)
    (h : (runBody f table o ex fa 1).2 = false) (hb : fa ≠ some 0) :
    commitsOk (runTx f table o ex fa).1 = 0 ∧ (runTx f table o ex fa).2 = false := by
  have hbody := runBody_isBody f table o ex fa 1
  unfold runTx
  simp only [hb, if_false]
  generalize runBody f table o ex fa 1 = p at hbody h ⊢
  obtain ⟨tr, ok⟩ := p
  simp only at hbody h
  subst h
  simp only [Bool.false_eq_true, if_false, and_true]
  unfold commitsOk
  rw [filter_wrap tr _ _ _ hbody (fun x => commit_not_body x true)]
  simp

/-- the Tx variants never commit or roll back the caller's transaction, whether they succeed or fail -/
theorem tx_variants_never_end_tx (f : Frame) (table : Str) (o : WriteOpts) (ex : Bool) (fa : Option Nat) (start : Nat) :
    ∀ c ∈ (runBody f table o ex fa start).1, c.1 ≠ .commit ∧ c.1 ≠ .rollback ∧ c.1 ≠ .begin := by
  intro c hc
  have := runBody_isBody f table o ex fa start c hc
  cases hc1 : c.1 <;> simp [hc1, isBody] at this ⊢

/-- a failing call stops the body: nothing is issued after it, and the body reports the error -/
theorem fault_stops_body (f : Frame) (table : Str) (o : WriteOpts) (ex : Bool) (k : Nat)
    (hk : k < (runBody f table o ex none 0).1.length) :
    let (tr, ok) := runBody f table o ex (some k) 0
    ok = false ∧ tr.length = k + 1 ∧ (tr.getLast?.map (·.2)) = some false := by
  rcases runBody_cases f table o ex with h0 | ⟨calls, good, _, hc⟩
  · rw [h0] at hk; simp at hk
  · rw [hc, runCalls_none] at hk
    simp only [List.length_map] at hk
    obtain ⟨h1, h2, h3⟩ := runCalls_in calls k 0 (by omega) (by omega)
    rw [hc]
    simp only [h1, Bool.false_and, true_and]
    exact ⟨by simpa using h2, h3⟩

private theorem runCalls_fault (calls : List Call) (k start : Nat) (h : k < calls.length) :
    (runCalls calls (some (start + k)) start).1 =
      (calls.take k).map (fun c => (c, true)) ++ [(calls[k], false)] := by
  induction calls generalizing k start with
  | nil => simp at h
  | cons c rest ih =>
    cases k with
    | zero => simp [runCalls]
    | succ k =>
      have hne : start + (k + 1) ≠ start := by omega
      have e : start + (k + 1) = (start + 1) + k := by omega
      have hk : k < rest.length := by simpa using h
      simp only [runCalls, Option.some.injEq, hne, if_false, List.take_succ_cons, List.map_cons,
        List.cons_append, List.getElem_cons_succ]
      rw [e, ih k (start + 1) hk]

/-- a fault changes nothing before it: up to call `k` the export issues exactly the statements of the fault-free
export, each succeeding, then the failing call, then nothing -/
theorem fault_prefix (f : Frame) (table : Str) (o : WriteOpts) (ex : Bool) (k : Nat)
    (hk : k < (runBody f table o ex none 0).1.length) :
    (runBody f table o ex (some k) 0).1 =
      (runBody f table o ex none 0).1.take k ++ [(((runBody f table o ex none 0).1[k]).1, false)] := by
  rcases runBody_cases f table o ex with h0 | ⟨calls, good, _, hc⟩
  · rw [h0] at hk; simp at hk
  · have hk' := hk
    rw [hc, runCalls_none] at hk'
    simp only [List.length_map] at hk'
    have := runCalls_fault calls k 0 hk'
    simp only [Nat.zero_add] at this
    simp only [hc, runCalls_none, this, List.getElem_map, List.map_take]

end Goframe.C12
