import GoframeModel.Ops.SqlWrite
/-
  C12 — SQL export is all-or-nothing under a failure at any step.
  Protocol model: `runTx` (ToSQL / ToSQLContext: Begin, deferred Rollback, body, Commit) and `runBody`
  (ToSQLTx / ToSQLTxContext on the caller's transaction), with a fault at driver call number `k`.
  The database is transactional: only a successful Commit publishes.
-/
namespace Goframe.C12
open Goframe Sql

def commitsOk (tr : List (Call × Bool)) : Nat := (tr.filter (fun c => c.1 = .commit ∧ c.2 = true)).length
def rollbacks (tr : List (Call × Bool)) : Nat := (tr.filter (fun c => c.1 = .rollback)).length
def failedCommit (tr : List (Call × Bool)) : Bool := tr.any (fun c => c.1 = .commit ∧ c.2 = false)

/-- what is published after a trace, given what a successful run of the statements would produce:
the new state iff a Commit succeeded, the old state otherwise -/
def published {α} (old new : α) (tr : List (Call × Bool)) : α := if commitsOk tr ≥ 1 then new else old

/-- a fault at ANY call (Begin, the existence query, DROP, CREATE, any INSERT batch, Commit): the export
returns an error, nothing was committed, so the database is exactly as before; and once the transaction
had begun it is rolled back (or its Commit is what failed, which ends it) -/
theorem atomic_under_fault (f : Frame) (table : Str) (o : WriteOpts) (ex : Bool) (k : Nat)
    (hk : k < (runTx f table o ex none).1.length)
    (hnot_rb : ∀ c, (runTx f table o ex none).1[k]? = some c → c.1 ≠ .rollback) :
    let (tr, ok) := runTx f table o ex (some k)
    ok = false ∧ commitsOk tr = 0 ∧ (∀ {α} (old new : α), published old new tr = old) ∧
    (k > 0 → rollbacks tr = 1 ∨ failedCommit tr = true) := by
  sorry

/-- without a fault: success iff the body succeeds; then exactly one Commit, as the last call, and no Rollback -/
theorem commit_exactly_once (f : Frame) (table : Str) (o : WriteOpts) (ex : Bool) :
    let (tr, ok) := runTx f table o ex none
    (ok = true → commitsOk tr = 1 ∧ rollbacks tr = 0 ∧ (tr.getLast?.map (·.1)) = some .commit) ∧
    (ok = false → commitsOk tr = 0 ∧ rollbacks tr = 1) := by
  sorry

/-- an error of the body (validation, existing table in "fail" mode) is also rolled back, never committed -/
theorem body_error_rolls_back (f : Frame) (table : Str) (o : WriteOpts) (ex : Bool) (fa : Option Nat)
    (h : (runBody f table o ex fa 1).2 = false) (hb : fa ≠ some 0) :
    commitsOk (runTx f table o ex fa).1 = 0 ∧ (runTx f table o ex fa).2 = false := by
  sorry

/-- the Tx variants never commit or roll back the caller's transaction, whether they succeed or fail -/
theorem tx_variants_never_end_tx (f : Frame) (table : Str) (o : WriteOpts) (ex : Bool) (fa : Option Nat) (start : Nat) :
    ∀ c ∈ (runBody f table o ex fa start).1, c.1 ≠ .commit ∧ c.1 ≠ .rollback ∧ c.1 ≠ .begin := by
  sorry

/-- a failing call stops the body: nothing is issued after it, and the body reports the error -/
theorem fault_stops_body (f : Frame) (table : Str) (o : WriteOpts) (ex : Bool) (k : Nat)
    (hk : k < (runBody f table o ex none 0).1.length) :
    let (tr, ok) := runBody f table o ex (some k) 0
    ok = false ∧ tr.length = k + 1 ∧ (tr.getLast?.map (·.2)) = some false := by
  sorry

end Goframe.C12
