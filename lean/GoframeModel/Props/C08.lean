import GoframeModel.Ops.Select
import GoframeModel.Spec.Select
import GoframeModel.Lemmas.RefineA
import GoframeModel.Lemmas.Select
/-
  C08 — row and column selection returns exactly the requested cells in order.
  Each theorem equates the model of the code path (loops over `Row(i)` / `AppendRow`, slices) with the
  specification written on rows (`take`, `drop`, `filter`, `map`, `flatMap`, `eraseIdx`).
-/
namespace Goframe.C08
open Goframe Frame

def outcomeOfOption (e : Option Frame) (o : Outcome Frame) : Prop :=
  match e with
  | some x => o = .ok x
  | none => o.isErr = true

theorem head_spec {f : Frame} {n : Nat} (hs : f.Sorted) (hr : f.RectN n) (c : Int) :
    f.head c = .ok (Spec.headSpec f c) := by
  exact head_eq hs hr c

theorem tail_spec {f : Frame} {n : Nat} (hs : f.Sorted) (hr : f.RectN n) (c : Int) (hn : (n : Int) < 2 ^ 62) :
    f.tail c = .ok (Spec.tailSpec f c) := by
  exact tail_eq hs hr c hn

theorem rowSlice_spec {f : Frame} {n : Nat} (hs : f.Sorted) (hr : f.RectN n) (a b : Int) :
    f.rowSlice a b = Spec.rowSliceSpec f a b := by
  have _ := hs
  exact rowSlice_eq hr a b

/-- `Filter` keeps exactly the accepted rows, and the predicate sees each row exactly once, in order,
with all its cells -/
theorem filter_spec {f : Frame} {n : Nat} (hs : f.Sorted) (hr : f.RectN n) (p : Nat → Row → Bool) :
    f.filter p = Spec.filterSpec f p ∧ f.filterLog = Spec.filterLogSpec f := by
  have _ := hs
  exact ⟨filter_eq hr p, filterLog_eq hr⟩

theorem iloc_spec {f : Frame} {n : Nat} (hs : f.Sorted) (hr : f.RectN n) (ris cis : List Int) :
    outcomeOfOption (Spec.ilocSpec f ris cis) (f.iloc ris cis) := by
  have _ := hs; have _ := hr
  have h := iloc_refines f ris cis
  unfold outcomeOfOption
  split <;> rename_i e <;> rw [e] at h
  · exact h.some
  · exact h.none

theorem loc_spec {f : Frame} {n : Nat} (hs : f.Sorted) (hr : f.RectN n) (labels : List Cell) (cols : List Str) :
    outcomeOfOption (Spec.locSpec f labels cols) (f.loc labels cols) := by
  have _ := hs
  have h := loc_refines hr labels cols
  unfold outcomeOfOption
  split <;> rename_i e <;> rw [e] at h
  · exact h.some
  · exact h.none

theorem multiSelect_spec {f : Frame} {n : Nat} (hs : f.Sorted) (hr : f.RectN n) (ks : List Str) :
    outcomeOfOption (Spec.multiSelectSpec f ks) (f.multiSelect ks) := by
  have _ := hs
  have h := multiSelect_refines hr ks
  unfold outcomeOfOption
  split <;> rename_i e <;> rw [e] at h
  · exact h.some
  · exact h.none

theorem dropRow_spec {f : Frame} {n : Nat} (hs : f.Sorted) (hr : f.RectN n) (i : Int) :
    outcomeOfOption (Spec.dropRowSpec f i) (f.dropRow i) := by
  have h := dropRow_refines hs hr i
  unfold outcomeOfOption
  split <;> rename_i e <;> rw [e] at h
  · exact h.some
  · exact h.none

theorem dropColumn_spec {f : Frame} {n : Nat} (hs : f.Sorted) (hr : f.RectN n) (k : Str) :
    outcomeOfOption (Spec.dropColumnSpec f k) (f.dropColumn k) := by
  have h := dropColumn_refines hs hr k
  unfold outcomeOfOption
  split <;> rename_i e <;> rw [e] at h
  · exact h.some
  · exact h.none

/-- `Row(i)` succeeds exactly for `0 ≤ i < Nrows()` and then returns every cell of that row -/
theorem row_spec {f : Frame} {n : Nat} (hr : f.RectN n) (i : Int) :
    (match Spec.rowSpec f i with
     | some r => f.rowAt i = .ok r
     | none => (f.rowAt i).isErr = true) := by
  have h := rowAt_refines hr i
  split <;> rename_i e <;> rw [e] at h
  · exact h.some
  · exact h.none

/-- `ColumnNames()` is the strictly sorted list of the column names; `Ncols` is its length -/
theorem columnNames_sorted {f : Frame} (hs : f.Sorted) :
    (f.columnNames).Pairwise (fun a b => strLt a b = true) ∧ f.columnNames.length = f.ncols := by
  exact ⟨List.pairwise_map.mpr hs, keys_length f⟩

example : (Frame.head [([97], { name := [97], data := [.int .int 1, .int .int 2, .nil] })] (-1)) =
    .ok [([97], { name := [97], data := [] })] := by decide

/-- the pinned `Head` (before the repair in /repo) panics on a negative count (finding D14) -/
theorem head_pinned_panics :
    (Frame.headPinned [([97], { name := [97], data := [.int .int 1] })] (-1)).isPanic = true := by decide

/-! ### consequences: Head and Tail split the frame; an over-long Head is a copy -/
private theorem range_getD (d : List Cell) : (List.range d.length).map (fun i => d.getD i .nil) = d := by
  apply List.ext_getElem
  · simp
  · intro i h1 h2
    simp [List.getD_eq_getElem?_getD, List.getElem?_eq_getElem h2]

private theorem rowsOf_col' {f : Frame} {n : Nat} (hs : f.Sorted) (hr : f.RectN n) {kc : Str × Col} (hk : kc ∈ f) :
    (Spec.rowsOf f).map (fun r => Row.getD r kc.1) = kc.2.data := by
  unfold Spec.rowsOf
  rw [List.map_map]
  have hn : f.nrows = n := Frame.nrows_of_rectN hr (List.ne_nil_of_mem hk)
  have hl : kc.2.data.length = n := (hr kc hk).1
  rw [hn, ← hl]
  conv => rhs; rw [← range_getD kc.2.data]
  apply List.map_congr_left
  intro i _
  exact Row.getD_rowMap_of_mem hs (k := kc.1) (c := kc.2) hk i

/-- `Head(c)` and `Tail(n − c)` split the frame: for every column, the head's cells followed by the tail's cells
are the column's cells — no row lost, repeated or moved (`0 ≤ c ≤ n`) -/
theorem head_tail_partition {f h t : Frame} {n : Nat} (hs : f.Sorted) (hr : f.RectN n) (hn : (n : Int) < 2 ^ 62)
    (c : Nat) (hc : c ≤ n) (hh : f.head c = .ok h) (ht : f.tail ((n : Int) - c) = .ok t) :
    ∀ kc ∈ f, ∃ ch ct, (kc.1, ch) ∈ h ∧ (kc.1, ct) ∈ t ∧ ch.data ++ ct.data = kc.2.data := by
  intro kc hk
  rw [head_eq hs hr] at hh
  rw [tail_eq hs hr _ hn] at ht
  cases hh; cases ht
  have hnr : f.nrows = n := Frame.nrows_of_rectN hr (List.ne_nil_of_mem hk)
  have hkk : kc.1 ∈ f.keys := List.mem_map.mpr ⟨kc, hk, rfl⟩
  refine ⟨_, _, List.mem_map.mpr ⟨kc.1, hkk, rfl⟩, List.mem_map.mpr ⟨kc.1, hkk, rfl⟩, ?_⟩
  simp only []
  rw [← List.map_append]
  have e1 : (Spec.clamp (c : Int) 0 f.nrows).toNat = c := by
    unfold Spec.clamp; rw [hnr]; split
    · omega
    · split <;> omega
  have e2 : f.nrows - (Spec.clamp ((n : Int) - c) 0 f.nrows).toNat = c := by
    unfold Spec.clamp; rw [hnr]; split
    · omega
    · split <;> omega
  rw [e1, e2, List.take_append_drop]
  exact rowsOf_col' hs hr hk

/-- asking for at least as many rows as there are returns every cell of every column (a copy) -/
theorem head_all {f h : Frame} {n : Nat} (hs : f.Sorted) (hr : f.RectN n) (c : Int) (hc : (n : Int) ≤ c)
    (hh : f.head c = .ok h) : ∀ kc ∈ f, ∃ ch, (kc.1, ch) ∈ h ∧ ch.data = kc.2.data := by
  intro kc hk
  rw [head_eq hs hr] at hh
  cases hh
  have hnr : f.nrows = n := Frame.nrows_of_rectN hr (List.ne_nil_of_mem hk)
  have hkk : kc.1 ∈ f.keys := List.mem_map.mpr ⟨kc, hk, rfl⟩
  refine ⟨_, List.mem_map.mpr ⟨kc.1, hkk, rfl⟩, ?_⟩
  simp only []
  have e1 : (Spec.clamp c 0 f.nrows).toNat = n := by
    unfold Spec.clamp; rw [hnr]; split
    · omega
    · split <;> omega
  have hl : (Spec.rowsOf f).length = n := by unfold Spec.rowsOf; simp [hnr]
  rw [e1, List.take_of_length_le (by omega)]
  exact rowsOf_col' hs hr hk

end Goframe.C08
