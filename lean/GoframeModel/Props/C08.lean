import GoframeModel.Ops.Select
import GoframeModel.Spec.Select
import GoframeModel.Lemmas.RefineA
import GoframeModel.Lemmas.Select
/-
  C08 — row and column selection returns exactly the requested cells in order.
  Each theorem equates the model of the code path (loops over `Row(i)` / `AppendRow`, slices) with the
  specification written on rows (`take`, `drop`, `filter`, `map`, `flatMap`, `eraseIdx`).
-/
namespace Goframe.C08
open Goframe Frame

def outcomeOfOption (e : Option Frame) (o : Outcome Frame) : Prop :=
  match e with
  | some x => o = .ok x
  | none => o.isErr = true

theorem head_spec {f : Frame} {n : Nat} (hs : f.Sorted) (hr : f.RectN n) (c : Int) :
    f.head c = .ok (Spec.headSpec f c) := by
  exact head_eq hs hr c

theorem tail_spec {f : Frame} {n : Nat} (hs : f.Sorted) (hr : f.RectN n) (c : Int) (hn : (n : Int) < 2 ^ 62) :
    f.tail c = .ok (Spec.tailSpec f c) := by
  exact tail_eq hs hr c hn

theorem rowSlice_spec {f : Frame} {n : Nat} (hs : f.Sorted) (hr : f.RectN n) (a b : Int) :
    f.rowSlice a b = Spec.rowSliceSpec f a b := by
  have _ := hs
  exact rowSlice_eq hr a b

/-- `Filter` keeps exactly the accepted rows, and the predicate sees each row exactly once, in order,
with all its cells -/
theorem filter_spec {f : Frame} {n : Nat} (hs : f.Sorted) (hr : f.RectN n) (p : Nat → Row → Bool) :
    f.filter p = Spec.filterSpec f p ∧ f.filterLog = Spec.filterLogSpec f := by
  have _ := hs
  exact ⟨filter_eq hr p, filterLog_eq hr⟩

theorem iloc_spec {f : Frame} {n : Nat} (hs : f.Sorted) (hr : f.RectN n) (ris cis : List Int) :
    outcomeOfOption (Spec.ilocSpec f ris cis) (f.iloc ris cis) := by
  have _ := hs; have _ := hr
  have h := iloc_refines f ris cis
  unfold outcomeOfOption
  split <;> rename_i e <;> rw [e] at h
  · exact h.some
  · exact h.none

theorem loc_spec {f : Frame} {n : Nat} (hs : f.Sorted) (hr : f.RectN n) (labels : List Cell) (cols : List Str) :
    outcomeOfOption (Spec.locSpec f labels cols) (f.loc labels cols) := by
  have _ := hs
  have h := loc_refines hr labels cols
  unfold outcomeOfOption
  split <;> rename_i e <;> rw [e] at h
  · exact h.some
  · exact h.none

theorem multiSelect_spec {f : Frame} {n : Nat} (hs : f.Sorted) (hr : f.RectN n) (ks : List Str) :
    outcomeOfOption (Spec.multiSelectSpec f ks) (f.multiSelect ks) := by
  have _ := hs
  have h := multiSelect_refines hr ks
  unfold outcomeOfOption
  split <;> rename_i e <;> rw [e] at h
  · exact h.some
  · exact h.none

theorem dropRow_spec {f : Frame} {n : Nat} (hs : f.Sorted) (hr : f.RectN n) (i : Int) :
    outcomeOfOption (Spec.dropRowSpec f i) (f.dropRow i) := by
  have h := dropRow_refines hs hr i
  unfold outcomeOfOption
  split <;> rename_i e <;> rw [e] at h
  · exact h.some
  · exact h.none

theorem dropColumn_spec {f : Frame} {n : Nat} (hs : f.Sorted) (hr : f.RectN n) (k : Str) :
    outcomeOfOption (Spec.dropColumnSpec f k) (f.dropColumn k) := by
  have h := dropColumn_refines hs hr k
  unfold outcomeOfOption
  split <;> rename_i e <;> rw [e] at h
  · exact h.some
  · exact h.none

/-- `Row(i)` succeeds exactly for `0 ≤ i < Nrows()` and then returns every cell of that row -/
theorem row_spec {f : Frame} {n : Nat} (hr : f.RectN n) (i : Int) :
    (match Spec.rowSpec f i with
     | some r => f.rowAt i = .ok r
     | none => (f.rowAt i).isErr = true) := by
  have h := rowAt_refines hr i
  split <;> rename_i e <;> rw [e] at h
  · exact h.some
  · exact h.none

/-- `ColumnNames()` is the strictly sorted list of the column names; `Ncols` is its length -/
theorem columnNames_sorted {f : Frame} (hs : f.Sorted) :
    (f.columnNames).Pairwise (fun a b => strLt a b = true) ∧ f.columnNames.length = f.ncols := by
  exact ⟨List.pairwise_map.mpr hs, keys_length f⟩

example : (Frame.head [([97], { name := [97], data := [.int .int 1, .int .int 2, .nil] })] (-1)) =
    .ok [([97], { name := [97], data := [] })] := by decide

/-- the pinned `Head` (before the repair in /repo) panics on a negative count (finding D14) -/
theorem head_pinned_panics :
    (Frame.headPinned [([97], { name := [97], data := [.int .int 1] })] (-1)).isPanic = true := by decide

end Goframe.C08
