import GoframeModel.Ops.Select
import GoframeModel.Spec.Select
import GoframeModel.Lemmas.Refine
/-
  C08 — row and column selection returns exactly the requested cells in order.
  Each theorem equates the model of the code path (loops over `Row(i)` / `AppendRow`, slices) with the
  specification written on rows (`take`, `drop`, `filter`, `map`, `flatMap`, `eraseIdx`).
-/
namespace Goframe.C08
open Goframe Frame

def outcomeOfOption (e : Option Frame) (o : Outcome Frame) : Prop :=
  match e with
  | some x => o = .ok x
  | none => o.isErr = true

theorem head_spec {f : Frame} {n : Nat} (hs : f.Sorted) (hr : f.RectN n) (c : Int) :
    f.head c = .ok (Spec.headSpec f c) := by
  sorry

theorem tail_spec {f : Frame} {n : Nat} (hs : f.Sorted) (hr : f.RectN n) (c : Int) (hn : (n : Int) < 2 ^ 62) :
    f.tail c = .ok (Spec.tailSpec f c) := by
  sorry

theorem rowSlice_spec {f : Frame} {n : Nat} (hs : f.Sorted) (hr : f.RectN n) (a b : Int) :
    f.rowSlice a b = Spec.rowSliceSpec f a b := by
  sorry

/-- `Filter` keeps exactly the accepted rows, and the predicate sees each row exactly once, in order,
with all its cells -/
theorem filter_spec {f : Frame} {n : Nat} (hs : f.Sorted) (hr : f.RectN n) (p : Nat → Row → Bool) :
    f.filter p = Spec.filterSpec f p ∧ f.filterLog = Spec.filterLogSpec f := by
  sorry

theorem iloc_spec {f : Frame} {n : Nat} (hs : f.Sorted) (hr : f.RectN n) (ris cis : List Int) :
    outcomeOfOption (Spec.ilocSpec f ris cis) (f.iloc ris cis) := by
  sorry

theorem loc_spec {f : Frame} {n : Nat} (hs : f.Sorted) (hr : f.RectN n) (labels : List Cell) (cols : List Str) :
    outcomeOfOption (Spec.locSpec f labels cols) (f.loc labels cols) := by
  sorry

theorem multiSelect_spec {f : Frame} {n : Nat} (hs : f.Sorted) (hr : f.RectN n) (ks : List Str) :
    outcomeOfOption (Spec.multiSelectSpec f ks) (f.multiSelect ks) := by
  sorry

theorem dropRow_spec {f : Frame} {n : Nat} (hs : f.Sorted) (hr : f.RectN n) (i : Int) :
    outcomeOfOption (Spec.dropRowSpec f i) (f.dropRow i) := by
  sorry

theorem dropColumn_spec {f : Frame} {n : Nat} (hs : f.Sorted) (hr : f.RectN n) (k : Str) :
    outcomeOfOption (Spec.dropColumnSpec f k) (f.dropColumn k) := by
  sorry

/-- `Row(i)` succeeds exactly for `0 ≤ i < Nrows()` and then returns every cell of that row -/
theorem row_spec {f : Frame} {n : Nat} (hr : f.RectN n) (i : Int) :
    (match Spec.rowSpec f i with
     | some r => f.rowAt i = .ok r
     | none => (f.rowAt i).isErr = true) := by
  sorry

/-- `ColumnNames()` is the strictly sorted list of the column names; `Ncols` is its length -/
theorem columnNames_sorted {f : Frame} (hs : f.Sorted) :
    (f.columnNames).Pairwise (fun a b => strLt a b = true) ∧ f.columnNames.length = f.ncols := by
  sorry

example : (Frame.head [([97], { name := [97], data := [.int .int 1, .int .int 2, .nil] })] (-1)) =
    .ok [([97], { name := [97], data := [] })] := by decide

/-- the pinned `Head` (before the repair in /repo) panics on a negative count (finding D14) -/
theorem head_pinned_panics :
    (Frame.headPinned [([97], { name := [97], data := [.int .int 1] })] (-1)).isPanic = true := by decide

end Goframe.C08
