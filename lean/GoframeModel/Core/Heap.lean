import GoframeModel.Core.Basic
/-
  The heap layer used only by C02. Pure values cannot express two Go slices viewing one backing array,
  so here a column's `Data` is a slice header into a store of arrays, with Go's semantics:
  `s[a:b]` shares the array, `append` writes in place when `len < cap` and otherwise allocates,
  `s[i] = v` writes the array.
-/
namespace Goframe
namespace Heap

/-- a Go slice header: backing array id, offset, length, capacity (counted from the offset) -/
structure SliceRef where
  arr : Nat
  off : Nat
  len : Nat
  cap : Nat
  deriving DecidableEq, Repr

/-- a column object: `Name` and the `Data` slice header -/
structure HCol where
  name : Str
  data : SliceRef
  deriving DecidableEq, Repr

/-- live frames: each a key ↦ column map; arrays: the backing arrays -/
structure H where
  arrays : List (List Cell)
  frames : List (List (Str × HCol))
  deriving DecidableEq, Repr

def readSlice (arrays : List (List Cell)) (s : SliceRef) : List Cell :=
  (((arrays.getD s.arr []).drop s.off).take s.len)

/-- the value a frame denotes -/
def view (h : H) (fid : Nat) : Frame :=
  (h.frames.getD fid []).map (fun kc => (kc.1, { name := kc.2.name, data := readSlice h.arrays kc.2.data }))

def pool (h : H) : List Frame := (List.range h.frames.length).map (view h)

/-- every slice lies inside its array -/
def InBounds (h : H) : Prop :=
  ∀ fr ∈ h.frames, ∀ kc ∈ fr, kc.2.data.arr < h.arrays.length ∧
    kc.2.data.len ≤ kc.2.data.cap ∧ kc.2.data.off + kc.2.data.cap ≤ (h.arrays.getD kc.2.data.arr []).length

/-- all (frame, column) slots of the heap, with their array ids -/
def slots (h : H) : List (Nat × Str × Nat) :=
  (h.frames.zipIdx).flatMap (fun (fr, fid) => fr.map (fun kc => (fid, kc.1, kc.2.data.arr)))

/-- separation: no backing array is reachable from two different columns (of the same or of different frames) -/
def Sep (h : H) : Prop := InBounds h ∧ ((slots h).map (fun s => s.2.2)).Nodup

/-! ### allocation -/

/-- allocate fresh arrays holding the columns of `f` (capacity = length) and register it as a new live frame -/
def alloc (h : H) (f : Frame) : H :=
  let base := h.arrays.length
  { arrays := h.arrays ++ f.map (fun kc => kc.2.data),
    frames := h.frames ++ [f.zipIdx.map (fun (kc, j) =>
      (kc.1, { name := kc.2.name, data := { arr := base + j, off := 0, len := kc.2.data.length, cap := kc.2.data.length } }))] }

/-- the pinned `Head(n)`: a new frame whose columns are SUB-SLICES of the source's arrays (n ≤ len) -/
def headAlias (h : H) (fid : Nat) (n : Nat) : H :=
  { h with frames := h.frames ++ [(h.frames.getD fid []).map (fun kc =>
      (kc.1, { name := kc.1, data := { kc.2.data with len := min n kc.2.data.len } }))] }

/-! ### in-place editors at slice level -/

def setFrame (h : H) (fid : Nat) (fr : List (Str × HCol)) : H := { h with frames := h.frames.set fid fr }

def writeArr (arrays : List (List Cell)) (a i : Nat) (v : Cell) : List (List Cell) :=
  arrays.set a ((arrays.getD a []).set i v)

/-- `col.Data[i] = v` -/
def storeCell (h : H) (s : SliceRef) (i : Nat) (v : Cell) : H := { h with arrays := writeArr h.arrays s.arr (s.off + i) v }

/-- `append(s, v)` with growth function `g` (new capacity, `g n > n`): in place when there is room -/
def appendSlice (g : Nat → Nat) (arrays : List (List Cell)) (s : SliceRef) (v : Cell) : List (List Cell) × SliceRef :=
  if s.len < s.cap then (writeArr arrays s.arr (s.off + s.len) v, { s with len := s.len + 1 })
  else
    let old := readSlice arrays s
    let newCap := max (g s.len) (s.len + 1)
    (arrays ++ [old ++ [v] ++ List.replicate (newCap - s.len - 1) .nil],
     { arr := arrays.length, off := 0, len := s.len + 1, cap := newCap })

/-- `AppendRow` on an existing-column frame: one `append` per column (`vals` in column order) -/
def appendRowH (g : Nat → Nat) (h : H) (fid : Nat) (vals : List Cell) : H :=
  let fr := h.frames.getD fid []
  let (arrays, cols) := (fr.zip vals).foldl (fun (acc : List (List Cell) × List (Str × HCol)) (kcv : (Str × HCol) × Cell) =>
      let (arrs, s') := appendSlice g acc.1 kcv.1.2.data kcv.2
      (arrs, acc.2 ++ [(kcv.1.1, { kcv.1.2 with data := s' })])) (h.arrays, [])
  { arrays := arrays, frames := h.frames.set fid cols }

/-- `DropRow(i)`: `append(s[:i], s[i+1:]...)` — shifts the tail left inside the same array -/
def dropRowSlice (arrays : List (List Cell)) (s : SliceRef) (i : Nat) : List (List Cell) × SliceRef :=
  let cur := readSlice arrays s
  let shifted := cur.eraseIdx i
  let arr := arrays.getD s.arr []
  (arrays.set s.arr (arr.take s.off ++ shifted ++ arr.drop (s.off + s.len - 1)), { s with len := s.len - 1 })

def dropRowH (h : H) (fid : Nat) (i : Nat) : H :=
  let fr := h.frames.getD fid []
  let (arrays, cols) := fr.foldl (fun (acc : List (List Cell) × List (Str × HCol)) kc =>
      let (arrs, s') := dropRowSlice acc.1 kc.2.data i
      (arrs, acc.2 ++ [(kc.1, { kc.2 with data := s' })])) (h.arrays, [])
  { arrays := arrays, frames := h.frames.set fid cols }

/-- `FillNa(v)`: overwrites nil cells in place -/
def fillNaH (h : H) (fid : Nat) (v : Cell) : H :=
  let fr := h.frames.getD fid []
  { h with arrays := fr.foldl (fun arrs kc =>
      let s := kc.2.data
      let arr := arrs.getD s.arr []
      arrs.set s.arr (arr.take s.off ++ ((arr.drop s.off).take s.len).map (fun c => if c.isNil then v else c) ++ arr.drop (s.off + s.len))) h.arrays }

/-- replace the data of every column of a frame by freshly allocated slices (DropNa, DropDuplicates
in place, and — for one column — Astype / AddDatetimeIndex assign a new slice) -/
def replaceData (h : H) (fid : Nat) (newData : Str → List Cell → List Cell) : H :=
  let fr := h.frames.getD fid []
  let base := h.arrays.length
  { arrays := h.arrays ++ fr.map (fun kc => newData kc.1 (readSlice h.arrays kc.2.data)),
    frames := h.frames.set fid (fr.zipIdx.map (fun (kc, j) =>
      let d := newData kc.1 (readSlice h.arrays kc.2.data)
      (kc.1, { kc.2 with data := { arr := base + j, off := 0, len := d.length, cap := d.length } }))) }

end Heap
end Goframe
