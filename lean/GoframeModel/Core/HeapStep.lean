import GoframeModel.Core.Heap
import GoframeModel.Step
/-
  The public API on the heap layer: every deriving operation allocates fresh arrays for its result;
  every in-place operation is realised by the slice-level editor that mirrors what the Go code does to
  `Column.Data` (append / shift-in-place / overwrite / assign a freshly built slice / map edit).
  C02's refinement theorem says that under the separation invariant this heap semantics equals the
  value semantics `step`, for every operation and hence for every history.
-/
namespace Goframe
namespace Heap

/-- add a column object with a freshly allocated array to frame `fid`, keeping the frame key-sorted
(`AddColumn`, and the new-column branch of `AppendRow`) -/
def insertH (kc : Str × HCol) : List (Str × HCol) → List (Str × HCol)
  | [] => [kc]
  | x :: xs => if kc.1 == x.1 then kc :: xs else if strLt kc.1 x.1 then kc :: x :: xs else x :: insertH kc xs

def addColH (h : H) (fid : Nat) (k : Str) (name : Str) (data : List Cell) : H :=
  { arrays := h.arrays ++ [data],
    frames := h.frames.set fid (insertH (k, { name := name, data := { arr := h.arrays.length, off := 0, len := data.length, cap := data.length } })
      (h.frames.getD fid [])) }

/-- the new-column branch of `AppendRow`: one fresh all-nil column per key of the row the frame lacks -/
def addMissingH (h : H) (fid : Nat) (n : Nat) : Row → H
  | [] => h
  | (k, _) :: rest =>
    addMissingH (if (h.frames.getD fid []).any (fun kc => kc.1 == k) then h
                 else addColH h fid k k (List.replicate n .nil)) fid n rest

/-- `RenameColumn`: same column object and slice, new key and `Name` -/
def renameH (h : H) (fid : Nat) (old new : Str) : H :=
  let fr := h.frames.getD fid []
  match fr.find? (fun kc => kc.1 == old) with
  | none => h
  | some kc =>
    let col : HCol := { name := new, data := kc.2.data }
    let fr' := insertH (new, col) (fr.filter (fun x => !(x.1 == old)))
    { arrays := h.arrays, frames := h.frames.set fid fr' }

/-- `DropColumn`: the map entry goes away, nothing is written -/
def dropColH (h : H) (fid : Nat) (k : Str) : H :=
  { arrays := h.arrays, frames := h.frames.set fid ((h.frames.getD fid []).filter (fun x => !(x.1 == k))) }

/-- the heap-level effect of one public operation, given the value-level outcome it must realise -/
def hstep (g : Nat → Nat) (ω : Oracle) (h : H) (op : Op) : Outcome H :=
  match opEffect ω (pool h) op with
  | .err e => .err e
  | .panic p => .panic p
  | .ok (.derived f) => .ok (alloc h f)                 -- every deriving operation returns freshly allocated columns
  | .ok (.mutated f') =>
    let t := op.target
    match op with
    | .appendRow _ r =>
      let h1 := addMissingH h t (view h t).nrows r
      .ok (appendRowH g h1 t ((view h1 t).map (fun kc => Row.getD r kc.1)))
    | .dropRow _ i => .ok (dropRowH h t i.toNat)
    | .fillNa _ v => .ok (fillNaH h t v)
    | .setCell _ k i v =>
      match (h.frames.getD t []).find? (fun kc => kc.1 == k) with
      | some kc => .ok (storeCell h kc.2.data i.toNat v)
      | none => .ok h
    | .rename _ old new => .ok (renameH h t old new)
    | .addColumn _ c => .ok (addColH h t c.name c.name c.data)
    | .dropColumn _ k => .ok (dropColH h t k)
    -- DropNa, Astype, AddDatetimeIndex, DropDuplicates{Inplace}: the new data is built in fresh slices and assigned
    | _ => .ok (replaceData h t (fun k _ => ((f'.find? (fun kc => kc.1 == k)).map (·.2.data)).getD []))

/-- a whole history on the heap (a failing operation leaves the heap as it is) -/
def hrun (g : Nat → Nat) (ω : Oracle) : H → List Op → H
  | h, [] => h
  | h, op :: ops =>
    match hstep g ω h op with
    | .ok h' => hrun g ω h' ops
    | _ => hrun g ω h ops

end Heap
end Goframe
