/-
  Floating-point summation as the Go code performs it, over an abstract rounding function.

  The model (`Core/Float.lean`) adds finite floats as exact rationals. The implementation computes
  `sum := 0.0; for _, v := range nums { sum += v }` in float64, i.e. every partial sum is rounded.
  Here that loop is written over `fl : Rat → Rat` ("round to a representable value"); the only fact about
  IEEE-754 round-to-nearest that the error theorems (Props/C16) use is the standard model
  `|fl x − x| ≤ u·|x|` with `u = 2⁻⁵³` (valid for float64 in the absence of overflow; sums and differences of
  floats never underflow inexactly). Core-only: no Mathlib.
-/
namespace Goframe
namespace Rounding

def rabs (q : Rat) : Rat := if q < 0 then -q else q

/-- the arithmetic (exact) sum -/
def exactSum (xs : List Rat) : Rat := xs.foldl (· + ·) 0

/-- Σ|xᵢ| -/
def absSum (xs : List Rat) : Rat := exactSum (xs.map rabs)

/-- left-to-right summation with every partial sum rounded -/
def fsum (fl : Rat → Rat) (xs : List Rat) : Rat := xs.foldl (fun s x => fl (s + x)) 0

/-- `sum / float64(len)`: the quotient is rounded once more -/
def fmean (fl : Rat → Rat) (xs : List Rat) : Rat := fl (fsum fl xs / (xs.length : Rat))

/-- `fl` rounds with relative error at most `u` -/
def RelErr (fl : Rat → Rat) (u : Rat) : Prop := ∀ x, rabs (fl x - x) ≤ u * rabs x

/-- the unit roundoff of float64 -/
def u64 : Rat := 1 / 9007199254740992

end Rounding
end Goframe
