import GoframeModel.Core.Basic
/-
  Standard-library functions the model does not re-implement. Each is a field of `Oracle`; the
  correspondence harness fills a per-case table by calling the real stdlib function on the values
  occurring in the case, theorems state the laws they need as hypotheses on the oracle.
-/
namespace Goframe

structure Oracle where
  /-- `fmt.Sprintf("%v", x)` for a float cell -/
  fmtFloat : Bool → FVal → Str
  /-- `fmt.Sprintf("%v", t)` for a `time.Time` -/
  fmtTime : GoTime → Str
  /-- `strconv.ParseFloat(s, 64)`: `some v` when it returns no error -/
  parseFloat : Str → Option FVal
  /-- `strings.TrimSpace` -/
  trim : Str → Str
  /-- `time.Parse(layout, s)`: `some t` when it returns no error -/
  timeParse : Str → Str → Option GoTime
  /-- `time.Unix(sec, 0)` (the harness runs with `time.Local = time.UTC`) -/
  timeUnix : Int → Option GoTime := fun _ => none
  /-- `timeFromFloat64` of sql_read.go: Unix seconds with fraction, or milliseconds beyond 1e12 -/
  timeFromFloat : FVal → Option GoTime := fun _ => none

def digitsAux : Nat → Nat → List UInt8 → List UInt8
  | 0, _, acc => acc
  | fuel + 1, n, acc =>
    let d : UInt8 := (48 + n % 10).toUInt8
    if n < 10 then d :: acc else digitsAux fuel (n / 10) (d :: acc)

/-- Decimal rendering of a natural number (`strconv.Itoa` for non-negative values). -/
def natStr (n : Nat) : Str := digitsAux (n + 1) n []

/-- `%v` / `%d` of an integer. -/
def intStr (i : Int) : Str :=
  match i with
  | .ofNat n => natStr n
  | .negSucc n => 45 :: natStr (n + 1)

def sNil : Str := [60, 110, 105, 108, 62]          -- "<nil>"
def sTrue : Str := [116, 114, 117, 101]            -- "true"
def sFalse : Str := [102, 97, 108, 115, 101]       -- "false"

/-- `fmt.Sprintf("%v", cell)`. -/
def Oracle.fmtV (ω : Oracle) : Cell → Str
  | .nil => sNil
  | .int _ v => intStr v
  | .flt s v => ω.fmtFloat s v
  | .str s => s
  | .bool true => sTrue
  | .bool false => sFalse
  | .time t => ω.fmtTime t

/-- the Go type name, as bytes -/
def IntTy.name : IntTy → Str
  | .int => [105, 110, 116]
  | .int8 => [105, 110, 116, 56]
  | .int16 => [105, 110, 116, 49, 54]
  | .int32 => [105, 110, 116, 51, 50]
  | .int64 => [105, 110, 116, 54, 52]
  | .uint => [117, 105, 110, 116]
  | .uint8 => [117, 105, 110, 116, 56]
  | .uint16 => [117, 105, 110, 116, 49, 54]
  | .uint32 => [117, 105, 110, 116, 51, 50]
  | .uint64 => [117, 105, 110, 116, 54, 52]

/-- `fmt.Sprintf("%T", cell)`. -/
def Cell.typeName : Cell → Str
  | .nil => sNil
  | .int t _ => t.name
  | .flt true _ => [102, 108, 111, 97, 116, 51, 50]
  | .flt false _ => [102, 108, 111, 97, 116, 54, 52]
  | .str _ => [115, 116, 114, 105, 110, 103]
  | .bool _ => [98, 111, 111, 108]
  | .time _ => [116, 105, 109, 101, 46, 84, 105, 109, 101]

/-- The value of an integer of Go type `ty` converted to `float64` (exact below 2^53; the harness keeps
integers in that range). -/
def intToF (v : Int) : FVal := .fin (v : Rat)

/-- `toFloat` of `dataframe.go`: every integer and float width, and text that `ParseFloat` accepts. -/
def Oracle.toFloat (ω : Oracle) : Cell → Option FVal
  | .int _ v => some (intToF v)
  | .flt _ v => some v
  | .str s => ω.parseFloat s
  | _ => none

/-- One element of `Series.AsFloat64`: only `float64`, `float32`, `int`, `int64` and parsable text. -/
def Oracle.asFloat64 (ω : Oracle) : Cell → Option FVal
  | .flt _ v => some v
  | .int .int v => some (intToF v)
  | .int .int64 v => some (intToF v)
  | .str s => ω.parseFloat s
  | _ => none

end Goframe
