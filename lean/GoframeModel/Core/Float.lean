import GoframeModel.Core.Basic
/-
  Float arithmetic of the model: finite values are exact rationals (no rounding — see DESIGN §3.4),
  the IEEE special values follow the IEEE rules Go implements.
-/
namespace Goframe
namespace FVal

def isNaN : FVal → Bool
  | .nan => true
  | _ => false

/-- Go `x < y` on float64. -/
def lt : FVal → FVal → Bool
  | .nan, _ => false
  | _, .nan => false
  | .fin a, .fin b => decide (a < b)
  | .fin a, .nzero => decide (a < 0)
  | .nzero, .fin b => decide (0 < b)
  | .nzero, .nzero => false
  | .ninf, .ninf => false
  | .ninf, _ => true
  | _, .ninf => false
  | .pinf, _ => false
  | _, .pinf => true

def gt (a b : FVal) : Bool := lt b a

/-- Go `x + y` on float64, exact on finite values. -/
def add : FVal → FVal → FVal
  | .nan, _ => .nan
  | _, .nan => .nan
  | .pinf, .ninf => .nan
  | .ninf, .pinf => .nan
  | .pinf, _ => .pinf
  | _, .pinf => .pinf
  | .ninf, _ => .ninf
  | _, .ninf => .ninf
  | .nzero, .nzero => .nzero
  | .nzero, .fin b => .fin b
  | .fin a, .nzero => .fin a
  | .fin a, .fin b => .fin (a + b)

/-- Go `x / float64(n)` for a count `n`. -/
def divNat : FVal → Nat → FVal
  | .nan, _ => .nan
  | .fin a, 0 => if a = 0 then .nan else if a > 0 then .pinf else .ninf
  | .nzero, 0 => .nan
  | .pinf, _ => .pinf
  | .ninf, _ => .ninf
  | .nzero, _ => .nzero
  | .fin a, n => .fin (a / (n : Rat))

def zero : FVal := .fin 0

def sum (xs : List FVal) : FVal := xs.foldl add zero

/-- The finite rational value, if any. -/
def toRat? : FVal → Option Rat
  | .fin q => some q
  | .nzero => some 0
  | _ => none

end FVal
end Goframe
