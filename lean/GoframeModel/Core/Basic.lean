/-
  Core value types of the goframe model.

  A Go `string` is a byte sequence (`Str`), a cell is Go's `any` restricted to the scalar kinds the
  properties quantify over, a column is a name plus a cell list, a frame is the key-sorted
  association list standing for Go's `map[string]*Column[any]`.
-/
namespace Goframe

abbrev Str := List UInt8

/-- Bytewise lexicographic `<` on strings: Go's `<` on `string`, and the order of `sort.Strings`. -/
def strLt : Str → Str → Bool
  | [], [] => false
  | [], _ :: _ => true
  | _ :: _, [] => false
  | a :: as, b :: bs => if a < b then true else if b < a then false else strLt as bs

def strLe (a b : Str) : Bool := !strLt b a

def ofString (s : String) : Str := s.toUTF8.toList

inductive IntTy
  | int | int8 | int16 | int32 | int64 | uint | uint8 | uint16 | uint32 | uint64
  deriving DecidableEq, Repr, Inhabited

/-- A float64/float32 value: a finite value as an exact rational, or one of the special values.
`nzero` is IEEE negative zero (Go `==` identifies it with `fin 0`, `%v` prints `-0`). -/
inductive FVal
  | fin (q : Rat) | nan | pinf | ninf | nzero
  deriving DecidableEq, Repr, Inhabited

/-- A `time.Time` as the harness observes it: the instant (`unix`,`ns`), the zone offset in seconds and
the civil fields returned by `Year() … Second()`. `zone` is the zone abbreviation. -/
structure GoTime where
  unix : Int
  ns : Nat
  off : Int
  y : Int
  mo : Int
  d : Int
  h : Int
  mi : Int
  s : Int
  zone : Str
  deriving DecidableEq, Repr, Inhabited

inductive Cell
  | nil
  | int (ty : IntTy) (v : Int)
  | flt (is32 : Bool) (v : FVal)
  | str (s : Str)
  | bool (b : Bool)
  | time (t : GoTime)
  deriving DecidableEq, Repr, Inhabited

/-- Go `==` on two float values. -/
def FVal.goEq : FVal → FVal → Bool
  | .fin a, .fin b => decide (a = b)
  | .fin a, .nzero => decide (a = 0)
  | .nzero, .fin b => decide (b = 0)
  | .nzero, .nzero => true
  | .pinf, .pinf => true
  | .ninf, .ninf => true
  | _, _ => false

/-- Go `==` on two interface values holding scalars: same dynamic type and equal value;
NaN is unequal to everything, `-0 == 0`. -/
def Cell.goEq : Cell → Cell → Bool
  | .nil, .nil => true
  | .int t a, .int u b => decide (t = u) && decide (a = b)
  | .flt s a, .flt r b => decide (s = r) && a.goEq b
  | .str a, .str b => decide (a = b)
  | .bool a, .bool b => decide (a = b)
  | .time a, .time b => decide (a = b)
  | _, _ => false

def Cell.isNil : Cell → Bool
  | .nil => true
  | _ => false

/-- A cell without the float special cases (`NaN`, `-0`): on these Go `==` is structural equality. -/
def Cell.plain : Cell → Bool
  | .flt _ .nan => false
  | .flt _ .nzero => false
  | _ => true

theorem Cell.goEq_eq_of_plain {a b : Cell} (ha : a.plain = true) (hb : b.plain = true) :
    a.goEq b = decide (a = b) := by
  cases a <;> cases b <;> simp [Cell.goEq, Cell.plain] at *
  case flt.flt s x r y =>
    cases x <;> cases y <;> simp [FVal.goEq] at *

theorem Cell.goEq_refl_of_plain {a : Cell} (ha : a.plain = true) : a.goEq a = true := by
  rw [Cell.goEq_eq_of_plain ha ha]; simp

/-- Result of a goframe call: a value, a returned `error`, or a Go run-time panic. Every unchecked
Go primitive (indexing, slicing, map-miss followed by a field access, type assertion) has a checked
counterpart here that yields `panic`, so "never panics" is a statement about the model and not an
artefact of Lean's totality. -/
inductive Outcome (α : Type) where
  | ok (a : α)
  | err (e : String)
  | panic (p : String)
  deriving Repr, DecidableEq

namespace Outcome

@[inline] def bind {α β} (x : Outcome α) (f : α → Outcome β) : Outcome β :=
  match x with
  | ok a => f a
  | err e => err e
  | panic p => panic p

instance : Monad Outcome where
  pure := ok
  bind := bind

@[simp] theorem bind_ok {α β} (a : α) (f : α → Outcome β) : (ok a >>= f) = f a := rfl
@[simp] theorem bind_err {α β} (e : String) (f : α → Outcome β) : (err e >>= f) = err e := rfl
@[simp] theorem bind_panic {α β} (p : String) (f : α → Outcome β) : (panic p >>= f) = panic p := rfl
@[simp] theorem pure_eq {α} (a : α) : (pure a : Outcome α) = ok a := rfl

def isOk {α} : Outcome α → Bool
  | ok _ => true
  | _ => false

def isErr {α} : Outcome α → Bool
  | err _ => true
  | _ => false

def isPanic {α} : Outcome α → Bool
  | panic _ => true
  | _ => false

def toOption {α} : Outcome α → Option α
  | ok a => some a
  | _ => none

theorem bind_eq_ok {α β} {x : Outcome α} {f : α → Outcome β} {b : β} :
    (x >>= f) = ok b ↔ ∃ a, x = ok a ∧ f a = ok b := by
  cases x <;> simp [bind_ok, bind_err, bind_panic]

theorem bind_isPanic {α β} {x : Outcome α} {f : α → Outcome β} :
    (x >>= f).isPanic = true ↔ x.isPanic = true ∨ ∃ a, x = ok a ∧ (f a).isPanic = true := by
  cases x <;> simp [isPanic]

end Outcome

/-- A column object: its own `Name` field and its cells. -/
structure Col where
  name : Str
  data : List Cell
  deriving DecidableEq, Repr, Inhabited

/-- `map[string]*Column[any]` as an association list kept strictly sorted by key. -/
abbrev Frame := List (Str × Col)

/-- A Go `map[string]any` row: association list, key-sorted. -/
abbrev Row := List (Str × Cell)

namespace Frame

def keys (f : Frame) : List Str := f.map (·.1)

def get? (f : Frame) (k : Str) : Option Col := (f.find? (·.1 == k)).map (·.2)

def has (f : Frame) (k : Str) : Bool := f.any (·.1 == k)

/-- Insert or overwrite key `k` keeping the list sorted (Go: `m[k] = c`). -/
def set : Frame → Str → Col → Frame
  | [], k, c => [(k, c)]
  | (k', c') :: rest, k, c =>
    if k == k' then (k, c) :: rest
    else if strLt k k' then (k, c) :: (k', c') :: rest
    else (k', c') :: set rest k c

def erase (f : Frame) (k : Str) : Frame := f.filter (fun kc => !(kc.1 == k))

/-- Strictly sorted by key (hence distinct keys). -/
def Sorted (f : Frame) : Prop := f.Pairwise (fun a b => strLt a.1 b.1 = true)

/-- Rectangular with `n` rows: every column has `n` cells and is stored under its own name. -/
def RectN (f : Frame) (n : Nat) : Prop := ∀ kc ∈ f, kc.2.data.length = n ∧ kc.2.name = kc.1

def Rect (f : Frame) : Prop := ∃ n, RectN f n

/-- Executable rectangularity check (the `S?` of C01). -/
def rectN? (f : Frame) (n : Nat) : Bool := f.all (fun kc => kc.2.data.length == n && kc.2.name == kc.1)

def rect? (f : Frame) : Bool :=
  match f with
  | [] => true
  | (_, c) :: _ => rectN? f c.data.length

theorem rectN?_iff (f : Frame) (n : Nat) : rectN? f n = true ↔ RectN f n := by
  simp [rectN?, RectN, List.all_eq_true]

/-- `Nrows()` — Go returns the length of the first column its map iteration meets; the model takes the
first in key order. `nrows_of_rect` shows that under `RectN` every choice gives the same number. -/
def nrows : Frame → Nat
  | [] => 0
  | (_, c) :: _ => c.data.length

theorem nrows_of_rectN {f : Frame} {n : Nat} (h : RectN f n) (hne : f ≠ []) : nrows f = n := by
  cases f with
  | nil => exact absurd rfl hne
  | cons kc rest => exact (h kc (List.mem_cons_self ..)).1

theorem rect?_iff (f : Frame) : rect? f = true ↔ Rect f := by
  cases f with
  | nil => simp [rect?, Rect, RectN]
  | cons kc rest =>
    obtain ⟨k, c⟩ := kc
    simp only [rect?, rectN?_iff]
    constructor
    · intro h; exact ⟨_, h⟩
    · rintro ⟨n, h⟩
      have : c.data.length = n := (h (k, c) (List.mem_cons_self ..)).1
      rw [this]; exact h

def ncols (f : Frame) : Nat := f.length

/-- The cells of row `i` in key order; `nil` where a (ragged) column is too short. -/
def rowCells (f : Frame) (i : Nat) : List Cell := f.map (fun kc => kc.2.data.getD i .nil)

/-- Row view: the list of rows, each in key order. -/
def rows (f : Frame) : List (List Cell) := (List.range (nrows f)).map (rowCells f)

/-- `Row(i)` as a key→cell map. -/
def rowMap (f : Frame) (i : Nat) : Row := f.map (fun kc => (kc.1, kc.2.data.getD i .nil))

def mapCols (f : Frame) (g : List Cell → List Cell) : Frame :=
  f.map (fun kc => (kc.1, { kc.2 with data := g kc.2.data }))

/-- A fresh empty-column frame with the same keys (Go: `for name := range df.Columns { new[name] = &Column{Name: name} }`). -/
def emptyLike (f : Frame) : Frame := f.map (fun kc => (kc.1, { name := kc.1, data := [] }))

end Frame

namespace Row
def get? (r : Row) (k : Str) : Option Cell := (r.find? (·.1 == k)).map (·.2)
def getD (r : Row) (k : Str) : Cell := (get? r k).getD .nil
def has (r : Row) (k : Str) : Bool := r.any (·.1 == k)
def set : Row → Str → Cell → Row
  | [], k, c => [(k, c)]
  | (k', c') :: rest, k, c =>
    if k == k' then (k, c) :: rest
    else if strLt k k' then (k, c) :: (k', c') :: rest
    else (k', c') :: set rest k c
end Row

end Goframe
