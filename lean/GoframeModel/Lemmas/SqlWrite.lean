import GoframeModel.Ops.SqlWrite
/-
  Lemmas about the SQL export plan and the abstract database (used by Props/C11).
-/
namespace Goframe.SqlLemmas
open Goframe Sql

/-! ### batches -/

theorem batches_eq (b n : Nat) (hb : 0 < b) :
    batches b n = (List.range ((n + b - 1) / b)).map (fun i => (i * b, min (i * b + b) n)) := by
  have : b ≠ 0 := by omega
  simp [batches, this]

theorem batches_flat_aux (b n : Nat) (hb : 0 < b) (m : Nat) (hm : m * b ≤ n + b - 1) :
    (List.range m).flatMap (fun i => List.range' (i * b) (min (i * b + b) n - i * b)) =
      List.range (min (m * b) n) := by
  induction m with
  | zero => simp
  | succ m ih =>
    have h1 : (m + 1) * b = m * b + b := Nat.succ_mul m b
    rw [List.range_succ, List.flatMap_append, ih (by omega), List.flatMap_singleton,
      List.range_eq_range', List.range_eq_range']
    have h2 : min (m * b) n = m * b := by omega
    rw [h2]
    have := @List.range'_append_1 0 (m * b) (min (m * b + b) n - m * b)
    rw [Nat.zero_add] at this
    rw [this]
    congr 1
    omega

theorem batches_cover (b n : Nat) (hb : 0 < b) :
    (batches b n).flatMap (fun lh => List.range' lh.1 (lh.2 - lh.1)) = List.range n ∧
    ∀ lh ∈ batches b n, lh.1 < lh.2 ∧ lh.2 - lh.1 ≤ b ∧ lh.2 ≤ n := by
  rw [batches_eq b n hb]
  have hle : (n + b - 1) / b * b ≤ n + b - 1 := Nat.div_mul_le_self _ _
  constructor
  · rw [List.flatMap_map]
    rw [batches_flat_aux b n hb _ hle]
    have := Nat.lt_mul_div_succ (n + b - 1) hb
    rw [Nat.mul_comm, Nat.succ_mul] at this
    congr 1
    omega
  · intro lh hlh
    obtain ⟨i, hi, rfl⟩ := List.mem_map.1 hlh
    have hi' : i + 1 ≤ (n + b - 1) / b := by have := List.mem_range.1 hi; omega
    rw [Nat.le_div_iff_mul_le hb, Nat.succ_mul] at hi'
    simp only
    omega

/-! ### INSERT arguments -/

theorem sum_map_const {α : Type} (l : List α) (f : α → Nat) (c : Nat) (h : ∀ a ∈ l, f a = c) :
    (l.map f).sum = l.length * c := by
  induction l with
  | nil => simp
  | cons a l ih =>
    simp [h a (by simp), ih (fun a ha => h a (by simp [ha])), Nat.succ_mul, Nat.add_comm]

theorem insert_args_length (f : Frame) (lo m : Nat) :
    ((List.range m).flatMap (fun i => f.map (fun kc => bound (kc.2.data.getD (lo + i) .nil)))).length
      = m * f.length := by
  rw [List.length_flatMap, sum_map_const _ _ f.length (by simp)]
  simp

theorem insert_args (f : Frame) (table : Str) (lo hi : Nat) :
    ∃ args, insertCall f table lo hi = .exec (.insert table f.keys (hi - lo)) args ∧
      args.length = (hi - lo) * f.ncols :=
  ⟨_, rfl, insert_args_length f lo (hi - lo)⟩

/-! ### the abstract database -/

theorem chunk_flatten (k : Nat) (hk : 0 < k) (blocks : List (List Cell)) (hb : ∀ b ∈ blocks, b.length = k)
    (fuel : Nat) (hf : blocks.length ≤ fuel) : chunk k fuel blocks.flatten = blocks := by
  induction blocks generalizing fuel with
  | nil => cases fuel <;> simp [chunk]
  | cons b bs ih =>
    cases fuel with
    | zero => simp at hf
    | succ fuel =>
      have hbl : b.length = k := hb b (by simp)
      have hbne : b ≠ [] := by intro h; rw [h] at hbl; simp at hbl; omega
      subst hbl
      have hk0 : b.length ≠ 0 := by omega
      have ih' := ih (fun b hb' => hb b (by simp [hb'])) fuel (by simpa using hf)
      simp [chunk, hbne, ih']

/-- row `i` of the frame as stored by the database -/
def rowOf (f : Frame) (i : Nat) : List (Str × Cell) :=
  f.map (fun kc => (kc.1, bound (kc.2.data.getD i .nil)))

theorem execP_insert_single (f : Frame) (hne : f ≠ []) (table : Str) (tb : Table)
    (hcols : tb.cols.map (·.1) = f.keys) (lo m : Nat) (rows : List (List Nat))
    (hlen : rows.length = m) (hr : ∀ r ∈ rows, r.length = f.keys.length) :
    execP [(table, tb)] (.insert table f.keys rows)
        ((List.range m).flatMap (fun i => f.map (fun kc => bound (kc.2.data.getD (lo + i) .nil)))) =
      some [(table, { tb with rows := tb.rows ++ (List.range' lo m).map (rowOf f) })] := by
  have hkl : f.keys.length = f.length := by simp [Frame.keys]
  have hfl : 0 < f.length := List.length_pos_iff.2 hne
  have g1 : (f.keys.any fun c => !(tb.cols.any fun tc => tc.1 == c)) = false := by
    rw [List.any_eq_false]
    intro c hc
    rw [← hcols] at hc
    obtain ⟨tc, htc, rfl⟩ := List.mem_map.1 hc
    have : (tb.cols.any fun tc' => tc'.1 == tc.1) = true := List.any_eq_true.2 ⟨tc, htc, by simp⟩
    simp [this]
  have g2 : (rows.any fun r => r.length != f.keys.length) = false := by
    rw [List.any_eq_false]
    intro r hr'
    simp [hr r hr']
  have hal := insert_args_length f lo m
  have g3 : (((List.range m).flatMap (fun i => f.map (fun kc => bound (kc.2.data.getD (lo + i) .nil)))).length
      != rows.length * f.keys.length) = false := by
    rw [hal, hlen, hkl]; simp
  have hch : chunk f.keys.length (((List.range m).flatMap (fun i =>
        f.map (fun kc => bound (kc.2.data.getD (lo + i) .nil)))).length + 1)
        ((List.range m).flatMap (fun i => f.map (fun kc => bound (kc.2.data.getD (lo + i) .nil)))) =
      (List.range m).map (fun i => f.map (fun kc => bound (kc.2.data.getD (lo + i) .nil))) := by
    rw [List.flatMap_def]
    apply chunk_flatten
    · omega
    · intro b hb
      obtain ⟨i, _, rfl⟩ := List.mem_map.1 hb
      simp [hkl]
    · rw [← List.flatMap_def, hal]
      simp only [List.length_map, List.length_range]
      have : m * 1 ≤ m * f.length := Nat.mul_le_mul_left m hfl
      omega
  have hnew : ((List.range m).map (fun i => f.map (fun kc => bound (kc.2.data.getD (lo + i) .nil)))).map
      (fun vals => f.keys.zip vals) = (List.range' lo m).map (rowOf f) := by
    rw [List.range'_eq_map_range, List.map_map, List.map_map]
    apply List.map_congr_left
    intro i _
    simp [rowOf, Frame.keys, List.zip_map']
  unfold execP
  simp only [DB.get?, List.find?_cons, beq_self_eq_true, Option.map_some, g1, g2, g3, hch, hnew,
    Bool.false_eq_true, if_false, List.map_cons, List.map_nil, if_true]

/-- what the plan theorems need to know about an executor of call lists `E` and the translation `tp`
of statements into parsed statements (instantiated in Props/C11 by `execCalls d` and `toP d`) -/
structure ExecSem (E : DB → List Call → Option DB) (tp : Stmt → PStmt) : Prop where
  nil : ∀ db, E db [] = some db
  cons : ∀ db s args rest,
    E db (.exec s args :: rest) = (execP db (tp s) args).bind (fun db' => E db' rest)
  drop : ∀ t, tp (.drop t) = .drop t
  create : ∀ t cols, ∃ cols', tp (.create t cols) = .create t cols' ∧ cols'.map (·.1) = cols.map (·.1)
  insert : ∀ t cols n, ∃ rows, tp (.insert t cols n) = .insert t cols rows ∧ rows.length = n ∧
    ∀ r ∈ rows, r.length = cols.length

theorem exec_inserts {E : DB → List Call → Option DB} {tp : Stmt → PStmt} (sem : ExecSem E tp)
    (f : Frame) (hne : f ≠ []) (table : Str) (L : List (Nat × Nat)) (tb : Table)
    (hcols : tb.cols.map (·.1) = f.keys) :
    E [(table, tb)] (L.map (fun lh => insertCall f table lh.1 lh.2)) =
      some [(table, { tb with rows := tb.rows ++
        (L.flatMap (fun lh => List.range' lh.1 (lh.2 - lh.1))).map (rowOf f) })] := by
  induction L generalizing tb with
  | nil => cases tb; simp [sem.nil]
  | cons lh L ih =>
    obtain ⟨rows, h1, h2, h3⟩ := sem.insert table f.keys (lh.2 - lh.1)
    rw [List.map_cons, insertCall, sem.cons, h1,
      execP_insert_single f hne table tb hcols lh.1 (lh.2 - lh.1) rows h2 h3]
    simp only [Option.bind_some]
    rw [ih]
    · simp [List.append_assoc]
    · exact hcols

theorem batches_zero (b : Nat) : batches b 0 = [] := by
  unfold batches
  split
  · rfl
  · rename_i h
    simp; omega

theorem plan_inserts (f : Frame) {n : Nat} (hr : f.RectN n) (hne : f ≠ []) (table : Str) (r : Resolved) :
    (if f.nrows = 0 then [] else
      (batches r.batch f.nrows).map (fun (lo, hi) => insertCall f table lo hi)) =
    (batches r.batch n).map (fun lh => insertCall f table lh.1 lh.2) := by
  rw [Frame.nrows_of_rectN hr hne]
  split
  · rename_i h; rw [h, batches_zero]; rfl
  · rfl

theorem rows_final (f : Frame) (n b : Nat) (hb : 0 < b) :
    ((batches b n).flatMap (fun lh => List.range' lh.1 (lh.2 - lh.1))).map (rowOf f) =
      (List.range n).map (fun i => f.map (fun kc => (kc.1, bound (kc.2.data.getD i .nil)))) := by
  rw [(batches_cover b n hb).1]; rfl

theorem plan_from_empty {E : DB → List Call → Option DB} {tp : Stmt → PStmt} (sem : ExecSem E tp)
    (f : Frame) (hne : f ≠ []) (table : Str) (cols : List (Str × Str)) (hc : cols.map (·.1) = f.keys)
    (L : List (Nat × Nat)) :
    ∃ db', E [] (.exec (.create table cols) [] :: L.map (fun lh => insertCall f table lh.1 lh.2)) = some db' ∧
      (db'.get? table).map (·.rows) =
        some ((L.flatMap (fun lh => List.range' lh.1 (lh.2 - lh.1))).map (rowOf f)) := by
  obtain ⟨cols', h1, h2⟩ := sem.create table cols
  rw [sem.cons, h1]
  simp only [execP, DB.get?, List.find?_nil, Option.map_none, Option.isSome_none, Bool.false_eq_true,
    if_false, List.nil_append, Option.bind_some]
  rw [exec_inserts sem f hne table L _ (by rw [h2, hc])]
  exact ⟨_, rfl, by simp⟩

theorem plan_final_table_new {E : DB → List Call → Option DB} {tp : Stmt → PStmt} (sem : ExecSem E tp)
    (f : Frame) {n : Nat} (hr : f.RectN n) (hne : f ≠ []) (table : Str)
    (r : Resolved) (hb : 0 < r.batch) (ex : Bool) (hmode : ex = false ∨ r.mode = .replace) (old : Table) :
    ∃ db', E (if ex then [(table, old)] else []) (bodyAfterQuery f table r ex).1 = some db' ∧
      (db'.get? table).map (·.rows) =
        some ((List.range n).map (fun i => f.map (fun kc => (kc.1, bound (kc.2.data.getD i .nil))))) := by
  have hfail : ¬ (ex = true ∧ r.mode = .fail) := by
    rintro ⟨h1, h2⟩; rcases hmode with h | h
    · rw [h] at h1; cases h1
    · rw [h] at h2; cases h2
  have happ : ¬ (ex = true ∧ r.mode = .append) := by
    rintro ⟨h1, h2⟩; rcases hmode with h | h
    · rw [h] at h1; cases h1
    · rw [h] at h2; cases h2
  have hkeys : (f.map (fun kc => (kc.1, columnType r.dialect r.typeMap kc.1 kc.2.data))).map (·.1) = f.keys := by
    simp [Frame.keys, List.map_map, Function.comp_def]
  obtain ⟨db', h1, h2⟩ := plan_from_empty sem f hne table _ hkeys (batches r.batch n)
  rw [rows_final f n r.batch hb] at h2
  refine ⟨db', ?_, h2⟩
  unfold bodyAfterQuery
  simp only [hfail, happ, if_false, plan_inserts f hr hne table r]
  cases ex with
  | false => simpa using h1
  | true =>
    have hrep : r.mode = .replace := by rcases hmode with h | h; cases h; exact h
    simp only [hrep, and_self, if_true, List.cons_append, List.nil_append]
    rw [sem.cons, sem.drop]
    simpa [execP, DB.get?] using h1

theorem plan_final_table_append {E : DB → List Call → Option DB} {tp : Stmt → PStmt} (sem : ExecSem E tp)
    (f : Frame) {n : Nat} (hr : f.RectN n) (hne : f ≠ []) (table : Str)
    (r : Resolved) (hb : 0 < r.batch) (hmode : r.mode = .append) (old : Table)
    (hold : old.cols.map (·.1) = f.keys) :
    ∃ db', E [(table, old)] (bodyAfterQuery f table r true).1 = some db' ∧
      (db'.get? table).map (·.rows) =
        some (old.rows ++ (List.range n).map (fun i => f.map (fun kc => (kc.1, bound (kc.2.data.getD i .nil))))) := by
  unfold bodyAfterQuery
  simp only [hmode, plan_inserts f hr hne table r]
  simp only [reduceCtorEq, and_false, and_self, if_false, if_true, List.nil_append]
  rw [exec_inserts sem f hne table _ old hold, rows_final f n r.batch hb]
  exact ⟨_, rfl, by simp [DB.get?]⟩

/-! ### small facts -/

theorem fail_mode_writes_nothing (f : Frame) (table : Str) (r : Resolved) (h : r.mode = .fail) :
    bodyAfterQuery f table r true = ([], false) := by
  simp [bodyAfterQuery, h]

theorem invalid_options_no_calls (f : Frame) (table : Str) (o : WriteOpts) (ex : Bool) (fa : Option Nat)
    (h : (resolve o).isErr = true) : runBody f table o ex fa 0 = ([], false) := by
  unfold runBody bodyPlan
  cases hres : resolve o with
  | ok a => rw [hres] at h; simp [Outcome.isErr] at h
  | err e => simp [Outcome.bind]
  | panic p => simp [Outcome.bind]

theorem batch_no_overflow (b n start : Int) (hb : 0 < b) (hbi : b < 2 ^ 63) (hn : n < 2 ^ 62)
    (hs : 0 ≤ start) (hsn : start < n) (hmul : ∃ k : Int, start = k * b) :
    (if start + b > n then n else start + b) = min (start + b) n ∧
    ((start + b < 2 ^ 63) ∨ (start = 0)) := by
  constructor
  · split <;> omega
  · obtain ⟨k, hk⟩ := hmul
    by_cases hk0 : k ≤ 0
    · right
      have : k * b ≤ 0 * b := Int.mul_le_mul_of_nonneg_right hk0 (by omega)
      omega
    · left
      have : 1 * b ≤ k * b := Int.mul_le_mul_of_nonneg_right (by omega) (by omega)
      omega

end Goframe.SqlLemmas
