import GoframeModel.Lemmas.Sort
/- helper lemmas for `C06.sort_rows_whole` (Refine + Sort family) -/
namespace Goframe.SortRows
open Goframe Frame SortLemmas

theorem mem_rows {f : Frame} {i : Nat} (hi : i < f.nrows) : f.rowCells i ∈ f.rows := by
  simp only [rows, List.mem_map, List.mem_range]
  exact ⟨i, hi, rfl⟩

theorem permute_rowCells (f : Frame) (perm : List Nat) (j : Nat) (hj : j < perm.length) :
    (permute f perm).rowCells j = f.rowCells perm[j] := by
  unfold permute Frame.rowCells
  rw [List.map_map]
  apply List.map_congr_left
  intro kc _
  simp [pick, List.getD_eq_getElem?_getD, hj]

theorem permute_rows_mem {f : Frame} (idx : List Nat) (h : ∀ i ∈ idx, i < f.nrows) :
    ∀ r ∈ (permute f idx).rows, r ∈ f.rows := by
  by_cases hne : f = []
  · subst hne
    intro r hr
    simp [permute, rows, nrows] at hr
  · intro r hr
    simp only [rows, permute_nrows f idx hne, List.mem_map, List.mem_range] at hr
    obtain ⟨j, hj, rfl⟩ := hr
    rw [permute_rowCells f idx j hj]
    exact mem_rows (h _ (List.getElem_mem hj))

/-- what `sortValuesWith` returns when every sort column exists -/
theorem sortValuesWith_ok (sorter : (Nat → Nat → Bool) → List Nat → List Nat) (ω : Oracle) (f : Frame)
    (by_ : List Str) (asc : Bool) (hby : ∀ k ∈ by_, f.has k = true) :
    f.sortValuesWith sorter ω by_ asc = .ok (permute f (sorter (f.less ω by_ asc) (List.range f.nrows))) := by
  unfold sortValuesWith
  have : by_.any (fun k => !f.has k) = false := by
    rw [List.any_eq_false]
    intro k hk
    simp [hby k hk]
  rw [this]
  rfl

end Goframe.SortRows
