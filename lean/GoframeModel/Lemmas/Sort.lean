import GoframeModel.Ops.Sort
import GoframeModel.Spec.SortDedup
import GoframeModel.Lemmas.Refine
/-
  Lemmas for C06 (SortValues): order facts on strings and floats, three-way comparators and their
  lexicographic combination, the insertion sort, and the row view of the sorted frame.
-/
namespace Goframe
namespace SortLemmas
open Goframe Frame

/-! ### `strLt` is a strict total order -/

theorem strLt_irrefl (a : Str) : strLt a a = false := by
  induction a with
  | nil => rfl
  | cons x xs ih => simp [strLt, ih]

theorem strLt_trans : ∀ (a b c : Str), strLt a b = true → strLt b c = true → strLt a c = true
  | [], [], _, h, _ => by simp [strLt] at h
  | [], _ :: _, [], _, h => by simp [strLt] at h
  | [], _ :: _, _ :: _, _, _ => by simp [strLt]
  | _ :: _, [], _, h, _ => by simp [strLt] at h
  | _ :: _, _ :: _, [], _, h => by simp [strLt] at h
  | x :: xs, y :: ys, z :: zs, h1, h2 => by
    have ih := strLt_trans xs ys zs
    simp only [strLt] at h1 h2 ⊢
    have hxy := UInt8.lt_iff_toNat_lt (a := x) (b := y)
    have hyx := UInt8.lt_iff_toNat_lt (a := y) (b := x)
    have hyz := UInt8.lt_iff_toNat_lt (a := y) (b := z)
    have hzy := UInt8.lt_iff_toNat_lt (a := z) (b := y)
    have hxz := UInt8.lt_iff_toNat_lt (a := x) (b := z)
    have hzx := UInt8.lt_iff_toNat_lt (a := z) (b := x)
    by_cases c1 : x < y
    · by_cases c2 : y < z
      · have : x < z := by rw [hxz]; rw [hxy] at c1; rw [hyz] at c2; omega
        simp [this]
      · by_cases c3 : z < y
        · simp [c2, c3] at h2
        · have : y.toNat = z.toNat := by rw [hyz] at c2; rw [hzy] at c3; omega
          have : x < z := by rw [hxz]; rw [hxy] at c1; omega
          simp [this]
    · by_cases c1' : y < x
      · simp [c1, c1'] at h1
      · simp only [c1, c1', if_false] at h1
        have hxy' : x.toNat = y.toNat := by rw [hxy] at c1; rw [hyx] at c1'; omega
        by_cases c2 : y < z
        · have : x < z := by rw [hxz]; rw [hyz] at c2; omega
          simp [this]
        · by_cases c3 : z < y
          · simp [c2, c3] at h2
          · simp only [c2, c3, if_false] at h2
            have n1 : ¬ x < z := by rw [hxz]; rw [hyz] at c2; omega
            have n2 : ¬ z < x := by rw [hzx]; rw [hzy] at c3; omega
            simp only [n1, n2, if_false]
            exact ih h1 h2

theorem strLt_total : ∀ (a b : Str), strLt a b = false → strLt b a = false → a = b
  | [], [], _, _ => rfl
  | [], _ :: _, h, _ => by simp [strLt] at h
  | _ :: _, [], _, h => by simp [strLt] at h
  | x :: xs, y :: ys, h1, h2 => by
    have ih := strLt_total xs ys
    simp only [strLt] at h1 h2
    have hxy := UInt8.lt_iff_toNat_lt (a := x) (b := y)
    have hyx := UInt8.lt_iff_toNat_lt (a := y) (b := x)
    by_cases c1 : x < y
    · simp [c1] at h1
    · by_cases c2 : y < x
      · simp [c2] at h2
      · simp only [c1, c2, if_false] at h1 h2
        have : x = y := by
          apply UInt8.toNat_inj.mp
          rw [hxy] at c1; rw [hyx] at c2; omega
        rw [this, ih h1 h2]

/-! ### Strict weak orders and three-way comparators -/

/-- Copy of `C06.StrictWeakOrder` (that structure lives in the property file). -/
structure SWO {α : Type} (lt : α → α → Bool) : Prop where
  irrefl : ∀ a, lt a a = false
  trans : ∀ a b c, lt a b = true → lt b c = true → lt a c = true
  incomp_trans : ∀ a b c, lt a b = false → lt b a = false → lt b c = false → lt c b = false →
    lt a c = false ∧ lt c a = false

theorem SWO.asymm {α : Type} {lt : α → α → Bool} (h : SWO lt) (a b : α) (hab : lt a b = true) :
    lt b a = false := by
  cases hba : lt b a with
  | false => rfl
  | true => have := h.trans a b a hab hba; rw [h.irrefl] at this; cases this

/-- negative transitivity -/
theorem SWO.neg_trans {α : Type} {lt : α → α → Bool} (h : SWO lt) (a b c : α)
    (hab : lt a b = false) (hbc : lt b c = false) : lt a c = false := by
  cases hac : lt a c with
  | false => rfl
  | true =>
    have hba : lt b a = false := by
      cases hba : lt b a with
      | false => rfl
      | true => rw [h.trans b a c hba hac] at hbc; cases hbc
    have hcb : lt c b = false := by
      cases hcb : lt c b with
      | false => rfl
      | true => rw [h.trans a c b hac hcb] at hab; cases hab
    have := (h.incomp_trans a b c hab hba hbc hcb).1
    rw [hac] at this; cases this

/-- `lt` is a strict weak order on the elements satisfying `P` and `eq` is its incomparability
relation there. -/
structure SWOOn {α : Type} (P : α → Prop) (lt eq : α → α → Bool) : Prop where
  irrefl : ∀ a, P a → lt a a = false
  trans : ∀ a b c, P a → P b → P c → lt a b = true → lt b c = true → lt a c = true
  eq_iff : ∀ a b, P a → P b → (eq a b = true ↔ (lt a b = false ∧ lt b a = false))
  eq_trans : ∀ a b c, P a → P b → P c → eq a b = true → eq b c = true → eq a c = true

theorem SWOOn.flip {α : Type} {P : α → Prop} {lt eq : α → α → Bool} (h : SWOOn P lt eq) :
    SWOOn P (fun a b => lt b a) eq where
  irrefl := h.irrefl
  trans a b c pa pb pc h1 h2 := h.trans c b a pc pb pa h2 h1
  eq_iff a b pa pb := by rw [h.eq_iff a b pa pb]; exact And.comm
  eq_trans := h.eq_trans

/-- A three-way comparison (`none` = tie, `some true` = before, `some false` = after) that is
consistent with a total preorder on the elements satisfying `P`. -/
structure Cmp3On {α : Type} (P : α → Prop) (c : α → α → Option Bool) : Prop where
  refl : ∀ a, P a → c a a = none
  flip : ∀ a b r, P a → P b → c a b = some r → c b a = some (!r)
  symm : ∀ a b, P a → P b → c a b = none → c b a = none
  lt_trans : ∀ a b d, P a → P b → P d → c a b = some true → c b d = some true → c a d = some true
  none_trans : ∀ a b d, P a → P b → P d → c a b = none → c b d = none → c a d = none
  none_left : ∀ a b d r, P a → P b → P d → c a b = none → c b d = some r → c a d = some r
  none_right : ∀ a b d r, P a → P b → P d → c a b = some r → c b d = none → c a d = some r

/-- the shape of both branches of `cmpCells` -/
def dirCmp {α : Type} (eq lt : α → α → Bool) (asc : Bool) (x y : α) : Option Bool :=
  if eq x y then none else some (if asc then lt x y else lt y x)

theorem cmp3_of_swo {α : Type} {P : α → Prop} {lt eq : α → α → Bool} (h : SWOOn P lt eq) :
    Cmp3On P (fun x y => if eq x y then none else some (lt x y)) := by
  have asym : ∀ a b, P a → P b → lt a b = true → lt b a = false := by
    intro a b pa pb hab
    cases hba : lt b a with
    | false => rfl
    | true => have := h.trans a b a pa pb pa hab hba; rw [h.irrefl a pa] at this; cases this
  have eqrefl : ∀ a, P a → eq a a = true := fun a pa =>
    (h.eq_iff a a pa pa).2 ⟨h.irrefl a pa, h.irrefl a pa⟩
  have eqsymm : ∀ a b, P a → P b → eq a b = eq b a := by
    intro a b pa pb
    have h1 := h.eq_iff a b pa pb
    have h2 := h.eq_iff b a pb pa
    cases h3 : eq a b <;> cases h4 : eq b a <;> simp_all
  have tot : ∀ a b, P a → P b → eq a b = false → lt a b = false → lt b a = true := by
    intro a b pa pb he hl
    have h1 := h.eq_iff a b pa pb
    cases h3 : lt b a <;> simp_all
  have congrL' : ∀ a b d, P a → P b → P d → eq a b = true → lt a d = true → lt b d = true := by
    intro a b d pa pb pd hab had
    cases hbd : lt b d with
    | true => rfl
    | false =>
      cases he : eq b d with
      | true =>
        have h1 := h.eq_trans a b d pa pb pd hab he
        have := ((h.eq_iff a d pa pd).1 h1).1
        rw [had] at this; cases this
      | false =>
        have h1 := tot b d pb pd he hbd
        have h2 := h.trans a d b pa pd pb had h1
        have := ((h.eq_iff a b pa pb).1 hab).1
        rw [h2] at this; cases this
  have congrL : ∀ a b d, P a → P b → P d → eq a b = true → lt a d = lt b d := by
    intro a b d pa pb pd hab
    have hba : eq b a = true := by rw [← eqsymm a b pa pb]; exact hab
    have h1 := congrL' a b d pa pb pd hab
    have h2 := congrL' b a d pb pa pd hba
    cases h3 : lt a d <;> cases h4 : lt b d <;> simp_all
  have congrR' : ∀ a b d, P a → P b → P d → eq b d = true → lt a b = true → lt a d = true := by
    intro a b d pa pb pd hbd hab
    cases had : lt a d with
    | true => rfl
    | false =>
      cases he : eq a d with
      | true =>
        have hdb : eq d b = true := by rw [← eqsymm b d pb pd]; exact hbd
        have h1 := h.eq_trans a d b pa pd pb he hdb
        have := ((h.eq_iff a b pa pb).1 h1).1
        rw [hab] at this; cases this
      | false =>
        have h1 := tot a d pa pd he had
        have h2 := h.trans d a b pd pa pb h1 hab
        have := ((h.eq_iff b d pb pd).1 hbd).2
        rw [h2] at this; cases this
  have congrR : ∀ a b d, P a → P b → P d → eq b d = true → lt a b = lt a d := by
    intro a b d pa pb pd hbd
    have hdb : eq d b = true := by rw [← eqsymm b d pb pd]; exact hbd
    have h1 := congrR' a b d pa pb pd hbd
    have h2 := congrR' a d b pa pd pb hdb
    cases h3 : lt a b <;> cases h4 : lt a d <;> simp_all
  constructor
  · intro a pa; simp [eqrefl a pa]
  · intro a b r pa pb
    have := eqsymm a b pa pb
    have := asym a b pa pb
    have := tot a b pa pb
    cases h1 : eq a b <;> cases h2 : lt a b <;> cases h3 : lt b a <;> simp_all
  · intro a b pa pb
    have := eqsymm a b pa pb
    cases h1 : eq a b <;> simp_all
  · intro a b d pa pb pd
    have := h.trans a b d pa pb pd
    have := h.eq_iff a d pa pd
    cases h1 : eq a b <;> cases h2 : eq b d <;> cases h3 : eq a d <;> simp_all
  · intro a b d pa pb pd
    have := h.eq_trans a b d pa pb pd
    cases h1 : eq a b <;> cases h2 : eq b d <;> simp_all
  · intro a b d r pa pb pd hab hbd
    have eab : eq a b = true := by cases h1 : eq a b <;> simp_all
    have ebd : eq b d = false := by cases h1 : eq b d <;> simp_all
    have ead : eq a d = false := by
      cases h1 : eq a d with
      | false => rfl
      | true =>
        have := h.eq_trans b a d pb pa pd (by rw [← eqsymm a b pa pb]; exact eab) h1
        rw [this] at ebd; cases ebd
    rw [ebd] at hbd
    rw [ead, congrL a b d pa pb pd eab]
    exact hbd
  · intro a b d r pa pb pd hab hbd
    have eab : eq a b = false := by cases h1 : eq a b <;> simp_all
    have ebd : eq b d = true := by cases h1 : eq b d <;> simp_all
    have ead : eq a d = false := by
      cases h1 : eq a d with
      | false => rfl
      | true =>
        have := h.eq_trans a d b pa pd pb h1 (by rw [← eqsymm b d pb pd]; exact ebd)
        rw [this] at eab; cases eab
    rw [eab] at hab
    rw [ead, ← congrR a b d pa pb pd ebd]
    exact hab

theorem dirCmp_cmp3 {α : Type} {P : α → Prop} {lt eq : α → α → Bool} (h : SWOOn P lt eq) (asc : Bool) :
    Cmp3On P (dirCmp eq lt asc) := by
  cases asc with
  | true => exact cmp3_of_swo h
  | false => exact cmp3_of_swo h.flip

/-- extend a comparison to `Option`, `none` after everything else -/
def optCmp {β : Type} (c : β → β → Option Bool) : Option β → Option β → Option Bool
  | none, none => none
  | none, some _ => some false
  | some _, none => some true
  | some x, some y => c x y

theorem optCmp_cmp3 {β : Type} {P : β → Prop} {c : β → β → Option Bool} (hc : Cmp3On P c) :
    Cmp3On (fun o => ∀ x, o = some x → P x) (optCmp c) := by
  constructor
  · intro a pa; cases a with
    | none => rfl
    | some x => exact hc.refl x (pa x rfl)
  · intro a b r pa pb
    rcases a with _ | x <;> rcases b with _ | y <;> simp only [optCmp] <;>
      first
      | exact hc.flip _ _ r (pa _ rfl) (pb _ rfl)
      | (intros; simp_all)
  · intro a b pa pb
    rcases a with _ | x <;> rcases b with _ | y <;> simp only [optCmp] <;>
      first
      | exact hc.symm _ _ (pa _ rfl) (pb _ rfl)
      | (intros; simp_all)
  · intro a b d pa pb pd
    rcases a with _ | x <;> rcases b with _ | y <;> rcases d with _ | z <;> simp only [optCmp] <;>
      first
      | exact hc.lt_trans _ _ _ (pa _ rfl) (pb _ rfl) (pd _ rfl)
      | (intros; simp_all)
  · intro a b d pa pb pd
    rcases a with _ | x <;> rcases b with _ | y <;> rcases d with _ | z <;> simp only [optCmp] <;>
      first
      | exact hc.none_trans _ _ _ (pa _ rfl) (pb _ rfl) (pd _ rfl)
      | (intros; simp_all)
  · intro a b d r pa pb pd
    rcases a with _ | x <;> rcases b with _ | y <;> rcases d with _ | z <;> simp only [optCmp] <;>
      first
      | exact hc.none_left _ _ _ r (pa _ rfl) (pb _ rfl) (pd _ rfl)
      | (intros; simp_all)
  · intro a b d r pa pb pd
    rcases a with _ | x <;> rcases b with _ | y <;> rcases d with _ | z <;> simp only [optCmp] <;>
      first
      | exact hc.none_right _ _ _ r (pa _ rfl) (pb _ rfl) (pd _ rfl)
      | (intros; simp_all)

theorem Cmp3On.pullback {α β : Type} {P : β → Prop} {c : β → β → Option Bool} (h : Cmp3On P c)
    {Q : α → Prop} (v : α → β) (c' : α → α → Option Bool) (hv : ∀ a, Q a → P (v a))
    (hc : ∀ a b, Q a → Q b → c' a b = c (v a) (v b)) : Cmp3On Q c' := by
  constructor
  · intro a qa; rw [hc a a qa qa]; exact h.refl _ (hv a qa)
  · intro a b r qa qb; rw [hc a b qa qb, hc b a qb qa]; exact h.flip _ _ r (hv a qa) (hv b qb)
  · intro a b qa qb; rw [hc a b qa qb, hc b a qb qa]; exact h.symm _ _ (hv a qa) (hv b qb)
  · intro a b d qa qb qd; rw [hc a b qa qb, hc b d qb qd, hc a d qa qd]
    exact h.lt_trans _ _ _ (hv a qa) (hv b qb) (hv d qd)
  · intro a b d qa qb qd; rw [hc a b qa qb, hc b d qb qd, hc a d qa qd]
    exact h.none_trans _ _ _ (hv a qa) (hv b qb) (hv d qd)
  · intro a b d r qa qb qd; rw [hc a b qa qb, hc b d qb qd, hc a d qa qd]
    exact h.none_left _ _ _ r (hv a qa) (hv b qb) (hv d qd)
  · intro a b d r qa qb qd; rw [hc a b qa qb, hc b d qb qd, hc a d qa qd]
    exact h.none_right _ _ _ r (hv a qa) (hv b qb) (hv d qd)

/-- one step of the lexicographic comparison -/
def lexLt {α : Type} (c : α → α → Option Bool) (rest : α → α → Bool) (a b : α) : Bool :=
  match c a b with
  | some r => r
  | none => rest a b

theorem swo_false {α : Type} : SWO (fun (_ _ : α) => false) :=
  ⟨fun _ => rfl, fun _ _ _ h _ => (by cases h), fun _ _ _ _ _ _ _ => ⟨rfl, rfl⟩⟩

theorem lex_swo {α : Type} {c : α → α → Option Bool} {rest : α → α → Bool}
    (hc : Cmp3On (fun _ => True) c) (hr : SWO rest) : SWO (lexLt c rest) := by
  have tie : ∀ a b, lexLt c rest a b = false → lexLt c rest b a = false →
      c a b = none ∧ c b a = none ∧ rest a b = false ∧ rest b a = false := by
    intro a b h1 h2
    unfold lexLt at h1 h2
    cases hab : c a b with
    | none =>
      have hba := hc.symm a b trivial trivial hab
      rw [hab] at h1; rw [hba] at h2
      exact ⟨rfl, hba, h1, h2⟩
    | some r =>
      have hba := hc.flip a b r trivial trivial hab
      rw [hab] at h1; rw [hba] at h2
      simp only at h1 h2
      subst h1; cases h2
  constructor
  · intro a; unfold lexLt; rw [hc.refl a trivial]; exact hr.irrefl a
  · intro a b d h1 h2
    unfold lexLt at h1 h2 ⊢
    cases hab : c a b with
    | none =>
      rw [hab] at h1
      cases hbd : c b d with
      | none =>
        rw [hbd] at h2
        rw [hc.none_trans a b d trivial trivial trivial hab hbd]
        exact hr.trans a b d h1 h2
      | some r =>
        rw [hbd] at h2; simp only at h2; subst h2
        rw [hc.none_left a b d true trivial trivial trivial hab hbd]
    | some r =>
      rw [hab] at h1; simp only at h1; subst h1
      cases hbd : c b d with
      | none => rw [hc.none_right a b d true trivial trivial trivial hab hbd]
      | some r =>
        rw [hbd] at h2; simp only at h2; subst h2
        rw [hc.lt_trans a b d trivial trivial trivial hab hbd]
  · intro a b d h1 h2 h3 h4
    obtain ⟨c1, c2, r1, r2⟩ := tie a b h1 h2
    obtain ⟨c3, c4, r3, r4⟩ := tie b d h3 h4
    have c5 := hc.none_trans a b d trivial trivial trivial c1 c3
    have c6 := hc.none_trans d b a trivial trivial trivial c4 c2
    unfold lexLt; rw [c5, c6]
    exact hr.incomp_trans a b d r1 r2 r3 r4

/-! ### The two concrete orders -/

theorem strLt_swoOn : SWOOn (fun _ => True) strLt (fun a b => decide (a = b)) where
  irrefl a _ := strLt_irrefl a
  trans a b c _ _ _ := strLt_trans a b c
  eq_iff a b _ _ := by
    constructor
    · intro h; have : a = b := by simpa using h
      subst this; exact ⟨strLt_irrefl a, strLt_irrefl a⟩
    · intro ⟨h1, h2⟩; simpa using strLt_total a b h1 h2
  eq_trans a b c _ _ _ h1 h2 := by
    have e1 : a = b := by simpa using h1
    have e2 : b = c := by simpa using h2
    simp [e1, e2]

theorem fval_swoOn : SWOOn (fun x => x ≠ FVal.nan) FVal.lt FVal.goEq where
  irrefl a _ := by cases a <;> simp [FVal.lt]
  trans a b c ha hb hc := by
    cases a <;> cases b <;> cases c <;> simp [FVal.lt] at * <;> grind
  eq_iff a b ha hb := by
    cases a <;> cases b <;> simp [FVal.lt, FVal.goEq] at * <;> grind
  eq_trans a b c ha hb hc := by
    cases a <;> cases b <;> cases c <;> simp [FVal.goEq] at * <;> grind

/-! ### Insertion sort -/

theorem insRev_perm {α : Type} (lt : α → α → Bool) (x : α) (rp : List α) :
    (insRev lt x rp).Perm (x :: rp) := by
  induction rp with
  | nil => exact List.Perm.refl _
  | cons y ys ih =>
    unfold insRev
    split
    · exact ((List.Perm.cons y ih).trans (List.Perm.swap x y ys))
    · exact List.Perm.refl _

theorem insRev_sorted {α : Type} {lt : α → α → Bool} (h : SWO lt) (x : α) (rp : List α)
    (hp : rp.Pairwise (fun a b => lt a b = false)) :
    (insRev lt x rp).Pairwise (fun a b => lt a b = false) := by
  induction rp with
  | nil => simp [insRev]
  | cons y ys ih =>
    rw [List.pairwise_cons] at hp
    unfold insRev
    split
    · rename_i hxy
      rw [List.pairwise_cons]
      refine ⟨?_, ih hp.2⟩
      intro z hz
      have := (insRev_perm lt x ys).mem_iff.1 hz
      rcases List.mem_cons.1 this with rfl | hz'
      · exact h.asymm _ _ hxy
      · exact hp.1 z hz'
    · rename_i hxy
      have hxy : lt x y = false := by simpa using hxy
      rw [List.pairwise_cons]
      refine ⟨?_, List.pairwise_cons.2 hp⟩
      intro z hz
      rcases List.mem_cons.1 hz with rfl | hz'
      · exact hxy
      · exact h.neg_trans x y z hxy (hp.1 z hz')

theorem foldl_insRev {α : Type} {lt : α → α → Bool} (h : SWO lt) (xs acc : List α)
    (hp : acc.Pairwise (fun a b => lt a b = false)) :
    (xs.foldl (fun rp x => insRev lt x rp) acc).Perm (xs ++ acc) ∧
    (xs.foldl (fun rp x => insRev lt x rp) acc).Pairwise (fun a b => lt a b = false) := by
  induction xs generalizing acc with
  | nil => exact ⟨List.Perm.refl _, hp⟩
  | cons x xs ih =>
    simp only [List.foldl_cons]
    obtain ⟨p, s⟩ := ih (insRev lt x acc) (insRev_sorted h x acc hp)
    refine ⟨p.trans ?_, s⟩
    refine ((insRev_perm lt x acc).append_left xs).trans ?_
    exact List.perm_middle

theorem insertionSort_ok {α : Type} {lt : α → α → Bool} (h : SWO lt) (xs : List α) :
    (insertionSort lt xs).Perm xs ∧ (insertionSort lt xs).Pairwise (fun a b => lt b a = false) := by
  obtain ⟨p, s⟩ := foldl_insRev h xs [] List.Pairwise.nil
  unfold insertionSort
  refine ⟨(List.reverse_perm _).trans (by simpa using p), ?_⟩
  rw [List.pairwise_reverse]
  exact s

/-! ### The comparator of one sort column -/

/-- the cells of a sort column (empty when the column is absent) -/
def colData (f : Frame) (k : Str) : List Cell := ((f.get? k).map (·.data)).getD []

theorem keyCells_eq (f : Frame) (by_ : List Str) (i : Nat) :
    f.keyCells by_ i = by_.map (fun k => (colData f k).getD i .nil) := by
  unfold Frame.keyCells colData
  apply List.map_congr_left
  intro k _
  cases f.get? k <;> simp

/-- `C06.NoNaN` (unfolded) in terms of `colData` -/
theorem colData_noNaN {ω : Oracle} {f : Frame} {by_ : List Str}
    (hn : ∀ k ∈ by_, ∀ c, f.get? k = some c → ∀ x ∈ c.data, ω.toFloat x ≠ some .nan) :
    ∀ k ∈ by_, ∀ x ∈ colData f k, ω.toFloat x ≠ some .nan := by
  intro k hk x hx
  unfold colData at hx
  cases hg : f.get? k with
  | none => rw [hg] at hx; simp at hx
  | some c => rw [hg] at hx; exact hn k hk c hg x (by simpa using hx)

theorem getD_nil_or_mem (d : List Cell) (i : Nat) : d.getD i .nil = .nil ∨ d.getD i .nil ∈ d := by
  rw [List.getD_eq_getElem?_getD]
  cases h : d[i]? with
  | none => left; rfl
  | some x => right; simpa using List.mem_of_getElem? h

def numView (ω : Oracle) (c : Cell) : Option FVal := if c.isNil then none else ω.toFloat c
def txtView (ω : Oracle) (c : Cell) : Option Str := if c.isNil then none else some (ω.fmtV c)

def NumCell (ω : Oracle) (c : Cell) : Prop := c = .nil ∨ ∃ x, ω.toFloat c = some x ∧ x ≠ .nan
def TxtCell (ω : Oracle) (c : Cell) : Prop := c = .nil ∨ ω.toFloat c = none

theorem isNil_iff (c : Cell) : c.isNil = true ↔ c = .nil := by
  cases c <;> simp [Cell.isNil]

theorem isNil_false_iff (c : Cell) : c.isNil = false ↔ c ≠ .nil := by
  cases c <;> simp [Cell.isNil]

theorem cmpCells_num (ω : Oracle) (asc : Bool) (a b : Cell) (ha : NumCell ω a) (hb : NumCell ω b) :
    cmpCells ω asc a b = optCmp (dirCmp FVal.goEq FVal.lt asc) (numView ω a) (numView ω b) := by
  unfold cmpCells numView
  cases hna : a.isNil <;> cases hnb : b.isNil
  · rcases ha with rfl | ⟨x, hx, _⟩
    · simp [Cell.isNil] at hna
    rcases hb with rfl | ⟨y, hy, _⟩
    · simp [Cell.isNil] at hnb
    simp [hx, hy, optCmp, dirCmp]
  · rcases ha with rfl | ⟨x, hx, _⟩
    · simp [Cell.isNil] at hna
    simp [hx, optCmp]
  · rcases hb with rfl | ⟨y, hy, _⟩
    · simp [Cell.isNil] at hnb
    simp [hy, optCmp]
  · simp [optCmp]

theorem cmpCells_txt (ω : Oracle) (asc : Bool) (a b : Cell) (ha : TxtCell ω a) (_hb : TxtCell ω b) :
    cmpCells ω asc a b =
      optCmp (dirCmp (fun s t => decide (s = t)) strLt asc) (txtView ω a) (txtView ω b) := by
  unfold cmpCells txtView
  cases hna : a.isNil <;> cases hnb : b.isNil
  · rcases ha with rfl | hx
    · simp [Cell.isNil] at hna
    simp [hx, optCmp, dirCmp]
  · simp [optCmp]
  · simp [optCmp]
  · simp [optCmp]

theorem cmpCells_cmp3_num (ω : Oracle) (asc : Bool) : Cmp3On (NumCell ω) (cmpCells ω asc) := by
  refine (optCmp_cmp3 (dirCmp_cmp3 fval_swoOn asc)).pullback (numView ω) _ ?_
    (fun a b ha hb => cmpCells_num ω asc a b ha hb)
  intro a ha x hx
  unfold numView at hx
  rcases ha with rfl | ⟨y, hy, hne⟩
  · simp [Cell.isNil] at hx
  · split at hx
    · cases hx
    · rw [hy] at hx; cases hx; exact hne

theorem cmpCells_cmp3_txt (ω : Oracle) (asc : Bool) : Cmp3On (TxtCell ω) (cmpCells ω asc) := by
  refine (optCmp_cmp3 (dirCmp_cmp3 strLt_swoOn asc)).pullback (txtView ω) _ ?_
    (fun a b ha hb => cmpCells_txt ω asc a b ha hb)
  intro a _ x _
  trivial

/-! ### `classify` -/

theorem classify_numeric {ω : Oracle} {d : List Cell} (h : Spec.classify ω d = .numeric) :
    ∀ c ∈ d, c ≠ .nil → ∃ x, ω.toFloat c = some x := by
  intro c hc hne
  unfold Spec.classify at h
  simp only at h
  split at h
  · rename_i hall
    rw [List.all_eq_true] at hall
    have := hall c (by simp [List.mem_filter, hc, hne])
    exact Option.isSome_iff_exists.1 this
  · split at h <;> cases h

theorem classify_textual {ω : Oracle} {d : List Cell} (h : Spec.classify ω d = .textual) :
    ∀ c ∈ d, c ≠ .nil → ω.toFloat c = none := by
  intro c hc hne
  unfold Spec.classify at h
  simp only at h
  split at h
  · cases h
  · split at h
    · rename_i hall
      rw [List.all_eq_true] at hall
      have := hall c (by simp [List.mem_filter, hc, hne])
      simpa using this
    · cases h

theorem classify_cases {ω : Oracle} {d : List Cell} (h : Spec.classify ω d ≠ .mixed) :
    Spec.classify ω d = .numeric ∨ Spec.classify ω d = .textual := by
  cases hc : Spec.classify ω d <;> simp_all

theorem col_cells (ω : Oracle) (d : List Cell) (hcl : Spec.classify ω d ≠ .mixed)
    (hn : ∀ x ∈ d, ω.toFloat x ≠ some .nan) :
    (∀ i, NumCell ω (d.getD i .nil)) ∨ (∀ i, TxtCell ω (d.getD i .nil)) := by
  rcases classify_cases hcl with h | h
  · left
    intro i
    rcases getD_nil_or_mem d i with h0 | hm
    · exact Or.inl h0
    · by_cases hnil : d.getD i .nil = .nil
      · exact Or.inl hnil
      · obtain ⟨x, hx⟩ := classify_numeric h _ hm hnil
        refine Or.inr ⟨x, hx, ?_⟩
        intro hxn
        exact hn _ hm (by rw [hx, hxn])
  · right
    intro i
    rcases getD_nil_or_mem d i with h0 | hm
    · exact Or.inl h0
    · by_cases hnil : d.getD i .nil = .nil
      · exact Or.inl hnil
      · exact Or.inr (classify_textual h _ hm hnil)

/-- the comparison of rows `i` and `j` on one homogeneous NaN-free column -/
theorem col_cmp3 (ω : Oracle) (asc : Bool) (d : List Cell) (hcl : Spec.classify ω d ≠ .mixed)
    (hn : ∀ x ∈ d, ω.toFloat x ≠ some .nan) :
    Cmp3On (fun (_ : Nat) => True)
      (fun i j => cmpCells ω asc (d.getD i .nil) (d.getD j .nil)) := by
  rcases col_cells ω d hcl hn with h | h
  · exact (cmpCells_cmp3_num ω asc).pullback (fun i => d.getD i .nil) _ (fun i _ => h i)
      (fun _ _ _ _ => rfl)
  · exact (cmpCells_cmp3_txt ω asc).pullback (fun i => d.getD i .nil) _ (fun i _ => h i)
      (fun _ _ _ _ => rfl)

/-! ### `Frame.less` -/

theorem less_nil (ω : Oracle) (f : Frame) (asc : Bool) (i j : Nat) : f.less ω [] asc i j = false := rfl

theorem less_cons (ω : Oracle) (f : Frame) (k : Str) (ks : List Str) (asc : Bool) (i j : Nat) :
    f.less ω (k :: ks) asc i j =
      lexLt (fun i j => cmpCells ω asc ((colData f k).getD i .nil) ((colData f k).getD j .nil))
        (f.less ω ks asc) i j := by
  unfold Frame.less lexLt
  simp only [keyCells_eq, List.map_cons, lessCells]
  cases cmpCells ω asc ((colData f k).getD i Cell.nil) ((colData f k).getD j Cell.nil) <;> rfl

theorem less_swo (ω : Oracle) (f : Frame) (by_ : List Str) (asc : Bool)
    (hh : ∀ k ∈ by_, Spec.classify ω (colData f k) ≠ .mixed)
    (hn : ∀ k ∈ by_, ∀ x ∈ colData f k, ω.toFloat x ≠ some .nan) :
    SWO (f.less ω by_ asc) := by
  induction by_ with
  | nil =>
    have : f.less ω [] asc = fun _ _ => false := by funext i j; rfl
    rw [this]; exact swo_false
  | cons k ks ih =>
    have : f.less ω (k :: ks) asc = lexLt (fun i j => cmpCells ω asc ((colData f k).getD i .nil)
        ((colData f k).getD j .nil)) (f.less ω ks asc) := by
      funext i j; exact less_cons ω f k ks asc i j
    rw [this]
    exact lex_swo (col_cmp3 ω asc _ (hh k (List.mem_cons_self ..)) (hn k (List.mem_cons_self ..)))
      (ih (fun k' hk' => hh k' (List.mem_cons_of_mem _ hk'))
        (fun k' hk' => hn k' (List.mem_cons_of_mem _ hk')))

/-! ### Row view -/

theorem rowMap_getD (f : Frame) (i : Nat) (k : Str) :
    Row.getD (f.rowMap i) k = (colData f k).getD i .nil := by
  unfold Row.getD Row.get? Frame.rowMap colData Frame.get?
  rw [List.find?_map]
  cases h : List.find? (fun x => x.1 == k) f with
  | none =>
    have : List.find? ((fun x : Str × Cell => x.1 == k) ∘
        fun kc : Str × Col => (kc.1, kc.2.data.getD i Cell.nil)) f = none := by
      simpa [Function.comp_def] using h
    rw [this]; rfl
  | some kc =>
    have : List.find? ((fun x : Str × Cell => x.1 == k) ∘
        fun kc : Str × Col => (kc.1, kc.2.data.getD i Cell.nil)) f = some kc := by
      simpa [Function.comp_def] using h
    rw [this]; rfl

theorem range_map_getD (d : List Cell) : (List.range d.length).map (fun i => d.getD i .nil) = d := by
  apply List.ext_getElem
  · simp
  · intro i h1 h2
    simp [List.getD_eq_getElem?_getD, h2]

theorem has_get? {f : Frame} {k : Str} (h : f.has k = true) :
    ∃ kc ∈ f, f.get? k = some kc.2 := by
  unfold Frame.has at h
  rw [List.any_eq_true] at h
  obtain ⟨x, hx, hk⟩ := h
  unfold Frame.get?
  cases hf : List.find? (fun x => x.1 == k) f with
  | none =>
    rw [List.find?_eq_none] at hf
    exact absurd hk (hf x hx)
  | some kc => exact ⟨kc, List.mem_of_find?_eq_some hf, rfl⟩

theorem colData_length {f : Frame} {n : Nat} (hr : f.RectN n) {k : Str} (h : f.has k = true) :
    (colData f k).length = n ∧ f.nrows = n := by
  obtain ⟨kc, hm, hg⟩ := has_get? h
  constructor
  · unfold colData; rw [hg]; exact (hr kc hm).1
  · exact Frame.nrows_of_rectN hr (List.ne_nil_of_mem hm)

theorem rowsOf_col {f : Frame} {n : Nat} (hr : f.RectN n) {k : Str} (h : f.has k = true) :
    (Spec.rowsOf f).map (fun r => Row.getD r k) = colData f k := by
  obtain ⟨h1, h2⟩ := colData_length hr h
  unfold Spec.rowsOf
  rw [List.map_map]
  have : ((fun r => Row.getD r k) ∘ f.rowMap) = fun i => (colData f k).getD i .nil := by
    funext i; exact rowMap_getD f i k
  rw [this, h2, ← h1]
  exact range_map_getD _

/-! ### `cmpCells` is `specCmp` on a homogeneous column -/

theorem specCmp_nn (ω : Oracle) (cls : Spec.ColClass) (asc : Bool) (a b : Cell)
    (ha : a ≠ .nil) (hb : b ≠ .nil) :
    Spec.specCmp ω cls asc a b =
      match cls with
      | .numeric =>
        match ω.toFloat a, ω.toFloat b with
        | some x, some y => if x.goEq y then none else some (if asc then x.lt y else y.lt x)
        | _, _ => none
      | _ =>
        if ω.fmtV a = ω.fmtV b then none
        else some (if asc then strLt (ω.fmtV a) (ω.fmtV b) else strLt (ω.fmtV b) (ω.fmtV a)) := by
  cases a <;> cases b <;> first | exact absurd rfl ha | exact absurd rfl hb | rfl

theorem cmpCells_eq_specCmp (ω : Oracle) (asc : Bool) (d : List Cell)
    (hcl : Spec.classify ω d ≠ .mixed) (a b : Cell) (ha : a = .nil ∨ a ∈ d) (hb : b = .nil ∨ b ∈ d) :
    cmpCells ω asc a b = Spec.specCmp ω (Spec.classify ω d) asc a b := by
  by_cases hna : a = .nil
  · subst hna
    cases b <;> simp [cmpCells, Spec.specCmp, Cell.isNil]
  by_cases hnb : b = .nil
  · subst hnb
    cases a <;> first | exact absurd rfl hna | simp [cmpCells, Spec.specCmp, Cell.isNil]
  have hma : a ∈ d := ha.resolve_left hna
  have hmb : b ∈ d := hb.resolve_left hnb
  rw [specCmp_nn ω _ asc a b hna hnb]
  have ia : a.isNil = false := (isNil_false_iff a).2 hna
  have ib : b.isNil = false := (isNil_false_iff b).2 hnb
  unfold cmpCells
  simp only [ia, ib, Bool.false_and, Bool.false_eq_true, if_false]
  rcases classify_cases hcl with h | h
  · obtain ⟨x, hx⟩ := classify_numeric h a hma hna
    obtain ⟨y, hy⟩ := classify_numeric h b hmb hnb
    rw [h, hx, hy]
  · have hx := classify_textual h a hma hna
    rw [h, hx]

theorem lessCells_eq_specLt (ω : Oracle) (f : Frame) (by_ : List Str) (asc : Bool)
    (hh : ∀ k ∈ by_, Spec.classify ω (colData f k) ≠ .mixed) (i j : Nat) :
    lessCells ω asc (by_.map (fun k => (colData f k).getD i .nil))
        (by_.map (fun k => (colData f k).getD j .nil)) =
      Spec.specLt ω (by_.map (fun k => Spec.classify ω (colData f k))) asc
        (by_.map (fun k => (colData f k).getD i .nil))
        (by_.map (fun k => (colData f k).getD j .nil)) := by
  induction by_ with
  | nil => rfl
  | cons k ks ih =>
    simp only [List.map_cons, lessCells, Spec.specLt]
    rw [cmpCells_eq_specCmp ω asc (colData f k) (hh k (List.mem_cons_self ..)) _ _
      (getD_nil_or_mem _ i) (getD_nil_or_mem _ j)]
    rw [ih (fun k' hk' => hh k' (List.mem_cons_of_mem _ hk'))]
    cases Spec.specCmp ω (Spec.classify ω (colData f k)) asc ((colData f k).getD i Cell.nil)
      ((colData f k).getD j Cell.nil) <;> rfl

/-- `Frame.less` is the specification's order (no bound on the row numbers is needed: a cell out of
range reads as `nil` on both sides). -/
theorem less_eq_specLt (ω : Oracle) {f : Frame} {n : Nat} (hr : f.RectN n) (by_ : List Str) (asc : Bool)
    (hby : ∀ k ∈ by_, f.has k = true)
    (hh : ∀ k ∈ by_, Spec.classify ω (colData f k) ≠ .mixed) (i j : Nat) :
    f.less ω by_ asc i j =
      Spec.specLt ω (by_.map (fun k => Spec.classify ω ((Spec.rowsOf f).map (fun r => Row.getD r k)))) asc
        (by_.map (fun k => Row.getD (f.rowMap i) k)) (by_.map (fun k => Row.getD (f.rowMap j) k)) := by
  have e1 : by_.map (fun k => Spec.classify ω ((Spec.rowsOf f).map (fun r => Row.getD r k))) =
      by_.map (fun k => Spec.classify ω (colData f k)) := by
    apply List.map_congr_left
    intro k hk
    rw [rowsOf_col hr (hby k hk)]
  have e2 : ∀ i, by_.map (fun k => Row.getD (f.rowMap i) k) =
      by_.map (fun k => (colData f k).getD i .nil) := by
    intro i
    apply List.map_congr_left
    intro k _
    exact rowMap_getD f i k
  rw [e1, e2 i, e2 j]
  unfold Frame.less
  rw [keyCells_eq, keyCells_eq]
  exact lessCells_eq_specLt ω f by_ asc hh i j

/-! ### The sorted frame -/

/-- the frame `SortValues` returns for the row order `perm` -/
def permute (f : Frame) (perm : List Nat) : Frame :=
  f.map (fun kc => (kc.1, { kc.2 with data := pick kc.2.data perm }))

theorem permute_keys (f : Frame) (perm : List Nat) : (permute f perm).keys = f.keys := by
  unfold permute Frame.keys
  rw [List.map_map]; rfl

theorem permute_rect {f : Frame} {n : Nat} (hr : f.RectN n) (perm : List Nat) :
    (permute f perm).RectN perm.length := by
  intro kc hkc
  unfold permute at hkc
  obtain ⟨kc', hm, rfl⟩ := List.mem_map.1 hkc
  exact ⟨by simp [pick], (hr kc' hm).2⟩

theorem permute_nrows (f : Frame) (perm : List Nat) (hne : f ≠ []) :
    (permute f perm).nrows = perm.length := by
  cases f with
  | nil => exact absurd rfl hne
  | cons kc rest => simp [permute, Frame.nrows, pick]

theorem permute_rowMap (f : Frame) (perm : List Nat) (i : Nat) (hi : i < perm.length) :
    (permute f perm).rowMap i = f.rowMap perm[i] := by
  unfold permute Frame.rowMap
  rw [List.map_map]
  apply List.map_congr_left
  intro kc _
  simp [pick, List.getD_eq_getElem?_getD, hi]

theorem rowsOf_permute (f : Frame) (perm : List Nat) (hp : perm.Perm (List.range f.nrows)) :
    Spec.rowsOf (permute f perm) = perm.map f.rowMap := by
  unfold Spec.rowsOf
  by_cases hne : f = []
  · subst hne
    have : perm = [] := by simpa [Frame.nrows] using hp
    subst this
    rfl
  · rw [permute_nrows f perm hne]
    apply List.ext_getElem
    · simp
    · intro i h1 h2
      have hi : i < perm.length := by simpa using h1
      simp [permute_rowMap f perm i hi]

theorem isPermOf_of_perm {α : Type} [BEq α] {xs ys : List α} (h : xs.Perm ys) :
    Spec.isPermOf xs ys = true := by
  unfold Spec.isPermOf
  simp only [Bool.and_eq_true, beq_iff_eq, List.all_eq_true]
  exact ⟨h.length_eq, fun x _ => h.count_eq x⟩

theorem noInversion_iff {α : Type} (lt : α → α → Bool) (l : List α) :
    Spec.noInversion lt l = true ↔ l.Pairwise (fun a b => lt b a = false) := by
  induction l with
  | nil => simp [Spec.noInversion]
  | cons x rest ih =>
    simp only [Spec.noInversion, Bool.and_eq_true, List.all_eq_true, List.pairwise_cons, ih]
    simp

/-- The frame built from a permutation of the row numbers that has no `less`-inversion satisfies the
sort specification. -/
theorem sortSpec_permute (ω : Oracle) {f : Frame} {n : Nat} (hr : f.RectN n) (by_ : List Str) (asc : Bool)
    (hby : ∀ k ∈ by_, f.has k = true)
    (hh : ∀ k ∈ by_, Spec.classify ω (colData f k) ≠ .mixed)
    (perm : List Nat) (hp : perm.Perm (List.range f.nrows))
    (hs : perm.Pairwise (fun a b => f.less ω by_ asc b a = false)) :
    Spec.sortSpec ω f (permute f perm) by_ asc = true := by
  unfold Spec.sortSpec
  simp only [Bool.and_eq_true, Bool.or_eq_true]
  refine ⟨⟨⟨?_, ?_⟩, ?_⟩, Or.inr ?_⟩
  · rw [permute_keys]; simp
  · exact (Frame.rect?_iff _).2 ⟨_, permute_rect hr perm⟩
  · rw [rowsOf_permute f perm hp]
    exact isPermOf_of_perm (hp.map _)
  · rw [noInversion_iff, rowsOf_permute f perm hp, List.map_map, List.pairwise_map]
    refine hs.imp ?_
    intro a b hab
    simp only [Function.comp]
    rw [← less_eq_specLt ω hr by_ asc hby hh b a]
    exact hab

end SortLemmas
end Goframe
