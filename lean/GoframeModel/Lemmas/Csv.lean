import GoframeModel.Std.Csv
import GoframeModel.Spec.Table
/-
  Lemmas for C09 / C10, part 1: the import side.
  `strLt` as a strict total order, `hasDup`, the `insertCol` fold of `fromCSV` (sortedness, membership,
  keys, lookup), `normalise` never invents bytes, an unterminated quote.
-/
namespace Goframe.CsvLemmas
open Goframe Frame Csv

/-! ### `strLt` is a strict total order -/

theorem strLt_irrefl (a : Str) : strLt a a = false := by
  induction a with
  | nil => rfl
  | cons x xs ih => simp [strLt, ih]

theorem strLt_trans : ∀ {a b c : Str}, strLt a b = true → strLt b c = true → strLt a c = true
  | [], [], _, h, _ => by simp [strLt] at h
  | [], _ :: _, [], _, h => by simp [strLt] at h
  | [], _ :: _, _ :: _, _, _ => by simp [strLt]
  | _ :: _, [], _, h, _ => by simp [strLt] at h
  | _ :: _, _ :: _, [], _, h => by simp [strLt] at h
  | x :: xs, y :: ys, z :: zs, h1, h2 => by
    simp only [strLt] at h1 h2 ⊢
    have ih := @strLt_trans xs ys zs
    simp only [UInt8.lt_iff_toNat_lt] at h1 h2 ⊢
    split at h1
    · split at h2
      · rw [if_pos (by omega)]
      · split at h2
        · simp at h2
        · rw [if_pos (by omega)]
    · split at h1
      · simp at h1
      · split at h2
        · rw [if_pos (by omega)]
        · split at h2
          · simp at h2
          · rw [if_neg (by omega), if_neg (by omega)]
            exact ih h1 h2

theorem strLt_asymm {a b : Str} (h : strLt a b = true) : strLt b a = false := by
  cases hba : strLt b a with
  | false => rfl
  | true => have := strLt_trans h hba; rw [strLt_irrefl] at this; cases this

theorem strLt_ne {a b : Str} (h : strLt a b = true) : a ≠ b := by
  intro e; subst e; rw [strLt_irrefl] at h; cases h

theorem strLt_total : ∀ {a b : Str}, a ≠ b → strLt a b = false → strLt b a = true
  | [], [], h, _ => absurd rfl h
  | [], _ :: _, _, h => by simp [strLt] at h
  | _ :: _, [], _, _ => by simp [strLt]
  | x :: xs, y :: ys, hne, h => by
    simp only [strLt] at h ⊢
    have ih := @strLt_total xs ys
    simp only [UInt8.lt_iff_toNat_lt] at h ⊢
    split at h
    · simp at h
    · split at h
      · rw [if_pos (by omega)]
      · have hxy : x = y := UInt8.toNat_inj.mp (by omega)
        subst hxy
        rw [if_neg (by omega)]
        simp only [if_neg (Nat.lt_irrefl _)]
        exact ih (fun e => hne (by rw [e])) h

/-- strictly sorted name list -/
def SortedNames (ns : List Str) : Prop := ns.Pairwise (fun a b => strLt a b = true)

theorem sorted_iff_keys (f : Frame) : f.Sorted ↔ SortedNames f.keys := by
  simp [Frame.Sorted, SortedNames, Frame.keys, List.pairwise_map]

/-! ### `hasDup` -/

theorem hasDup_false_iff (l : List Str) : hasDup l = false ↔ l.Nodup := by
  induction l with
  | nil => simp [hasDup]
  | cons x xs ih =>
    simp only [hasDup, Bool.or_eq_false_iff, ih, List.nodup_cons]
    constructor
    · rintro ⟨h1, h2⟩
      refine ⟨fun hm => ?_, h2⟩
      have : xs.contains x = true := List.contains_iff_mem.mpr hm
      rw [h1] at this; cases this
    · rintro ⟨h1, h2⟩
      refine ⟨?_, h2⟩
      cases hc : xs.contains x with
      | false => rfl
      | true => exact absurd (List.contains_iff_mem.mp hc) h1

theorem sortedNames_nodup {l : List Str} (h : SortedNames l) : l.Nodup := by
  unfold SortedNames at h
  exact h.imp (fun h => strLt_ne h)

/-! ### `insertCol` and `insertStr` -/

theorem mem_insertCol (kc : Str × Col) (acc : Frame) (y : Str × Col) :
    y ∈ insertCol kc acc ↔ y = kc ∨ y ∈ acc := by
  induction acc with
  | nil => simp [insertCol]
  | cons x xs ih =>
    simp only [insertCol]
    split
    · simp
    · simp only [List.mem_cons, ih]
      constructor
      · rintro (h | h | h)
        · exact .inr (.inl h)
        · exact .inl h
        · exact .inr (.inr h)
      · rintro (h | h | h)
        · exact .inr (.inl h)
        · exact .inl h
        · exact .inr (.inr h)

theorem insertCol_sorted (kc : Str × Col) (acc : Frame) (hs : acc.Sorted)
    (hk : ∀ y ∈ acc, y.1 ≠ kc.1) : (insertCol kc acc).Sorted := by
  induction acc with
  | nil => simp [insertCol, Frame.Sorted]
  | cons x xs ih =>
    unfold Frame.Sorted at hs ih ⊢
    rw [List.pairwise_cons] at hs
    simp only [insertCol]
    split
    · rename_i hlt
      rw [List.pairwise_cons]
      refine ⟨?_, List.pairwise_cons.mpr hs⟩
      intro y hy
      rcases List.mem_cons.mp hy with rfl | hy
      · exact hlt
      · exact strLt_trans hlt (hs.1 y hy)
    · rename_i hlt
      have hlt' : strLt kc.1 x.1 = false := by simpa using hlt
      rw [List.pairwise_cons]
      refine ⟨?_, ih hs.2 (fun y hy => hk y (List.mem_cons_of_mem _ hy))⟩
      intro y hy
      rcases (mem_insertCol kc xs y).mp hy with rfl | hy
      · exact strLt_total (fun e => hk x (List.mem_cons_self ..) e.symm) hlt'
      · exact hs.1 y hy

theorem insertCol_keys (kc : Str × Col) (acc : Frame) (hk : ∀ y ∈ acc, y.1 ≠ kc.1) :
    (insertCol kc acc).keys = Spec.insertStr kc.1 acc.keys := by
  induction acc with
  | nil => simp [insertCol, Frame.keys, Spec.insertStr]
  | cons x xs ih =>
    have hne : (kc.1 == x.1) = false := by
      have := hk x (List.mem_cons_self ..)
      simpa using fun e => this e.symm
    have ih' := ih (fun y hy => hk y (List.mem_cons_of_mem _ hy))
    simp only [Frame.keys] at ih' ⊢
    simp only [insertCol, List.map_cons, Spec.insertStr, hne, Bool.false_eq_true, if_false]
    split
    · simp
    · simp [ih']

/-- the fold of `fromCSV`, from an arbitrary accumulator -/
theorem foldl_insertCol (l : List (Str × Col)) (acc : Frame) (hs : acc.Sorted)
    (hnd : (l.map (·.1)).Nodup) (hdisj : ∀ x ∈ l, ∀ y ∈ acc, y.1 ≠ x.1) :
    (l.foldl (fun a kc => insertCol kc a) acc).Sorted ∧
    (∀ y, y ∈ l.foldl (fun a kc => insertCol kc a) acc ↔ y ∈ l ∨ y ∈ acc) ∧
    (l.foldl (fun a kc => insertCol kc a) acc).keys =
      (l.map (·.1)).foldl (fun a k => Spec.insertStr k a) acc.keys := by
  induction l generalizing acc with
  | nil => simp [hs]
  | cons kc l ih =>
    simp only [List.map_cons, List.nodup_cons] at hnd
    have hk : ∀ y ∈ acc, y.1 ≠ kc.1 := hdisj kc (List.mem_cons_self ..)
    have hs' := insertCol_sorted kc acc hs hk
    have hdisj' : ∀ x ∈ l, ∀ y ∈ insertCol kc acc, y.1 ≠ x.1 := by
      intro x hx y hy
      rcases (mem_insertCol kc acc y).mp hy with rfl | hy
      · intro e
        exact hnd.1 (e ▸ List.mem_map_of_mem hx)
      · exact hdisj x (List.mem_cons_of_mem _ hx) y hy
    obtain ⟨h1, h2, h3⟩ := ih (insertCol kc acc) hs' hnd.2 hdisj'
    refine ⟨h1, ?_, ?_⟩
    · intro y
      simp only [List.foldl_cons, h2, mem_insertCol, List.mem_cons]
      constructor
      · rintro (h | h | h)
        · exact .inl (.inr h)
        · exact .inl (.inl h)
        · exact .inr h
      · rintro ((h | h) | h)
        · exact .inr (.inl h)
        · exact .inl h
        · exact .inr (.inr h)
    · simp only [List.foldl_cons, List.map_cons, h3, insertCol_keys kc acc hk]

/-- in a strictly sorted frame every stored pair is found under its key -/
theorem get?_of_mem {f : Frame} (hs : f.Sorted) {k : Str} {c : Col} (hm : (k, c) ∈ f) :
    f.get? k = some c := by
  induction f with
  | nil => cases hm
  | cons x xs ih =>
    unfold Frame.Sorted at hs ih
    rw [List.pairwise_cons] at hs
    rcases List.mem_cons.mp hm with h | h
    · subst h; simp [Frame.get?]
    · have hlt := hs.1 _ h
      have hne : (x.1 == k) = false := by simpa using strLt_ne hlt
      have := ih hs.2 h
      simp only [Frame.get?, List.find?_cons, hne] at this ⊢
      exact this

/-- inserting strictly increasing keys from left to right just appends -/
theorem insertCol_append (kc : Str × Col) (acc : Frame) (h : ∀ y ∈ acc, strLt y.1 kc.1 = true) :
    insertCol kc acc = acc ++ [kc] := by
  induction acc with
  | nil => rfl
  | cons x xs ih =>
    have h1 : strLt kc.1 x.1 = false := strLt_asymm (h x (List.mem_cons_self ..))
    simp only [insertCol, h1, Bool.false_eq_true, if_false, List.cons_append]
    rw [ih (fun y hy => h y (List.mem_cons_of_mem _ hy))]

theorem foldl_insertCol_sorted (l : Frame) (acc : Frame) (hl : l.Sorted)
    (h : ∀ y ∈ acc, ∀ x ∈ l, strLt y.1 x.1 = true) :
    l.foldl (fun a kc => insertCol kc a) acc = acc ++ l := by
  induction l generalizing acc with
  | nil => simp
  | cons kc l ih =>
    unfold Frame.Sorted at hl ih
    rw [List.pairwise_cons] at hl
    rw [List.foldl_cons, insertCol_append kc acc (fun y hy => h y hy kc (List.mem_cons_self ..))]
    rw [ih _ hl.2]
    · simp
    · intro y hy x hx
      rcases List.mem_append.mp hy with hy | hy
      · exact h y hy x (List.mem_cons_of_mem _ hx)
      · have : y = kc := by simpa using hy
        subst this; exact hl.1 x hx

/-! ### `normalise` never invents bytes -/

theorem mem_of_mem_normalise : ∀ (s : List UInt8) (x : UInt8), x ∈ normalise s → x ∈ s
  | [], x, h => by simp [normalise] at h
  | [b], x, h => by
    simp only [normalise] at h
    split at h
    · cases h
    · exact h
  | a :: b :: rest, x, h => by
    simp only [normalise] at h
    split at h
    · rename_i hab
      rcases List.mem_cons.mp h with h | h
      · rw [h, ← hab.2]; simp
      · have := mem_of_mem_normalise rest x h
        simp [this]
    · rcases List.mem_cons.mp h with h | h
      · simp [h]
      · have := mem_of_mem_normalise (b :: rest) x h
        exact List.mem_cons_of_mem _ this

theorem normalise_cons_ne (c : UInt8) (t : List UInt8) (hc : c ≠ cCR) :
    normalise (c :: t) = c :: normalise t := by
  cases t with
  | nil => simp [normalise, hc]
  | cons b r => simp [normalise, hc]

theorem machine_quoted_noquote (cur : List UInt8) (fs : List Str) (rs : List (List Str))
    (t : List UInt8) (h : cQuote ∉ t) : machine .quoted cur fs rs t = .error .quote := by
  induction t generalizing cur with
  | nil => rw [machine]
  | cons b t ih =>
    have hb : b ≠ cQuote := fun e => h (e ▸ List.mem_cons_self ..)
    rw [machine, if_neg hb]
    exact ih _ (fun hm => h (List.mem_cons_of_mem _ hm))

end Goframe.CsvLemmas
