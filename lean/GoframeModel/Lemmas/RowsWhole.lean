import GoframeModel.Props.C08
/- helper lemmas for the `…_rows_whole` theorems of Props/C01.lean (RefineA family) -/
open Goframe Frame

namespace Goframe.C01Rows
open Goframe Frame

/-- a list of rows of `f` is the list of `f.rowMap i` for some in-range positions `i` -/
theorem exists_idx {f : Frame} (rs : List Row) (h : ∀ r ∈ rs, r ∈ Spec.rowsOf f) :
    ∃ idx : List Nat, (∀ i ∈ idx, i < f.nrows) ∧ rs = idx.map f.rowMap := by
  induction rs with
  | nil => exact ⟨[], by simp, rfl⟩
  | cons r rs ih =>
    obtain ⟨idx, h1, h2⟩ := ih (fun r hr => h r (List.mem_cons_of_mem _ hr))
    have hr := h r (List.mem_cons_self ..)
    simp only [Spec.rowsOf, List.mem_map, List.mem_range] at hr
    obtain ⟨i, hi, rfl⟩ := hr
    refine ⟨i :: idx, ?_, by simp [h2]⟩
    intro j hj
    rcases List.mem_cons.mp hj with rfl | hj
    · exact hi
    · exact h1 j hj

theorem pickF_keys (f : Frame) (idx : List Nat) : (pickF f idx).keys = f.keys := by
  simp [pickF, keys, List.map_map, Function.comp_def]

theorem pickF_nrows {f : Frame} (hne : f ≠ []) (idx : List Nat) : (pickF f idx).nrows = idx.length := by
  cases f with
  | nil => exact absurd rfl hne
  | cons kc rest => simp [pickF, nrows, pick]

theorem rowCells_pickF (f : Frame) (idx : List Nat) (j : Nat) (hj : j < idx.length) :
    (pickF f idx).rowCells j = f.rowCells idx[j] := by
  simp only [rowCells, pickF, pick, List.map_map, Function.comp_def]
  apply List.map_congr_left
  intro kc _
  simp [List.getD_eq_getElem?_getD, hj]

theorem mem_rows {f : Frame} {i : Nat} (hi : i < f.nrows) : f.rowCells i ∈ f.rows := by
  simp only [rows, List.mem_map, List.mem_range]
  exact ⟨i, hi, rfl⟩

theorem pickF_rows_mem {f : Frame} (idx : List Nat) (h : ∀ i ∈ idx, i < f.nrows) :
    ∀ r ∈ (pickF f idx).rows, r ∈ f.rows := by
  cases hf : f with
  | nil => intro r hr; simp [pickF, rows, nrows] at hr
  | cons kc rest =>
    rw [← hf]
    have hne : f ≠ [] := by rw [hf]; exact List.cons_ne_nil _ _
    intro r hr
    simp only [rows, pickF_nrows hne, List.mem_map, List.mem_range] at hr
    obtain ⟨j, hj, rfl⟩ := hr
    rw [rowCells_pickF f idx j hj]
    exact mem_rows (h _ (List.getElem_mem hj))

end Goframe.C01Rows
