import GoframeModel.Lemmas.RefineA
import GoframeModel.Spec.Select
/-
  Lemmas relating the selection operations of the model (C08) to their row specifications.
-/
namespace Goframe
open Frame Spec

namespace Frame

/-! ### `Row(i)` -/

theorem rowAtAux_eq {f : Frame} {n : Nat} (hr : f.RectN n) {i : Nat} (hi : i < n) :
    rowAtAux f i = .ok (f.rowMap i) := by
  induction f with
  | nil => rfl
  | cons kc rest ih =>
    obtain ⟨k, c⟩ := kc
    have hl : c.data.length = n := (hr (k, c) (List.mem_cons_self ..)).1
    have hi' : i < c.data.length := by omega
    simp only [rowAtAux, List.getElem?_eq_getElem hi', ih hr.tail]
    simp [rowMap, List.getD_eq_getElem?_getD, List.getElem?_eq_getElem hi']

theorem nrows_eq_of_pos {f : Frame} {n : Nat} (hr : f.RectN n) {i : Nat} (hi : i < f.nrows) :
    f.nrows = n := by
  apply nrows_of_rectN hr
  intro e; subst e; simp [nrows] at hi

theorem rowAt_ok {f : Frame} {n : Nat} (hr : f.RectN n) {i : Nat} (hi : i < f.nrows) :
    rowAt f (i : Int) = .ok (f.rowMap i) := by
  have hn := nrows_eq_of_pos hr hi
  unfold rowAt
  rw [if_neg (by omega)]
  exact rowAtAux_eq hr (by simpa [hn] using hi)

/-! ### `AppendRow` on a frame that already has the row's keys -/

theorem addMissing_eq_self (g : Frame) (m : Nat) (r : Row) (h : ∀ kv ∈ r, g.has kv.1 = true) :
    addMissing g m r = g := by
  induction r with
  | nil => rfl
  | cons kv rest ih =>
    obtain ⟨k, v⟩ := kv
    simp only [addMissing, h (k, v) (List.mem_cons_self ..), if_true]
    exact ih (fun x hx => h x (List.mem_cons_of_mem _ hx))

theorem has_ofRows (names : List Str) (rows : List Row) (k : Str) :
    (ofRows names rows).has k = names.any (· == k) := by
  simp [has, ofRows, List.any_map, Function.comp_def]

theorem appendRow_ofRows_rowMap (f : Frame) (rows : List Row) (i : Nat) :
    appendRow (ofRows f.keys rows) (f.rowMap i) = ofRows f.keys (rows ++ [f.rowMap i]) := by
  unfold appendRow
  rw [addMissing_eq_self]
  · exact pushRow_ofRows _ _ _
  · intro kv hkv
    rw [has_ofRows]
    simp only [rowMap, List.mem_map] at hkv
    obtain ⟨kc, hkc, rfl⟩ := hkv
    simp only [keys, List.any_map, List.any_eq_true]
    exact ⟨kc, hkc, by simp⟩

theorem appendRowsFrom_eq {f : Frame} {n : Nat} (hr : f.RectN n) (rows : List Row) (a cnt : Nat)
    (h : a + cnt ≤ f.nrows) :
    appendRowsFrom f (ofRows f.keys rows) a cnt =
      ofRows f.keys (rows ++ (List.range' a cnt).map f.rowMap) := by
  induction cnt generalizing rows a with
  | zero => simp [appendRowsFrom]
  | succ cnt ih =>
    simp only [appendRowsFrom, rowAt_ok hr (show a < f.nrows by omega)]
    rw [appendRow_ofRows_rowMap, ih _ _ (by omega)]
    simp [List.range'_succ]

theorem rowSlice_eq {f : Frame} {n : Nat} (hr : f.RectN n) (a b : Int) :
    f.rowSlice a b = Spec.rowSliceSpec f a b := by
  unfold rowSlice rowSliceSpec
  simp only []
  generalize hA : (if a < 0 then (0 : Int) else a) = A
  generalize hB : (if b > (f.nrows : Int) then (f.nrows : Int) else b) = B
  by_cases hge : A ≥ B
  · rw [if_pos hge, ← ofRows_nil]
    congr 1
    symm
    apply List.eq_nil_of_length_eq_zero
    simp only [List.length_drop, List.length_take, rowsOf, List.length_map, List.length_range]
    have : (clamp b 0 f.nrows) ≤ (clamp a 0 f.nrows) ∨ (f.nrows : Int) ≤ clamp a 0 f.nrows := by
      unfold clamp; grind
    omega
  · rw [if_neg hge]
    have ha : clamp a 0 f.nrows = A := by unfold clamp; grind
    have hb : clamp b 0 f.nrows = B := by unfold clamp; grind
    have h0 : 0 ≤ A := by grind
    have h1 : B ≤ f.nrows := by grind
    rw [ha, hb]
    rw [← ofRows_nil, appendRowsFrom_eq hr _ _ _ (by omega)]
    congr 1
    simp only [List.nil_append, rowsOf, ← List.map_take, ← List.map_drop]
    congr 1
    rw [List.take_range, List.range_eq_range', List.drop_range']
    congr 1 <;> omega

/-! ### `Filter` -/

theorem filterAux_eq {f : Frame} {n : Nat} (hr : f.RectN n) (p : Nat → Row → Bool) (rows : List Row)
    (i cnt : Nat) (h : i + cnt ≤ f.nrows) :
    filterAux f p (ofRows f.keys rows) i i cnt =
      ofRows f.keys (rows ++ ((List.range' i cnt).filter (fun j => p j (f.rowMap j))).map f.rowMap) := by
  induction cnt generalizing rows i with
  | zero => simp [filterAux]
  | succ cnt ih =>
    simp only [filterAux, rowAt_ok hr (show i < f.nrows by omega)]
    cases hp : p i (f.rowMap i)
    · simp only [Bool.false_eq_true, if_false]
      rw [ih _ _ (by omega)]
      simp [List.range'_succ, hp]
    · simp only [if_true]
      have := pushRow_ofRows f.keys rows (f.rowMap i)
      unfold pushRow at this
      rw [this, ih _ _ (by omega)]
      simp [List.range'_succ, hp]

theorem zipIdx_map_range' {α : Type} (g : Nat → α) (s m : Nat) :
    ((List.range' s m).map g).zipIdx s = (List.range' s m).map (fun i => (g i, i)) := by
  induction m generalizing s with
  | zero => rfl
  | succ m ih => simp [List.range'_succ, ih]

theorem filter_eq {f : Frame} {n : Nat} (hr : f.RectN n) (p : Nat → Row → Bool) :
    f.filter p = Spec.filterSpec f p := by
  unfold Frame.filter filterSpec
  rw [← ofRows_nil, filterAux_eq hr p [] 0 f.nrows (by omega)]
  congr 1
  rw [rowsOf, List.range_eq_range', zipIdx_map_range', List.filter_map, List.map_map]
  simp [Function.comp_def]

theorem filterLogAux_eq {f : Frame} {n : Nat} (hr : f.RectN n) (i cnt : Nat) (h : i + cnt ≤ f.nrows) :
    filterLogAux f i cnt = (List.range' i cnt).map f.rowMap := by
  induction cnt generalizing i with
  | zero => rfl
  | succ cnt ih =>
    simp only [filterLogAux, rowAt_ok hr (show i < f.nrows by omega), ih _ (show i + 1 + cnt ≤ f.nrows by omega)]
    simp [List.range'_succ]

theorem filterLog_eq {f : Frame} {n : Nat} (hr : f.RectN n) :
    f.filterLog = Spec.filterLogSpec f := by
  unfold filterLog filterLogSpec
  rw [filterLogAux_eq hr 0 f.nrows (by omega), rowsOf, List.range_eq_range']

/-! ### column-wise operations are of the `pick` form -/

theorem pickF_eq_map {f : Frame} {n : Nat} (hr : f.RectN n) (idx : List Nat) (h : List Cell → List Cell)
    (hh : ∀ d : List Cell, d.length = n → pick d idx = h d) :
    pickF f idx = f.map (fun kc => (kc.1, { name := kc.1, data := h kc.2.data })) := by
  unfold pickF
  apply List.map_congr_left
  intro kc hkc
  rw [hh _ (hr kc hkc).1]

/-- rows given by positions: the spec side of every `pick`-form operation -/
theorem ofRows_rowsOf_sel {f : Frame} {n : Nat} (hs : f.Sorted) (hr : f.RectN n) (hne : f ≠ [])
    (sel : List Nat → List Nat) (selR : List Row → List Row)
    (hsel : selR ((List.range n).map f.rowMap) = (sel (List.range n)).map f.rowMap) :
    ofRows f.keys (selR (rowsOf f)) = pickF f (sel (List.range n)) := by
  rw [rowsOf_eq hr hne, hsel, ofRows_rowMap hs]

theorem mapColsM_eq (g : List Cell → Outcome (List Cell)) (h : List Cell → List Cell) (f : Frame)
    (hg : ∀ kc ∈ f, g kc.2.data = .ok (h kc.2.data)) :
    mapColsM g f = .ok (f.map (fun kc => (kc.1, { name := kc.1, data := h kc.2.data }))) := by
  induction f with
  | nil => rfl
  | cons kc rest ih =>
    obtain ⟨k, c⟩ := kc
    have h1 := hg (k, c) (List.mem_cons_self ..)
    simp only at h1
    simp only [mapColsM, h1, ih (fun x hx => hg x (List.mem_cons_of_mem _ hx))]
    rfl

theorem head_eq {f : Frame} {n : Nat} (hs : f.Sorted) (hr : f.RectN n) (c : Int) :
    f.head c = .ok (Spec.headSpec f c) := by
  by_cases hne : f = []
  · subst hne; rfl
  have hn : f.nrows = n := nrows_of_rectN hr hne
  unfold head headSpec
  simp only [hn]
  generalize hM : (clamp c 0 (n : Int)) = M
  have hM' : (if (if c > (n : Int) then (n : Int) else c) < 0 then 0 else (if c > (n : Int) then (n : Int) else c)) = M := by
    rw [← hM]; unfold clamp; grind
  have hM0 : 0 ≤ M ∧ M ≤ n := by rw [← hM]; unfold clamp; grind
  rw [hM']
  rw [mapColsM_eq _ (fun d => d.take M.toNat)]
  · congr 1
    rw [ofRows_rowsOf_sel hs hr hne (fun l => l.take M.toNat) (fun l => l.take M.toNat) (by rw [List.map_take])]
    symm
    apply pickF_eq_map hr
    intro d hd
    rw [List.take_range, List.range_eq_range', pick_range' _ _ _ (by omega)]
    simp [Nat.min_eq_left (show M.toNat ≤ n by omega)]
  · intro kc hkc
    have hl := (hr kc hkc).1
    unfold sliceTo
    rw [if_neg (by omega)]

theorem tail_eq {f : Frame} {n : Nat} (hs : f.Sorted) (hr : f.RectN n) (c : Int) (hn62 : (n : Int) < 2 ^ 62) :
    f.tail c = .ok (Spec.tailSpec f c) := by
  by_cases hne : f = []
  · subst hne; rfl
  have hn : f.nrows = n := nrows_of_rectN hr hne
  unfold tail tailSpec
  simp only [hn]
  generalize hM : (clamp c 0 (n : Int)) = M
  have hM' : (if (if c > (n : Int) then (n : Int) else c) < 0 then 0 else (if c > (n : Int) then (n : Int) else c)) = M := by
    rw [← hM]; unfold clamp; grind
  have hM0 : 0 ≤ M ∧ M ≤ n := by rw [← hM]; unfold clamp; grind
  rw [hM']
  have hw : wrap64 ((n : Int) - M) = ((n - M.toNat : Nat) : Int) := by
    rw [wrap64_id (by unfold inInt64; omega)]; omega
  rw [hw]
  rw [mapColsM_eq _ (fun d => d.drop (n - M.toNat))]
  · congr 1
    rw [ofRows_rowsOf_sel hs hr hne (fun l => l.drop (n - M.toNat)) (fun l => l.drop (n - M.toNat)) (by rw [List.map_drop])]
    symm
    apply pickF_eq_map hr
    intro d hd
    rw [List.range_eq_range', List.drop_range', pick_range' _ _ _ (by omega)]
    simp only [Nat.zero_add, Nat.mul_one]
    apply List.take_of_length_le
    simp; omega
  · intro kc hkc
    have hl := (hr kc hkc).1
    unfold sliceFrom
    rw [if_neg (by omega)]
    simp

theorem map_eraseIdx {α β : Type} (g : α → β) (l : List α) (i : Nat) :
    (l.eraseIdx i).map g = (l.map g).eraseIdx i := by
  induction l generalizing i with
  | nil => rfl
  | cons x xs ih => cases i <;> simp [ih]

theorem dropRow_go_eq (i : Int) (f : Frame)
    (h : ∀ kc ∈ f, i.toNat + 1 ≤ kc.2.data.length ∧ kc.2.name = kc.1) :
    dropRow.go i f = .ok (f.map (fun kc => (kc.1, { name := kc.1, data := kc.2.data.eraseIdx i.toNat }))) := by
  induction f with
  | nil => rfl
  | cons kc rest ih =>
    obtain ⟨k, c⟩ := kc
    have h1 := h (k, c) (List.mem_cons_self ..)
    simp only at h1
    simp only [dropRow.go, ih (fun x hx => h x (List.mem_cons_of_mem _ hx))]
    rw [if_neg (by omega)]
    simp [← h1.2]

theorem dropRow_eq {f : Frame} {n : Nat} (hs : f.Sorted) (hr : f.RectN n) (i : Int)
    (hi : ¬ (i < 0 ∨ i ≥ f.nrows)) :
    f.dropRow i = .ok (ofRows f.keys ((rowsOf f).eraseIdx i.toNat)) := by
  have hne : f ≠ [] := by intro e; subst e; simp [nrows] at hi; omega
  have hn : f.nrows = n := nrows_of_rectN hr hne
  unfold dropRow
  rw [if_neg hi, dropRow_go_eq]
  · congr 1
    rw [ofRows_rowsOf_sel hs hr hne (fun l => l.eraseIdx i.toNat) (fun l => l.eraseIdx i.toNat)
      (by rw [map_eraseIdx])]
    symm
    apply pickF_eq_map hr _ (fun d => d.eraseIdx i.toNat)
    intro d hd
    unfold pick
    rw [map_eraseIdx]
    have := pick_range d
    unfold pick at this
    rw [← hd, this]
  · intro kc hkc
    have := hr kc hkc
    rw [hn] at hi
    exact ⟨by omega, this.2⟩

/-! ### outcome against an optional expected value -/

/-- `some x` = the call returns `x`; `none` = the call returns an error -/
def Refines {α : Type} (e : Option α) (o : Outcome α) : Prop :=
  (∀ x, e = some x → o = .ok x) ∧ (e = none → o.isErr = true)

theorem Refines.some {α : Type} {x : α} {o : Outcome α} (h : Refines (some x) o) : o = .ok x := h.1 x rfl
theorem Refines.none {α : Type} {o : Outcome α} (h : Refines none o) : o.isErr = true := h.2 rfl
theorem refines_some {α : Type} (x : α) : Refines (some x) (.ok x) :=
  ⟨fun _ h => (by cases h; rfl), fun h => (by cases h)⟩
theorem refines_none {α : Type} (e : String) : Refines (none : Option α) (.err e) :=
  ⟨fun _ h => (by cases h), fun _ => rfl⟩

/-! ### sorted insertion of names and `Frame.set` -/

theorem set_ofRows (names : List Str) (R : List Row) (k : Str) :
    Frame.set (ofRows names R) k { name := k, data := R.map (fun r => Row.getD r k) } =
      ofRows (insertStr k names) R := by
  induction names with
  | nil => rfl
  | cons x xs ih =>
    simp only [ofRows, List.map_cons, Frame.set, insertStr] at ih ⊢
    by_cases h1 : (k == x) = true
    · have := eq_of_beq h1; subst this; simp
    · by_cases h2 : strLt k x = true <;> simp [h1, h2, ih]

theorem emptyCols_eq (names ks : List Str) :
    emptyCols (ofRows names []) ks = ofRows (ks.foldl (fun acc k => insertStr k acc) names) [] := by
  induction ks generalizing names with
  | nil => rfl
  | cons k ks ih =>
    have := set_ofRows names [] k
    simp only [List.map_nil] at this
    simp only [emptyCols, List.foldl_cons, this, ih]

theorem emptyCols_nil (ks : List Str) : emptyCols [] ks = ofRows (sortNames ks) [] :=
  emptyCols_eq [] ks

theorem mem_insertStr {k y : Str} {xs : List Str} (h : y ∈ insertStr k xs) : y = k ∨ y ∈ xs := by
  induction xs with
  | nil => simp [insertStr] at h; exact Or.inl h
  | cons x xs ih =>
    simp only [insertStr] at h
    split at h
    · exact Or.inr h
    · split at h
      · rcases List.mem_cons.mp h with h | h
        · exact Or.inl h
        · exact Or.inr h
      · rcases List.mem_cons.mp h with h | h
        · exact Or.inr (h ▸ List.mem_cons_self ..)
        · rcases ih h with h | h
          · exact Or.inl h
          · exact Or.inr (List.mem_cons_of_mem _ h)

theorem insertStr_sorted {k : Str} {xs : List Str} (h : xs.Pairwise (fun a b => strLt a b = true)) :
    (insertStr k xs).Pairwise (fun a b => strLt a b = true) := by
  induction xs with
  | nil => simp [insertStr]
  | cons x xs ih =>
    rw [List.pairwise_cons] at h
    simp only [insertStr]
    split
    · exact List.pairwise_cons.mpr h
    · rename_i hne
      split
      · rename_i hlt
        refine List.pairwise_cons.mpr ⟨?_, List.pairwise_cons.mpr h⟩
        intro y hy
        rcases List.mem_cons.mp hy with hy | hy
        · rw [hy]; exact hlt
        · exact strLt_trans _ _ _ hlt (h.1 y hy)
      · rename_i hnlt
        refine List.pairwise_cons.mpr ⟨?_, ih h.2⟩
        intro y hy
        rcases mem_insertStr hy with hy | hy
        · subst hy
          cases hxk : strLt x y with
          | true => rfl
          | false =>
            have := strLt_total y x (by simpa using hnlt) hxk
            subst this; simp at hne
        · exact h.1 y hy

theorem insertStr_of_mem {k : Str} {xs : List Str} (h : xs.Pairwise (fun a b => strLt a b = true))
    (hk : k ∈ xs) : insertStr k xs = xs := by
  induction xs with
  | nil => cases hk
  | cons x xs ih =>
    rw [List.pairwise_cons] at h
    simp only [insertStr]
    split
    · rfl
    · rename_i hne
      rcases List.mem_cons.mp hk with hk | hk
      · subst hk; simp at hne
      · rw [if_neg (by rw [strLt_asymm (h.1 k hk)]; simp), ih h.2 hk]

theorem foldl_insertStr_sorted (ks : List Str) {xs : List Str}
    (h : xs.Pairwise (fun a b => strLt a b = true)) :
    (ks.foldl (fun acc k => insertStr k acc) xs).Pairwise (fun a b => strLt a b = true) := by
  induction ks generalizing xs with
  | nil => exact h
  | cons k ks ih => exact ih (insertStr_sorted h)

/-! ### `Iloc` -/

theorem ilocRows_eq (f : Frame) (names : List Str) (rows : List Row) (ris : List Int) :
    ilocRows f (ofRows names rows) ris =
      if ris.any (fun i => decide (i < 0 ∨ i ≥ f.nrows)) then .err "row index out of bounds"
      else .ok (ofRows names (rows ++ ris.map (fun i => f.rowMap i.toNat))) := by
  induction ris generalizing rows with
  | nil => simp [ilocRows]
  | cons i is ih =>
    simp only [ilocRows, List.any_cons]
    by_cases h : i < 0 ∨ i ≥ f.nrows
    · simp [h]
    · rw [if_neg h, pushRow_ofRows, ih]
      simp [h]

theorem iloc_refines (f : Frame) (ris cis : List Int) :
    Refines (Spec.ilocSpec f ris cis) (f.iloc ris cis) := by
  unfold ilocSpec iloc
  simp only []
  have hlen : f.keys.length = f.ncols := keys_length f
  rw [hlen]
  by_cases h1 : (cis.any fun c => decide (c < 0 ∨ c ≥ (f.ncols : Int))) = true
  · rw [if_pos h1, if_pos h1]
    exact refines_none _
  · rw [if_neg h1, if_neg h1, emptyCols_nil, ilocRows_eq]
    by_cases h2 : (ris.any fun i => decide (i < 0 ∨ i ≥ (f.nrows : Int))) = true
    · rw [if_pos h2, if_pos h2]
      exact refines_none _
    · rw [if_neg h2, if_neg h2, List.nil_append]
      exact refines_some _

/-! ### `Loc` -/

theorem locRow_eq (names : List Str) (rows : List Row) (r : Row) (lab : Cell) (ls : List Cell) :
    locRow (ofRows names rows) r lab ls =
      ofRows names (rows ++ (ls.filter (fun l => lab.goEq l)).map (fun _ => r)) := by
  induction ls generalizing rows with
  | nil => simp [locRow]
  | cons l ls ih =>
    simp only [locRow]
    cases h : lab.goEq l
    · simp only [Bool.false_eq_true, if_false, ih]; simp [h]
    · simp only [if_true, pushRow_ofRows, ih]; simp [h]

theorem locAux_eq (f : Frame) (idx labels : List Cell) (names : List Str) (rows : List Row) (i cnt : Nat) :
    locAux f idx labels (ofRows names rows) i cnt =
      ofRows names (rows ++ (List.range' i cnt).flatMap (fun j =>
        (labels.filter (fun l => (idx.getD j .nil).goEq l)).map (fun _ => f.rowMap j))) := by
  induction cnt generalizing rows i with
  | zero => simp [locAux]
  | succ cnt ih =>
    simp only [locAux, locRow_eq, ih]
    simp [List.range'_succ]

theorem loc_refines {f : Frame} {n : Nat} (hr : f.RectN n) (labels : List Cell) (cols : List Str) :
    Refines (Spec.locSpec f labels cols) (f.loc labels cols) := by
  unfold locSpec loc
  split
  · exact refines_none _
  · cases hg : f.get? sIndex with
    | none =>
      have : f.has sIndex = false := get?_eq_none_iff.mp hg
      simp only [this]
      exact refines_none _
    | some ic =>
      have hhas : f.has sIndex = true := by rw [has_eq_isSome, hg]; rfl
      have hmem := get?_mem hg
      have hne : f ≠ [] := List.ne_nil_of_mem hmem
      have hn : f.nrows = n := nrows_of_rectN hr hne
      have hl : ic.data.length = n := (hr _ hmem).1
      simp only [hhas, Bool.not_true, Bool.false_eq_true, if_false]
      rw [if_neg (by omega), emptyCols_nil, locAux_eq]
      have : ofRows (sortNames cols)
          ([] ++ (List.range' 0 f.nrows).flatMap (fun j =>
            (labels.filter (fun l => (ic.data.getD j .nil).goEq l)).map (fun _ => f.rowMap j))) =
        ofRows (sortNames cols)
          ((rowsOf f).flatMap (fun r =>
            (labels.filter (fun l => (Row.getD r sIndex).goEq l)).map (fun _ => r))) := by
        congr 1
        rw [rowsOf, List.flatMap_map, List.range_eq_range', List.nil_append]
        congr 1
        funext j
        rw [Row.getD_rowMap, hg]
        rfl
      rw [this]
      exact refines_some _

/-! ### `MultiSelect`, `DropColumn` -/

/-- a stored column is the column the row view assigns to its name -/
theorem col_eq {f : Frame} {n : Nat} (hr : f.RectN n) {k : Str} {c : Col} (hg : f.get? k = some c) :
    c = { name := k, data := (rowsOf f).map (fun r => Row.getD r k) } := by
  have hmem := get?_mem hg
  have hne : f ≠ [] := List.ne_nil_of_mem hmem
  obtain ⟨hl, hname⟩ := hr _ hmem
  simp only at hl hname
  have hd : (rowsOf f).map (fun r => Row.getD r k) = c.data := by
    rw [rowsOf_eq hr hne, List.map_map]
    have : ((fun r => Row.getD r k) ∘ f.rowMap) = fun i => c.data.getD i .nil := by
      funext i
      simp only [Function.comp, Row.getD_rowMap, hg]
      rfl
    rw [this, ← hl]
    exact pick_range c.data
  rw [hd, ← hname]

theorem multiSelectAux_eq {f : Frame} {n : Nat} (hr : f.RectN n) (names : List Str)
    (hsorted : names.Pairwise (fun a b => strLt a b = true)) (ks : List Str) :
    multiSelectAux f (ofRows names (rowsOf f)) ks =
      if ks.any (fun c => !f.has c) then .err "column does not exist"
      else .ok (ofRows (ks.foldl (fun acc k => insertStr k acc) names) (rowsOf f)) := by
  induction ks generalizing names with
  | nil => simp [multiSelectAux]
  | cons k ks ih =>
    simp only [multiSelectAux, List.any_cons, List.foldl_cons]
    cases hg : f.get? k with
    | none =>
      have : f.has k = false := get?_eq_none_iff.mp hg
      simp [this]
    | some c =>
      have hhas : f.has k = true := by rw [has_eq_isSome, hg]; rfl
      have hc := col_eq hr hg
      have hname : c.name = k := by rw [hc]
      simp only [hhas, Bool.not_true, Bool.false_or, hname]
      have hstep : (if (ofRows names (rowsOf f)).has k = true then ofRows names (rowsOf f)
          else (ofRows names (rowsOf f)).set k c) = ofRows (insertStr k names) (rowsOf f) := by
        split
        · rename_i hh
          rw [has_ofRows] at hh
          have hk : k ∈ names := by
            obtain ⟨x, hx, hxk⟩ := List.any_eq_true.mp hh
            have := eq_of_beq hxk; subst this; exact hx
          rw [insertStr_of_mem hsorted hk]
        · rw [hc]; exact set_ofRows _ _ _
      rw [hstep]
      exact ih _ (insertStr_sorted hsorted)

theorem multiSelect_refines {f : Frame} {n : Nat} (hr : f.RectN n) (ks : List Str) :
    Refines (Spec.multiSelectSpec f ks) (f.multiSelect ks) := by
  unfold multiSelectSpec multiSelect
  split
  · exact refines_none _
  · have h0 : ([] : Frame) = ofRows [] (rowsOf f) := rfl
    rw [h0, multiSelectAux_eq hr [] List.Pairwise.nil]
    split
    · exact refines_none _
    · exact refines_some _

theorem ofRows_sub {f : Frame} {n : Nat} (hs : f.Sorted) (hr : f.RectN n) (l : Frame)
    (hl : ∀ kc ∈ l, kc ∈ f) : ofRows (l.map (·.1)) (rowsOf f) = l := by
  unfold ofRows
  rw [List.map_map]
  conv => rhs; rw [← List.map_id l]
  apply List.map_congr_left
  intro kc hkc
  obtain ⟨k, c⟩ := kc
  have := col_eq hr (get?_of_mem hs (hl _ hkc))
  simp only [Function.comp, id]
  rw [← this]

theorem dropColumn_refines {f : Frame} {n : Nat} (hs : f.Sorted) (hr : f.RectN n) (k : Str) :
    Refines (Spec.dropColumnSpec f k) (f.dropColumn k) := by
  unfold dropColumnSpec dropColumn
  split
  · have : f.keys.filter (· != k) = (f.erase k).map (·.1) := by
      unfold keys erase
      rw [List.filter_map]
      rfl
    rw [this, ofRows_sub hs hr (f.erase k) (fun kc h => (List.mem_filter.mp h).1)]
    exact refines_some _
  · exact refines_none _

theorem dropRow_refines {f : Frame} {n : Nat} (hs : f.Sorted) (hr : f.RectN n) (i : Int) :
    Refines (Spec.dropRowSpec f i) (f.dropRow i) := by
  unfold dropRowSpec
  split
  · rename_i h
    unfold dropRow
    rw [if_pos h]
    exact refines_none _
  · rename_i h
    rw [dropRow_eq hs hr i h]
    exact refines_some _

theorem rowAt_refines {f : Frame} {n : Nat} (hr : f.RectN n) (i : Int) :
    Refines (Spec.rowSpec f i) (f.rowAt i) := by
  unfold rowSpec
  by_cases h : i < 0 ∨ i ≥ f.nrows
  · rw [if_pos h]
    unfold rowAt
    rw [if_pos h]
    exact refines_none _
  · rw [if_neg h]
    have h' : i.toNat < f.nrows := by omega
    have := rowAt_ok hr h'
    rw [Int.toNat_of_nonneg (by omega)] at this
    rw [this]
    exact refines_some _

end Frame
end Goframe
