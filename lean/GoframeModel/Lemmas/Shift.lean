import GoframeModel.Lemmas.RefineA
import GoframeModel.Spec.Select
/-
  Lemmas about `Shift` (C19).
-/
namespace Goframe
open Frame

theorem wrap64_sub_iff {i n p : Int} (hi : 0 ≤ i) (hin : i < n) (hn : n < 2 ^ 62) (hp : inInt64 p) :
    ((0 ≤ wrap64 (i - p) ∧ wrap64 (i - p) < n) ↔ (0 ≤ i - p ∧ i - p < n)) ∧
    ((0 ≤ i - p ∧ i - p < n) → wrap64 (i - p) = i - p) := by
  unfold wrap64; unfold inInt64 at hp
  omega

namespace Frame

theorem shiftCol_length (d : List Cell) (p : Int) : (shiftCol d p).length = d.length := by
  simp [shiftCol]

/-- the 64-bit subtraction in `shiftCol` can be read as the mathematical one -/
theorem shiftCol_eq {d : List Cell} {n : Nat} (hd : d.length = n) (hn : (n : Int) < 2 ^ 62)
    {p : Int} (hp : inInt64 p) :
    shiftCol d p = (List.range n).map (fun (i : Nat) =>
      if 0 ≤ (i : Int) - p ∧ (i : Int) - p < n then d.getD ((i : Int) - p).toNat .nil else .nil) := by
  unfold shiftCol
  rw [hd]
  apply List.map_congr_left
  intro i hi
  have hi' : i < n := List.mem_range.mp hi
  have hw := wrap64_sub_iff (i := (i : Int)) (n := (n : Int)) (p := p) (by omega) (by omega) hn hp
  by_cases h : 0 ≤ (i : Int) - p ∧ (i : Int) - p < n
  · have e := hw.2 h
    simp only [e, h, and_self, if_true]
  · have h' : ¬ (0 ≤ wrap64 ((i : Int) - p) ∧ wrap64 ((i : Int) - p) < n) := fun x => h (hw.1.mp x)
    simp only [h, if_false]
    exact if_neg h'

theorem shiftCol_getD {d : List Cell} {n : Nat} (hd : d.length = n) (hn : (n : Int) < 2 ^ 62)
    {p : Int} (hp : inInt64 p) {i : Nat} (hi : i < n) :
    (shiftCol d p).getD i .nil =
      (if 0 ≤ (i : Int) - p ∧ (i : Int) - p < n then d.getD ((i : Int) - p).toNat .nil else .nil) := by
  rw [shiftCol_eq hd hn hp]
  simp [List.getD_eq_getElem?_getD, List.getElem?_map, List.getElem?_range hi]

theorem mem_shift {f : Frame} {k : Str} {c : Col} (hk : (k, c) ∈ f) (p : Int) :
    (k, { name := k, data := shiftCol c.data p }) ∈ f.shift p :=
  List.mem_map.mpr ⟨(k, c), hk, rfl⟩

theorem shift_keys (f : Frame) (p : Int) : (f.shift p).keys = f.keys := by
  simp [shift, keys, List.map_map, Function.comp_def]

theorem shift_rectN {f : Frame} {n : Nat} (hr : f.RectN n) (p : Int) : (f.shift p).RectN n := by
  intro kc hkc
  obtain ⟨kc', hm, rfl⟩ := List.mem_map.mp hkc
  exact ⟨by simp [shiftCol_length, (hr kc' hm).1], rfl⟩

theorem shift_eq_spec {f : Frame} {n : Nat} (hs : f.Sorted) (hr : f.RectN n) (p : Int)
    (hp : inInt64 p) (hn : (n : Int) < 2 ^ 62) :
    f.shift p = Spec.shiftSpec f p := by
  unfold Spec.shiftSpec
  rw [Spec.ofRows_keys, shift]
  apply List.map_congr_left
  intro kc hkc
  have hne : f ≠ [] := List.ne_nil_of_mem hkc
  have hnr : f.nrows = n := nrows_of_rectN hr hne
  rw [shiftCol_eq (hr kc hkc).1 hn hp, Spec.rowsOf_eq hr hne, hnr]
  simp only [List.map_map, Function.comp_def]
  congr 2
  apply List.map_congr_left
  intro i _
  by_cases h : 0 ≤ (i : Int) - p ∧ (i : Int) - p < n
  · have hj : ((i : Int) - p).toNat < n := by omega
    simp only [h, and_self, if_true]
    rw [List.getD_eq_getElem?_getD (l := List.map _ _), List.getElem?_map, List.getElem?_range hj]
    exact (Row.getD_rowMap_of_mem hs (k := kc.1) (c := kc.2) hkc _).symm
  · simp only [h, if_false]; rfl

theorem shift_zero_eq {f : Frame} {n : Nat} (hr : f.RectN n) (hn : (n : Int) < 2 ^ 62) :
    f.shift 0 = f := by
  unfold shift
  conv => rhs; rw [← List.map_id f]
  apply List.map_congr_left
  intro kc hkc
  obtain ⟨hl, hname⟩ := hr kc hkc
  have hp : inInt64 0 := by unfold inInt64; omega
  have : shiftCol kc.2.data 0 = kc.2.data := by
    apply List.ext_getElem
    · simp [shiftCol_length]
    · intro i h1 h2
      rw [shiftCol_length, hl] at h1
      have := shiftCol_getD hl hn hp h1
      rw [List.getD_eq_getElem?_getD, List.getElem?_eq_getElem (by rw [shiftCol_length, hl]; exact h1)] at this
      simp only [Option.getD_some] at this
      rw [this]
      simp [h1, h2]
  rw [this]
  obtain ⟨k, c⟩ := kc
  simp only at hname
  simp [id, ← hname]

/-- row `i` of `Shift(p)` is row `i - p` of the source, all cells together, when that position exists, and the
all-nil row otherwise -/
theorem rowCells_shift {f : Frame} {n : Nat} (hr : f.RectN n) (p : Int) (hp : inInt64 p)
    (hn : (n : Int) < 2 ^ 62) {i : Nat} (hi : i < n) :
    (f.shift p).rowCells i =
      (if 0 ≤ (i : Int) - p ∧ (i : Int) - p < n then f.rowCells ((i : Int) - p).toNat
       else List.replicate f.keys.length Cell.nil) := by
  by_cases h : 0 ≤ (i : Int) - p ∧ (i : Int) - p < n
  · rw [if_pos h]
    simp only [rowCells, shift, List.map_map, Function.comp_def]
    apply List.map_congr_left
    intro kc hkc
    rw [shiftCol_getD (hr kc hkc).1 hn hp hi, if_pos h]
  · rw [if_neg h]
    simp only [rowCells, shift, keys, List.map_map, Function.comp_def, List.length_map]
    rw [List.eq_replicate_iff]
    refine ⟨by simp, ?_⟩
    intro c hc
    obtain ⟨kc, hkc, rfl⟩ := List.mem_map.mp hc
    rw [shiftCol_getD (hr kc hkc).1 hn hp hi, if_neg h]

/-- every row of `Shift(p)` is a whole row of the source or the all-nil row -/
theorem shift_rows_mem {f : Frame} {n : Nat} (hr : f.RectN n) (p : Int) (hp : inInt64 p)
    (hn : (n : Int) < 2 ^ 62) :
    ∀ r ∈ (f.shift p).rows, r ∈ f.rows ∨ r = List.replicate f.keys.length Cell.nil := by
  intro r hmem
  by_cases hne : f = []
  · subst hne
    simp [shift, rows, nrows] at hmem
  · have hne' : f.shift p ≠ [] := by
      intro h; exact hne (List.map_eq_nil_iff.mp h)
    have hn1 : f.nrows = n := nrows_of_rectN hr hne
    have hn2 : (f.shift p).nrows = n := nrows_of_rectN (shift_rectN hr p) hne'
    simp only [rows, hn2, List.mem_map, List.mem_range] at hmem
    obtain ⟨i, hi, rfl⟩ := hmem
    rw [rowCells_shift hr p hp hn hi]
    by_cases h : 0 ≤ (i : Int) - p ∧ (i : Int) - p < n
    · rw [if_pos h]
      left
      simp only [rows, hn1, List.mem_map, List.mem_range]
      exact ⟨((i : Int) - p).toNat, by omega, rfl⟩
    · rw [if_neg h]
      right; rfl

end Frame
end Goframe
