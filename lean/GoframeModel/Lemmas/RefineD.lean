import GoframeModel.Ops.Select
import GoframeModel.Spec.Table
/-
  Refinement lemmas shared by the property files: how the row view (`Spec.rowsOf`, `Spec.ofRows`)
  relates to the column representation of the model.
-/
namespace Goframe
open Frame

theorem strLt_irrefl (a : Str) : strLt a a = false := by
  induction a with
  | nil => rfl
  | cons x xs ih => simp [strLt, ih]

namespace Frame

/-- a present key has a column, and that column is an entry of the frame -/
theorem get?_of_has {f : Frame} {k : Str} (h : f.has k = true) :
    ∃ c, f.get? k = some c ∧ (k, c) ∈ f := by
  induction f with
  | nil => simp [has] at h
  | cons kc rest ih =>
    by_cases hk : kc.1 = k
    · refine ⟨kc.2, ?_, ?_⟩
      · simp [get?, hk]
      · rw [← hk]; exact List.mem_cons_self
    · have h' : has rest k = true := by
        simpa [has, hk] using h
      obtain ⟨c, hc, hm⟩ := ih h'
      refine ⟨c, ?_, List.mem_cons_of_mem _ hm⟩
      simpa [get?, List.find?_cons, hk] using hc

/-- in a sorted frame every entry is the one found under its key -/
theorem get?_of_mem {f : Frame} (hs : f.Sorted) {k : Str} {c : Col} (h : (k, c) ∈ f) :
    f.get? k = some c := by
  induction f with
  | nil => simp at h
  | cons kc rest ih =>
    have hs' := List.pairwise_cons.mp hs
    rcases List.mem_cons.mp h with h | h
    · subst h; simp [get?]
    · have hne : ¬ kc.1 = k := by
        intro e
        have := hs'.1 _ h
        rw [e] at this
        simp [strLt_irrefl] at this
      have := ih hs'.2 h
      simpa [get?, List.find?_cons, hne] using this

theorem has_of_mem_keys {f : Frame} {k : Str} (h : k ∈ f.keys) : f.has k = true := by
  simp only [keys, List.mem_map] at h
  obtain ⟨kc, hm, rfl⟩ := h
  simp only [has, List.any_eq_true]
  exact ⟨kc, hm, by simp⟩

/-- the row map reads, under each key, the cell of the column found under that key -/
theorem rowMap_get? (f : Frame) (i : Nat) (k : Str) :
    Row.get? (f.rowMap i) k = (f.get? k).map (fun c => c.data.getD i .nil) := by
  induction f with
  | nil => simp [rowMap, Row.get?, get?]
  | cons kc rest ih =>
    by_cases hk : kc.1 = k
    · simp [rowMap, Row.get?, get?, hk]
    · have hk' : (kc.1 == k) = false := by simpa using hk
      simp only [rowMap, Row.get?, get?, List.map_cons, List.find?_cons, hk'] at ih ⊢
      exact ih

theorem rowMap_getD (f : Frame) (i : Nat) (k : Str) :
    Row.getD (f.rowMap i) k = ((f.get? k).map (fun c => c.data.getD i .nil)).getD .nil := by
  simp [Row.getD, rowMap_get?]

theorem rectN_nrows {f : Frame} {n : Nat} (h : f.RectN n) : f.RectN f.nrows := by
  cases f with
  | nil => intro kc hkc; simp at hkc
  | cons kc rest => rw [nrows_of_rectN h (by simp)]; exact h

end Frame

namespace Spec

/-- selecting rows by index, column by column, is rebuilding the frame from the selected rows -/
theorem ofRows_pick {f : Frame} (hs : f.Sorted) (idx : List Nat) :
    ofRows f.keys (idx.map f.rowMap) =
      f.map (fun kc => (kc.1, { name := kc.1, data := Frame.pick kc.2.data idx })) := by
  simp only [ofRows, Frame.keys, List.map_map]
  apply List.map_congr_left
  intro kc hkc
  simp only [Function.comp, Frame.pick]
  congr 2
  apply List.map_congr_left
  intro i _
  show Row.getD (f.rowMap i) kc.1 = _
  rw [Frame.rowMap_getD, Frame.get?_of_mem hs (k := kc.1) (c := kc.2) hkc]
  rfl

end Spec
end Goframe
