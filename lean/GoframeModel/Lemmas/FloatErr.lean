import GoframeModel.Core.Rounding
import Mathlib.Tactic.Linarith
import Mathlib.Tactic.Ring
import Mathlib.Tactic.Positivity
import Mathlib.Tactic.NormNum
import Mathlib.Algebra.Order.Field.Basic
import Mathlib.Algebra.Order.Ring.Rat
import Mathlib.Algebra.Order.Ring.Abs
import Mathlib.Algebra.BigOperators.Group.List.Basic
/- helper lemmas for Props/C16Rounding.lean (namespace Goframe.FloatErr) -/
namespace Goframe
namespace FloatErr
open Rounding

/-! ### bridges from the hand-rolled core definitions to Mathlib's `abs` / `List.sum` -/

theorem rabs_eq_abs (q : ℚ) : rabs q = |q| := by
  unfold rabs
  split
  · next h => exact (abs_of_neg h).symm
  · next h => exact (abs_of_nonneg (not_lt.mp h)).symm

theorem rabs_fun : rabs = (abs : ℚ → ℚ) := funext rabs_eq_abs

theorem foldl_add (xs : List ℚ) (a : ℚ) : xs.foldl (· + ·) a = a + xs.sum := by
  induction xs generalizing a with
  | nil => simp
  | cons x xs ih => simp only [List.foldl_cons, List.sum_cons, ih, add_assoc]

theorem exactSum_eq_sum (xs : List ℚ) : exactSum xs = xs.sum := by
  unfold exactSum
  rw [foldl_add, zero_add]

theorem absSum_eq (xs : List ℚ) : absSum xs = (xs.map abs).sum := by
  unfold absSum
  rw [exactSum_eq_sum, rabs_fun]

theorem relErr_abs {fl : ℚ → ℚ} {u : ℚ} (h : RelErr fl u) (x : ℚ) : |fl x - x| ≤ u * |x| := by
  have := h x
  rwa [rabs_eq_abs, rabs_eq_abs] at this

/-! ### sums of absolute values -/

theorem asum_nonneg (xs : List ℚ) : 0 ≤ (xs.map abs).sum := by
  induction xs with
  | nil => simp
  | cons x xs ih =>
    simp only [List.map_cons, List.sum_cons]
    have := abs_nonneg x
    linarith

theorem abs_sum_le (xs : List ℚ) : |xs.sum| ≤ (xs.map abs).sum := by
  induction xs with
  | nil => simp
  | cons x xs ih =>
    simp only [List.map_cons, List.sum_cons]
    have := abs_add_le x xs.sum
    linarith

theorem one_le_pow_u (u : ℚ) (hu : 0 ≤ u) (n : ℕ) : 1 ≤ (1 + u) ^ n :=
  one_le_pow₀ (by linarith)

theorem pow_u_mono (u : ℚ) (hu : 0 ≤ u) {m n : ℕ} (hmn : m ≤ n) : (1 + u) ^ m ≤ (1 + u) ^ n :=
  pow_le_pow_right₀ (by linarith) hmn

/-! ### one step of the recurrence  e' ≤ (1+u)·e + u·A' -/

theorem step_bound (u P A0 s0 S0 x f : ℚ) (hu : 0 ≤ u) (hP : 1 ≤ P)
    (hA : |S0| ≤ A0) (he : |s0 - S0| ≤ (P - 1) * A0) (hf : |f - (s0 + x)| ≤ u * |s0 + x|) :
    |f - (S0 + x)| ≤ ((1 + u) * P - 1) * (A0 + |x|) := by
  have h1 : |s0 + x| ≤ |s0 - S0| + |S0| + |x| := by
    have e1 : s0 + x = (s0 - S0) + S0 + x := by ring
    have a1 := abs_add_le ((s0 - S0) + S0) x
    have a2 := abs_add_le (s0 - S0) S0
    rw [← e1] at a1
    linarith
  have h2 : |f - (S0 + x)| ≤ |f - (s0 + x)| + |s0 - S0| := by
    have e2 : f - (S0 + x) = (f - (s0 + x)) + (s0 - S0) := by ring
    have a3 := abs_add_le (f - (s0 + x)) (s0 - S0)
    rw [← e2] at a3
    exact a3
  have hx := abs_nonneg x
  have h3 : u * |s0 + x| ≤ u * (|s0 - S0| + A0 + |x|) :=
    mul_le_mul_of_nonneg_left (by linarith) hu
  have h4 : 0 ≤ (1 + u) * ((P - 1) * |x|) :=
    mul_nonneg (by linarith) (mul_nonneg (by linarith) hx)
  have h5 : (1 + u) * |s0 - S0| ≤ (1 + u) * ((P - 1) * A0) :=
    mul_le_mul_of_nonneg_left he (by linarith)
  have key : ((1 + u) * P - 1) * (A0 + |x|)
      = u * (A0 + |x|) + (1 + u) * ((P - 1) * A0) + (1 + u) * ((P - 1) * |x|) := by
    ring
  rw [key]
  have h6 : u * (|s0 - S0| + A0 + |x|) + |s0 - S0| = u * (A0 + |x|) + (1 + u) * |s0 - S0| := by
    ring
  linarith

/-! ### the fold, generalised over the accumulator -/

theorem fold_err (fl : ℚ → ℚ) (u : ℚ) (hu : 0 ≤ u) (h : RelErr fl u) (xs : List ℚ) :
    ∀ (s0 S0 A0 : ℚ) (k : ℕ), |S0| ≤ A0 → |s0 - S0| ≤ ((1 + u) ^ k - 1) * A0 →
      |xs.foldl (fun s x => fl (s + x)) s0 - (S0 + xs.sum)|
        ≤ ((1 + u) ^ (k + xs.length) - 1) * (A0 + (xs.map abs).sum) := by
  induction xs with
  | nil =>
    intro s0 S0 A0 k _ he
    simpa using he
  | cons x xs ih =>
    intro s0 S0 A0 k hA he
    simp only [List.foldl_cons, List.sum_cons, List.map_cons, List.length_cons]
    have hA' : |S0 + x| ≤ A0 + |x| := by
      have := abs_add_le S0 x
      linarith
    have hstep : |fl (s0 + x) - (S0 + x)| ≤ ((1 + u) ^ (k + 1) - 1) * (A0 + |x|) := by
      have := step_bound u ((1 + u) ^ k) A0 s0 S0 x (fl (s0 + x)) hu (one_le_pow_u u hu k) hA he
        (relErr_abs h (s0 + x))
      rw [pow_succ, mul_comm ((1 + u) ^ k) (1 + u)]
      exact this
    have := ih (fl (s0 + x)) (S0 + x) (A0 + |x|) (k + 1) hA' hstep
    have e1 : S0 + (x + xs.sum) = S0 + x + xs.sum := by ring
    have e2 : A0 + (|x| + (xs.map abs).sum) = A0 + |x| + (xs.map abs).sum := by ring
    have e3 : k + (xs.length + 1) = k + 1 + xs.length := by omega
    rw [e1, e2, e3]
    exact this

/-- Higham's bound, `abs`/`List.sum` form -/
theorem fsum_error_abs (fl : ℚ → ℚ) (u : ℚ) (hu : 0 ≤ u) (h : RelErr fl u) (xs : List ℚ) :
    |fsum fl xs - xs.sum| ≤ ((1 + u) ^ xs.length - 1) * (xs.map abs).sum := by
  have := fold_err fl u hu h xs 0 0 0 0 (by simp) (by simp)
  simpa [fsum] using this

/-- the same with any exponent `n ≥ length` -/
theorem fsum_error_abs_le (fl : ℚ → ℚ) (u : ℚ) (hu : 0 ≤ u) (h : RelErr fl u) (xs : List ℚ)
    (n : ℕ) (hn : xs.length ≤ n) :
    |fsum fl xs - xs.sum| ≤ ((1 + u) ^ n - 1) * (xs.map abs).sum := by
  have h1 := fsum_error_abs fl u hu h xs
  have h2 := pow_u_mono u hu hn
  have h3 : ((1 + u) ^ xs.length - 1) * (xs.map abs).sum ≤ ((1 + u) ^ n - 1) * (xs.map abs).sum :=
    mul_le_mul_of_nonneg_right (by linarith) (asum_nonneg xs)
  linarith

/-! ### γₙ -/

theorem pow_mul_one_sub_le (u : ℚ) (hu : 0 ≤ u) (n : ℕ) : (1 + u) ^ n * (1 - (n : ℚ) * u) ≤ 1 := by
  induction n with
  | zero => simp
  | succ n ih =>
    have hP : 0 ≤ (1 + u) ^ n := by positivity
    have hn : (0 : ℚ) ≤ (n : ℚ) := Nat.cast_nonneg n
    have e : (1 + u) ^ (n + 1) * (1 - ((n + 1 : ℕ) : ℚ) * u)
        = (1 + u) ^ n * (1 - (n : ℚ) * u) - (1 + u) ^ n * (((n : ℚ) + 1) * (u * u)) := by
      push_cast
      ring
    rw [e]
    have : 0 ≤ (1 + u) ^ n * (((n : ℚ) + 1) * (u * u)) :=
      mul_nonneg hP (mul_nonneg (by linarith) (mul_nonneg hu hu))
    linarith

theorem gamma_le (u : ℚ) (n : ℕ) (hu : 0 ≤ u) (h : (n : ℚ) * u < 1) :
    (1 + u) ^ n - 1 ≤ (n : ℚ) * u / (1 - (n : ℚ) * u) := by
  have hd : 0 < 1 - (n : ℚ) * u := by linarith
  rw [le_div_iff₀ hd]
  have := pow_mul_one_sub_le u hu n
  have e : ((1 + u) ^ n - 1) * (1 - (n : ℚ) * u)
      = (1 + u) ^ n * (1 - (n : ℚ) * u) - (1 - (n : ℚ) * u) := by ring
  rw [e]
  linarith

theorem gamma64_aux (P Q g : ℚ) (h1 : Q ≤ P) (h2 : P - 1 ≤ g) (h3 : g ≤ 1 / 1099511627776) :
    (Q - 1) * 1099511627776 ≤ 1 := by
  linarith

/-- float64, n ≤ 4096: (1+u)ⁿ − 1 ≤ 2⁻⁴⁰ (the power (1+u)^4096 is never evaluated) -/
theorem gamma64_le (n : ℕ) (hn : n ≤ 4096) : ((1 + u64) ^ n - 1) * 1099511627776 ≤ 1 := by
  have hu : (0 : ℚ) ≤ u64 := by unfold u64; norm_num
  have h1 := pow_u_mono u64 hu hn
  have h2 := gamma_le u64 4096 hu (by unfold u64; norm_num)
  have h3 : ((4096 : ℕ) : ℚ) * u64 / (1 - ((4096 : ℕ) : ℚ) * u64) ≤ 1 / 1099511627776 := by
    unfold u64; norm_num
  exact gamma64_aux _ _ _ h1 h2 h3

/-! ### the mean -/

theorem mean_step (u P A S s f n : ℚ) (hu : 0 ≤ u) (hn : 0 < n)
    (hS : |S| ≤ A) (he : |s - S| ≤ (P - 1) * A) (hf : |f - s / n| ≤ u * |s / n|) :
    |f - S / n| ≤ ((1 + u) * P - 1) * A / n := by
  have hs : |s| ≤ |s - S| + |S| := by
    have := abs_add_le (s - S) S
    rwa [sub_add_cancel] at this
  have e1 : f - S / n = (f - s / n) + (s - S) / n := by ring
  have a1 := abs_add_le (f - s / n) ((s - S) / n)
  rw [← e1] at a1
  have hdiv1 : |(s - S) / n| = |s - S| / n := by rw [abs_div, abs_of_pos hn]
  have hdiv2 : |s / n| = |s| / n := by rw [abs_div, abs_of_pos hn]
  rw [hdiv1] at a1
  rw [hdiv2] at hf
  rw [le_div_iff₀ hn]
  have t1 : |f - S / n| ≤ u * (|s| / n) + |s - S| / n := by linarith
  have m1 : |f - S / n| * n ≤ (u * (|s| / n)) * n + (|s - S| / n) * n := by
    have := mul_le_mul_of_nonneg_right t1 hn.le
    rwa [add_mul] at this
  have c1 : (u * (|s| / n)) * n = u * |s| := by
    rw [mul_assoc, div_mul_cancel₀ _ hn.ne']
  have c2 : (|s - S| / n) * n = |s - S| := div_mul_cancel₀ _ hn.ne'
  rw [c1, c2] at m1
  have m2 : u * |s| ≤ u * (|s - S| + A) := mul_le_mul_of_nonneg_left (by linarith) hu
  have m3 : (1 + u) * |s - S| ≤ (1 + u) * ((P - 1) * A) :=
    mul_le_mul_of_nonneg_left he (by linarith)
  have key : ((1 + u) * P - 1) * A = (1 + u) * ((P - 1) * A) + u * A := by
    ring
  have m4 : u * (|s - S| + A) + |s - S| = (1 + u) * |s - S| + u * A := by ring
  rw [key]
  linarith

/-! ### groups -/

theorem length_le_flatten (gs : List (List ℚ)) : ∀ g ∈ gs, g.length ≤ gs.flatten.length := by
  induction gs with
  | nil => intro g hg; cases hg
  | cons a gs ih =>
    intro g hg
    simp only [List.flatten_cons, List.length_append]
    rcases List.mem_cons.mp hg with rfl | hg'
    · omega
    · have := ih g hg'
      omega

theorem groups_bound (fl : ℚ → ℚ) (u : ℚ) (hu : 0 ≤ u) (h : RelErr fl u) (n : ℕ)
    (gs : List (List ℚ)) (hg : ∀ g ∈ gs, g.length ≤ n) :
    |(gs.map (fsum fl)).sum - gs.flatten.sum| ≤ ((1 + u) ^ n - 1) * (gs.flatten.map abs).sum ∧
    ((gs.map (fsum fl)).map abs).sum ≤ (1 + u) ^ n * (gs.flatten.map abs).sum := by
  induction gs with
  | nil => simp
  | cons g gs ih =>
    have hgn : g.length ≤ n := hg g (List.mem_cons_self)
    obtain ⟨ih1, ih2⟩ := ih (fun g' hg' => hg g' (List.mem_cons_of_mem _ hg'))
    simp only [List.map_cons, List.sum_cons, List.flatten_cons, List.sum_append, List.map_append]
    have e := fsum_error_abs_le fl u hu h g n hgn
    have hG := abs_sum_le g
    have hAg := asum_nonneg g
    have k1 : ((1 + u) ^ n - 1) * ((g.map abs).sum + (gs.flatten.map abs).sum)
        = ((1 + u) ^ n - 1) * (g.map abs).sum + ((1 + u) ^ n - 1) * (gs.flatten.map abs).sum := by
      ring
    have k2 : (1 + u) ^ n * ((g.map abs).sum + (gs.flatten.map abs).sum)
        = ((1 + u) ^ n - 1) * (g.map abs).sum + (g.map abs).sum
          + (1 + u) ^ n * (gs.flatten.map abs).sum := by
      ring
    constructor
    · have e1 : fsum fl g + (gs.map (fsum fl)).sum - (g.sum + gs.flatten.sum)
          = (fsum fl g - g.sum) + ((gs.map (fsum fl)).sum - gs.flatten.sum) := by ring
      have a1 := abs_add_le (fsum fl g - g.sum) ((gs.map (fsum fl)).sum - gs.flatten.sum)
      rw [← e1] at a1
      rw [k1]
      linarith
    · have a2 := abs_add_le (fsum fl g - g.sum) g.sum
      rw [sub_add_cancel] at a2
      rw [k2]
      linarith

theorem grouped_abs (fl : ℚ → ℚ) (u : ℚ) (hu : 0 ≤ u) (h : RelErr fl u) (xs : List ℚ)
    (gs : List (List ℚ)) (hp : gs.flatten.Perm xs) :
    |fsum fl (gs.map (fsum fl)) - fsum fl xs| ≤
      ((1 + u) ^ gs.length * (1 + u) ^ xs.length - 1) * (xs.map abs).sum
        + ((1 + u) ^ xs.length - 1) * (xs.map abs).sum := by
  have hlen : gs.flatten.length = xs.length := hp.length_eq
  have hsum : gs.flatten.sum = xs.sum := hp.sum_eq
  have hasum : (gs.flatten.map abs).sum = (xs.map abs).sum := (hp.map abs).sum_eq
  obtain ⟨g1, g2⟩ := groups_bound fl u hu h xs.length gs
    (fun g hg => hlen ▸ length_le_flatten gs g hg)
  rw [hsum, hasum] at g1
  rw [hasum] at g2
  have h1 := fsum_error_abs fl u hu h (gs.map (fsum fl))
  rw [List.length_map] at h1
  have h4 := fsum_error_abs fl u hu h xs
  have hPm := one_le_pow_u u hu gs.length
  have h2 : ((1 + u) ^ gs.length - 1) * ((gs.map (fsum fl)).map abs).sum
      ≤ ((1 + u) ^ gs.length - 1) * ((1 + u) ^ xs.length * (xs.map abs).sum) :=
    mul_le_mul_of_nonneg_left g2 (by linarith)
  have e1 : fsum fl (gs.map (fsum fl)) - fsum fl xs
      = (fsum fl (gs.map (fsum fl)) - (gs.map (fsum fl)).sum)
        + ((gs.map (fsum fl)).sum - xs.sum) + -(fsum fl xs - xs.sum) := by ring
  have a1 := abs_add_le ((fsum fl (gs.map (fsum fl)) - (gs.map (fsum fl)).sum)
        + ((gs.map (fsum fl)).sum - xs.sum)) (-(fsum fl xs - xs.sum))
  have a2 := abs_add_le (fsum fl (gs.map (fsum fl)) - (gs.map (fsum fl)).sum)
        ((gs.map (fsum fl)).sum - xs.sum)
  rw [← e1, abs_neg] at a1
  have key : ((1 + u) ^ gs.length * (1 + u) ^ xs.length - 1) * (xs.map abs).sum
        + ((1 + u) ^ xs.length - 1) * (xs.map abs).sum
      = ((1 + u) ^ gs.length - 1) * ((1 + u) ^ xs.length * (xs.map abs).sum)
        + ((1 + u) ^ xs.length - 1) * (xs.map abs).sum
        + ((1 + u) ^ xs.length - 1) * (xs.map abs).sum := by ring
  rw [key]
  linarith

end FloatErr
end Goframe
