import GoframeModel.Ops.Agg
import GoframeModel.Spec.Agg
/-
  Helper lemmas for C16 (aggregations, Describe, Add).
-/
namespace Goframe.AggLemmas
open Goframe Frame

/-! ### `asFloats` against `valuesOf` -/

theorem asFloats_ok (ω : Oracle) (d : List Cell)
    (h : d.all (fun c => (ω.asFloat64 c).isSome) = true) :
    asFloats ω d = .ok (d.filterMap ω.asFloat64) := by
  induction d with
  | nil => rfl
  | cons c cs ih =>
    simp only [List.all_cons, Bool.and_eq_true] at h
    obtain ⟨h1, h2⟩ := h
    cases hc : ω.asFloat64 c with
    | none => simp [hc] at h1
    | some v =>
      simp only [asFloats, hc, ih h2, Outcome.bind_ok, Outcome.pure_eq, List.filterMap_cons]

theorem asFloats_err (ω : Oracle) (d : List Cell)
    (h : d.all (fun c => (ω.asFloat64 c).isSome) = false) :
    ∃ e, asFloats ω d = .err e := by
  induction d with
  | nil => simp at h
  | cons c cs ih =>
    cases hc : ω.asFloat64 c with
    | none => exact ⟨"cannot convert to float64", by simp only [asFloats, hc]⟩
    | some v =>
      simp only [List.all_cons, hc, Option.isSome_some, Bool.true_and] at h
      obtain ⟨e, he⟩ := ih h
      exact ⟨e, by simp only [asFloats, hc, he, Outcome.bind_err]⟩

theorem valuesOf_some {ω : Oracle} {d : List Cell} {xs : List FVal} (h : Spec.valuesOf ω d = some xs) :
    d.all (fun c => (ω.asFloat64 c).isSome) = true ∧ xs = d.filterMap ω.asFloat64 := by
  unfold Spec.valuesOf at h
  split at h
  · rename_i hall
    exact ⟨hall, by cases h; rfl⟩
  · cases h

theorem valuesOf_none {ω : Oracle} {d : List Cell} (h : Spec.valuesOf ω d = none) :
    d.all (fun c => (ω.asFloat64 c).isSome) = false := by
  unfold Spec.valuesOf at h
  split at h
  · cases h
  · rename_i hall; simpa using hall

/-! ### the `Min` / `Max` loops -/

theorem isNaN_iff (x : FVal) : x.isNaN = true ↔ x = .nan := by
  cases x <;> simp [FVal.isNaN]

theorem lt_nan_left (x : FVal) : FVal.lt .nan x = false := by
  cases x <;> rfl

theorem lt_nan_right (x : FVal) : FVal.lt x .nan = false := by
  cases x <;> rfl

def lstep (m v : FVal) : FVal := if v.lt m then v else m
def gstep (m v : FVal) : FVal := if m.lt v then v else m

theorem lstep_notNaN {m v : FVal} (hm : m.isNaN = false) (hv : v.isNaN = false) :
    (lstep m v).isNaN = false := by
  unfold lstep; split <;> assumption

theorem gstep_notNaN {m v : FVal} (hm : m.isNaN = false) (hv : v.isNaN = false) :
    (gstep m v).isNaN = false := by
  unfold gstep; split <;> assumption

theorem minLoop_notNaN (m : FVal) (vs : List FVal) (hm : m.isNaN = false) :
    minLoop m vs = (vs.filter (fun x => !x.isNaN)).foldl lstep m := by
  induction vs generalizing m with
  | nil => rfl
  | cons v vs ih =>
    simp only [minLoop, hm, Bool.or_false]
    cases hv : v.isNaN with
    | true =>
      have : v = .nan := (isNaN_iff v).mp hv
      subst this
      have e : (FVal.nan :: vs).filter (fun x => !x.isNaN) = vs.filter (fun x => !x.isNaN) := rfl
      rw [lt_nan_left, e]
      exact ih m hm
    | false =>
      simp only [List.filter_cons, hv, Bool.not_false, if_true, List.foldl_cons]
      exact ih _ (lstep_notNaN hm hv)

theorem maxLoop_notNaN (m : FVal) (vs : List FVal) (hm : m.isNaN = false) :
    maxLoop m vs = (vs.filter (fun x => !x.isNaN)).foldl gstep m := by
  induction vs generalizing m with
  | nil => rfl
  | cons v vs ih =>
    simp only [maxLoop, hm, Bool.or_false]
    cases hv : v.isNaN with
    | true =>
      have : v = .nan := (isNaN_iff v).mp hv
      subst this
      have e : (FVal.nan :: vs).filter (fun x => !x.isNaN) = vs.filter (fun x => !x.isNaN) := rfl
      rw [lt_nan_right, e]
      exact ih m hm
    | false =>
      simp only [List.filter_cons, hv, Bool.not_false, if_true, List.foldl_cons]
      exact ih _ (gstep_notNaN hm hv)

theorem leastNonNaN_eq (xs : List FVal) :
    Spec.leastNonNaN xs =
      match xs.filter (fun x => !x.isNaN) with
      | [] => .nan
      | y :: ys => ys.foldl lstep y := rfl

theorem greatestNonNaN_eq (xs : List FVal) :
    Spec.greatestNonNaN xs =
      match xs.filter (fun x => !x.isNaN) with
      | [] => .nan
      | y :: ys => ys.foldl gstep y := rfl

theorem leastNonNaN_cons_nan (xs : List FVal) : Spec.leastNonNaN (.nan :: xs) = Spec.leastNonNaN xs := by
  simp [leastNonNaN_eq, FVal.isNaN]

theorem greatestNonNaN_cons_nan (xs : List FVal) :
    Spec.greatestNonNaN (.nan :: xs) = Spec.greatestNonNaN xs := by
  simp [greatestNonNaN_eq, FVal.isNaN]

theorem leastNonNaN_cons {x : FVal} (hx : x.isNaN = false) (xs : List FVal) :
    Spec.leastNonNaN (x :: xs) = (xs.filter (fun x => !x.isNaN)).foldl lstep x := by
  simp [leastNonNaN_eq, hx]

theorem greatestNonNaN_cons {x : FVal} (hx : x.isNaN = false) (xs : List FVal) :
    Spec.greatestNonNaN (x :: xs) = (xs.filter (fun x => !x.isNaN)).foldl gstep x := by
  simp [greatestNonNaN_eq, hx]

theorem minLoop_nan (vs : List FVal) : minLoop .nan vs = Spec.leastNonNaN vs := by
  induction vs with
  | nil => rfl
  | cons v vs ih =>
    simp only [minLoop, FVal.isNaN, Bool.or_true, if_true]
    cases hv : v.isNaN with
    | true =>
      have : v = .nan := (isNaN_iff v).mp hv
      subst this
      rw [ih, leastNonNaN_cons_nan]
    | false =>
      rw [minLoop_notNaN v vs hv, leastNonNaN_cons hv]

theorem maxLoop_nan (vs : List FVal) : maxLoop .nan vs = Spec.greatestNonNaN vs := by
  induction vs with
  | nil => rfl
  | cons v vs ih =>
    simp only [maxLoop, FVal.isNaN, Bool.or_true, if_true]
    cases hv : v.isNaN with
    | true =>
      have : v = .nan := (isNaN_iff v).mp hv
      subst this
      rw [ih, greatestNonNaN_cons_nan]
    | false =>
      rw [maxLoop_notNaN v vs hv, greatestNonNaN_cons hv]

theorem minLoop_eq (x : FVal) (xs : List FVal) : minLoop x xs = Spec.leastNonNaN (x :: xs) := by
  cases hx : x.isNaN with
  | true =>
    have : x = .nan := (isNaN_iff x).mp hx
    subst this
    rw [minLoop_nan, leastNonNaN_cons_nan]
  | false => rw [minLoop_notNaN x xs hx, leastNonNaN_cons hx]

theorem maxLoop_eq (x : FVal) (xs : List FVal) : maxLoop x xs = Spec.greatestNonNaN (x :: xs) := by
  cases hx : x.isNaN with
  | true =>
    have : x = .nan := (isNaN_iff x).mp hx
    subst this
    rw [maxLoop_nan, greatestNonNaN_cons_nan]
  | false => rw [maxLoop_notNaN x xs hx, greatestNonNaN_cons hx]

/-! ### the series aggregate -/

theorem aggSpec_some {ω : Oracle} {k : AggKind} {d : List Cell} {v : FVal}
    (h : Spec.aggSpec ω k d = some v) : seriesAgg ω k d = .ok v := by
  unfold Spec.aggSpec at h
  cases hv : Spec.valuesOf ω d with
  | none => simp [hv] at h
  | some xs =>
    obtain ⟨hall, hxs⟩ := valuesOf_some hv
    simp only [hv] at h
    simp only [seriesAgg, asFloats_ok ω d hall, Outcome.bind_ok, ← hxs]
    cases k with
    | sum => simp only [Option.some.injEq] at h; simp [aggFloats, h]
    | mean =>
      cases xs with
      | nil => simp at h
      | cons x xs => simp at h; simp [aggFloats, h]
    | min =>
      cases xs with
      | nil => simp at h
      | cons x xs => simp at h; simp [aggFloats, ← h, minLoop_eq]
    | max =>
      cases xs with
      | nil => simp at h
      | cons x xs => simp at h; simp [aggFloats, ← h, maxLoop_eq]

theorem aggSpec_none {ω : Oracle} {k : AggKind} {d : List Cell}
    (h : Spec.aggSpec ω k d = none) : ∃ e, seriesAgg ω k d = .err e := by
  unfold Spec.aggSpec at h
  cases hv : Spec.valuesOf ω d with
  | none =>
    obtain ⟨e, he⟩ := asFloats_err ω d (valuesOf_none hv)
    exact ⟨e, by simp only [seriesAgg, he, Outcome.bind_err]⟩
  | some xs =>
    obtain ⟨hall, hxs⟩ := valuesOf_some hv
    simp only [hv] at h
    simp only [seriesAgg, asFloats_ok ω d hall, Outcome.bind_ok, ← hxs]
    cases k with
    | sum => simp at h
    | mean =>
      cases xs with
      | nil => exact ⟨_, rfl⟩
      | cons x xs => simp at h
    | min =>
      cases xs with
      | nil => exact ⟨_, rfl⟩
      | cons x xs => simp at h
    | max =>
      cases xs with
      | nil => exact ⟨_, rfl⟩
      | cons x xs => simp at h

theorem series_agg_spec (ω : Oracle) (k : AggKind) (d : List Cell) :
    (match Spec.aggSpec ω k d with
     | some v => seriesAgg ω k d = .ok v
     | none => (seriesAgg ω k d).isErr = true) := by
  cases h : Spec.aggSpec ω k d with
  | some v => exact aggSpec_some h
  | none =>
    obtain ⟨e, he⟩ := aggSpec_none h
    simp only [he, Outcome.isErr]

/-! ### sums of finite values -/

theorem foldl_add_fin (a : Rat) (qs : List Rat) :
    (qs.map FVal.fin).foldl FVal.add (.fin a) = .fin (qs.foldl (· + ·) a) := by
  induction qs generalizing a with
  | nil => rfl
  | cons q qs ih => simp only [List.map_cons, List.foldl_cons, FVal.add, ih]

theorem sum_finite (qs : List Rat) : FVal.sum (qs.map .fin) = .fin (qs.foldl (· + ·) 0) :=
  foldl_add_fin 0 qs

theorem sum_perm (qs rs : List Rat) (h : qs.Perm rs) :
    FVal.sum (qs.map .fin) = FVal.sum (rs.map .fin) := by
  rw [sum_finite, sum_finite]
  congr 1
  apply h.foldl_eq'
  intro x _ y _ z
  show z + x + y = z + y + x
  rw [Rat.add_assoc, Rat.add_comm x y, ← Rat.add_assoc]

/-! ### minimum / maximum of finite values -/

def rmin (x : Rat) (xs : List Rat) : Rat := xs.foldl (fun m v => if v < m then v else m) x
def rmax (x : Rat) (xs : List Rat) : Rat := xs.foldl (fun m v => if m < v then v else m) x

theorem filter_fin (xs : List Rat) :
    (xs.map FVal.fin).filter (fun x => !x.isNaN) = xs.map FVal.fin := by
  apply List.filter_eq_self.mpr
  intro a ha
  obtain ⟨q, _, rfl⟩ := List.mem_map.mp ha
  rfl

theorem foldl_lstep_fin (x : Rat) (xs : List Rat) :
    (xs.map FVal.fin).foldl lstep (.fin x) = .fin (rmin x xs) := by
  induction xs generalizing x with
  | nil => rfl
  | cons y ys ih =>
    simp only [List.map_cons, List.foldl_cons, rmin, lstep, FVal.lt]
    by_cases h : y < x
    · simp only [h, decide_true, if_true]; exact ih y
    · simp only [h, decide_false, if_false]; exact ih x

theorem foldl_gstep_fin (x : Rat) (xs : List Rat) :
    (xs.map FVal.fin).foldl gstep (.fin x) = .fin (rmax x xs) := by
  induction xs generalizing x with
  | nil => rfl
  | cons y ys ih =>
    simp only [List.map_cons, List.foldl_cons, rmax, gstep, FVal.lt]
    by_cases h : x < y
    · simp only [h, decide_true, if_true]; exact ih y
    · simp only [h, decide_false, if_false]; exact ih x

theorem least_fin (x : Rat) (xs : List Rat) :
    Spec.leastNonNaN ((x :: xs).map .fin) = .fin (rmin x xs) := by
  rw [List.map_cons, leastNonNaN_cons (by rfl), filter_fin, foldl_lstep_fin]

theorem greatest_fin (x : Rat) (xs : List Rat) :
    Spec.greatestNonNaN ((x :: xs).map .fin) = .fin (rmax x xs) := by
  rw [List.map_cons, greatestNonNaN_cons (by rfl), filter_fin, foldl_gstep_fin]

theorem rmin_spec (x : Rat) (xs : List Rat) :
    rmin x xs ∈ x :: xs ∧ ∀ y ∈ x :: xs, rmin x xs ≤ y := by
  induction xs generalizing x with
  | nil => simp [rmin]
  | cons z zs ih =>
    have e : rmin x (z :: zs) = rmin (if z < x then z else x) zs := rfl
    rw [e]
    obtain ⟨hm, hb⟩ := ih (if z < x then z else x)
    constructor
    · rcases List.mem_cons.mp hm with h | h
      · rw [h]; split <;> simp
      · simp [h]
    · intro y hy
      have h0 := hb _ (List.mem_cons_self ..)
      rcases List.mem_cons.mp hy with h | h
      · subst h
        split at h0 <;> grind
      · rcases List.mem_cons.mp h with h | h
        · subst h
          split at h0 <;> grind
        · exact hb y (List.mem_cons_of_mem _ h)

theorem rmax_spec (x : Rat) (xs : List Rat) :
    rmax x xs ∈ x :: xs ∧ ∀ y ∈ x :: xs, y ≤ rmax x xs := by
  induction xs generalizing x with
  | nil => simp [rmax]
  | cons z zs ih =>
    have e : rmax x (z :: zs) = rmax (if x < z then z else x) zs := rfl
    rw [e]
    obtain ⟨hm, hb⟩ := ih (if x < z then z else x)
    constructor
    · rcases List.mem_cons.mp hm with h | h
      · rw [h]; split <;> simp
      · simp [h]
    · intro y hy
      have h0 := hb _ (List.mem_cons_self ..)
      rcases List.mem_cons.mp hy with h | h
      · subst h
        split at h0 <;> grind
      · rcases List.mem_cons.mp h with h | h
        · subst h
          split at h0 <;> grind
        · exact hb y (List.mem_cons_of_mem _ h)

theorem min_max_perm (xs ys : List Rat) (h : xs.Perm ys) :
    Spec.leastNonNaN (xs.map .fin) = Spec.leastNonNaN (ys.map .fin) ∧
    Spec.greatestNonNaN (xs.map .fin) = Spec.greatestNonNaN (ys.map .fin) := by
  cases xs with
  | nil => rw [h.symm.eq_nil]; exact ⟨rfl, rfl⟩
  | cons x xs =>
    cases ys with
    | nil => exact absurd h.eq_nil (by simp)
    | cons y ys =>
      rw [least_fin, least_fin, greatest_fin, greatest_fin]
      obtain ⟨m1, b1⟩ := rmin_spec x xs
      obtain ⟨m2, b2⟩ := rmin_spec y ys
      obtain ⟨m3, b3⟩ := rmax_spec x xs
      obtain ⟨m4, b4⟩ := rmax_spec y ys
      constructor
      · congr 1
        exact Rat.le_antisymm (b1 _ (h.mem_iff.mpr m2)) (b2 _ (h.mem_iff.mp m1))
      · congr 1
        exact Rat.le_antisymm (b4 _ (h.mem_iff.mp m3)) (b3 _ (h.mem_iff.mpr m4))

theorem min_max_bounds (x : Rat) (xs : List Rat) :
    ∃ lo hi, Spec.leastNonNaN ((x :: xs).map .fin) = .fin lo ∧
      Spec.greatestNonNaN ((x :: xs).map .fin) = .fin hi ∧
      lo ∈ x :: xs ∧ hi ∈ x :: xs ∧ ∀ y ∈ x :: xs, lo ≤ y ∧ y ≤ hi := by
  obtain ⟨m1, b1⟩ := rmin_spec x xs
  obtain ⟨m3, b3⟩ := rmax_spec x xs
  exact ⟨rmin x xs, rmax x xs, least_fin x xs, greatest_fin x xs, m1, m3,
    fun y hy => ⟨b1 y hy, b3 y hy⟩⟩

/-! ### frame-level aggregates -/

theorem aggAll_ok (ω : Oracle) (k : AggKind) (f : Frame)
    (h : f.all (fun kc => (Spec.aggSpec ω k kc.2.data).isSome) = true) :
    aggAll ω k f = .ok (f.map (fun kc => (kc.1, (Spec.aggSpec ω k kc.2.data).getD .nan))) := by
  induction f with
  | nil => rfl
  | cons kc rest ih =>
    obtain ⟨n, c⟩ := kc
    simp only [List.all_cons, Bool.and_eq_true] at h
    obtain ⟨h1, h2⟩ := h
    cases hc : Spec.aggSpec ω k c.data with
    | none => simp [hc] at h1
    | some v =>
      simp only [aggAll, aggSpec_some hc, ih h2, Outcome.bind_ok, Outcome.pure_eq, List.map_cons, hc,
        Option.getD_some]

theorem aggAll_err (ω : Oracle) (k : AggKind) (f : Frame)
    (h : f.all (fun kc => (Spec.aggSpec ω k kc.2.data).isSome) = false) :
    ∃ e, aggAll ω k f = .err e := by
  induction f with
  | nil => simp at h
  | cons kc rest ih =>
    obtain ⟨n, c⟩ := kc
    cases hc : Spec.aggSpec ω k c.data with
    | none =>
      obtain ⟨e, he⟩ := aggSpec_none hc
      exact ⟨e, by simp only [aggAll, he, Outcome.bind_err]⟩
    | some v =>
      simp only [List.all_cons, hc, Option.isSome_some, Bool.true_and] at h
      obtain ⟨e, he⟩ := ih h
      exact ⟨e, by simp only [aggAll, aggSpec_some hc, he, Outcome.bind_ok, Outcome.bind_err]⟩

theorem frame_agg_spec (ω : Oracle) (k : AggKind) (f : Frame) :
    (match Spec.aggAllSpec ω k f with
     | some kvs => aggAll ω k f = .ok kvs
     | none => (aggAll ω k f).isErr = true) := by
  unfold Spec.aggAllSpec
  cases h : f.all (fun kc => (Spec.aggSpec ω k kc.2.data).isSome) with
  | true => simp only [if_true]; exact aggAll_ok ω k f h
  | false =>
    obtain ⟨e, he⟩ := aggAll_err ω k f h
    simp [he, Outcome.isErr]

/-! ### `Frame.set` / `get?` / `has` -/

theorem get?_cons (kc : Str × Col) (rest : Frame) (k : Str) :
    get? (kc :: rest) k = if kc.1 == k then some kc.2 else get? rest k := by
  simp only [get?, List.find?_cons]
  cases kc.1 == k <;> simp

theorem has_eq_isSome (f : Frame) (k : Str) : f.has k = (f.get? k).isSome := by
  induction f with
  | nil => rfl
  | cons kc rest ih =>
    simp only [has, get?, List.any_cons, List.find?_cons] at ih ⊢
    cases h : kc.1 == k <;> simp [ih]

theorem get?_set_self (f : Frame) (k : Str) (c : Col) : (f.set k c).get? k = some c := by
  induction f with
  | nil => simp [Frame.set, get?]
  | cons kc rest ih =>
    obtain ⟨k', c'⟩ := kc
    simp only [Frame.set]
    by_cases h1 : (k == k') = true
    · rw [if_pos h1]; simp [get?_cons]
    · rw [if_neg h1]
      by_cases h2 : strLt k k' = true
      · rw [if_pos h2]; simp [get?_cons]
      · rw [if_neg h2]
        have h3 : (k' == k) = false := by
          simp only [beq_iff_eq] at h1
          simpa using fun e => h1 e.symm
        simp only [get?_cons, h3, Bool.false_eq_true, if_false]
        exact ih

theorem get?_set_ne (f : Frame) (k k2 : Str) (c : Col) (hne : k ≠ k2) :
    (f.set k c).get? k2 = f.get? k2 := by
  have hk : (k == k2) = false := by simpa using hne
  induction f with
  | nil => simp [Frame.set, get?_cons, hk]
  | cons kc rest ih =>
    obtain ⟨k', c'⟩ := kc
    simp only [Frame.set]
    by_cases h1 : (k == k') = true
    · have e : k' = k := (eq_of_beq h1).symm
      subst e
      simp [get?_cons, hk]
    · rw [if_neg h1]
      by_cases h2 : strLt k k' = true
      · rw [if_pos h2]; simp [get?_cons, hk]
      · rw [if_neg h2]
        simp only [get?_cons, ih]

theorem has_set_ne (f : Frame) (k k2 : Str) (c : Col) (hne : k ≠ k2) :
    (f.set k c).has k2 = f.has k2 := by
  rw [has_eq_isSome, has_eq_isSome, get?_set_ne f k k2 c hne]

/-! ### `Describe` -/

def statCol : Col :=
  { name := sStat, data := [.str ([99, 111, 117, 110, 116]), .str ([109, 101, 97, 110]),
                            .str ([109, 105, 110]), .str ([109, 97, 120])] }

def descCol (k : Str) (x : FVal) (xs : List FVal) : Col :=
  { name := k, data :=
      [.flt false (.fin ((x :: xs).length : Rat)), .flt false ((FVal.sum (x :: xs)).divNat (x :: xs).length),
       .flt false (minLoop x xs), .flt false (maxLoop x xs)] }

def descStep (ω : Oracle) (acc : Frame) (kc : Str × Col) : Frame :=
  match numericCells ω kc.2.data with
  | [] => acc
  | x :: xs => if acc.has kc.1 then acc else acc.set kc.1 (descCol kc.1 x xs)

theorem describe_eq (ω : Oracle) (f : Frame) :
    f.describe ω = f.foldl (descStep ω) [(sStat, statCol)] := rfl

theorem descStep_get?_some (ω : Oracle) (acc : Frame) (kc : Str × Col) (k : Str) (v : Col)
    (h : acc.get? k = some v) : (descStep ω acc kc).get? k = some v := by
  unfold descStep
  split
  · exact h
  · split
    · exact h
    · rename_i hh
      have hne : kc.1 ≠ k := by
        intro e
        rw [e, has_eq_isSome, h] at hh
        exact hh rfl
      rw [get?_set_ne _ _ _ _ hne]; exact h

theorem foldl_descStep_get?_some (ω : Oracle) (f acc : Frame) (k : Str) (v : Col)
    (h : acc.get? k = some v) : (f.foldl (descStep ω) acc).get? k = some v := by
  induction f generalizing acc with
  | nil => exact h
  | cons kc rest ih => exact ih _ (descStep_get?_some ω acc kc k v h)

theorem descStep_has_false (ω : Oracle) (acc : Frame) (kc : Str × Col) (k : Str) (hne : kc.1 ≠ k)
    (h : acc.has k = false) : (descStep ω acc kc).has k = false := by
  unfold descStep
  split
  · exact h
  · split
    · exact h
    · rw [has_set_ne _ _ _ _ hne]; exact h

theorem foldl_descStep_get? (ω : Oracle) (f acc : Frame)
    (hd : f.Pairwise (fun a b => a.1 ≠ b.1)) (k : Str) (c : Col) (hk : (k, c) ∈ f)
    (hacc : acc.has k = false) (x : FVal) (xs : List FVal) (hnum : numericCells ω c.data = x :: xs) :
    (f.foldl (descStep ω) acc).get? k = some (descCol k x xs) := by
  induction f generalizing acc with
  | nil => cases hk
  | cons kc rest ih =>
    obtain ⟨hd1, hd2⟩ := List.pairwise_cons.mp hd
    simp only [List.foldl_cons]
    rcases List.mem_cons.mp hk with e | hmem
    · subst e
      apply foldl_descStep_get?_some
      simp only [descStep, hnum, hacc]
      exact get?_set_self _ _ _
    · have hne : kc.1 ≠ k := hd1 _ hmem
      exact ih _ hd2 hmem (descStep_has_false ω acc kc k hne hacc)

theorem strLt_irrefl (a : Str) : strLt a a = false := by
  induction a with
  | nil => rfl
  | cons x xs ih => simp [strLt, ih]

theorem sorted_keys_ne {f : Frame} (hs : f.Sorted) : f.Pairwise (fun a b => a.1 ≠ b.1) := by
  apply List.Pairwise.imp _ hs
  intro a b h e
  rw [e, strLt_irrefl] at h
  cases h

theorem filterMap_congr' {α β} (g g' : α → Option β) (d : List α) (h : ∀ x ∈ d, g x = g' x) :
    d.filterMap g = d.filterMap g' := by
  induction d with
  | nil => rfl
  | cons c cs ih =>
    rw [List.filterMap_cons, List.filterMap_cons, h c (List.mem_cons_self ..),
      ih (fun x hx => h x (List.mem_cons_of_mem _ hx))]

theorem filterMap_isSome_ne_nil {α β} (g : α → Option β) (d : List α) (hne : d ≠ [])
    (hall : d.all (fun c => (g c).isSome) = true) : d.filterMap g ≠ [] := by
  cases d with
  | nil => exact absurd rfl hne
  | cons c cs =>
    simp only [List.all_cons, Bool.and_eq_true] at hall
    cases hc : g c with
    | none => simp [hc] at hall
    | some v => simp [hc]

theorem describe_agrees (ω : Oracle) {f : Frame} (hs : f.Sorted) (k : Str) (c : Col) (hk : (k, c) ∈ f)
    (hstat : k ≠ sStat) (hne : c.data ≠ []) (xs : List FVal)
    (hall : Spec.valuesOf ω c.data = some xs) (hsame : ∀ x ∈ c.data, ω.toFloat x = ω.asFloat64 x) :
    (f.describe ω).get? k = some { name := k, data :=
      [.flt false (.fin (xs.length : Rat)), .flt false ((FVal.sum xs).divNat xs.length),
       .flt false (Spec.leastNonNaN xs), .flt false (Spec.greatestNonNaN xs)] } := by
  obtain ⟨hall', hxs⟩ := valuesOf_some hall
  have hnum : numericCells ω c.data = xs := by
    rw [hxs]
    unfold numericCells
    exact filterMap_congr' _ _ _ hsame
  have hxne : xs ≠ [] := by
    rw [hxs]; exact filterMap_isSome_ne_nil _ _ hne hall'
  cases xs with
  | nil => exact absurd rfl hxne
  | cons x xs' =>
    rw [describe_eq, foldl_descStep_get? ω f _ (sorted_keys_ne hs) k c hk _ x xs' hnum]
    · simp only [descCol, minLoop_eq, maxLoop_eq]
    · have : (sStat == k) = false := by simpa using fun e => hstat e.symm
      simp [has, this]

/-! ### `Add` -/

theorem add_cell_spec (ω : Oracle) (a b : Cell) (e : Cell) (h : Spec.addCellSpec ω a b = some e) :
    addCell ω a b = .ok e := by
  unfold Spec.addCellSpec at h
  unfold addCell
  cases ha : ω.toFloat a with
  | some x =>
    cases hb : ω.toFloat b with
    | some y => simp only [ha, hb, Option.some.injEq] at h; simp [h]
    | none =>
      simp only [ha, hb] at h
      cases a <;> cases b <;> simp_all [sameKind, Oracle.toFloat]
  | none =>
    simp only [ha] at h
    cases a <;> cases b <;> simp_all [sameKind, Oracle.toFloat]

theorem addCell_no_panic (ω : Oracle) (a b : Cell) : (addCell ω a b).isPanic = false := by
  unfold addCell
  split
  · rfl
  · split
    · split <;> rfl
    · rfl

theorem addCol_no_panic (ω : Oracle) (fill : Cell) (a b : List Cell) :
    (addCol ω fill a b).isPanic = false := by
  induction a generalizing b with
  | nil =>
    induction b with
    | nil => simp [addCol, Outcome.isPanic]
    | cons y ys ih =>
      simp only [addCol]
      cases h : addCol ω fill [] ys with
      | ok r => rfl
      | err e => rfl
      | panic p => rw [h] at ih; cases ih
  | cons x xs ih =>
    cases b with
    | nil =>
      simp only [addCol]
      have := ih []
      cases h : addCol ω fill xs [] with
      | ok r => rfl
      | err e => rfl
      | panic p => rw [h] at this; cases this
    | cons y ys =>
      simp only [addCol]
      have h1 := addCell_no_panic ω x y
      cases hc : addCell ω x y with
      | ok c =>
        have := ih ys
        cases h : addCol ω fill xs ys with
        | ok r => rfl
        | err e => rfl
        | panic p => rw [h] at this; cases this
      | err e => rfl
      | panic p => rw [hc] at h1; cases h1

theorem add_col_lengths (ω : Oracle) (fill : Cell) (a b out : List Cell) (h : addCol ω fill a b = .ok out) :
    out.length = max a.length b.length ∧
    ∀ i, min a.length b.length ≤ i → i < out.length → out.getD i .nil = fill := by
  induction a generalizing b out with
  | nil =>
    induction b generalizing out with
    | nil =>
      simp only [addCol, Outcome.ok.injEq] at h
      subst h
      simp
    | cons y ys ih =>
      simp only [addCol] at h
      obtain ⟨r, hr, h2⟩ := Outcome.bind_eq_ok.mp h
      simp only [Outcome.pure_eq, Outcome.ok.injEq] at h2
      subst h2
      obtain ⟨l, g⟩ := ih r hr
      constructor
      · simp only [List.length_cons, l, List.length_nil]; omega
      · intro i _ hi
        cases i with
        | zero => rfl
        | succ j =>
          simp only [List.length_cons] at hi
          have := g j (by simp) (by omega)
          simpa using this
  | cons x xs ih =>
    cases b with
    | nil =>
      simp only [addCol] at h
      obtain ⟨r, hr, h2⟩ := Outcome.bind_eq_ok.mp h
      simp only [Outcome.pure_eq, Outcome.ok.injEq] at h2
      subst h2
      obtain ⟨l, g⟩ := ih [] r hr
      constructor
      · simp only [List.length_cons, l, List.length_nil]; omega
      · intro i _ hi
        cases i with
        | zero => rfl
        | succ j =>
          simp only [List.length_cons] at hi
          have := g j (by simp) (by omega)
          simpa using this
    | cons y ys =>
      simp only [addCol] at h
      obtain ⟨c, hc, h⟩ := Outcome.bind_eq_ok.mp h
      obtain ⟨r, hr, h2⟩ := Outcome.bind_eq_ok.mp h
      simp only [Outcome.pure_eq, Outcome.ok.injEq] at h2
      subst h2
      obtain ⟨l, g⟩ := ih ys r hr
      constructor
      · simp only [List.length_cons, l]; omega
      · intro i hmin hi
        simp only [List.length_cons] at hi hmin
        cases i with
        | zero => omega
        | succ j =>
          have := g j (by omega) (by omega)
          simpa using this

theorem addAux_missing (ω : Oracle) (fill : Cell) (other f : Frame)
    (h : ∃ kc ∈ f, other.has kc.1 = false) : (addAux ω fill other f).isErr = true := by
  induction f with
  | nil => obtain ⟨kc, hkc, _⟩ := h; cases hkc
  | cons kc rest ih =>
    obtain ⟨k, c⟩ := kc
    simp only [addAux]
    cases hg : other.get? k with
    | none => rfl
    | some oc =>
      simp only []
      have hrest : ∃ kc ∈ rest, other.has kc.1 = false := by
        obtain ⟨kc', hmem, hh⟩ := h
        rcases List.mem_cons.mp hmem with e | hm
        · subst e
          rw [has_eq_isSome, hg] at hh
          cases hh
        · exact ⟨kc', hm, hh⟩
      have hnp := addCol_no_panic ω fill c.data oc.data
      cases hd : addCol ω fill c.data oc.data with
      | ok d =>
        have := ih hrest
        cases hr : addAux ω fill other rest with
        | ok r => rw [hr] at this; cases this
        | err e => rfl
        | panic p => rw [hr] at this; cases this
      | err e => rfl
      | panic p => rw [hd] at hnp; cases hnp

theorem add_name_mismatch (ω : Oracle) (f other : Frame) (fill : Cell)
    (h : ∃ kc ∈ f, other.has kc.1 = false) : (f.add ω other fill).isErr = true := by
  unfold Frame.add
  split
  · rfl
  · exact addAux_missing ω fill other f h

end Goframe.AggLemmas
