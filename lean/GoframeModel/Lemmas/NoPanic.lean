import GoframeModel.Step
import GoframeModel.Spec.Invalid
import GoframeModel.Lemmas.Rect
/-
  C20: no model operation panics on rectangular operands, and every invalid request is answered
  with an error.
-/
namespace Goframe.NoPanicLemmas
open Goframe Frame Goframe.RectLemmas

/-! ### outcome bookkeeping -/

theorem bind_np {α β : Type} {x : Outcome α} {f : α → Outcome β} (hx : x.isPanic = false)
    (hf : ∀ a, x = .ok a → (f a).isPanic = false) : (x.bind f).isPanic = false := by
  cases x with
  | ok a => exact hf a rfl
  | err e => rfl
  | panic e => cases hx

theorem bind_np' {α β : Type} {x : Outcome α} {f : α → Outcome β} (hx : x.isPanic = false)
    (hf : ∀ a, x = .ok a → (f a).isPanic = false) : (x >>= f).isPanic = false := bind_np hx hf

theorem isOk_np {α : Type} {x : Outcome α} (h : x.isOk = true) : x.isPanic = false := by
  cases x <;> simp_all [Outcome.isOk, Outcome.isPanic]

theorem bind_isErr {α β : Type} {x : Outcome α} {f : α → Outcome β} (hx : x.isErr = true) :
    (x.bind f).isErr = true := by
  cases x with
  | ok a => cases hx
  | err e => rfl
  | panic e => cases hx

theorem bind_isErr' {α β : Type} {x : Outcome α} {f : α → Outcome β} (hx : x.isErr = true) :
    (x >>= f).isErr = true := bind_isErr hx

theorem isErr_of_not {α : Type} {x : Outcome α} (hp : x.isPanic = false) (hok : ∀ a, x ≠ .ok a) :
    x.isErr = true := by
  cases x with
  | ok a => exact absurd rfl (hok a)
  | err e => rfl
  | panic e => cases hp

/-! ### Head / Tail / DropRow -/

theorem mapColsM_isOk {g : List Cell → Outcome (List Cell)} {f : Frame}
    (h : ∀ kc ∈ f, (g kc.2.data).isOk = true) : (mapColsM g f).isOk = true := by
  induction f with
  | nil => rfl
  | cons kc rest ih =>
    obtain ⟨k, c⟩ := kc
    simp only [mapColsM]
    have h1 := h (k, c) (List.mem_cons_self ..)
    have h2 := ih (fun x hx => h x (List.mem_cons_of_mem _ hx))
    simp only at h1
    cases hg : g c.data with
    | err e => simp [hg, Outcome.isOk] at h1
    | panic e => simp [hg, Outcome.isOk] at h1
    | ok d =>
      cases hm : mapColsM g rest with
      | err e => simp [hm, Outcome.isOk] at h2
      | panic e => simp [hm, Outcome.isOk] at h2
      | ok r => rfl

theorem head_isOk {f : Frame} (hr : RectN f f.nrows) (c : Int) : (f.head c).isOk = true := by
  unfold head
  apply mapColsM_isOk
  intro kc hkc
  have hl := (hr kc hkc).1
  simp only [sliceTo]
  rw [if_neg]
  · rfl
  · rw [hl]; split <;> split <;> omega

theorem tail_isOk {f : Frame} (hr : RectN f f.nrows) (hn : (f.nrows : Int) < 2 ^ 62) (c : Int) :
    (f.tail c).isOk = true := by
  unfold tail
  apply mapColsM_isOk
  intro kc hkc
  have hl := (hr kc hkc).1
  simp only [sliceFrom]
  rw [if_neg]
  · rfl
  · rw [hl]
    unfold wrap64
    split <;> split <;> omega

theorem dropRow_go_np {i : Int} {f : Frame} (h : ∀ kc ∈ f, i.toNat + 1 ≤ kc.2.data.length) :
    (dropRow.go i f).isPanic = false := by
  induction f with
  | nil => rfl
  | cons kc rest ih =>
    obtain ⟨k, c⟩ := kc
    simp only [dropRow.go]
    have h1 := h (k, c) (List.mem_cons_self ..)
    simp only at h1
    rw [if_neg (by omega)]
    apply bind_np' (ih (fun x hx => h x (List.mem_cons_of_mem _ hx)))
    intro a _; rfl

theorem dropRow_np {f : Frame} (hr : RectN f f.nrows) (i : Int) : (f.dropRow i).isPanic = false := by
  unfold dropRow
  split
  · rfl
  · apply dropRow_go_np
    intro kc hkc
    rw [(hr kc hkc).1]; omega


/-! ### Loc / Iloc / MultiSelect / SortValues -/

theorem loc_np {f : Frame} (hr : RectN f f.nrows) (ls : List Cell) (cs : List Str) :
    (f.loc ls cs).isPanic = false := by
  unfold loc
  split
  · rfl
  · split
    · rfl
    · rename_i ic hic
      have := (get?_rect hr hic).1
      rw [if_neg (by omega)]; rfl

theorem ilocRows_np (f acc : Frame) (is : List Int) : (ilocRows f acc is).isPanic = false := by
  induction is generalizing acc with
  | nil => rfl
  | cons i is ih =>
    simp only [ilocRows]
    split
    · rfl
    · exact ih _

theorem iloc_np (f : Frame) (rs cs : List Int) : (f.iloc rs cs).isPanic = false := by
  unfold iloc
  simp only
  split
  · rfl
  · exact ilocRows_np _ _ _

theorem multiSelectAux_np (f acc : Frame) (ks : List Str) : (multiSelectAux f acc ks).isPanic = false := by
  induction ks generalizing acc with
  | nil => rfl
  | cons k ks ih =>
    simp only [multiSelectAux]
    split
    · rfl
    · exact ih _

theorem multiSelect_np (f : Frame) (ks : List Str) : (f.multiSelect ks).isPanic = false := by
  unfold multiSelect
  split
  · rfl
  · exact multiSelectAux_np _ _ _

theorem sortValues_np (ω : Oracle) (f : Frame) (by_ : List Str) (asc : Bool) :
    (f.sortValues ω by_ asc).isPanic = false := by
  unfold sortValues sortValuesWith
  split <;> rfl

/-! ### DropDuplicates -/

theorem rowKey_np (ω : Oracle) {f : Frame} (hr : RectN f f.nrows) {i : Nat} (hi : i < f.nrows) (ks : List Str) :
    (rowKey ω f i ks).isPanic = false := by
  induction ks with
  | nil => rfl
  | cons k ks ih =>
    simp only [rowKey]
    split
    · rfl
    · rename_i c hc
      have hl := (get?_rect hr hc).1
      have : c.data[i]? = some c.data[i] := List.getElem?_eq_getElem (by omega)
      rw [this]
      simp only
      apply bind_np' ih
      intro a _; rfl

theorem rowKeys_np (ω : Oracle) {f : Frame} (hr : RectN f f.nrows) (cols : List Str) (i cnt : Nat)
    (h : i + cnt ≤ f.nrows) : (rowKeys ω f cols i cnt).isPanic = false := by
  induction cnt generalizing i with
  | zero => rfl
  | succ cnt ih =>
    simp only [rowKeys]
    apply bind_np' (rowKey_np ω hr (by omega) cols)
    intro a _
    apply bind_np' (ih (i + 1) (by omega))
    intro b _; rfl

theorem dropDuplicates_np (ω : Oracle) {f : Frame} (hr : RectN f f.nrows) (o : DedupOpts) :
    (f.dropDuplicates ω o).isPanic = false := by
  unfold dropDuplicates
  simp only
  generalize (if o.subset.isEmpty = true then f.keys else o.subset) = cols
  split
  · rfl
  · split
    · rfl
    · apply bind_np' (rowKeys_np ω hr cols 0 f.nrows (by omega))
      intro keys _
      split <;> rfl

/-! ### joins, Add -/

theorem checkExists_np (l r : Frame) (k : Str) : (checkExists l r k).isPanic = false := by
  unfold checkExists
  split
  · rfl
  · split <;> rfl

theorem innerJoin_np (l r : Frame) (k : Str) : (l.innerJoin r k).isPanic = false := by
  unfold innerJoin
  exact bind_np' (checkExists_np l r k) (fun _ _ => rfl)

theorem leftJoin_np (l r : Frame) (k : Str) : (l.leftJoin r k).isPanic = false := by
  unfold leftJoin
  exact bind_np' (checkExists_np l r k) (fun _ _ => rfl)

theorem rightJoin_np (l r : Frame) (k : Str) : (l.rightJoin r k).isPanic = false := by
  unfold rightJoin
  exact bind_np' (checkExists_np l r k) (fun _ _ => rfl)

theorem outerJoin_np (l r : Frame) (k : Str) : (l.outerJoin r k).isPanic = false := by
  unfold outerJoin
  apply bind_np' (checkExists_np l r k)
  intro _ _
  generalize outerLoop k (allRows r) (unionEmpty l r) [] (allRows l) = p
  obtain ⟨acc, seen⟩ := p
  rfl

theorem addCell_np (ω : Oracle) (a b : Cell) : (addCell ω a b).isPanic = false := by
  unfold addCell
  split
  · rfl
  · split
    · split <;> rfl
    · rfl

theorem addCol_np (ω : Oracle) (fill : Cell) (a b : List Cell) : (addCol ω fill a b).isPanic = false := by
  induction a generalizing b with
  | nil =>
    induction b with
    | nil => simp only [addCol]; rfl
    | cons y ys ih =>
      simp only [addCol]
      exact bind_np' ih (fun _ _ => rfl)
  | cons x xs ih =>
    cases b with
    | nil =>
      simp only [addCol]
      exact bind_np' (ih []) (fun _ _ => rfl)
    | cons y ys =>
      simp only [addCol]
      apply bind_np' (addCell_np ω x y)
      intro _ _
      exact bind_np' (ih ys) (fun _ _ => rfl)

theorem addAux_np (ω : Oracle) (fill : Cell) (other f : Frame) : (addAux ω fill other f).isPanic = false := by
  induction f with
  | nil => rfl
  | cons kc rest ih =>
    obtain ⟨k, c⟩ := kc
    simp only [addAux]
    split
    · rfl
    · apply bind_np' (addCol_np ω fill _ _)
      intro _ _
      exact bind_np' ih (fun _ _ => rfl)

theorem add_np (ω : Oracle) (l r : Frame) (fill : Cell) : (l.add ω r fill).isPanic = false := by
  unfold add
  split
  · rfl
  · exact addAux_np _ _ _ _

/-! ### Apply -/

theorem applyColAux_np (fn : List Cell → ApplyRes) (f : Frame) : (applyColAux fn f).isPanic = false := by
  induction f with
  | nil => rfl
  | cons kc rest ih =>
    obtain ⟨k, c⟩ := kc
    simp only [applyColAux]
    split
    · rfl
    · exact bind_np' ih (fun _ _ => rfl)
    · exact bind_np' ih (fun _ _ => rfl)

theorem applyCol_np (fn : List Cell → ApplyRes) (f : Frame) : (f.applyCol fn).isPanic = false := by
  unfold applyCol
  split
  · rfl
  · exact applyColAux_np _ _

theorem writeRes_np (i : Nat) (res : ApplyRes) (tbl : List (List Cell)) (j : Nat)
    (h : ∀ vs, res = .slice vs → j + tbl.length ≤ vs.length) : (writeRes i res tbl j).isPanic = false := by
  induction tbl generalizing j with
  | nil => rfl
  | cons col cols ih =>
    cases res with
    | nilRes => rfl
    | scalar v =>
      simp only [writeRes]
      exact bind_np' (ih (j + 1) (fun vs hvs => by cases hvs)) (fun _ _ => rfl)
    | slice vs =>
      simp only [writeRes]
      have hj := h vs rfl
      simp only [List.length_cons] at hj
      have : vs[j]? = some vs[j] := List.getElem?_eq_getElem (by omega)
      rw [this]
      simp only
      apply bind_np' (ih (j + 1) _) (fun _ _ => rfl)
      intro vs' hvs'
      cases hvs'
      omega

theorem collect_np (fn : ApplyFn) (f : Frame) (tbl : List (List Cell)) (σ : List Nat)
    (h : tbl.length = f.length) : (collect fn.eval f tbl σ).isPanic = false := by
  induction σ generalizing tbl with
  | nil => rfl
  | cons i is ih =>
    simp only [collect]
    apply bind_np'
    · apply writeRes_np
      intro vs hvs
      have := eval_slice_length hvs
      simp only [rowCells, List.length_map] at this
      omega
    · intro tbl' htbl'
      apply ih
      have := congrArg List.length (writeRes_lengths htbl')
      simp only [List.length_map] at this
      omega

theorem applyRowSeq_np (fn : ApplyFn) (f : Frame) : (f.applyRowSeq fn.eval).isPanic = false := by
  unfold applyRowSeq applyRowWith
  split
  · rfl
  · apply bind_np' (collect_np fn f _ _ (by simp))
    intro _ _; rfl

/-! ### Resample / Groupby -/

theorem bucketsOf_np (q : Freq) (d : List Cell) : (bucketsOf q d).isPanic = false := by
  induction d with
  | nil => rfl
  | cons c cs ih =>
    cases c <;> simp only [bucketsOf] <;> first | rfl | exact bind_np' ih (fun _ _ => rfl)

theorem resample_np (ω : Oracle) (f : Frame) (k q : Str) (agg : AggFn) :
    (f.resample ω k q agg).isPanic = false := by
  unfold resample resampleWith
  split
  · rfl
  · split
    · rfl
    · exact bind_np' (bucketsOf_np _ _) (fun _ _ => rfl)

theorem groupByString_np (f : Frame) (k : Str) : (f.groupByString k).isPanic = false := by
  unfold groupByString
  split <;> rfl

theorem groupByList_np (ω : Oracle) (f : Frame) (ks : List Str) : (f.groupByList ω ks).isPanic = false := by
  unfold groupByList
  split <;> rfl

theorem assemble_np (keys : List Cell) (acc : Frame) (l : List (Str × List Cell)) :
    (Grouped.assemble keys acc l).isPanic = false := by
  induction l generalizing acc with
  | nil => rfl
  | cons nd rest ih =>
    obtain ⟨n, d⟩ := nd
    simp only [Grouped.assemble]
    split
    · rfl
    · exact ih _

theorem aggWith_np (g : Grouped) (cols : List Str) (cell : List Row → Str → Cell) :
    (g.aggWith cols cell).isPanic = false := assemble_np _ _ _

theorem groupAgg_np (g : Grouped) (agg : GroupAgg) (cols : List Str) :
    (match agg with
      | .sum => g.sum cols
      | .mean => g.mean cols
      | .count => g.count cols).isPanic = false := by
  cases agg <;> exact aggWith_np _ _ _

/-! ### DropNa / Astype / AddDatetimeIndex / structural editors -/

theorem rowAtAux_np (f : Frame) (i : Nat) : (rowAtAux f i).isPanic = false := by
  induction f with
  | nil => rfl
  | cons kc rest ih =>
    obtain ⟨k, c⟩ := kc
    simp only [rowAtAux]
    split
    · rfl
    · exact bind_np' ih (fun _ _ => rfl)

theorem rowAt_np (f : Frame) (i : Int) : (rowAt f i).isPanic = false := by
  unfold rowAt
  split
  · rfl
  · exact rowAtAux_np _ _

theorem dropNaKeep_np (f : Frame) (i cnt : Nat) : (dropNaKeep f i cnt).isPanic = false := by
  induction cnt generalizing i with
  | zero => rfl
  | succ cnt ih =>
    simp only [dropNaKeep]
    have := rowAt_np f i
    split
    · exact bind_np' (ih _) (fun _ _ => rfl)
    · rfl
    · rename_i hp; rw [hp] at this; cases this

theorem dropNa_np (f : Frame) : f.dropNa.isPanic = false := by
  unfold dropNa
  exact bind_np' (dropNaKeep_np _ _ _) (fun _ _ => rfl)

theorem convAll_np {g : Cell → Outcome Cell} (hg : ∀ x, (g x).isPanic = false) (d : List Cell) :
    (convAll g d).isPanic = false := by
  induction d with
  | nil => rfl
  | cons c cs ih =>
    simp only [convAll]
    apply bind_np' (hg c)
    intro _ _
    exact bind_np' ih (fun _ _ => rfl)

theorem convCell_np (ω : Oracle) (ty : Str) (x : Cell) : (convCell ω ty x).isPanic = false := by
  unfold convCell
  split
  · split <;> rfl
  · split
    · split <;> rfl
    · split <;> rfl

theorem astype_np (ω : Oracle) (f : Frame) (k ty : Str) : (f.astype ω k ty).isPanic = false := by
  unfold astype
  split
  · rfl
  · split
    · rfl
    · exact bind_np' (convAll_np (convCell_np ω ty) _) (fun _ _ => rfl)

theorem addDatetimeIndex_np (ω : Oracle) (f : Frame) (k l : Str) :
    (f.addDatetimeIndex ω k l).isPanic = false := by
  unfold addDatetimeIndex
  split
  · rfl
  · refine bind_np' (convAll_np ?_ _) (fun _ _ => rfl)
    intro x
    split
    · split <;> rfl
    · rfl

theorem renameColumn_np (f : Frame) (a b : Str) : (f.renameColumn a b).isPanic = false := by
  unfold renameColumn
  split
  · rfl
  · split <;> rfl

theorem addColumn_np (f : Frame) (c : Col) : (f.addColumn c).isPanic = false := by
  unfold addColumn
  split <;> rfl

theorem dropColumn_np (f : Frame) (k : Str) : (f.dropColumn k).isPanic = false := by
  unfold dropColumn
  split <;> rfl


/-! ### every public operation -/

theorem opEffect_np (ω : Oracle) (p : Pool) (op : Op)
    (hp : ∀ f ∈ p, f.Rect ∧ f.Sorted ∧ (f.nrows : Int) < 2 ^ 62)
    (hapi : ∀ t k i v, op ≠ .setCell t k i v) : (opEffect ω p op).isPanic = false := by
  cases op with
  | head t n =>
    simp only [opEffect]
    split
    · rfl
    · rename_i f hf
      have hr := rectN_nrows (hp f (mem_pool hf)).1
      have hn := (hp f (mem_pool hf)).2.2
      exact bind_np (isOk_np (head_isOk hr n)) (fun _ _ => rfl)
  | tail t n =>
    simp only [opEffect]
    split
    · rfl
    · rename_i f hf
      have hr := rectN_nrows (hp f (mem_pool hf)).1
      have hn := (hp f (mem_pool hf)).2.2
      exact bind_np (isOk_np (tail_isOk hr hn n)) (fun _ _ => rfl)
  | rowSlice t a b =>
    simp only [opEffect]
    split <;> rfl
  | filter t bits =>
    simp only [opEffect]
    split <;> rfl
  | loc t ls cs =>
    simp only [opEffect]
    split
    · rfl
    · rename_i f hf
      have hr := rectN_nrows (hp f (mem_pool hf)).1
      have hn := (hp f (mem_pool hf)).2.2
      exact bind_np (loc_np hr ls cs) (fun _ _ => rfl)
  | iloc t rs cs =>
    simp only [opEffect]
    split
    · rfl
    · rename_i f hf
      have hr := rectN_nrows (hp f (mem_pool hf)).1
      have hn := (hp f (mem_pool hf)).2.2
      exact bind_np (iloc_np f rs cs) (fun _ _ => rfl)
  | multiSelect t ks =>
    simp only [opEffect]
    split
    · rfl
    · rename_i f hf
      have hr := rectN_nrows (hp f (mem_pool hf)).1
      have hn := (hp f (mem_pool hf)).2.2
      exact bind_np (multiSelect_np f ks) (fun _ _ => rfl)
  | sortValues t by_ asc =>
    simp only [opEffect]
    split
    · rfl
    · rename_i f hf
      have hr := rectN_nrows (hp f (mem_pool hf)).1
      have hn := (hp f (mem_pool hf)).2.2
      exact bind_np (sortValues_np ω f by_ asc) (fun _ _ => rfl)
  | shift t q =>
    simp only [opEffect]
    split <;> rfl
  | dedup t sub keep ip =>
    simp only [opEffect]
    split
    · rfl
    · rename_i f hf
      have hr := rectN_nrows (hp f (mem_pool hf)).1
      exact bind_np (dropDuplicates_np ω hr _) (fun ⟨_, _⟩ _ => rfl)
  | join kind t u key =>
    simp only [opEffect]
    split
    · rename_i l r hl hr
      refine bind_np ?_ (fun _ _ => rfl)
      split
      · exact innerJoin_np _ _ _
      · exact leftJoin_np _ _ _
      · exact rightJoin_np _ _ _
      · exact outerJoin_np _ _ _
    · rfl
  | add t u fill =>
    simp only [opEffect]
    split
    · exact bind_np (add_np _ _ _ _) (fun _ _ => rfl)
    · rfl
  | applyCol t fn =>
    simp only [opEffect]
    split
    · rfl
    · rename_i f hf
      have hr := rectN_nrows (hp f (mem_pool hf)).1
      have hn := (hp f (mem_pool hf)).2.2
      exact bind_np (applyCol_np fn.eval f) (fun _ _ => rfl)
  | applyRow t fn =>
    simp only [opEffect]
    split
    · rfl
    · rename_i f hf
      have hr := rectN_nrows (hp f (mem_pool hf)).1
      have hn := (hp f (mem_pool hf)).2.2
      exact bind_np (applyRowSeq_np fn f) (fun _ _ => rfl)
  | describe t =>
    simp only [opEffect]
    split <;> rfl
  | resample t c q agg =>
    simp only [opEffect]
    split
    · rfl
    · rename_i f hf
      have hr := rectN_nrows (hp f (mem_pool hf)).1
      have hn := (hp f (mem_pool hf)).2.2
      exact bind_np (resample_np ω f c q agg) (fun _ _ => rfl)
  | group t list keys agg cols =>
    simp only [opEffect]
    split
    · rfl
    · rename_i f hf
      refine bind_np ?_ (fun g _ => bind_np (groupAgg_np g agg cols) (fun _ _ => rfl))
      split
      · exact groupByList_np _ _ _
      · exact groupByString_np _ _
  | appendRow t r =>
    simp only [opEffect]
    split <;> rfl
  | dropRow t i =>
    simp only [opEffect]
    split
    · rfl
    · rename_i f hf
      have hr := rectN_nrows (hp f (mem_pool hf)).1
      have hn := (hp f (mem_pool hf)).2.2
      exact bind_np (dropRow_np hr i) (fun _ _ => rfl)
  | fillNa t v =>
    simp only [opEffect]
    split <;> rfl
  | dropNa t =>
    simp only [opEffect]
    split
    · rfl
    · rename_i f hf
      have hr := rectN_nrows (hp f (mem_pool hf)).1
      have hn := (hp f (mem_pool hf)).2.2
      exact bind_np (dropNa_np f) (fun _ _ => rfl)
  | astype t c ty =>
    simp only [opEffect]
    split
    · rfl
    · rename_i f hf
      have hr := rectN_nrows (hp f (mem_pool hf)).1
      have hn := (hp f (mem_pool hf)).2.2
      exact bind_np (astype_np ω f c ty) (fun _ _ => rfl)
  | rename t a b =>
    simp only [opEffect]
    split
    · rfl
    · rename_i f hf
      have hr := rectN_nrows (hp f (mem_pool hf)).1
      have hn := (hp f (mem_pool hf)).2.2
      exact bind_np (renameColumn_np f a b) (fun _ _ => rfl)
  | addColumn t c =>
    simp only [opEffect]
    split
    · rfl
    · rename_i f hf
      have hr := rectN_nrows (hp f (mem_pool hf)).1
      have hn := (hp f (mem_pool hf)).2.2
      exact bind_np (addColumn_np f c) (fun _ _ => rfl)
  | dropColumn t k =>
    simp only [opEffect]
    split
    · rfl
    · rename_i f hf
      have hr := rectN_nrows (hp f (mem_pool hf)).1
      have hn := (hp f (mem_pool hf)).2.2
      exact bind_np (dropColumn_np f k) (fun _ _ => rfl)
  | setCell t k i v => exact absurd rfl (hapi t k i v)
  | addDatetimeIndex t k l =>
    simp only [opEffect]
    split
    · rfl
    · rename_i f hf
      have hr := rectN_nrows (hp f (mem_pool hf)).1
      have hn := (hp f (mem_pool hf)).2.2
      exact bind_np (addDatetimeIndex_np ω f k l) (fun _ _ => rfl)

/-! ### invalid requests are answered with an error -/

theorem get?_none_of_has {f : Frame} {k : Str} (h : f.has k = false) : f.get? k = none :=
  get?_eq_none_iff.mpr h

theorem has_of_get? {f : Frame} {k : Str} {c : Col} (h : f.get? k = some c) : f.has k = true := by
  rw [has_eq_isSome, h]; rfl

theorem loc_err {f : Frame} {ls : List Cell} {cs : List Str}
    (h : (cs.any (fun c => !f.has c) || !f.has Frame.sIndex) = true) : (f.loc ls cs).isErr = true := by
  unfold loc
  split
  · rfl
  · rename_i h1
    rcases (Bool.or_eq_true _ _).mp h with h | h
    · exact absurd h h1
    · have : f.has sIndex = false := by simpa using h
      rw [get?_none_of_has this]; rfl

theorem ilocRows_err {f acc : Frame} {ris : List Int}
    (h : ris.any (fun i => decide (i < 0 ∨ i ≥ f.nrows)) = true) : (ilocRows f acc ris).isErr = true := by
  induction ris generalizing acc with
  | nil => simp at h
  | cons i is ih =>
    simp only [ilocRows]
    split
    · rfl
    · rename_i hi
      apply ih
      simp only [List.any_cons, Bool.or_eq_true, decide_eq_true_eq] at h
      rcases h with h | h
      · exact absurd h hi
      · simpa using h

theorem iloc_err {f : Frame} {rs cs : List Int}
    (h : (rs.any (fun i => decide (i < 0 ∨ i ≥ f.nrows)) || cs.any (fun c => decide (c < 0 ∨ c ≥ f.ncols))) = true) :
    (f.iloc rs cs).isErr = true := by
  unfold iloc
  simp only
  have e : f.keys.length = f.ncols := by simp [keys, ncols]
  rw [e]
  split
  · rfl
  · rename_i h1
    rcases (Bool.or_eq_true _ _).mp h with h | h
    · exact ilocRows_err h
    · exact absurd h h1

theorem multiSelectAux_err {f acc : Frame} {ks : List Str} (h : ks.any (fun c => !f.has c) = true) :
    (multiSelectAux f acc ks).isErr = true := by
  induction ks generalizing acc with
  | nil => simp at h
  | cons k ks ih =>
    simp only [multiSelectAux]
    split
    · rfl
    · rename_i c hc
      apply ih
      have := has_of_get? hc
      simpa [this] using h

theorem multiSelect_err {f : Frame} {ks : List Str} (h : (ks.isEmpty || ks.any (fun c => !f.has c)) = true) :
    (f.multiSelect ks).isErr = true := by
  unfold multiSelect
  split
  · rfl
  · rename_i h1
    rcases (Bool.or_eq_true _ _).mp h with h | h
    · exact absurd h h1
    · exact multiSelectAux_err h

theorem sortValues_err {ω : Oracle} {f : Frame} {by_ : List Str} {asc : Bool}
    (h : by_.any (fun c => !f.has c) = true) : (f.sortValues ω by_ asc).isErr = true := by
  unfold sortValues sortValuesWith
  rw [if_pos h]; rfl

theorem dropDuplicates_err {ω : Oracle} {f : Frame} {sub : List Str} {keep : Str} {ip : Bool}
    (h : (!Spec.validKeep keep || sub.any (fun c => !f.has c)) = true) :
    (f.dropDuplicates ω { subset := sub, keep := keep, inplace := ip }).isErr = true := by
  unfold dropDuplicates
  simp only
  split
  · rfl
  · rename_i kp hkp
    rcases (Bool.or_eq_true _ _).mp h with h | h
    · simp [Spec.validKeep, hkp] at h
    · have hne : sub.isEmpty = false := by
        cases sub with
        | nil => simp at h
        | cons _ _ => rfl
      simp only [hne, Bool.false_eq_true, if_false]
      rw [if_pos h]; rfl

theorem checkExists_err {l r : Frame} {k : Str} (h : (!l.has k || !r.has k) = true) :
    ∃ e, checkExists l r k = .err e := by
  unfold checkExists
  split
  · exact ⟨_, rfl⟩
  · split
    · exact ⟨_, rfl⟩
    · rename_i h1 h2
      rcases (Bool.or_eq_true _ _).mp h with h | h
      · exact absurd h h1
      · exact absurd h h2

theorem join_err {l r : Frame} {k : Str} (kind : Nat) (h : (!l.has k || !r.has k) = true) :
    (match kind with
      | 0 => l.innerJoin r k
      | 1 => l.leftJoin r k
      | 2 => l.rightJoin r k
      | _ => l.outerJoin r k).isErr = true := by
  obtain ⟨e, he⟩ := checkExists_err h
  split
  · unfold innerJoin; rw [he]; rfl
  · unfold leftJoin; rw [he]; rfl
  · unfold rightJoin; rw [he]; rfl
  · unfold outerJoin; rw [he]; rfl

/-- two strictly sorted lists, the first contained in the second and at least as long, are equal -/
theorem sorted_subset_eq (b : List Str) : ∀ (a : List Str), a.Pairwise (fun x y => strLt x y = true) →
    b.Pairwise (fun x y => strLt x y = true) → a ⊆ b → b.length ≤ a.length → a = b := by
  induction b with
  | nil => intro a _ _ hsub _; exact List.eq_nil_of_subset_nil hsub
  | cons y bs ih =>
    intro a ha hb hsub hlen
    cases a with
    | nil => simp at hlen
    | cons x as =>
      rw [List.pairwise_cons] at ha hb
      have hx : x ∈ y :: bs := hsub (List.mem_cons_self ..)
      rcases List.mem_cons.mp hx with hx | hx
      · subst hx
        have : as ⊆ bs := by
          intro z hz
          rcases List.mem_cons.mp (hsub (List.mem_cons_of_mem _ hz)) with h | h
          · subst h
            have := ha.1 z hz
            rw [strLt_irrefl] at this; cases this
          · exact h
        rw [ih as ha.2 hb.2 this (by simpa using hlen)]
      · exfalso
        have hyx : strLt y x = true := hb.1 x hx
        have hsub' : (x :: as) ⊆ bs := by
          intro z hz
          rcases List.mem_cons.mp (hsub hz) with h | h
          · subst h
            rcases List.mem_cons.mp hz with h | h
            · subst h; rw [strLt_irrefl] at hyx; cases hyx
            · have := strLt_trans _ _ _ hyx (ha.1 z h)
              rw [strLt_irrefl] at this; cases this
          · exact h
        have := ih (x :: as) (List.pairwise_cons.mpr ha) hb.2 hsub' (by simp at hlen ⊢; omega)
        have := congrArg List.length this
        simp at this hlen
        omega

theorem mem_keys_of_has {f : Frame} {k : Str} (h : f.has k = true) : k ∈ f.keys := by
  simp only [has, List.any_eq_true, beq_iff_eq] at h
  obtain ⟨kc, hkc, rfl⟩ := h
  exact List.mem_map_of_mem hkc

theorem addAux_ok_has {ω : Oracle} {fill : Cell} {other f r : Frame} (h : addAux ω fill other f = .ok r) :
    ∀ k ∈ f.keys, other.has k = true := by
  induction f generalizing r with
  | nil => intro k hk; cases hk
  | cons kc rest ih =>
    obtain ⟨k, c⟩ := kc
    simp only [addAux] at h
    split at h
    · cases h
    · rename_i oc hoc
      cases hd : addCol ω fill c.data oc.data with
      | err e => simp [hd] at h
      | panic e => simp [hd] at h
      | ok d =>
        cases hm : addAux ω fill other rest with
        | err e => simp [hd, hm] at h
        | panic e => simp [hd, hm] at h
        | ok r' =>
          intro k' hk'
          simp only [keys, List.map_cons, List.mem_cons] at hk'
          rcases hk' with hk' | hk'
          · subst hk'; exact has_of_get? hoc
          · exact ih hm k' hk'

theorem add_err {ω : Oracle} {l r : Frame} {fill : Cell} (hl : l.Sorted) (hr : r.Sorted)
    (h : (l.keys != r.keys) = true) : (l.add ω r fill).isErr = true := by
  unfold add
  split
  · rfl
  · rename_i hn
    apply isErr_of_not (addAux_np _ _ _ _)
    intro g hg
    have hsub : l.keys ⊆ r.keys := fun k hk => mem_keys_of_has (addAux_ok_has hg k hk)
    have := sorted_subset_eq r.keys l.keys ((sorted_iff_keys l).mp hl) ((sorted_iff_keys r).mp hr) hsub
      (by simp [keys, ncols] at hn ⊢; omega)
    simp [this] at h

theorem bucketsOf_err {q : Freq} {d : List Cell}
    (h : d.any (fun x => match x with | .time _ => false | _ => true) = true) :
    (bucketsOf q d).isErr = true := by
  induction d with
  | nil => simp at h
  | cons c cs ih =>
    cases c with
    | time t =>
      simp only [bucketsOf]
      apply bind_isErr'
      apply ih
      simpa using h
    | _ => simp only [bucketsOf]; rfl

theorem resample_err {ω : Oracle} {f : Frame} (hr : RectN f f.nrows) {c q : Str} {agg : AggFn}
    (h : (!f.has c || !Spec.validFreq q ||
      (Spec.colCells f c).any (fun x => match x with | .time _ => false | _ => true)) = true) :
    (f.resample ω c q agg).isErr = true := by
  unfold resample resampleWith
  cases hc : f.get? c with
  | none => rfl
  | some tc =>
    simp only
    cases hq : parseFreq q with
    | none => rfl
    | some fq =>
      simp only
      apply bind_isErr'
      have hl := (get?_rect hr hc).1
      rw [List.take_of_length_le (by omega)]
      apply bucketsOf_err
      simpa [has_of_get? hc, Spec.validFreq, hq, Spec.colCells, hc] using h

theorem groupByList_err {ω : Oracle} {f : Frame} {ks : List Str} (h : ks.any (fun c => !f.has c) = true) :
    (f.groupByList ω ks).isErr = true := by
  unfold groupByList
  rw [if_pos h]; rfl

theorem groupByString_err {f : Frame} {k : Str} (h : (!f.has k) = true) :
    (f.groupByString k).isErr = true := by
  unfold groupByString
  rw [if_pos h]; rfl

theorem dropRow_err {f : Frame} {i : Int} (h : decide (i < 0 ∨ i ≥ f.nrows) = true) :
    (f.dropRow i).isErr = true := by
  unfold dropRow
  rw [if_pos (of_decide_eq_true h)]; rfl

theorem convAll_err {g : Cell → Outcome Cell} (hg : ∀ x, (g x).isPanic = false) {d : List Cell}
    (h : ∃ x ∈ d, (g x).isErr = true) : (convAll g d).isErr = true := by
  induction d with
  | nil => obtain ⟨x, hx, _⟩ := h; cases hx
  | cons c cs ih =>
    simp only [convAll]
    cases hc : g c with
    | err e => rfl
    | panic e => have := hg c; rw [hc] at this; cases this
    | ok c' =>
      simp only [Outcome.bind_ok]
      apply bind_isErr'
      apply ih
      obtain ⟨x, hx, hbad⟩ := h
      rcases List.mem_cons.mp hx with hx | hx
      · subst hx; rw [hc] at hbad; cases hbad
      · exact ⟨x, hx, hbad⟩

theorem astype_err {ω : Oracle} {f : Frame} {c ty : Str}
    (h : (!f.has c || !Spec.validTarget ty ||
        (ty = Frame.sInt && (Spec.colCells f c).any (fun x => match x with | .flt false _ => false | _ => true)) ||
        (ty = Frame.sFloat64 && (Spec.colCells f c).any (fun x => match x with | .int .int _ => false | _ => true))) = true) :
    (f.astype ω c ty).isErr = true := by
  unfold astype
  cases hc : f.get? c with
  | none => rfl
  | some col =>
    simp only
    split
    · rfl
    · rename_i hty
      apply bind_isErr'
      apply convAll_err (convCell_np ω ty)
      have hcells : Spec.colCells f c = col.data := by simp [Spec.colCells, hc]
      rw [hcells, has_of_get? hc] at h
      simp only [Bool.or_eq_true, Bool.and_eq_true, Bool.not_eq_true', decide_eq_true_eq,
        List.any_eq_true] at h
      rcases h with ((h | h) | h) | h
      · cases h
      · exfalso
        apply hty
        simp only [Spec.validTarget, Bool.or_eq_false_iff, decide_eq_false_iff_not] at h
        exact ⟨h.1.1, h.1.2, h.2⟩
      · obtain ⟨rfl, x, hx, hbad⟩ := h
        refine ⟨x, hx, ?_⟩
        unfold convCell
        rw [if_pos rfl]
        cases x with
        | flt b v =>
          cases b with
          | false => simp at hbad
          | true => first | rfl | (cases v <;> rfl)
        | _ => rfl
      · obtain ⟨rfl, x, hx, hbad⟩ := h
        refine ⟨x, hx, ?_⟩
        unfold convCell
        rw [if_neg (by decide), if_pos rfl]
        cases x with
        | int t v =>
          cases t <;> first | (simp at hbad; done) | rfl
        | _ => rfl

theorem addDatetimeIndex_err {ω : Oracle} {f : Frame} {k l : Str}
    (h : (!f.has k || (Spec.colCells f k).any (fun x => match x with
        | .str s => (ω.timeParse l s).isNone
        | _ => true)) = true) :
    (f.addDatetimeIndex ω k l).isErr = true := by
  unfold addDatetimeIndex
  cases hc : f.get? k with
  | none => rfl
  | some col =>
    simp only
    apply bind_isErr'
    apply convAll_err
    · intro x
      split
      · split <;> rfl
      · rfl
    · have hcells : Spec.colCells f k = col.data := by simp [Spec.colCells, hc]
      rw [hcells, has_of_get? hc] at h
      simp only [Bool.not_true, Bool.false_or, List.any_eq_true] at h
      obtain ⟨x, hx, hbad⟩ := h
      refine ⟨x, hx, ?_⟩
      cases x with
      | str s =>
        simp only at hbad ⊢
        cases hp : ω.timeParse l s with
        | none => rfl
        | some t => simp [hp] at hbad
      | _ => rfl

theorem renameColumn_err {f : Frame} {a b : Str} (h : (!f.has a || f.has b) = true) :
    (f.renameColumn a b).isErr = true := by
  unfold renameColumn
  cases hc : f.get? a with
  | none => rfl
  | some c =>
    simp only
    split
    · rfl
    · rename_i hb
      rw [has_of_get? hc] at h
      simp at h
      exact absurd h hb

theorem addColumn_err {f : Frame} {c : Col} (h : f.has c.name = true) : (f.addColumn c).isErr = true := by
  unfold addColumn
  rw [if_pos h]; rfl

theorem dropColumn_err {f : Frame} {k : Str} (h : (!f.has k) = true) : (f.dropColumn k).isErr = true := by
  unfold dropColumn
  have : f.has k = false := by simpa using h
  rw [this]; rfl

theorem opEffect_invalid_err (ω : Oracle) (p : Pool) (op : Op)
    (hp : ∀ f ∈ p, f.Rect ∧ f.Sorted ∧ (f.nrows : Int) < 2 ^ 62)
    (hinv : Spec.invalidRequest ω p op = true) : (opEffect ω p op).isErr = true := by
  cases op with
  | loc t ls cs =>
    simp only [Spec.invalidRequest] at hinv
    split at hinv
    · rename_i f hf
      have hr := rectN_nrows (hp f (mem_pool hf)).1
      simp only [opEffect, hf]
      exact bind_isErr (loc_err hinv)
    · cases hinv
  | iloc t rs cs =>
    simp only [Spec.invalidRequest] at hinv
    split at hinv
    · rename_i f hf
      have hr := rectN_nrows (hp f (mem_pool hf)).1
      simp only [opEffect, hf]
      exact bind_isErr (iloc_err hinv)
    · cases hinv
  | multiSelect t ks =>
    simp only [Spec.invalidRequest] at hinv
    split at hinv
    · rename_i f hf
      have hr := rectN_nrows (hp f (mem_pool hf)).1
      simp only [opEffect, hf]
      exact bind_isErr (multiSelect_err hinv)
    · cases hinv
  | sortValues t by_ asc =>
    simp only [Spec.invalidRequest] at hinv
    split at hinv
    · rename_i f hf
      have hr := rectN_nrows (hp f (mem_pool hf)).1
      simp only [opEffect, hf]
      exact bind_isErr (sortValues_err hinv)
    · cases hinv
  | dedup t sub keep ip =>
    simp only [Spec.invalidRequest] at hinv
    split at hinv
    · rename_i f hf
      have hr := rectN_nrows (hp f (mem_pool hf)).1
      simp only [opEffect, hf]
      exact bind_isErr (dropDuplicates_err hinv)
    · cases hinv
  | join kind t u key =>
    simp only [Spec.invalidRequest] at hinv
    split at hinv
    · rename_i l r hl hr
      simp only [opEffect, hl, hr]
      exact bind_isErr (join_err kind hinv)
    · cases hinv
  | add t u fill =>
    simp only [Spec.invalidRequest] at hinv
    split at hinv
    · rename_i l r hl hr
      simp only [opEffect, hl, hr]
      exact bind_isErr (add_err (hp l (mem_pool hl)).2.1 (hp r (mem_pool hr)).2.1 hinv)
    · cases hinv
  | resample t c q agg =>
    simp only [Spec.invalidRequest] at hinv
    split at hinv
    · rename_i f hf
      have hr := rectN_nrows (hp f (mem_pool hf)).1
      simp only [opEffect, hf]
      exact bind_isErr (resample_err hr hinv)
    · cases hinv
  | group t list keys agg cols =>
    simp only [Spec.invalidRequest] at hinv
    split at hinv
    · rename_i f hf
      simp only [opEffect, hf]
      apply bind_isErr
      cases list
      · exact groupByString_err hinv
      · exact groupByList_err hinv
    · cases hinv
  | dropRow t i =>
    simp only [Spec.invalidRequest] at hinv
    split at hinv
    · rename_i f hf
      have hr := rectN_nrows (hp f (mem_pool hf)).1
      simp only [opEffect, hf]
      exact bind_isErr (dropRow_err hinv)
    · cases hinv
  | astype t c ty =>
    simp only [Spec.invalidRequest] at hinv
    split at hinv
    · rename_i f hf
      have hr := rectN_nrows (hp f (mem_pool hf)).1
      simp only [opEffect, hf]
      exact bind_isErr (astype_err hinv)
    · cases hinv
  | rename t a b =>
    simp only [Spec.invalidRequest] at hinv
    split at hinv
    · rename_i f hf
      have hr := rectN_nrows (hp f (mem_pool hf)).1
      simp only [opEffect, hf]
      exact bind_isErr (renameColumn_err hinv)
    · cases hinv
  | addColumn t c =>
    simp only [Spec.invalidRequest] at hinv
    split at hinv
    · rename_i f hf
      have hr := rectN_nrows (hp f (mem_pool hf)).1
      simp only [opEffect, hf]
      exact bind_isErr (addColumn_err hinv)
    · cases hinv
  | dropColumn t k =>
    simp only [Spec.invalidRequest] at hinv
    split at hinv
    · rename_i f hf
      have hr := rectN_nrows (hp f (mem_pool hf)).1
      simp only [opEffect, hf]
      exact bind_isErr (dropColumn_err hinv)
    · cases hinv
  | addDatetimeIndex t k l =>
    simp only [Spec.invalidRequest] at hinv
    split at hinv
    · rename_i f hf
      have hr := rectN_nrows (hp f (mem_pool hf)).1
      simp only [opEffect, hf]
      exact bind_isErr (addDatetimeIndex_err hinv)
    · cases hinv
  | _ => simp only [Spec.invalidRequest] at hinv; cases hinv

/-! ### Head / Tail / RowSlice / Shift are total -/

theorem rect_of_G {f : Frame} (h : G f) : f.Rect := h.1

theorem appendRowsFrom_rect (src : Frame) {acc : Frame} (h : acc.Rect) (a cnt : Nat) :
    (appendRowsFrom src acc a cnt).Rect := by
  induction cnt generalizing acc a with
  | zero => exact h
  | succ cnt ih =>
    simp only [appendRowsFrom]
    split
    · exact ih (appendRow_rect h _) _
    · exact ih h _

theorem ite_rect {c : Prop} [Decidable c] {a b : Frame} (ha : a.Rect) (hb : b.Rect) :
    (if c then a else b).Rect := by
  split <;> assumption

theorem rowSlice_rect (f : Frame) (a b : Int) : (f.rowSlice a b).Rect := by
  unfold rowSlice
  exact ite_rect ⟨0, emptyLike_rectN f⟩ (appendRowsFrom_rect f ⟨0, emptyLike_rectN f⟩ _ _)

theorem shift_rect {f : Frame} {n : Nat} (hr : f.RectN n) (c : Int) : (f.shift c).Rect := by
  refine ⟨n, ?_⟩
  unfold shift
  rw [rectN_map_iff]
  intro kc hkc
  simp [shiftCol, (hr kc hkc).1]

theorem counts_total (f : Frame) {n : Nat} (hr : f.RectN n) (hn : (n : Int) < 2 ^ 62) (c a b : Int) :
    (f.head c).isOk = true ∧ (f.tail c).isOk = true ∧ (f.rowSlice a b).Rect ∧ (f.shift c).Rect := by
  have hr' : f.RectN f.nrows := rectN_nrows ⟨n, hr⟩
  have hn' : (f.nrows : Int) < 2 ^ 62 := by
    cases f with
    | nil => simp [nrows]
    | cons kc rest => rw [nrows_of_rectN hr (by simp)]; exact hn
  exact ⟨head_isOk hr' c, tail_isOk hr' hn' c, rowSlice_rect f a b, shift_rect hr c⟩

end Goframe.NoPanicLemmas
