import GoframeModel.Ops.TimeSeries
import GoframeModel.Spec.Resample
/-
  Helper lemmas for C18 (Resample).
-/
namespace Goframe.ResampleLemmas
open Goframe Frame

/-! ### truncation -/

theorem truncate_idem (q : Freq) (t : GoTime) : truncate q (truncate q t) = truncate q t := by
  cases q <;> rfl

theorem same_bucket_iff (q : Freq) (a b : GoTime) (hloc : a.off = b.off ∧ a.zone = b.zone) :
    truncate q a = truncate q b ↔
      (a.y = b.y ∧ (q ≠ .Y → a.mo = b.mo) ∧ (q ≠ .Y ∧ q ≠ .M → a.d = b.d) ∧
       (q = .H ∨ q = .T ∨ q = .S → a.h = b.h) ∧ (q = .T ∨ q = .S → a.mi = b.mi) ∧ (q = .S → a.s = b.s)) := by
  obtain ⟨h1, h2⟩ := hloc
  cases q <;> simp only [truncate, GoTime.ofCivil, GoTime.mk.injEq] <;> constructor
  all_goals
    intro h
    simp_all

/-! ### insertion sort on buckets -/

abbrev le (a b : GoTime) : Prop := a.unix ≤ b.unix

theorem insertAsc_perm (t : GoTime) (l : List GoTime) : (insertAsc t l).Perm (t :: l) := by
  induction l with
  | nil => exact List.Perm.refl _
  | cons x xs ih =>
    simp only [insertAsc]
    split
    · exact List.Perm.refl _
    · exact ((List.Perm.cons x ih).trans (List.Perm.swap t x xs))

theorem insertAsc_sorted (t : GoTime) (l : List GoTime) (h : l.Pairwise le) :
    (insertAsc t l).Pairwise le := by
  induction l with
  | nil => simp [insertAsc]
  | cons x xs ih =>
    obtain ⟨h1, h2⟩ := List.pairwise_cons.mp h
    simp only [insertAsc]
    split
    · rename_i htx
      apply List.pairwise_cons.mpr
      refine ⟨?_, h⟩
      intro y hy
      rcases List.mem_cons.mp hy with e | hy
      · subst e; exact htx
      · exact Int.le_trans htx (h1 y hy)
    · rename_i htx
      apply List.pairwise_cons.mpr
      refine ⟨?_, ih h2⟩
      intro y hy
      have := (insertAsc_perm t xs).mem_iff.mp hy
      rcases List.mem_cons.mp this with e | hy
      · subst e; show x.unix ≤ y.unix; omega
      · exact h1 y hy

theorem sortedBuckets_perm (l : List GoTime) : (sortedBuckets l).Perm l := by
  induction l with
  | nil => exact List.Perm.refl _
  | cons x xs ih =>
    show (insertAsc x (sortedBuckets xs)).Perm (x :: xs)
    exact (insertAsc_perm x _).trans (List.Perm.cons x ih)

theorem sortedBuckets_sorted (l : List GoTime) : (sortedBuckets l).Pairwise le := by
  induction l with
  | nil => exact List.Pairwise.nil
  | cons x xs ih => exact insertAsc_sorted x _ ih

theorem nodup_eraseDups_aux {α : Type} [BEq α] [LawfulBEq α] :
    ∀ (n : Nat) (l : List α), l.length ≤ n → l.eraseDups.Nodup := by
  intro n
  induction n with
  | zero =>
    intro l hl
    cases l with
    | nil => simp
    | cons a as => simp at hl
  | succ n ih =>
    intro l hl
    cases l with
    | nil => simp
    | cons a as =>
      rw [List.eraseDups_cons]
      apply List.nodup_cons.mpr
      constructor
      · intro hm
        have := (List.mem_filter.mp (List.mem_eraseDups.mp hm)).2
        simp at this
      · apply ih
        have := List.length_filter_le (fun b => !b == a) as
        simp only [List.length_cons] at hl
        omega

theorem nodup_eraseDups {α : Type} [BEq α] [LawfulBEq α] (l : List α) : l.eraseDups.Nodup :=
  nodup_eraseDups_aux l.length l (Nat.le_refl _)

/-- a list sorted by `unix` is determined by its multiset when `unix` is injective on its members -/
theorem sorted_perm_eq {l₁ l₂ : List GoTime} (hp : l₁.Perm l₂) (s₁ : l₁.Pairwise le) (s₂ : l₂.Pairwise le)
    (hinj : ∀ x ∈ l₁, ∀ y ∈ l₁, x.unix = y.unix → x = y) : l₁ = l₂ := by
  induction l₁ generalizing l₂ with
  | nil => exact hp.symm.eq_nil.symm
  | cons a l₁ ih =>
    cases l₂ with
    | nil => exact absurd hp.eq_nil (by simp)
    | cons b l₂ =>
      obtain ⟨ha1, ha2⟩ := List.pairwise_cons.mp s₁
      obtain ⟨hb1, hb2⟩ := List.pairwise_cons.mp s₂
      have ha : a ∈ b :: l₂ := hp.mem_iff.mp (List.mem_cons_self ..)
      have hb : b ∈ a :: l₁ := hp.mem_iff.mpr (List.mem_cons_self ..)
      have hab : a.unix ≤ b.unix := by
        rcases List.mem_cons.mp hb with e | h
        · rw [e]; exact Int.le_refl _
        · exact ha1 b h
      have hba : b.unix ≤ a.unix := by
        rcases List.mem_cons.mp ha with e | h
        · rw [e]; exact Int.le_refl _
        · exact hb1 a h
      have e : a = b := hinj a (List.mem_cons_self ..) b hb (by omega)
      subst e
      congr 1
      exact ih hp.cons_inv ha2 hb2
        (fun x hx y hy => hinj x (List.mem_cons_of_mem _ hx) y (List.mem_cons_of_mem _ hy))

/-! ### `bucketsOf` -/

def cellB (q : Freq) (c : Cell) : Option GoTime := (Spec.timeOf c).map (truncate q)

theorem bucketsOf_mem {q : Freq} {d : List Cell} {bs : List GoTime} (h : bucketsOf q d = .ok bs) :
    ∀ b ∈ bs, ∃ t, Cell.time t ∈ d ∧ b = truncate q t := by
  induction d generalizing bs with
  | nil =>
    simp only [bucketsOf, Outcome.ok.injEq] at h
    subst h
    intro b hb; cases hb
  | cons c cs ih =>
    cases c with
    | time t =>
      simp only [bucketsOf] at h
      obtain ⟨r, hr, h2⟩ := Outcome.bind_eq_ok.mp h
      simp only [Outcome.pure_eq, Outcome.ok.injEq] at h2
      subst h2
      intro b hb
      rcases List.mem_cons.mp hb with e | hb
      · exact ⟨t, List.mem_cons_self .., e⟩
      · obtain ⟨t', h1, h2⟩ := ih hr b hb
        exact ⟨t', List.mem_cons_of_mem _ h1, h2⟩
    | _ => simp [bucketsOf] at h

theorem bucketsOf_ok (q : Freq) (d : List Cell) (h : ∀ c ∈ d, (Spec.timeOf c).isSome = true) :
    bucketsOf q d = .ok (d.filterMap (cellB q)) := by
  induction d with
  | nil => rfl
  | cons c cs ih =>
    have hc := h c (List.mem_cons_self ..)
    have ih' := ih (fun x hx => h x (List.mem_cons_of_mem _ hx))
    cases c with
    | time t =>
      simp only [bucketsOf, ih', Outcome.bind_ok, Outcome.pure_eq]
      rfl
    | _ => simp [Spec.timeOf] at hc

theorem bucketsOf_err (q : Freq) (d : List Cell) (h : ∃ c ∈ d, Spec.timeOf c = none) :
    ∃ e, bucketsOf q d = .err e := by
  induction d with
  | nil => obtain ⟨c, hc, _⟩ := h; cases hc
  | cons c cs ih =>
    cases c with
    | time t =>
      have : ∃ c ∈ cs, Spec.timeOf c = none := by
        obtain ⟨c, hc, hn⟩ := h
        rcases List.mem_cons.mp hc with e | hc
        · subst e; simp [Spec.timeOf] at hn
        · exact ⟨c, hc, hn⟩
      obtain ⟨e, he⟩ := ih this
      exact ⟨e, by simp only [bucketsOf, he, Outcome.bind_err]⟩
    | _ => exact ⟨_, rfl⟩

theorem filterMap_getElem? {α β : Type} (g : α → Option β) (d : List α)
    (h : ∀ c ∈ d, (g c).isSome = true) (i : Nat) : (d.filterMap g)[i]? = d[i]?.bind g := by
  induction d generalizing i with
  | nil => rfl
  | cons c cs ih =>
    have hc := h c (List.mem_cons_self ..)
    cases hg : g c with
    | none => simp [hg] at hc
    | some v =>
      rw [List.filterMap_cons_some hg]
      cases i with
      | zero => simp [hg]
      | succ j => simpa using ih (fun x hx => h x (List.mem_cons_of_mem _ hx)) j

theorem filterMap_length {α β : Type} (g : α → Option β) (d : List α)
    (h : ∀ c ∈ d, (g c).isSome = true) : (d.filterMap g).length = d.length := by
  induction d with
  | nil => rfl
  | cons c cs ih =>
    have hc := h c (List.mem_cons_self ..)
    cases hg : g c with
    | none => simp [hg] at hc
    | some v =>
      rw [List.filterMap_cons_some hg, List.length_cons, List.length_cons,
        ih (fun x hx => h x (List.mem_cons_of_mem _ hx))]

/-! ### frames: lookups, the row view -/

theorem strLt_irrefl (a : Str) : strLt a a = false := by
  induction a with
  | nil => rfl
  | cons x xs ih => simp [strLt, ih]

theorem get?_cons (kc : Str × Col) (rest : Frame) (k : Str) :
    get? (kc :: rest) k = if kc.1 == k then some kc.2 else get? rest k := by
  simp only [get?, List.find?_cons]
  cases kc.1 == k <;> simp

theorem has_eq_isSome (f : Frame) (k : Str) : f.has k = (f.get? k).isSome := by
  induction f with
  | nil => rfl
  | cons kc rest ih =>
    simp only [has, get?, List.any_cons, List.find?_cons] at ih ⊢
    cases h : kc.1 == k <;> simp [ih]

theorem get?_mem {f : Frame} {k : Str} {c : Col} (h : f.get? k = some c) : (k, c) ∈ f := by
  induction f with
  | nil => simp [get?] at h
  | cons kc rest ih =>
    rw [get?_cons] at h
    by_cases e : kc.1 == k
    · simp only [e, if_true, Option.some.injEq] at h
      have : kc = (k, c) := by
        have := eq_of_beq e
        cases kc; simp_all
      rw [this]; exact List.mem_cons_self ..
    · simp only [e] at h
      exact List.mem_cons_of_mem _ (ih h)

theorem get?_of_mem {f : Frame} (hs : f.Sorted) {k : Str} {c : Col} (h : (k, c) ∈ f) :
    f.get? k = some c := by
  induction f with
  | nil => cases h
  | cons kc rest ih =>
    obtain ⟨hs1, hs2⟩ := List.pairwise_cons.mp hs
    rw [get?_cons]
    rcases List.mem_cons.mp h with h | h
    · subst h; simp
    · have hne : (kc.1 == k) = false := by
        have hlt := hs1 _ h
        have : kc.1 ≠ k := by
          intro e
          simp only [e, strLt_irrefl] at hlt
          cases hlt
        simpa using this
      simp only [hne]
      exact ih hs2 h

theorem get?_rowMap (f : Frame) (i : Nat) (k : Str) :
    Row.get? (f.rowMap i) k = (f.get? k).map (fun c => c.data.getD i .nil) := by
  induction f with
  | nil => rfl
  | cons kc rest ih =>
    rw [get?_cons]
    simp only [rowMap, Row.get?, List.map_cons, List.find?_cons] at ih ⊢
    cases h : kc.1 == k
    · simpa using ih
    · simp

theorem getD_rowMap_of_mem {f : Frame} (hs : f.Sorted) {k : Str} {c : Col}
    (h : (k, c) ∈ f) (i : Nat) : Row.getD (f.rowMap i) k = c.data.getD i .nil := by
  rw [Row.getD, get?_rowMap, get?_of_mem hs h]; rfl

theorem map_getD_range (d : List Cell) : (List.range d.length).map (fun i => d.getD i .nil) = d := by
  apply List.ext_getElem
  · simp
  · intro j h1 h2
    simp at h1 ⊢
    rw [List.getElem?_eq_getElem (by omega)]; rfl

theorem rowsOf_eq {f : Frame} {n : Nat} (hr : f.RectN n) (hne : f ≠ []) :
    Spec.rowsOf f = (List.range n).map f.rowMap := by
  rw [Spec.rowsOf, nrows_of_rectN hr hne]

/-- the column stored under `c` is the `c`-projection of the rows -/
theorem rows_col {f : Frame} {n : Nat} (hs : f.Sorted) (hr : f.RectN n) {c : Str} {col : Col}
    (hmem : (c, col) ∈ f) : (Spec.rowsOf f).map (fun r => Row.getD r c) = col.data := by
  have hne : f ≠ [] := by intro e; rw [e] at hmem; cases hmem
  have hlen : col.data.length = n := (hr _ hmem).1
  rw [rowsOf_eq hr hne, List.map_map, ← hlen]
  conv => rhs; rw [← map_getD_range col.data]
  apply List.map_congr_left
  intro i _
  exact getD_rowMap_of_mem hs hmem i

theorem rows_filter_col {f : Frame} {n : Nat} (hs : f.Sorted) (hr : f.RectN n) {c : Str} {col : Col}
    (hmem : (c, col) ∈ f) (p : Row → Bool) :
    ((Spec.rowsOf f).filter p).map (fun r => Row.getD r c) =
      pick col.data ((List.range n).filter (fun i => p (f.rowMap i))) := by
  have hne : f ≠ [] := by intro e; rw [e] at hmem; cases hmem
  rw [rowsOf_eq hr hne, List.filter_map, List.map_map, pick]
  apply List.map_congr_left
  intro i _
  exact getD_rowMap_of_mem hs hmem i

theorem getD_map_names (names : List Str) (g : Str → Str × Cell) (hg : ∀ c, (g c).1 = c) (k : Str)
    (hk : k ∈ names) : Row.getD (names.map g) k = (g k).2 := by
  induction names with
  | nil => cases hk
  | cons c cs ih =>
    simp only [Row.getD, Row.get?, List.map_cons, List.find?_cons, hg] at ih ⊢
    by_cases e : (c == k) = true
    · have : c = k := eq_of_beq e
      subst this
      simp
    · have e' : (c == k) = false := by simpa using e
      rcases List.mem_cons.mp hk with h | h
      · subst h; simp at e
      · simp only [e']
        exact ih h

theorem ofRows_keys (f : Frame) (rows : List Row) :
    Spec.ofRows f.keys rows =
      f.map (fun kc => (kc.1, { name := kc.1, data := rows.map (fun r => Row.getD r kc.1) })) := by
  simp [Spec.ofRows, keys, List.map_map, Function.comp_def]

/-! ### the result frame -/

/-- the per-column function of `resampleWith` -/
def resCol (ω : Oracle) (k : Str) (agg : AggFn) (bs order : List GoTime) (kc : Str × Col) : Str × Col :=
  if kc.1 == k then (kc.1, { name := kc.1, data := order.map Cell.time })
  else (kc.1, { name := kc.1, data := order.map (fun b => agg.eval ω (pick kc.2.data (bucketRows bs b))) })

theorem resCol_fst (ω : Oracle) (k : Str) (agg : AggFn) (bs order : List GoTime) (kc : Str × Col) :
    (resCol ω k agg bs order kc).1 = kc.1 := by
  unfold resCol; split <;> rfl

theorem resampleWith_eq (perm : List GoTime → List GoTime) (ω : Oracle) (f : Frame) (k freq : Str)
    (agg : AggFn) :
    f.resampleWith perm ω k freq agg =
      match f.get? k with
      | none => .err "datetime column does not exist"
      | some tc =>
        match parseFreq freq with
        | none => .err "unsupported frequency"
        | some q =>
          (bucketsOf q (tc.data.take f.nrows) >>= fun bs =>
            pure (f.map (resCol ω k agg bs (sortedBuckets (perm bs.eraseDups))))) := rfl

theorem get?_map_resCol (ω : Oracle) (k : Str) (agg : AggFn) (bs order : List GoTime) (f : Frame)
    (h : f.has k = true) :
    Frame.get? (f.map (resCol ω k agg bs order)) k = some { name := k, data := order.map Cell.time } := by
  induction f with
  | nil => simp [has] at h
  | cons kc rest ih =>
    rw [List.map_cons, get?_cons, resCol_fst]
    by_cases e : (kc.1 == k) = true
    · rw [if_pos e]
      have : kc.1 = k := eq_of_beq e
      simp [resCol, this]
    · rw [if_neg e]
      apply ih
      simp only [has, List.any_cons] at h ⊢
      have e' : (kc.1 == k) = false := by simpa using e
      simpa [e'] using h

theorem resample_invalid (ω : Oracle) (f : Frame) (k freq : Str) (agg : AggFn) :
    (f.has k = false → (f.resample ω k freq agg).isErr = true) ∧
    (parseFreq freq = none → (f.resample ω k freq agg).isErr = true) := by
  constructor
  · intro h
    rw [has_eq_isSome] at h
    rw [resample, resampleWith_eq]
    cases hg : f.get? k with
    | none => rfl
    | some tc => simp [hg] at h
  · intro h
    rw [resample, resampleWith_eq, h]
    cases hg : f.get? k with
    | none => rfl
    | some tc => rfl

theorem resample_sorted (ω : Oracle) (f : Frame) (k freq : Str) (agg : AggFn) (out : Frame)
    (h : f.resample ω k freq agg = .ok out) :
    ∃ bs : List GoTime, out.get? k = some { name := k, data := bs.map Cell.time } ∧
      bs.Pairwise (fun a b => a.unix ≤ b.unix) ∧ bs.Nodup := by
  rw [resample, resampleWith_eq] at h
  cases hg : f.get? k with
  | none => simp [hg] at h
  | some tc =>
    cases hq : parseFreq freq with
    | none => simp [hg, hq] at h
    | some q =>
      simp only [hg, hq] at h
      obtain ⟨bs, hbs, h2⟩ := Outcome.bind_eq_ok.mp h
      simp only [Outcome.pure_eq, Outcome.ok.injEq, id] at h2
      subst h2
      have hk : f.has k = true := by rw [has_eq_isSome, hg]; rfl
      refine ⟨sortedBuckets bs.eraseDups, get?_map_resCol ω k agg bs _ f hk, sortedBuckets_sorted _, ?_⟩
      exact (sortedBuckets_perm _).nodup_iff.mpr (nodup_eraseDups bs)

theorem resample_order_free (ω : Oracle) (f : Frame) (k freq : Str) (agg : AggFn)
    (π₁ π₂ : List GoTime → List GoTime) (h₁ : ∀ l, (π₁ l).Perm l) (h₂ : ∀ l, (π₂ l).Perm l)
    (hinj : ∀ c, f.get? k = some c → ∀ x ∈ c.data, ∀ y ∈ c.data, ∀ s t, x = .time s → y = .time t →
      ∀ q, (truncate q s).unix = (truncate q t).unix → truncate q s = truncate q t) :
    f.resampleWith π₁ ω k freq agg = f.resampleWith π₂ ω k freq agg := by
  rw [resampleWith_eq, resampleWith_eq]
  cases hg : f.get? k with
  | none => rfl
  | some tc =>
    cases hq : parseFreq freq with
    | none => rfl
    | some q =>
      simp only []
      cases hb : bucketsOf q (tc.data.take f.nrows) with
      | err e => rfl
      | panic p => rfl
      | ok bs =>
        simp only [Outcome.bind_ok]
        have key : sortedBuckets (π₁ bs.eraseDups) = sortedBuckets (π₂ bs.eraseDups) := by
          have p1 : (sortedBuckets (π₁ bs.eraseDups)).Perm bs.eraseDups :=
            (sortedBuckets_perm _).trans (h₁ _)
          have p2 : (sortedBuckets (π₂ bs.eraseDups)).Perm bs.eraseDups :=
            (sortedBuckets_perm _).trans (h₂ _)
          apply sorted_perm_eq (p1.trans p2.symm) (sortedBuckets_sorted _) (sortedBuckets_sorted _)
          intro x hx y hy hxy
          have hx' : x ∈ bs := List.mem_eraseDups.mp (p1.mem_iff.mp hx)
          have hy' : y ∈ bs := List.mem_eraseDups.mp (p1.mem_iff.mp hy)
          obtain ⟨s, hs1, hs2⟩ := bucketsOf_mem hb x hx'
          obtain ⟨t, ht1, ht2⟩ := bucketsOf_mem hb y hy'
          subst hs2 ht2
          exact hinj tc hg _ (List.mem_of_mem_take hs1) _ (List.mem_of_mem_take ht1) s t rfl rfl q hxy
        rw [key]

/-! ### the specification -/

def specRow (ω : Oracle) (f : Frame) (k : Str) (q : Freq) (agg : AggFn) (b : GoTime) : Row :=
  f.keys.map (fun c =>
    if c == k then (c, Cell.time b)
    else (c, agg.eval ω (((Spec.rowsOf f).filter (fun r => cellB q (Row.getD r k) == some b)).map
      (fun r => Row.getD r c))))

theorem resampleSpec_eq (ω : Oracle) (f : Frame) (k freq : Str) (agg : AggFn) :
    Spec.resampleSpec ω f k freq agg =
      if !f.has k then none
      else match parseFreq freq with
        | none => none
        | some q =>
          if ((Spec.rowsOf f).map (fun r => Spec.timeOf (Row.getD r k))).any Option.isNone then none
          else some (Spec.ofRows f.keys
            ((sortedBuckets ((Spec.rowsOf f).filterMap (fun r => cellB q (Row.getD r k))).eraseDups).map
              (specRow ω f k q agg))) := rfl

theorem specRow_getD (ω : Oracle) (f : Frame) (k : Str) (q : Freq) (agg : AggFn) (b : GoTime)
    (c : Str) (hc : c ∈ f.keys) :
    Row.getD (specRow ω f k q agg b) c =
      if c == k then Cell.time b
      else agg.eval ω (((Spec.rowsOf f).filter (fun r => cellB q (Row.getD r k) == some b)).map
        (fun r => Row.getD r c)) := by
  unfold specRow
  rw [getD_map_names _ _ _ c hc]
  · split <;> rfl
  · intro c'; split <;> rfl

theorem resample_spec (ω : Oracle) {f : Frame} {n : Nat} (hs : f.Sorted) (hr : f.RectN n)
    (k freq : Str) (agg : AggFn) :
    (match Spec.resampleSpec ω f k freq agg with
     | some e => f.resample ω k freq agg = .ok e
     | none => (f.resample ω k freq agg).isErr = true) := by
  rw [resampleSpec_eq]
  cases hk : f.has k with
  | false =>
    simp only [Bool.not_false, if_true]
    exact (resample_invalid ω f k freq agg).1 hk
  | true =>
    simp only [Bool.not_true, Bool.false_eq_true, if_false]
    cases hq : parseFreq freq with
    | none =>
      simp only []
      exact (resample_invalid ω f k freq agg).2 hq
    | some q =>
      simp only []
      obtain ⟨tc, hg⟩ : ∃ tc, f.get? k = some tc := by
        rw [has_eq_isSome] at hk; exact Option.isSome_iff_exists.mp hk
      have hmem := get?_mem hg
      have hne : f ≠ [] := by intro e; rw [e] at hmem; cases hmem
      have hlen : tc.data.length = n := (hr _ hmem).1
      have hnrows : f.nrows = n := nrows_of_rectN hr hne
      have htake : tc.data.take f.nrows = tc.data := by
        rw [hnrows, ← hlen]; exact List.take_length
      have hts : (Spec.rowsOf f).map (fun r => Spec.timeOf (Row.getD r k)) = tc.data.map Spec.timeOf := by
        rw [← rows_col hs hr hmem, List.map_map]; rfl
      have hB : (Spec.rowsOf f).filterMap (fun r => cellB q (Row.getD r k)) =
          tc.data.filterMap (cellB q) := by
        rw [← rows_col hs hr hmem, List.filterMap_map]; rfl
      rw [hts, hB]
      cases hany : (tc.data.map Spec.timeOf).any Option.isNone with
      | true =>
        simp only [if_true]
        have hex : ∃ c ∈ tc.data, Spec.timeOf c = none := by
          simpa using hany
        obtain ⟨e, he⟩ := bucketsOf_err q tc.data hex
        rw [resample, resampleWith_eq, hg, hq]
        simp only [htake, he]
        rfl
      | false =>
        simp only [Bool.false_eq_true, if_false]
        have hall : ∀ c ∈ tc.data, (Spec.timeOf c).isSome = true := by
          intro c hc
          cases ht : Spec.timeOf c with
          | some t => rfl
          | none =>
            have : (tc.data.map Spec.timeOf).any Option.isNone = true := by
              simp only [List.any_map, List.any_eq_true]
              exact ⟨c, hc, by simp [ht]⟩
            rw [hany] at this; cases this
        have hallB : ∀ c ∈ tc.data, (cellB q c).isSome = true := by
          intro c hc
          simp only [cellB, Option.isSome_map]
          exact hall c hc
        rw [resample, resampleWith_eq, hg, hq]
        simp only [htake, bucketsOf_ok q tc.data hall, Outcome.bind_ok, Outcome.pure_eq, id]
        congr 1
        rw [ofRows_keys]
        apply List.map_congr_left
        intro kc hkc
        obtain ⟨c, col⟩ := kc
        have hckeys : c ∈ f.keys := List.mem_map.mpr ⟨(c, col), hkc, rfl⟩
        rw [List.map_map]
        unfold resCol
        by_cases e : (c == k) = true
        · simp only [e, if_true]
          congr 2
          apply List.map_congr_left
          intro b _
          simp only [Function.comp, specRow_getD ω f k q agg b c hckeys, e, if_true]
        · have e' : (c == k) = false := by simpa using e
          simp only [e', Bool.false_eq_true, if_false]
          congr 2
          apply List.map_congr_left
          intro b _
          simp only [Function.comp, specRow_getD ω f k q agg b c hckeys, e', Bool.false_eq_true, if_false]
          congr 1
          rw [rows_filter_col hs hr hkc, bucketRows, filterMap_length _ _ hallB, hlen]
          congr 1
          apply List.filter_congr
          intro i hi
          have hi' : i < tc.data.length := by rw [hlen]; exact List.mem_range.mp hi
          rw [filterMap_getElem? _ _ hallB, getD_rowMap_of_mem hs hmem i]
          simp [List.getElem?_eq_getElem hi', List.getD_eq_getElem?_getD]

end Goframe.ResampleLemmas
