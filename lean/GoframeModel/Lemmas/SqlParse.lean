import GoframeModel.Lemmas.SqlLex
import GoframeModel.Lemmas.SqlWrite
/-
  Lemmas about the SQL statement parser (used by Props/C11b): `splitTop` on comma-joined token lists and
  `parse` on the token streams of the three generated statement shapes.
-/
namespace Goframe.SqlParseLemmas
open Goframe Sql

/-! ### `splitTop.go`, one token at a time -/

theorem go_nil (k : Nat) (cur : List Tok) (acc : List (List Tok)) :
    splitTop.go k cur acc [] = (cur.reverse :: acc).reverse := by
  simp [splitTop.go]

theorem go_comma0 (cur : List Tok) (acc : List (List Tok)) (rest : List Tok) :
    splitTop.go 0 cur acc (.punct 44 :: rest) = splitTop.go 0 [] (cur.reverse :: acc) rest := by
  simp [splitTop.go]

theorem go_comma (k : Nat) (hk : k ≠ 0) (cur : List Tok) (acc : List (List Tok)) (rest : List Tok) :
    splitTop.go k cur acc (.punct 44 :: rest) = splitTop.go k (.punct 44 :: cur) acc rest := by
  simp [splitTop.go, hk]

theorem go_open (k : Nat) (cur : List Tok) (acc : List (List Tok)) (rest : List Tok) :
    splitTop.go k cur acc (.punct 40 :: rest) = splitTop.go (k + 1) (.punct 40 :: cur) acc rest := by
  simp [splitTop.go]

theorem go_close (k : Nat) (cur : List Tok) (acc : List (List Tok)) (rest : List Tok) :
    splitTop.go k cur acc (.punct 41 :: rest) = splitTop.go (k - 1) (.punct 41 :: cur) acc rest := by
  simp [splitTop.go]

theorem go_other (k : Nat) (cur : List Tok) (acc : List (List Tok)) (t : Tok) (rest : List Tok)
    (h1 : t ≠ .punct 44) (h2 : t ≠ .punct 40) (h3 : t ≠ .punct 41) :
    splitTop.go k cur acc (t :: rest) = splitTop.go k (t :: cur) acc rest := by
  rw [splitTop.go]
  · exact h1
  · exact h2
  · exact h3

def colOf : List Tok → Option Str
  | [.qident c] => some c
  | _ => none

def phOf : List Tok → Option Nat
  | [.ph n] => some n
  | _ => none

def defOf : List Tok → Option (Str × List Tok)
  | .qident c :: ty => some (c, ty)
  | _ => none

def rowOf : List Tok → Option (List Nat)
  | .punct 40 :: inner =>
    match inner.getLast? with
    | some (.punct 41) =>
      let phs := (splitTop inner.dropLast).filterMap phOf
      if phs.length == (splitTop inner.dropLast).length then some phs else none
    | _ => none
  | _ => none

def parseCreate (t : Str) (rest : List Tok) : Option PStmt :=
  match rest.getLast? with
  | some (.punct 41) =>
    let defs := if rest.dropLast.isEmpty then [] else splitTop rest.dropLast
    let cols := defs.filterMap defOf
    if cols.length == defs.length then some (.create t cols) else none
  | _ => none

def parseInsert (t : Str) (rest : List Tok) : Option PStmt :=
  let colToks := rest.takeWhile (fun x => x != .punct 41)
  let after := (rest.dropWhile (fun x => x != .punct 41)).drop 1
  let cols := (splitTop colToks).filterMap colOf
  match after with
  | v :: groups =>
    if isWord v [86, 65, 76, 85, 69, 83] && cols.length == (splitTop colToks).length then
      let gs := splitTop groups
      let rows := gs.filterMap rowOf
      if rows.length == gs.length then some (.insert t cols rows) else none
    else none
  | [] => none

theorem parse_drop (t : Str) : parse [.word [68, 82, 79, 80], .word [84, 65, 66, 76, 69], .qident t] = some (.drop t) := by
  rfl

theorem parse_create_shape (t : Str) (rest : List Tok) :
    parse (.word [67, 82, 69, 65, 84, 69] :: .word [84, 65, 66, 76, 69] :: .qident t :: .punct 40 :: rest) =
      parseCreate t rest := by
  rfl

theorem parse_insert_shape (t : Str) (rest : List Tok) :
    parse (.word [73, 78, 83, 69, 82, 84] :: .word [73, 78, 84, 79] :: .qident t :: .punct 40 :: rest) =
      parseInsert t rest := by
  rfl


/-! ### depth scan: no top-level comma -/

/-- the parenthesis depth after reading `x` from depth `k`; `none` if a comma is met at depth 0 -/
def scan : Nat → List Tok → Option Nat
  | k, [] => some k
  | k, t :: rest =>
    if t = .punct 44 then (if k = 0 then none else scan k rest)
    else if t = .punct 40 then scan (k + 1) rest
    else if t = .punct 41 then scan (k - 1) rest
    else scan k rest

/-- a list item: balanced from depth 0 and without a top-level comma -/
def Good (x : List Tok) : Prop := scan 0 x = some 0

theorem go_scan (x : List Tok) : ∀ (k k' : Nat) (cur : List Tok) (acc : List (List Tok)) (rest : List Tok),
    scan k x = some k' →
    splitTop.go k cur acc (x ++ rest) = splitTop.go k' (x.reverse ++ cur) acc rest := by
  induction x with
  | nil => intro k k' cur acc rest h; simp [scan] at h; subst h; simp
  | cons t x ih =>
    intro k k' cur acc rest h
    rw [scan] at h
    by_cases h1 : t = .punct 44
    · subst h1
      by_cases hk : k = 0
      · simp [hk] at h
      · simp [hk] at h
        rw [List.cons_append, go_comma k hk, ih _ _ _ _ _ h]; simp
    · by_cases h2 : t = .punct 40
      · subst h2
        simp at h
        rw [List.cons_append, go_open, ih _ _ _ _ _ h]; simp
      · by_cases h3 : t = .punct 41
        · subst h3
          simp at h
          rw [List.cons_append, go_close, ih _ _ _ _ _ h]; simp
        · simp [h1, h2, h3] at h
          rw [List.cons_append, go_other _ _ _ _ _ h1 h2 h3, ih _ _ _ _ _ h]; simp

theorem scan_append (x y : List Tok) : ∀ k, scan k (x ++ y) = (scan k x).bind (fun k' => scan k' y) := by
  induction x with
  | nil => intro k; simp [scan]
  | cons t x ih =>
    intro k
    simp only [List.cons_append, scan, ih]
    split
    · split <;> simp
    · split
      · rfl
      · split <;> rfl

/-! ### comma-joined token lists -/

theorem J_nil : tokensOf.joinToks [] = [] := rfl
theorem J_single (x : List Tok) : tokensOf.joinToks [x] = x := rfl
theorem J_cons2 (x y : List Tok) (l : List (List Tok)) :
    tokensOf.joinToks (x :: y :: l) = x ++ .punct 44 :: tokensOf.joinToks (y :: l) := rfl

theorem mem_J (ps : List (List Tok)) (t : Tok) (h : t ∈ tokensOf.joinToks ps) :
    t = .punct 44 ∨ ∃ p ∈ ps, t ∈ p := by
  induction ps with
  | nil => simp [J_nil] at h
  | cons p ps ih =>
    cases ps with
    | nil => right; exact ⟨p, by simp, by simpa [J_single] using h⟩
    | cons q qs =>
      rw [J_cons2] at h
      rcases List.mem_append.1 h with h | h
      · right; exact ⟨p, by simp, h⟩
      · rcases List.mem_cons.1 h with h | h
        · left; exact h
        · rcases ih h with h | ⟨p', hp', ht⟩
          · left; exact h
          · right; exact ⟨p', List.mem_cons_of_mem _ hp', ht⟩

theorem go_join (ps : List (List Tok)) : ∀ (p : List Tok) (acc : List (List Tok)),
    (∀ x ∈ p :: ps, Good x) →
    splitTop.go 0 [] acc (tokensOf.joinToks (p :: ps)) = acc.reverse ++ p :: ps := by
  induction ps with
  | nil =>
    intro p acc h
    have := go_scan p 0 0 [] acc [] (h p (by simp))
    rw [List.append_nil] at this
    rw [J_single, this, go_nil]; simp
  | cons q qs ih =>
    intro p acc h
    rw [J_cons2, go_scan p 0 0 [] acc _ (h p (by simp)), go_comma0,
      ih q _ (fun x hx => h x (List.mem_cons_of_mem _ hx))]
    simp

/-- splitting a comma-joined list of good items gives the items back -/
theorem splitTop_join (ps : List (List Tok)) (hne : ps ≠ []) (h : ∀ x ∈ ps, Good x) :
    splitTop (tokensOf.joinToks ps) = ps := by
  cases ps with
  | nil => exact absurd rfl hne
  | cons p ps =>
    have := go_join ps p [] h
    simpa [splitTop] using this

/-- inside parentheses commas are harmless -/
theorem scan_J_inner (k : Nat) (ps : List (List Tok)) (h : ∀ x ∈ ps, scan (k + 1) x = some (k + 1)) :
    scan (k + 1) (tokensOf.joinToks ps) = some (k + 1) := by
  induction ps with
  | nil => simp [J_nil, scan]
  | cons p ps ih =>
    cases ps with
    | nil => simpa [J_single] using h p (by simp)
    | cons q qs =>
      rw [J_cons2, scan_append, h p (by simp)]
      have := ih (fun x hx => h x (List.mem_cons_of_mem _ hx))
      simpa [scan] using this

/-- a parenthesised group of good-at-depth-1 items is good -/
theorem good_group (ps : List (List Tok)) (h : ∀ x ∈ ps, scan 1 x = some 1) :
    Good (.punct 40 :: tokensOf.joinToks ps ++ [.punct 41]) := by
  have := scan_J_inner 0 ps h
  simp only [Nat.zero_add] at this
  simp [Good, scan, scan_append, this]


theorem J_ne_nil (ps : List (List Tok)) (hne : ps ≠ []) (h : ∀ p ∈ ps, p ≠ []) : tokensOf.joinToks ps ≠ [] := by
  cases ps with
  | nil => exact absurd rfl hne
  | cons p ps =>
    cases ps with
    | nil => simpa [J_single] using h p (by simp)
    | cons q qs => rw [J_cons2]; simp

theorem filterMap_map_some {α β : Type} (l : List α) (g : α → β) (f : β → Option α)
    (h : ∀ a ∈ l, f (g a) = some a) : (l.map g).filterMap f = l := by
  induction l with
  | nil => rfl
  | cons a l ih =>
    simp [h a (by simp), ih (fun a ha => h a (by simp [ha]))]

/-! ### INSERT -/

/-- the tokens of one `( ph , ph … )` group -/
def groupOf (r : List Nat) : List Tok :=
  .punct 40 :: tokensOf.joinToks (r.map (fun n => [Tok.ph n])) ++ [.punct 41]

theorem good_groupOf (r : List Nat) : Good (groupOf r) := by
  apply good_group
  intro x hx
  obtain ⟨n, _, rfl⟩ := List.mem_map.1 hx
  simp [scan]

theorem rowOf_groupOf (r : List Nat) (hr : r ≠ []) : rowOf (groupOf r) = some r := by
  have hs : splitTop (tokensOf.joinToks (r.map (fun n => [Tok.ph n]))) = r.map (fun n => [Tok.ph n]) := by
    apply splitTop_join _ (by simpa using hr)
    intro x hx
    obtain ⟨n, _, rfl⟩ := List.mem_map.1 hx
    simp [Good, scan]
  have hf : (r.map (fun n => [Tok.ph n])).filterMap phOf = r := by
    rw [List.filterMap_map]
    have : (phOf ∘ fun n => [Tok.ph n]) = some := by funext n; simp [phOf]
    rw [this, List.filterMap_some]
  simp only [rowOf, groupOf, List.cons_append, List.getLast?_concat, List.dropLast_concat, hs, hf]
  simp

theorem isWord_values : isWord (.word [86, 65, 76, 85, 69, 83]) [86, 65, 76, 85, 69, 83] = true := by decide

theorem parseInsert_toks (t : Str) (cols : List Str) (rows : List (List Nat)) (hc : cols ≠ []) (hr : rows ≠ [])
    (hrow : ∀ r ∈ rows, r ≠ []) :
    parseInsert t (tokensOf.joinToks (cols.map (fun c => [Tok.qident c])) ++
        (.punct 41 :: .word [86, 65, 76, 85, 69, 83] :: tokensOf.joinToks (rows.map groupOf))) =
      some (.insert t cols rows) := by
  have hp : ∀ a ∈ tokensOf.joinToks (cols.map (fun c => [Tok.qident c])), (a != Tok.punct 41) = true := by
    intro a ha
    rcases mem_J _ _ ha with rfl | ⟨p, hp, hap⟩
    · decide
    · obtain ⟨c, _, rfl⟩ := List.mem_map.1 hp
      simp at hap; subst hap; simp
  have hC : splitTop (tokensOf.joinToks (cols.map (fun c => [Tok.qident c]))) = cols.map (fun c => [Tok.qident c]) := by
    apply splitTop_join _ (by simpa using hc)
    intro x hx
    obtain ⟨c, _, rfl⟩ := List.mem_map.1 hx
    simp [Good, scan]
  have hG : splitTop (tokensOf.joinToks (rows.map groupOf)) = rows.map groupOf := by
    apply splitTop_join _ (by simpa using hr)
    intro x hx
    obtain ⟨r, _, rfl⟩ := List.mem_map.1 hx
    exact good_groupOf r
  have hcols : (cols.map (fun c => [Tok.qident c])).filterMap colOf = cols := by
    rw [List.filterMap_map]
    have : (colOf ∘ fun c => [Tok.qident c]) = some := by funext c; simp [colOf]
    rw [this, List.filterMap_some]
  have hrows : (rows.map groupOf).filterMap rowOf = rows := by
    exact filterMap_map_some _ _ _ (fun r h => rowOf_groupOf r (hrow r h))
  unfold parseInsert
  simp only [List.takeWhile_append_of_pos hp, List.dropWhile_append_of_pos hp]
  simp [hC, hG, hcols, hrows, isWord_values]

/-- the placeholder numbers of a generated INSERT -/
def phRows (d : Dialect) (ncols nrows : Nat) : List (List Nat) :=
  (List.range nrows).map (fun r => (List.range ncols).map (fun c => SqlLemmas.phNum d (r * ncols + c + 1)))

theorem parse_tokensOf_insert (d : Dialect) (t : Str) (cols : List Str) (n : Nat) (hc : cols ≠ []) (hn : 0 < n) :
    parse (tokensOf d (.insert t cols n)) = some (.insert t cols (phRows d cols.length n)) := by
  have hG : (List.range n).map (fun r =>
        Tok.punct 40 :: tokensOf.joinToks ((List.range cols.length).map (fun c =>
          [Tok.ph (SqlLemmas.phNum d (r * cols.length + c + 1))])) ++ [Tok.punct 41]) =
      (phRows d cols.length n).map groupOf := by
    simp [phRows, groupOf, List.map_map, Function.comp_def]
  rw [SqlLemmas.tokensOf_insert, hG]
  simp only [List.append_assoc, List.cons_append, List.nil_append]
  rw [parse_insert_shape]
  apply parseInsert_toks _ _ _ hc
  · simp [phRows]; omega
  · intro r hr
    obtain ⟨i, _, rfl⟩ := List.mem_map.1 hr
    have : cols.length ≠ 0 := by simpa using hc
    simpa using this

/-! ### CREATE -/

theorem parseCreate_toks (t : Str) (defs : List (Str × List Tok)) (hne : defs ≠ []) (hg : ∀ c ∈ defs, Good c.2) :
    parseCreate t (tokensOf.joinToks (defs.map (fun c => Tok.qident c.1 :: c.2)) ++ [.punct 41]) =
      some (.create t defs) := by
  have hS : splitTop (tokensOf.joinToks (defs.map (fun c => Tok.qident c.1 :: c.2))) =
      defs.map (fun c => Tok.qident c.1 :: c.2) := by
    apply splitTop_join _ (by simpa using hne)
    intro x hx
    obtain ⟨c, hc, rfl⟩ := List.mem_map.1 hx
    have := hg c hc
    simpa [Good, scan] using this
  have hN : tokensOf.joinToks (defs.map (fun c => Tok.qident c.1 :: c.2)) ≠ [] := by
    apply J_ne_nil _ (by simpa using hne)
    intro x hx
    obtain ⟨c, _, rfl⟩ := List.mem_map.1 hx
    simp
  have hf : (defs.map (fun c => Tok.qident c.1 :: c.2)).filterMap defOf = defs := by
    rw [List.filterMap_map]
    have : (defOf ∘ fun c : Str × List Tok => Tok.qident c.1 :: c.2) = some := by funext c; simp [defOf]
    rw [this, List.filterMap_some]
  simp only [parseCreate, List.getLast?_concat, List.dropLast_concat]
  simp [hN, hS, hf]

theorem parse_tokensOf_create (d : Dialect) (t : Str) (cols : List (Str × Str)) (hc : cols ≠ [])
    (hg : ∀ c ∈ cols, Good (lex d c.2)) :
    parse (tokensOf d (.create t cols)) = some (.create t (cols.map (fun c => (c.1, lex d c.2)))) := by
  have hJ : cols.map (fun c => Tok.qident c.1 :: lex d c.2) =
      (cols.map (fun c => (c.1, lex d c.2))).map (fun c => Tok.qident c.1 :: c.2) := by
    simp [List.map_map, Function.comp_def]
  simp only [tokensOf, List.cons_append, List.nil_append]
  rw [parse_create_shape, hJ]
  apply parseCreate_toks _ _ (by simpa using hc)
  intro c hc'
  obtain ⟨c0, h0, rfl⟩ := List.mem_map.1 hc'
  exact hg c0 h0

/-- every type text goframe infers is plain (C13) … -/
theorem sqlTypeOf_plain (d : Dialect) (c : Cell) :
    ∀ b ∈ sqlTypeOf d c, isWordByte b = true ∨ b = 32 ∨ b = 40 ∨ b = 41 ∨ b = 44 := by
  cases d <;> cases c <;> (try rename_i x y; cases x) <;> simp only [sqlTypeOf] <;> decide

/-- … and lexes to a balanced token list without a top-level comma -/
theorem sqlTypeOf_good (d : Dialect) (c : Cell) : Good (lex d (sqlTypeOf d c)) := by
  unfold Good
  cases d <;> cases c <;> (try rename_i x y; cases x) <;> simp only [sqlTypeOf] <;> decide

end Goframe.SqlParseLemmas
