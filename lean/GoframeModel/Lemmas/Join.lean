import GoframeModel.Ops.Join
import GoframeModel.Spec.Join
import GoframeModel.Lemmas.Refine
/-
  Lemmas relating the join loops of `Ops/Join.lean` to the relational specification of
  `Spec/Join.lean`.
-/
namespace Goframe
open Frame

/-! ### `strLt` is a strict total order -/

theorem strLt_irrefl (a : Str) : strLt a a = false := by
  induction a with
  | nil => rfl
  | cons x xs ih => simp [strLt, ih]

theorem strLt_trans : ∀ {a b c : Str}, strLt a b = true → strLt b c = true → strLt a c = true
  | [], [], _, h, _ => by simp [strLt] at h
  | [], _ :: _, [], _, h => by simp [strLt] at h
  | [], _ :: _, _ :: _, _, _ => by simp [strLt]
  | _ :: _, [], _, h, _ => by simp [strLt] at h
  | _ :: _, _ :: _, [], _, h => by simp [strLt] at h
  | x :: xs, y :: ys, z :: zs, h1, h2 => by
    simp only [strLt] at h1 h2 ⊢
    have ih := @strLt_trans xs ys zs
    simp only [UInt8.lt_iff_toNat_lt] at h1 h2 ⊢
    split at h1
    · split at h2
      · rw [if_pos (by omega)]
      · split at h2
        · simp at h2
        · rw [if_pos (by omega)]
    · split at h1
      · simp at h1
      · split at h2
        · rw [if_pos (by omega)]
        · split at h2
          · simp at h2
          · rw [if_neg (by omega), if_neg (by omega)]
            exact ih h1 h2

theorem strLt_asymm {a b : Str} (h : strLt a b = true) : strLt b a = false := by
  cases hba : strLt b a with
  | false => rfl
  | true => have := strLt_trans h hba; rw [strLt_irrefl] at this; cases this

theorem strLt_total : ∀ {a b : Str}, a ≠ b → strLt a b = false → strLt b a = true
  | [], [], h, _ => absurd rfl h
  | [], _ :: _, _, h => by simp [strLt] at h
  | _ :: _, [], _, _ => by simp [strLt]
  | x :: xs, y :: ys, hne, h => by
    simp only [strLt] at h ⊢
    have ih := @strLt_total xs ys
    simp only [UInt8.lt_iff_toNat_lt] at h ⊢
    split at h
    · simp at h
    · split at h
      · rw [if_pos (by omega)]
      · have hxy : x = y := UInt8.toNat_inj.mp (by omega)
        subst hxy
        rw [if_neg (by omega)]
        simp only [if_neg (Nat.lt_irrefl _)]
        exact ih (fun e => hne (by rw [e])) h

/-- strictly sorted name list -/
def SortedNames (ns : List Str) : Prop := ns.Pairwise (fun a b => strLt a b = true)

theorem Frame.sorted_iff_keys (f : Frame) : f.Sorted ↔ SortedNames f.keys := by
  simp [Frame.Sorted, SortedNames, Frame.keys, List.pairwise_map]

namespace Spec

theorem mem_insertStr {k y : Str} {ns : List Str} : y ∈ insertStr k ns ↔ y = k ∨ y ∈ ns := by
  induction ns with
  | nil => simp [insertStr]
  | cons x xs ih =>
    simp only [insertStr]
    split
    · rename_i h
      have : k = x := by simpa using h
      subst this
      simp
    · split
      · simp
      · simp [ih]; constructor <;> (intro h; rcases h with h | h | h <;> simp [h])

theorem insertStr_of_mem {k : Str} {ns : List Str} (hs : SortedNames ns) (hk : k ∈ ns) :
    insertStr k ns = ns := by
  induction ns with
  | nil => cases hk
  | cons x xs ih =>
    simp only [insertStr]
    split
    · rfl
    · rename_i hne
      have hne' : k ≠ x := by simpa using hne
      have hk' : k ∈ xs := by
        rcases List.mem_cons.mp hk with h | h
        · exact absurd h hne'
        · exact h
      have hs' := List.pairwise_cons.mp hs
      have hlt : strLt x k = true := hs'.1 k hk'
      rw [if_neg (by rw [strLt_asymm hlt]; simp), ih hs'.2 hk']

theorem sorted_insertStr {k : Str} {ns : List Str} (hs : SortedNames ns) :
    SortedNames (insertStr k ns) := by
  induction ns with
  | nil => simp [insertStr, SortedNames]
  | cons x xs ih =>
    have hs' := List.pairwise_cons.mp hs
    simp only [insertStr]
    split
    · exact hs
    · rename_i hne
      have hne' : k ≠ x := by simpa using hne
      split
      · rename_i hlt
        refine List.pairwise_cons.mpr ⟨?_, hs⟩
        intro y hy
        rcases List.mem_cons.mp hy with h | h
        · rw [h]; exact hlt
        · exact strLt_trans hlt (hs'.1 y h)
      · rename_i hnlt
        refine List.pairwise_cons.mpr ⟨?_, ih hs'.2⟩
        intro y hy
        rcases mem_insertStr.mp hy with h | h
        · rw [h]; exact strLt_total hne' (by simpa using hnlt)
        · exact hs'.1 y h

theorem sorted_foldl_insertStr (ks : List Str) {ns : List Str} (hs : SortedNames ns) :
    SortedNames (ks.foldl (fun acc k => insertStr k acc) ns) := by
  induction ks generalizing ns with
  | nil => exact hs
  | cons k ks ih => exact ih (sorted_insertStr hs)

theorem mem_foldl_insertStr {y : Str} (ks : List Str) {ns : List Str} :
    y ∈ ks.foldl (fun acc k => insertStr k acc) ns ↔ y ∈ ns ∨ y ∈ ks := by
  induction ks generalizing ns with
  | nil => simp
  | cons k ks ih =>
    simp only [List.foldl_cons, ih, mem_insertStr, List.mem_cons]
    grind

theorem mem_sortedUnion {y : Str} {a b : List Str} : y ∈ sortedUnion a b ↔ y ∈ a ∨ y ∈ b :=
  mem_foldl_insertStr b

end Spec

/-! ### rows: `get?`, `set`, `has`, `mergeRows` vs `merge` -/

namespace Row

theorem get?_nil (k : Str) : Row.get? [] k = none := rfl

theorem get?_cons (k' : Str) (c : Cell) (m : Row) (k : Str) :
    Row.get? ((k', c) :: m) k = if k' = k then some c else Row.get? m k := by
  simp only [Row.get?, List.find?_cons]
  by_cases h : k' = k
  · simp [h]
  · have hb : (k' == k) = false := by simpa using h
    simp [h, hb]

theorem has_eq_isSome (m : Row) (k : Str) : Row.has m k = (Row.get? m k).isSome := by
  induction m with
  | nil => rfl
  | cons kv m ih =>
    obtain ⟨k', c⟩ := kv
    rw [get?_cons]
    simp only [Row.has, List.any_cons] at ih ⊢
    by_cases h : k' = k <;> simp [h, ih]

theorem get?_set (m : Row) (k : Str) (c : Cell) (k' : Str) :
    Row.get? (Row.set m k c) k' = if k = k' then some c else Row.get? m k' := by
  induction m with
  | nil => simp [Row.set, get?_cons, get?_nil]
  | cons kv m ih =>
    obtain ⟨k0, c0⟩ := kv
    simp only [Row.set]
    split
    · rename_i h
      have : k = k0 := by simpa using h
      subst this
      simp only [get?_cons]
      split <;> rfl
    · rename_i hne
      have hne' : k ≠ k0 := by simpa using hne
      split
      · simp only [get?_cons]
      · simp only [get?_cons, ih]
        by_cases h1 : k0 = k' <;> by_cases h2 : k = k' <;> simp [h1, h2]
        exact absurd (h2.trans h1.symm) hne'

theorem mem_set {m : Row} {k : Str} {c : Cell} {kv : Str × Cell} (h : kv ∈ Row.set m k c) :
    kv.1 = k ∨ kv ∈ m := by
  induction m with
  | nil => simp [Row.set] at h; left; rw [h]
  | cons kv0 m ih =>
    obtain ⟨k0, c0⟩ := kv0
    simp only [Row.set] at h
    split at h
    · rcases List.mem_cons.mp h with h | h
      · left; rw [h]
      · right; exact List.mem_cons_of_mem _ h
    · split at h
      · rcases List.mem_cons.mp h with h | h
        · left; rw [h]
        · right; exact h
      · rcases List.mem_cons.mp h with h | h
        · right; rw [h]; exact List.mem_cons_self ..
        · rcases ih h with h | h
          · left; exact h
          · right; exact List.mem_cons_of_mem _ h

theorem get?_append (a b : Row) (k : Str) :
    Row.get? (a ++ b) k = (Row.get? a k).or (Row.get? b k) := by
  induction a with
  | nil => simp [get?_nil]
  | cons kv a ih =>
    obtain ⟨k0, c0⟩ := kv
    simp only [List.cons_append, get?_cons, ih]
    split <;> simp

theorem get?_filter_not_has (a b : Row) (k : Str) :
    Row.get? (b.filter (fun kv => !Row.has a kv.1)) k = if Row.has a k then none else Row.get? b k := by
  induction b with
  | nil => simp [get?_nil]
  | cons kv b ih =>
    obtain ⟨k0, c0⟩ := kv
    simp only [List.filter_cons]
    by_cases h0 : Row.has a k0 = true
    · simp only [h0, Bool.not_true, Bool.false_eq_true, if_false, ih, get?_cons]
      by_cases hk : k0 = k
      · subst hk; simp [h0]
      · simp [hk]
    · simp only [h0, Bool.not_false, if_true, get?_cons, ih]
      by_cases hk : k0 = k
      · subst hk; simp [h0]
      · simp [hk]

end Row

theorem Spec.get?_merge (a b : Row) (k : Str) :
    Row.get? (Spec.merge a b) k = (Row.get? a k).or (Row.get? b k) := by
  rw [Spec.merge, Row.get?_append, Row.get?_filter_not_has, Row.has_eq_isSome]
  cases h : Row.get? a k <;> simp

theorem Frame.get?_mergeRows (a b : Row) (k : Str) :
    Row.get? (mergeRows a b) k = (Row.get? a k).or (Row.get? b k) := by
  induction b generalizing a with
  | nil => simp [mergeRows, Row.get?_nil]
  | cons kv b ih =>
    obtain ⟨k0, c0⟩ := kv
    have hstep : mergeRows a ((k0, c0) :: b)
        = mergeRows (if Row.has a k0 then a else Row.set a k0 c0) b := rfl
    rw [hstep, ih, Row.get?_cons]
    by_cases h0 : Row.has a k0 = true
    · simp only [h0, if_true]
      by_cases hk : k0 = k
      · subst hk
        rw [Row.has_eq_isSome] at h0
        cases h : Row.get? a k0 <;> simp [h] at h0 ⊢
      · simp [hk]
    · simp only [h0, Bool.false_eq_true, if_false, Row.get?_set]
      by_cases hk : k0 = k
      · subst hk
        rw [Row.has_eq_isSome] at h0
        cases h : Row.get? a k0 <;> simp [h] at h0 ⊢
      · simp [hk]

theorem Frame.getD_mergeRows (a b : Row) (k : Str) :
    Row.getD (mergeRows a b) k = Row.getD (Spec.merge a b) k := by
  simp only [Row.getD, Frame.get?_mergeRows, Spec.get?_merge]

/-- all keys of the row are among `names` -/
def RowIn (names : List Str) (x : Row) : Prop := ∀ kv ∈ x, kv.1 ∈ names

theorem Frame.mem_mergeRows {a b : Row} {kv : Str × Cell} (h : kv ∈ mergeRows a b) :
    (∃ kv' ∈ a, kv'.1 = kv.1) ∨ (∃ kv' ∈ b, kv'.1 = kv.1) := by
  induction b generalizing a with
  | nil => left; exact ⟨kv, h, rfl⟩
  | cons kv0 b ih =>
    have hstep : mergeRows a (kv0 :: b)
        = mergeRows (if Row.has a kv0.1 then a else Row.set a kv0.1 kv0.2) b := rfl
    rw [hstep] at h
    rcases ih h with ⟨kv', h1, h2⟩ | ⟨kv', h1, h2⟩
    · split at h1
      · left; exact ⟨kv', h1, h2⟩
      · rcases Row.mem_set h1 with h3 | h3
        · right; exact ⟨kv0, List.mem_cons_self .., by rw [← h3, h2]⟩
        · left; exact ⟨kv', h3, h2⟩
    · right; exact ⟨kv', List.mem_cons_of_mem _ h1, h2⟩

theorem RowIn.mergeRows {names : List Str} {a b : Row} (ha : RowIn names a) (hb : RowIn names b) :
    RowIn names (mergeRows a b) := by
  intro kv h
  rcases Frame.mem_mergeRows h with ⟨kv', h1, h2⟩ | ⟨kv', h1, h2⟩
  · rw [← h2]; exact ha kv' h1
  · rw [← h2]; exact hb kv' h1

theorem RowIn.rowMap {names : List Str} {f : Frame} (h : ∀ k ∈ f.keys, k ∈ names) (i : Nat) :
    RowIn names (f.rowMap i) := by
  intro kv hkv
  simp only [Frame.rowMap, List.mem_map] at hkv
  obtain ⟨kc, hkc, rfl⟩ := hkv
  exact h _ (List.mem_map.mpr ⟨kc, hkc, rfl⟩)

/-! ### `ofRows` against the column representation -/

namespace Spec

theorem has_ofRows (ns : List Str) (rs : List Row) (k : Str) :
    (ofRows ns rs).has k = true ↔ k ∈ ns := by
  simp [Frame.has, ofRows]

theorem keys_ofRows (ns : List Str) (rs : List Row) : (ofRows ns rs).keys = ns := by
  simp [Frame.keys, ofRows, List.map_map, Function.comp_def]

theorem rectN_ofRows (ns : List Str) (rs : List Row) : (ofRows ns rs).RectN rs.length := by
  intro kc h
  simp only [ofRows, List.mem_map] at h
  obtain ⟨k, _, rfl⟩ := h
  simp

theorem set_ofRows_nil (k : Str) (ns : List Str) :
    Frame.set (ofRows ns []) k { name := k, data := [] } = ofRows (insertStr k ns) [] := by
  induction ns with
  | nil => simp [ofRows, Frame.set, insertStr]
  | cons x xs ih =>
    have hc : ofRows (x :: xs) [] = (x, { name := x, data := [] }) :: ofRows xs [] := by
      simp [ofRows]
    rw [hc]
    simp only [Frame.set, insertStr]
    split
    · rename_i h
      have : k = x := by simpa using h
      subst this
      simp [ofRows]
    · split
      · simp [ofRows]
      · rw [ih]; simp [ofRows]

theorem emptyLike_eq (l : Frame) : Frame.emptyLike l = ofRows l.keys [] := by
  simp [Frame.emptyLike, ofRows, Frame.keys, List.map_map, Function.comp_def]

theorem unionEmpty_fold (r : Frame) {ns : List Str} (hs : SortedNames ns) :
    r.foldl (fun acc kc => if acc.has kc.1 then acc else acc.set kc.1 { name := kc.1, data := [] })
        (ofRows ns [])
      = ofRows (r.keys.foldl (fun acc k => insertStr k acc) ns) [] := by
  induction r generalizing ns with
  | nil => rfl
  | cons kc r ih =>
    simp only [List.foldl_cons, Frame.keys, List.map_cons]
    by_cases h : (ofRows ns []).has kc.1 = true
    · rw [if_pos h, insertStr_of_mem hs ((has_ofRows ..).mp h)]
      exact ih hs
    · rw [if_neg h, set_ofRows_nil]
      exact ih (sorted_insertStr hs)

theorem unionEmpty_eq {l : Frame} (r : Frame) (hl : l.Sorted) :
    Frame.unionEmpty l r = ofRows (sortedUnion l.keys r.keys) [] := by
  rw [Frame.unionEmpty, emptyLike_eq, unionEmpty_fold r ((Frame.sorted_iff_keys l).mp hl)]
  rfl

theorem addMissing_of_has (f : Frame) (n : Nat) (x : Row) (h : ∀ kv ∈ x, f.has kv.1 = true) :
    Frame.addMissing f n x = f := by
  induction x with
  | nil => rfl
  | cons kv x ih =>
    obtain ⟨k, c⟩ := kv
    simp only [Frame.addMissing]
    rw [if_pos (h (k, c) (List.mem_cons_self ..))]
    exact ih (fun kv hkv => h kv (List.mem_cons_of_mem _ hkv))

theorem appendRow_ofRows {ns : List Str} (rs : List Row) {x : Row} (h : RowIn ns x) :
    Frame.appendRow (ofRows ns rs) x = ofRows ns (rs ++ [x]) := by
  rw [Frame.appendRow, addMissing_of_has _ _ _ (fun kv hkv => (has_ofRows ..).mpr (h kv hkv))]
  simp [ofRows, List.map_map, Function.comp_def]

theorem appendRow_mergeRows {ns : List Str} (rs : List Row) {a b : Row}
    (ha : RowIn ns a) (hb : RowIn ns b) :
    Frame.appendRow (ofRows ns rs) (Frame.mergeRows a b) = ofRows ns (rs ++ [merge a b]) := by
  rw [appendRow_ofRows rs (RowIn.mergeRows ha hb)]
  simp [ofRows, Frame.getD_mergeRows]

/-! ### the loops -/

theorem matchInto_ofRows {ns : List Str} (k : Str) {a : Row} (ha : RowIn ns a) :
    ∀ (bs : List Row) (_ : ∀ b ∈ bs, RowIn ns b) (acc : List Row),
      Frame.matchInto k a (ofRows ns acc) bs
        = (ofRows ns (acc ++ (bs.filter (keyEq k a)).map (merge a)),
            !(bs.filter (keyEq k a)).isEmpty)
  | [], _, acc => by simp [Frame.matchInto]
  | b :: bs, hbs, acc => by
    have ih := matchInto_ofRows k ha bs (fun b' hb' => hbs b' (List.mem_cons_of_mem _ hb'))
    have hb := hbs b (List.mem_cons_self ..)
    by_cases h : keyEq k a b = true
    · have h' : (Row.getD a k).goEq (Row.getD b k) = true := h
      simp only [Frame.matchInto, h', if_true, appendRow_mergeRows acc ha hb, ih,
        List.filter_cons, h, List.map_cons, List.isEmpty_cons, Bool.not_false,
        List.append_assoc, List.singleton_append]
    · have h' : ¬ (Row.getD a k).goEq (Row.getD b k) = true := h
      simp only [Frame.matchInto, h', ih, List.filter_cons, h]
      simp

theorem innerLoop_ofRows {ns : List Str} (k : Str) {rs : List Row} (hrs : ∀ b ∈ rs, RowIn ns b) :
    ∀ (as : List Row) (_ : ∀ a ∈ as, RowIn ns a) (acc : List Row),
      Frame.innerLoop k rs (ofRows ns acc) as = ofRows ns (acc ++ innerRows as rs k)
  | [], _, acc => by simp [Frame.innerLoop, innerRows]
  | a :: as, has, acc => by
    have ih := innerLoop_ofRows k hrs as (fun a' ha' => has a' (List.mem_cons_of_mem _ ha'))
    have ha := has a (List.mem_cons_self ..)
    simp only [Frame.innerLoop, matchInto_ofRows k ha rs hrs, ih, innerRows, List.flatMap_cons,
      List.append_assoc]

theorem leftLoop_ofRows {ns : List Str} (k : Str) {rs : List Row} (hrs : ∀ b ∈ rs, RowIn ns b) :
    ∀ (as : List Row) (_ : ∀ a ∈ as, RowIn ns a) (acc : List Row),
      Frame.leftLoop k rs (ofRows ns acc) as = ofRows ns (acc ++ leftRows as rs k)
  | [], _, acc => by simp [Frame.leftLoop, leftRows]
  | a :: as, has, acc => by
    have ih := leftLoop_ofRows k hrs as (fun a' ha' => has a' (List.mem_cons_of_mem _ ha'))
    have ha := has a (List.mem_cons_self ..)
    simp only [Frame.leftLoop, matchInto_ofRows k ha rs hrs, leftRows, List.flatMap_cons]
    cases hE : (rs.filter (keyEq k a)).isEmpty
    · simp only [Bool.not_false, if_true, Bool.false_eq_true, if_false, ih, leftRows,
        List.append_assoc]
    · have hnil : rs.filter (keyEq k a) = [] := List.isEmpty_iff.mp hE
      simp only [Bool.not_true, Bool.false_eq_true, if_false, if_true, hnil, List.map_nil,
        List.append_nil, appendRow_ofRows acc ha, ih, leftRows, List.append_assoc,
        List.singleton_append]

theorem matchIntoR_ofRows {ns : List Str} (k : Str) {b : Row} (hb : RowIn ns b) :
    ∀ (as : List Row) (_ : ∀ a ∈ as, RowIn ns a) (acc : List Row),
      Frame.matchIntoR k b (ofRows ns acc) as
        = (ofRows ns (acc ++ (as.filter (fun a => keyEq k b a)).map (fun a => merge a b)),
            !(as.filter (fun a => keyEq k b a)).isEmpty)
  | [], _, acc => by simp [Frame.matchIntoR]
  | a :: as, has, acc => by
    have ih := matchIntoR_ofRows k hb as (fun a' ha' => has a' (List.mem_cons_of_mem _ ha'))
    have ha := has a (List.mem_cons_self ..)
    by_cases h : keyEq k b a = true
    · have h' : (Row.getD b k).goEq (Row.getD a k) = true := h
      simp only [Frame.matchIntoR, h', if_true, appendRow_mergeRows acc ha hb, ih,
        List.filter_cons, h, List.map_cons, List.isEmpty_cons, Bool.not_false,
        List.append_assoc, List.singleton_append]
    · have h' : ¬ (Row.getD b k).goEq (Row.getD a k) = true := h
      simp only [Frame.matchIntoR, h', ih, List.filter_cons, h]
      simp

theorem rightLoop_ofRows {ns : List Str} (k : Str) {ls : List Row} (hls : ∀ a ∈ ls, RowIn ns a) :
    ∀ (bs : List Row) (_ : ∀ b ∈ bs, RowIn ns b) (acc : List Row),
      Frame.rightLoop k ls (ofRows ns acc) bs = ofRows ns (acc ++ rightRows ls bs k)
  | [], _, acc => by simp [Frame.rightLoop, rightRows]
  | b :: bs, hbs, acc => by
    have ih := rightLoop_ofRows k hls bs (fun b' hb' => hbs b' (List.mem_cons_of_mem _ hb'))
    have hb := hbs b (List.mem_cons_self ..)
    simp only [Frame.rightLoop, matchIntoR_ofRows k hb ls hls, rightRows, List.flatMap_cons]
    cases hE : (ls.filter (fun a => keyEq k b a)).isEmpty
    · simp only [Bool.not_false, if_true, Bool.false_eq_true, if_false, ih, rightRows,
        List.append_assoc]
    · have hnil : ls.filter (fun a => keyEq k b a) = [] := List.isEmpty_iff.mp hE
      simp only [Bool.not_true, Bool.false_eq_true, if_false, if_true, hnil, List.map_nil,
        List.append_nil, appendRow_ofRows acc hb, ih, rightRows, List.append_assoc,
        List.singleton_append]

/-- the matched-key list `OuterJoin` has collected after scanning the left rows `as` -/
def seenOf (k : Str) (rs as : List Row) (seen : List Cell) : List Cell :=
  ((as.filter (fun a => !(rs.filter (keyEq k a)).isEmpty)).map (fun a => Row.getD a k)).reverse ++ seen

theorem outerLoop_ofRows {ns : List Str} (k : Str) {rs : List Row} (hrs : ∀ b ∈ rs, RowIn ns b) :
    ∀ (as : List Row) (_ : ∀ a ∈ as, RowIn ns a) (acc : List Row) (seen : List Cell),
      Frame.outerLoop k rs (ofRows ns acc) seen as
        = (ofRows ns (acc ++ leftRows as rs k), seenOf k rs as seen)
  | [], _, acc, seen => by simp [Frame.outerLoop, leftRows, seenOf]
  | a :: as, has, acc, seen => by
    have ih := outerLoop_ofRows k hrs as (fun a' ha' => has a' (List.mem_cons_of_mem _ ha'))
    have ha := has a (List.mem_cons_self ..)
    simp only [Frame.outerLoop, matchInto_ofRows k ha rs hrs, leftRows, List.flatMap_cons, seenOf,
      List.filter_cons]
    cases hE : (rs.filter (keyEq k a)).isEmpty
    · simp only [Bool.not_false, if_true, Bool.false_eq_true, if_false, ih, leftRows, seenOf,
        List.append_assoc, List.map_cons, List.reverse_cons, List.singleton_append]
    · have hnil : rs.filter (keyEq k a) = [] := List.isEmpty_iff.mp hE
      simp only [Bool.not_true, Bool.false_eq_true, if_false, if_true, hnil, List.map_nil,
        List.append_nil, appendRow_ofRows acc ha, ih, leftRows, seenOf, List.append_assoc,
        List.singleton_append]

theorem outerTail_ofRows {ns : List Str} (k : Str) (seen : List Cell) :
    ∀ (bs : List Row) (_ : ∀ b ∈ bs, RowIn ns b) (acc : List Row),
      Frame.outerTail k seen (ofRows ns acc) bs
        = ofRows ns (acc ++ bs.filter (fun b => !seen.any (fun s => s.goEq (Row.getD b k))))
  | [], _, acc => by simp [Frame.outerTail]
  | b :: bs, hbs, acc => by
    have ih := outerTail_ofRows k seen bs (fun b' hb' => hbs b' (List.mem_cons_of_mem _ hb'))
    have hb := hbs b (List.mem_cons_self ..)
    simp only [Frame.outerTail, List.filter_cons]
    cases hS : seen.any (fun s => s.goEq (Row.getD b k))
    · simp only [Bool.false_eq_true, if_false, Bool.not_false, if_true, appendRow_ofRows acc hb, ih,
        List.append_assoc, List.singleton_append]
    · simp only [if_true, Bool.not_true, Bool.false_eq_true, if_false, ih]

/-- a right row's key is in the matched-key list iff some left row matches it
(a left row matching `b ∈ rs` is a matched left row, `b` itself being a witness) -/
theorem seenOf_any (k : Str) (rs as : List Row) {b : Row} (hb : b ∈ rs) :
    (seenOf k rs as []).any (fun s => s.goEq (Row.getD b k)) = as.any (fun a => keyEq k a b) := by
  rw [Bool.eq_iff_iff]
  simp only [seenOf, List.append_nil, List.any_eq_true, List.mem_reverse, List.mem_map,
    List.mem_filter]
  constructor
  · rintro ⟨s, ⟨a, ⟨ha, _⟩, rfl⟩, hs⟩
    exact ⟨a, ha, hs⟩
  · rintro ⟨a, ha, hab⟩
    refine ⟨_, ⟨a, ⟨ha, ?_⟩, rfl⟩, hab⟩
    have : b ∈ rs.filter (keyEq k a) := List.mem_filter.mpr ⟨hb, hab⟩
    cases hf : rs.filter (keyEq k a) with
    | nil => rw [hf] at this; cases this
    | cons _ _ => rfl

/-! ### top level -/

theorem rowIn_rowsOf_left (l r : Frame) : ∀ a ∈ rowsOf l, RowIn (sortedUnion l.keys r.keys) a := by
  intro a ha
  simp only [rowsOf, List.mem_map] at ha
  obtain ⟨i, _, rfl⟩ := ha
  exact RowIn.rowMap (fun k hk => mem_sortedUnion.mpr (Or.inl hk)) i

theorem rowIn_rowsOf_right (l r : Frame) : ∀ b ∈ rowsOf r, RowIn (sortedUnion l.keys r.keys) b := by
  intro b hb
  simp only [rowsOf, List.mem_map] at hb
  obtain ⟨i, _, rfl⟩ := hb
  exact RowIn.rowMap (fun k hk => mem_sortedUnion.mpr (Or.inr hk)) i

theorem allRows_eq (f : Frame) : Frame.allRows f = rowsOf f := rfl

theorem checkExists_ok {l r : Frame} {k : Str} (hkl : l.has k = true) (hkr : r.has k = true) :
    Frame.checkExists l r k = .ok () := by
  simp [Frame.checkExists, hkl, hkr]

theorem checkExists_err {l r : Frame} {k : Str} (h : l.has k = false ∨ r.has k = false) :
    ∃ e, Frame.checkExists l r k = .err e := by
  unfold Frame.checkExists
  cases hl : l.has k
  · exact ⟨_, rfl⟩
  · cases hr : r.has k
    · exact ⟨_, rfl⟩
    · rcases h with h | h
      · rw [hl] at h; cases h
      · rw [hr] at h; cases h

theorem innerJoin_eq {l r : Frame} (hl : l.Sorted) (k : Str)
    (hkl : l.has k = true) (hkr : r.has k = true) :
    l.innerJoin r k = .ok (ofRows (sortedUnion l.keys r.keys) (innerRows (rowsOf l) (rowsOf r) k)) := by
  simp only [Frame.innerJoin, checkExists_ok hkl hkr, Outcome.bind_ok, Outcome.pure_eq, allRows_eq,
    unionEmpty_eq r hl]
  rw [innerLoop_ofRows k (rowIn_rowsOf_right l r) _ (rowIn_rowsOf_left l r)]
  simp

theorem leftJoin_eq {l r : Frame} (hl : l.Sorted) (k : Str)
    (hkl : l.has k = true) (hkr : r.has k = true) :
    l.leftJoin r k = .ok (ofRows (sortedUnion l.keys r.keys) (leftRows (rowsOf l) (rowsOf r) k)) := by
  simp only [Frame.leftJoin, checkExists_ok hkl hkr, Outcome.bind_ok, Outcome.pure_eq, allRows_eq,
    unionEmpty_eq r hl]
  rw [leftLoop_ofRows k (rowIn_rowsOf_right l r) _ (rowIn_rowsOf_left l r)]
  simp

theorem rightJoin_eq {l r : Frame} (hl : l.Sorted) (k : Str)
    (hkl : l.has k = true) (hkr : r.has k = true) :
    l.rightJoin r k = .ok (ofRows (sortedUnion l.keys r.keys) (rightRows (rowsOf l) (rowsOf r) k)) := by
  simp only [Frame.rightJoin, checkExists_ok hkl hkr, Outcome.bind_ok, Outcome.pure_eq, allRows_eq,
    unionEmpty_eq r hl]
  rw [rightLoop_ofRows k (rowIn_rowsOf_left l r) _ (rowIn_rowsOf_right l r)]
  simp

theorem outerJoin_eq {l r : Frame} (hl : l.Sorted) (k : Str)
    (hkl : l.has k = true) (hkr : r.has k = true) :
    l.outerJoin r k = .ok (ofRows (sortedUnion l.keys r.keys) (outerRows (rowsOf l) (rowsOf r) k)) := by
  simp only [Frame.outerJoin, checkExists_ok hkl hkr, Outcome.bind_ok, Outcome.pure_eq, allRows_eq,
    unionEmpty_eq r hl]
  rw [outerLoop_ofRows k (rowIn_rowsOf_right l r) _ (rowIn_rowsOf_left l r)]
  simp only [outerTail_ofRows k _ _ (rowIn_rowsOf_right l r), List.nil_append, outerRows]
  congr 3
  apply List.filter_congr
  intro b hb
  rw [seenOf_any k _ _ hb]

end Spec

end Goframe
