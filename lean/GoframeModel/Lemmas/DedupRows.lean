import GoframeModel.Lemmas.Dedup
/- helper lemmas for `C07.dedup_rows_whole` (RefineD + Dedup family) -/
namespace Goframe.DedupRows
open Goframe Frame

/-- the specification's survivors are rows of the input list -/
theorem dedupRows_subset (cs : List Str) (kp : Frame.Keep) (rs : List Row) :
    ∀ r ∈ Spec.dedupRows cs kp rs, r ∈ rs := by
  intro r hr
  unfold Spec.dedupRows at hr
  obtain ⟨ri, hri, rfl⟩ := List.mem_map.1 hr
  have hz := (List.mem_filter.1 hri).1
  obtain ⟨a, i⟩ := ri
  exact (List.mem_zipIdx hz).2.2 ▸ List.getElem_mem _

/-- a list of rows of `f` is the list of `f.rowMap i` for some in-range positions `i` -/
theorem exists_idx {f : Frame} (rs : List Row) (h : ∀ r ∈ rs, r ∈ Spec.rowsOf f) :
    ∃ idx : List Nat, (∀ i ∈ idx, i < f.nrows) ∧ rs = idx.map f.rowMap := by
  induction rs with
  | nil => exact ⟨[], by simp, rfl⟩
  | cons r rs ih =>
    obtain ⟨idx, h1, h2⟩ := ih (fun r hr => h r (List.mem_cons_of_mem _ hr))
    have hr := h r (List.mem_cons_self ..)
    simp only [Spec.rowsOf, List.mem_map, List.mem_range] at hr
    obtain ⟨i, hi, rfl⟩ := hr
    refine ⟨i :: idx, ?_, by simp [h2]⟩
    intro j hj
    rcases List.mem_cons.mp hj with rfl | hj
    · exact hi
    · exact h1 j hj

/-- the frame of the rows at positions `idx` -/
def pickF (f : Frame) (idx : List Nat) : Frame :=
  f.map (fun kc => (kc.1, { name := kc.1, data := pick kc.2.data idx }))

theorem pickF_keys (f : Frame) (idx : List Nat) : (pickF f idx).keys = f.keys := by
  simp [pickF, keys, List.map_map, Function.comp_def]

theorem pickF_nrows {f : Frame} (hne : f ≠ []) (idx : List Nat) : (pickF f idx).nrows = idx.length := by
  cases f with
  | nil => exact absurd rfl hne
  | cons kc rest => simp [pickF, nrows, pick]

theorem rowCells_pickF (f : Frame) (idx : List Nat) (j : Nat) (hj : j < idx.length) :
    (pickF f idx).rowCells j = f.rowCells idx[j] := by
  simp only [rowCells, pickF, pick, List.map_map, Function.comp_def]
  apply List.map_congr_left
  intro kc _
  simp [List.getD_eq_getElem?_getD, hj]

theorem mem_rows {f : Frame} {i : Nat} (hi : i < f.nrows) : f.rowCells i ∈ f.rows := by
  simp only [rows, List.mem_map, List.mem_range]
  exact ⟨i, hi, rfl⟩

theorem pickF_rows_mem {f : Frame} (idx : List Nat) (h : ∀ i ∈ idx, i < f.nrows) :
    ∀ r ∈ (pickF f idx).rows, r ∈ f.rows := by
  by_cases hne : f = []
  · subst hne
    intro r hr
    simp [pickF, rows, nrows] at hr
  · intro r hr
    simp only [rows, pickF_nrows hne, List.mem_map, List.mem_range] at hr
    obtain ⟨j, hj, rfl⟩ := hr
    rw [rowCells_pickF f idx j hj]
    exact mem_rows (h _ (List.getElem_mem hj))

/-- rebuilding a sorted frame from any list of its own rows keeps the columns and yields only rows of it -/
theorem ofRows_rows_whole {f : Frame} (hs : f.Sorted) (rs : List Row) (h : ∀ r ∈ rs, r ∈ Spec.rowsOf f) :
    (Spec.ofRows f.keys rs).keys = f.keys ∧ ∀ r ∈ (Spec.ofRows f.keys rs).rows, r ∈ f.rows := by
  obtain ⟨idx, hidx, rfl⟩ := exists_idx rs h
  rw [Spec.ofRows_pick hs idx]
  exact ⟨pickF_keys f idx, pickF_rows_mem idx hidx⟩

/-- a defined expected result is the frame of the specification's survivors -/
theorem dedupSpec_some {f : Frame} {subset : List Str} {keep : Str} {e : Frame}
    (he : Spec.dedupSpec f subset keep = some e) :
    ∃ cs kp, e = Spec.ofRows f.keys (Spec.dedupRows cs kp (Spec.rowsOf f)) := by
  unfold Spec.dedupSpec at he
  generalize (if subset.isEmpty then f.keys else subset) = cs at he
  cases hp : parseKeep keep with
  | none => rw [hp] at he; simp at he
  | some kp =>
    rw [hp] at he
    simp only at he
    split at he
    · exact absurd he (by simp)
    · injection he with he
      exact ⟨cs, kp, he.symm⟩

end Goframe.DedupRows
