import GoframeModel.Ops.Select
import GoframeModel.Spec.Table
/-
  Refinement lemmas shared by the property files: how the row view (`Spec.rowsOf`, `Spec.ofRows`)
  relates to the column representation of the model.
-/
namespace Goframe
open Frame

namespace Frame

theorem has_eq_isSome_get? (f : Frame) (k : Str) : f.has k = (f.get? k).isSome := by
  induction f with
  | nil => rfl
  | cons kc rest ih =>
    simp only [has, get?, List.any_cons, List.find?_cons] at *
    cases h : (kc.1 == k) <;> simp [ih]

theorem get?_set_self (f : Frame) (k : Str) (c : Col) : (f.set k c).get? k = some c := by
  induction f with
  | nil => simp [set, get?]
  | cons kc rest ih =>
    obtain ⟨k', c'⟩ := kc
    simp only [set]
    split
    · simp [get?]
    · split
      · simp [get?]
      · rename_i h1 _
        have hne : ¬ (k' = k) := by
          intro h; subst h; simp at h1
        simp only [get?] at ih ⊢
        simp [hne, ih]

theorem get?_set_ne (f : Frame) (k k' : Str) (c : Col) (hne : k' ≠ k) :
    (f.set k c).get? k' = f.get? k' := by
  induction f with
  | nil => simp [set, get?, Ne.symm hne]
  | cons kc rest ih =>
    obtain ⟨k0, c0⟩ := kc
    simp only [set]
    split
    · rename_i h1
      have : k = k0 := by simpa using h1
      subst this
      simp [get?, Ne.symm hne]
    · split
      · simp [get?, List.find?_cons, Ne.symm hne]
      · simp only [get?] at ih ⊢
        simp only [List.find?_cons]
        cases h : (k0 == k') <;> simp [ih]

theorem has_set_self (f : Frame) (k : Str) (c : Col) : (f.set k c).has k = true := by
  rw [has_eq_isSome_get?, get?_set_self]; rfl

theorem has_set_ne (f : Frame) (k k' : Str) (c : Col) (hne : k' ≠ k) :
    (f.set k c).has k' = f.has k' := by
  rw [has_eq_isSome_get?, has_eq_isSome_get?, get?_set_ne _ _ _ _ hne]

/-- the cell of row `i` under key `k`: the `i`-th cell of the column stored under `k` -/
theorem getD_rowMap (f : Frame) (i : Nat) (k : Str) :
    Row.getD (f.rowMap i) k = ((f.get? k).map (fun c => c.data.getD i .nil)).getD .nil := by
  simp only [Row.getD, Row.get?, rowMap, get?, List.find?_map]
  have : ((fun x : Str × Cell => x.1 == k) ∘ fun kc : Str × Col => (kc.1, kc.2.data.getD i Cell.nil))
      = (fun x : Str × Col => x.1 == k) := rfl
  rw [this]
  cases List.find? (fun x : Str × Col => x.1 == k) f <;> rfl

theorem keys_rowMap (f : Frame) (i : Nat) : (f.rowMap i).map (·.1) = f.keys := by
  simp [rowMap, keys]

end Frame

end Goframe
