import GoframeModel.Core.HeapStep
import GoframeModel.Lemmas.Heap
import GoframeModel.Lemmas.Rect
/-
  Lemmas for C02b: the heap-level step `hstep` refines the value-level `step`.
-/
namespace Goframe.HeapStepLemmas
open Goframe Heap HeapLemmas Frame

/-! ### the pool of a heap -/

theorem pool_length (h : H) : (pool h).length = h.frames.length := by
  simp [pool]

theorem pool_getElem? (h : H) (t : Nat) :
    (pool h)[t]? = if t < h.frames.length then some (view h t) else none := by
  unfold pool
  by_cases ht : t < h.frames.length
  · simp [ht]
  · simp [ht]

theorem pool_some {h : H} {t : Nat} {f : Frame} (hf : (pool h)[t]? = some f) :
    t < h.frames.length ∧ f = view h t := by
  rw [pool_getElem?] at hf
  split at hf
  · rename_i ht
    simp only [Option.some.injEq] at hf
    exact ⟨ht, hf.symm⟩
  · cases hf

/-- what an in-place heap edit of frame `t` must achieve -/
def Mut (h : H) (t : Nat) (f' : Frame) (h' : H) : Prop :=
  Sep h' ∧ h'.frames.length = h.frames.length ∧
    (∀ other, other ≠ t → other < h.frames.length → view h' other = view h other) ∧
    view h' t = f'

theorem pool_of_mut {h h' : H} {t : Nat} {f' : Frame} (ht : t < h.frames.length) (hm : Mut h t f' h') :
    pool h' = (pool h).set t f' := by
  obtain ⟨_, hl, ho, hv⟩ := hm
  apply List.ext_getElem?
  intro i
  rw [pool_getElem?, hl]
  by_cases hit : i = t
  · subst hit
    rw [List.getElem?_set_self (by rw [pool_length]; exact ht), if_pos ht, hv]
  · rw [List.getElem?_set_ne (Ne.symm hit), pool_getElem?]
    by_cases hi : i < h.frames.length
    · rw [if_pos hi, if_pos hi, ho i hit hi]
    · rw [if_neg hi, if_neg hi]

theorem pool_alloc (h : H) (f : Frame) (hs : Sep h) : pool (alloc h f) = pool h ++ [f] := by
  obtain ⟨_, ho, hv⟩ := alloc_spec h f hs
  have hl : (alloc h f).frames.length = h.frames.length + 1 := by simp [alloc]
  apply List.ext_getElem?
  intro i
  rw [pool_getElem?, hl]
  by_cases hi : i < h.frames.length
  · rw [if_pos (by omega), List.getElem?_append_left (by rw [pool_length]; exact hi), pool_getElem?,
      if_pos hi, ho i hi]
  · by_cases hie : i = h.frames.length
    · subst hie
      rw [if_pos (by omega), hv]
      have : h.frames.length = (pool h).length := (pool_length h).symm
      rw [List.getElem?_append_right (by omega)]
      simp [pool_length]
    · rw [if_neg (by omega), List.getElem?_eq_none]
      simp [pool_length]; omega

/-! ### `insertH` mirrors `Frame.set` -/

theorem insertH_map (φ : HCol → Col) (k : Str) (c : HCol) (fr : List (Str × HCol)) :
    (insertH (k, c) fr).map (fun kc => (kc.1, φ kc.2)) =
      Frame.set (fr.map (fun kc => (kc.1, φ kc.2))) k (φ c) := by
  induction fr with
  | nil => rfl
  | cons x xs ih =>
    obtain ⟨k', c'⟩ := x
    simp only [insertH, List.map_cons, Frame.set]
    split
    · rfl
    · split
      · rfl
      · simp only [List.map_cons, ih]

theorem mem_insertH {kc x : Str × HCol} {fr : List (Str × HCol)} (h : x ∈ insertH kc fr) :
    x = kc ∨ x ∈ fr := by
  induction fr with
  | nil => simp [insertH] at h; exact Or.inl h
  | cons y ys ih =>
    simp only [insertH] at h
    split at h
    · rcases List.mem_cons.mp h with h | h
      · exact Or.inl h
      · exact Or.inr (List.mem_cons_of_mem _ h)
    · split at h
      · rcases List.mem_cons.mp h with h | h
        · exact Or.inl h
        · exact Or.inr h
      · rcases List.mem_cons.mp h with h | h
        · exact Or.inr (h ▸ List.mem_cons_self ..)
        · rcases ih h with h | h
          · exact Or.inl h
          · exact Or.inr (List.mem_cons_of_mem _ h)

theorem ids_insertH_nodup {kc : Str × HCol} {fr : List (Str × HCol)} (hn : (ids fr).Nodup)
    (hnot : kc.2.data.arr ∉ ids fr) : (ids (insertH kc fr)).Nodup := by
  induction fr with
  | nil => simp [insertH, ids]
  | cons y ys ih =>
    simp only [ids, List.map_cons, List.nodup_cons, List.mem_cons, not_or] at hn hnot
    simp only [insertH]
    split
    · simp only [ids, List.map_cons, List.nodup_cons]
      exact ⟨hnot.2, hn.2⟩
    · split
      · simp only [ids, List.map_cons, List.nodup_cons, List.mem_cons, not_or]
        exact ⟨⟨hnot.1, hnot.2⟩, hn.1, hn.2⟩
      · simp only [ids, List.map_cons, List.nodup_cons]
        refine ⟨?_, ih hn.2 hnot.2⟩
        intro hm
        obtain ⟨x, hx, hxe⟩ := List.mem_map.mp hm
        rcases mem_insertH hx with hx | hx
        · subst hx; exact hnot.1 hxe
        · exact hn.1 (List.mem_map.mpr ⟨x, hx, hxe⟩)

/-! ### map edits: a generic editor that does not write any existing array -/

theorem view_eq_map (h : H) (fid : Nat) :
    view h fid = (h.frames.getD fid []).map
      (fun kc => (kc.1, ({ name := kc.2.name, data := readSlice h.arrays kc.2.data } : Col))) := rfl

theorem frames_length_set (arrs : List (List Cell)) (frs : List (List (Str × HCol))) (fid : Nat)
    (fr' : List (Str × HCol)) : (H.mk arrs (frs.set fid fr')).frames.length = frs.length := by
  simp

/-- `AddColumn` / the new-column branch of `AppendRow` -/
theorem addColH_spec (h : H) (hs : Sep h) (fid : Nat) (hf : fid < h.frames.length) (k name : Str)
    (data : List Cell) :
    Mut h fid ((view h fid).set k { name := name, data := data }) (addColH h fid k name data) := by
  have hinb := inb_of_sep hs hf
  have hnd := ids_nodup hs hf
  have hfresh : ∀ kc ∈ h.frames.getD fid [], kc.2.data.arr < h.arrays.length :=
    fun kc hkc => (hinb kc hkc).1
  obtain ⟨hsep, hoth⟩ := edit_rule h hs fid hf (h.arrays ++ [data])
    (insertH (k, { name := name, data := { arr := h.arrays.length, off := 0, len := data.length, cap := data.length } })
      (h.frames.getD fid []))
    (by simp)
    (by intro a ha _; exact getD_append_left ha)
    (by intro kc hkc
        rcases mem_insertH hkc with hkc | hkc
        · subst hkc
          refine ⟨by simp, Nat.le_refl _, ?_⟩
          simp [List.getD_eq_getElem?_getD]
        · exact Inb_congr (by simp) (getD_append_left (hfresh kc hkc)) (hinb kc hkc))
    (ids_insertH_nodup hnd (by
        intro hm
        obtain ⟨kc, hkc, he⟩ := mem_ids.mp hm
        have := hfresh kc hkc
        simp only at he
        omega))
    (by intro a ha
        obtain ⟨kc, hkc, rfl⟩ := mem_ids.mp ha
        rcases mem_insertH hkc with hkc | hkc
        · subst hkc; right; exact Nat.le_refl _
        · left; exact mem_ids.mpr ⟨kc, hkc, rfl⟩)
  refine ⟨hsep, by simp [addColH], hoth, ?_⟩
  show view ⟨h.arrays ++ [data], _⟩ fid = _
  rw [view_set_self _ _ _ hf]
  rw [insertH_map (fun c => ({ name := c.name, data := readSlice (h.arrays ++ [data]) c.data } : Col))]
  congr 1
  · rw [view_eq_map]
    apply List.map_congr_left
    intro kc hkc
    rw [readSlice_congr (getD_append_left (hfresh kc hkc))]
  · simp [readSlice, List.getD_eq_getElem?_getD]

theorem mut_frames_length {h h' : H} {t : Nat} {f' : Frame} (hm : Mut h t f' h') :
    h'.frames.length = h.frames.length := hm.2.1

theorem mut_trans {h h1 h2 : H} {t : Nat} {f1 f2 : Frame} (h01 : Mut h t f1 h1) (h12 : Mut h1 t f2 h2) :
    Mut h t f2 h2 := by
  obtain ⟨_, l1, o1, _⟩ := h01
  obtain ⟨s2, l2, o2, v2⟩ := h12
  refine ⟨s2, by rw [l2, l1], ?_, v2⟩
  intro other hne ho
  rw [o2 other hne (by rw [l1]; exact ho), o1 other hne ho]

theorem mut_refl {h : H} (hs : Sep h) (t : Nat) : Mut h t (view h t) h :=
  ⟨hs, rfl, fun _ _ _ => rfl, rfl⟩

theorem any_key_view (h : H) (fid : Nat) (k : Str) :
    (h.frames.getD fid []).any (fun kc => kc.1 == k) = (view h fid).has k := by
  simp [view_eq_map, Frame.has, List.any_map, Function.comp_def]

theorem get?_view (h : H) (fid : Nat) (k : Str) :
    (view h fid).get? k = ((h.frames.getD fid []).find? (fun kc => kc.1 == k)).map
      (fun kc => ({ name := kc.2.name, data := readSlice h.arrays kc.2.data } : Col)) := by
  rw [view_eq_map, Frame.get?, List.find?_map, Option.map_map]
  rfl

theorem addMissingH_spec (n : Nat) (r : Row) (h : H) (hs : Sep h) (fid : Nat) (hf : fid < h.frames.length) :
    Mut h fid (addMissing (view h fid) n r) (addMissingH h fid n r) := by
  induction r generalizing h with
  | nil => exact mut_refl hs fid
  | cons kv rest ih =>
    obtain ⟨k, v⟩ := kv
    simp only [addMissingH, addMissing]
    rw [any_key_view]
    cases hh : (view h fid).has k with
    | true =>
      simp only [if_true]
      exact ih h hs hf
    | false =>
      simp only [Bool.false_eq_true, if_false]
      have hm := addColH_spec h hs fid hf k k (List.replicate n .nil)
      have hs1 := hm.1
      have hl1 := hm.2.1
      have hv1 := hm.2.2.2
      have := ih (addColH h fid k k (List.replicate n .nil)) hs1 (by rw [hl1]; exact hf)
      rw [hv1] at this
      exact mut_trans hm this

/-- `RenameColumn` on the heap -/
theorem renameH_spec (h : H) (hs : Sep h) (fid : Nat) (hf : fid < h.frames.length) (old new : Str) (c : Col)
    (hc : (view h fid).get? old = some c) :
    Mut h fid (((view h fid).erase old).set new { c with name := new }) (renameH h fid old new) := by
  have hinb := inb_of_sep hs hf
  have hnd := ids_nodup hs hf
  -- the entry found on the heap
  have hfind : ∃ kc, (h.frames.getD fid []).find? (fun kc => kc.1 == old) = some kc ∧
      c = { name := kc.2.name, data := readSlice h.arrays kc.2.data } := by
    rw [get?_view] at hc
    cases hfd : (h.frames.getD fid []).find? (fun kc => kc.1 == old) with
    | none => rw [hfd] at hc; cases hc
    | some kc =>
      rw [hfd] at hc
      simp only [Option.map_some, Option.some.injEq] at hc
      exact ⟨kc, rfl, hc.symm⟩
  obtain ⟨kc, hfd, hce⟩ := hfind
  have hkcm : kc ∈ h.frames.getD fid [] := List.mem_of_find?_eq_some hfd
  have hkck : (kc.1 == old) = true := by simpa using List.find?_some hfd
  have hren : renameH h fid old new =
      ⟨h.arrays, h.frames.set fid (insertH (new, { name := new, data := kc.2.data })
        ((h.frames.getD fid []).filter (fun x => !(x.1 == old))))⟩ := by
    simp only [renameH, hfd]
  have hsub : ∀ x ∈ (h.frames.getD fid []).filter (fun x => !(x.1 == old)), x ∈ h.frames.getD fid [] :=
    fun x hx => (List.mem_filter.mp hx).1
  obtain ⟨hsep, hoth⟩ := edit_rule h hs fid hf h.arrays
    (insertH (new, { name := new, data := kc.2.data }) ((h.frames.getD fid []).filter (fun x => !(x.1 == old))))
    (Nat.le_refl _) (fun _ _ _ => rfl)
    (by intro x hx
        rcases mem_insertH hx with hx | hx
        · subst hx; exact hinb kc hkcm
        · exact hinb x (hsub x hx))
    (ids_insertH_nodup
      (by unfold ids; exact List.Nodup.sublist (List.Sublist.map _ List.filter_sublist) hnd)
      (by intro hm
          obtain ⟨x, hx, he⟩ := mem_ids.mp hm
          obtain ⟨hxm, hxk⟩ := List.mem_filter.mp hx
          have : x = kc := inj_of_nodup_map (fun kc : Str × HCol => kc.2.data.arr) _ hnd x hxm kc hkcm he
          subst this
          simp [hkck] at hxk))
    (by intro a ha
        obtain ⟨x, hx, rfl⟩ := mem_ids.mp ha
        left
        rcases mem_insertH hx with hx | hx
        · subst hx; exact mem_ids.mpr ⟨kc, hkcm, rfl⟩
        · exact mem_ids.mpr ⟨x, hsub x hx, rfl⟩)
  rw [hren]
  refine ⟨hsep, by simp, hoth, ?_⟩
  rw [view_set_self _ _ _ hf]
  rw [insertH_map (fun c => ({ name := c.name, data := readSlice h.arrays c.data } : Col))]
  congr 1
  · rw [view_eq_map, Frame.erase, List.filter_map]
    rfl
  · rw [hce]

/-- `DropColumn` on the heap -/
theorem dropColH_spec (h : H) (hs : Sep h) (fid : Nat) (hf : fid < h.frames.length) (k : Str) :
    Mut h fid ((view h fid).erase k) (dropColH h fid k) := by
  have hinb := inb_of_sep hs hf
  have hnd := ids_nodup hs hf
  have hsub : ∀ x ∈ (h.frames.getD fid []).filter (fun x => !(x.1 == k)), x ∈ h.frames.getD fid [] :=
    fun x hx => (List.mem_filter.mp hx).1
  obtain ⟨hsep, hoth⟩ := edit_rule h hs fid hf h.arrays
    ((h.frames.getD fid []).filter (fun x => !(x.1 == k)))
    (Nat.le_refl _) (fun _ _ _ => rfl)
    (fun x hx => hinb x (hsub x hx))
    (by unfold ids; exact List.Nodup.sublist (List.Sublist.map _ List.filter_sublist) hnd)
    (by intro a ha
        obtain ⟨x, hx, rfl⟩ := mem_ids.mp ha
        left; exact mem_ids.mpr ⟨x, hsub x hx, rfl⟩)
  refine ⟨hsep, by simp [dropColH], hoth, ?_⟩
  show view ⟨h.arrays, _⟩ fid = _
  rw [view_set_self _ _ _ hf, view_eq_map, Frame.erase, List.filter_map]
  rfl

/-! ### value-level facts about sorted frames -/

theorem sorted_keys_nodup {f : Frame} (hs : f.Sorted) : (f.map (·.1)).Nodup := by
  unfold Frame.Sorted at hs
  unfold List.Nodup
  rw [List.pairwise_map]
  exact List.Pairwise.imp (fun h => strLt_ne h) hs

theorem keys_view (h : H) (fid : Nat) :
    (view h fid).map (·.1) = (h.frames.getD fid []).map (·.1) := by
  simp [view_eq_map, List.map_map, Function.comp_def]

theorem find?_map_of_nodup (F : Str × Col → Str × Col) (hF : ∀ kc, (F kc).1 = kc.1) (f : Frame)
    (hn : (f.map (·.1)).Nodup) : ∀ kc ∈ f, (f.map F).find? (fun x => x.1 == kc.1) = some (F kc) := by
  induction f with
  | nil => intro kc h; cases h
  | cons y ys ih =>
    simp only [List.map_cons, List.nodup_cons] at hn
    intro kc hkc
    simp only [List.map_cons, List.find?_cons]
    rcases List.mem_cons.mp hkc with h | h
    · subst h; simp [hF]
    · have hne : ((F y).1 == kc.1) = false := by
        rw [hF]
        apply beq_false_of_ne
        intro he
        exact hn.1 (he ▸ List.mem_map_of_mem (f := (·.1)) h)
      simp only [hne]
      exact ih hn.2 kc h

/-- reading the new data of each column back by key from a frame that is a data-only map of `f` -/
theorem lookup_dataMap {f : Frame} (hn : (f.map (·.1)).Nodup) (D : Str × Col → List Cell) :
    f.map (fun kc => (kc.1, ({ kc.2 with data :=
        ((((f.map (fun kc => (kc.1, ({ kc.2 with data := D kc } : Col)))).find? (fun x => x.1 == kc.1)).map
          (·.2.data)).getD []) } : Col))) =
      f.map (fun kc => (kc.1, ({ kc.2 with data := D kc } : Col))) := by
  apply List.map_congr_left
  intro kc hkc
  rw [find?_map_of_nodup (fun kc => (kc.1, ({ kc.2 with data := D kc } : Col))) (fun _ => rfl) f hn kc hkc]
  rfl

theorem set_eq_map {f : Frame} (hs : f.Sorted) {k : Str} {c : Col} (hc : f.get? k = some c) (φ : Col → Col) :
    f.set k (φ c) = f.map (fun kc => if kc.1 = k then (kc.1, φ kc.2) else kc) := by
  induction f with
  | nil => simp [Frame.get?] at hc
  | cons y ys ih =>
    obtain ⟨k', c0⟩ := y
    rw [get?_cons] at hc
    simp only [Frame.set, List.map_cons]
    by_cases e : k' = k
    · subst e
      simp only [beq_self_eq_true, if_true, Option.some.injEq] at hc
      subst hc
      simp only [beq_self_eq_true, if_true]
      congr 1
      symm
      calc ys.map (fun kc => if kc.1 = k' then (kc.1, φ kc.2) else kc) = ys.map id := by
            apply List.map_congr_left
            intro x hx
            have := strLt_ne (hs.head_lt x hx)
            simp only at this
            rw [if_neg (fun h => this h.symm)]; rfl
        _ = ys := List.map_id _
    · have e1 : (k' == k) = false := beq_false_of_ne e
      have e2 : (k == k') = false := beq_false_of_ne (fun h => e h.symm)
      simp only [e1, Bool.false_eq_true, if_false] at hc
      have hm := get?_mem hc
      have hlt : strLt k' k = true := hs.head_lt _ hm
      have hnlt : strLt k k' = false := strLt_asymm hlt
      simp only [e2, hnlt, Bool.false_eq_true, if_false, if_neg e]
      rw [ih hs.tail hc]

/-! ### value-level shapes of the in-place results -/

theorem dropRow_go_shape (i : Int) (f r : Frame) (h : dropRow.go i f = .ok r) :
    r = f.map (fun kc => (kc.1, { kc.2 with data := kc.2.data.eraseIdx i.toNat })) ∧
    ∀ kc ∈ f, i.toNat < kc.2.data.length := by
  induction f generalizing r with
  | nil =>
    simp only [dropRow.go, Outcome.ok.injEq] at h
    subst h; exact ⟨rfl, fun _ hx => by cases hx⟩
  | cons kc rest ih =>
    obtain ⟨k, c⟩ := kc
    simp only [dropRow.go] at h
    split at h
    · cases h
    · rename_i hlen
      cases hm : dropRow.go i rest with
      | err e => simp [hm] at h
      | panic e => simp [hm] at h
      | ok r' =>
        simp only [hm, Outcome.bind_ok, Outcome.pure_eq, Outcome.ok.injEq] at h
        subst h
        obtain ⟨h1, h2⟩ := ih r' hm
        refine ⟨by rw [h1]; rfl, ?_⟩
        intro x hx
        rcases List.mem_cons.mp hx with hx | hx
        · subst hx; simp only; omega
        · exact h2 x hx

theorem dropRow_shape {f r : Frame} {i : Int} (h : f.dropRow i = .ok r) :
    r = f.map (fun kc => (kc.1, { kc.2 with data := kc.2.data.eraseIdx i.toNat })) ∧
    ∀ kc ∈ f, i.toNat < kc.2.data.length := by
  unfold dropRow at h
  split at h
  · cases h
  · exact dropRow_go_shape i f r h

theorem setCell_shape {f r : Frame} {k : Str} {i : Int} {v : Cell} (h : f.setCell k i v = .ok r) :
    ∃ c, f.get? k = some c ∧ i.toNat < c.data.length ∧ r = f.set k { c with data := c.data.set i.toNat v } := by
  unfold setCell at h
  split at h
  · cases h
  · rename_i c hc
    split at h
    · cases h
    · rename_i hb
      simp only [Outcome.ok.injEq] at h
      exact ⟨c, hc, by omega, h.symm⟩

theorem renameColumn_shape {f r : Frame} {a b : Str} (h : f.renameColumn a b = .ok r) :
    ∃ c, f.get? a = some c ∧ r = (f.erase a).set b { c with name := b } := by
  unfold renameColumn at h
  split at h
  · cases h
  · rename_i c hc
    split at h
    · cases h
    · simp only [Outcome.ok.injEq] at h
      exact ⟨c, hc, h.symm⟩

theorem addColumn_shape {f r : Frame} {c : Col} (h : f.addColumn c = .ok r) : r = f.set c.name c := by
  unfold addColumn at h
  split at h
  · cases h
  · simp only [Outcome.ok.injEq] at h
    exact h.symm

theorem dropColumn_shape {f r : Frame} {k : Str} (h : f.dropColumn k = .ok r) : r = f.erase k := by
  unfold dropColumn at h
  split at h
  · simp only [Outcome.ok.injEq] at h
    exact h.symm
  · cases h

/-- `f'` has exactly the keys and names of `f`: only the data of the columns differs -/
def DataMap (f f' : Frame) : Prop :=
  ∃ D : Str × Col → List Cell, f' = f.map (fun kc => (kc.1, ({ kc.2 with data := D kc } : Col)))

theorem dataMap_set {f : Frame} (hs : f.Sorted) {k : Str} {c : Col} (hc : f.get? k = some c) (d : List Cell) :
    DataMap f (f.set k { c with data := d }) := by
  refine ⟨fun kc => if kc.1 = k then d else kc.2.data, ?_⟩
  rw [set_eq_map hs hc (fun c => { c with data := d })]
  apply List.map_congr_left
  intro kc _
  by_cases e : kc.1 = k
  · simp [e]
  · simp [e]

theorem dropNa_shape {f r : Frame} (h : f.dropNa = .ok r) : DataMap f r := by
  unfold dropNa at h
  cases hk : dropNaKeep f 0 f.nrows with
  | err e => simp [hk] at h
  | panic e => simp [hk] at h
  | ok keep =>
    simp only [hk, Outcome.bind_ok, Outcome.pure_eq, Outcome.ok.injEq] at h
    exact ⟨fun kc => pick kc.2.data keep, h.symm⟩

theorem astype_shape {ω : Oracle} {f r : Frame} {k ty : Str} (hs : f.Sorted) (h : f.astype ω k ty = .ok r) :
    DataMap f r := by
  unfold astype at h
  split at h
  · cases h
  · rename_i c hc
    split at h
    · cases h
    · cases hm : convAll (convCell ω ty) c.data with
      | err e => simp [hm] at h
      | panic e => simp [hm] at h
      | ok d =>
        simp only [hm, Outcome.bind_ok, Outcome.pure_eq, Outcome.ok.injEq] at h
        subst h
        exact dataMap_set hs hc d

theorem addDatetimeIndex_shape {ω : Oracle} {f r : Frame} {k l : Str} (hs : f.Sorted)
    (h : f.addDatetimeIndex ω k l = .ok r) : DataMap f r := by
  unfold addDatetimeIndex at h
  split at h
  · cases h
  · rename_i c hc
    generalize (fun v : Cell => match v with
      | .str s => match ω.timeParse l s with
        | some t => Outcome.ok (Cell.time t)
        | none => Outcome.err "error parsing datetime"
      | _ => Outcome.err "value is not a string") = g at h
    cases hm : convAll g c.data with
    | err e => simp [hm] at h
    | panic e => simp [hm] at h
    | ok d =>
      simp only [hm, Outcome.bind_ok, Outcome.pure_eq, Outcome.ok.injEq] at h
      subst h
      exact dataMap_set hs hc d

theorem dropDuplicates_inplace_shape {ω : Oracle} {f t r : Frame} {sub : List Str} {keep : Str}
    (h : f.dropDuplicates ω { subset := sub, keep := keep, inplace := true } = .ok (t, r)) : DataMap f t := by
  unfold dropDuplicates at h
  simp only at h
  generalize (if sub.isEmpty = true then f.keys else sub) = cols at h
  split at h
  · cases h
  · rename_i kp _
    split at h
    · cases h
    · cases hk : rowKeys ω f cols 0 f.nrows with
      | err e => simp [hk] at h
      | panic e => simp [hk] at h
      | ok keys =>
        simp only [hk, Outcome.bind_ok, if_true, Outcome.pure_eq, Outcome.ok.injEq, Prod.mk.injEq] at h
        exact ⟨fun kc => pick kc.2.data (keepIdx kp keys), h.1.symm⟩

/-! ### the remaining heap editors as `Mut` -/

theorem zip_map_self {α β γ} (l : List α) (g : α → β) (F : α × β → γ) :
    (l.zip (l.map g)).map F = l.map (fun x => F (x, g x)) := by
  induction l with
  | nil => rfl
  | cons a l ih => simp [ih]

theorem view_length (h : H) (fid : Nat) : (view h fid).length = (h.frames.getD fid []).length := by
  simp [view_eq_map]

theorem appendRowH_mut (g : Nat → Nat) (h : H) (hs : Sep h) (t : Nat) (ht : t < h.frames.length) (r : Row) :
    Mut h t ((view h t).appendRow r)
      (appendRowH g (addMissingH h t (view h t).nrows r) t
        ((view (addMissingH h t (view h t).nrows r) t).map (fun kc => Row.getD r kc.1))) := by
  have hm := addMissingH_spec (view h t).nrows r h hs t ht
  obtain ⟨hs1, hl1, ho1, hv1⟩ := hm
  have ht1 : t < (addMissingH h t (view h t).nrows r).frames.length := by rw [hl1]; exact ht
  obtain ⟨a1, a2, a3⟩ := appendRow_spec g _ hs1 t ht1
    ((view (addMissingH h t (view h t).nrows r) t).map (fun kc => Row.getD r kc.1))
    (by rw [List.length_map, view_length])
  refine ⟨a1, ?_, ?_, ?_⟩
  · rw [← hl1]; simp [appendRowH]
  · intro other hne ho
    rw [a2 other hne (by rw [hl1]; exact ho), ho1 other hne ho]
  · rw [a3, zip_map_self, hv1]
    rfl

theorem dropRowH_mut (h : H) (hs : Sep h) (t : Nat) (ht : t < h.frames.length) (i : Int) (r : Frame)
    (hr : (view h t).dropRow i = .ok r) : Mut h t r (dropRowH h t i.toNat) := by
  obtain ⟨hre, hlen⟩ := dropRow_shape hr
  obtain ⟨a1, a2, a3⟩ := dropRow_spec h hs t ht i.toNat (by
    intro kc hkc
    have := hlen (kc.1, { name := kc.2.name, data := readSlice h.arrays kc.2.data })
      (by rw [view_eq_map]; exact List.mem_map_of_mem (f := fun kc : Str × HCol =>
            (kc.1, ({ name := kc.2.name, data := readSlice h.arrays kc.2.data } : Col))) hkc)
    simp only [readSlice, List.length_take] at this
    omega)
  exact ⟨a1, by simp [dropRowH], a2, by rw [a3, hre]⟩

theorem fillNaH_mut (h : H) (hs : Sep h) (t : Nat) (ht : t < h.frames.length) (v : Cell) :
    Mut h t ((view h t).fillNa v) (fillNaH h t v) := by
  obtain ⟨a1, a2, a3⟩ := fillNa_spec h hs t ht v
  exact ⟨a1, by simp [fillNaH], a2, by rw [a3]; rfl⟩

theorem replaceData_mut (h : H) (hs : Sep h) (t : Nat) (ht : t < h.frames.length) (f' : Frame)
    (hsorted : (view h t).Sorted) (hd : DataMap (view h t) f') :
    Mut h t f' (replaceData h t (fun k _ => ((f'.find? (fun kc => kc.1 == k)).map (·.2.data)).getD [])) := by
  obtain ⟨a1, a2, a3⟩ := replaceData_spec h hs t ht
    (fun k _ => ((f'.find? (fun kc => kc.1 == k)).map (·.2.data)).getD [])
  refine ⟨a1, by simp [replaceData], a2, ?_⟩
  rw [a3]
  obtain ⟨D, rfl⟩ := hd
  exact lookup_dataMap (sorted_keys_nodup hsorted) D

theorem setCell_mut (h : H) (hs : Sep h) (t : Nat) (k : Str) (i : Int) (v : Cell)
    (r : Frame) (hsorted : (view h t).Sorted) (hr : (view h t).setCell k i v = .ok r) :
    Mut h t r (match (h.frames.getD t []).find? (fun kc => kc.1 == k) with
      | some kc => storeCell h kc.2.data i.toNat v
      | none => h) := by
  obtain ⟨c, hc, hi, hre⟩ := setCell_shape hr
  have hc' := hc
  rw [get?_view] at hc'
  cases hfd : (h.frames.getD t []).find? (fun kc => kc.1 == k) with
  | none => rw [hfd] at hc'; cases hc'
  | some kc =>
    rw [hfd] at hc'
    simp only [Option.map_some, Option.some.injEq] at hc'
    have hkcm : kc ∈ h.frames.getD t [] := List.mem_of_find?_eq_some hfd
    have hkck : kc.1 = k := by simpa using List.find?_some hfd
    have hkcm' : (k, kc.2) ∈ h.frames.getD t [] := by rw [← hkck]; exact hkcm
    obtain ⟨a1, a2, a3⟩ := storeCell_spec h hs t k kc.2 i.toNat v hkcm'
      (by rw [← keys_view]; exact sorted_keys_nodup hsorted)
    refine ⟨a1, by simp [storeCell], fun other hne _ => a2 other hne, ?_⟩
    simp only
    rw [a3, hre]
    exact (set_eq_map hsorted hc (fun c => { c with data := c.data.set i.toNat v })).symm

/-! ### the in-place branch of `hstep` -/

theorem some_view {h : H} {t : Nat} {f : Frame} (hf : (pool h)[t]? = some f) : f ∈ pool h :=
  List.mem_of_getElem? hf

theorem hstep_mutated (g : Nat → Nat) (ω : Oracle) (h h' : H) (op : Op) (f' : Frame) (hs : Sep h)
    (hg : ∀ f ∈ pool h, f.Sorted)
    (he : opEffect ω (pool h) op = .ok (.mutated f')) (hst : hstep g ω h op = .ok h') :
    op.target < h.frames.length ∧ Mut h op.target f' h' := by
  have hip := opEffect_mutated ω _ op f' he
  unfold hstep at hst
  rw [he] at hst
  cases op with
  | appendRow t r =>
    simp only [Outcome.ok.injEq] at hst
    subst hst
    simp only [opEffect] at he
    split at he
    · cases he
    · rename_i f hf
      obtain ⟨ht, rfl⟩ := pool_some hf
      simp only [Outcome.ok.injEq, StepOut.mutated.injEq] at he
      subst he
      exact ⟨ht, appendRowH_mut g h hs t ht r⟩
  | dropRow t i =>
    simp only [Outcome.ok.injEq] at hst
    subst hst
    simp only [opEffect] at he
    split at he
    · cases he
    · rename_i f hf
      obtain ⟨ht, rfl⟩ := pool_some hf
      obtain ⟨r, hr, hout⟩ := RectLemmas.bind_mutated he
      cases hout
      exact ⟨ht, dropRowH_mut h hs t ht i f' hr⟩
  | fillNa t v =>
    simp only [Outcome.ok.injEq] at hst
    subst hst
    simp only [opEffect] at he
    split at he
    · cases he
    · rename_i f hf
      obtain ⟨ht, rfl⟩ := pool_some hf
      simp only [Outcome.ok.injEq, StepOut.mutated.injEq] at he
      subst he
      exact ⟨ht, fillNaH_mut h hs t ht v⟩
  | setCell t k i v =>
    simp only [opEffect] at he
    split at he
    · cases he
    · rename_i f hf
      have hsorted := hg f (some_view hf)
      obtain ⟨ht, rfl⟩ := pool_some hf
      obtain ⟨r, hr, hout⟩ := RectLemmas.bind_mutated he
      cases hout
      have hm := setCell_mut h hs t k i v f' hsorted hr
      refine ⟨ht, ?_⟩
      simp only [Op.target] at hst ⊢
      split at hst
      · rename_i kc hfd
        rw [hfd] at hm
        simp only [Outcome.ok.injEq] at hst
        subst hst
        exact hm
      · rename_i hfd
        rw [hfd] at hm
        simp only [Outcome.ok.injEq] at hst
        subst hst
        exact hm
  | rename t old new =>
    simp only [Outcome.ok.injEq] at hst
    subst hst
    simp only [opEffect] at he
    split at he
    · cases he
    · rename_i f hf
      obtain ⟨ht, rfl⟩ := pool_some hf
      obtain ⟨r, hr, hout⟩ := RectLemmas.bind_mutated he
      cases hout
      obtain ⟨c, hc, rfl⟩ := renameColumn_shape hr
      exact ⟨ht, renameH_spec h hs t ht old new c hc⟩
  | addColumn t c =>
    simp only [Outcome.ok.injEq] at hst
    subst hst
    simp only [opEffect] at he
    split at he
    · cases he
    · rename_i f hf
      obtain ⟨ht, rfl⟩ := pool_some hf
      obtain ⟨r, hr, hout⟩ := RectLemmas.bind_mutated he
      cases hout
      have := addColumn_shape hr
      subst this
      exact ⟨ht, addColH_spec h hs t ht c.name c.name c.data⟩
  | dropColumn t k =>
    simp only [Outcome.ok.injEq] at hst
    subst hst
    simp only [opEffect] at he
    split at he
    · cases he
    · rename_i f hf
      obtain ⟨ht, rfl⟩ := pool_some hf
      obtain ⟨r, hr, hout⟩ := RectLemmas.bind_mutated he
      cases hout
      have := dropColumn_shape hr
      subst this
      exact ⟨ht, dropColH_spec h hs t ht k⟩
  | dropNa t =>
    simp only [Outcome.ok.injEq] at hst
    subst hst
    simp only [opEffect] at he
    split at he
    · cases he
    · rename_i f hf
      have hsorted := hg f (some_view hf)
      obtain ⟨ht, rfl⟩ := pool_some hf
      obtain ⟨r, hr, hout⟩ := RectLemmas.bind_mutated he
      cases hout
      exact ⟨ht, replaceData_mut h hs t ht f' hsorted (dropNa_shape hr)⟩
  | astype t c ty =>
    simp only [Outcome.ok.injEq] at hst
    subst hst
    simp only [opEffect] at he
    split at he
    · cases he
    · rename_i f hf
      have hsorted := hg f (some_view hf)
      obtain ⟨ht, rfl⟩ := pool_some hf
      obtain ⟨r, hr, hout⟩ := RectLemmas.bind_mutated he
      cases hout
      exact ⟨ht, replaceData_mut h hs t ht f' hsorted (astype_shape hsorted hr)⟩
  | addDatetimeIndex t k l =>
    simp only [Outcome.ok.injEq] at hst
    subst hst
    simp only [opEffect] at he
    split at he
    · cases he
    · rename_i f hf
      have hsorted := hg f (some_view hf)
      obtain ⟨ht, rfl⟩ := pool_some hf
      obtain ⟨r, hr, hout⟩ := RectLemmas.bind_mutated he
      cases hout
      exact ⟨ht, replaceData_mut h hs t ht f' hsorted (addDatetimeIndex_shape hsorted hr)⟩
  | dedup t sub keep ip =>
    simp only [Op.inPlace] at hip
    subst hip
    simp only [Outcome.ok.injEq] at hst
    subst hst
    simp only [opEffect] at he
    split at he
    · cases he
    · rename_i f hf
      have hsorted := hg f (some_view hf)
      obtain ⟨ht, rfl⟩ := pool_some hf
      obtain ⟨⟨tgt, res⟩, hr, hout⟩ := RectLemmas.bind_eq_ok' he
      simp only [if_true, Outcome.ok.injEq, StepOut.mutated.injEq] at hout
      subst hout
      exact ⟨ht, replaceData_mut h hs t ht tgt hsorted (dropDuplicates_inplace_shape hr)⟩
  | _ => exact absurd hip (by simp [Op.inPlace])


end Goframe.HeapStepLemmas
