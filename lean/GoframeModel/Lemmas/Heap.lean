import GoframeModel.Core.Heap
import GoframeModel.Step
/-
  Lemmas for C02: the value-level step changes only its target; the heap layer.
-/
namespace Goframe.HeapLemmas
open Goframe Heap

/-! ### value level -/

theorem bind_ne {α} (x : Outcome α) (k : α → Outcome StepOut) (f : Frame)
    (hk : ∀ a, k a ≠ .ok (.mutated f)) : x.bind k ≠ .ok (.mutated f) := by
  cases x <;> simp [Outcome.bind, hk]

theorem opEffect_mutated (ω : Oracle) (p : Pool) (op : Op) (f : Frame)
    (h : opEffect ω p op = .ok (.mutated f)) : op.inPlace = true := by
  cases op <;> simp only [Op.inPlace] <;> simp only [opEffect] at h
  case dedup t sub keep ip =>
    cases ip with
    | true => rfl
    | false =>
      exfalso; split at h
      · exact absurd h (by simp)
      · exact bind_ne _ _ _ (by simp) h
  case group t list keys agg cols =>
    exfalso; split at h
    · exact absurd h (by simp)
    · exact bind_ne _ _ _ (fun g => bind_ne _ _ _ (by simp)) h
  all_goals first
    | rfl
    | (exfalso; split at h
       · first
         | exact absurd h (by simp)
         | exact bind_ne _ _ _ (by simp) h
       · first
         | exact absurd h (by simp)
         | exact bind_ne _ _ _ (by simp) h)

theorem step_only_target (ω : Oracle) (p p' : Pool) (op : Op) (h : step ω p op = .ok p') :
    ∀ i, i < p.length → (op.inPlace = false ∨ i ≠ op.target) → p'[i]? = p[i]? := by
  intro i hi hor
  unfold step at h
  cases he : opEffect ω p op with
  | err e => simp [he, Outcome.bind] at h
  | panic e => simp [he, Outcome.bind] at h
  | ok out =>
    simp only [he, Outcome.bind] at h
    cases out with
    | derived f =>
      simp only [Outcome.ok.injEq] at h
      subst h
      exact List.getElem?_append_left hi
    | mutated f =>
      simp only [Outcome.ok.injEq] at h
      subst h
      have hip := opEffect_mutated ω p op f he
      rcases hor with h1 | h1
      · rw [hip] at h1; cases h1
      · exact List.getElem?_set_ne (Ne.symm h1)

/-! ### heap level: basic notions -/

/-- a slice lies inside its array -/
def Inb (arrs : List (List Cell)) (s : SliceRef) : Prop :=
  s.arr < arrs.length ∧ s.len ≤ s.cap ∧ s.off + s.cap ≤ (arrs.getD s.arr []).length

def ids (fr : List (Str × HCol)) : List Nat := fr.map (fun kc => kc.2.data.arr)

def allIds (frs : List (List (Str × HCol))) : List Nat := frs.flatMap ids

theorem flatMap_zipIdx {α β} (g : α → List β) (l : List α) (k : Nat) :
    (l.zipIdx k).flatMap (fun p => g p.1) = l.flatMap g := by
  induction l generalizing k with
  | nil => rfl
  | cons a l ih => simp [List.zipIdx_cons, List.flatMap_cons, ih]

theorem slots_ids (h : H) : (slots h).map (fun s => s.2.2) = allIds h.frames := by
  unfold slots allIds ids
  rw [List.map_flatMap]
  simp only [List.map_map, Function.comp_def]
  exact flatMap_zipIdx (fun fr => fr.map (fun kc => kc.2.data.arr)) h.frames 0

theorem sep_iff (h : H) :
    Sep h ↔ (∀ fr ∈ h.frames, ∀ kc ∈ fr, Inb h.arrays kc.2.data) ∧ (allIds h.frames).Nodup := by
  unfold Heap.Sep
  rw [slots_ids]
  exact Iff.rfl

theorem mem_ids {fr : List (Str × HCol)} {a : Nat} : a ∈ ids fr ↔ ∃ kc ∈ fr, kc.2.data.arr = a := by
  simp [ids]

theorem mem_allIds {frs : List (List (Str × HCol))} {a : Nat} :
    a ∈ allIds frs ↔ ∃ fr ∈ frs, ∃ kc ∈ fr, kc.2.data.arr = a := by
  simp [allIds, ids]

theorem allIds_append (a b : List (List (Str × HCol))) : allIds (a ++ b) = allIds a ++ allIds b := by
  simp [allIds]

theorem allIds_single (fr : List (Str × HCol)) : allIds [fr] = ids fr := by
  simp [allIds]

theorem readSlice_congr {arrs arrs' : List (List Cell)} {s : SliceRef}
    (h : arrs'.getD s.arr [] = arrs.getD s.arr []) : readSlice arrs' s = readSlice arrs s := by
  unfold readSlice; rw [h]

theorem Inb_congr {arrs arrs' : List (List Cell)} {s : SliceRef} (hl : arrs.length ≤ arrs'.length)
    (h : arrs'.getD s.arr [] = arrs.getD s.arr []) (hb : Inb arrs s) : Inb arrs' s := by
  obtain ⟨h1, h2, h3⟩ := hb
  exact ⟨by omega, h2, by rw [h]; exact h3⟩

/-- the frame rule: editing the frames `mid` (into `mid'`) touching only their own arrays and fresh
ones keeps separation and does not change what the other frames read -/
theorem frame_rule (h h' : H) (pre mid mid' post : List (List (Str × HCol)))
    (hfr : h.frames = pre ++ mid ++ post) (hfr' : h'.frames = pre ++ mid' ++ post) (hs : Sep h)
    (h1 : h.arrays.length ≤ h'.arrays.length)
    (h2 : ∀ a, a < h.arrays.length → a ∉ allIds mid → h'.arrays.getD a [] = h.arrays.getD a [])
    (h3 : ∀ fr ∈ mid', ∀ kc ∈ fr, Inb h'.arrays kc.2.data)
    (h4 : (allIds mid').Nodup)
    (h5 : ∀ a ∈ allIds mid', a ∈ allIds mid ∨ h.arrays.length ≤ a) :
    Sep h' ∧ ∀ fr, fr ∈ pre ∨ fr ∈ post → ∀ kc ∈ fr,
      h'.arrays.getD kc.2.data.arr [] = h.arrays.getD kc.2.data.arr [] := by
  rw [sep_iff] at hs
  obtain ⟨hb, hn⟩ := hs
  rw [hfr, allIds_append, allIds_append, List.nodup_append, List.nodup_append] at hn
  obtain ⟨⟨hnpre, hnmid, hpm⟩, hnpost, hpp⟩ := hn
  have hlt : ∀ fr, fr ∈ pre ∨ fr ∈ post → ∀ kc ∈ fr, kc.2.data.arr < h.arrays.length := by
    intro fr hfrm kc hkc
    refine (hb fr ?_ kc hkc).1
    rw [hfr]; simp only [List.mem_append]; rcases hfrm with h | h
    · exact Or.inl (Or.inl h)
    · exact Or.inr h
  have hnotmid : ∀ fr, fr ∈ pre ∨ fr ∈ post → ∀ kc ∈ fr, kc.2.data.arr ∉ allIds mid := by
    intro fr hfrm kc hkc hmem
    rcases hfrm with h | h
    · exact hpm _ (mem_allIds.mpr ⟨fr, h, kc, hkc, rfl⟩) _ hmem rfl
    · exact hpp _ (List.mem_append.mpr (Or.inr hmem)) _ (mem_allIds.mpr ⟨fr, h, kc, hkc, rfl⟩) rfl
  have hsame : ∀ fr, fr ∈ pre ∨ fr ∈ post → ∀ kc ∈ fr,
      h'.arrays.getD kc.2.data.arr [] = h.arrays.getD kc.2.data.arr [] :=
    fun fr hfrm kc hkc => h2 _ (hlt fr hfrm kc hkc) (hnotmid fr hfrm kc hkc)
  refine ⟨?_, hsame⟩
  rw [sep_iff]
  constructor
  · intro fr hfrm kc hkc
    rw [hfr'] at hfrm
    simp only [List.mem_append] at hfrm
    have hcase : (fr ∈ pre ∨ fr ∈ post) ∨ fr ∈ mid' := by
      rcases hfrm with (h | h) | h
      · exact Or.inl (Or.inl h)
      · exact Or.inr h
      · exact Or.inl (Or.inr h)
    rcases hcase with hc | hc
    · refine Inb_congr h1 (hsame fr hc kc hkc) (hb fr ?_ kc hkc)
      rw [hfr]; simp only [List.mem_append]; rcases hc with h | h
      · exact Or.inl (Or.inl h)
      · exact Or.inr h
    · exact h3 fr hc kc hkc
  · rw [hfr', allIds_append, allIds_append, List.nodup_append, List.nodup_append]
    have hfresh : ∀ a ∈ allIds mid', ∀ fr, fr ∈ pre ∨ fr ∈ post → ∀ kc ∈ fr, kc.2.data.arr ≠ a := by
      intro a ha fr hfrm kc hkc heq
      rcases h5 a ha with h | h
      · exact hnotmid fr hfrm kc hkc (heq ▸ h)
      · have := hlt fr hfrm kc hkc; omega
    refine ⟨⟨hnpre, h4, ?_⟩, hnpost, ?_⟩
    · intro a ha b hb' hab
      obtain ⟨fr, hfrm, kc, hkc, rfl⟩ := mem_allIds.mp ha
      exact hfresh b hb' fr (Or.inl hfrm) kc hkc hab
    · intro a ha b hb' hab
      obtain ⟨fr, hfrm, kc, hkc, rfl⟩ := mem_allIds.mp hb'
      rcases List.mem_append.mp ha with ha | ha
      · exact hpp _ (List.mem_append.mpr (Or.inl ha)) _ (mem_allIds.mpr ⟨fr, hfrm, kc, hkc, rfl⟩) hab
      · exact hfresh a ha fr (Or.inr hfrm) kc hkc hab.symm

theorem view_congr (h h' : H) (fid : Nat) (hfr : h'.frames.getD fid [] = h.frames.getD fid [])
    (hr : ∀ kc ∈ h.frames.getD fid [], h'.arrays.getD kc.2.data.arr [] = h.arrays.getD kc.2.data.arr []) :
    view h' fid = view h fid := by
  unfold view; rw [hfr]
  apply List.map_congr_left
  intro kc hkc
  rw [readSlice_congr (hr kc hkc)]

theorem getD_frames {frs : List (List (Str × HCol))} {fid : Nat} (hf : fid < frs.length) :
    frs.getD fid [] = frs[fid] := by
  simp [List.getD_eq_getElem?_getD, hf]

/-- the frame rule for an editor of frame `fid` -/
theorem edit_rule (h : H) (hs : Sep h) (fid : Nat) (hf : fid < h.frames.length)
    (arrs' : List (List Cell)) (fr' : List (Str × HCol))
    (h1 : h.arrays.length ≤ arrs'.length)
    (h2 : ∀ a, a < h.arrays.length → a ∉ ids (h.frames.getD fid []) → arrs'.getD a [] = h.arrays.getD a [])
    (h3 : ∀ kc ∈ fr', Inb arrs' kc.2.data)
    (h4 : (ids fr').Nodup)
    (h5 : ∀ a ∈ ids fr', a ∈ ids (h.frames.getD fid []) ∨ h.arrays.length ≤ a) :
    Sep ⟨arrs', h.frames.set fid fr'⟩ ∧
    ∀ other, other ≠ fid → other < h.frames.length →
      view ⟨arrs', h.frames.set fid fr'⟩ other = view h other := by
  have hget := getD_frames hf
  have hsplit : h.frames = h.frames.take fid ++ [h.frames[fid]] ++ h.frames.drop (fid + 1) := by
    simp
  have hset : h.frames.set fid fr' = h.frames.take fid ++ [fr'] ++ h.frames.drop (fid + 1) := by
    rw [List.set_eq_take_append_cons_drop]; simp [hf]
  obtain ⟨hsep, hsame⟩ := frame_rule h ⟨arrs', h.frames.set fid fr'⟩ _ [h.frames[fid]] [fr'] _
    hsplit hset hs h1 (by rw [allIds_single, ← hget]; exact h2) (by simpa using h3)
    (by rwa [allIds_single]) (by rw [allIds_single, allIds_single, ← hget]; exact h5)
  refine ⟨hsep, ?_⟩
  intro other hne ho
  apply view_congr
  · simp [List.getD_eq_getElem?_getD, List.getElem?_set_ne (Ne.symm hne)]
  · intro kc hkc
    refine hsame (h.frames.getD other []) ?_ kc hkc
    rw [getD_frames ho]
    rcases Nat.lt_or_gt_of_ne hne with hlt | hgt
    · left; exact List.mem_take_iff_getElem.mpr ⟨other, by omega, rfl⟩
    · right
      refine List.mem_drop_iff_getElem.mpr ⟨other - (fid + 1), by omega, ?_⟩
      congr 1; omega

/-! ### fresh allocation of a list of columns -/

/-- the column objects `alloc` / `replaceData` build: one fresh array per element of `xs` -/
def freshCols {α} (key nm : α → Str) (dat : α → List Cell) (base : Nat) (xs : List α) : List (Str × HCol) :=
  xs.zipIdx.map (fun p => (key p.1, HCol.mk (nm p.1)
    (SliceRef.mk (base + p.2) 0 (dat p.1).length (dat p.1).length)))

theorem getD_fresh {α} (dat : α → List Cell) (arrs : List (List Cell)) (xs : List α) (j : Nat)
    (hj : j < xs.length) : (arrs ++ xs.map dat).getD (arrs.length + j) [] = dat xs[j] := by
  rw [List.getD_eq_getElem?_getD, List.getElem?_append_right (by omega)]
  simp [hj]

theorem freshCols_inb {α} (key nm : α → Str) (dat : α → List Cell) (arrs : List (List Cell)) (xs : List α) :
    ∀ kc ∈ freshCols key nm dat arrs.length xs, Inb (arrs ++ xs.map dat) kc.2.data := by
  intro kc hkc
  simp only [freshCols, List.mem_map] at hkc
  obtain ⟨⟨x, j⟩, hm, rfl⟩ := hkc
  obtain ⟨_, hj, hx⟩ := List.mem_zipIdx hm
  simp only [Nat.zero_add, Nat.sub_zero] at hj hx
  refine ⟨by simp; omega, Nat.le_refl _, ?_⟩
  simp only
  rw [getD_fresh dat arrs xs j hj, ← hx]
  omega

theorem freshCols_ids {α} (key nm : α → Str) (dat : α → List Cell) (base : Nat) (xs : List α) :
    ids (freshCols key nm dat base xs) = List.range' base xs.length := by
  simp only [ids, freshCols, List.map_map, Function.comp_def]
  have : (xs.zipIdx.map fun p => base + p.2) = (xs.zipIdx.map Prod.snd).map (base + ·) := by
    rw [List.map_map]; rfl
  rw [this, List.zipIdx_map_snd, List.map_add_range']
  simp

theorem freshCols_view {α} (key nm : α → Str) (dat : α → List Cell) (arrs : List (List Cell)) (xs : List α) :
    (freshCols key nm dat arrs.length xs).map
        (fun kc => (kc.1, ({ name := kc.2.name, data := readSlice (arrs ++ xs.map dat) kc.2.data } : Col))) =
      xs.map (fun x => (key x, { name := nm x, data := dat x })) := by
  have : xs.map (fun x => (key x, ({ name := nm x, data := dat x } : Col))) =
      xs.zipIdx.map (fun p => (key p.1, ({ name := nm p.1, data := dat p.1 } : Col))) := by
    conv => lhs; rw [← List.zipIdx_map_fst 0 xs]
    rw [List.map_map]; rfl
  rw [this]
  simp only [freshCols, List.map_map, Function.comp_def]
  apply List.map_congr_left
  rintro ⟨x, j⟩ hm
  obtain ⟨_, hj, hx⟩ := List.mem_zipIdx hm
  simp only [Nat.zero_add, Nat.sub_zero] at hj hx
  simp only [readSlice]
  rw [getD_fresh dat arrs xs j hj, ← hx]
  simp

theorem alloc_spec (h : H) (f : Frame) (hs : Sep h) :
    Sep (alloc h f) ∧ (∀ fid, fid < h.frames.length → view (alloc h f) fid = view h fid) ∧
    view (alloc h f) h.frames.length = f := by
  have hfr' : (alloc h f).frames = h.frames ++
      [freshCols (fun kc : Str × Col => kc.1) (fun kc => kc.2.name) (fun kc => kc.2.data) h.arrays.length f] ++ [] := by
    simp [alloc, freshCols]
  have harr : (alloc h f).arrays = h.arrays ++ f.map (fun kc => kc.2.data) := rfl
  obtain ⟨hsep, hsame⟩ := frame_rule h (alloc h f) h.frames [] _ [] (by simp) hfr' hs
    (by rw [harr]; simp)
    (by intro a ha _; rw [harr, List.getD_eq_getElem?_getD, List.getElem?_append_left ha,
          ← List.getD_eq_getElem?_getD])
    (by intro fr hfr kc hkc; simp only [List.mem_singleton] at hfr; subst hfr
        rw [harr]; exact freshCols_inb _ _ _ _ _ kc hkc)
    (by rw [allIds_single, freshCols_ids]; exact List.nodup_range' 1)
    (by intro a ha; rw [allIds_single, freshCols_ids, List.mem_range'_1] at ha; right; omega)
  refine ⟨hsep, ?_, ?_⟩
  · intro fid hfid
    apply view_congr
    · rw [hfr']; simp [List.getD_eq_getElem?_getD, List.getElem?_append_left hfid]
    · intro kc hkc
      refine hsame _ (Or.inl ?_) kc hkc
      rw [getD_frames hfid]; exact List.getElem_mem _
  · unfold view
    rw [hfr', harr]
    simp only [List.append_nil, List.getD_eq_getElem?_getD, List.getElem?_concat_length, Option.getD_some]
    rw [freshCols_view]
    simp

theorem getD_append_left {arrs ext : List (List Cell)} {a : Nat} (ha : a < arrs.length) :
    (arrs ++ ext).getD a [] = arrs.getD a [] := by
  rw [List.getD_eq_getElem?_getD, List.getElem?_append_left ha, ← List.getD_eq_getElem?_getD]

theorem view_set_self (arrs' : List (List Cell)) (frs : List (List (Str × HCol))) (fid : Nat)
    (hf : fid < frs.length) (fr' : List (Str × HCol)) :
    view ⟨arrs', frs.set fid fr'⟩ fid =
      fr'.map (fun kc => (kc.1, { name := kc.2.name, data := readSlice arrs' kc.2.data })) := by
  simp [view, List.getD_eq_getElem?_getD, hf]

theorem replaceData_spec (h : H) (hs : Sep h) (fid : Nat) (hf : fid < h.frames.length)
    (newData : Str → List Cell → List Cell) :
    Sep (replaceData h fid newData) ∧
    (∀ other, other ≠ fid → other < h.frames.length → view (replaceData h fid newData) other = view h other) ∧
    view (replaceData h fid newData) fid =
      (view h fid).map (fun kc => (kc.1, { kc.2 with data := newData kc.1 kc.2.data })) := by
  have heq : replaceData h fid newData =
      ⟨h.arrays ++ (h.frames.getD fid []).map (fun kc => newData kc.1 (readSlice h.arrays kc.2.data)),
       h.frames.set fid (freshCols (fun kc : Str × HCol => kc.1) (fun kc => kc.2.name)
         (fun kc => newData kc.1 (readSlice h.arrays kc.2.data)) h.arrays.length (h.frames.getD fid []))⟩ := by
    simp [replaceData, freshCols]
  rw [heq]
  obtain ⟨hsep, hoth⟩ := edit_rule h hs fid hf (h.arrays ++ (h.frames.getD fid []).map (fun kc => newData kc.1 (readSlice h.arrays kc.2.data)))
    (freshCols (fun kc : Str × HCol => kc.1) (fun kc => kc.2.name)
         (fun kc => newData kc.1 (readSlice h.arrays kc.2.data)) h.arrays.length (h.frames.getD fid [])) (by simp)
    (by intro a ha _; exact getD_append_left ha)
    (freshCols_inb _ _ _ _ _)
    (by rw [freshCols_ids]; exact List.nodup_range' 1)
    (by intro a ha; rw [freshCols_ids, List.mem_range'_1] at ha; right; omega)
  refine ⟨hsep, hoth, ?_⟩
  rw [view_set_self _ _ _ hf, freshCols_view]
  simp [view, List.map_map, Function.comp_def]

/-! ### editors that fold a per-column slice step over the columns of a frame -/

/-- what a per-column slice step must satisfy: it touches only the column's own array or a fresh one,
the new slice is in bounds and reads as `T` of the old contents -/
def StepOK {β} (st : List (List Cell) → SliceRef → β → List (List Cell) × SliceRef)
    (Pre : SliceRef → β → Prop) (T : List Cell → β → List Cell) : Prop :=
  ∀ arrs s x, Inb arrs s → Pre s x →
    arrs.length ≤ (st arrs s x).1.length ∧
    (∀ a, a < arrs.length → a ≠ s.arr → (st arrs s x).1.getD a [] = arrs.getD a []) ∧
    Inb (st arrs s x).1 (st arrs s x).2 ∧
    readSlice (st arrs s x).1 (st arrs s x).2 = T (readSlice arrs s) x ∧
    ((st arrs s x).2.arr = s.arr ∨ arrs.length ≤ (st arrs s x).2.arr)

def genFold {β} (st : List (List Cell) → SliceRef → β → List (List Cell) × SliceRef) :
    List (List Cell) → List ((Str × HCol) × β) → List (List Cell) × List (Str × HCol)
  | arrs, [] => (arrs, [])
  | arrs, p :: l =>
    ((genFold st (st arrs p.1.2.data p.2).1 l).1,
     (p.1.1, HCol.mk p.1.2.name (st arrs p.1.2.data p.2).2) :: (genFold st (st arrs p.1.2.data p.2).1 l).2)

def idl {β} (l : List ((Str × HCol) × β)) : List Nat := l.map (fun p => p.1.2.data.arr)

theorem genFold_spec {β} {st : List (List Cell) → SliceRef → β → List (List Cell) × SliceRef}
    {Pre : SliceRef → β → Prop} {T : List Cell → β → List Cell} (hok : StepOK st Pre T)
    (arrs : List (List Cell)) (l : List ((Str × HCol) × β))
    (hnd : (idl l).Nodup) (hinb : ∀ p ∈ l, Inb arrs p.1.2.data) (hpre : ∀ p ∈ l, Pre p.1.2.data p.2) :
    arrs.length ≤ (genFold st arrs l).1.length ∧
    (∀ a, a < arrs.length → a ∉ idl l → (genFold st arrs l).1.getD a [] = arrs.getD a []) ∧
    (∀ kc ∈ (genFold st arrs l).2, Inb (genFold st arrs l).1 kc.2.data ∧
      (kc.2.data.arr ∈ idl l ∨ arrs.length ≤ kc.2.data.arr)) ∧
    (ids (genFold st arrs l).2).Nodup ∧
    (genFold st arrs l).2.map
        (fun kc => (kc.1, ({ name := kc.2.name, data := readSlice (genFold st arrs l).1 kc.2.data } : Col))) =
      l.map (fun p => (p.1.1, { name := p.1.2.name, data := T (readSlice arrs p.1.2.data) p.2 })) := by
  induction l generalizing arrs with
  | nil => simp [genFold, ids, idl]
  | cons p l ih =>
    have hnd' : p.1.2.data.arr ∉ idl l ∧ (idl l).Nodup := by
      simpa [idl] using hnd
    obtain ⟨S1, S2, S3, S4, S5⟩ := hok arrs p.1.2.data p.2 (hinb p (List.mem_cons_self ..))
      (hpre p (List.mem_cons_self ..))
    have hne : ∀ q ∈ l, q.1.2.data.arr ≠ p.1.2.data.arr := by
      intro q hq heq
      exact hnd'.1 (by rw [← heq]; exact List.mem_map.mpr ⟨q, hq, rfl⟩)
    have hlt : ∀ q ∈ l, q.1.2.data.arr < arrs.length :=
      fun q hq => (hinb q (List.mem_cons_of_mem _ hq)).1
    have hinb1 : ∀ q ∈ l, Inb (st arrs p.1.2.data p.2).1 q.1.2.data := by
      intro q hq
      exact Inb_congr S1 (S2 _ (hlt q hq) (hne q hq)) (hinb q (List.mem_cons_of_mem _ hq))
    obtain ⟨I1, I2, I3, I4, I5⟩ := ih (st arrs p.1.2.data p.2).1 hnd'.2 hinb1
      (fun q hq => hpre q (List.mem_cons_of_mem _ hq))
    have hnotin : (st arrs p.1.2.data p.2).2.arr ∉ idl l := by
      intro hm
      obtain ⟨q, hq, hqe⟩ := List.mem_map.mp hm
      rcases S5 with h | h
      · exact hne q hq (by rw [hqe, h])
      · have := hlt q hq; omega
    have hsame := I2 _ S3.1 hnotin
    simp only [genFold]
    refine ⟨by omega, ?_, ?_, ?_, ?_⟩
    · intro a ha hnot
      have hnot' : a ≠ p.1.2.data.arr ∧ a ∉ idl l := by simpa [idl] using hnot
      rw [I2 a (by omega) hnot'.2, S2 a ha hnot'.1]
    · intro kc hkc
      rcases List.mem_cons.mp hkc with rfl | hkc
      · refine ⟨Inb_congr I1 hsame S3, ?_⟩
        rcases S5 with h | h
        · left; simp [idl, h]
        · right; exact h
      · obtain ⟨hb, hor⟩ := I3 kc hkc
        refine ⟨hb, ?_⟩
        rcases hor with h | h
        · left; simp only [idl, List.map_cons, List.mem_cons]; right; exact h
        · right; omega
    · simp only [ids, List.map_cons, List.nodup_cons]
      refine ⟨?_, I4⟩
      intro hm
      obtain ⟨kc, hkc, hkce⟩ := List.mem_map.mp hm
      obtain ⟨_, hor⟩ := I3 kc hkc
      rcases hor with h | h
      · exact hnotin (hkce ▸ h)
      · have := S3.1; omega
    · simp only [List.map_cons]
      congr 1
      · rw [readSlice_congr hsame, S4]
      · rw [I5]
        apply List.map_congr_left
        intro q hq
        rw [readSlice_congr (S2 _ (hlt q hq) (hne q hq))]

theorem getD_set_ne {arrs : List (List Cell)} {a b : Nat} (x : List Cell) (hab : a ≠ b) :
    (arrs.set b x).getD a [] = arrs.getD a [] := by
  simp [List.getD_eq_getElem?_getD, List.getElem?_set_ne (Ne.symm hab)]

theorem getD_set_same {arrs : List (List Cell)} {b : Nat} (x : List Cell) (hb : b < arrs.length) :
    (arrs.set b x).getD b [] = x := by
  simp [List.getD_eq_getElem?_getD, hb]

theorem readSlice_length {arrs : List (List Cell)} {s : SliceRef} (hb : Inb arrs s) :
    (readSlice arrs s).length = s.len := by
  obtain ⟨_, h2, h3⟩ := hb
  simp only [readSlice, List.length_take, List.length_drop]
  omega

theorem mid_read (X E R : List Cell) (n m : Nat) (hx : X.length = n) (he : E.length = m) :
    ((X ++ E ++ R).drop n).take m = E := by
  subst hx he; simp

theorem take_succ_set (B : List Cell) (n : Nat) (v : Cell) (hn : n < B.length) :
    (B.set n v).take (n + 1) = B.take n ++ [v] := by
  rw [List.take_add_one]
  simp [hn, List.take_set_of_le]

/-- the frame's own array ids are distinct in a separated heap -/
theorem ids_nodup {h : H} (hs : Sep h) {fid : Nat} (hf : fid < h.frames.length) :
    (ids (h.frames.getD fid [])).Nodup := by
  rw [sep_iff] at hs
  have hsplit : h.frames = h.frames.take fid ++ [h.frames[fid]] ++ h.frames.drop (fid + 1) := by simp
  have := hs.2
  rw [hsplit, allIds_append, allIds_append, allIds_single, List.nodup_append, List.nodup_append] at this
  rw [getD_frames hf]
  exact this.1.2.1

theorem inb_of_sep {h : H} (hs : Sep h) {fid : Nat} (hf : fid < h.frames.length) :
    ∀ kc ∈ h.frames.getD fid [], Inb h.arrays kc.2.data := by
  rw [sep_iff] at hs
  rw [getD_frames hf]
  exact hs.1 _ (List.getElem_mem _)

/-- the generic editor theorem -/
theorem genEdit {β} {st : List (List Cell) → SliceRef → β → List (List Cell) × SliceRef}
    {Pre : SliceRef → β → Prop} {T : List Cell → β → List Cell} (hok : StepOK st Pre T)
    (h : H) (hs : Sep h) (fid : Nat) (hf : fid < h.frames.length) (l : List ((Str × HCol) × β))
    (hl : l.map (fun p => p.1) = h.frames.getD fid []) (hpre : ∀ p ∈ l, Pre p.1.2.data p.2) :
    Sep ⟨(genFold st h.arrays l).1, h.frames.set fid (genFold st h.arrays l).2⟩ ∧
    (∀ other, other ≠ fid → other < h.frames.length →
      view ⟨(genFold st h.arrays l).1, h.frames.set fid (genFold st h.arrays l).2⟩ other = view h other) ∧
    view ⟨(genFold st h.arrays l).1, h.frames.set fid (genFold st h.arrays l).2⟩ fid =
      l.map (fun p => (p.1.1, { name := p.1.2.name, data := T (readSlice h.arrays p.1.2.data) p.2 })) := by
  have hidl : idl l = ids (h.frames.getD fid []) := by
    rw [← hl]; simp [idl, ids, List.map_map, Function.comp_def]
  have hmem : ∀ p ∈ l, p.1 ∈ h.frames.getD fid [] := by
    intro p hp; rw [← hl]; exact List.mem_map.mpr ⟨p, hp, rfl⟩
  obtain ⟨G1, G2, G3, G4, G5⟩ := genFold_spec hok h.arrays l (by rw [hidl]; exact ids_nodup hs hf)
    (fun p hp => inb_of_sep hs hf _ (hmem p hp)) hpre
  obtain ⟨hsep, hoth⟩ := edit_rule h hs fid hf (genFold st h.arrays l).1 (genFold st h.arrays l).2 G1
    (by rw [← hidl]; exact G2) (fun kc hkc => (G3 kc hkc).1) G4
    (by intro a ha
        obtain ⟨kc, hkc, rfl⟩ := mem_ids.mp ha
        rw [← hidl]; exact (G3 kc hkc).2)
  refine ⟨hsep, hoth, ?_⟩
  rw [view_set_self _ _ _ hf, G5]

/-! ### the three slice steps -/

theorem appendSlice_ok (g : Nat → Nat) :
    StepOK (fun arrs s v => appendSlice g arrs s v) (fun _ _ => True) (fun d v => d ++ [v]) := by
  intro arrs s v hb _
  have hlen := readSlice_length hb
  obtain ⟨hb1, hb2, hb3⟩ := hb
  simp only [appendSlice]
  split
  · next hlt =>
    simp only [writeArr]
    refine ⟨by simp, ?_, ?_, ?_, by simp⟩
    · intro a _ hne; exact getD_set_ne _ hne
    · refine ⟨by simpa using hb1, by simp only; omega, ?_⟩
      simp only [getD_set_same _ hb1, List.length_set]; exact hb3
    · simp only [readSlice, getD_set_same _ hb1]
      rw [List.drop_set, if_neg (by omega), Nat.add_sub_cancel_left, take_succ_set]
      simp only [List.length_drop]; omega
  · next hge =>
    refine ⟨by simp, ?_, ?_, ?_, Or.inr (Nat.le_refl _)⟩
    · intro a ha _; exact getD_append_left ha
    · refine ⟨by simp, by simp only; omega, ?_⟩
      simp only [List.getD_eq_getElem?_getD, List.getElem?_concat_length, Option.getD_some,
        List.length_append, List.length_replicate, hlen, List.length_cons, List.length_nil]
      omega
    · simp only [readSlice, List.getD_eq_getElem?_getD, List.getElem?_concat_length, Option.getD_some,
        List.drop_zero]
      have : ((arrs[s.arr]?.getD []).drop s.off |>.take s.len) = readSlice arrs s := by
        simp [readSlice, List.getD_eq_getElem?_getD]
      rw [this]
      rw [List.take_append_of_le_length (by simp [hlen])]
      rw [List.take_of_length_le (by simp [hlen])]

theorem dropRowSlice_ok :
    StepOK (fun arrs s (i : Nat) => dropRowSlice arrs s i) (fun s i => i < s.len)
      (fun d i => d.eraseIdx i) := by
  intro arrs s i hb hpre
  have hlen := readSlice_length hb
  obtain ⟨hb1, hb2, hb3⟩ := hb
  simp only [dropRowSlice]
  have hE : ((readSlice arrs s).eraseIdx i).length = s.len - 1 := by
    rw [List.length_eraseIdx_of_lt (by omega), hlen]
  have hX : ((arrs.getD s.arr []).take s.off).length = s.off := by
    simp only [List.length_take]; omega
  refine ⟨by simp, ?_, ?_, ?_, by simp⟩
  · intro a _ hne; exact getD_set_ne _ hne
  · refine ⟨by simpa using hb1, by simp only; omega, ?_⟩
    simp only [getD_set_same _ hb1, List.length_append, hE, hX, List.length_drop]
    omega
  · simp only [readSlice, getD_set_same _ hb1]
    exact mid_read _ _ _ _ _ hX hE

def fillStep (arrs : List (List Cell)) (s : SliceRef) (v : Cell) : List (List Cell) × SliceRef :=
  (arrs.set s.arr ((arrs.getD s.arr []).take s.off ++
      (((arrs.getD s.arr []).drop s.off).take s.len).map (fun c => if c.isNil then v else c) ++
      (arrs.getD s.arr []).drop (s.off + s.len)), s)

theorem fillStep_ok :
    StepOK fillStep (fun _ _ => True) (fun d v => d.map (fun c => if c.isNil then v else c)) := by
  intro arrs s v hb _
  have hlen := readSlice_length hb
  obtain ⟨hb1, hb2, hb3⟩ := hb
  simp only [fillStep]
  have hE : ((readSlice arrs s).map (fun c => if c.isNil then v else c)).length = s.len := by
    rw [List.length_map, hlen]
  have hX : ((arrs.getD s.arr []).take s.off).length = s.off := by
    simp only [List.length_take]; omega
  refine ⟨by simp, ?_, ?_, ?_, by simp⟩
  · intro a _ hne; exact getD_set_ne _ hne
  · refine ⟨by simpa using hb1, hb2, ?_⟩
    simp only [getD_set_same _ hb1, List.length_append, List.length_map, List.length_take,
      List.length_drop]
    omega
  · simp only [readSlice, getD_set_same _ hb1]
    exact mid_read _ _ _ _ _ hX hE

/-! ### the editors as instances of `genFold` -/

theorem appendFold_eq (g : Nat → Nat) (l : List ((Str × HCol) × Cell))
    (acc : List (List Cell) × List (Str × HCol)) :
    l.foldl (fun (acc : List (List Cell) × List (Str × HCol)) (kcv : (Str × HCol) × Cell) =>
      let (arrs, s') := appendSlice g acc.1 kcv.1.2.data kcv.2
      (arrs, acc.2 ++ [(kcv.1.1, { kcv.1.2 with data := s' })])) acc =
    ((genFold (fun arrs s v => appendSlice g arrs s v) acc.1 l).1,
     acc.2 ++ (genFold (fun arrs s v => appendSlice g arrs s v) acc.1 l).2) := by
  induction l generalizing acc with
  | nil => simp [genFold]
  | cons p l ih => rw [List.foldl_cons, ih]; simp [genFold]

theorem appendRowH_eq (g : Nat → Nat) (h : H) (fid : Nat) (vals : List Cell) :
    appendRowH g h fid vals =
      ⟨(genFold (fun arrs s v => appendSlice g arrs s v) h.arrays ((h.frames.getD fid []).zip vals)).1,
       h.frames.set fid
        (genFold (fun arrs s v => appendSlice g arrs s v) h.arrays ((h.frames.getD fid []).zip vals)).2⟩ := by
  unfold appendRowH
  have := appendFold_eq g ((h.frames.getD fid []).zip vals) (h.arrays, [])
  simp only [List.nil_append] at this
  simp only [this]

theorem appendRow_spec (g : Nat → Nat) (h : H) (hs : Sep h) (fid : Nat) (hf : fid < h.frames.length)
    (vals : List Cell) (hv : vals.length = (h.frames.getD fid []).length) :
    Sep (appendRowH g h fid vals) ∧
    (∀ other, other ≠ fid → other < h.frames.length → view (appendRowH g h fid vals) other = view h other) ∧
    view (appendRowH g h fid vals) fid =
      ((view h fid).zip vals).map (fun (kc, v) => (kc.1, { kc.2 with data := kc.2.data ++ [v] })) := by
  rw [appendRowH_eq]
  obtain ⟨h1, h2, h3⟩ := genEdit (appendSlice_ok g) h hs fid hf ((h.frames.getD fid []).zip vals)
    (by have := List.map_fst_zip (l₁ := h.frames.getD fid []) (l₂ := vals) (by omega)
        exact this) (fun _ _ => trivial)
  refine ⟨h1, h2, ?_⟩
  rw [h3]
  simp [view, List.zip_map_left, List.map_map, Function.comp_def]

theorem dropFold_eq (i : Nat) (fr : List (Str × HCol)) (acc : List (List Cell) × List (Str × HCol)) :
    fr.foldl (fun (acc : List (List Cell) × List (Str × HCol)) kc =>
      let (arrs, s') := dropRowSlice acc.1 kc.2.data i
      (arrs, acc.2 ++ [(kc.1, { kc.2 with data := s' })])) acc =
    ((genFold (fun arrs s (i : Nat) => dropRowSlice arrs s i) acc.1 (fr.map (fun kc => (kc, i)))).1,
     acc.2 ++ (genFold (fun arrs s (i : Nat) => dropRowSlice arrs s i) acc.1 (fr.map (fun kc => (kc, i)))).2) := by
  induction fr generalizing acc with
  | nil => simp [genFold]
  | cons p l ih => rw [List.foldl_cons, ih]; simp [genFold]

theorem dropRowH_eq (h : H) (fid : Nat) (i : Nat) :
    dropRowH h fid i =
      ⟨(genFold (fun arrs s (i : Nat) => dropRowSlice arrs s i) h.arrays
          ((h.frames.getD fid []).map (fun kc => (kc, i)))).1,
       h.frames.set fid
        (genFold (fun arrs s (i : Nat) => dropRowSlice arrs s i) h.arrays
          ((h.frames.getD fid []).map (fun kc => (kc, i)))).2⟩ := by
  unfold dropRowH
  have := dropFold_eq i (h.frames.getD fid []) (h.arrays, [])
  simp only [List.nil_append] at this
  simp only [this]

theorem dropRow_spec (h : H) (hs : Sep h) (fid : Nat) (hf : fid < h.frames.length) (i : Nat)
    (hi : ∀ kc ∈ h.frames.getD fid [], i < kc.2.data.len) :
    Sep (dropRowH h fid i) ∧
    (∀ other, other ≠ fid → other < h.frames.length → view (dropRowH h fid i) other = view h other) ∧
    view (dropRowH h fid i) fid =
      (view h fid).map (fun kc => (kc.1, { kc.2 with data := kc.2.data.eraseIdx i })) := by
  rw [dropRowH_eq]
  obtain ⟨h1, h2, h3⟩ := genEdit dropRowSlice_ok h hs fid hf ((h.frames.getD fid []).map (fun kc => (kc, i)))
    (by simp [List.map_map, Function.comp_def])
    (by intro p hp
        obtain ⟨kc, hkc, rfl⟩ := List.mem_map.mp hp
        exact hi kc hkc)
  refine ⟨h1, h2, ?_⟩
  rw [h3]
  simp [view, List.map_map, Function.comp_def]

theorem fillFold_eq (v : Cell) (fr : List (Str × HCol)) (arrs : List (List Cell)) :
    fr.foldl (fun arrs kc =>
      let s := kc.2.data
      let arr := arrs.getD s.arr []
      arrs.set s.arr (arr.take s.off ++ ((arr.drop s.off).take s.len).map (fun c => if c.isNil then v else c) ++
        arr.drop (s.off + s.len))) arrs =
    (genFold fillStep arrs (fr.map (fun kc => (kc, v)))).1 ∧
    (genFold fillStep arrs (fr.map (fun kc => (kc, v)))).2 = fr := by
  induction fr generalizing arrs with
  | nil => simp [genFold]
  | cons p l ih =>
    rw [List.foldl_cons, (ih _).1]
    constructor
    · simp [genFold, fillStep]
    · simp only [List.map_cons, genFold]
      rw [(ih _).2]
      rfl

theorem fillNaH_eq (h : H) (fid : Nat) (hf : fid < h.frames.length) (v : Cell) :
    fillNaH h fid v =
      ⟨(genFold fillStep h.arrays ((h.frames.getD fid []).map (fun kc => (kc, v)))).1,
       h.frames.set fid (genFold fillStep h.arrays ((h.frames.getD fid []).map (fun kc => (kc, v)))).2⟩ := by
  unfold fillNaH
  have := fillFold_eq v (h.frames.getD fid []) h.arrays
  simp only at this
  simp only [this.1, this.2]
  congr 1
  rw [getD_frames hf]
  simp

theorem fillNa_spec (h : H) (hs : Sep h) (fid : Nat) (hf : fid < h.frames.length) (v : Cell) :
    Sep (fillNaH h fid v) ∧
    (∀ other, other ≠ fid → other < h.frames.length → view (fillNaH h fid v) other = view h other) ∧
    view (fillNaH h fid v) fid =
      (view h fid).map (fun kc => (kc.1, { kc.2 with data := kc.2.data.map (fun c => if c.isNil then v else c) })) := by
  rw [fillNaH_eq h fid hf]
  obtain ⟨h1, h2, h3⟩ := genEdit fillStep_ok h hs fid hf ((h.frames.getD fid []).map (fun kc => (kc, v)))
    (by simp [List.map_map, Function.comp_def]) (fun _ _ => trivial)
  refine ⟨h1, h2, ?_⟩
  rw [h3]
  simp [view, List.map_map, Function.comp_def]

/-! ### `storeCell` -/

theorem inj_of_nodup_map {α β} (f : α → β) (l : List α) (h : (l.map f).Nodup) :
    ∀ x ∈ l, ∀ y ∈ l, f x = f y → x = y := by
  induction l with
  | nil => simp
  | cons a l ih =>
    simp only [List.map_cons, List.nodup_cons, List.mem_map, not_exists, not_and] at h
    intro x hx y hy hxy
    rcases List.mem_cons.mp hx with hxa | hx <;> rcases List.mem_cons.mp hy with hya | hy
    · rw [hxa, hya]
    · exact absurd (by rw [← hxa]; exact hxy.symm) (h.1 y hy)
    · exact absurd (by rw [← hya]; exact hxy) (h.1 x hx)
    · exact ih h.2 x hx y hy hxy

theorem writeArr_getD_length (arrs : List (List Cell)) (a j b : Nat) (v : Cell) :
    ((writeArr arrs a j v).getD b []).length = (arrs.getD b []).length := by
  unfold writeArr
  by_cases hba : b = a
  · subst hba
    by_cases hlt : b < arrs.length
    · rw [getD_set_same _ hlt, List.length_set]
    · rw [List.set_eq_of_length_le (by omega)]
  · rw [getD_set_ne _ hba]

theorem storeCell_spec (h : H) (hs : Sep h) (fid : Nat) (k : Str) (c : HCol) (i : Nat) (v : Cell)
    (hk : (k, c) ∈ h.frames.getD fid [])
    (hnd : ((h.frames.getD fid []).map (·.1)).Nodup) :
    Sep (storeCell h c.data i v) ∧
    (∀ other, other ≠ fid → view (storeCell h c.data i v) other = view h other) ∧
    view (storeCell h c.data i v) fid =
      (view h fid).map (fun kc => if kc.1 = k then (kc.1, { kc.2 with data := kc.2.data.set i v }) else kc) := by
  have hf : fid < h.frames.length := by
    apply Classical.byContradiction
    intro hge
    rw [List.getD_eq_getElem?_getD, List.getElem?_eq_none (by omega)] at hk
    simp at hk
  have hc := inb_of_sep hs hf _ hk
  have hidn := ids_nodup hs hf
  have heq : storeCell h c.data i v =
      ⟨writeArr h.arrays c.data.arr (c.data.off + i) v, h.frames.set fid (h.frames.getD fid [])⟩ := by
    simp only [storeCell]
    rw [getD_frames hf, List.set_getElem_self]
  rw [heq]
  obtain ⟨hsep, hoth⟩ := edit_rule h hs fid hf (writeArr h.arrays c.data.arr (c.data.off + i) v)
    (h.frames.getD fid []) (by simp [writeArr])
    (by intro a _ hnot
        have hne : a ≠ c.data.arr := fun he => hnot (mem_ids.mpr ⟨(k, c), hk, he.symm⟩)
        exact getD_set_ne _ hne)
    (by intro kc hkc
        obtain ⟨b1, b2, b3⟩ := inb_of_sep hs hf kc hkc
        exact ⟨by simpa [writeArr] using b1, b2, by rw [writeArr_getD_length]; exact b3⟩)
    hidn (fun a ha => Or.inl ha)
  refine ⟨hsep, fun other hne => ?_, ?_⟩
  · by_cases ho : other < h.frames.length
    · exact hoth other hne ho
    · simp [view, List.getD_eq_getElem?_getD, List.getElem?_set_ne (Ne.symm hne),
        List.getElem?_eq_none (Nat.le_of_not_lt ho)]
  · rw [view_set_self _ _ _ hf]
    unfold view
    rw [List.map_map]
    apply List.map_congr_left
    intro kc hkc
    simp only [Function.comp_def]
    by_cases hkk : kc.1 = k
    · have hkc_eq : kc = (k, c) := inj_of_nodup_map (·.1) _ hnd kc hkc (k, c) hk hkk
      subst hkc_eq
      simp only [if_true]
      congr 2
      obtain ⟨b1, b2, b3⟩ := hc
      simp only [readSlice, writeArr, getD_set_same _ b1]
      rw [List.drop_set, if_neg (by omega), Nat.add_sub_cancel_left, List.take_set]
    · simp only [if_neg hkk]
      have hne : kc.2.data.arr ≠ c.data.arr := by
        intro he
        have := inj_of_nodup_map (fun kc : Str × HCol => kc.2.data.arr) _ hidn kc hkc (k, c) hk he
        exact hkk (by rw [this])
      have hg := getD_set_ne (arrs := h.arrays) ((h.arrays.getD c.data.arr []).set (c.data.off + i) v) hne
      rw [readSlice_congr (arrs' := writeArr h.arrays c.data.arr (c.data.off + i) v) hg]

end Goframe.HeapLemmas
