import GoframeModel.Step
import GoframeModel.Lemmas.RefineA
/-
  Per-operation preservation of rectangularity (`Rect`) and key-sortedness (`Sorted`): the lemmas
  behind C01 `step_good`.
-/
namespace Goframe.RectLemmas
open Goframe Frame

/-! ### generic facts -/

theorem rectN_nil (n : Nat) : RectN [] n := by intro kc h; cases h

theorem rect_nil : Rect [] := ⟨0, rectN_nil 0⟩

theorem sorted_nil : Sorted [] := List.Pairwise.nil

theorem rectN_nrows {f : Frame} (h : f.Rect) : RectN f f.nrows := by
  obtain ⟨n, hn⟩ := h
  cases f with
  | nil => exact rectN_nil _
  | cons kc rest =>
    have : nrows (kc :: rest) = n := nrows_of_rectN hn (by simp)
    rw [this]; exact hn

theorem nrows_eq {f : Frame} {n : Nat} (h : RectN f n) (hne : f ≠ []) : f.nrows = n :=
  nrows_of_rectN h hne

theorem sorted_iff_keys (f : Frame) : f.Sorted ↔ f.keys.Pairwise (fun a b => strLt a b = true) := by
  simp [Sorted, keys, List.pairwise_map]

theorem sorted_of_keys_eq {f g : Frame} (h : g.keys = f.keys) (hs : f.Sorted) : g.Sorted := by
  rw [sorted_iff_keys] at *; rw [h]; exact hs

theorem rectN_map_iff (f : Frame) (F : Str × Col → Str × Col) (m : Nat) :
    RectN (f.map F) m ↔ ∀ kc ∈ f, (F kc).2.data.length = m ∧ (F kc).2.name = (F kc).1 := by
  unfold RectN
  constructor
  · intro h kc hkc; exact h (F kc) (List.mem_map_of_mem hkc)
  · intro h x hx
    obtain ⟨kc, hkc, rfl⟩ := List.mem_map.mp hx
    exact h kc hkc

theorem sorted_map {f : Frame} (F : Str × Col → Str × Col) (hF : ∀ kc, (F kc).1 = kc.1)
    (hs : f.Sorted) : Sorted (f.map F) := by
  unfold Sorted at *; rw [List.pairwise_map]; simpa [hF] using hs

theorem keys_map (f : Frame) (F : Str × Col → Str × Col) (hF : ∀ kc, (F kc).1 = kc.1) :
    keys (f.map F) = keys f := by
  simp [keys, List.map_map, Function.comp_def, hF]

/-! ### `set` / `erase` -/

theorem mem_set {f : Frame} {k : Str} {c : Col} {x : Str × Col} (h : x ∈ f.set k c) :
    x = (k, c) ∨ x ∈ f := by
  induction f with
  | nil => simp [Frame.set] at h; exact Or.inl h
  | cons kc rest ih =>
    obtain ⟨k', c'⟩ := kc
    simp only [Frame.set] at h
    split at h
    · rcases List.mem_cons.mp h with h | h
      · exact Or.inl h
      · exact Or.inr (List.mem_cons_of_mem _ h)
    · split at h
      · rcases List.mem_cons.mp h with h | h
        · exact Or.inl h
        · exact Or.inr h
      · rcases List.mem_cons.mp h with h | h
        · exact Or.inr (h ▸ List.mem_cons_self ..)
        · rcases ih h with h | h
          · exact Or.inl h
          · exact Or.inr (List.mem_cons_of_mem _ h)

theorem rectN_set {f : Frame} {n : Nat} (hr : RectN f n) {k : Str} {c : Col}
    (hl : c.data.length = n) (hn : c.name = k) : RectN (f.set k c) n := by
  intro x hx
  rcases mem_set hx with h | h
  · subst h; exact ⟨hl, hn⟩
  · exact hr x h

theorem sorted_set {f : Frame} (hs : f.Sorted) (k : Str) (c : Col) : (f.set k c).Sorted := by
  induction f with
  | nil => simp [Frame.set, Sorted]
  | cons kc rest ih =>
    obtain ⟨k', c'⟩ := kc
    simp only [Frame.set]
    split
    · rename_i h
      have : k = k' := eq_of_beq h
      subst this
      unfold Sorted at *
      rw [List.pairwise_cons] at *
      exact ⟨fun x hx => hs.1 x hx, hs.2⟩
    · split
      · rename_i h1 h2
        unfold Sorted at *
        rw [List.pairwise_cons]
        refine ⟨?_, hs⟩
        intro x hx
        rcases List.mem_cons.mp hx with hx | hx
        · subst hx; exact h2
        · exact strLt_trans _ _ _ h2 ((List.pairwise_cons.mp hs).1 x hx)
      · rename_i h1 h2
        have hlt : strLt k' k = true := by
          cases h3 : strLt k' k with
          | true => rfl
          | false =>
            have := strLt_total k k' (by simpa using h2) h3
            subst this; simp at h1
        unfold Sorted at *
        rw [List.pairwise_cons] at *
        refine ⟨?_, ih hs.2⟩
        intro x hx
        rcases mem_set hx with hx | hx
        · subst hx; exact hlt
        · exact hs.1 x hx

theorem sorted_erase {f : Frame} (hs : f.Sorted) (k : Str) : (f.erase k).Sorted :=
  List.Pairwise.sublist (List.filter_sublist) hs

theorem rectN_erase {f : Frame} {n : Nat} (hr : RectN f n) (k : Str) : RectN (f.erase k) n := by
  intro x hx
  exact hr x (List.mem_filter.mp hx).1

theorem mem_of_get? {f : Frame} {k : Str} {c : Col} (h : f.get? k = some c) : (k, c) ∈ f :=
  get?_mem h

theorem get?_rect {f : Frame} {n : Nat} (hr : RectN f n) {k : Str} {c : Col} (h : f.get? k = some c) :
    c.data.length = n ∧ c.name = k := hr (k, c) (get?_mem h)

/-! ### `appendRow`, `pushRow` -/

theorem addMissing_rectN {f : Frame} {n : Nat} (hr : RectN f n) (r : Row) :
    RectN (addMissing f n r) n := by
  induction r generalizing f with
  | nil => exact hr
  | cons kv rest ih =>
    obtain ⟨k, v⟩ := kv
    simp only [addMissing]
    apply ih
    split
    · exact hr
    · exact rectN_set hr (by simp) rfl

theorem addMissing_sorted {f : Frame} (hs : f.Sorted) (n : Nat) (r : Row) :
    (addMissing f n r).Sorted := by
  induction r generalizing f with
  | nil => exact hs
  | cons kv rest ih =>
    obtain ⟨k, v⟩ := kv
    simp only [addMissing]
    apply ih
    split
    · exact hs
    · exact sorted_set hs _ _

theorem pushRow_rectN {f : Frame} {n : Nat} (hr : RectN f n) (r : Row) : RectN (pushRow f r) (n + 1) := by
  unfold pushRow
  rw [rectN_map_iff]
  intro kc hkc
  have := hr kc hkc
  simp [this.1, this.2]

theorem pushRow_sorted {f : Frame} (hs : f.Sorted) (r : Row) : (pushRow f r).Sorted :=
  sorted_map _ (fun _ => rfl) hs

theorem appendRow_eq (f : Frame) (r : Row) : appendRow f r = pushRow (addMissing f f.nrows r) r := rfl

theorem appendRow_rect {f : Frame} (hr : f.Rect) (r : Row) : (appendRow f r).Rect := by
  rw [appendRow_eq]
  exact ⟨_, pushRow_rectN (addMissing_rectN (rectN_nrows hr) r) r⟩

theorem appendRow_sorted {f : Frame} (hs : f.Sorted) (r : Row) : (appendRow f r).Sorted := by
  rw [appendRow_eq]
  exact pushRow_sorted (addMissing_sorted hs _ r) r

theorem emptyLike_rectN (f : Frame) : RectN (emptyLike f) 0 := by
  unfold emptyLike; rw [rectN_map_iff]; intro kc _; simp

theorem emptyLike_sorted {f : Frame} (hs : f.Sorted) : (emptyLike f).Sorted :=
  sorted_map _ (fun _ => rfl) hs


/-- the C01 invariant on one frame -/
def G (f : Frame) : Prop := f.Rect ∧ f.Sorted

theorem G_nil : G [] := ⟨rect_nil, sorted_nil⟩

theorem appendRow_G {f : Frame} (h : G f) (r : Row) : G (appendRow f r) :=
  ⟨appendRow_rect h.1 r, appendRow_sorted h.2 r⟩

theorem pushRow_G {f : Frame} (h : G f) (r : Row) : G (pushRow f r) := by
  obtain ⟨⟨n, hn⟩, hs⟩ := h
  exact ⟨⟨_, pushRow_rectN hn r⟩, pushRow_sorted hs r⟩

theorem emptyLike_G {f : Frame} (hs : f.Sorted) : G (emptyLike f) :=
  ⟨⟨0, emptyLike_rectN f⟩, emptyLike_sorted hs⟩

/-! ### Head / Tail -/

theorem mapColsM_ok {g : List Cell → Outcome (List Cell)} {f r : Frame} (h : mapColsM g f = .ok r) :
    r.keys = f.keys ∧
      ∀ m, (∀ kc ∈ f, ∀ d, g kc.2.data = .ok d → d.length = m) → RectN r m := by
  induction f generalizing r with
  | nil =>
    simp only [mapColsM, Outcome.ok.injEq] at h
    subst h; exact ⟨rfl, fun m _ => rectN_nil m⟩
  | cons kc rest ih =>
    obtain ⟨k, c⟩ := kc
    simp only [mapColsM] at h
    cases hg : g c.data with
    | err e => simp [hg] at h
    | panic e => simp [hg] at h
    | ok d =>
      cases hm : mapColsM g rest with
      | err e => simp [hg, hm] at h
      | panic e => simp [hg, hm] at h
      | ok r' =>
        simp only [hg, hm, Outcome.bind_ok, Outcome.pure_eq, Outcome.ok.injEq] at h
        subst h
        obtain ⟨hk, hrect⟩ := ih hm
        refine ⟨by simp [keys] at hk ⊢; exact hk, ?_⟩
        intro m hm' x hx
        rcases List.mem_cons.mp hx with hx | hx
        · subst hx
          exact ⟨hm' (k, c) (List.mem_cons_self ..) d hg, rfl⟩
        · exact hrect m (fun kc hkc => hm' kc (List.mem_cons_of_mem _ hkc)) x hx

theorem sliceTo_ok {d d' : List Cell} {n : Int} (h : sliceTo d n = .ok d') : d' = d.take n.toNat := by
  unfold sliceTo at h; split at h <;> simp at h; exact h.symm

theorem sliceFrom_ok {d d' : List Cell} {n : Int} (h : sliceFrom d n = .ok d') : d' = d.drop n.toNat := by
  unfold sliceFrom at h; split at h <;> simp at h; exact h.symm

theorem sliceTo_G {f r : Frame} {n : Int} (hg : G f) (h : mapColsM (fun d => sliceTo d n) f = .ok r) : G r := by
  obtain ⟨hk, hr⟩ := mapColsM_ok h
  refine ⟨⟨_, hr (min n.toNat f.nrows) ?_⟩, sorted_of_keys_eq hk hg.2⟩
  intro kc hkc d hd
  have := sliceTo_ok hd
  subst this
  rw [List.length_take, (rectN_nrows hg.1 kc hkc).1]

theorem sliceFrom_G {f r : Frame} {n : Int} (hg : G f) (h : mapColsM (fun d => sliceFrom d n) f = .ok r) : G r := by
  obtain ⟨hk, hr⟩ := mapColsM_ok h
  refine ⟨⟨_, hr (f.nrows - n.toNat) ?_⟩, sorted_of_keys_eq hk hg.2⟩
  intro kc hkc d hd
  have := sliceFrom_ok hd
  subst this
  rw [List.length_drop, (rectN_nrows hg.1 kc hkc).1]

theorem head_G {f r : Frame} {n : Int} (hg : G f) (h : f.head n = .ok r) : G r :=
  sliceTo_G hg h

theorem tail_G {f r : Frame} {n : Int} (hg : G f) (h : f.tail n = .ok r) : G r :=
  sliceFrom_G hg h

theorem ite_G {c : Prop} [Decidable c] {a b : Frame} (ha : G a) (hb : G b) : G (if c then a else b) := by
  split <;> assumption

/-! ### RowSlice / Filter -/

theorem appendRowsFrom_G (src : Frame) {acc : Frame} (h : G acc) (a cnt : Nat) :
    G (appendRowsFrom src acc a cnt) := by
  induction cnt generalizing acc a with
  | zero => exact h
  | succ cnt ih =>
    simp only [appendRowsFrom]
    split
    · exact ih (appendRow_G h _) _
    · exact ih h _

theorem rowSlice_G {f : Frame} (hg : G f) (a b : Int) : G (f.rowSlice a b) := by
  unfold rowSlice
  exact ite_G (emptyLike_G hg.2) (appendRowsFrom_G f (emptyLike_G hg.2) _ _)

theorem filterAux_G (src : Frame) (p : Nat → Row → Bool) {acc : Frame} (h : G acc) (i calls cnt : Nat) :
    G (filterAux src p acc i calls cnt) := by
  induction cnt generalizing acc i calls with
  | zero => exact h
  | succ cnt ih =>
    simp only [filterAux]
    split
    · apply ih
      split
      · exact pushRow_G h _
      · exact h
    · exact ih h _ _

theorem filter_G {f : Frame} (hg : G f) (p : Nat → Row → Bool) : G (f.filter p) :=
  filterAux_G f p (emptyLike_G hg.2) _ _ _

/-! ### Loc / Iloc / MultiSelect -/

theorem emptyCols_G0 {acc : Frame} (hr : RectN acc 0) (hs : acc.Sorted) (ks : List Str) :
    RectN (emptyCols acc ks) 0 ∧ (emptyCols acc ks).Sorted := by
  induction ks generalizing acc with
  | nil => exact ⟨hr, hs⟩
  | cons k ks ih =>
    simp only [emptyCols]
    exact ih (rectN_set hr rfl rfl) (sorted_set hs _ _)

theorem emptyCols_G (ks : List Str) : G (emptyCols [] ks) :=
  let h := emptyCols_G0 (rectN_nil 0) sorted_nil ks
  ⟨⟨0, h.1⟩, h.2⟩

theorem locRow_G {acc : Frame} (h : G acc) (r : Row) (lab : Cell) (ls : List Cell) :
    G (locRow acc r lab ls) := by
  induction ls generalizing acc with
  | nil => exact h
  | cons l ls ih =>
    simp only [locRow]
    apply ih
    split
    · exact pushRow_G h _
    · exact h

theorem locAux_G (f : Frame) (idx labels : List Cell) {acc : Frame} (h : G acc) (i cnt : Nat) :
    G (locAux f idx labels acc i cnt) := by
  induction cnt generalizing acc i with
  | zero => exact h
  | succ cnt ih =>
    simp only [locAux]
    exact ih (locRow_G h _ _ _) _

theorem loc_G {f r : Frame} {labels : List Cell} {cols : List Str} (h : f.loc labels cols = .ok r) : G r := by
  unfold loc at h
  split at h
  · cases h
  · split at h
    · cases h
    · split at h
      · cases h
      · simp only [Outcome.ok.injEq] at h
        subst h
        exact locAux_G _ _ _ (emptyCols_G _) _ _

theorem ilocRows_G (f : Frame) {acc r : Frame} (hacc : G acc) {is : List Int}
    (h : ilocRows f acc is = .ok r) : G r := by
  induction is generalizing acc with
  | nil => simp only [ilocRows, Outcome.ok.injEq] at h; subst h; exact hacc
  | cons i is ih =>
    simp only [ilocRows] at h
    split at h
    · cases h
    · exact ih (pushRow_G hacc _) h

theorem iloc_G {f r : Frame} {ris cis : List Int} (h : f.iloc ris cis = .ok r) : G r := by
  unfold iloc at h
  simp only at h
  split at h
  · cases h
  · exact ilocRows_G f (emptyCols_G _) h

theorem multiSelectAux_G {f : Frame} {n : Nat} (hf : RectN f n) {acc r : Frame}
    (hr : RectN acc n) (hs : acc.Sorted) {ks : List Str}
    (h : multiSelectAux f acc ks = .ok r) : RectN r n ∧ r.Sorted := by
  induction ks generalizing acc with
  | nil => simp only [multiSelectAux, Outcome.ok.injEq] at h; subst h; exact ⟨hr, hs⟩
  | cons k ks ih =>
    simp only [multiSelectAux] at h
    split at h
    · cases h
    · rename_i c hc
      have hc' := get?_rect hf hc
      apply ih _ _ h
      · split
        · exact hr
        · exact rectN_set hr hc'.1 rfl
      · split
        · exact hs
        · exact sorted_set hs _ _

theorem multiSelect_G {f r : Frame} {ks : List Str} (hg : G f) (h : f.multiSelect ks = .ok r) : G r := by
  unfold multiSelect at h
  split at h
  · cases h
  · obtain ⟨n, hn⟩ := hg.1
    have := multiSelectAux_G hn (rectN_nil n) sorted_nil h
    exact ⟨⟨n, this.1⟩, this.2⟩

/-! ### column-wise maps: Shift, FillNa, SortValues, DropNa, DropDuplicates -/

/-- a map that keeps keys and names and sends every column to a column of length `m` -/
theorem map_G {f : Frame} (hg : G f) (F : Str × Col → Str × Col) (m : Nat)
    (hF2 : ∀ kc ∈ f, kc.2.name = kc.1 → kc.2.data.length = f.nrows →
      (F kc).2.data.length = m ∧ (F kc).2.name = kc.1)
    (hF : ∀ kc, (F kc).1 = kc.1) : G (f.map F) := by
  refine ⟨⟨m, ?_⟩, sorted_map F hF hg.2⟩
  rw [rectN_map_iff]
  intro kc hkc
  have h := rectN_nrows hg.1 kc hkc
  rw [hF]
  exact hF2 kc hkc h.2 h.1

theorem shift_G {f : Frame} (hg : G f) (p : Int) : G (f.shift p) := by
  unfold shift
  refine map_G hg _ f.nrows ?_ (fun _ => rfl)
  intro kc _ _ hl
  simp [shiftCol, hl]

theorem fillNa_G {f : Frame} (hg : G f) (v : Cell) : G (f.fillNa v) := by
  unfold fillNa
  refine map_G hg _ f.nrows ?_ (fun _ => rfl)
  intro kc _ hn hl
  simp [hl, hn]

theorem pick_length (d : List Cell) (idx : List Nat) : (pick d idx).length = idx.length := by
  simp [pick]

theorem pickWith_G {f : Frame} (hg : G f) (idx : List Nat) :
    G (f.map (fun kc => (kc.1, { kc.2 with data := pick kc.2.data idx }))) := by
  refine map_G hg _ idx.length ?_ (fun _ => rfl)
  intro kc _ hn _
  exact ⟨pick_length _ _, hn⟩

theorem pickName_G {f : Frame} (hg : G f) (idx : List Nat) :
    G (f.map (fun kc => (kc.1, { name := kc.1, data := pick kc.2.data idx }))) := by
  refine map_G hg _ idx.length ?_ (fun _ => rfl)
  intro kc _ _ _
  exact ⟨pick_length _ _, rfl⟩

theorem sortValues_G {ω : Oracle} {f r : Frame} {by_ : List Str} {asc : Bool} (hg : G f)
    (h : f.sortValues ω by_ asc = .ok r) : G r := by
  unfold sortValues sortValuesWith at h
  split at h
  · cases h
  · simp only [Outcome.ok.injEq] at h
    subst h
    exact pickWith_G hg _

theorem dropNa_G {f r : Frame} (hg : G f) (h : f.dropNa = .ok r) : G r := by
  unfold dropNa at h
  cases hk : dropNaKeep f 0 f.nrows with
  | err e => simp [hk] at h
  | panic e => simp [hk] at h
  | ok keep =>
    simp only [hk, Outcome.bind_ok, Outcome.pure_eq, Outcome.ok.injEq] at h
    subst h
    exact pickWith_G hg _

theorem dropDuplicates_G {ω : Oracle} {f t r : Frame} {o : DedupOpts} (hg : G f)
    (h : f.dropDuplicates ω o = .ok (t, r)) : G t ∧ G r := by
  unfold dropDuplicates at h
  simp only at h
  generalize (if o.subset.isEmpty = true then f.keys else o.subset) = cols at h
  split at h
  · cases h
  · rename_i keep _
    split at h
    · cases h
    · cases hk : rowKeys ω f cols 0 f.nrows with
      | err e => simp [hk] at h
      | panic e => simp [hk] at h
      | ok keys =>
        simp only [hk, Outcome.bind_ok] at h
        split at h
        · simp only [Outcome.pure_eq, Outcome.ok.injEq, Prod.mk.injEq] at h
          obtain ⟨h1, h2⟩ := h
          subst h1; subst h2
          exact ⟨pickWith_G hg _, pickWith_G hg _⟩
        · simp only [Outcome.pure_eq, Outcome.ok.injEq, Prod.mk.injEq] at h
          obtain ⟨h1, h2⟩ := h
          subst h1; subst h2
          exact ⟨hg, pickName_G hg _⟩


/-! ### in-place editors -/

theorem dropRow_go_ok {i : Int} {f r : Frame} {n : Nat} (hr : RectN f n) (h : dropRow.go i f = .ok r) :
    r.keys = f.keys ∧ RectN r (n - 1) := by
  induction f generalizing r with
  | nil =>
    simp only [dropRow.go, Outcome.ok.injEq] at h
    subst h; exact ⟨rfl, rectN_nil _⟩
  | cons kc rest ih =>
    obtain ⟨k, c⟩ := kc
    simp only [dropRow.go] at h
    split at h
    · cases h
    · rename_i hlen
      cases hm : dropRow.go i rest with
      | err e => simp [hm] at h
      | panic e => simp [hm] at h
      | ok r' =>
        simp only [hm, Outcome.bind_ok, Outcome.pure_eq, Outcome.ok.injEq] at h
        subst h
        obtain ⟨hk, hrect⟩ := ih (RectN.tail hr) hm
        refine ⟨by simp [keys] at hk ⊢; exact hk, ?_⟩
        intro x hx
        rcases List.mem_cons.mp hx with hx | hx
        · subst hx
          have hc := hr (k, c) (List.mem_cons_self ..)
          simp only at hc
          refine ⟨?_, hc.2⟩
          simp only [List.length_eraseIdx]
          rw [if_pos (by omega)]; omega
        · exact hrect x hx

theorem dropRow_G {f r : Frame} {i : Int} (hg : G f) (h : f.dropRow i = .ok r) : G r := by
  unfold dropRow at h
  split at h
  · cases h
  · obtain ⟨n, hn⟩ := hg.1
    obtain ⟨hk, hr⟩ := dropRow_go_ok hn h
    exact ⟨⟨_, hr⟩, sorted_of_keys_eq hk hg.2⟩

theorem convAll_length {g : Cell → Outcome Cell} {d d' : List Cell} (h : convAll g d = .ok d') :
    d'.length = d.length := by
  induction d generalizing d' with
  | nil => simp only [convAll, Outcome.ok.injEq] at h; subst h; rfl
  | cons c cs ih =>
    simp only [convAll] at h
    cases hc : g c with
    | err e => simp [hc] at h
    | panic e => simp [hc] at h
    | ok c' =>
      cases hm : convAll g cs with
      | err e => simp [hc, hm] at h
      | panic e => simp [hc, hm] at h
      | ok cs' =>
        simp only [hc, hm, Outcome.bind_ok, Outcome.pure_eq, Outcome.ok.injEq] at h
        subst h
        simp [ih hm]

theorem setData_G {f : Frame} (hg : G f) {k : Str} {c : Col} (hc : f.get? k = some c) {d : List Cell}
    (hd : d.length = c.data.length) : G (f.set k { c with data := d }) := by
  obtain ⟨n, hn⟩ := hg.1
  have := get?_rect hn hc
  exact ⟨⟨n, rectN_set hn (by simp [hd, this.1]) this.2⟩, sorted_set hg.2 _ _⟩

theorem astype_G {ω : Oracle} {f r : Frame} {k ty : Str} (hg : G f) (h : f.astype ω k ty = .ok r) : G r := by
  unfold astype at h
  split at h
  · cases h
  · rename_i c hc
    split at h
    · cases h
    · cases hm : convAll (convCell ω ty) c.data with
      | err e => simp [hm] at h
      | panic e => simp [hm] at h
      | ok d =>
        simp only [hm, Outcome.bind_ok, Outcome.pure_eq, Outcome.ok.injEq] at h
        subst h
        exact setData_G hg hc (convAll_length hm)

theorem addDatetimeIndex_G {ω : Oracle} {f r : Frame} {k l : Str} (hg : G f)
    (h : f.addDatetimeIndex ω k l = .ok r) : G r := by
  unfold addDatetimeIndex at h
  split at h
  · cases h
  · rename_i c hc
    generalize (fun v : Cell => match v with
      | .str s => match ω.timeParse l s with
        | some t => Outcome.ok (Cell.time t)
        | none => Outcome.err "error parsing datetime"
      | _ => Outcome.err "value is not a string") = g at h
    cases hm : convAll g c.data with
    | err e => simp [hm] at h
    | panic e => simp [hm] at h
    | ok d =>
      simp only [hm, Outcome.bind_ok, Outcome.pure_eq, Outcome.ok.injEq] at h
      subst h
      exact setData_G hg hc (convAll_length hm)

theorem setCell_G {f r : Frame} {k : Str} {i : Int} {v : Cell} (hg : G f) (h : f.setCell k i v = .ok r) : G r := by
  unfold setCell at h
  split at h
  · cases h
  · rename_i c hc
    split at h
    · cases h
    · simp only [Outcome.ok.injEq] at h
      subst h
      exact setData_G hg hc (by simp)

theorem renameColumn_G {f r : Frame} {a b : Str} (hg : G f) (h : f.renameColumn a b = .ok r) : G r := by
  unfold renameColumn at h
  split at h
  · cases h
  · rename_i c hc
    split at h
    · cases h
    · simp only [Outcome.ok.injEq] at h
      subst h
      obtain ⟨n, hn⟩ := hg.1
      have := get?_rect hn hc
      exact ⟨⟨n, rectN_set (rectN_erase hn _) this.1 rfl⟩, sorted_set (sorted_erase hg.2 _) _ _⟩

theorem dropColumn_G {f r : Frame} {k : Str} (hg : G f) (h : f.dropColumn k = .ok r) : G r := by
  unfold dropColumn at h
  split at h
  · simp only [Outcome.ok.injEq] at h
    subst h
    obtain ⟨n, hn⟩ := hg.1
    exact ⟨⟨n, rectN_erase hn _⟩, sorted_erase hg.2 _⟩
  · cases h

theorem addColumn_G {f r : Frame} {c : Col} (hg : G f) (hok : f = [] ∨ c.data.length = f.nrows)
    (h : f.addColumn c = .ok r) : G r := by
  unfold addColumn at h
  split at h
  · cases h
  · simp only [Outcome.ok.injEq] at h
    subst h
    refine ⟨?_, sorted_set hg.2 _ _⟩
    rcases hok with hok | hok
    · subst hok
      exact ⟨c.data.length, rectN_set (rectN_nil _) rfl rfl⟩
    · exact ⟨_, rectN_set (rectN_nrows hg.1) hok rfl⟩

/-! ### joins -/

theorem foldl_inv {α β : Type} (P : β → Prop) (step : β → α → β) (l : List α) (b : β) (hb : P b)
    (hs : ∀ b a, P b → P (step b a)) : P (l.foldl step b) := by
  induction l generalizing b with
  | nil => exact hb
  | cons a l ih => exact ih _ (hs _ _ hb)

theorem unionEmpty_G0 {l : Frame} (hs : l.Sorted) (r : Frame) :
    RectN (unionEmpty l r) 0 ∧ (unionEmpty l r).Sorted := by
  unfold unionEmpty
  apply foldl_inv (fun acc : Frame => RectN acc 0 ∧ acc.Sorted)
  · exact ⟨emptyLike_rectN l, emptyLike_sorted hs⟩
  · intro acc kc h
    split
    · exact h
    · exact ⟨rectN_set h.1 rfl rfl, sorted_set h.2 _ _⟩

theorem unionEmpty_G {l : Frame} (hs : l.Sorted) (r : Frame) : G (unionEmpty l r) :=
  let h := unionEmpty_G0 hs r
  ⟨⟨0, h.1⟩, h.2⟩

theorem matchInto_fst (k : Str) (a b : Row) (acc : Frame) (bs : List Row) :
    (matchInto k a acc (b :: bs)).1 =
      if (Row.getD a k).goEq (Row.getD b k) then (matchInto k a (appendRow acc (mergeRows a b)) bs).1
      else (matchInto k a acc bs).1 := by
  simp only [matchInto]
  split <;> rfl

theorem matchInto_G (k : Str) (a : Row) {acc : Frame} (h : G acc) (rs : List Row) :
    G (matchInto k a acc rs).1 := by
  induction rs generalizing acc with
  | nil => exact h
  | cons b bs ih =>
    rw [matchInto_fst]
    split
    · exact ih (appendRow_G h _)
    · exact ih h

theorem matchIntoR_fst (k : Str) (b a : Row) (acc : Frame) (as : List Row) :
    (matchIntoR k b acc (a :: as)).1 =
      if (Row.getD b k).goEq (Row.getD a k) then (matchIntoR k b (appendRow acc (mergeRows a b)) as).1
      else (matchIntoR k b acc as).1 := by
  simp only [matchIntoR]
  split <;> rfl

theorem matchIntoR_G (k : Str) (b : Row) {acc : Frame} (h : G acc) (ls : List Row) :
    G (matchIntoR k b acc ls).1 := by
  induction ls generalizing acc with
  | nil => exact h
  | cons a as ih =>
    rw [matchIntoR_fst]
    split
    · exact ih (appendRow_G h _)
    · exact ih h

theorem innerLoop_G (k : Str) (rs : List Row) {acc : Frame} (h : G acc) (ls : List Row) :
    G (innerLoop k rs acc ls) := by
  induction ls generalizing acc with
  | nil => exact h
  | cons a as ih => simp only [innerLoop]; exact ih (matchInto_G k a h rs)

theorem leftLoop_G (k : Str) (rs : List Row) {acc : Frame} (h : G acc) (ls : List Row) :
    G (leftLoop k rs acc ls) := by
  induction ls generalizing acc with
  | nil => exact h
  | cons a as ih =>
    simp only [leftLoop]
    have hm := matchInto_G k a h rs
    generalize matchInto k a acc rs = p at hm
    obtain ⟨acc', m⟩ := p
    simp only
    apply ih
    split
    · exact hm
    · exact appendRow_G hm _

theorem rightLoop_G (k : Str) (ls : List Row) {acc : Frame} (h : G acc) (rs : List Row) :
    G (rightLoop k ls acc rs) := by
  induction rs generalizing acc with
  | nil => exact h
  | cons b bs ih =>
    simp only [rightLoop]
    have hm := matchIntoR_G k b h ls
    generalize matchIntoR k b acc ls = p at hm
    obtain ⟨acc', m⟩ := p
    simp only
    apply ih
    split
    · exact hm
    · exact appendRow_G hm _

theorem outerLoop_G (k : Str) (rs : List Row) {acc : Frame} (h : G acc) (seen : List Cell) (ls : List Row) :
    G (outerLoop k rs acc seen ls).1 := by
  induction ls generalizing acc seen with
  | nil => exact h
  | cons a as ih =>
    simp only [outerLoop]
    have hm := matchInto_G k a h rs
    generalize matchInto k a acc rs = p at hm
    obtain ⟨acc', m⟩ := p
    simp only
    split
    · exact ih hm _
    · exact ih (appendRow_G hm _) _

theorem outerTail_G (k : Str) (seen : List Cell) {acc : Frame} (h : G acc) (rs : List Row) :
    G (outerTail k seen acc rs) := by
  induction rs generalizing acc with
  | nil => exact h
  | cons b bs ih =>
    simp only [outerTail]
    split
    · exact ih h
    · exact ih (appendRow_G h _)

theorem innerJoin_G {l r g : Frame} {k : Str} (hl : G l) (h : l.innerJoin r k = .ok g) : G g := by
  unfold innerJoin at h
  cases hc : checkExists l r k with
  | err e => simp [hc] at h
  | panic e => simp [hc] at h
  | ok u =>
    simp only [hc, Outcome.bind_ok, Outcome.pure_eq, Outcome.ok.injEq] at h
    subst h
    exact innerLoop_G _ _ (unionEmpty_G hl.2 r) _

theorem leftJoin_G {l r g : Frame} {k : Str} (hl : G l) (h : l.leftJoin r k = .ok g) : G g := by
  unfold leftJoin at h
  cases hc : checkExists l r k with
  | err e => simp [hc] at h
  | panic e => simp [hc] at h
  | ok u =>
    simp only [hc, Outcome.bind_ok, Outcome.pure_eq, Outcome.ok.injEq] at h
    subst h
    exact leftLoop_G _ _ (unionEmpty_G hl.2 r) _

theorem rightJoin_G {l r g : Frame} {k : Str} (hl : G l) (h : l.rightJoin r k = .ok g) : G g := by
  unfold rightJoin at h
  cases hc : checkExists l r k with
  | err e => simp [hc] at h
  | panic e => simp [hc] at h
  | ok u =>
    simp only [hc, Outcome.bind_ok, Outcome.pure_eq, Outcome.ok.injEq] at h
    subst h
    exact rightLoop_G _ _ (unionEmpty_G hl.2 r) _

theorem outerJoin_G {l r g : Frame} {k : Str} (hl : G l) (h : l.outerJoin r k = .ok g) : G g := by
  unfold outerJoin at h
  cases hc : checkExists l r k with
  | err e => simp [hc] at h
  | panic e => simp [hc] at h
  | ok u =>
    simp only [hc, Outcome.bind_ok] at h
    have hm := outerLoop_G k (allRows r) (unionEmpty_G hl.2 r) [] (allRows l)
    generalize outerLoop k (allRows r) (unionEmpty l r) [] (allRows l) = p at hm h
    obtain ⟨acc, seen⟩ := p
    simp only [Outcome.pure_eq, Outcome.ok.injEq] at h
    subst h
    exact outerTail_G _ _ hm _


/-! ### Add -/

theorem addCol_length {ω : Oracle} {fill : Cell} {a b d : List Cell} (h : addCol ω fill a b = .ok d) :
    d.length = max a.length b.length := by
  induction a generalizing b d with
  | nil =>
    induction b generalizing d with
    | nil => simp only [addCol, Outcome.ok.injEq] at h; subst h; rfl
    | cons y ys ih =>
      simp only [addCol] at h
      cases hm : addCol ω fill [] ys with
      | err e => simp [hm] at h
      | panic e => simp [hm] at h
      | ok r =>
        simp only [hm, Outcome.bind_ok, Outcome.pure_eq, Outcome.ok.injEq] at h
        subst h
        have := ih hm
        simp at this ⊢; omega
  | cons x xs ih =>
    cases b with
    | nil =>
      simp only [addCol] at h
      cases hm : addCol ω fill xs [] with
      | err e => simp [hm] at h
      | panic e => simp [hm] at h
      | ok r =>
        simp only [hm, Outcome.bind_ok, Outcome.pure_eq, Outcome.ok.injEq] at h
        subst h
        have := ih hm
        simp at this ⊢; omega
    | cons y ys =>
      simp only [addCol] at h
      cases hc : addCell ω x y with
      | err e => simp [hc] at h
      | panic e => simp [hc] at h
      | ok c =>
        cases hm : addCol ω fill xs ys with
        | err e => simp [hc, hm] at h
        | panic e => simp [hc, hm] at h
        | ok r =>
          simp only [hc, hm, Outcome.bind_ok, Outcome.pure_eq, Outcome.ok.injEq] at h
          subst h
          have := ih hm
          simp at this ⊢; omega

theorem addAux_ok {ω : Oracle} {fill : Cell} {other f r : Frame} {n m : Nat}
    (hf : RectN f n) (ho : RectN other m) (h : addAux ω fill other f = .ok r) :
    r.keys = f.keys ∧ RectN r (max n m) := by
  induction f generalizing r with
  | nil =>
    simp only [addAux, Outcome.ok.injEq] at h
    subst h; exact ⟨rfl, rectN_nil _⟩
  | cons kc rest ih =>
    obtain ⟨k, c⟩ := kc
    simp only [addAux] at h
    split at h
    · cases h
    · rename_i oc hoc
      cases hd : addCol ω fill c.data oc.data with
      | err e => simp [hd] at h
      | panic e => simp [hd] at h
      | ok d =>
        cases hm : addAux ω fill other rest with
        | err e => simp [hd, hm] at h
        | panic e => simp [hd, hm] at h
        | ok r' =>
          simp only [hd, hm, Outcome.bind_ok, Outcome.pure_eq, Outcome.ok.injEq] at h
          subst h
          obtain ⟨hk, hrect⟩ := ih (RectN.tail hf) hm
          refine ⟨by simp [keys] at hk ⊢; exact hk, ?_⟩
          intro x hx
          rcases List.mem_cons.mp hx with hx | hx
          · subst hx
            have h1 := (hf (k, c) (List.mem_cons_self ..)).1
            have h2 := (get?_rect ho hoc).1
            simp only at h1
            exact ⟨by rw [addCol_length hd, h1, h2], rfl⟩
          · exact hrect x hx

theorem add_G {ω : Oracle} {l r g : Frame} {fill : Cell} (hl : G l) (hr : G r)
    (h : l.add ω r fill = .ok g) : G g := by
  unfold add at h
  split at h
  · cases h
  · obtain ⟨n, hn⟩ := hl.1
    obtain ⟨m, hm⟩ := hr.1
    obtain ⟨hk, hrect⟩ := addAux_ok hn hm h
    exact ⟨⟨_, hrect⟩, sorted_of_keys_eq hk hl.2⟩

/-! ### Apply -/

theorem eval_slice_length {fn : ApplyFn} {xs vs : List Cell} (h : fn.eval xs = .slice vs) :
    vs.length = xs.length := by
  cases fn <;> simp only [ApplyFn.eval] at h
  all_goals first
    | (injection h with h; subst h; simp)
    | (split at h <;> cases h)
    | cases h

theorem applyColAux_ok {fn : ApplyFn} {f r : Frame} {n : Nat} (hf : RectN f n)
    (h : applyColAux fn.eval f = .ok r) : r.keys = f.keys ∧ RectN r n := by
  induction f generalizing r with
  | nil =>
    simp only [applyColAux, Outcome.ok.injEq] at h
    subst h; exact ⟨rfl, rectN_nil _⟩
  | cons kc rest ih =>
    obtain ⟨k, c⟩ := kc
    have hc := (hf (k, c) (List.mem_cons_self ..)).1
    simp only at hc
    simp only [applyColAux] at h
    split at h
    · cases h
    · rename_i vs hvs
      cases hm : applyColAux fn.eval rest with
      | err e => simp [hm] at h
      | panic e => simp [hm] at h
      | ok r' =>
        simp only [hm, Outcome.bind_ok, Outcome.pure_eq, Outcome.ok.injEq] at h
        subst h
        obtain ⟨hk, hrect⟩ := ih (RectN.tail hf) hm
        refine ⟨by simp [keys] at hk ⊢; exact hk, ?_⟩
        intro x hx
        rcases List.mem_cons.mp hx with hx | hx
        · subst hx
          exact ⟨by simp only; rw [eval_slice_length hvs, hc], rfl⟩
        · exact hrect x hx
    · rename_i v hv
      cases hm : applyColAux fn.eval rest with
      | err e => simp [hm] at h
      | panic e => simp [hm] at h
      | ok r' =>
        simp only [hm, Outcome.bind_ok, Outcome.pure_eq, Outcome.ok.injEq] at h
        subst h
        obtain ⟨hk, hrect⟩ := ih (RectN.tail hf) hm
        refine ⟨by simp [keys] at hk ⊢; exact hk, ?_⟩
        intro x hx
        rcases List.mem_cons.mp hx with hx | hx
        · subst hx
          exact ⟨by simp [hc], rfl⟩
        · exact hrect x hx

theorem applyCol_G {fn : ApplyFn} {f r : Frame} (hg : G f) (h : f.applyCol fn.eval = .ok r) : G r := by
  unfold applyCol at h
  split at h
  · cases h
  · obtain ⟨n, hn⟩ := hg.1
    obtain ⟨hk, hrect⟩ := applyColAux_ok hn h
    exact ⟨⟨_, hrect⟩, sorted_of_keys_eq hk hg.2⟩

theorem writeRes_lengths {i : Nat} {res : ApplyRes} {tbl tbl' : List (List Cell)} {j : Nat}
    (h : writeRes i res tbl j = .ok tbl') : tbl'.map List.length = tbl.map List.length := by
  induction tbl generalizing tbl' j with
  | nil => simp only [writeRes, Outcome.ok.injEq] at h; subst h; rfl
  | cons col cols ih =>
    cases res with
    | nilRes => simp only [writeRes, Outcome.ok.injEq] at h; subst h; rfl
    | scalar v =>
      simp only [writeRes] at h
      cases hm : writeRes i (.scalar v) cols (j + 1) with
      | err e => simp [hm] at h
      | panic e => simp [hm] at h
      | ok r =>
        simp only [hm, Outcome.bind_ok, Outcome.pure_eq, Outcome.ok.injEq] at h
        subst h
        simp [ih hm]
    | slice vs =>
      simp only [writeRes] at h
      split at h
      · cases h
      · cases hm : writeRes i (.slice vs) cols (j + 1) with
        | err e => simp [hm] at h
        | panic e => simp [hm] at h
        | ok r =>
          simp only [hm, Outcome.bind_ok, Outcome.pure_eq, Outcome.ok.injEq] at h
          subst h
          simp [ih hm]

theorem collect_lengths {fn : List Cell → ApplyRes} {f : Frame} {tbl tbl' : List (List Cell)} {σ : List Nat}
    (h : collect fn f tbl σ = .ok tbl') : tbl'.map List.length = tbl.map List.length := by
  induction σ generalizing tbl with
  | nil => simp only [collect, Outcome.ok.injEq] at h; subst h; rfl
  | cons i is ih =>
    simp only [collect] at h
    cases hm : writeRes i (fn (rowCells f i)) tbl 0 with
    | err e => simp [hm] at h
    | panic e => simp [hm] at h
    | ok t =>
      simp only [hm, Outcome.bind_ok] at h
      rw [ih h, writeRes_lengths hm]

theorem applyRowWith_G {σ : List Nat} {fn : List Cell → ApplyRes} {f r : Frame} (hg : G f)
    (h : f.applyRowWith σ fn = .ok r) : G r := by
  unfold applyRowWith at h
  split at h
  · cases h
  · cases hm : collect fn f (f.map (fun _ => List.replicate f.nrows Cell.nil)) σ with
    | err e => simp [hm] at h
    | panic e => simp [hm] at h
    | ok tbl =>
      simp only [hm, Outcome.bind_ok, Outcome.pure_eq, Outcome.ok.injEq] at h
      subst h
      have hl := collect_lengths hm
      simp only [List.map_map, Function.comp_def, List.length_replicate] at hl
      have hlen : tbl.length = f.length := by
        have := congrArg List.length hl
        simpa using this
      constructor
      · refine ⟨f.nrows, ?_⟩
        intro x hx
        obtain ⟨⟨kc, d⟩, hz, rfl⟩ := List.mem_map.mp hx
        refine ⟨?_, rfl⟩
        have hd : d ∈ tbl := (List.of_mem_zip hz).2
        have : d.length ∈ tbl.map List.length := List.mem_map_of_mem hd
        rw [hl] at this
        obtain ⟨_, _, h2⟩ := List.mem_map.mp this
        exact h2.symm
      · apply sorted_of_keys_eq _ hg.2
        simp only [keys, List.map_map, Function.comp_def]
        have : (fun x : (Str × Col) × List Cell => x.1.1) = (fun kc : Str × Col => kc.1) ∘ Prod.fst := rfl
        rw [this, ← List.map_map, List.map_fst_zip (by omega)]

theorem applyRowSeq_G {fn : List Cell → ApplyRes} {f r : Frame} (hg : G f)
    (h : f.applyRowSeq fn = .ok r) : G r := applyRowWith_G hg h

/-! ### Describe / Resample / grouped aggregation -/

theorem describe_G (ω : Oracle) (f : Frame) : G (f.describe ω) := by
  unfold describe
  simp only
  have : ∀ acc : Frame, (RectN acc 4 ∧ acc.Sorted) → G acc := fun acc h => ⟨⟨4, h.1⟩, h.2⟩
  apply this
  apply foldl_inv (fun acc : Frame => RectN acc 4 ∧ acc.Sorted)
  · constructor
    · intro x hx
      simp only [List.mem_singleton] at hx
      subst hx; exact ⟨rfl, rfl⟩
    · simp [Sorted]
  · intro acc kc h
    split
    · exact h
    · split
      · exact h
      · exact ⟨rectN_set h.1 rfl rfl, sorted_set h.2 _ _⟩

theorem resampleWith_G {perm : List GoTime → List GoTime} {ω : Oracle} {f r : Frame} {k q : Str} {agg : AggFn}
    (hg : G f) (h : f.resampleWith perm ω k q agg = .ok r) : G r := by
  unfold resampleWith at h
  split at h
  · cases h
  · rename_i tc htc
    split at h
    · cases h
    · rename_i fq hq
      cases hm : bucketsOf fq (tc.data.take f.nrows) with
      | err e => simp [hm] at h
      | panic e => simp [hm] at h
      | ok bs =>
        simp only [hm, Outcome.bind_ok, Outcome.pure_eq, Outcome.ok.injEq] at h
        subst h
        refine ⟨⟨(sortedBuckets (perm bs.eraseDups)).length, ?_⟩, ?_⟩
        · rw [rectN_map_iff]
          intro kc _
          split <;> simp
        · apply sorted_map _ _ hg.2
          intro kc
          split <;> rfl

theorem resample_G {ω : Oracle} {f r : Frame} {k q : Str} {agg : AggFn}
    (hg : G f) (h : f.resample ω k q agg = .ok r) : G r := resampleWith_G hg h

theorem assemble_ok {keys : List Cell} {acc r : Frame} {m : Nat} {l : List (Str × List Cell)}
    (hr : RectN acc m) (hs : acc.Sorted) (hl : ∀ nd ∈ l, nd.2.length = m)
    (h : Grouped.assemble keys acc l = .ok r) : RectN r m ∧ r.Sorted := by
  induction l generalizing acc with
  | nil => simp only [Grouped.assemble, Outcome.ok.injEq] at h; subst h; exact ⟨hr, hs⟩
  | cons nd rest ih =>
    obtain ⟨n, d⟩ := nd
    simp only [Grouped.assemble] at h
    split at h
    · cases h
    · exact ih (rectN_set (k := n) (c := { name := n, data := d }) hr (hl (n, d) (List.mem_cons_self ..)) rfl)
        (sorted_set hs _ _) (fun x hx => hl x (List.mem_cons_of_mem _ hx)) h

theorem aggWith_G {g : Grouped} {cols : List Str} {cell : List Row → Str → Cell} {r : Frame}
    (h : g.aggWith cols cell = .ok r) : G r := by
  unfold Grouped.aggWith at h
  simp only at h
  have := assemble_ok (m := g.keyOrder.length) ?_ ?_ ?_ h
  · exact ⟨⟨_, this.1⟩, this.2⟩
  · intro x hx
    simp only [List.mem_singleton] at hx
    subst hx; exact ⟨rfl, rfl⟩
  · simp [Sorted]
  · intro nd hnd
    obtain ⟨c, _, rfl⟩ := List.mem_map.mp hnd
    simp

theorem groupAgg_G {g : Grouped} {agg : GroupAgg} {cols : List Str} {r : Frame}
    (h : (match agg with
          | .sum => g.sum cols
          | .mean => g.mean cols
          | .count => g.count cols) = .ok r) : G r := by
  cases agg <;> exact aggWith_G h


/-! ### one step on the pool -/

theorem bind_eq_ok' {α β : Type} {x : Outcome α} {f : α → Outcome β} {b : β} (h : x.bind f = .ok b) :
    ∃ a, x = .ok a ∧ f a = .ok b := by
  cases x with
  | ok a => exact ⟨a, rfl, h⟩
  | err e => cases h
  | panic e => cases h

theorem bind_derived {x : Outcome Frame} {out : StepOut}
    (h : x.bind (fun r => .ok (.derived r)) = .ok out) : ∃ r, x = .ok r ∧ out = .derived r := by
  obtain ⟨a, ha, h2⟩ := bind_eq_ok' h
  exact ⟨a, ha, by cases h2; rfl⟩

theorem bind_mutated {x : Outcome Frame} {out : StepOut}
    (h : x.bind (fun r => .ok (.mutated r)) = .ok out) : ∃ r, x = .ok r ∧ out = .mutated r := by
  obtain ⟨a, ha, h2⟩ := bind_eq_ok' h
  exact ⟨a, ha, by cases h2; rfl⟩

/-- the frame a step produces -/
def outFrame : StepOut → Frame
  | .derived f => f
  | .mutated f => f

theorem mem_pool {p : Pool} {t : Nat} {f : Frame} (h : p[t]? = some f) : f ∈ p :=
  List.mem_of_getElem? h

theorem opEffect_G (ω : Oracle) (p : Pool) (op : Op) (out : StepOut) (hp : ∀ f ∈ p, G f)
    (hok : ∀ t c, op = .addColumn t c → ∀ f, p[t]? = some f → f = [] ∨ c.data.length = f.nrows)
    (h : opEffect ω p op = .ok out) : G (outFrame out) := by
  cases op with
  | head t n =>
    simp only [opEffect] at h
    split at h
    · cases h
    · rename_i f hf
      obtain ⟨r, hr, rfl⟩ := bind_derived h
      exact head_G (hp f (mem_pool hf)) hr
  | tail t n =>
    simp only [opEffect] at h
    split at h
    · cases h
    · rename_i f hf
      obtain ⟨r, hr, rfl⟩ := bind_derived h
      exact tail_G (hp f (mem_pool hf)) hr
  | rowSlice t a b =>
    simp only [opEffect] at h
    split at h
    · cases h
    · rename_i f hf
      cases h
      exact rowSlice_G (hp f (mem_pool hf)) _ _
  | filter t bits =>
    simp only [opEffect] at h
    split at h
    · cases h
    · rename_i f hf
      cases h
      exact filter_G (hp f (mem_pool hf)) _
  | loc t ls cs =>
    simp only [opEffect] at h
    split at h
    · cases h
    · rename_i f hf
      obtain ⟨r, hr, rfl⟩ := bind_derived h
      exact loc_G hr
  | iloc t rs cs =>
    simp only [opEffect] at h
    split at h
    · cases h
    · rename_i f hf
      obtain ⟨r, hr, rfl⟩ := bind_derived h
      exact iloc_G hr
  | multiSelect t ks =>
    simp only [opEffect] at h
    split at h
    · cases h
    · rename_i f hf
      obtain ⟨r, hr, rfl⟩ := bind_derived h
      exact multiSelect_G (hp f (mem_pool hf)) hr
  | sortValues t by_ asc =>
    simp only [opEffect] at h
    split at h
    · cases h
    · rename_i f hf
      obtain ⟨r, hr, rfl⟩ := bind_derived h
      exact sortValues_G (hp f (mem_pool hf)) hr
  | shift t q =>
    simp only [opEffect] at h
    split at h
    · cases h
    · rename_i f hf
      cases h
      exact shift_G (hp f (mem_pool hf)) _
  | dedup t sub keep ip =>
    simp only [opEffect] at h
    split at h
    · cases h
    · rename_i f hf
      obtain ⟨⟨tgt, res⟩, hr, h2⟩ := bind_eq_ok' h
      have := dropDuplicates_G (hp f (mem_pool hf)) hr
      simp only [Outcome.ok.injEq] at h2
      subst h2
      cases ip
      · exact this.2
      · exact this.1
  | join kind t u key =>
    simp only [opEffect] at h
    split at h
    · rename_i l r hl hr
      obtain ⟨g, hg, rfl⟩ := bind_derived h
      have gl := hp l (mem_pool hl)
      split at hg
      · exact innerJoin_G gl hg
      · exact leftJoin_G gl hg
      · exact rightJoin_G gl hg
      · exact outerJoin_G gl hg
    · cases h
  | add t u fill =>
    simp only [opEffect] at h
    split at h
    · rename_i l r hl hr
      obtain ⟨g, hg, rfl⟩ := bind_derived h
      exact add_G (hp l (mem_pool hl)) (hp r (mem_pool hr)) hg
    · cases h
  | applyCol t fn =>
    simp only [opEffect] at h
    split at h
    · cases h
    · rename_i f hf
      obtain ⟨r, hr, rfl⟩ := bind_derived h
      exact applyCol_G (hp f (mem_pool hf)) hr
  | applyRow t fn =>
    simp only [opEffect] at h
    split at h
    · cases h
    · rename_i f hf
      obtain ⟨r, hr, rfl⟩ := bind_derived h
      exact applyRowSeq_G (hp f (mem_pool hf)) hr
  | describe t =>
    simp only [opEffect] at h
    split at h
    · cases h
    · cases h
      exact describe_G _ _
  | resample t c q agg =>
    simp only [opEffect] at h
    split at h
    · cases h
    · rename_i f hf
      obtain ⟨r, hr, rfl⟩ := bind_derived h
      exact resample_G (hp f (mem_pool hf)) hr
  | group t list keys agg cols =>
    simp only [opEffect] at h
    split at h
    · cases h
    · rename_i f hf
      obtain ⟨g, _, h2⟩ := bind_eq_ok' h
      obtain ⟨r, hr, rfl⟩ := bind_derived h2
      exact groupAgg_G hr
  | appendRow t r =>
    simp only [opEffect] at h
    split at h
    · cases h
    · rename_i f hf
      cases h
      exact appendRow_G (hp f (mem_pool hf)) _
  | dropRow t i =>
    simp only [opEffect] at h
    split at h
    · cases h
    · rename_i f hf
      obtain ⟨r, hr, rfl⟩ := bind_mutated h
      exact dropRow_G (hp f (mem_pool hf)) hr
  | fillNa t v =>
    simp only [opEffect] at h
    split at h
    · cases h
    · rename_i f hf
      cases h
      exact fillNa_G (hp f (mem_pool hf)) _
  | dropNa t =>
    simp only [opEffect] at h
    split at h
    · cases h
    · rename_i f hf
      obtain ⟨r, hr, rfl⟩ := bind_mutated h
      exact dropNa_G (hp f (mem_pool hf)) hr
  | astype t c ty =>
    simp only [opEffect] at h
    split at h
    · cases h
    · rename_i f hf
      obtain ⟨r, hr, rfl⟩ := bind_mutated h
      exact astype_G (hp f (mem_pool hf)) hr
  | rename t a b =>
    simp only [opEffect] at h
    split at h
    · cases h
    · rename_i f hf
      obtain ⟨r, hr, rfl⟩ := bind_mutated h
      exact renameColumn_G (hp f (mem_pool hf)) hr
  | addColumn t c =>
    simp only [opEffect] at h
    split at h
    · cases h
    · rename_i f hf
      obtain ⟨r, hr, rfl⟩ := bind_mutated h
      exact addColumn_G (hp f (mem_pool hf)) (hok t c rfl f hf) hr
  | dropColumn t k =>
    simp only [opEffect] at h
    split at h
    · cases h
    · rename_i f hf
      obtain ⟨r, hr, rfl⟩ := bind_mutated h
      exact dropColumn_G (hp f (mem_pool hf)) hr
  | setCell t k i v =>
    simp only [opEffect] at h
    split at h
    · cases h
    · rename_i f hf
      obtain ⟨r, hr, rfl⟩ := bind_mutated h
      exact setCell_G (hp f (mem_pool hf)) hr
  | addDatetimeIndex t k l =>
    simp only [opEffect] at h
    split at h
    · cases h
    · rename_i f hf
      obtain ⟨r, hr, rfl⟩ := bind_mutated h
      exact addDatetimeIndex_G (hp f (mem_pool hf)) hr

theorem step_G (ω : Oracle) (p p' : Pool) (op : Op) (hp : ∀ f ∈ p, G f)
    (hok : ∀ t c, op = .addColumn t c → ∀ f, p[t]? = some f → f = [] ∨ c.data.length = f.nrows)
    (h : step ω p op = .ok p') : ∀ f ∈ p', G f := by
  unfold step at h
  obtain ⟨out, ho, h2⟩ := bind_eq_ok' h
  have hg := opEffect_G ω p op out hp hok ho
  cases out with
  | derived g =>
    simp only [Outcome.ok.injEq] at h2
    subst h2
    intro f hf
    rcases List.mem_append.mp hf with hf | hf
    · exact hp f hf
    · simp only [List.mem_singleton] at hf
      subst hf; exact hg
  | mutated g =>
    simp only [Outcome.ok.injEq] at h2
    subst h2
    intro f hf
    rcases List.mem_or_eq_of_mem_set hf with hf | hf
    · exact hp f hf
    · subst hf; exact hg

end Goframe.RectLemmas
