import GoframeModel.Lemmas.Select
/-
  Lemmas relating the cleaning / conversion operations of the model (C15) to their specifications.
-/
namespace Goframe
open Frame Spec

namespace Frame

/-! ### `FillNa` -/

theorem fillNa_eq (f : Frame) (v : Cell) : f.fillNa v = Spec.fillNaSpec f v := by
  unfold fillNa fillNaSpec mapCells
  have : (fun c : Cell => if c.isNil = true then v else c) = (fun c => if c = .nil then v else c) := by
    funext c; cases c <;> simp [Cell.isNil]
  rw [this]

/-! ### `DropNa` -/

theorem dropNaKeep_eq {f : Frame} {n : Nat} (hr : f.RectN n) (i cnt : Nat) (h : i + cnt ≤ f.nrows) :
    dropNaKeep f i cnt =
      .ok ((List.range' i cnt).filter (fun j => !(f.rowMap j).any (fun kv => kv.2.isNil))) := by
  induction cnt generalizing i with
  | zero => rfl
  | succ cnt ih =>
    simp only [dropNaKeep, rowAt_ok hr (show i < f.nrows by omega), ih _ (show i + 1 + cnt ≤ f.nrows by omega)]
    cases hq : (f.rowMap i).any (fun kv => kv.2.isNil) <;> simp [List.range'_succ, hq]

theorem not_any_isNil (r : Row) :
    (!r.any (fun kv => kv.2.isNil)) = r.all (fun kv => kv.2 != .nil) := by
  induction r with
  | nil => rfl
  | cons kv rest ih =>
    simp only [List.any_cons, List.all_cons, Bool.not_or, ih]
    congr 1
    cases kv.2 <;> simp [Cell.isNil]

theorem dropNa_eq {f : Frame} {n : Nat} (hs : f.Sorted) (hr : f.RectN n) :
    f.dropNa = .ok (Spec.dropNaSpec f) := by
  by_cases hne : f = []
  · subst hne; rfl
  have hn : f.nrows = n := nrows_of_rectN hr hne
  unfold dropNa dropNaSpec
  rw [dropNaKeep_eq hr 0 f.nrows (by omega)]
  simp only [Outcome.bind_ok, Outcome.pure_eq]
  congr 1
  rw [rowsOf, List.filter_map, ofRows_rowMap hs, pickF, List.range_eq_range']
  apply List.map_congr_left
  intro kc hkc
  have hname := (hr kc hkc).2
  have hq : (fun j => !(f.rowMap j).any (fun kv => kv.2.isNil)) =
      ((fun r : Row => r.all (fun kv => kv.2 != .nil)) ∘ f.rowMap) := by
    funext j; exact not_any_isNil _
  rw [hq, hname]

/-! ### all-or-nothing column conversion -/

/-- `g` (the code) and `h` (the documented rule) agree on the cell `x` -/
def CellAgree (g : Cell → Outcome Cell) (h : Cell → Option Cell) (x : Cell) : Prop :=
  (∀ y, h x = some y → g x = .ok y) ∧ (h x = none → ∃ e, g x = .err e)

theorem convAll_all {g : Cell → Outcome Cell} {h : Cell → Option Cell} {d : List Cell}
    (hag : ∀ x ∈ d, CellAgree g h x) (hall : d.all (fun x => (h x).isSome) = true) :
    convAll g d = .ok (d.map (fun x => (h x).getD .nil)) := by
  induction d with
  | nil => rfl
  | cons x xs ih =>
    simp only [List.all_cons, Bool.and_eq_true] at hall
    obtain ⟨y, hy⟩ := Option.isSome_iff_exists.mp hall.1
    have hx := (hag x (List.mem_cons_self ..)).1 y hy
    simp only [convAll, hx, ih (fun z hz => hag z (List.mem_cons_of_mem _ hz)) hall.2]
    simp [hy]

theorem convAll_not_all {g : Cell → Outcome Cell} {h : Cell → Option Cell} {d : List Cell}
    (hag : ∀ x ∈ d, CellAgree g h x) (hall : ¬ d.all (fun x => (h x).isSome) = true) :
    ∃ e, convAll g d = .err e := by
  induction d with
  | nil => simp at hall
  | cons x xs ih =>
    simp only [List.all_cons, Bool.and_eq_true, not_and] at hall
    cases hx : h x with
    | none =>
      obtain ⟨e, he⟩ := (hag x (List.mem_cons_self ..)).2 hx
      exact ⟨e, by simp only [convAll, he]; rfl⟩
    | some y =>
      have hgx := (hag x (List.mem_cons_self ..)).1 y hx
      obtain ⟨e, he⟩ := ih (fun z hz => hag z (List.mem_cons_of_mem _ hz)) (hall (by simp [hx]))
      exact ⟨e, by simp only [convAll, hgx, he]; rfl⟩

/-- in a sorted frame, `set` on a present key rewrites exactly that column -/
theorem set_eq_map {f : Frame} (hs : f.Sorted) {k : Str} {c : Col} (hg : f.get? k = some c)
    (T : Col → Col) :
    f.set k (T c) = f.map (fun kc => if kc.1 == k then (kc.1, T kc.2) else kc) := by
  induction f with
  | nil => simp [get?] at hg
  | cons kc rest ih =>
    obtain ⟨k0, c0⟩ := kc
    rw [get?_cons] at hg
    simp only [Frame.set, List.map_cons]
    by_cases h : (k0 == k) = true
    · have hk := eq_of_beq h
      subst hk
      simp only [h, if_true, Option.some.injEq] at hg
      subst hg
      simp only [BEq.rfl, if_true]
      congr 1
      conv => lhs; rw [← List.map_id rest]
      apply List.map_congr_left
      intro x hx
      have : (x.1 == k0) = false := by
        have := strLt_ne (hs.head_lt x hx)
        simpa using fun e => this e.symm
      simp [this]
    · simp only [h] at hg
      have hmem := get?_mem hg
      have hlt := hs.head_lt _ hmem
      have h' : (k == k0) = false := by
        have := strLt_ne hlt
        simpa using fun e => this e.symm
      simp only [h', Bool.false_eq_true, if_false, strLt_asymm hlt, h]
      rw [ih hs.tail hg]

theorem convert_refines {f : Frame} (hs : f.Sorted) (k : Str) (g : Cell → Outcome Cell)
    (h : Cell → Option Cell) (hag : ∀ c, f.get? k = some c → ∀ x ∈ c.data, CellAgree g h x) :
    Refines (Spec.convertColumnSpec f k h)
      (match f.get? k with
       | none => .err "column does not exist"
       | some c => do
         let d ← convAll g c.data
         pure (f.set k { c with data := d })) := by
  unfold convertColumnSpec
  cases hg : f.get? k with
  | none => exact refines_none _
  | some c =>
    simp only []
    by_cases hall : c.data.all (fun x => (h x).isSome) = true
    · rw [if_pos hall, convAll_all (hag c hg) hall]
      simp only [Outcome.bind_ok, Outcome.pure_eq]
      rw [set_eq_map hs hg (fun c => { c with data := c.data.map (fun x => (h x).getD .nil) })]
      exact refines_some _
    · rw [if_neg hall]
      obtain ⟨e, he⟩ := convAll_not_all (hag c hg) hall
      rw [he]
      exact refines_none _

/-! ### `Astype` -/

theorem convCell_agree (ω : Oracle) (ty : Str) (x : Cell)
    (hx : x ≠ .flt false .nan ∧ x ≠ .flt false .pinf ∧ x ≠ .flt false .ninf) :
    CellAgree (convCell ω ty) (convSpec ω ty) x := by
  unfold CellAgree convCell convSpec
  by_cases h1 : ty = sInt
  · rw [if_pos h1, if_pos h1]
    cases x with
    | flt is32 v =>
      cases is32 <;> cases v <;> simp_all
    | _ => simp
  · rw [if_neg h1, if_neg h1]
    by_cases h2 : ty = sFloat64
    · rw [if_pos h2, if_pos h2]
      cases x with
      | int t v => cases t <;> simp
      | _ => simp
    · rw [if_neg h2, if_neg h2]
      by_cases h3 : ty = sString
      · rw [if_pos h3, if_pos h3]; simp
      · rw [if_neg h3, if_neg h3]; simp

theorem astype_refines (ω : Oracle) {f : Frame} (hs : f.Sorted) (k ty : Str)
    (hfin : ∀ c, f.get? k = some c → ∀ x ∈ c.data,
      x ≠ .flt false .nan ∧ x ≠ .flt false .pinf ∧ x ≠ .flt false .ninf) :
    Refines (Spec.astypeSpec ω f k ty) (f.astype ω k ty) := by
  unfold astypeSpec astype
  by_cases hv : ty ≠ sInt ∧ ty ≠ sFloat64 ∧ ty ≠ sString
  · rw [if_pos hv]
    cases f.get? k with
    | none => exact refines_none _
    | some c => simp only [if_pos hv]; exact refines_none _
  · rw [if_neg hv]
    have := convert_refines hs k (convCell ω ty) (convSpec ω ty)
      (fun c hc x hx => convCell_agree ω ty x (hfin c hc x hx))
    cases hg : f.get? k with
    | none => rw [hg] at this; exact this
    | some c => rw [hg] at this; simp only [if_neg hv]; exact this

theorem addDatetimeIndex_refines (ω : Oracle) {f : Frame} (hs : f.Sorted) (k layout : Str) :
    Refines (Spec.addDatetimeIndexSpec ω f k layout) (f.addDatetimeIndex ω k layout) := by
  unfold addDatetimeIndexSpec addDatetimeIndex
  apply convert_refines hs k
  intro c _ x _
  unfold CellAgree
  cases x with
  | str s => cases ht : ω.timeParse layout s <;> simp [ht]
  | _ => simp

theorem get?_set_ne (f : Frame) {k k' : Str} (c : Col) (hne : k' ≠ k) :
    (f.set k c).get? k' = f.get? k' := by
  have hb : (k == k') = false := by simpa using fun e => hne e.symm
  induction f with
  | nil => simp [Frame.set, get?_cons, hb]
  | cons kc rest ih =>
    obtain ⟨k0, c0⟩ := kc
    simp only [Frame.set]
    by_cases h : (k == k0) = true
    · have := eq_of_beq h; subst this
      simp [get?_cons, hb]
    · by_cases h2 : strLt k k0 = true
      · simp [h, h2, get?_cons, hb]
      · simp only [h, h2, Bool.false_eq_true, if_false, get?_cons, ih]

theorem astype_other {ω : Oracle} {f f' : Frame} {k ty : Str} (h : f.astype ω k ty = .ok f') :
    ∀ k', k' ≠ k → f'.get? k' = f.get? k' := by
  intro k' hne
  unfold astype at h
  cases hg : f.get? k with
  | none => rw [hg] at h; cases h
  | some c =>
    rw [hg] at h
    simp only at h
    split at h
    · cases h
    · obtain ⟨d, _, hd⟩ := Outcome.bind_eq_ok.mp h
      simp only [Outcome.pure_eq, Outcome.ok.injEq] at hd
      rw [← hd]
      exact get?_set_ne f _ hne

/-! ### float64 → int -/

theorem truncToInt_nonneg {q : Rat} (h : 0 ≤ q) : truncToInt q = q.floor := by
  unfold truncToInt
  rw [Rat.floor_def, Int.tdiv_eq_ediv_of_nonneg (Rat.num_nonneg.mpr h)]

theorem truncToInt_nonpos {q : Rat} (h : q ≤ 0) : truncToInt q = -((-q).floor) := by
  unfold truncToInt
  have hn : 0 ≤ (-q).num := Rat.num_nonneg.mpr (by grind)
  rw [Rat.floor_def]; rw [Rat.neg_num] at hn ⊢; rw [Rat.neg_den]
  rw [← Int.tdiv_eq_ediv_of_nonneg hn, Int.neg_tdiv, Int.neg_neg]

theorem truncToInt_bounds (q : Rat) :
    (0 ≤ q → (truncToInt q : Rat) ≤ q ∧ q < (truncToInt q : Rat) + 1) ∧
    (q ≤ 0 → q ≤ (truncToInt q : Rat) ∧ (truncToInt q : Rat) - 1 < q) := by
  constructor
  · intro h
    rw [truncToInt_nonneg h]
    have h1 := Rat.floor_le q
    have h2 := Rat.lt_floor_add_one q
    rw [Rat.intCast_add] at h2
    exact ⟨h1, by simpa using h2⟩
  · intro h
    rw [truncToInt_nonpos h]
    have h1 := Rat.floor_le (-q)
    have h2 := Rat.lt_floor_add_one (-q)
    rw [Rat.intCast_add] at h2
    rw [Rat.intCast_neg]
    constructor <;> grind

end Frame
end Goframe
