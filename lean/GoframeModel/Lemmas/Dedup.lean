import GoframeModel.Ops.Clean
import GoframeModel.Spec.SortDedup
import GoframeModel.Lemmas.RefineD
/-
  Helper lemmas for C07 (DropDuplicates): decimal rendering is injective and digit-only, the cell key
  is a prefix code, the row key of a rectangular frame is the concatenation of its cell keys, and the
  index filter of the model coincides with the row filter of the specification.
-/
namespace Goframe
namespace Dedup
open Frame

/-! ### Decimal rendering -/

def isDigit (b : UInt8) : Prop := 48 ≤ b.toNat ∧ b.toNat ≤ 57

theorem digit_isDigit (n : Nat) : isDigit (48 + n % 10).toUInt8 := by
  have : n % 10 < 10 := Nat.mod_lt _ (by decide)
  unfold isDigit
  simp [Nat.toUInt8]
  omega

theorem digit_val (n : Nat) : (48 + n % 10).toUInt8.toNat - 48 = n % 10 := by
  have : n % 10 < 10 := Nat.mod_lt _ (by decide)
  simp [Nat.toUInt8]
  omega

theorem digitsAux_append (fuel n : Nat) (acc : List UInt8) :
    digitsAux fuel n acc = digitsAux fuel n [] ++ acc := by
  induction fuel generalizing n acc with
  | zero => simp [digitsAux]
  | succ fuel ih =>
    simp only [digitsAux]
    split
    · simp
    · rw [ih (n / 10) (_ :: acc), ih (n / 10) [_]]; simp

theorem digitsAux_step (fuel n : Nat) :
    digitsAux (fuel + 1) n [] =
      if n < 10 then [(48 + n % 10).toUInt8]
      else digitsAux fuel (n / 10) [] ++ [(48 + n % 10).toUInt8] := by
  simp only [digitsAux]
  split
  · rfl
  · rw [digitsAux_append]

/-- value of a digit string -/
def decode (s : List UInt8) : Nat := s.foldl (fun a d => a * 10 + (d.toNat - 48)) 0

theorem decode_snoc (s : List UInt8) (d : UInt8) : decode (s ++ [d]) = decode s * 10 + (d.toNat - 48) := by
  simp [decode, List.foldl_append]

theorem decode_digitsAux (fuel n : Nat) (h : n < fuel) : decode (digitsAux fuel n []) = n := by
  induction fuel generalizing n with
  | zero => omega
  | succ fuel ih =>
    rw [digitsAux_step]
    split
    · rename_i h10
      simp only [decode, List.foldl_cons, List.foldl_nil, Nat.zero_mul, Nat.zero_add]
      rw [digit_val]; omega
    · rw [decode_snoc, ih (n / 10) (by omega), digit_val]; omega

theorem decode_natStr (n : Nat) : decode (natStr n) = n :=
  decode_digitsAux (n + 1) n (by omega)

theorem natStr_injective {n m : Nat} (h : natStr n = natStr m) : n = m := by
  rw [← decode_natStr n, ← decode_natStr m, h]

theorem digitsAux_isDigit (fuel n : Nat) : ∀ b ∈ digitsAux fuel n [], isDigit b := by
  induction fuel generalizing n with
  | zero => simp [digitsAux]
  | succ fuel ih =>
    rw [digitsAux_step]
    split
    · intro b hb
      simp only [List.mem_singleton] at hb
      subst hb; exact digit_isDigit n
    · intro b hb
      simp only [List.mem_append, List.mem_singleton] at hb
      rcases hb with hb | hb
      · exact ih _ b hb
      · subst hb; exact digit_isDigit n

theorem natStr_isDigit (n : Nat) : ∀ b ∈ natStr n, isDigit b := digitsAux_isDigit _ _

theorem natStr_no58 (n : Nat) : (58 : UInt8) ∉ natStr n := by
  intro h
  have := natStr_isDigit n _ h
  simp [isDigit] at this

theorem natStr_no45 (n : Nat) : (45 : UInt8) ∉ natStr n := by
  intro h
  have := natStr_isDigit n _ h
  simp [isDigit] at this

theorem intStr_injective {a b : Int} (h : intStr a = intStr b) : a = b := by
  cases a with
  | ofNat n =>
    cases b with
    | ofNat m => simp only [intStr] at h; rw [natStr_injective h]
    | negSucc m =>
      simp only [intStr] at h
      exact absurd (h ▸ List.mem_cons_self) (natStr_no45 n)
  | negSucc n =>
    cases b with
    | ofNat m =>
      simp only [intStr] at h
      exact absurd (h ▸ List.mem_cons_self) (natStr_no45 m)
    | negSucc m =>
      simp only [intStr, List.cons.injEq, true_and] at h
      have := natStr_injective h
      have : n = m := by omega
      rw [this]

/-! ### The cell key is a prefix code -/

/-- splitting at the first separator -/
theorem split_at_sep {α} (s : α) :
    ∀ (a b x y : List α), s ∉ a → s ∉ b → a ++ s :: x = b ++ s :: y → a = b ∧ x = y := by
  intro a
  induction a with
  | nil =>
    intro b x y _ hb h
    cases b with
    | nil => simpa using h
    | cons b0 bs =>
      simp only [List.nil_append, List.cons_append, List.cons.injEq] at h
      exact absurd (h.1 ▸ List.mem_cons_self) hb
  | cons a0 as ih =>
    intro b x y ha hb h
    cases b with
    | nil =>
      simp only [List.nil_append, List.cons_append, List.cons.injEq] at h
      exact absurd (h.1 ▸ List.mem_cons_self) ha
    | cons b0 bs =>
      simp only [List.cons_append, List.cons.injEq] at h
      have ha' : s ∉ as := fun hm => ha (List.mem_cons_of_mem _ hm)
      have hb' : s ∉ bs := fun hm => hb (List.mem_cons_of_mem _ hm)
      obtain ⟨e1, e2⟩ := ih bs x y ha' hb' h.2
      exact ⟨by rw [h.1, e1], e2⟩

theorem typeName_no58 (c : Cell) : (58 : UInt8) ∉ c.typeName := by
  cases c with
  | nil => simp [Cell.typeName, sNil]
  | int ty v => cases ty <;> simp [Cell.typeName, IntTy.name]
  | flt s v => cases s <;> simp [Cell.typeName]
  | str s => simp [Cell.typeName]
  | bool b => simp [Cell.typeName]
  | time t => simp [Cell.typeName]

/-- the Go type name and the `%v` text determine the cell -/
theorem cell_eq_of_type_fmt (ω : Oracle)
    (hF : ∀ s a b, ω.fmtFloat s a = ω.fmtFloat s b → a = b)
    (hT : ∀ a b, ω.fmtTime a = ω.fmtTime b → a = b) {a b : Cell}
    (ht : a.typeName = b.typeName) (hv : ω.fmtV a = ω.fmtV b) : a = b := by
  cases a with
  | nil =>
    cases b with
    | nil => rfl
    | int ty v => cases ty <;> simp [Cell.typeName, sNil, IntTy.name] at ht
    | flt s v => cases s <;> simp [Cell.typeName, sNil] at ht
    | str s => simp [Cell.typeName, sNil] at ht
    | bool b => simp [Cell.typeName, sNil] at ht
    | time t => simp [Cell.typeName, sNil] at ht
  | int ty v =>
    cases b with
    | nil => cases ty <;> simp [Cell.typeName, sNil, IntTy.name] at ht
    | int ty' v' =>
      have : ty = ty' := by
        cases ty <;> cases ty' <;> first | rfl | simp [Cell.typeName, IntTy.name] at ht
      subst this
      simp only [Oracle.fmtV] at hv
      rw [intStr_injective hv]
    | flt s v => cases ty <;> cases s <;> simp [Cell.typeName, IntTy.name] at ht
    | str s => cases ty <;> simp [Cell.typeName, IntTy.name] at ht
    | bool b => cases ty <;> simp [Cell.typeName, IntTy.name] at ht
    | time t => cases ty <;> simp [Cell.typeName, IntTy.name] at ht
  | flt s v =>
    cases b with
    | nil => cases s <;> simp [Cell.typeName, sNil] at ht
    | int ty v => cases ty <;> cases s <;> simp [Cell.typeName, IntTy.name] at ht
    | flt s' v' =>
      have : s = s' := by
        cases s <;> cases s' <;> first | rfl | simp [Cell.typeName] at ht
      subst this
      simp only [Oracle.fmtV] at hv
      rw [hF _ _ _ hv]
    | str s' => cases s <;> simp [Cell.typeName] at ht
    | bool b => cases s <;> simp [Cell.typeName] at ht
    | time t => cases s <;> simp [Cell.typeName] at ht
  | str s =>
    cases b with
    | nil => simp [Cell.typeName, sNil] at ht
    | int ty v => cases ty <;> simp [Cell.typeName, IntTy.name] at ht
    | flt s' v' => cases s' <;> simp [Cell.typeName] at ht
    | str s' => simp only [Oracle.fmtV] at hv; rw [hv]
    | bool b => simp [Cell.typeName] at ht
    | time t => simp [Cell.typeName] at ht
  | bool x =>
    cases b with
    | nil => simp [Cell.typeName, sNil] at ht
    | int ty v => cases ty <;> simp [Cell.typeName, IntTy.name] at ht
    | flt s' v' => cases s' <;> simp [Cell.typeName] at ht
    | str s' => simp [Cell.typeName] at ht
    | bool y => cases x <;> cases y <;> first | rfl | simp [Oracle.fmtV, sTrue, sFalse] at hv
    | time t => simp [Cell.typeName] at ht
  | time t =>
    cases b with
    | nil => simp [Cell.typeName, sNil] at ht
    | int ty v => cases ty <;> simp [Cell.typeName, IntTy.name] at ht
    | flt s' v' => cases s' <;> simp [Cell.typeName] at ht
    | str s' => simp [Cell.typeName] at ht
    | bool y => simp [Cell.typeName] at ht
    | time t' => simp only [Oracle.fmtV] at hv; rw [hT _ _ hv]

/-- one cell's key determines the cell and the remainder -/
theorem cellKey_inj (ω : Oracle)
    (hF : ∀ s a b, ω.fmtFloat s a = ω.fmtFloat s b → a = b)
    (hT : ∀ a b, ω.fmtTime a = ω.fmtTime b → a = b) (name : Str) (a b : Cell) (rest₁ rest₂ : Str)
    (hk : cellKey ω name a ++ rest₁ = cellKey ω name b ++ rest₂) : a = b ∧ rest₁ = rest₂ := by
  simp only [cellKey, List.append_assoc, List.cons_append, List.nil_append] at hk
  have h1 := List.append_cancel_left hk
  simp only [List.cons.injEq, true_and] at h1
  obtain ⟨ht, h2⟩ := split_at_sep (58 : UInt8) _ _ _ _ (typeName_no58 a) (typeName_no58 b) h1
  obtain ⟨hl, h3⟩ := split_at_sep (58 : UInt8) _ _ _ _ (natStr_no58 _) (natStr_no58 _) h2
  have hlen := natStr_injective hl
  obtain ⟨hv, h4⟩ := List.append_inj h3 hlen
  simp only [List.cons.injEq, true_and] at h4
  exact ⟨cell_eq_of_type_fmt ω hF hT ht hv, h4⟩

/-! ### Row keys -/

/-- the key of a row map on the compared columns -/
def keyOf (ω : Oracle) (r : Row) : List Str → Str
  | [] => []
  | k :: ks => cellKey ω k (Row.getD r k) ++ keyOf ω r ks

theorem rowKey_eq (ω : Oracle) {f : Frame} {n : Nat} (hr : f.RectN n) (cs : List Str)
    (hcs : ∀ c ∈ cs, f.has c = true) (i : Nat) (hi : i < n) :
    f.rowKey ω i cs = .ok (keyOf ω (f.rowMap i) cs) := by
  induction cs with
  | nil => rfl
  | cons k ks ih =>
    obtain ⟨c, hc, hm⟩ := Frame.get?_of_has (hcs k List.mem_cons_self)
    have hlen : c.data.length = n := (hr _ hm).1
    have hi' : i < c.data.length := by omega
    have hget : c.data[i]? = some c.data[i] := List.getElem?_eq_getElem hi'
    have hD : Row.getD (f.rowMap i) k = c.data[i] := by
      rw [Frame.rowMap_getD, hc]
      simp [List.getD, hget]
    simp only [rowKey, hc, hget, ih (fun c hc => hcs c (List.mem_cons_of_mem _ hc)),
      Outcome.bind_ok, Outcome.pure_eq, keyOf, hD]

theorem keyOf_eq_iff (ω : Oracle)
    (hF : ∀ s a b, ω.fmtFloat s a = ω.fmtFloat s b → a = b)
    (hT : ∀ a b, ω.fmtTime a = ω.fmtTime b → a = b) (cs : List Str) (r r' : Row) :
    keyOf ω r cs = keyOf ω r' cs ↔ Spec.sameOn cs r r' = true := by
  induction cs with
  | nil => simp [keyOf, Spec.sameOn]
  | cons k ks ih =>
    have hsame : Spec.sameOn (k :: ks) r r' = true ↔
        Row.getD r k = Row.getD r' k ∧ Spec.sameOn ks r r' = true := by
      simp [Spec.sameOn]
    rw [hsame, ← ih]
    simp only [keyOf]
    constructor
    · intro h
      exact cellKey_inj ω hF hT k _ _ _ _ h
    · rintro ⟨h1, h2⟩
      rw [h1, h2]

/-! ### The index filter against the row filter -/

theorem rowKeys_eq (ω : Oracle) {f : Frame} {n : Nat} (hr : f.RectN n) (cs : List Str)
    (hcs : ∀ c ∈ cs, f.has c = true) (i cnt : Nat) (h : i + cnt ≤ n) :
    f.rowKeys ω cs i cnt = .ok ((List.range' i cnt).map (fun j => keyOf ω (f.rowMap j) cs)) := by
  induction cnt generalizing i with
  | zero => rfl
  | succ cnt ih =>
    simp only [rowKeys, rowKey_eq ω hr cs hcs i (by omega), ih (i + 1) (by omega),
      Outcome.bind_ok, Outcome.pure_eq, List.range'_succ, List.map_cons]

section abstract
variable {α : Type} (κ : α → Str) (E : α → α → Bool) (hκ : ∀ a b, κ a = κ b ↔ E a b = true)
include hκ

theorem beq_key (a b : α) : (κ a == κ b) = E a b := by
  rw [Bool.eq_iff_iff]; simp [hκ]

theorem contains_map_key (l : List α) (r : α) : (l.map κ).contains (κ r) = l.any (E r) := by
  induction l with
  | nil => simp
  | cons x xs ih =>
    simp only [List.map_cons, List.contains_cons, List.any_cons, ih, beq_key κ E hκ]

theorem count_map_key (l : List α) (r : α) : (l.map κ).count (κ r) = (l.filter (E r)).length := by
  induction l with
  | nil => simp
  | cons x xs ih =>
    simp only [List.map_cons, List.count_cons, ih, List.filter_cons, beq_key κ E hκ]
    have : E x r = E r x := by
      rw [Bool.eq_iff_iff, ← hκ, ← hκ]; exact eq_comm
    rw [this]
    split <;> simp

end abstract

theorem zipIdx_map_range {α} (g : Nat → α) (m : Nat) :
    ((List.range m).map g).zipIdx = (List.range m).map (fun i => (g i, i)) := by
  apply List.ext_getElem
  · simp
  · intro i h1 h2
    simp


theorem dedupRows_eq (cs : List Str) (keep : Keep) (g : Nat → Row) (m : Nat) (κ : Row → Str)
    (hκ : ∀ a b, κ a = κ b ↔ Spec.sameOn cs a b = true) :
    Spec.dedupRows cs keep ((List.range m).map g) =
      (keepIdx keep ((List.range m).map (fun i => κ (g i)))).map g := by
  have hkeys : (List.range m).map (fun i => κ (g i)) = ((List.range m).map g).map κ := by
    simp [List.map_map, Function.comp_def]
  simp only [Spec.dedupRows, keepIdx, zipIdx_map_range, List.filter_map, List.map_map,
    List.length_map, List.length_range]
  have hcomp : (Prod.fst ∘ fun i => (g i, i)) = g := rfl
  rw [hcomp]
  congr 1
  apply List.filter_congr
  intro i hi
  have hi' : i < m := List.mem_range.mp hi
  have hget : ((List.range m).map (fun i => κ (g i))).getD i [] = κ (g i) := by
    simp [List.getD, List.getElem?_map, List.getElem?_range hi']
  simp only [Function.comp, hget]
  rw [hkeys]
  cases keep with
  | first => simp only [← List.map_take, contains_map_key κ _ hκ]
  | last => simp only [← List.map_drop, contains_map_key κ _ hκ]
  | none => simp only [count_map_key κ _ hκ, List.filter_map, List.length_map]

theorem keepIdx_lt (keep : Keep) (keys : List Str) : ∀ i ∈ keepIdx keep keys, i < keys.length := by
  intro i hi
  simp only [keepIdx, List.mem_filter, List.mem_range] at hi
  exact hi.1

/-- the model's key pass succeeds and its index filter selects the specification's rows -/
theorem dedup_core (ω : Oracle)
    (hF : ∀ s a b, ω.fmtFloat s a = ω.fmtFloat s b → a = b)
    (hT : ∀ a b, ω.fmtTime a = ω.fmtTime b → a = b) {f : Frame} (hs : f.Sorted)
    (hr : f.RectN f.nrows) (cols : List Str) (hcs : ∀ c ∈ cols, f.has c = true) (keep : Keep) :
    ∃ keys, f.rowKeys ω cols 0 f.nrows = .ok keys ∧
      Spec.ofRows f.keys (Spec.dedupRows cols keep (Spec.rowsOf f)) =
        f.map (fun kc => (kc.1, { name := kc.1, data := pick kc.2.data (keepIdx keep keys) })) := by
  refine ⟨_, rowKeys_eq ω hr cols hcs 0 f.nrows (by omega), ?_⟩
  rw [← List.range_eq_range', Spec.rowsOf,
    dedupRows_eq cols keep f.rowMap f.nrows (fun r => keyOf ω r cols)
      (fun a b => keyOf_eq_iff ω hF hT cols a b),
    Spec.ofRows_pick hs]

end Dedup
end Goframe
