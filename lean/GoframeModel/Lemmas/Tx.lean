import GoframeModel.Ops.SqlWrite
/-
  Lemmas on the transaction protocol model of `Ops/SqlWrite.lean` (C12): the shape of `runCalls` traces,
  the fact that a body plan only contains `query`/`exec` calls, and a case description of `runBody`.
-/
namespace Goframe.TxLemmas
open Goframe Sql

/-- a call the body of an export may issue -/
def isBody : Call → Bool
  | .query _ _ => true
  | .exec _ _ => true
  | _ => false

/-! ### `runCalls` -/

theorem runCalls_none (calls : List Call) (start : Nat) :
    runCalls calls none start = (calls.map (fun c => (c, true)), true) := by
  induction calls generalizing start with
  | nil => rfl
  | cons c rest ih => simp [runCalls, ih]

theorem runCalls_lt (calls : List Call) (k start : Nat) (h : k < start) :
    runCalls calls (some k) start = (calls.map (fun c => (c, true)), true) := by
  induction calls generalizing start with
  | nil => rfl
  | cons c rest ih =>
    have hne : k ≠ start := by omega
    simp [runCalls, hne, ih (start + 1) (by omega)]

theorem runCalls_ge (calls : List Call) (k start : Nat) (h : start + calls.length ≤ k) :
    runCalls calls (some k) start = (calls.map (fun c => (c, true)), true) := by
  induction calls generalizing start with
  | nil => rfl
  | cons c rest ih =>
    simp only [List.length_cons] at h
    have hne : k ≠ start := by omega
    simp [runCalls, hne, ih (start + 1) (by omega)]

theorem runCalls_in (calls : List Call) (k start : Nat) (h1 : start ≤ k) (h2 : k < start + calls.length) :
    (runCalls calls (some k) start).2 = false ∧
    (runCalls calls (some k) start).1.length = k - start + 1 ∧
    ((runCalls calls (some k) start).1.getLast?.map (·.2)) = some false := by
  induction calls generalizing start with
  | nil => simp at h2; omega
  | cons c rest ih =>
    simp only [List.length_cons] at h2
    by_cases hk : k = start
    · subst hk
      simp [runCalls]
    · have ih' := ih (start + 1) (by omega) (by omega)
      obtain ⟨i1, i2, i3⟩ := ih'
      have hpos : (runCalls rest (some k) (start + 1)).1 ≠ [] := by
        intro h0; rw [h0] at i2; simp at i2
      simp only [runCalls, Option.some.injEq, hk, if_false]
      refine ⟨i1, ?_, ?_⟩
      · simp only [List.length_cons, i2]; omega
      · rw [List.getLast?_cons_of_ne_nil hpos] <;> exact i3

theorem runCalls_mem (calls : List Call) (fa : Option Nat) (start : Nat) :
    ∀ x ∈ (runCalls calls fa start).1, x.1 ∈ calls := by
  induction calls generalizing start with
  | nil => simp [runCalls]
  | cons c rest ih =>
    intro x hx
    by_cases hk : fa = some start
    · simp [runCalls, hk] at hx
      subst hx; simp
    · simp only [runCalls, hk, if_false, List.mem_cons] at hx
      rcases hx with hx | hx
      · subst hx; simp
      · exact List.mem_cons_of_mem _ (ih _ x hx)

/-! ### body plans -/

theorem bodyAfterQuery_isBody (f : Frame) (table : Str) (r : Resolved) (ex : Bool) :
    ∀ c ∈ (bodyAfterQuery f table r ex).1, isBody c = true := by
  intro c hc
  unfold bodyAfterQuery at hc
  split at hc
  · simp at hc
  · simp only [List.mem_append] at hc
    rcases hc with (hc | hc) | hc
    · split at hc
      · simp at hc; subst hc; rfl
      · simp at hc
    · split at hc
      · simp at hc
      · simp at hc; subst hc; rfl
    · split at hc
      · simp at hc
      · simp only [List.mem_map] at hc
        obtain ⟨p, _, hp⟩ := hc
        subst hp; rfl

theorem bodyPlan_isBody {f : Frame} {table : Str} {o : WriteOpts} {ex : Bool} {calls : List Call} {good : Bool}
    (h : bodyPlan f table o ex = .ok (calls, good)) : ∀ c ∈ calls, isBody c = true := by
  unfold bodyPlan at h
  cases hr : resolve o with
  | ok r =>
    rw [hr] at h
    simp only [Outcome.bind, Outcome.ok.injEq, Prod.mk.injEq] at h
    obtain ⟨h1, _⟩ := h
    subst h1
    intro c hc
    rcases List.mem_cons.1 hc with hc | hc
    · subst hc; rfl
    · exact bodyAfterQuery_isBody f table r ex c hc
  | err e => rw [hr] at h; simp [Outcome.bind] at h
  | panic p => rw [hr] at h; simp [Outcome.bind] at h

/-- the two shapes of `runBody` -/
theorem runBody_cases (f : Frame) (table : Str) (o : WriteOpts) (ex : Bool) :
    (∀ fa start, runBody f table o ex fa start = ([], false)) ∨
    ∃ calls good, (∀ c ∈ calls, isBody c = true) ∧
      ∀ fa start, runBody f table o ex fa start =
        ((runCalls calls fa start).1, (runCalls calls fa start).2 && good) := by
  cases hp : bodyPlan f table o ex with
  | ok p =>
    obtain ⟨calls, good⟩ := p
    right
    refine ⟨calls, good, bodyPlan_isBody hp, ?_⟩
    intro fa start
    simp [runBody, hp]
  | err e => left; intro fa start; simp [runBody, hp]
  | panic e => left; intro fa start; simp [runBody, hp]

/-- every traced call of a body is a `query` or an `exec` -/
theorem runBody_isBody (f : Frame) (table : Str) (o : WriteOpts) (ex : Bool) (fa : Option Nat) (start : Nat) :
    ∀ x ∈ (runBody f table o ex fa start).1, isBody x.1 = true := by
  rcases runBody_cases f table o ex with h | ⟨calls, good, hb, h⟩
  · rw [h]; simp
  · rw [h]; intro x hx
    exact hb _ (runCalls_mem calls fa start x hx)

/-! ### counting commits and rollbacks -/

theorem filter_body_nil (tr : List (Call × Bool)) (p : Call × Bool → Bool)
    (hp : ∀ x, p x = true → isBody x.1 = false)
    (h : ∀ x ∈ tr, isBody x.1 = true) : tr.filter p = [] := by
  rw [List.filter_eq_nil_iff]
  intro x hx hpx
  have := hp x hpx
  rw [h x hx] at this
  exact absurd this (by simp)

/-- filtering a transaction trace `first :: body ++ [last]` by a predicate no body call satisfies -/
theorem filter_wrap (tr : List (Call × Bool)) (p : Call × Bool → Bool) (b e : Call × Bool)
    (h : ∀ x ∈ tr, isBody x.1 = true) (hp : ∀ x, p x = true → isBody x.1 = false) :
    (b :: tr ++ [e]).filter p = [b].filter p ++ [e].filter p := by
  rw [show b :: tr ++ [e] = [b] ++ (tr ++ [e]) from rfl, List.filter_append, List.filter_append,
    filter_body_nil tr p hp h]
  simp

theorem any_wrap (tr : List (Call × Bool)) (p : Call × Bool → Bool) (b e : Call × Bool)
    (h : ∀ x ∈ tr, isBody x.1 = true) (hp : ∀ x, p x = true → isBody x.1 = false) :
    (b :: tr ++ [e]).any p = (p b || p e) := by
  have : tr.any p = false := by
    rw [List.any_eq_false]
    intro x hx hpx
    have := hp x hpx
    rw [h x hx] at this
    exact absurd this (by simp)
  simp [List.any_append, this]

theorem commit_not_body (x : Call × Bool) (b : Bool) :
    decide (x.1 = Call.commit ∧ x.2 = b) = true → isBody x.1 = false := by
  intro hx
  simp at hx
  rw [hx.1]; rfl

theorem rollback_not_body (x : Call × Bool) :
    decide (x.1 = Call.rollback) = true → isBody x.1 = false := by
  intro hx
  simp at hx
  rw [hx]; rfl

/-! ### `runTx` -/

/-- a body that reports success although a fault index `k ≥ 1` was given was not hit by the fault:
all its calls have smaller index, and the fault-free run is Begin, the same calls, Commit -/
theorem runBody_ok_some {f : Frame} {table : Str} {o : WriteOpts} {ex : Bool} {k : Nat}
    {tr : List (Call × Bool)} (h : runBody f table o ex (some k) 1 = (tr, true)) (hk : 1 ≤ k) :
    1 + tr.length ≤ k ∧ (runTx f table o ex none).1.length = tr.length + 2 := by
  rcases runBody_cases f table o ex with h0 | ⟨calls, good, _, hc⟩
  · rw [h0] at h; simp at h
  · rw [hc] at h
    simp only [Prod.mk.injEq, Bool.and_eq_true] at h
    obtain ⟨h1, h2, h3⟩ := h
    by_cases hin : k < 1 + calls.length
    · have := (runCalls_in calls k 1 hk hin).1
      rw [this] at h2; simp at h2
    · rw [runCalls_ge calls k 1 (by omega)] at h1
      simp only at h1
      subst h1
      subst h3
      refine ⟨by simp; omega, ?_⟩
      simp [runTx, hc, runCalls_none]

end Goframe.TxLemmas
