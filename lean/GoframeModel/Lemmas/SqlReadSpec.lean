import GoframeModel.Lemmas.SqlRead
import GoframeModel.Spec.SqlRead
/-
  Lemmas relating the SQL import model (`Ops/SqlRead.lean`) to its specification function
  (`Spec/SqlRead.lean`), for C14b (`fromSQL_spec`).
-/
namespace Goframe.SqlReadSpecLemmas
open Goframe SqlRead SqlReadLemmas

/-! ### the specification, in named pieces -/

def isNull (c : Cell) : Bool := c == .nil

def handlerOk : Handler → Bool
  | .dflt => true
  | .byColumn _ => true
  | .named s => s == sNilH || s == sZero || s == sSkip
  | .badType => false

def skipping : Handler → Bool
  | .named s => s == sSkip
  | _ => false

/-- date parsing of a listed column -/
def dateOf (ω : Oracle) (o : Opts) (name : Str) (base : Cell) : Option Cell :=
  if o.parseDates.contains name then
    (match parseDate ω base with
     | .ok c => some c
     | _ => none)
  else some base

/-- the value before date parsing -/
def baseOf (o : Opts) (name : Str) (ty : ScanTy) (v : Cell) : Cell :=
  if isNull v then
    (match handleNull o.handler name ty with
     | .ok (.value c) => c
     | _ => .nil)
  else v

def cellOf (ω : Oracle) (o : Opts) (name : Str) (ty : ScanTy) (v : Cell) : Option Cell :=
  dateOf ω o name (baseOf o name ty v)

def rowCells (ω : Oracle) (o : Opts) (names : List Str) (tys : List ScanTy) (r : List Cell) : List (Option Cell) :=
  (names.zip (tys.zip r)).map (fun (n, ty, v) => cellOf ω o n ty v)

def build (names : List Str) (rows : List (List Cell)) : Frame :=
  (names.zipIdx.map (fun (n, j) =>
    (n, ({ name := n, data := rows.map (fun r => r.getD j .nil) } : Col)))).foldl
      (fun acc kc => Frame.insertCol kc acc) []

/-- the input conditions (after the three entry conditions) under which no frame is specified -/
def badInput (rs : ResultSet) (o : Opts) : Bool :=
  rs.errAt.isSome || !(rs.rows.all (fun r => scanRowOk (rs.types.map scanTyOf) r)) || Frame.hasDup rs.names ||
    (rs.rows.any (fun r => r.any isNull) && !handlerOk o.handler)

def kept (rs : ResultSet) (o : Opts) : List (List Cell) :=
  if skipping o.handler then rs.rows.filter (fun r => !(r.any isNull)) else rs.rows

def keptCells (ω : Oracle) (rs : ResultSet) (o : Opts) : List (List (Option Cell)) :=
  (kept rs o).map (rowCells ω o rs.names (rs.types.map scanTyOf))

/-- the specification after the three entry conditions -/
def specRows (ω : Oracle) (rs : ResultSet) (o : Opts) : Option Frame :=
  if badInput rs o then none
  else if (keptCells ω rs o).any (fun r => r.any Option.isNone) then none
  else some (build rs.names ((keptCells ω rs o).map (fun r => r.map (fun c => c.getD .nil))))

def ambRow (ω : Oracle) (o : Opts) (names : List Str) (tys : List ScanTy) (r : List Cell) : Bool :=
  (names.zip (tys.zip r)).any (fun (n, _, v) =>
    o.parseDates.contains n && v != .nil && !(parseDate ω v).isOk)

theorem specFromSQL_eq' (ω : Oracle) (nilHandle : Bool) (query : Str) (queryErr : Bool) (rs : ResultSet) (o : Opts) :
    Spec.specFromSQL ω nilHandle query queryErr rs o =
      (let tys := rs.types.map scanTyOf
       if nilHandle || query.isEmpty || queryErr || rs.errAt.isSome || !(rs.rows.all (fun r => scanRowOk tys r)) ||
          Frame.hasDup rs.names || (rs.rows.any (fun r => r.any isNull) && !handlerOk o.handler) then none
       else
        let kept := if skipping o.handler then rs.rows.filter (fun r => !(r.any isNull)) else rs.rows
        let cells := kept.map (rowCells ω o rs.names tys)
        if cells.any (fun r => r.any Option.isNone) then none
        else some (build rs.names (cells.map (fun r => r.map (fun c => c.getD .nil))))) := by
  rfl

theorem specFromSQL_eq (ω : Oracle) (nilHandle : Bool) (query : Str) (queryErr : Bool) (rs : ResultSet) (o : Opts) :
    Spec.specFromSQL ω nilHandle query queryErr rs o =
      if nilHandle || query.isEmpty || queryErr then none else specRows ω rs o := by
  rw [specFromSQL_eq']
  unfold specRows badInput keptCells kept
  cases nilHandle <;> cases query.isEmpty <;> cases queryErr <;> simp

theorem ambiguous_eq (ω : Oracle) (rs : ResultSet) (o : Opts) :
    Spec.ambiguous ω rs o =
      (skipping o.handler && rs.rows.any (fun r => r.any isNull && ambRow ω o rs.names (rs.types.map scanTyOf) r)) := by
  rfl

/-! ### frames: `set` versus `insertCol`, `has` after `set` -/

theorem set_eq_insertCol (f : Frame) (k : Str) (c : Col) (h : f.has k = false) :
    f.set k c = Frame.insertCol (k, c) f := by
  induction f with
  | nil => rfl
  | cons kc rest ih =>
    obtain ⟨k', c'⟩ := kc
    simp only [Frame.has, List.any_cons, Bool.or_eq_false_iff] at h
    have hne : (k == k') = false := by
      have := h.1
      simp only [beq_eq_false_iff_ne, ne_eq] at this ⊢
      exact fun e => this e.symm
    have ih' := ih (by simpa [Frame.has] using h.2)
    simp only [Frame.set, hne, Frame.insertCol, ih']
    rfl

theorem has_set_self (f : Frame) (k : Str) (c : Col) : (f.set k c).has k = true := by
  rw [has_eq_isSome, get?_set_self]; rfl

theorem has_set_ne (f : Frame) (k k' : Str) (c : Col) (h : k' ≠ k) : (f.set k c).has k' = f.has k' := by
  rw [has_eq_isSome, has_eq_isSome, get?_set_ne _ _ _ _ h]

theorem has_set_of_has (f : Frame) (k k' : Str) (c : Col) (h : f.has k' = true) : (f.set k c).has k' = true := by
  by_cases e : k' = k
  · subst e; exact has_set_self ..
  · rw [has_set_ne _ _ _ _ e]; exact h

/-! ### column assembly -/

theorem assemble_dup (names : List Str) (rows : List (List Cell)) :
    ∀ (ns : List Str) (j : Nat) (acc : Frame), ((∃ n ∈ ns, acc.has n = true) ∨ Frame.hasDup ns = true) →
      (assemble names rows j acc ns).isOk = false := by
  intro ns
  induction ns with
  | nil =>
    intro j acc h
    rcases h with ⟨n, hn, _⟩ | h
    · simp at hn
    · simp [Frame.hasDup] at h
  | cons n ns ih =>
    intro j acc h
    unfold assemble
    by_cases hn : acc.has n = true
    · simp [hn, Outcome.isOk]
    · simp only [hn, Bool.false_eq_true, if_false]
      apply ih
      rcases h with ⟨m, hm, hacc⟩ | h
      · rcases List.mem_cons.1 hm with e | hm'
        · subst e; exact absurd hacc hn
        · exact Or.inl ⟨m, hm', has_set_of_has _ _ _ _ hacc⟩
      · simp only [Frame.hasDup, Bool.or_eq_true] at h
        rcases h with h | h
        · refine Or.inl ⟨n, ?_, has_set_self ..⟩
          simpa using h
        · exact Or.inr h

theorem assemble_ok (names : List Str) (rows : List (List Cell)) :
    ∀ (ns : List Str) (j : Nat) (acc : Frame), Frame.hasDup ns = false → (∀ n ∈ ns, acc.has n = false) →
      assemble names rows j acc ns =
        .ok (((ns.zipIdx j).map (fun (n, j) =>
          (n, ({ name := n, data := rows.map (fun r => r.getD j .nil) } : Col)))).foldl
            (fun acc kc => Frame.insertCol kc acc) acc) := by
  intro ns
  induction ns with
  | nil => intro j acc _ _; rfl
  | cons n ns ih =>
    intro j acc hd hacc
    simp only [Frame.hasDup, Bool.or_eq_false_iff] at hd
    have hn : acc.has n = false := hacc n (List.mem_cons_self ..)
    have hnn : n ∉ ns := by simpa using hd.1
    simp only [assemble, hn, Bool.false_eq_true, if_false, List.zipIdx_cons, List.map_cons, List.foldl_cons]
    rw [ih (j + 1) _ hd.2, set_eq_insertCol _ _ _ hn]
    intro m hm
    have hmn : m ≠ n := fun e => hnn (e ▸ hm)
    rw [has_set_ne _ _ _ _ hmn]
    exact hacc m (List.mem_cons_of_mem _ hm)

/-! ### one cell -/

theorem rowCells_cons (ω : Oracle) (o : Opts) (name : Str) (names : List Str) (ty : ScanTy) (tys : List ScanTy)
    (v : Cell) (vs : List Cell) :
    rowCells ω o (name :: names) (ty :: tys) (v :: vs) = cellOf ω o name ty v :: rowCells ω o names tys vs := rfl

theorem dateOf_some {ω : Oracle} {o : Opts} {name : Str} {c c' : Cell} (h : dateOf ω o name c = some c') :
    (if o.parseDates.contains name then parseDate ω c else pure c) = Outcome.ok c' := by
  unfold dateOf at h
  split at h
  · rename_i hc
    simp only [hc, if_true]
    cases hp : parseDate ω c <;> simp [hp] at h ⊢
    exact h
  · rename_i hc
    simp only [hc, Bool.false_eq_true, if_false, Outcome.pure_eq]
    simpa using h

theorem dateOf_none {ω : Oracle} {o : Opts} {name : Str} {c : Cell} (h : dateOf ω o name c = none) :
    (if o.parseDates.contains name then parseDate ω c else pure c).isOk = false := by
  unfold dateOf at h
  split at h
  · rename_i hc
    simp only [hc, if_true]
    cases hp : parseDate ω c <;> simp [hp, Outcome.isOk] at h ⊢
  · simp at h

theorem cellOf_nonnil (ω : Oracle) (o : Opts) (name : Str) (ty : ScanTy) {v : Cell} (hv : v ≠ .nil) :
    cellOf ω o name ty v = dateOf ω o name v := by
  have : isNull v = false := by simpa [isNull] using hv
  simp [cellOf, baseOf, this]

theorem cellOf_nil (ω : Oracle) (o : Opts) (name : Str) (ty : ScanTy) {c : Cell}
    (h : handleNull o.handler name ty = .ok (.value c)) :
    cellOf ω o name ty .nil = dateOf ω o name c := by
  simp [cellOf, baseOf, isNull, h]

/-! ### `readRow`, one step -/

/-- what `readRow` does after the cell's value `c` is known -/
def step (ω : Oracle) (o : Opts) (name : Str) (c : Cell) (X : Outcome (Option (List Cell))) :
    Outcome (Option (List Cell)) :=
  (if o.parseDates.contains name then parseDate ω c else pure c) >>= fun c' =>
    X >>= fun rest => pure (rest.map (fun r => c' :: r))

theorem readRow_cons_nonnil (ω : Oracle) (o : Opts) (name : Str) (names : List Str) (ty : ScanTy) (tys : List ScanTy)
    {v : Cell} (vs : List Cell) (hv : v ≠ .nil) (hs : (scanCell ty v).isOk = true) :
    readRow ω o (name :: names) (ty :: tys) (v :: vs) = step ω o name v (readRow ω o names tys vs) := by
  by_cases hc : name ∈ o.parseDates <;> simp [readRow, step, scanCell_of_ok hv hs, hc]

theorem readRow_cons_nil_value (ω : Oracle) (o : Opts) (name : Str) (names : List Str) (ty : ScanTy) (tys : List ScanTy)
    (vs : List Cell) {c : Cell} (h : handleNull o.handler name ty = .ok (.value c)) :
    readRow ω o (name :: names) (ty :: tys) (.nil :: vs) = step ω o name c (readRow ω o names tys vs) := by
  by_cases hc : name ∈ o.parseDates <;> simp [readRow, step, scanCell_nil, h, Outcome.bind, hc]

theorem readRow_cons_nil_skip (ω : Oracle) (o : Opts) (name : Str) (names : List Str) (ty : ScanTy) (tys : List ScanTy)
    (vs : List Cell) (h : handleNull o.handler name ty = .ok .skip) :
    readRow ω o (name :: names) (ty :: tys) (.nil :: vs) = .ok none := by
  simp [readRow, scanCell_nil, h, Outcome.bind]

theorem readRow_cons_nil_fail (ω : Oracle) (o : Opts) (name : Str) (names : List Str) (ty : ScanTy) (tys : List ScanTy)
    (vs : List Cell) (h : (handleNull o.handler name ty).isOk = false) :
    (readRow ω o (name :: names) (ty :: tys) (.nil :: vs)).isOk = false := by
  cases hh : handleNull o.handler name ty with
  | ok r => simp [hh, Outcome.isOk] at h
  | err e => simp [readRow, scanCell_nil, hh, Outcome.bind, Outcome.isOk]
  | panic e => simp [readRow, scanCell_nil, hh, Outcome.bind, Outcome.isOk]

theorem step_cells (ω : Oracle) (o : Opts) (name : Str) (c : Cell) (X : Outcome (Option (List Cell)))
    (cells : List (Option Cell))
    (ih : (cells.any Option.isNone = false → X = .ok (some (cells.map (fun c => c.getD .nil)))) ∧
          (cells.any Option.isNone = true → X.isOk = false)) :
    ((dateOf ω o name c :: cells).any Option.isNone = false →
        step ω o name c X = .ok (some ((dateOf ω o name c :: cells).map (fun c => c.getD .nil)))) ∧
    ((dateOf ω o name c :: cells).any Option.isNone = true → (step ω o name c X).isOk = false) := by
  cases hd : dateOf ω o name c with
  | none =>
    refine ⟨by simp, fun _ => ?_⟩
    unfold step
    exact isOk_bind_false_left _ (dateOf_none hd)
  | some c' =>
    unfold step
    rw [dateOf_some hd]
    simp only [List.any_cons, Option.isNone_some, Bool.false_or, Outcome.bind_ok, List.map_cons, Option.getD_some]
    constructor
    · intro h
      rw [ih.1 h]
      rfl
    · intro h
      exact isOk_bind_false_left _ (ih.2 h)

/-! ### `readRow` on a whole row -/

/-- a row whose NULLs (if any) are given a value by the handler: the row is the specified cells, or an error
exactly when some listed cell does not parse -/
theorem readRow_cells (ω : Oracle) (o : Opts) :
    ∀ (r : List Cell) (names : List Str) (tys : List ScanTy), scanRowOk tys r = true →
      (r.any isNull = false ∨ ∀ name ty, ∃ c, handleNull o.handler name ty = .ok (.value c)) →
      ((rowCells ω o names tys r).any Option.isNone = false →
        readRow ω o names tys r = .ok (some ((rowCells ω o names tys r).map (fun c => c.getD .nil)))) ∧
      ((rowCells ω o names tys r).any Option.isNone = true → (readRow ω o names tys r).isOk = false) := by
  intro r
  induction r with
  | nil =>
    intro names tys _ _
    cases names <;> cases tys <;> simp [readRow, rowCells]
  | cons v vs ih =>
    intro names tys hs hH
    cases names with
    | nil => simp [readRow, rowCells]
    | cons name names =>
      cases tys with
      | nil => simp [readRow, rowCells]
      | cons ty tys =>
        simp only [scanRowOk, Bool.and_eq_true] at hs
        have hH' : vs.any isNull = false ∨ ∀ name ty, ∃ c, handleNull o.handler name ty = .ok (.value c) := by
          rcases hH with h | h
          · left
            simp only [List.any_cons, Bool.or_eq_false_iff] at h
            exact h.2
          · exact Or.inr h
        have ihr := ih names tys hs.2 hH'
        rw [rowCells_cons]
        by_cases hv : v = .nil
        · subst hv
          have hval : ∃ c, handleNull o.handler name ty = .ok (.value c) := by
            rcases hH with h | h
            · simp [isNull] at h
            · exact h name ty
          obtain ⟨c, hc⟩ := hval
          rw [cellOf_nil ω o name ty hc, readRow_cons_nil_value ω o name names ty tys vs hc]
          exact step_cells ω o name c _ _ ihr
        · rw [cellOf_nonnil ω o name ty hv, readRow_cons_nonnil ω o name names ty tys vs hv hs.1]
          exact step_cells ω o name v _ _ ihr

/-- "skip_row", a row with a NULL and no unparsable listed non-NULL cell: the row is dropped -/
theorem readRow_skipNull (ω : Oracle) (o : Opts) (hh : o.handler = .named sSkip) :
    ∀ (r : List Cell) (names : List Str) (tys : List ScanTy), names.length = r.length → tys.length = r.length →
      scanRowOk tys r = true → r.any isNull = true → ambRow ω o names tys r = false →
      readRow ω o names tys r = .ok none := by
  intro r
  induction r with
  | nil => intro _ _ _ _ _ h; simp at h
  | cons v vs ih =>
    intro names tys hn ht hs hnull hamb
    cases names with
    | nil => simp at hn
    | cons name names =>
      cases tys with
      | nil => simp at ht
      | cons ty tys =>
        simp only [List.length_cons, Nat.add_right_cancel_iff] at hn ht
        simp only [scanRowOk, Bool.and_eq_true] at hs
        by_cases hv : v = .nil
        · subst hv
          apply readRow_cons_nil_skip
          rw [hh]
          exact handleNull_skip name ty
        · have hv' : isNull v = false := by simpa [isNull] using hv
          simp only [List.any_cons, hv', Bool.false_or] at hnull
          simp only [ambRow, List.zip_cons_cons, List.any_cons, Bool.or_eq_false_iff] at hamb
          have hrest := ih names tys hn ht hs.2 hnull hamb.2
          rw [readRow_cons_nonnil ω o name names ty tys vs hv hs.1, hrest]
          have hvne : (v != Cell.nil) = true := by simpa using hv
          have h1 := hamb.1
          simp only [hvne, Bool.and_true] at h1
          unfold step
          by_cases hc : o.parseDates.contains name = true
          · simp only [hc, Bool.true_and, Bool.not_eq_false'] at h1
            simp only [hc, if_true]
            cases hp : parseDate ω v with
            | ok c' => rfl
            | err e => simp [hp, Outcome.isOk] at h1
            | panic e => simp [hp, Outcome.isOk] at h1
          · simp only [hc, Bool.false_eq_true, if_false]
            rfl

/-- a handler that reports an error on every NULL: a row with a NULL fails -/
theorem readRow_badHandler (ω : Oracle) (o : Opts) (hbad : ∀ name ty, (handleNull o.handler name ty).isOk = false) :
    ∀ (r : List Cell) (names : List Str) (tys : List ScanTy), names.length = r.length → tys.length = r.length →
      scanRowOk tys r = true → r.any isNull = true → (readRow ω o names tys r).isOk = false := by
  intro r
  induction r with
  | nil => intro _ _ _ _ _ h; simp at h
  | cons v vs ih =>
    intro names tys hn ht hs hnull
    cases names with
    | nil => simp at hn
    | cons name names =>
      cases tys with
      | nil => simp at ht
      | cons ty tys =>
        simp only [List.length_cons, Nat.add_right_cancel_iff] at hn ht
        simp only [scanRowOk, Bool.and_eq_true] at hs
        by_cases hv : v = .nil
        · subst hv
          exact readRow_cons_nil_fail ω o name names ty tys vs (hbad name ty)
        · have hv' : isNull v = false := by simpa [isNull] using hv
          simp only [List.any_cons, hv', Bool.false_or] at hnull
          have hrest := ih names tys hn ht hs.2 hnull
          rw [readRow_cons_nonnil ω o name names ty tys vs hv hs.1]
          unfold step
          apply isOk_bind_false_right
          intro c'
          exact isOk_bind_false_left _ hrest

/-! ### handlers -/

theorem handler_of_skipping {h : Handler} (hs : skipping h = true) : h = .named sSkip := by
  cases h <;> simp [skipping] at hs
  subst hs; rfl

theorem handleNull_value {h : Handler} (hok : handlerOk h = true) (hns : skipping h = false) :
    ∀ name ty, ∃ c, handleNull h name ty = .ok (.value c) := by
  intro name ty
  cases h with
  | dflt => exact ⟨_, rfl⟩
  | badType => simp [handlerOk] at hok
  | byColumn m =>
    simp only [handleNull]
    split <;> exact ⟨_, rfl⟩
  | named s =>
    simp only [skipping, beq_eq_false_iff_ne, ne_eq] at hns
    simp only [handlerOk, Bool.or_eq_true, beq_iff_eq] at hok
    simp only [handleNull]
    rcases hok with (h | h) | h
    · subst h; exact ⟨.nil, by simp⟩
    · subst h
      exact ⟨_, by rw [if_neg (by decide), if_pos rfl]⟩
    · exact absurd h hns

theorem handleNull_bad {h : Handler} (hok : handlerOk h = false) :
    ∀ name ty, (handleNull h name ty).isOk = false := by
  intro name ty
  cases h with
  | dflt => simp [handlerOk] at hok
  | byColumn m => simp [handlerOk] at hok
  | badType => rfl
  | named s =>
    simp only [handlerOk, Bool.or_eq_false_iff, beq_eq_false_iff_ne, ne_eq] at hok
    simp [handleNull, hok.1.1, hok.1.2, hok.2, Outcome.isOk]

/-! ### the row loop -/

theorem readRows_fail (ω : Oracle) (o : Opts) (names : List Str) (tys : List ScanTy) (errAt : Option Nat) :
    ∀ (rows : List (List Cell)) (i : Nat),
      (∃ r ∈ rows, scanRowOk tys r = false ∨ (readRow ω o names tys r).isOk = false) →
      (readRows ω o names tys errAt i rows).isOk = false := by
  intro rows
  induction rows with
  | nil => intro i h; obtain ⟨r, hr, _⟩ := h; simp at hr
  | cons r rs ih =>
    intro i h
    unfold readRows
    split
    · rfl
    · split
      · rfl
      · rename_i hsc
        by_cases hr : (readRow ω o names tys r).isOk = false
        · exact isOk_bind_false_left _ hr
        · apply isOk_bind_false_right
          intro row
          apply isOk_bind_false_left
          apply ih (i + 1)
          obtain ⟨r', hr', hbad⟩ := h
          rcases List.mem_cons.1 hr' with e | hmem
          · subst e
            rcases hbad with hb | hb
            · simp [hb] at hsc
            · exact absurd hb hr
          · exact ⟨r', hmem, hbad⟩

theorem filterMap_kept (sk : Bool) (F : List Cell → List Cell) (rows : List (List Cell)) :
    rows.filterMap (fun r => if (sk && r.any isNull) = true then none else some (F r)) =
      (if sk = true then rows.filter (fun r => !(r.any isNull)) else rows).map F := by
  induction rows with
  | nil => cases sk <;> rfl
  | cons r rs ih =>
    cases sk
    · simp
    · simp only [Bool.true_and, if_true] at ih ⊢
      simp only [List.filterMap_cons, List.filter_cons, ih]
      cases r.any isNull <;> simp

/-! ### `fromRows` against `specRows` -/

section
variable (ω : Oracle) (rs : ResultSet) (o : Opts)

theorem mem_kept {r : List Cell} (h : r ∈ kept rs o) :
    r ∈ rs.rows ∧ (skipping o.handler = true → r.any isNull = false) := by
  unfold kept at h
  by_cases hs : skipping o.handler = true
  · simp only [hs, if_true, List.mem_filter, Bool.not_eq_true'] at h
    exact ⟨h.1, fun _ => h.2⟩
  · simp only [hs, Bool.false_eq_true, if_false] at h
    exact ⟨h, fun e => absurd e hs⟩

theorem kept_of_mem {r : List Cell} (h : r ∈ rs.rows) (hn : (skipping o.handler && r.any isNull) = false) :
    r ∈ kept rs o := by
  unfold kept
  by_cases hs : skipping o.handler = true
  · simp only [hs, if_true, List.mem_filter, Bool.not_eq_true']
    simp only [hs, Bool.true_and] at hn
    exact ⟨h, hn⟩
  · simp only [hs, Bool.false_eq_true, if_false]
    exact h

theorem errAt_of_ok (h : badInput rs o = false) : rs.errAt = none := by
  simp only [badInput, Bool.or_eq_false_iff] at h
  simpa using h.1.1.1

theorem scanOk_of_ok (h : badInput rs o = false) {r : List Cell} (hr : r ∈ rs.rows) :
    scanRowOk (rs.types.map scanTyOf) r = true := by
  simp only [badInput, Bool.or_eq_false_iff] at h
  have := h.1.1.2
  simp only [Bool.not_eq_false', List.all_eq_true] at this
  exact this r hr

theorem nodup_of_ok (h : badInput rs o = false) : Frame.hasDup rs.names = false := by
  simp only [badInput, Bool.or_eq_false_iff] at h
  exact h.1.2

theorem rowHyp_of_ok (h : badInput rs o = false) {r : List Cell} (hr : r ∈ rs.rows)
    (hsk : skipping o.handler = true → r.any isNull = false) :
    r.any isNull = false ∨ ∀ name ty, ∃ c, handleNull o.handler name ty = .ok (.value c) := by
  by_cases hs : skipping o.handler = true
  · exact Or.inl (hsk hs)
  · simp only [badInput, Bool.or_eq_false_iff, Bool.and_eq_false_iff, Bool.not_eq_false'] at h
    rcases h.2 with h2 | h2
    · left
      have := List.any_eq_false.1 h2 r hr
      simpa using this
    · right
      exact handleNull_value h2 (by simpa using hs)

theorem fromRows_bad (hw : ∀ r ∈ rs.rows, r.length = rs.names.length) (hwt : rs.types.length = rs.names.length)
    (herr : ∀ k, rs.errAt = some k → k ≤ rs.rows.length) (h : badInput rs o = true) :
    (fromRows ω rs o).isOk = false := by
  simp only [badInput, Bool.or_eq_true, Bool.and_eq_true] at h
  rcases h with ((h | h) | h) | ⟨h1, h2⟩
  · obtain ⟨k, hk⟩ := Option.isSome_iff_exists.1 h
    apply fromRows_not_ok
    rw [hk]
    have := herr k hk
    exact readRows_err ω o _ _ k rs.rows 0 (Nat.zero_le _) (by omega)
  · apply fromRows_not_ok
    apply readRows_fail
    simp only [Bool.not_eq_true', List.all_eq_false] at h
    obtain ⟨r, hr, hbad⟩ := h
    exact ⟨r, hr, Or.inl (by simpa using hbad)⟩
  · unfold fromRows
    apply isOk_bind_false_right
    intro rows
    exact assemble_dup _ _ _ _ _ (Or.inr h)
  · apply fromRows_not_ok
    apply readRows_fail
    obtain ⟨r, hr, hnull⟩ := List.any_eq_true.1 h1
    refine ⟨r, hr, ?_⟩
    by_cases hsc : scanRowOk (rs.types.map scanTyOf) r = true
    · right
      have hl := hw r hr
      exact readRow_badHandler ω o (handleNull_bad (by simpa using h2)) r _ _ hl.symm
        (by simp [hwt, hl]) hsc hnull
    · left
      simpa using hsc

theorem fromRows_cellNone (h : badInput rs o = false)
    (hD : (keptCells ω rs o).any (fun r => r.any Option.isNone) = true) :
    (fromRows ω rs o).isOk = false := by
  obtain ⟨cells, hmem, hcell⟩ := List.any_eq_true.1 hD
  unfold keptCells at hmem
  obtain ⟨r, hr, rfl⟩ := List.mem_map.1 hmem
  obtain ⟨hr1, hr2⟩ := mem_kept rs o hr
  apply fromRows_not_ok
  apply readRows_fail
  refine ⟨r, hr1, Or.inr ?_⟩
  exact (readRow_cells ω o r _ _ (scanOk_of_ok rs o h hr1) (rowHyp_of_ok rs o h hr1 hr2)).2 hcell

theorem fromRows_ok (hw : ∀ r ∈ rs.rows, r.length = rs.names.length) (hwt : rs.types.length = rs.names.length)
    (hamb : (skipping o.handler &&
      rs.rows.any (fun r => r.any isNull && ambRow ω o rs.names (rs.types.map scanTyOf) r)) = false)
    (h : badInput rs o = false)
    (hD : (keptCells ω rs o).any (fun r => r.any Option.isNone) = false) :
    fromRows ω rs o =
      .ok (build rs.names ((keptCells ω rs o).map (fun r => r.map (fun c => c.getD .nil)))) := by
  have hrows : readRows ω o rs.names (rs.types.map scanTyOf) rs.errAt 0 rs.rows =
      .ok ((keptCells ω rs o).map (fun r => r.map (fun c => c.getD .nil))) := by
    rw [errAt_of_ok rs o h, readRows_of_rows ω o rs.names (rs.types.map scanTyOf)
      (fun r => if (skipping o.handler && r.any isNull) = true then none
        else some ((rowCells ω o rs.names (rs.types.map scanTyOf) r).map (fun c => c.getD .nil))) rs.rows 0]
    · rw [filterMap_kept]
      simp only [keptCells, kept, List.map_map]
      rfl
    · intro r hr
      refine ⟨scanOk_of_ok rs o h hr, ?_⟩
      by_cases hsn : (skipping o.handler && r.any isNull) = true
      · simp only [hsn, if_true]
        simp only [Bool.and_eq_true] at hsn
        have hl := hw r hr
        apply readRow_skipNull ω o (handler_of_skipping hsn.1) r _ _ hl.symm (by simp [hwt, hl])
          (scanOk_of_ok rs o h hr) hsn.2
        simp only [hsn.1, Bool.true_and] at hamb
        have := List.any_eq_false.1 hamb r hr
        simpa [hsn.2] using this
      · simp only [hsn, Bool.false_eq_true, if_false]
        have hsn' : (skipping o.handler && r.any isNull) = false := by simpa using hsn
        have hk := kept_of_mem rs o hr hsn'
        obtain ⟨_, hr2⟩ := mem_kept rs o hk
        apply (readRow_cells ω o r _ _ (scanOk_of_ok rs o h hr) (rowHyp_of_ok rs o h hr hr2)).1
        have := List.any_eq_false.1 hD (rowCells ω o rs.names (rs.types.map scanTyOf) r)
          (List.mem_map.2 ⟨r, hk, rfl⟩)
        exact Bool.eq_false_iff.2 this
  simp only [fromRows, hrows, Outcome.bind_ok]
  rw [assemble_ok _ _ _ _ _ (nodup_of_ok rs o h) (fun _ _ => rfl)]
  rfl

theorem fromRows_spec (hw : ∀ r ∈ rs.rows, r.length = rs.names.length) (hwt : rs.types.length = rs.names.length)
    (herr : ∀ k, rs.errAt = some k → k ≤ rs.rows.length)
    (hamb : (skipping o.handler &&
      rs.rows.any (fun r => r.any isNull && ambRow ω o rs.names (rs.types.map scanTyOf) r)) = false) :
    (match specRows ω rs o with
     | some e => fromRows ω rs o = .ok e
     | none => (fromRows ω rs o).isOk = false) := by
  unfold specRows
  cases hC : badInput rs o
  · simp only [Bool.false_eq_true, if_false]
    cases hD : (keptCells ω rs o).any (fun r => r.any Option.isNone)
    · simp only [Bool.false_eq_true, if_false]
      exact fromRows_ok ω rs o hw hwt hamb hC hD
    · simp only [if_true]
      exact fromRows_cellNone ω rs o hC hD
  · simp only [if_true]
    exact fromRows_bad ω rs o hw hwt herr hC

end

end Goframe.SqlReadSpecLemmas
