import GoframeModel.Lemmas.CsvRead
/-
  Lemmas for C09, part 3: reassembling the frame from the records `toCSVRecords` produced.
-/
namespace Goframe.CsvLemmas
open Goframe Frame Csv

theorem toCSVRecords_width (ω : Oracle) (f : Frame) : ∀ r ∈ toCSVRecords ω f, r.length = f.length := by
  intro r hr
  unfold toCSVRecords at hr
  rcases List.mem_cons.mp hr with rfl | hr
  · simp [Frame.keys]
  · obtain ⟨i, _, rfl⟩ := List.mem_map.mp hr
    simp

theorem fromCSV_of_readAll (ω : Oracle) (bytes : List UInt8) (hdr : List Str) (recs : List (List Str))
    (h : readAll bytes = .ok (hdr :: recs)) (hd : hasDup hdr = false) :
    fromCSV ω bytes =
      .ok ((hdr.zipIdx.map (fun (x : Str × Nat) =>
        (x.1, ({ name := x.1, data := recs.map (fun r => typeCell ω (r.getD x.2 [])) } : Col)))).foldl
          (fun acc kc => insertCol kc acc) []) := by
  unfold fromCSV
  rw [h]
  simp only [hd, Bool.false_eq_true, if_false]

theorem map_range_getD {α β : Type} (l : List α) (n : Nat) (d : α) (h : α → β) (hl : l.length = n) :
    (List.range n).map (fun i => h (l.getD i d)) = l.map h := by
  apply List.ext_getElem
  · simp [hl]
  · intro i h1 h2
    have hi : i < l.length := by simpa using h2
    simp [hi]

/-- column `j` of the parsed records is column `j` of the frame with every cell sent through `%v` and the
typing rule -/
theorem cols_eq (ω : Oracle) (g : Cell → Cell) (f : Frame) (n : Nat) (hr : f.RectN n)
    (hg : ∀ kc ∈ f, ∀ c ∈ kc.2.data, typeCell ω (ω.fmtV c) = g c) :
    (f.keys.zipIdx.map (fun (x : Str × Nat) =>
      (x.1, ({ name := x.1,
               data := ((List.range n).map (fun i => f.map (fun kc => ω.fmtV (kc.2.data.getD i .nil)))).map
                 (fun r => typeCell ω (r.getD x.2 [])) } : Col)))) =
      f.map (fun kc => (kc.1, { name := kc.1, data := kc.2.data.map g })) := by
  apply List.ext_getElem
  · simp [Frame.keys]
  · intro j h1 h2
    have hj : j < f.length := by simpa using h2
    have hmem : f[j] ∈ f := List.getElem_mem hj
    have hlen : f[j].2.data.length = n := (hr _ hmem).1
    have hdata : (List.range n).map (fun i => typeCell ω (ω.fmtV (f[j].2.data.getD i .nil))) =
        f[j].2.data.map g := by
      rw [map_range_getD f[j].2.data n .nil (fun c => typeCell ω (ω.fmtV c)) hlen]
      apply List.map_congr_left
      intro c hc
      exact hg _ hmem c hc
    simp only [List.getElem_map, List.getElem_zipIdx, Frame.keys, Nat.zero_add, List.map_map,
      Function.comp_def]
    have : ∀ i, (f.map (fun kc => ω.fmtV (kc.2.data.getD i .nil))).getD j [] =
        ω.fmtV (f[j].2.data.getD i .nil) := by
      intro i; simp [hj]
    simp only [this, hdata]

theorem fromCSV_toCSV (ω : Oracle) (g : Cell → Cell) {f : Frame} {n : Nat} (hs : f.Sorted)
    (hr : f.RectN n) (hne : f ≠ [])
    (hg : ∀ kc ∈ f, ∀ c ∈ kc.2.data, typeCell ω (ω.fmtV c) = g c)
    (hread : readAll (toCSV ω f) = .ok (toCSVRecords ω f)) :
    fromCSV ω (toCSV ω f) = .ok (f.map (fun kc => (kc.1, { name := kc.1, data := kc.2.data.map g }))) := by
  have hdup : hasDup f.keys = false :=
    (hasDup_false_iff _).mpr (sortedNames_nodup ((sorted_iff_keys f).mp hs))
  unfold toCSVRecords at hread
  rw [fromCSV_of_readAll ω _ _ _ hread hdup, Frame.nrows_of_rectN hr hne, cols_eq ω g f n hr hg]
  have hs' : Frame.Sorted (f.map (fun kc => (kc.1, ({ name := kc.1, data := kc.2.data.map g } : Col)))) := by
    unfold Frame.Sorted at hs ⊢
    rw [List.pairwise_map]
    exact hs
  rw [foldl_insertCol_sorted _ [] hs' (by simp)]
  simp

end Goframe.CsvLemmas
