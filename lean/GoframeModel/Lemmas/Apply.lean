import GoframeModel.Ops.Apply
/-
  Lemmas about `Apply` (C17): the collector's write as a pure per-column update, commutation of writes
  at different row indexes, and the shape of the sequential result.
-/
namespace Goframe.ApplyLemmas
open Goframe Frame

/-- the value a result contributes to column `j` (none: the column is left alone) -/
def valAt (res : ApplyRes) (j : Nat) : Option Cell :=
  match res with
  | .nilRes => none
  | .scalar v => some v
  | .slice vs => some (vs.getD j .nil)

/-- the update of one column (number `j`) by the result tagged `i` -/
def upd (i : Nat) (res : ApplyRes) (j : Nat) (col : List Cell) : List Cell :=
  match valAt res j with
  | none => col
  | some v => col.set i v

/-- the pure collector write -/
def writePure (i : Nat) (res : ApplyRes) : List (List Cell) → Nat → List (List Cell)
  | [], _ => []
  | col :: cols, j => upd i res j col :: writePure i res cols (j + 1)

theorem writePure_length (i : Nat) (res : ApplyRes) (tbl : List (List Cell)) (j : Nat) :
    (writePure i res tbl j).length = tbl.length := by
  induction tbl generalizing j with
  | nil => rfl
  | cons c cs ih => simp [writePure, ih]

theorem writePure_nil (i : Nat) (tbl : List (List Cell)) (j : Nat) :
    writePure i .nilRes tbl j = tbl := by
  induction tbl generalizing j with
  | nil => rfl
  | cons c cs ih => simp [writePure, ih, upd, valAt]

theorem writeRes_eq (i : Nat) (res : ApplyRes) (tbl : List (List Cell)) (j : Nat)
    (hw : ∀ vs, res = .slice vs → j + tbl.length ≤ vs.length) :
    writeRes i res tbl j = .ok (writePure i res tbl j) := by
  induction tbl generalizing j with
  | nil => rfl
  | cons c cs ih =>
    cases res with
    | nilRes => simp [writeRes, writePure_nil]
    | scalar v =>
      have := ih (j + 1) (by intro vs h; cases h)
      simp [writeRes, this, writePure, upd, valAt]
    | slice vs =>
      have hlen := hw vs rfl
      simp only [List.length_cons] at hlen
      have := ih (j + 1) (by intro vs' h; cases h; omega)
      have hj : j < vs.length := by omega
      simp [writeRes, this, writePure, upd, valAt, List.getElem?_eq_getElem hj, List.getD_eq_getElem?_getD]

theorem upd_length (i : Nat) (res : ApplyRes) (j : Nat) (col : List Cell) :
    (upd i res j col).length = col.length := by
  unfold upd; split <;> simp

theorem upd_comm {i i' : Nat} (h : i ≠ i') (r r' : ApplyRes) (j : Nat) (col : List Cell) :
    upd i r j (upd i' r' j col) = upd i' r' j (upd i r j col) := by
  unfold upd
  cases valAt r j <;> cases valAt r' j <;> simp [List.set_comm _ _ h]

theorem writePure_comm {i i' : Nat} (h : i ≠ i') (r r' : ApplyRes) (tbl : List (List Cell)) (j : Nat) :
    writePure i r (writePure i' r' tbl j) j = writePure i' r' (writePure i r tbl j) j := by
  induction tbl generalizing j with
  | nil => rfl
  | cons c cs ih => simp [writePure, ih, upd_comm h]

/-- per-column form of a write -/
theorem writePure_getElem? (i : Nat) (res : ApplyRes) (tbl : List (List Cell)) (j0 j : Nat) :
    (writePure i res tbl j0)[j]? = tbl[j]?.map (upd i res (j0 + j)) := by
  induction tbl generalizing j0 j with
  | nil => simp [writePure]
  | cons c cs ih =>
    cases j with
    | zero => simp [writePure]
    | succ j => simp [writePure, ih]; congr 2; omega

/-- the fold of all writes -/
def foldW (g : Nat → ApplyRes) (tbl : List (List Cell)) (l : List Nat) : List (List Cell) :=
  l.foldl (fun t i => writePure i (g i) t 0) tbl

theorem foldW_length (g : Nat → ApplyRes) (tbl : List (List Cell)) (l : List Nat) :
    (foldW g tbl l).length = tbl.length := by
  unfold foldW
  induction l generalizing tbl with
  | nil => rfl
  | cons a l ih => simp [List.foldl_cons, ih, writePure_length]

theorem collect_eq (fn : List Cell → ApplyRes) (f : Frame) (tbl : List (List Cell)) (l : List Nat)
    (hlen : tbl.length = f.length)
    (hw : ∀ i vs, fn (rowCells f i) = .slice vs → f.length ≤ vs.length) :
    collect fn f tbl l = .ok (foldW (fun i => fn (rowCells f i)) tbl l) := by
  induction l generalizing tbl with
  | nil => rfl
  | cons a l ih =>
    have h1 := writeRes_eq a (fn (rowCells f a)) tbl 0 (by
      intro vs h; have := hw a vs h; omega)
    simp only [collect, h1, Outcome.bind_ok]
    rw [ih _ (by rw [writePure_length, hlen])]
    rfl

theorem foldW_perm (g : Nat → ApplyRes) (tbl : List (List Cell)) {l₁ l₂ : List Nat} (p : l₁.Perm l₂) :
    foldW g tbl l₁ = foldW g tbl l₂ := by
  unfold foldW
  apply List.Perm.foldl_eq' p
  intro x _ y _ z
  by_cases h : x = y
  · subst h; rfl
  · exact writePure_comm (Ne.symm h) _ _ _ _

/-- column-wise fold -/
def foldCol (g : Nat → ApplyRes) (j : Nat) (col : List Cell) (l : List Nat) : List Cell :=
  l.foldl (fun c i => upd i (g i) j c) col

theorem foldW_getElem? (g : Nat → ApplyRes) (tbl : List (List Cell)) (l : List Nat) (j : Nat) :
    (foldW g tbl l)[j]? = tbl[j]?.map (fun col => foldCol g j col l) := by
  induction l generalizing tbl with
  | nil => simp [foldW, foldCol]
  | cons a l ih =>
    have : foldW g tbl (a :: l) = foldW g (writePure a (g a) tbl 0) l := rfl
    rw [this, ih, writePure_getElem?]
    cases tbl[j]? <;> simp [foldCol]

theorem foldCol_length (g : Nat → ApplyRes) (j : Nat) (col : List Cell) (l : List Nat) :
    (foldCol g j col l).length = col.length := by
  unfold foldCol
  induction l generalizing col with
  | nil => rfl
  | cons a l ih => simp [List.foldl_cons, ih, upd_length]

theorem foldCol_getD (g : Nat → ApplyRes) (j : Nat) (col : List Cell) (l : List Nat) (i : Nat)
    (hi : i < col.length) (d : Cell) :
    (foldCol g j col l).getD i d =
      if i ∈ l then (valAt (g i) j).getD (col.getD i d) else col.getD i d := by
  unfold foldCol
  induction l generalizing col with
  | nil => simp
  | cons a l ih =>
    rw [List.foldl_cons, ih _ (by rw [upd_length]; exact hi)]
    unfold upd
    by_cases hia : i = a
    · subst hia
      cases hv : valAt (g i) j <;> simp [hi, List.getD_eq_getElem?_getD]
    · have hai : a ≠ i := Ne.symm hia
      cases hv : valAt (g a) j <;>
        simp [hia, List.getD_eq_getElem?_getD, List.getElem?_set_ne hai]

theorem foldW_mem_length (g : Nat → ApplyRes) (tbl : List (List Cell)) (l : List Nat) (n : Nat)
    (h : ∀ d ∈ tbl, d.length = n) : ∀ d ∈ foldW g tbl l, d.length = n := by
  intro d hd
  obtain ⟨j, hj⟩ := List.mem_iff_getElem?.mp hd
  rw [foldW_getElem?] at hj
  cases hc : tbl[j]? with
  | none => simp [hc] at hj
  | some col =>
    simp [hc] at hj
    subst hj
    rw [foldCol_length]
    exact h col (List.mem_of_getElem? hc)

/-- the frame `applyRowWith` builds from the final table -/
def mkOut (f : Frame) (tbl : List (List Cell)) : Frame :=
  (f.zip tbl).map (fun (kc, d) => (kc.1, { name := kc.1, data := d }))

theorem applyRowWith_eq (σ : List Nat) (fn : List Cell → ApplyRes) (f : Frame) (hne : f ≠ [])
    (hw : ∀ i vs, fn (rowCells f i) = .slice vs → f.length ≤ vs.length) :
    f.applyRowWith σ fn = .ok (mkOut f (foldW (fun i => fn (rowCells f i))
      (f.map (fun _ => List.replicate f.nrows Cell.nil)) σ)) := by
  unfold applyRowWith
  have : f.isEmpty = false := by cases f <;> simp_all
  simp only [this]
  rw [collect_eq fn f _ σ (by simp) hw]
  rfl

theorem applyRowWith_perm (fn : List Cell → ApplyRes) (f : Frame) {σ τ : List Nat} (hσ : σ.Perm τ)
    (hw : ∀ i vs, fn (rowCells f i) = .slice vs → f.length ≤ vs.length) :
    f.applyRowWith σ fn = f.applyRowWith τ fn := by
  by_cases hne : f = []
  · subst hne; simp [applyRowWith]
  · rw [applyRowWith_eq σ fn f hne hw, applyRowWith_eq τ fn f hne hw, foldW_perm _ _ hσ]

theorem applyRowSeq_spec (fn : List Cell → ApplyRes) {f : Frame} {n : Nat} (hr : f.RectN n) (hne : f ≠ [])
    (hw : ∀ i vs, fn (rowCells f i) = .slice vs → f.length ≤ vs.length) :
    ∃ out, f.applyRowSeq fn = .ok out ∧ out.keys = f.keys ∧ out.RectN n ∧
      ∀ j k c, f[j]? = some (k, c) → ∀ i, i < n →
        ∃ c', out[j]? = some (k, c') ∧
          c'.data.getD i .nil = (valAt (fn (rowCells f i)) j).getD .nil := by
  have hn : f.nrows = n := nrows_of_rectN hr hne
  refine ⟨_, applyRowWith_eq _ fn f hne hw, ?_, ?_, ?_⟩
  · simp only [mkOut, keys, List.map_map]
    have : ((fun x : Str × Col => x.1) ∘ fun (x : (Str × Col) × List Cell) =>
        (x.1.1, ({ name := x.1.1, data := x.2 } : Col))) = (fun x => x.1) ∘ Prod.fst := rfl
    rw [this, ← List.map_map, List.map_fst_zip]
    simp [foldW_length]
  · intro kc hkc
    simp only [mkOut, List.mem_map] at hkc
    obtain ⟨p, hp, rfl⟩ := hkc
    refine ⟨?_, rfl⟩
    have := (List.of_mem_zip hp).2
    exact foldW_mem_length _ _ _ n (by intro d hd; simp [hn] at hd; obtain ⟨_, _, _, rfl⟩ := hd; simp) _ this
  · intro j k c hj i hi
    have ht : (foldW (fun i => fn (rowCells f i)) (f.map (fun _ => List.replicate f.nrows Cell.nil))
        (List.range f.nrows))[j]? = some (foldCol (fun i => fn (rowCells f i)) j (List.replicate n Cell.nil) (List.range n)) := by
      rw [foldW_getElem?]; simp [hj, hn]
    refine ⟨{ name := k, data := foldCol (fun i => fn (rowCells f i)) j (List.replicate n Cell.nil) (List.range n) }, ?_, ?_⟩
    · have hz := (List.getElem?_zip_eq_some (z := ((k, c), _))).mpr ⟨hj, ht⟩
      simp only [mkOut, List.getElem?_map, hz]
      rfl
    · simp only
      rw [foldCol_getD _ _ _ _ _ (by simpa using hi)]
      simp [hi, List.getD_eq_getElem?_getD]

theorem valAt_getD (res : ApplyRes) (j : Nat) :
    (valAt res j).getD .nil =
      (match res with
       | .slice vs => vs.getD j .nil
       | .scalar v => v
       | .nilRes => .nil) := by
  cases res <;> rfl

/-- the cells a column-wise callback result stands for -/
def colRes (fn : List Cell → ApplyRes) (d : List Cell) : List Cell :=
  match fn d with
  | .slice vs => vs
  | .scalar v => List.replicate d.length v
  | .nilRes => []

theorem applyColAux_eq (fn : List Cell → ApplyRes) (f : Frame)
    (hnil : ∀ kc ∈ f, fn kc.2.data ≠ .nilRes) :
    applyColAux fn f = .ok (f.map (fun kc => (kc.1, { name := kc.1, data := colRes fn kc.2.data }))) := by
  induction f with
  | nil => rfl
  | cons kc rest ih =>
    obtain ⟨k, c⟩ := kc
    have ih' := ih (fun kc h => hnil kc (List.mem_cons_of_mem _ h))
    have h0 := hnil (k, c) (List.mem_cons_self ..)
    simp only at h0
    cases hfn : fn c.data with
    | nilRes => exact absurd hfn h0
    | slice vs => simp [applyColAux, hfn, ih', colRes]
    | scalar v => simp [applyColAux, hfn, ih', colRes]

/-! ### the worker pool: one step keeps the multiset of indexes -/

theorem perm_take {α} (i : α) (q w c d : List α) :
    (q ++ (i :: w) ++ c ++ d).Perm ((i :: q) ++ w ++ c ++ d) := by
  simp only [List.append_assoc, List.cons_append]
  exact List.perm_middle

theorem perm_send {α} (i : α) (q w₁ w₂ c d : List α) :
    (q ++ (w₁ ++ w₂) ++ (c ++ [i]) ++ d).Perm (q ++ (w₁ ++ i :: w₂) ++ c ++ d) := by
  simp only [List.append_assoc]
  refine List.Perm.append_left q (List.Perm.append_left w₁ ?_)
  have h1 : (c ++ ([i] ++ d)).Perm (i :: (c ++ d)) := List.perm_middle
  exact (List.Perm.append_left w₂ h1).trans List.perm_middle

theorem perm_recv {α} (i : α) (q w c d : List α) :
    (q ++ w ++ c ++ (d ++ [i])).Perm (q ++ w ++ (i :: c) ++ d) := by
  simp only [List.append_assoc]
  refine List.Perm.append_left q (List.Perm.append_left w ?_)
  refine List.Perm.trans (List.Perm.append_left c (List.perm_append_comm)) ?_
  exact List.perm_middle

end Goframe.ApplyLemmas
