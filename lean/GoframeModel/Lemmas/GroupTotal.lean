import GoframeModel.Lemmas.Group
import GoframeModel.Lemmas.RefineE
import GoframeModel.Ops.Agg
/-
  Helper lemmas for C05b: the column read through the row view is the column, and `AsFloat64` on
  int / int64 / finite-float cells agrees with `numOf`.
-/
namespace Goframe.GroupTotalLemmas
open Goframe Frame

theorem map_getD_range {α : Type} (l : List α) (d : α) :
    (List.range l.length).map (fun i => l.getD i d) = l := by
  apply List.ext_getElem
  · simp
  · intro i h1 h2
    simp [List.getD_eq_getElem?_getD, h2]

/-- reading column `c` off every row of the frame gives back the column's cells -/
theorem allRows_map_getD (f : Frame) (c : Str) (col : Col) (hc : f.get? c = some col)
    (hn : f.nrows = col.data.length) :
    (allRows f).map (fun r => Row.getD r c) = col.data := by
  unfold allRows
  rw [List.map_map, hn]
  have : ((fun r => Row.getD r c) ∘ f.rowMap) = (fun i => col.data.getD i .nil) := by
    funext i
    simp [Function.comp, getD_rowMap, hc]
  rw [this]
  exact map_getD_range col.data .nil

theorem numericCells_allRows (f : Frame) (c : Str) (col : Col) (hc : f.get? c = some col)
    (hn : f.nrows = col.data.length) :
    Spec.numericCellsOf (allRows f) c = col.data.filterMap numOf := by
  unfold Spec.numericCellsOf
  rw [← allRows_map_getD f c col hc hn, List.filterMap_map]
  rfl

theorem ne_nil_of_has {f : Frame} {k : Str} (hk : f.has k = true) : f ≠ [] := by
  intro h; subst h; simp [Frame.has] at hk

theorem mem_of_get? {f : Frame} {c : Str} {col : Col} (hc : f.get? c = some col) : (c, col) ∈ f := by
  unfold Frame.get? at hc
  cases hfind : f.find? (fun x => x.1 == c) with
  | none => simp [hfind] at hc
  | some kc =>
    rw [hfind] at hc
    simp only [Option.map_some, Option.some.injEq] at hc
    have h1 := List.find?_some hfind
    have h2 := List.mem_of_find?_eq_some hfind
    have : kc.1 = c := by simpa using h1
    obtain ⟨a, b⟩ := kc
    simp only at this hc
    subst this; subst hc
    exact h2

/-- `AsFloat64` on int / int64 / finite float cells is `numOf` -/
theorem asFloats_eq (ω : Oracle) : ∀ (d : List Cell),
    (∀ x ∈ d, (∃ v, x = .int .int v) ∨ (∃ v, x = .int .int64 v) ∨ (∃ s q, x = .flt s (.fin q))) →
    asFloats ω d = .ok (d.filterMap numOf)
  | [], _ => rfl
  | x :: xs, h => by
    have ih := asFloats_eq ω xs (fun y hy => h y (List.mem_cons_of_mem _ hy))
    have hx := h x (List.mem_cons_self ..)
    rcases hx with ⟨v, rfl⟩ | ⟨v, rfl⟩ | ⟨s, q, rfl⟩ <;>
      simp [asFloats, Oracle.asFloat64, numOf, ih]

end Goframe.GroupTotalLemmas
