import GoframeModel.Std.SqlLex
/-
  Lemmas about the SQL lexer byte machine (used by Props/C13).
-/
namespace Goframe.SqlLemmas
open Goframe Sql

/-! ### quoted identifiers, option-level reader -/

theorem lexQuotedBody_cons_ne (q b : UInt8) (rest : Str) (hb : b ≠ q) :
    lexQuotedBody q (b :: rest) = (lexQuotedBody q rest).map (fun (v, r) => (b :: v, r)) := by
  cases rest <;> simp [lexQuotedBody, hb]

theorem lexQuotedBody_escape (q : UInt8) (name rest : Str) (h : rest.head? ≠ some q) :
    lexQuotedBody q (escape q name ++ q :: rest) = some (name, rest) := by
  induction name with
  | nil =>
    cases rest with
    | nil => simp [escape, lexQuotedBody]
    | cons c r =>
      have hc : c ≠ q := by simpa using h
      simp [escape, lexQuotedBody, hc]
  | cons b n ih =>
    by_cases hb : b = q
    · subst hb; simp [escape, lexQuotedBody, ih]
    · simp [escape, hb, lexQuotedBody_cons_ne, ih]

theorem lexQuoted_quoteIdent (q : UInt8) (name rest : Str) (h : rest.head? ≠ some q) :
    lexQuoted q (quoteIdent q name ++ rest) = some (name, rest) := by
  have := lexQuotedBody_escape q name rest h
  simp [quoteIdent, lexQuoted, this]

theorem quoteIdent_injective (q : UInt8) (a b : Str) (h : quoteIdent q a = quoteIdent q b) : a = b := by
  have ha := lexQuoted_quoteIdent q a [] (by simp)
  have hb := lexQuoted_quoteIdent q b [] (by simp)
  rw [h, hb] at ha
  simpa using ha.symm

/-! ### the byte machine -/

@[simp] theorem run_nil (d : Dialect) (st : LSt) : run d st [] = finish st := rfl

theorem run_cons (d : Dialect) (st : LSt) (b : UInt8) (rest : Str) :
    run d st (b :: rest) = (step d st b).2 ++ run d (step d st b).1 rest := rfl

theorem run_top_cons (d : Dialect) (b : UInt8) (rest : Str) :
    run d .top (b :: rest) = (topStep d b).2 ++ run d (topStep d b).1 rest := rfl

theorem q_cases (d : Dialect) : d.q = 34 ∨ d.q = 96 := by
  cases d <;> simp [Dialect.q]

theorem topStep_q (d : Dialect) : topStep d d.q = (.qid [], []) := by
  cases d <;> simp [topStep, Dialect.q]

/-- inside a quoted identifier -/
theorem run_qid (d : Dialect) (name rest acc : Str) (h : rest.head? ≠ some d.q) :
    run d (.qid acc) (escape d.q name ++ d.q :: rest) = .qident (acc.reverse ++ name) :: run d .top rest := by
  induction name generalizing acc with
  | nil =>
    cases rest with
    | nil => simp [escape, run_cons, step, finish]
    | cons c r =>
      have hc : c ≠ d.q := by simpa using h
      simp [escape, run_cons, step, hc]
  | cons b n ih =>
    by_cases hb : b = d.q
    · subst hb
      simp [escape, run_cons, step, ih]
    · simp [escape, hb, run_cons, step, ih]

theorem lex_quoteIdent (d : Dialect) (name rest : Str) (h : rest.head? ≠ some d.q) :
    run d .top (quoteIdent d.q name ++ rest) = .qident name :: run d .top rest := by
  have := run_qid d name rest [] h
  simp [quoteIdent, run_top_cons, topStep_q, this]

/-! ### blanks, punctuation, keywords -/

theorem run_top_blank (d : Dialect) (rest : Str) : run d .top (32 :: rest) = run d .top rest := by
  simp [run_top_cons, topStep]

theorem run_top_punct (d : Dialect) (b : UInt8) (hb : b = 40 ∨ b = 41 ∨ b = 44) (rest : Str) :
    run d .top (b :: rest) = .punct b :: run d .top rest := by
  rcases hb with rfl | rfl | rfl <;> cases d <;> simp [run_top_cons, topStep, Dialect.q, isWordByte]

theorem run_dropTable (d : Dialect) (rest : Str) :
    run d .top (sDropTable ++ rest) = .word [68, 82, 79, 80] :: .word [84, 65, 66, 76, 69] :: run d .top rest := by
  cases d <;> simp [sDropTable, run_cons, step, topStep, Dialect.q, isWordByte]

theorem run_createTable (d : Dialect) (rest : Str) :
    run d .top (sCreateTable ++ rest) =
      .word [67, 82, 69, 65, 84, 69] :: .word [84, 65, 66, 76, 69] :: run d .top rest := by
  cases d <;> simp [sCreateTable, run_cons, step, topStep, Dialect.q, isWordByte]

theorem run_insertInto (d : Dialect) (rest : Str) :
    run d .top (sInsertInto ++ rest) =
      .word [73, 78, 83, 69, 82, 84] :: .word [73, 78, 84, 79] :: run d .top rest := by
  cases d <;> simp [sInsertInto, run_cons, step, topStep, Dialect.q, isWordByte]

theorem run_values (d : Dialect) (rest : Str) :
    run d .top (sValues ++ rest) = .word [86, 65, 76, 85, 69, 83] :: run d .top rest := by
  cases d <;> simp [sValues, run_cons, step, topStep, Dialect.q, isWordByte]

/-! ### word bytes -/

theorem topStep_word (d : Dialect) (c : UInt8) (h : isWordByte c = true) : topStep d c = (.word [c], []) := by
  have h1 : c ≠ 32 := by rintro rfl; revert h; decide
  have h2 : c ≠ 9 := by rintro rfl; revert h; decide
  have h3 : c ≠ 10 := by rintro rfl; revert h; decide
  have h4 : c ≠ 13 := by rintro rfl; revert h; decide
  have h5 : c ≠ 39 := by rintro rfl; revert h; decide
  have h6 : c ≠ 45 := by rintro rfl; revert h; decide
  have h7 : c ≠ 47 := by rintro rfl; revert h; decide
  have h8 : c ≠ 63 := by rintro rfl; revert h; decide
  have h9 : c ≠ 36 := by rintro rfl; revert h; decide
  have h10 : c ≠ d.q := by
    rcases q_cases d with hq | hq <;> rw [hq] <;> rintro rfl <;> revert h <;> decide
  simp [topStep, *]

/-- a pending word is flushed by a non-word byte -/
theorem run_word_flush (d : Dialect) (acc : Str) (b : UInt8) (rest : Str) (hb : isWordByte b = false) :
    run d (.word acc) (b :: rest) = .word acc.reverse :: run d .top (b :: rest) := by
  simp [run_cons, step, hb]

/-- the states a plain type text visits -/
def PlainSt : LSt → Prop
  | .top => True
  | .word _ => True
  | _ => False

theorem run_plain (d : Dialect) (ty : Str)
    (hty : ∀ b ∈ ty, isWordByte b = true ∨ b = 32 ∨ b = 40 ∨ b = 41 ∨ b = 44)
    (st : LSt) (hst : PlainSt st) (b : UInt8) (hb : isWordByte b = false) (rest : Str) :
    run d st (ty ++ b :: rest) = run d st ty ++ run d .top (b :: rest) := by
  induction ty generalizing st with
  | nil =>
    cases st <;> simp [PlainSt] at hst
    · simp [finish]
    · simp [run_word_flush, hb, finish]
  | cons c ty ih =>
    have hc := hty c (by simp)
    have ih' := fun st hst => ih (fun b hb => hty b (by simp [hb])) st hst
    cases st <;> simp [PlainSt] at hst
    · -- top
      rcases hc with hc | rfl | rfl | rfl | rfl
      · simp [run_top_cons, topStep_word d c hc, ih' _ (show PlainSt (.word [c]) from trivial)]
      · simp [run_top_blank, ih' _ (show PlainSt .top from trivial)]
      · simp [run_top_punct, ih' _ (show PlainSt .top from trivial)]
      · simp [run_top_punct, ih' _ (show PlainSt .top from trivial)]
      · simp [run_top_punct, ih' _ (show PlainSt .top from trivial)]
    · -- word
      rename_i acc
      rcases hc with hc | rfl | rfl | rfl | rfl
      · simp [run_cons, step, hc, ih' _ (show PlainSt (.word (c :: acc)) from trivial)]
      · rw [List.cons_append, run_word_flush d acc 32 _ (by decide), run_word_flush d acc 32 _ (by decide)]
        simp [run_top_blank, ih' _ (show PlainSt .top from trivial)]
      · rw [List.cons_append, run_word_flush d acc 40 _ (by decide), run_word_flush d acc 40 _ (by decide)]
        simp [run_top_punct, ih' _ (show PlainSt .top from trivial)]
      · rw [List.cons_append, run_word_flush d acc 41 _ (by decide), run_word_flush d acc 41 _ (by decide)]
        simp [run_top_punct, ih' _ (show PlainSt .top from trivial)]
      · rw [List.cons_append, run_word_flush d acc 44 _ (by decide), run_word_flush d acc 44 _ (by decide)]
        simp [run_top_punct, ih' _ (show PlainSt .top from trivial)]

/-! ### placeholders -/

theorem digitsVal_snoc (ds : Str) (c : UInt8) : digitsVal (ds ++ [c]) = digitsVal ds * 10 + (c.toNat - 48) := by
  simp [digitsVal, List.foldl_append]

theorem digitsAux_spec (fuel n : Nat) (acc : Str) (h : n < fuel) :
    ∃ ds, digitsAux fuel n acc = ds ++ acc ∧ ds ≠ [] ∧ (∀ b ∈ ds, isDigit b = true) ∧ digitsVal ds = n := by
  induction fuel generalizing n acc with
  | zero => omega
  | succ fuel ih =>
    have hd : (48 + n % 10).toUInt8.toNat = 48 + n % 10 := by
      simp [Nat.toUInt8]; omega
    have hdig : isDigit (48 + n % 10).toUInt8 = true := by
      simp [isDigit, UInt8.le_iff_toNat_le]; omega
    unfold digitsAux
    generalize (48 + n % 10).toUInt8 = dg at hd hdig ⊢
    by_cases hn : n < 10
    · refine ⟨[dg], by simp [hn], by simp, by simpa using hdig, ?_⟩
      simp [digitsVal, hd]; exact hn
    · obtain ⟨ds, h1, h2, h3, h4⟩ := ih (n / 10) (dg :: acc) (by omega)
      refine ⟨ds ++ [dg], by simp [hn, h1], by simp, ?_, ?_⟩
      · intro b hb
        rcases List.mem_append.1 hb with hb | hb
        · exact h3 b hb
        · simp at hb; subst hb; exact hdig
      · rw [digitsVal_snoc, h4, hd]; omega

theorem natStr_spec (n : Nat) :
    natStr n ≠ [] ∧ (∀ b ∈ natStr n, isDigit b = true) ∧ digitsVal (natStr n) = n := by
  obtain ⟨ds, h1, h2, h3, h4⟩ := digitsAux_spec (n + 1) n [] (by omega)
  have : natStr n = ds := by simp [natStr, h1]
  rw [this]; exact ⟨h2, h3, h4⟩

theorem run_dollar_digits (d : Dialect) (ds acc rest : Str) (h : ∀ b ∈ ds, isDigit b = true) :
    run d (.dollar acc) (ds ++ rest) = run d (.dollar (ds.reverse ++ acc)) rest := by
  induction ds generalizing acc with
  | nil => simp
  | cons c ds ih =>
    have hc := h c (by simp)
    simp [run_cons, step, hc, ih (c :: acc) (fun b hb => h b (by simp [hb]))]

theorem run_dollar_flush (d : Dialect) (acc : Str) (b : UInt8) (rest : Str) (hb : isDigit b = false)
    (hacc : acc ≠ []) :
    run d (.dollar acc) (b :: rest) = .ph (digitsVal acc.reverse) :: run d .top (b :: rest) := by
  simp [run_cons, step, hb, hacc]

/-- the placeholder number expected in the token stream -/
def phNum (d : Dialect) (i : Nat) : Nat := match d with | .postgres => i | _ => 0

theorem run_placeholder (d : Dialect) (i : Nat) (b : UInt8) (hb : b = 41 ∨ b = 44) (rest : Str) :
    run d .top (placeholder d i ++ b :: rest) = .ph (phNum d i) :: run d .top (b :: rest) := by
  have hbd : isDigit b = false := by rcases hb with rfl | rfl <;> decide
  obtain ⟨h1, h2, h3⟩ := natStr_spec i
  cases d
  · simp [placeholder, phNum, run_top_cons, topStep, Dialect.q]
  · have : run (Dialect.postgres) .top (36 :: (natStr i ++ b :: rest)) =
        run Dialect.postgres (.dollar []) (natStr i ++ b :: rest) := by
      simp [run_top_cons, topStep, Dialect.q]
    simp only [placeholder, phNum, List.cons_append]
    rw [this, run_dollar_digits _ _ _ _ h2, run_dollar_flush _ _ _ _ hbd (by simpa using h1)]
    simp [h3]
  · simp [placeholder, phNum, run_top_cons, topStep, Dialect.q]

/-! ### comma-separated lists -/

theorem joinWith_cons2 (sep a b : Str) (l : List Str) :
    joinWith sep (a :: b :: l) = a ++ sep ++ joinWith sep (b :: l) := rfl

theorem joinToks_cons2 (x y : List Tok) (l : List (List Tok)) :
    tokensOf.joinToks (x :: y :: l) = x ++ .punct 44 :: tokensOf.joinToks (y :: l) := rfl

/-- what may follow a list item: a comma or a closing parenthesis -/
def SepRest (r : Str) : Prop := ∃ b r', r = b :: r' ∧ (b = 41 ∨ b = 44)

theorem run_joinWith {α : Type} (d : Dialect) (G : Str → Prop) (hG : ∀ r, G (44 :: r))
    (f : α → Str) (t : α → List Tok) (items : List α)
    (h : ∀ a ∈ items, ∀ rest, G rest → run d .top (f a ++ rest) = t a ++ run d .top rest)
    (rest : Str) (hrest : G rest) :
    run d .top (joinWith commaSp (items.map f) ++ rest) =
      tokensOf.joinToks (items.map t) ++ run d .top rest := by
  induction items with
  | nil => simp [joinWith, tokensOf.joinToks]
  | cons a l ih =>
    cases l with
    | nil => simpa [joinWith, tokensOf.joinToks] using h a (by simp) rest hrest
    | cons b l =>
      have ih' := ih (fun a ha => h a (by simp [ha]))
      simp only [List.map_cons, joinWith_cons2, joinToks_cons2] at ih' ⊢
      simp only [commaSp, List.append_assoc, List.cons_append, List.nil_append] at ih' ⊢
      rw [h a (by simp) _ (hG _)]
      simp [run_top_punct, run_top_blank, ih']

theorem q_ne_of (d : Dialect) (b : UInt8) (hb : b = 32 ∨ b = 41 ∨ b = 44) (r : Str) :
    (b :: r).head? ≠ some d.q := by
  rcases hb with rfl | rfl | rfl <;> cases d <;> simp [Dialect.q]

theorem sepRest_head (d : Dialect) (r : Str) (h : SepRest r) : r.head? ≠ some d.q := by
  obtain ⟨b, r', rfl, hb⟩ := h
  exact q_ne_of d b (Or.inr hb) r'

/-! ### the three statements -/

theorem drop_tokens (d : Dialect) (t : Str) : lex d (render d (.drop t)) = tokensOf d (.drop t) := by
  simp only [lex, render, tokensOf]
  rw [run_dropTable]
  have := lex_quoteIdent d t [] (by simp)
  simp only [List.append_nil] at this
  rw [this]; simp [finish]

theorem tokensOf_insert (d : Dialect) (t : Str) (cols : List Str) (n : Nat) :
    tokensOf d (.insert t cols n) =
      [.word [73, 78, 83, 69, 82, 84], .word [73, 78, 84, 79], .qident t, .punct 40] ++
      tokensOf.joinToks (cols.map (fun c => [.qident c])) ++ [.punct 41, .word [86, 65, 76, 85, 69, 83]] ++
      tokensOf.joinToks ((List.range n).map (fun r =>
        .punct 40 :: tokensOf.joinToks ((List.range cols.length).map (fun c =>
          [.ph (phNum d (r * cols.length + c + 1))])) ++ [.punct 41])) := by
  cases d <;> rfl

theorem run_phRow (d : Dialect) (ncols r : Nat) (rest : Str) :
    run d .top (40 :: (joinWith commaSp ((List.range ncols).map (fun c => placeholder d (r * ncols + c + 1)))
        ++ [41]) ++ rest) =
      (.punct 40 :: tokensOf.joinToks ((List.range ncols).map (fun c =>
          [.ph (phNum d (r * ncols + c + 1))])) ++ [.punct 41]) ++ run d .top rest := by
  rw [List.cons_append, run_top_punct d 40 (by simp), List.append_assoc]
  rw [run_joinWith d SepRest (fun r => ⟨44, r, rfl, by simp⟩)
    (fun c => placeholder d (r * ncols + c + 1)) (fun c => [.ph (phNum d (r * ncols + c + 1))])]
  · simp [run_top_punct]
  · rintro c - rest ⟨b, r', rfl, hb⟩
    simp [run_placeholder d _ b hb]
  · exact ⟨41, rest, rfl, by simp⟩

theorem insert_tokens (d : Dialect) (t : Str) (cols : List Str) (n : Nat) :
    lex d (render d (.insert t cols n)) = tokensOf d (.insert t cols n) := by
  rw [tokensOf_insert]
  simp only [lex, render, placeholderRows, List.append_assoc, List.cons_append, List.nil_append]
  rw [run_insertInto, lex_quoteIdent d t _ (q_ne_of d 32 (by simp) _)]
  rw [run_top_blank, run_top_punct d 40 (by simp)]
  rw [run_joinWith d SepRest (fun r => ⟨44, r, rfl, by simp⟩) (quoteIdent d.q) (fun c => [.qident c])]
  · rw [run_top_punct d 41 (by simp), run_values]
    have := run_joinWith d (fun _ => True) (fun _ => trivial)
      (fun r => 40 :: (joinWith commaSp ((List.range cols.length).map
        (fun c => placeholder d (r * cols.length + c + 1))) ++ [41]))
      (fun r => .punct 40 :: tokensOf.joinToks ((List.range cols.length).map (fun c =>
          [.ph (phNum d (r * cols.length + c + 1))])) ++ [.punct 41])
      (List.range n) (fun r _ rest _ => run_phRow d cols.length r rest) [] trivial
    simp only [List.append_nil, run_nil, finish] at this
    rw [this]; simp
  · intro c _ rest hrest
    rw [lex_quoteIdent d c rest (sepRest_head d rest hrest)]; simp
  · exact ⟨41, _, rfl, by simp⟩

theorem create_tokens (d : Dialect) (t : Str) (cols : List (Str × Str))
    (hty : ∀ c ∈ cols, ∀ b ∈ c.2, isWordByte b = true ∨ b = 32 ∨ b = 40 ∨ b = 41 ∨ b = 44) :
    lex d (render d (.create t cols)) = tokensOf d (.create t cols) := by
  simp only [lex, render, tokensOf, List.append_assoc, List.cons_append, List.nil_append]
  rw [run_createTable, lex_quoteIdent d t _ (q_ne_of d 32 (by simp) _)]
  rw [run_top_blank, run_top_punct d 40 (by simp)]
  rw [run_joinWith d SepRest (fun r => ⟨44, r, rfl, by simp⟩) (fun c : Str × Str => quoteIdent d.q c.1 ++ 32 :: c.2)
    (fun c : Str × Str => .qident c.1 :: run d .top c.2)]
  · simp [run_top_punct, finish]
  · rintro c hc rest ⟨b, r', rfl, hb⟩
    have hbw : isWordByte b = false := by rcases hb with rfl | rfl <;> decide
    rw [List.append_assoc, List.cons_append, lex_quoteIdent d c.1 _ (q_ne_of d 32 (by simp) _), run_top_blank,
      run_plain d c.2 (hty c hc) .top trivial b hbw]
    simp
  · exact ⟨41, _, rfl, by simp⟩

end Goframe.SqlLemmas
