import GoframeModel.Ops.Group
import GoframeModel.Spec.Group
import GoframeModel.Lemmas.RefineE
/-
  Lemmas for C04 / C05: the group fold (`Grouped.step` over the rows) against the row-level
  specification, the assembly of aggregate frames, and conservation of sums over the partition.
-/
namespace Goframe
open Frame


/-! ### list utilities -/

theorem List.snoc_induction {α : Type} {P : List α → Prop} (hnil : P [])
    (hsnoc : ∀ l a, P l → P (l ++ [a])) : ∀ l, P l := by
  have h : ∀ l : List α, P l.reverse := by
    intro l
    induction l with
    | nil => exact hnil
    | cons a l ih => rw [List.reverse_cons]; exact hsnoc _ _ ih
  intro l
  have := h l.reverse
  rwa [List.reverse_reverse] at this

theorem List.flatMap_filter_eq {α β : Type} (p : α → Bool) (F G : α → List β) (L : List α)
    (h1 : ∀ x ∈ L, p x = true → F x = G x) (h2 : ∀ x ∈ L, p x = false → G x = []) :
    (L.filter p).flatMap F = L.flatMap G := by
  induction L with
  | nil => rfl
  | cons a L ih =>
    have ih' := ih (fun x hx => h1 x (List.mem_cons_of_mem _ hx))
      (fun x hx => h2 x (List.mem_cons_of_mem _ hx))
    cases hp : p a
    · rw [List.filter_cons_of_neg (by simp [hp]), List.flatMap_cons,
        h2 a (List.mem_cons_self ..) hp, ih']; rfl
    · rw [List.filter_cons_of_pos hp, List.flatMap_cons, List.flatMap_cons,
        h1 a (List.mem_cons_self ..) hp, ih']

theorem List.filter_split_perm {α : Type} (p q : α → Bool) (l : List α) :
    (l.filter p ++ (l.filter (fun x => !p x)).filter q).Perm (l.filter (fun x => p x || q x)) := by
  have h := List.filter_append_perm p (l.filter (fun x => p x || q x))
  rw [List.filter_filter, List.filter_filter] at h
  rw [List.filter_filter]
  have e1 : l.filter (fun a => p a && (p a || q a)) = l.filter p :=
    List.filter_congr (fun x _ => by cases p x <;> cases q x <;> rfl)
  have e2 : l.filter (fun a => (!p a) && (p a || q a)) = l.filter (fun a => q a && !p a) :=
    List.filter_congr (fun x _ => by cases p x <;> cases q x <;> rfl)
  rw [e1, e2] at h
  exact h

/-! ### representatives: the first element of each class of `κ`, in order of first appearance -/

section Reps
variable {α β : Type} [DecidableEq β]

def reps (κ : α → β) : List α → List α
  | [] => []
  | a :: as => a :: (reps κ as).filter (fun x => !decide (κ x = κ a))

theorem reps_subset (κ : α → β) : ∀ (l : List α) (a : α), a ∈ reps κ l → a ∈ l := by
  intro l
  induction l with
  | nil => intro a h; cases h
  | cons b l ih =>
    intro a h
    simp only [reps, List.mem_cons, List.mem_filter] at h
    rcases h with h | h
    · exact h ▸ List.mem_cons_self ..
    · exact List.mem_cons_of_mem _ (ih a h.1)

theorem reps_snoc (κ : α → β) (l : List α) (a : α) :
    reps κ (l ++ [a]) =
      if l.any (fun x => decide (κ x = κ a)) then reps κ l else reps κ l ++ [a] := by
  induction l with
  | nil => simp [reps]
  | cons b l ih =>
    simp only [List.cons_append, reps, ih, List.any_cons]
    by_cases hany : l.any (fun x => decide (κ x = κ a)) = true
    · simp [hany]
    · by_cases hba : κ b = κ a
      · simp [hany, hba]
      · have hab : ¬ κ a = κ b := fun h => hba h.symm
        simp [hany, hba, hab, List.filter_append]

theorem reps_congr {γ : Type} [DecidableEq γ] (κ : α → β) (τ : α → γ) (l : List α)
    (h : ∀ a ∈ l, ∀ b ∈ l, (κ a = κ b ↔ τ a = τ b)) : reps κ l = reps τ l := by
  induction l with
  | nil => rfl
  | cons a l ih =>
    have ih' := ih (fun x hx y hy => h x (List.mem_cons_of_mem _ hx) y (List.mem_cons_of_mem _ hy))
    simp only [reps, ih']
    congr 1
    apply List.filter_congr
    intro x hx
    have hx' : x ∈ l := reps_subset τ l x hx
    have := h x (List.mem_cons_of_mem _ hx') a (List.mem_cons_self ..)
    simp [this]

theorem reps_filter_length (κ : α → β) (l : List α) (a : α) (h : a ∈ l) :
    ((reps κ l).filter (fun x => decide (κ x = κ a))).length = 1 := by
  induction l with
  | nil => cases h
  | cons b l ih =>
    simp only [reps, List.filter_cons, List.filter_filter]
    by_cases hba : κ b = κ a
    · have : (reps κ l).filter (fun x => decide (κ x = κ a) && !decide (κ x = κ b)) = [] := by
        rw [List.filter_eq_nil_iff]
        intro x _
        simp [hba]
      simp [hba]
    · have hmem : a ∈ l := by
        rcases List.mem_cons.1 h with h | h
        · exact absurd (h ▸ rfl) hba
        · exact h
      have : (reps κ l).filter (fun x => decide (κ x = κ a) && !decide (κ x = κ b))
          = (reps κ l).filter (fun x => decide (κ x = κ a)) := by
        apply List.filter_congr
        intro x _
        by_cases hx : κ x = κ a
        · have : ¬ κ a = κ b := fun h => hba h.symm
          simp [hx, this]
        · simp [hx]
      simp [hba, this, ih hmem]

theorem reps_flatMap_perm (κ : α → β) (rows : List α) : ∀ l : List α,
    ((reps κ rows).flatMap (fun r0 => l.filter (fun x => decide (κ x = κ r0)))).Perm
      (l.filter (fun x => rows.any (fun r => decide (κ r = κ x)))) := by
  induction rows with
  | nil => intro l; simp [reps]
  | cons a rows ih =>
    intro l
    simp only [reps, List.flatMap_cons]
    have e1 : ((reps κ rows).filter (fun x => !decide (κ x = κ a))).flatMap
          (fun r0 => l.filter (fun x => decide (κ x = κ r0)))
        = (reps κ rows).flatMap (fun r0 => (l.filter (fun x => !decide (κ x = κ a))).filter
            (fun x => decide (κ x = κ r0))) := by
      apply List.flatMap_filter_eq
      · intro r0 _ hp
        rw [List.filter_filter]
        apply List.filter_congr
        intro x _
        by_cases hx : κ x = κ r0
        · have hp' : ¬ κ r0 = κ a := by simpa using hp
          have : ¬ κ x = κ a := fun h => hp' (hx.symm.trans h)
          simp [hx, hp']
        · simp [hx]
      · intro r0 _ hp
        have hp' : κ r0 = κ a := by simpa using hp
        rw [List.filter_filter, List.filter_eq_nil_iff]
        intro x _
        simp [hp']
    rw [e1]
    have h2 := ih (l.filter (fun x => !decide (κ x = κ a)))
    have h3 := List.filter_split_perm (fun x => decide (κ x = κ a))
      (fun x => rows.any (fun r => decide (κ r = κ x))) l
    have e2 : l.filter (fun x => (a :: rows).any (fun r => decide (κ r = κ x)))
        = l.filter (fun x => decide (κ x = κ a) || rows.any (fun r => decide (κ r = κ x))) := by
      apply List.filter_congr
      intro x _
      simp only [List.any_cons]
      congr 1
      exact decide_eq_decide.2 eq_comm
    rw [e2]
    exact ((List.Perm.refl _).append h2).trans h3

end Reps


/-! ### rows of a frame -/

namespace Frame

theorem mem_allRows {f : Frame} {r : Row} : r ∈ allRows f ↔ ∃ i, i < f.nrows ∧ f.rowMap i = r := by
  simp [allRows, List.mem_map, List.mem_range]

/-- a cell read from a row of the frame is a cell of the column (or `nil`), hence plain when the
column's cells are -/
theorem getD_rowMap_plain (f : Frame) (k : Str) (i : Nat)
    (h : ∀ c, f.get? k = some c → ∀ x ∈ c.data, x.plain = true) :
    (Row.getD (f.rowMap i) k).plain = true := by
  rw [getD_rowMap]
  cases hget : f.get? k with
  | none => rfl
  | some c =>
    simp only [Option.map_some, Option.getD_some, List.getD_eq_getElem?_getD]
    cases hi : c.data[i]? with
    | none => rfl
    | some x => exact h c hget x (List.mem_of_getElem? hi)

theorem keyTuple_allRows_plain (f : Frame) (ks : List Str)
    (hp : ∀ k ∈ ks, ∀ c, f.get? k = some c → ∀ x ∈ c.data, x.plain = true) :
    ∀ r ∈ allRows f, ∀ c ∈ Spec.keyTuple ks r, c.plain = true := by
  intro r hr c hc
  obtain ⟨i, _, rfl⟩ := mem_allRows.1 hr
  obtain ⟨k, hk, rfl⟩ := List.mem_map.1 hc
  exact getD_rowMap_plain f k i (hp k hk)

end Frame

/-! ### the group fold -/

namespace Grouped

theorem push_keys_plain (gs : List (Cell × List Row)) (k : Cell) (r : Row)
    (hgs : ∀ g ∈ gs, g.1.plain = true) (hk : k.plain = true) :
    ∀ g ∈ push gs k r, g.1.plain = true := by
  induction gs with
  | nil =>
    intro g hg
    simp only [push, List.mem_singleton] at hg
    subst hg; exact hk
  | cons g0 rest ih =>
    obtain ⟨k0, rs⟩ := g0
    have hrest : ∀ g ∈ rest, g.1.plain = true := fun g hg => hgs g (List.mem_cons_of_mem _ hg)
    have hk0 : k0.plain = true := hgs (k0, rs) (List.mem_cons_self ..)
    intro g hg
    simp only [push] at hg
    split at hg
    · rcases List.mem_cons.1 hg with h | h
      · subst h; exact hk0
      · exact hrest g h
    · rcases List.mem_cons.1 hg with h | h
      · subst h; exact hk0
      · exact ih hrest g h

theorem lookup_push (gs : List (Cell × List Row)) (k k' : Cell) (r : Row)
    (hgs : ∀ g ∈ gs, g.1.plain = true) (hk : k.plain = true) (hk' : k'.plain = true) :
    lookup (push gs k r) k' =
      if k = k' then some ((lookup gs k').getD [] ++ [r]) else lookup gs k' := by
  induction gs with
  | nil =>
    simp only [push, lookup, List.find?_cons, Cell.goEq_eq_of_plain hk hk']
    by_cases h : k = k' <;> simp [h]
  | cons g0 rest ih =>
    obtain ⟨k0, rs⟩ := g0
    have hrest : ∀ g ∈ rest, g.1.plain = true := fun g hg => hgs g (List.mem_cons_of_mem _ hg)
    have hk0 : k0.plain = true := hgs (k0, rs) (List.mem_cons_self ..)
    have ih' := ih hrest
    simp only [push, Cell.goEq_eq_of_plain hk0 hk]
    by_cases h0 : k0 = k
    · subst h0
      simp only [decide_true, if_true]
      simp only [lookup, List.find?_cons, Cell.goEq_eq_of_plain hk0 hk']
      by_cases h : k0 = k' <;> simp [h]
    · simp only [h0, decide_false, Bool.false_eq_true, if_false]
      simp only [lookup, List.find?_cons, Cell.goEq_eq_of_plain hk0 hk'] at ih' ⊢
      by_cases h : k0 = k'
      · have : ¬ k = k' := fun hkk => h0 (h.trans hkk.symm)
        simp [h, this]
      · simp only [h, decide_false]
        exact ih'

theorem mem_rows_push (gs : List (Cell × List Row)) (k : Cell) (r r' : Row) :
    r' ∈ (push gs k r).flatMap (·.2) ↔ r' ∈ gs.flatMap (·.2) ∨ r' = r := by
  induction gs with
  | nil => simp [push]
  | cons g0 rest ih =>
    obtain ⟨k0, rs⟩ := g0
    simp only [push]
    split
    · simp only [List.flatMap_cons, List.mem_append, List.mem_singleton]
      constructor
      · rintro ((h | h) | h)
        · exact .inl (.inl h)
        · exact .inr h
        · exact .inl (.inr h)
      · rintro ((h | h) | h)
        · exact .inl (.inl h)
        · exact .inr h
        · exact .inl (.inr h)
    · simp only [List.flatMap_cons, List.mem_append, ih]
      constructor
      · rintro (h | h | h)
        · exact .inl (.inl h)
        · exact .inl (.inr h)
        · exact .inr h
      · rintro ((h | h) | h)
        · exact .inl h
        · exact .inr (.inl h)
        · exact .inr (.inr h)

/-- the fold of `step` with key function `κ` -/
def foldRows (κ : Row → Cell) (rows : List Row) (g0 : Grouped) : Grouped :=
  rows.foldl (fun g r => g.step (κ r) r) g0

theorem foldRows_key (κ : Row → Cell) (rows : List Row) : ∀ g0, (foldRows κ rows g0).key = g0.key := by
  induction rows with
  | nil => intro g0; rfl
  | cons r rows ih => intro g0; simp only [foldRows, List.foldl_cons] at ih ⊢; rw [ih]; rfl

theorem foldRows_single (κ : Row → Cell) (rows : List Row) : ∀ g0, (foldRows κ rows g0).single = g0.single := by
  induction rows with
  | nil => intro g0; rfl
  | cons r rows ih => intro g0; simp only [foldRows, List.foldl_cons] at ih ⊢; rw [ih]; rfl

/-- the `single` flag rides along: folding from a state with the flag set differently gives the same groups -/
theorem foldRows_setSingle (κ : Row → Cell) (rows : List Row) (b : Bool) : ∀ g0,
    foldRows κ rows { g0 with single := b } = { foldRows κ rows g0 with single := b } := by
  induction rows with
  | nil => intro g0; rfl
  | cons r rows ih =>
    intro g0
    simp only [foldRows, List.foldl_cons] at ih ⊢
    exact ih (g0.step (κ r) r)

theorem foldRows_mem_rows (κ : Row → Cell) (rows : List Row) (r' : Row) : ∀ g0,
    r' ∈ (foldRows κ rows g0).groups.flatMap (·.2) ↔ r' ∈ g0.groups.flatMap (·.2) ∨ r' ∈ rows := by
  induction rows with
  | nil => intro g0; simp [foldRows]
  | cons r rows ih =>
    intro g0
    simp only [foldRows, List.foldl_cons] at ih ⊢
    rw [ih]
    simp only [step, mem_rows_push, List.mem_cons]
    constructor
    · rintro ((h | h) | h)
      · exact .inl h
      · exact .inr (.inl h)
      · exact .inr (.inr h)
    · rintro (h | h | h)
      · exact .inl (.inl h)
      · exact .inl (.inr h)
      · exact .inr h

/-- what the fold over `rows` from the empty state has built -/
structure FoldInv (κ : Row → Cell) (rows : List Row) (g : Grouped) : Prop where
  order : g.keyOrder = (reps κ rows).map κ
  plain : ∀ kr ∈ g.groups, kr.1.plain = true
  look : ∀ k, k.plain = true → lookup g.groups k =
    if rows.any (fun r => decide (κ r = k)) then some (rows.filter (fun r => decide (κ r = k))) else none

theorem foldRows_inv (κ : Row → Cell) (key : Str) : ∀ rows : List Row,
    (∀ r ∈ rows, (κ r).plain = true) →
    FoldInv κ rows (foldRows κ rows { groups := [], keyOrder := [], key := key }) := by
  intro rows
  induction rows using List.snoc_induction with
  | hnil =>
    intro _
    exact ⟨rfl, fun _ h => (by cases h), fun k _ => (by simp [foldRows, lookup])⟩
  | hsnoc rows r ih =>
    intro hp
    have hpr : (κ r).plain = true := hp r (by simp)
    have inv := ih (fun x hx => hp x (by simp [hx]))
    have hfold : foldRows κ (rows ++ [r]) { groups := [], keyOrder := [], key := key }
        = (foldRows κ rows { groups := [], keyOrder := [], key := key }).step (κ r) r := by
      simp [foldRows, List.foldl_append]
    rw [hfold]
    generalize foldRows κ rows { groups := [], keyOrder := [], key := key } = g at inv
    refine ⟨?_, ?_, ?_⟩
    · simp only [step, inv.order, inv.look _ hpr, reps_snoc]
      by_cases hany : rows.any (fun x => decide (κ x = κ r)) = true
      · simp [hany]
      · simp [hany]
    · exact push_keys_plain _ _ _ inv.plain hpr
    · intro k hk
      simp only [step]
      rw [lookup_push _ _ _ _ inv.plain hpr hk, inv.look k hk]
      by_cases hrk : κ r = k
      · by_cases hany : rows.any (fun x => decide (κ x = k)) = true
        · simp [hrk, hany, List.filter_append]
        · have hnil : rows.filter (fun x => decide (κ x = k)) = [] := by
            rw [List.filter_eq_nil_iff]
            intro x hx hxk
            exact hany (List.any_eq_true.2 ⟨x, hx, hxk⟩)
          simp [hrk, hany, hnil, List.filter_append]
      · simp [hrk, List.filter_append]

/-- the observable groups (`KeyOrder` with each key's rows) after the fold -/
theorem foldRows_groupsOf (κ : Row → Cell) (key : Str) (rows : List Row)
    (hp : ∀ r ∈ rows, (κ r).plain = true) :
    let g := foldRows κ rows { groups := [], keyOrder := [], key := key }
    g.keyOrder.map (fun k => (k, (lookup g.groups k).getD [])) =
      (reps κ rows).map (fun r0 => (κ r0, rows.filter (fun r => decide (κ r = κ r0)))) := by
  intro g
  have inv := foldRows_inv κ key rows hp
  rw [inv.order, List.map_map]
  apply List.map_congr_left
  intro r0 hr0
  have hmem : r0 ∈ rows := reps_subset κ rows r0 hr0
  have hany : rows.any (fun r => decide (κ r = κ r0)) = true :=
    List.any_eq_true.2 ⟨r0, hmem, by simp⟩
  simp only [Function.comp]
  rw [inv.look _ (hp r0 hmem), hany]
  rfl

end Grouped


/-! ### column names of a grouped frame -/

namespace Grouped

theorem mem_allColumnNames (g : Grouped) (c : Str) :
    c ∈ g.allColumnNames ↔ (∃ r ∈ g.groups.flatMap (·.2), c ∈ r.map (·.1)) ∧ (g.single = true → c ≠ g.key) := by
  simp only [allColumnNames, List.mem_eraseDups, List.mem_filter, List.mem_flatMap]
  have hb : (!(g.single && c == g.key)) = true ↔ (g.single = true → c ≠ g.key) := by
    cases g.single <;> simp
  rw [hb]
  constructor
  · rintro ⟨⟨kr, hkr, r, hr, hc⟩, hne⟩
    exact ⟨⟨r, ⟨kr, hkr, hr⟩, hc⟩, hne⟩
  · rintro ⟨⟨r, ⟨kr, hkr, hr⟩, hc⟩, hne⟩
    exact ⟨⟨kr, hkr, r, hr, hc⟩, hne⟩

/-- after grouping a frame with at least one row, the non-key column names are those of the frame -/
theorem foldRows_allColumnNames (κ : Row → Cell) (key : Str) (f : Frame) (hpos : 0 < f.nrows) (c : Str) :
    c ∈ (foldRows κ (allRows f) { groups := [], keyOrder := [], key := key }).allColumnNames ↔
      (c ∈ f.keys ∧ c ≠ key) := by
  rw [mem_allColumnNames, foldRows_key, foldRows_single]
  simp only [true_implies]
  have : (∃ r ∈ (foldRows κ (allRows f) { groups := [], keyOrder := [], key := key }).groups.flatMap (·.2),
      c ∈ r.map (·.1)) ↔ c ∈ f.keys := by
    constructor
    · rintro ⟨r, hr, hc⟩
      rw [foldRows_mem_rows] at hr
      rcases hr with hr | hr
      · simp at hr
      · obtain ⟨i, _, rfl⟩ := Frame.mem_allRows.1 hr
        rwa [Frame.keys_rowMap] at hc
    · intro hc
      refine ⟨f.rowMap 0, ?_, by rwa [Frame.keys_rowMap]⟩
      rw [foldRows_mem_rows]
      exact .inr (Frame.mem_allRows.2 ⟨0, hpos, rfl⟩)
  rw [this]

/-- grouped by a LIST of columns: no name is left out (the key columns are covered too) -/
theorem foldRows_allColumnNames_list (κ : Row → Cell) (f : Frame) (hpos : 0 < f.nrows) (c : Str) :
    c ∈ (foldRows κ (allRows f) { groups := [], keyOrder := [], key := [], single := false }).allColumnNames ↔
      c ∈ f.keys := by
  rw [mem_allColumnNames, foldRows_single]
  simp only [Bool.false_eq_true, false_implies, and_true]
  constructor
  · rintro ⟨r, hr, hc⟩
    rw [foldRows_mem_rows] at hr
    rcases hr with hr | hr
    · simp at hr
    · obtain ⟨i, _, rfl⟩ := Frame.mem_allRows.1 hr
      rwa [Frame.keys_rowMap] at hc
  · intro hc
    refine ⟨f.rowMap 0, ?_, by rwa [Frame.keys_rowMap]⟩
    rw [foldRows_mem_rows]
    exact .inr (Frame.mem_allRows.2 ⟨0, hpos, rfl⟩)

end Grouped

/-! ### the specification in terms of representatives -/

namespace Spec

theorem tupleEq_eq_of_plain : ∀ (t u : List Cell), (∀ c ∈ t, c.plain = true) →
    (∀ c ∈ u, c.plain = true) → tupleEq t u = decide (t = u) := by
  intro t
  induction t with
  | nil => intro u _ _; cases u <;> simp [tupleEq]
  | cons a t ih =>
    intro u ht hu
    cases u with
    | nil => simp [tupleEq]
    | cons b u =>
      have ha : a.plain = true := ht a (List.mem_cons_self ..)
      have hb : b.plain = true := hu b (List.mem_cons_self ..)
      simp only [tupleEq, Cell.goEq_eq_of_plain ha hb,
        ih u (fun c hc => ht c (List.mem_cons_of_mem _ hc)) (fun c hc => hu c (List.mem_cons_of_mem _ hc))]
      by_cases h1 : a = b <;> by_cases h2 : t = u <;> simp [h1, h2]

theorem distinctTuples_map_eq_reps (τ : Row → List Cell) (rows : List Row)
    (hp : ∀ r ∈ rows, ∀ c ∈ τ r, c.plain = true) :
    distinctTuples (rows.map τ) = (reps τ rows).map τ := by
  induction rows with
  | nil => rfl
  | cons a rows ih =>
    have ih' := ih (fun r hr => hp r (List.mem_cons_of_mem _ hr))
    simp only [List.map_cons, distinctTuples, reps, ih', List.filter_map]
    congr 2
    apply List.filter_congr
    intro x hx
    have hx' : x ∈ rows := reps_subset τ rows x hx
    simp only [Function.comp]
    rw [tupleEq_eq_of_plain _ _ (hp a (List.mem_cons_self ..)) (hp x (List.mem_cons_of_mem _ hx'))]
    exact congrArg (!·) (decide_eq_decide.2 eq_comm)

theorem groupsSpec_eq_reps (ks : List Str) (rows : List Row)
    (hp : ∀ r ∈ rows, ∀ c ∈ keyTuple ks r, c.plain = true) :
    groupsSpec ks rows = (reps (keyTuple ks) rows).map (fun r0 =>
      (keyTuple ks r0, rows.filter (fun r => decide (keyTuple ks r = keyTuple ks r0)))) := by
  unfold groupsSpec
  rw [distinctTuples_map_eq_reps _ _ hp, List.map_map]
  apply List.map_congr_left
  intro r0 hr0
  have hmem : r0 ∈ rows := reps_subset _ rows r0 hr0
  simp only [Function.comp]
  congr 1
  apply List.filter_congr
  intro r hr
  rw [tupleEq_eq_of_plain _ _ (hp r0 hmem) (hp r hr)]
  exact decide_eq_decide.2 eq_comm

theorem groupsSpec_isPartition (ks : List Str) (rows : List Row)
    (hp : ∀ r ∈ rows, ∀ c ∈ keyTuple ks r, c.plain = true) :
    isPartition ks rows (groupsSpec ks rows) = true := by
  rw [groupsSpec_eq_reps ks rows hp]
  simp only [isPartition, Bool.and_eq_true, List.all_eq_true, beq_iff_eq]
  constructor
  · intro r hr
    rw [List.filter_map, List.length_map]
    have : (reps (keyTuple ks) rows).filter ((fun g : List Cell × List Row => tupleEq g.1 (keyTuple ks r)) ∘
          fun r0 => (keyTuple ks r0, rows.filter (fun r => decide (keyTuple ks r = keyTuple ks r0))))
        = (reps (keyTuple ks) rows).filter (fun x => decide (keyTuple ks x = keyTuple ks r)) := by
      apply List.filter_congr
      intro x hx
      have hx' : x ∈ rows := reps_subset _ rows x hx
      simp only [Function.comp]
      exact tupleEq_eq_of_plain _ _ (hp x hx') (hp r hr)
    rw [this]
    exact reps_filter_length _ rows r hr
  · rw [List.map_map]
    have hperm := reps_flatMap_perm (keyTuple ks) rows rows
    have hlen := hperm.length_eq
    rw [List.length_flatMap] at hlen
    have hself : rows.filter (fun x => rows.any (fun r => decide (keyTuple ks r = keyTuple ks x))) = rows := by
      rw [List.filter_eq_self]
      intro x hx
      exact List.any_eq_true.2 ⟨x, hx, by simp⟩
    rw [hself] at hlen
    exact hlen

end Spec


/-! ### rational sums and conservation -/

def rsum (qs : List Rat) : Rat := qs.foldl (· + ·) 0

theorem foldl_add_rat (qs : List Rat) : ∀ a : Rat, qs.foldl (· + ·) a = a + rsum qs := by
  induction qs with
  | nil => intro a; simp [rsum, Rat.add_zero]
  | cons q qs ih =>
    intro a
    simp only [rsum, List.foldl_cons]
    rw [ih (a + q), ih (0 + q), Rat.zero_add, Rat.add_assoc]

theorem rsum_nil : rsum [] = 0 := rfl

theorem rsum_cons (q : Rat) (qs : List Rat) : rsum (q :: qs) = q + rsum qs := by
  simp only [rsum, List.foldl_cons]
  rw [foldl_add_rat, Rat.zero_add]; rfl

theorem rsum_append (as bs : List Rat) : rsum (as ++ bs) = rsum as + rsum bs := by
  induction as with
  | nil => simp [rsum_nil, Rat.zero_add]
  | cons a as ih => rw [List.cons_append, rsum_cons, rsum_cons, ih, Rat.add_assoc]

theorem rsum_perm {as bs : List Rat} (h : as.Perm bs) : rsum as = rsum bs := by
  induction h with
  | nil => rfl
  | cons x _ ih => rw [rsum_cons, rsum_cons, ih]
  | swap x y l =>
    rw [rsum_cons, rsum_cons, rsum_cons, rsum_cons, ← Rat.add_assoc, ← Rat.add_assoc, Rat.add_comm y x]
  | trans _ _ ih1 ih2 => exact ih1.trans ih2

theorem rsum_flatMap {α : Type} (w : α → Rat) (F : α → List α) (L : List α) :
    rsum (L.map (fun x => rsum ((F x).map w))) = rsum ((L.flatMap F).map w) := by
  induction L with
  | nil => rfl
  | cons a L ih => rw [List.map_cons, rsum_cons, ih, List.flatMap_cons, List.map_append, rsum_append]

theorem FVal.sum_fin {α : Type} (q : α → Rat) (L : List α) :
    FVal.sum (L.map (fun x => FVal.fin (q x))) = .fin (rsum (L.map q)) := by
  have h : ∀ a : Rat, (L.map (fun x => FVal.fin (q x))).foldl FVal.add (.fin a)
      = .fin (a + rsum (L.map q)) := by
    induction L with
    | nil => intro a; simp [rsum_nil, Rat.add_zero]
    | cons x L ih =>
      intro a
      simp only [List.map_cons, List.foldl_cons, FVal.add, rsum_cons]
      rw [ih, Rat.add_assoc]
  have := h 0
  rw [Rat.zero_add] at this
  exact this

/-- the finite numeric value of column `c` in row `r` (0 when the cell is not numeric) -/
def numVal (c : Str) (r : Row) : Rat :=
  match numOf (Row.getD r c) with
  | some (.fin q) => q
  | _ => 0

theorem Spec.groupSumSpec_fin (c : Str) (rs : List Row)
    (hfin : ∀ r ∈ rs, ∀ v, numOf (Row.getD r c) = some v → ∃ q, v = .fin q) :
    Spec.groupSumSpec rs c = .fin (rsum (rs.map (numVal c))) := by
  have h : ∀ a : Rat, (rs.filterMap (fun r => numOf (Row.getD r c))).foldl FVal.add (.fin a)
      = .fin (a + rsum (rs.map (numVal c))) := by
    induction rs with
    | nil => intro a; simp [rsum_nil, Rat.add_zero]
    | cons r rs ih =>
      intro a
      have ih' := ih (fun x hx => hfin x (List.mem_cons_of_mem _ hx))
      have hr := hfin r (List.mem_cons_self ..)
      rw [List.map_cons, rsum_cons]
      cases hnum : numOf (Row.getD r c) with
      | none =>
        rw [List.filterMap_cons_none (f := fun r => numOf (Row.getD r c)) hnum, ih']
        simp [numVal, hnum, Rat.zero_add]
      | some v =>
        obtain ⟨q, rfl⟩ := hr v hnum
        rw [List.filterMap_cons_some (f := fun r => numOf (Row.getD r c)) hnum, List.foldl_cons]
        simp only [FVal.add]
        rw [ih', Rat.add_assoc]
        simp [numVal, hnum]
  have := h 0
  rw [Rat.zero_add] at this
  exact this

theorem Spec.groupSum_conserves (ks : List Str) (rows : List Row) (c : Str)
    (hp : ∀ r ∈ rows, ∀ x ∈ Spec.keyTuple ks r, x.plain = true)
    (hfin : ∀ r ∈ rows, ∀ v, numOf (Row.getD r c) = some v → ∃ q, v = .fin q) :
    FVal.sum ((Spec.groupsSpec ks rows).map (fun g => Spec.groupSumSpec g.2 c)) =
      Spec.groupSumSpec rows c := by
  rw [Spec.groupsSpec_eq_reps ks rows hp, List.map_map]
  have e1 : (reps (Spec.keyTuple ks) rows).map ((fun g : List Cell × List Row => Spec.groupSumSpec g.2 c) ∘
        fun r0 => (Spec.keyTuple ks r0,
          rows.filter (fun r => decide (Spec.keyTuple ks r = Spec.keyTuple ks r0))))
      = (reps (Spec.keyTuple ks) rows).map (fun r0 => FVal.fin (rsum
          ((rows.filter (fun r => decide (Spec.keyTuple ks r = Spec.keyTuple ks r0))).map (numVal c)))) := by
    apply List.map_congr_left
    intro r0 _
    simp only [Function.comp]
    exact Spec.groupSumSpec_fin c _ (fun r hr => hfin r (List.mem_filter.1 hr).1)
  rw [e1, FVal.sum_fin, rsum_flatMap, Spec.groupSumSpec_fin c rows hfin]
  congr 1
  apply rsum_perm
  apply List.Perm.map
  have hperm := reps_flatMap_perm (Spec.keyTuple ks) rows rows
  have hself : rows.filter (fun x => rows.any (fun r => decide (Spec.keyTuple ks r = Spec.keyTuple ks x)))
      = rows := by
    rw [List.filter_eq_self]
    intro x hx
    exact List.any_eq_true.2 ⟨x, hx, by simp⟩
  rw [hself] at hperm
  exact hperm

/-! ### assembling the aggregate frame -/

namespace Grouped

theorem assemble_spec (keys : List Cell) :
    ∀ (cs : List (Str × List Cell)) (acc : Frame),
      (cs.map (·.1)).Nodup → (∀ nd ∈ cs, acc.has nd.1 = false) →
      ∃ out, assemble keys acc cs = .ok out ∧
        (∀ k, k ∉ cs.map (·.1) → out.get? k = acc.get? k) ∧
        (∀ nd ∈ cs, out.get? nd.1 = some { name := nd.1, data := nd.2 }) := by
  intro cs
  induction cs with
  | nil =>
    intro acc _ _
    exact ⟨acc, rfl, fun _ _ => rfl, fun _ h => by cases h⟩
  | cons nd rest ih =>
    intro acc hnd hfresh
    obtain ⟨n, d⟩ := nd
    have hn : acc.has n = false := hfresh (n, d) (List.mem_cons_self ..)
    simp only [List.map_cons, List.nodup_cons] at hnd
    obtain ⟨hnotin, hnd'⟩ := hnd
    have hfresh' : ∀ nd ∈ rest, (acc.set n { name := n, data := d }).has nd.1 = false := by
      intro nd hmem
      have hne : nd.1 ≠ n := by
        intro h; apply hnotin; rw [← h]; exact List.mem_map_of_mem hmem
      rw [Frame.has_set_ne _ _ _ _ hne]
      exact hfresh nd (List.mem_cons_of_mem _ hmem)
    obtain ⟨out, hout, hother, hcols⟩ := ih (acc.set n { name := n, data := d }) hnd' hfresh'
    refine ⟨out, ?_, ?_, ?_⟩
    · simp only [assemble, hn]; exact hout
    · intro k hk
      simp only [List.map_cons, List.mem_cons, not_or] at hk
      rw [hother k hk.2, Frame.get?_set_ne _ _ _ _ hk.1]
    · intro nd hmem
      rcases List.mem_cons.1 hmem with h | h
      · subst h
        rw [hother _ hnotin, Frame.get?_set_self]
      · exact hcols nd h

theorem aggWith_spec (g : Grouped) (cols : List Str) (cell : List Row → Str → Cell)
    (hnd : cols.Nodup) (hgk : sGroupKey ∉ cols) :
    ∃ out, g.aggWith cols cell = .ok out ∧
      out.get? sGroupKey = some { name := sGroupKey, data := g.keyOrder } ∧
      ∀ c ∈ cols, out.get? c = some { name := c, data :=
        (g.keyOrder.map (fun key => cell ((lookup g.groups key).getD []) c)) } := by
  have hmap : (cols.map (fun c => (c, (g.keyOrder.map (fun k => (lookup g.groups k).getD [])).map
      (fun rs => cell rs c)))).map (·.1) = cols := by
    simp [List.map_map, Function.comp_def]
  obtain ⟨out, hout, hother, hcols⟩ := assemble_spec g.keyOrder
    (cols.map (fun c => (c, (g.keyOrder.map (fun k => (lookup g.groups k).getD [])).map
      (fun rs => cell rs c))))
    [(sGroupKey, { name := sGroupKey, data := g.keyOrder })]
    (by rw [hmap]; exact hnd)
    (by
      intro nd hmem
      obtain ⟨c, hc, rfl⟩ := List.mem_map.1 hmem
      have hne : c ≠ sGroupKey := fun h => hgk (h ▸ hc)
      simp [Frame.has, Ne.symm hne])
  refine ⟨out, hout, ?_, ?_⟩
  · rw [hother _ (by rw [hmap]; exact hgk)]
    simp [Frame.get?]
  · intro c hc
    have := hcols _ (List.mem_map_of_mem (f := fun c => (c, (g.keyOrder.map
      (fun k => (lookup g.groups k).getD [])).map (fun rs => cell rs c))) hc)
    simpa [List.map_map, Function.comp_def] using this

end Grouped

end Goframe
