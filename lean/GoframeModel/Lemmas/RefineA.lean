import GoframeModel.Ops.Select
import GoframeModel.Spec.Table
/-
  Refinement lemmas shared by the property files: how the row view (`Spec.rowsOf`, `Spec.ofRows`)
  relates to the column representation of the model.
-/
namespace Goframe
open Frame

/-! ### `strLt` is a strict total order -/

theorem strLt_irrefl (a : Str) : strLt a a = false := by
  induction a with
  | nil => rfl
  | cons x xs ih => simp [strLt, ih]

theorem strLt_trans : ∀ (a b c : Str), strLt a b = true → strLt b c = true → strLt a c = true
  | [], [], _, h, _ => by simp [strLt] at h
  | [], _ :: _, [], _, h => by simp [strLt] at h
  | [], _ :: _, _ :: _, _, _ => by simp [strLt]
  | _ :: _, [], _, h, _ => by simp [strLt] at h
  | _ :: _, _ :: _, [], _, h => by simp [strLt] at h
  | x :: xs, y :: ys, z :: zs, h1, h2 => by
    have ih := strLt_trans xs ys zs
    simp only [strLt] at h1 h2 ⊢
    have hh := @UInt8.lt_iff_toNat_lt
    by_cases hxy : x < y <;> by_cases hyx : y < x <;> by_cases hyz : y < z <;> by_cases hzy : z < y <;>
      by_cases hxz : x < z <;> by_cases hzx : z < x <;>
      simp only [hxy, hyx, hyz, hzy, hxz, hzx, if_true, if_false] at h1 h2 ⊢ <;>
      first
      | rfl
      | exact ih h1 h2
      | (exfalso; simp only [hh] at *; omega)
      | (exfalso; simp at h1; done)
      | (exfalso; simp at h2; done)

theorem strLt_total : ∀ (a b : Str), strLt a b = false → strLt b a = false → a = b
  | [], [], _, _ => rfl
  | [], _ :: _, h, _ => by simp [strLt] at h
  | _ :: _, [], _, h => by simp [strLt] at h
  | x :: xs, y :: ys, h1, h2 => by
    have ih := strLt_total xs ys
    simp only [strLt] at h1 h2
    by_cases hxy : x < y <;> by_cases hyx : y < x <;>
      simp only [hxy, hyx, if_true, if_false] at h1 h2 <;> try contradiction
    have : x = y := by
      apply UInt8.toNat_inj.mp
      rw [UInt8.lt_iff_toNat_lt] at hxy hyx
      omega
    rw [this, ih h1 h2]

theorem strLt_asymm {a b : Str} (h : strLt a b = true) : strLt b a = false := by
  cases hba : strLt b a with
  | false => rfl
  | true => have := strLt_trans a b a h hba; rw [strLt_irrefl] at this; cases this

theorem strLt_ne {a b : Str} (h : strLt a b = true) : a ≠ b := by
  intro e; subst e; rw [strLt_irrefl] at h; cases h

namespace Frame

/-! ### lookups -/

theorem has_eq_isSome (f : Frame) (k : Str) : f.has k = (f.get? k).isSome := by
  induction f with
  | nil => rfl
  | cons kc rest ih =>
    simp only [has, get?, List.any_cons, List.find?_cons] at ih ⊢
    cases h : kc.1 == k <;> simp [ih]

theorem get?_eq_none_iff {f : Frame} {k : Str} : f.get? k = none ↔ f.has k = false := by
  rw [has_eq_isSome]; cases f.get? k <;> simp

theorem get?_cons (kc : Str × Col) (rest : Frame) (k : Str) :
    get? (kc :: rest) k = if kc.1 == k then some kc.2 else get? rest k := by
  simp only [get?, List.find?_cons]
  cases kc.1 == k <;> simp

theorem get?_mem {f : Frame} {k : Str} {c : Col} (h : f.get? k = some c) : (k, c) ∈ f := by
  induction f with
  | nil => simp [get?] at h
  | cons kc rest ih =>
    rw [get?_cons] at h
    by_cases e : kc.1 == k
    · simp only [e, if_true, Option.some.injEq] at h
      have : kc = (k, c) := by
        have := eq_of_beq e
        cases kc; simp_all
      rw [this]; exact List.mem_cons_self ..
    · simp only [e] at h
      exact List.mem_cons_of_mem _ (ih h)

theorem Sorted.tail {kc : Str × Col} {f : Frame} (h : Sorted (kc :: f)) : Sorted f :=
  (List.pairwise_cons.mp h).2

theorem Sorted.head_lt {kc : Str × Col} {f : Frame} (h : Sorted (kc :: f)) :
    ∀ x ∈ f, strLt kc.1 x.1 = true :=
  (List.pairwise_cons.mp h).1

/-- in a sorted frame a stored pair is the one `get?` finds -/
theorem get?_of_mem {f : Frame} (hs : f.Sorted) {k : Str} {c : Col} (h : (k, c) ∈ f) :
    f.get? k = some c := by
  induction f with
  | nil => cases h
  | cons kc rest ih =>
    rw [get?_cons]
    rcases List.mem_cons.mp h with h | h
    · subst h; simp
    · have hne : (kc.1 == k) = false := by
        have := strLt_ne (hs.head_lt _ h)
        simpa using this
      simp only [hne]
      exact ih hs.tail h

theorem RectN.tail {kc : Str × Col} {f : Frame} {n : Nat} (h : RectN (kc :: f) n) : RectN f n :=
  fun x hx => h x (List.mem_cons_of_mem _ hx)

theorem keys_length (f : Frame) : f.keys.length = f.length := by simp [keys]

/-! ### the row map -/

theorem _root_.Goframe.Row.get?_rowMap (f : Frame) (i : Nat) (k : Str) :
    Row.get? (f.rowMap i) k = (f.get? k).map (fun c => c.data.getD i .nil) := by
  induction f with
  | nil => rfl
  | cons kc rest ih =>
    rw [get?_cons]
    simp only [rowMap, Row.get?, List.map_cons, List.find?_cons] at ih ⊢
    cases h : kc.1 == k
    · simpa using ih
    · simp

theorem _root_.Goframe.Row.getD_rowMap (f : Frame) (i : Nat) (k : Str) :
    Row.getD (f.rowMap i) k = ((f.get? k).map (fun c => c.data.getD i .nil)).getD .nil := by
  rw [Row.getD, Row.get?_rowMap]

/-- lemma (1): the cell of row `i` under key `k` is cell `i` of the column stored under `k` -/
theorem _root_.Goframe.Row.getD_rowMap_of_mem {f : Frame} (hs : f.Sorted) {k : Str} {c : Col}
    (h : (k, c) ∈ f) (i : Nat) : Row.getD (f.rowMap i) k = c.data.getD i .nil := by
  rw [Row.getD_rowMap, get?_of_mem hs h]; rfl

theorem _root_.Goframe.Row.getD_nil (k : Str) : Row.getD [] k = .nil := rfl

theorem _root_.Goframe.Row.has_rowMap (f : Frame) (i : Nat) (k : Str) :
    Row.has (f.rowMap i) k = f.has k := by
  simp [Row.has, rowMap, has, List.any_map, Function.comp_def]

/-! ### `pick` -/

theorem pick_nil (d : List Cell) : pick d [] = [] := rfl

theorem pick_append (d : List Cell) (a b : List Nat) : pick d (a ++ b) = pick d a ++ pick d b := by
  simp [pick]

theorem pick_range' (d : List Cell) (a m : Nat) (h : a + m ≤ d.length) :
    pick d (List.range' a m) = (d.drop a).take m := by
  apply List.ext_getElem
  · simp [pick]; omega
  · intro j h1 h2
    simp [pick] at h1 ⊢
    rw [List.getElem?_eq_getElem (by omega)]; rfl

theorem pick_range (d : List Cell) : pick d (List.range d.length) = d := by
  rw [List.range_eq_range', pick_range' d 0 d.length (by omega)]; simp

/-- the frame whose columns are the cells of `f` at the listed positions -/
def pickF (f : Frame) (idx : List Nat) : Frame :=
  f.map (fun kc => (kc.1, { name := kc.1, data := pick kc.2.data idx }))

end Frame

namespace Spec

theorem ofRows_keys (f : Frame) (rows : List Row) :
    ofRows f.keys rows =
      f.map (fun kc => (kc.1, { name := kc.1, data := rows.map (fun r => Row.getD r kc.1) })) := by
  simp [ofRows, keys, List.map_map, Function.comp_def]

theorem ofRows_nil (f : Frame) : ofRows f.keys [] = emptyLike f := by
  rw [ofRows_keys]; rfl

/-- lemma (2) -/
theorem ofRows_rowMap {f : Frame} (hs : f.Sorted) (idx : List Nat) :
    ofRows f.keys (idx.map f.rowMap) = pickF f idx := by
  rw [ofRows_keys, pickF]
  apply List.map_congr_left
  intro kc hkc
  simp only [List.map_map, pick, Function.comp_def]
  congr 2
  apply List.map_congr_left
  intro i _
  exact Row.getD_rowMap_of_mem hs (k := kc.1) (c := kc.2) hkc i

/-- lemma (3) -/
theorem rowsOf_eq {f : Frame} {n : Nat} (hr : f.RectN n) (hne : f ≠ []) :
    rowsOf f = (List.range n).map f.rowMap := by
  rw [rowsOf, nrows_of_rectN hr hne]

theorem rowsOf_nil : rowsOf [] = [] := rfl

/-- pushing one more row onto a frame given by rows -/
theorem pushRow_ofRows (names : List Str) (rows : List Row) (r : Row) :
    pushRow (ofRows names rows) r = ofRows names (rows ++ [r]) := by
  simp [pushRow, ofRows, List.map_map, Function.comp_def]

end Spec
end Goframe
