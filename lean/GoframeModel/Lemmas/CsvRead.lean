import GoframeModel.Lemmas.Csv
/-
  Lemmas for C09, part 2: the writer's output read back by the reader.
  (a) `normalise` is the identity on written text, (b) the byte machine on one field, one record, all
  records, (c) the field count check.
-/
namespace Goframe.CsvLemmas
open Goframe Frame Csv

/-- does the string contain CR directly followed by LF (same function as `C09.hasCRLF`, written with
tests instead of literal patterns) -/
def crlf : Str → Bool
  | a :: b :: r => (a == cCR && b == cLF) || crlf (b :: r)
  | _ => false

theorem crlf_tail {a : UInt8} {s : Str} (h : crlf (a :: s) = false) : crlf s = false := by
  cases s with
  | nil => rfl
  | cons b r => simp only [crlf, Bool.or_eq_false_iff] at h; exact h.2

theorem crlf_cr_next {b : UInt8} {s : Str} (h : crlf (cCR :: b :: s) = false) : b ≠ cLF := by
  simp only [crlf, Bool.or_eq_false_iff] at h
  intro e; subst e; simp at h

/-- the doubled-quote encoding of one byte -/
def dbl (b : UInt8) : List UInt8 := if b = cQuote then [cQuote, cQuote] else [b]

theorem quoteField_eq (s : Str) : quoteField s = cQuote :: (s.flatMap dbl ++ [cQuote]) := rfl

/-! ### (a) `normalise` on written text -/

theorem normalise_cr_ne (b : UInt8) (t : List UInt8) (hb : b ≠ cLF) :
    normalise (cCR :: b :: t) = cCR :: normalise (b :: t) := by
  simp [normalise, hb]

theorem normalise_append_noCR (s t : List UInt8) (hs : ∀ b ∈ s, b ≠ cCR) :
    normalise (s ++ t) = s ++ normalise t := by
  induction s with
  | nil => rfl
  | cons a s ih =>
    rw [List.cons_append, normalise_cons_ne _ _ (hs a (List.mem_cons_self ..)),
      ih (fun b hb => hs b (List.mem_cons_of_mem _ hb))]
    rfl

theorem dbl_noCR (a : UInt8) (ha : a ≠ cCR) : ∀ b ∈ dbl a, b ≠ cCR := by
  intro b hb
  unfold dbl at hb
  split at hb
  · have : b = cQuote := by simpa using hb
    subst this; decide
  · have : b = a := by simpa using hb
    subst this; exact ha

/-- first byte of a quoted body followed by its closing quote -/
theorem body_head (s : Str) (t : List UInt8) :
    ∃ x X, s.flatMap dbl ++ cQuote :: t = x :: X ∧ x = (s ++ [cQuote]).head (by simp) := by
  cases s with
  | nil => exact ⟨cQuote, t, rfl, rfl⟩
  | cons b s =>
    by_cases hb : b = cQuote
    · exact ⟨cQuote, cQuote :: (s.flatMap dbl ++ cQuote :: t), by simp [dbl, hb], by simp [hb]⟩
    · exact ⟨b, s.flatMap dbl ++ cQuote :: t, by simp [dbl, hb], by simp⟩

theorem normalise_body (s : Str) (t : List UInt8) (hs : crlf s = false) :
    normalise (s.flatMap dbl ++ cQuote :: t) = s.flatMap dbl ++ cQuote :: normalise t := by
  induction s with
  | nil => simpa using normalise_cons_ne cQuote t (by decide)
  | cons a s ih =>
    have ih' := ih (crlf_tail hs)
    simp only [List.flatMap_cons, List.append_assoc]
    by_cases ha : a = cCR
    · subst ha
      obtain ⟨x, X, hX, hx⟩ := body_head s t
      have hdbl : dbl cCR = [cCR] := by decide
      have hxne : x ≠ cLF := by
        cases s with
        | nil => subst hx; decide
        | cons b s' =>
          have : x = b := by simpa using hx
          subst this; exact crlf_cr_next hs
      rw [hdbl, ← ih', hX]
      exact normalise_cr_ne x X hxne
    · rw [normalise_append_noCR _ _ (dbl_noCR a ha), ih']

theorem mustQuote_false {s : Str} (h : mustQuote s = false) :
    ∀ b ∈ s, b ≠ cComma ∧ b ≠ cQuote ∧ b ≠ cLF ∧ b ≠ cCR := by
  intro b hb
  have : ¬ (s.any (fun b => b = cComma || b = cQuote || b = cLF || b = cCR) = true) := by
    unfold mustQuote at h; simp [h]
  rw [List.any_eq_true] at this
  have h2 : ¬ ((decide (b = cComma) || decide (b = cQuote) || decide (b = cLF) || decide (b = cCR)) = true) :=
    fun hx => this ⟨b, hb, hx⟩
  simp only [Bool.or_eq_true, decide_eq_true_eq, not_or] at h2
  exact ⟨h2.1.1.1, h2.1.1.2, h2.1.2, h2.2⟩

/-- the hypotheses on the quoting decision and on one field, packaged -/
structure FieldOk (q : Str → Bool) (s : Str) : Prop where
  noCRLF : crlf s = false
  plain : q s = false → mustQuote s = false

theorem normalise_field (q : Str → Bool) (s : Str) (t : List UInt8) (h : FieldOk q s) :
    normalise (writeField q s ++ t) = writeField q s ++ normalise t := by
  unfold writeField
  cases hq : q s with
  | true =>
    simp only [if_true, quoteField_eq, List.cons_append, List.append_assoc, List.nil_append]
    rw [normalise_cons_ne _ _ (by decide), normalise_body s t h.noCRLF]
  | false =>
    simp only [Bool.false_eq_true, if_false]
    exact normalise_append_noCR s t (fun b hb => (mustQuote_false (h.plain hq) b hb).2.2.2)

theorem normalise_fields (q : Str → Bool) (r : List Str) (t : List UInt8) (h : ∀ s ∈ r, FieldOk q s) :
    normalise (joinComma (r.map (writeField q)) ++ cLF :: t) =
      joinComma (r.map (writeField q)) ++ cLF :: normalise t := by
  induction r with
  | nil => simpa [joinComma] using normalise_cons_ne cLF t (by decide)
  | cons s r ih =>
    cases r with
    | nil =>
      simp only [List.map_cons, List.map_nil, joinComma]
      rw [normalise_field q s _ (h s (List.mem_cons_self ..)), normalise_cons_ne _ _ (by decide)]
    | cons s2 r =>
      have ih' := ih (fun x hx => h x (List.mem_cons_of_mem _ hx))
      simp only [List.map_cons, joinComma] at ih' ⊢
      rw [List.append_assoc, normalise_field q s _ (h s (List.mem_cons_self ..)), List.cons_append,
        normalise_cons_ne _ _ (by decide), ih']
      simp

theorem normalise_record (q : Str → Bool) (r : List Str) (t : List UInt8) (h : ∀ s ∈ r, FieldOk q s) :
    normalise (writeRecord q r ++ t) = writeRecord q r ++ normalise t := by
  unfold writeRecord
  split
  · simp only [List.cons_append, List.nil_append]
    rw [normalise_cons_ne _ _ (by decide), normalise_cons_ne _ _ (by decide),
      normalise_cons_ne _ _ (by decide)]
  · have := normalise_fields q r t h
    simpa using this

theorem normalise_writeAll (q : Str → Bool) (recs : List (List Str))
    (h : ∀ r ∈ recs, ∀ s ∈ r, FieldOk q s) : normalise (writeAll q recs) = writeAll q recs := by
  unfold writeAll
  induction recs with
  | nil => rfl
  | cons r recs ih =>
    rw [List.flatMap_cons, normalise_record q r _ (h r (List.mem_cons_self ..)),
      ih (fun r' hr' => h r' (List.mem_cons_of_mem _ hr'))]

/-! ### (b) the machine on written text -/

theorem machine_quoted_body (s : Str) (cur : List UInt8) (fs : List Str) (rs : List (List Str))
    (rest : List UInt8) :
    machine .quoted cur fs rs (s.flatMap dbl ++ cQuote :: rest) =
      machine .qseen (s.reverse ++ cur) fs rs rest := by
  induction s generalizing cur with
  | nil => simp only [List.flatMap_nil, List.nil_append, List.reverse_nil]; rw [machine, if_pos rfl]
  | cons a s ih =>
    rw [List.flatMap_cons, List.append_assoc]
    by_cases ha : a = cQuote
    · subst ha
      have : dbl cQuote = [cQuote, cQuote] := by decide
      rw [this]
      simp only [List.cons_append, List.nil_append]
      rw [machine, if_pos rfl, machine, if_pos rfl, ih]
      simp
    · have : dbl a = [a] := by simp [dbl, ha]
      rw [this]
      simp only [List.cons_append, List.nil_append]
      rw [machine, if_neg ha, ih]
      simp

theorem machine_unq_run (s : Str) (cur : List UInt8) (fs : List Str) (rs : List (List Str))
    (rest : List UInt8) (hs : ∀ b ∈ s, b ≠ cComma ∧ b ≠ cQuote ∧ b ≠ cLF ∧ b ≠ cCR) :
    machine .unq cur fs rs (s ++ rest) = machine .unq (s.reverse ++ cur) fs rs rest := by
  induction s generalizing cur with
  | nil => rfl
  | cons a s ih =>
    obtain ⟨h1, h2, h3, _⟩ := hs a (List.mem_cons_self ..)
    rw [List.cons_append, machine, if_neg h2, if_neg h1, if_neg h3,
      ih _ (fun b hb => hs b (List.mem_cons_of_mem _ hb))]
    simp

/-- one written field followed by a comma, read from `fieldStart` -/
theorem machine_field_comma (q : Str → Bool) (s : Str) (h : FieldOk q s) (c : List UInt8)
    (fs : List Str) (rs : List (List Str)) (rest : List UInt8) :
    machine .fieldStart c fs rs (writeField q s ++ cComma :: rest) =
      machine .fieldStart [] (s :: fs) rs rest := by
  unfold writeField
  cases hq : q s with
  | true =>
    simp only [if_true, quoteField_eq, List.cons_append, List.append_assoc, List.nil_append]
    rw [machine, if_pos rfl, machine_quoted_body, machine, if_neg (by decide), if_pos rfl]
    simp
  | false =>
    simp only [Bool.false_eq_true, if_false]
    have hs := mustQuote_false (h.plain hq)
    cases s with
    | nil => rw [List.nil_append, machine, if_neg (by decide), if_pos rfl]
    | cons a s =>
      obtain ⟨h1, h2, h3, _⟩ := hs a (List.mem_cons_self ..)
      rw [List.cons_append, machine, if_neg h2, if_neg h1, if_neg h3,
        machine_unq_run s _ _ _ _ (fun b hb => hs b (List.mem_cons_of_mem _ hb)),
        machine, if_neg (by decide), if_pos rfl]
      simp

/-- one written field followed by a line feed, read from `fieldStart` -/
theorem machine_field_lf (q : Str → Bool) (s : Str) (h : FieldOk q s) (c : List UInt8)
    (fs : List Str) (rs : List (List Str)) (rest : List UInt8) :
    machine .fieldStart c fs rs (writeField q s ++ cLF :: rest) =
      machine .recStart [] [] ((s :: fs).reverse :: rs) rest := by
  unfold writeField
  cases hq : q s with
  | true =>
    simp only [if_true, quoteField_eq, List.cons_append, List.append_assoc, List.nil_append]
    rw [machine, if_pos rfl, machine_quoted_body, machine, if_neg (by decide), if_neg (by decide),
      if_pos rfl]
    simp
  | false =>
    simp only [Bool.false_eq_true, if_false]
    have hs := mustQuote_false (h.plain hq)
    cases s with
    | nil => rw [List.nil_append, machine, if_neg (by decide), if_neg (by decide), if_pos rfl]
    | cons a s =>
      obtain ⟨h1, h2, h3, _⟩ := hs a (List.mem_cons_self ..)
      rw [List.cons_append, machine, if_neg h2, if_neg h1, if_neg h3,
        machine_unq_run s _ _ _ _ (fun b hb => hs b (List.mem_cons_of_mem _ hb)),
        machine, if_neg (by decide), if_neg (by decide), if_pos rfl]
      simp

/-- the fields of a non-empty record and the closing line feed, read from `fieldStart` -/
theorem machine_fields (q : Str → Bool) (r : List Str) (hr : r ≠ []) (h : ∀ s ∈ r, FieldOk q s)
    (c : List UInt8) (fs : List Str) (rs : List (List Str)) (rest : List UInt8) :
    machine .fieldStart c fs rs (joinComma (r.map (writeField q)) ++ cLF :: rest) =
      machine .recStart [] [] ((r.reverse ++ fs).reverse :: rs) rest := by
  induction r generalizing c fs with
  | nil => exact absurd rfl hr
  | cons s r ih =>
    cases r with
    | nil =>
      simp only [List.map_cons, List.map_nil, joinComma]
      rw [machine_field_lf q s (h s (List.mem_cons_self ..))]
      simp
    | cons s2 r =>
      have ih' := ih (by simp) (fun x hx => h x (List.mem_cons_of_mem _ hx)) [] (s :: fs)
      simp only [List.map_cons, joinComma] at ih' ⊢
      rw [List.append_assoc, List.cons_append, machine_field_comma q s (h s (List.mem_cons_self ..)), ih']
      simp

/-- at the start of a record the machine behaves as at the start of a field, except on a line feed -/
theorem machine_recStart_eq (c c' : List UInt8) (rs : List (List Str)) (b : UInt8) (rest : List UInt8)
    (hb : b ≠ cLF) :
    machine .recStart c [] rs (b :: rest) = machine .fieldStart c' [] rs (b :: rest) := by
  rw [machine, machine, if_neg hb]
  by_cases h1 : b = cQuote
  · rw [if_pos h1, if_pos h1]
  · rw [if_neg h1, if_neg h1]
    by_cases h2 : b = cComma
    · rw [if_pos h2, if_pos h2]
    · rw [if_neg h2, if_neg h2, if_neg hb]

/-- the text of a record other than `[[]]` does not start with a line feed -/
theorem fields_head (q : Str → Bool) (r : List Str) (hr : r ≠ []) (hr1 : r ≠ [[]])
    (h : ∀ s ∈ r, FieldOk q s) (rest : List UInt8) :
    ∃ b X, joinComma (r.map (writeField q)) ++ cLF :: rest = b :: X ∧ b ≠ cLF := by
  cases r with
  | nil => exact absurd rfl hr
  | cons s r =>
    have hf := h s (List.mem_cons_self ..)
    -- the written first field, if non-empty, starts with a byte other than LF
    have hw : ∀ Y, (∃ b X, writeField q s ++ Y = b :: X ∧ b ≠ cLF) ∨ (s = [] ∧ writeField q s = []) := by
      intro Y
      unfold writeField
      cases hq : q s with
      | true =>
        left
        exact ⟨cQuote, _, by simp only [if_true, quoteField_eq, List.cons_append]; rfl, by decide⟩
      | false =>
        simp only [Bool.false_eq_true, if_false]
        cases s with
        | nil => right; exact ⟨rfl, rfl⟩
        | cons a s =>
          left
          exact ⟨a, s ++ Y, rfl, (mustQuote_false (hf.plain hq) a (List.mem_cons_self ..)).2.2.1⟩
    cases r with
    | nil =>
      simp only [List.map_cons, List.map_nil, joinComma]
      rcases hw (cLF :: rest) with h1 | ⟨h1, _⟩
      · exact h1
      · subst h1; exact absurd rfl hr1
    | cons s2 r =>
      simp only [List.map_cons, joinComma, List.append_assoc, List.cons_append]
      rcases hw (cComma :: (joinComma (writeField q s2 :: r.map (writeField q)) ++ cLF :: rest))
        with h1 | ⟨_, h1⟩
      · exact h1
      · rw [h1]; exact ⟨cComma, _, rfl, by decide⟩

theorem machine_record (q : Str → Bool) (r : List Str) (hr : r ≠ []) (h : ∀ s ∈ r, FieldOk q s)
    (c : List UInt8) (rs : List (List Str)) (rest : List UInt8) :
    machine .recStart c [] rs (writeRecord q r ++ rest) = machine .recStart [] [] (r :: rs) rest := by
  unfold writeRecord
  split
  · rename_i h1
    subst h1
    simp only [List.cons_append, List.nil_append]
    rw [machine, if_neg (by decide), if_pos rfl, machine, if_pos rfl, machine, if_neg (by decide),
      if_neg (by decide), if_pos rfl]
    rfl
  · rename_i h1
    rw [List.append_assoc, List.singleton_append]
    obtain ⟨b, X, hX, hb⟩ := fields_head q r hr h1 h rest
    have hm := machine_fields q r hr h [] [] rs rest
    rw [hX] at hm ⊢
    rw [machine_recStart_eq c [] rs b X hb, hm]
    simp

theorem machine_writeAll (q : Str → Bool) (recs : List (List Str))
    (hne : ∀ r ∈ recs, r ≠ []) (h : ∀ r ∈ recs, ∀ s ∈ r, FieldOk q s) (rs : List (List Str)) :
    machine .recStart [] [] rs (writeAll q recs) = .ok (rs.reverse ++ recs) := by
  unfold writeAll
  induction recs generalizing rs with
  | nil => simp only [List.flatMap_nil, List.append_nil]; rw [machine]
  | cons r recs ih =>
    rw [List.flatMap_cons, machine_record q r (hne r (List.mem_cons_self ..)) (h r (List.mem_cons_self ..)),
      ih (fun r' hr' => hne r' (List.mem_cons_of_mem _ hr'))
        (fun r' hr' => h r' (List.mem_cons_of_mem _ hr'))]
    simp

/-! ### (c) field count -/

theorem fieldCountOk_of_width (recs : List (List Str)) (w : Nat) (h : ∀ r ∈ recs, r.length = w) :
    fieldCountOk recs = true := by
  cases recs with
  | nil => rfl
  | cons r recs =>
    simp only [fieldCountOk, List.all_eq_true, beq_iff_eq]
    intro x hx
    rw [h x (List.mem_cons_of_mem _ hx), h r (List.mem_cons_self ..)]

/-- the csv layer, with the CR LF hypothesis stated through `crlf` -/
theorem readAll_writeAll (q : Str → Bool) (hq : ∀ s, mustQuote s = true → q s = true)
    (recs : List (List Str)) (w : Nat) (hw : 0 < w) (hlen : ∀ r ∈ recs, r.length = w)
    (hcr : ∀ r ∈ recs, ∀ s ∈ r, crlf s = false) :
    readAll (writeAll q recs) = .ok recs := by
  have hok : ∀ r ∈ recs, ∀ s ∈ r, FieldOk q s := by
    intro r hr s hs
    refine ⟨hcr r hr s hs, fun hqs => ?_⟩
    cases hm : mustQuote s with
    | false => rfl
    | true => rw [hq s hm] at hqs; cases hqs
  have hne : ∀ r ∈ recs, r ≠ [] := by
    intro r hr e
    have := hlen r hr
    rw [e] at this
    simp at this; omega
  unfold readAll
  rw [normalise_writeAll q recs hok, machine_writeAll q recs hne hok []]
  simp [fieldCountOk_of_width recs w hlen]

end Goframe.CsvLemmas
