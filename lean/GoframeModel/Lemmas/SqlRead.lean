import GoframeModel.Ops.SqlRead
/-
  Lemmas on the SQL import model of `Ops/SqlRead.lean` (C14): `Frame.set`/`get?`, column assembly,
  row reading under the plain / "skip_row" / unknown-handler policies, and the row loop.
-/
namespace Goframe.SqlReadLemmas
open Goframe SqlRead

/-! ### frames -/

theorem get?_set_self (f : Frame) (k : Str) (c : Col) : (f.set k c).get? k = some c := by
  induction f with
  | nil => simp [Frame.set, Frame.get?]
  | cons kc rest ih =>
    obtain ⟨k', c'⟩ := kc
    unfold Frame.set
    split
    · simp [Frame.get?]
    · rename_i hne
      split
      · simp [Frame.get?]
      · have hne' : (k' == k) = false := by
          simp only [beq_iff_eq] at hne
          simp only [beq_eq_false_iff_ne, ne_eq]
          exact fun h => hne h.symm
        simp only [Frame.get?, List.find?_cons, hne']
        exact ih

theorem get?_set_ne (f : Frame) (k k' : Str) (c : Col) (h : k' ≠ k) :
    (f.set k c).get? k' = f.get? k' := by
  have hk : (k == k') = false := by
    simp only [beq_eq_false_iff_ne, ne_eq]; exact fun e => h e.symm
  induction f with
  | nil => simp [Frame.set, Frame.get?, hk]
  | cons kc rest ih =>
    obtain ⟨k2, c2⟩ := kc
    unfold Frame.set
    split
    · rename_i heq
      simp only [beq_iff_eq] at heq
      subst heq
      simp [Frame.get?, hk]
    · split
      · simp [Frame.get?, List.find?_cons, hk]
      · simp only [Frame.get?, List.find?_cons] at ih ⊢
        split
        · rfl
        · exact ih

theorem has_eq_isSome (f : Frame) (k : Str) : f.has k = (f.get? k).isSome := by
  induction f with
  | nil => simp [Frame.has, Frame.get?]
  | cons kc rest ih =>
    simp only [Frame.has, Frame.get?, List.any_cons, List.find?_cons] at ih ⊢
    cases h : (kc.1 == k) <;> simp [ih]

theorem mem_set (f : Frame) (k : Str) (c : Col) (kc : Str × Col) (h : kc ∈ f.set k c) :
    kc = (k, c) ∨ kc ∈ f := by
  induction f with
  | nil => simp [Frame.set] at h; exact Or.inl h
  | cons kc' rest ih =>
    obtain ⟨k', c'⟩ := kc'
    unfold Frame.set at h
    split at h
    · rcases List.mem_cons.1 h with h | h
      · exact Or.inl h
      · exact Or.inr (List.mem_cons_of_mem _ h)
    · split at h
      · rcases List.mem_cons.1 h with h | h
        · exact Or.inl h
        · exact Or.inr h
      · rcases List.mem_cons.1 h with h | h
        · exact Or.inr (h ▸ List.mem_cons_self ..)
        · rcases ih h with h | h
          · exact Or.inl h
          · exact Or.inr (List.mem_cons_of_mem _ h)

/-! ### column assembly -/

theorem assemble_spec (names : List Str) (rows : List (List Cell)) :
    ∀ (ns : List Str) (j : Nat) (acc : Frame), ns.Nodup → (∀ x ∈ ns, acc.get? x = none) →
      ∃ f, assemble names rows j acc ns = .ok f ∧
        (∀ i name, ns[i]? = some name →
          f.get? name = some { name := name, data := rows.map (fun r => r.getD (j + i) .nil) }) ∧
        (∀ name, name ∉ ns → f.get? name = acc.get? name) ∧
        (∀ kc ∈ f, kc ∈ acc ∨ (kc.2.data.length = rows.length ∧ kc.2.name = kc.1)) := by
  intro ns
  induction ns with
  | nil =>
    intro j acc _ _
    exact ⟨acc, rfl, by simp, fun _ _ => rfl, fun kc h => Or.inl h⟩
  | cons n ns ih =>
    intro j acc hnd hfresh
    have hn : acc.has n = false := by
      rw [has_eq_isSome, hfresh n (List.mem_cons_self ..)]; rfl
    obtain ⟨hnn, hnd'⟩ := List.nodup_cons.1 hnd
    let col : Col := { name := n, data := rows.map (fun r => r.getD j .nil) }
    have hfresh' : ∀ x ∈ ns, (acc.set n col).get? x = none := by
      intro x hx
      have hxn : x ≠ n := fun e => hnn (e ▸ hx)
      rw [get?_set_ne _ _ _ _ hxn]
      exact hfresh x (List.mem_cons_of_mem _ hx)
    obtain ⟨f, hf, h1, h2, h3⟩ := ih (j + 1) (acc.set n col) hnd' hfresh'
    refine ⟨f, ?_, ?_, ?_, ?_⟩
    · simp only [assemble, hn]
      exact hf
    · intro i name hi
      cases i with
      | zero =>
        simp only [List.getElem?_cons_zero, Option.some.injEq] at hi
        subst hi
        rw [h2 _ hnn, get?_set_self]
        rfl
      | succ i =>
        simp only [List.getElem?_cons_succ] at hi
        rw [h1 i name hi]
        have : j + 1 + i = j + (i + 1) := by omega
        rw [this]
    · intro name hname
      have hne : name ≠ n := fun e => hname (e ▸ List.mem_cons_self ..)
      have hns : name ∉ ns := fun e => hname (List.mem_cons_of_mem _ e)
      rw [h2 name hns, get?_set_ne _ _ _ _ hne]
    · intro kc hkc
      rcases h3 kc hkc with h | h
      · rcases mem_set _ _ _ _ h with h | h
        · right; subst h; simp [col]
        · exact Or.inl h
      · exact Or.inr h

/-! ### `Outcome.isOk` through `bind` -/

theorem isOk_bind_false_left {α β} {x : Outcome α} (f : α → Outcome β) (h : x.isOk = false) :
    (x >>= f).isOk = false := by
  cases x <;> simp [Outcome.isOk] at h ⊢

theorem isOk_bind_false_right {α β} (x : Outcome α) {f : α → Outcome β} (h : ∀ a, (f a).isOk = false) :
    (x >>= f).isOk = false := by
  cases x with
  | ok a => exact h a
  | err e => rfl
  | panic e => rfl

/-! ### scanning a cell -/

theorem scanCell_nil (ty : ScanTy) : scanCell ty .nil = .ok none := by
  cases ty <;> rfl

set_option linter.unusedSimpArgs false in
theorem scanCell_of_ok {ty : ScanTy} {v : Cell} (hv : v ≠ .nil) (h : (scanCell ty v).isOk = true) :
    scanCell ty v = .ok (some v) := by
  cases ty <;> cases v <;> simp [scanCell, Outcome.isOk] at hv h ⊢
  all_goals first
    | (rename_i t x; cases t <;> simp [scanCell, Outcome.isOk] at h ⊢)
    | skip

/-! ### reading one row -/

theorem readRow_plain (ω : Oracle) (h : Handler) :
    ∀ (r : List Cell) (names : List Str) (tys : List ScanTy), names.length = r.length → tys.length = r.length →
      scanRowOk tys r = true → (∀ c ∈ r, c ≠ .nil) →
      readRow ω { handler := h, parseDates := [] } names tys r = .ok (some r) := by
  intro r
  induction r with
  | nil =>
    intro names tys hn ht _ _
    cases names <;> simp [readRow] at hn ⊢
  | cons v vs ih =>
    intro names tys hn ht hs hnn
    cases names with
    | nil => simp at hn
    | cons name names =>
      cases tys with
      | nil => simp at ht
      | cons ty tys =>
        simp only [List.length_cons, Nat.add_right_cancel_iff] at hn ht
        simp only [scanRowOk, Bool.and_eq_true] at hs
        have hv : v ≠ .nil := hnn v (List.mem_cons_self ..)
        have hsc := scanCell_of_ok hv hs.1
        have hrest := ih names tys hn ht hs.2 (fun c hc => hnn c (List.mem_cons_of_mem _ hc))
        simp [readRow, hsc, hrest]

theorem handleNull_skip (col : Str) (ty : ScanTy) : handleNull (.named sSkip) col ty = .ok .skip := by
  simp [handleNull, sSkip, sNilH, sZero]

theorem readRow_skip (ω : Oracle) :
    ∀ (r : List Cell) (names : List Str) (tys : List ScanTy), names.length = r.length → tys.length = r.length →
      scanRowOk tys r = true →
      readRow ω { handler := .named sSkip, parseDates := [] } names tys r =
        .ok (if r.any (fun c => c == .nil) then none else some r) := by
  intro r
  induction r with
  | nil =>
    intro names tys hn ht _
    cases names <;> simp [readRow] at hn ⊢
  | cons v vs ih =>
    intro names tys hn ht hs
    cases names with
    | nil => simp at hn
    | cons name names =>
      cases tys with
      | nil => simp at ht
      | cons ty tys =>
        simp only [List.length_cons, Nat.add_right_cancel_iff] at hn ht
        simp only [scanRowOk, Bool.and_eq_true] at hs
        have hrest := ih names tys hn ht hs.2
        by_cases hv : v = .nil
        · subst hv
          simp [readRow, scanCell_nil, handleNull_skip, Outcome.bind]
        · have hsc := scanCell_of_ok hv hs.1
          have hv' : (v == Cell.nil) = false := by simpa using hv
          simp only [readRow, hsc, hrest, Outcome.bind_ok, Outcome.pure_eq, List.contains_nil,
            Bool.false_eq_true, if_false, List.any_cons, hv', Bool.false_or]
          split <;> rfl

set_option linter.unusedSimpArgs false in
theorem readRow_unknown (ω : Oracle) (s : Str) (pd : List Str)
    (hs : s ≠ sNilH ∧ s ≠ sZero ∧ s ≠ sSkip) :
    ∀ (r : List Cell) (names : List Str) (tys : List ScanTy), names.length = r.length → tys.length = r.length →
      .nil ∈ r → (readRow ω { handler := .named s, parseDates := pd } names tys r).isOk = false := by
  intro r
  induction r with
  | nil => intro _ _ _ _ h; simp at h
  | cons v vs ih =>
    intro names tys hn ht hmem
    cases names with
    | nil => simp at hn
    | cons name names =>
      cases tys with
      | nil => simp at ht
      | cons ty tys =>
        simp only [List.length_cons, Nat.add_right_cancel_iff] at hn ht
        by_cases hv : v = .nil
        · subst hv
          simp [readRow, scanCell_nil, handleNull, hs.1, hs.2.1, hs.2.2, Outcome.bind, Outcome.isOk]
        · have hmem' : Cell.nil ∈ vs := by
            rcases List.mem_cons.1 hmem with h | h
            · exact absurd h.symm hv
            · exact h
          have hrest := ih names tys hn ht hmem'
          unfold readRow
          cases hsc : scanCell ty v with
          | err e => simp [Outcome.isOk]
          | panic e => simp [Outcome.isOk]
          | ok sc =>
            cases sc with
            | none =>
              -- a non-nil value never scans to NULL
              exfalso
              cases ty <;> cases v <;> simp [scanCell] at hsc hv
              all_goals first
                | (rename_i t x; cases t <;> simp [scanCell] at hsc)
                | skip
            | some c =>
              simp only [Outcome.bind_ok, Outcome.pure_eq]
              split
              · apply isOk_bind_false_right
                intro c'
                apply isOk_bind_false_left
                exact hrest
              · apply isOk_bind_false_left
                exact hrest

/-! ### the row loop -/

theorem readRows_of_rows (ω : Oracle) (o : Opts) (names : List Str) (tys : List ScanTy)
    (g : List Cell → Option (List Cell)) :
    ∀ (rows : List (List Cell)) (i : Nat),
      (∀ r ∈ rows, scanRowOk tys r = true ∧ readRow ω o names tys r = .ok (g r)) →
      readRows ω o names tys none i rows = .ok (rows.filterMap g) := by
  intro rows
  induction rows with
  | nil => intro i _; simp [readRows]
  | cons r rs ih =>
    intro i h
    obtain ⟨h1, h2⟩ := h r (List.mem_cons_self ..)
    have hrest := ih (i + 1) (fun r' hr' => h r' (List.mem_cons_of_mem _ hr'))
    simp only [readRows, reduceCtorEq, if_false, h1, Bool.not_true, Bool.false_eq_true, h2, hrest,
      Outcome.bind_ok, Outcome.pure_eq, List.filterMap_cons]
    cases g r <;> rfl

theorem filterMap_skip (rows : List (List Cell)) :
    rows.filterMap (fun r => if r.any (fun c => c == Cell.nil) then none else some r) =
      rows.filter (fun r => !(r.any (fun c => c == Cell.nil))) := by
  induction rows with
  | nil => rfl
  | cons r rs ih =>
    simp only [List.filterMap_cons, List.filter_cons, ih]
    cases r.any (fun c => c == Cell.nil) <;> simp

theorem readRows_err (ω : Oracle) (o : Opts) (names : List Str) (tys : List ScanTy) (k : Nat) :
    ∀ (rows : List (List Cell)) (i : Nat), i ≤ k → k ≤ i + rows.length →
      (readRows ω o names tys (some k) i rows).isOk = false := by
  intro rows
  induction rows with
  | nil =>
    intro i h1 h2
    have : k = i := by simp at h2; omega
    simp [readRows, this, Outcome.isOk]
  | cons r rs ih =>
    intro i h1 h2
    simp only [List.length_cons] at h2
    unfold readRows
    by_cases hk : k = i
    · simp [hk, Outcome.isOk]
    · simp only [Option.some.injEq, hk, if_false]
      split
      · rfl
      · apply isOk_bind_false_right
        intro row
        apply isOk_bind_false_left
        exact ih (i + 1) (by omega) (by omega)

theorem readRows_unknown (ω : Oracle) (s : Str) (pd : List Str) (names : List Str) (tys : List ScanTy)
    (hs : s ≠ sNilH ∧ s ≠ sZero ∧ s ≠ sSkip) (hwt : tys.length = names.length) :
    ∀ (rows : List (List Cell)) (i : Nat), (∀ r ∈ rows, r.length = names.length) → (∃ r ∈ rows, .nil ∈ r) →
      (readRows ω { handler := .named s, parseDates := pd } names tys none i rows).isOk = false := by
  intro rows
  induction rows with
  | nil => intro i _ h; simp at h
  | cons r rs ih =>
    intro i hw hnull
    unfold readRows
    simp only [reduceCtorEq, if_false]
    split
    · rfl
    · by_cases hr : Cell.nil ∈ r
      · apply isOk_bind_false_left
        have hl := hw r (List.mem_cons_self ..)
        exact readRow_unknown ω s pd hs r names tys hl.symm (by omega) hr
      · apply isOk_bind_false_right
        intro row
        apply isOk_bind_false_left
        apply ih (i + 1) (fun r' hr' => hw r' (List.mem_cons_of_mem _ hr'))
        obtain ⟨r', hr', hn'⟩ := hnull
        rcases List.mem_cons.1 hr' with h | h
        · subst h; exact absurd hn' hr
        · exact ⟨r', h, hn'⟩

/-! ### `fromRows` -/

theorem fromRows_of_readRows (ω : Oracle) (rs : ResultSet) (o : Opts) (rows : List (List Cell))
    (hnd : rs.names.Nodup)
    (h : readRows ω o rs.names (rs.types.map scanTyOf) rs.errAt 0 rs.rows = .ok rows) :
    ∃ f, fromRows ω rs o = .ok f ∧ f.RectN rows.length ∧
      ∀ j name, rs.names[j]? = some name →
        f.get? name = some { name := name, data := rows.map (fun r => r.getD j .nil) } := by
  obtain ⟨f, hf, h1, _, h3⟩ := assemble_spec rs.names rows rs.names 0 [] hnd (fun _ _ => rfl)
  refine ⟨f, ?_, ?_, ?_⟩
  · simp only [fromRows, h, Outcome.bind_ok]
    exact hf
  · intro kc hkc
    rcases h3 kc hkc with h | h
    · simp at h
    · exact h
  · intro j name hj
    have := h1 j name hj
    simpa using this

theorem fromRows_not_ok (ω : Oracle) (rs : ResultSet) (o : Opts)
    (h : (readRows ω o rs.names (rs.types.map scanTyOf) rs.errAt 0 rs.rows).isOk = false) :
    (fromRows ω rs o).isOk = false := by
  unfold fromRows
  exact isOk_bind_false_left _ h

end Goframe.SqlReadLemmas
