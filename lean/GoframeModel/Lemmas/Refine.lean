import GoframeModel.Ops.Select
import GoframeModel.Spec.Table
/-
  Refinement lemmas shared by the property files: how the row view (`Spec.rowsOf`, `Spec.ofRows`)
  relates to the column representation of the model.
-/
namespace Goframe
open Frame

end Goframe
