import GoframeModel.Ops.Select
import GoframeModel.Core.Float
/-
  dataframe/series.go, dataframe/aggregation.go, and `Add` / `Describe` of dataframe/dataframe.go.
-/
namespace Goframe

/-- `Series.AsFloat64`: fails on the first cell outside its conversion table. -/
def asFloats (ω : Oracle) : List Cell → Outcome (List FVal)
  | [] => .ok []
  | c :: cs =>
    match ω.asFloat64 c with
    | none => .err "cannot convert to float64"
    | some v => do
      let rest ← asFloats ω cs
      pure (v :: rest)

/-- the `Min` loop: `if v < min || IsNaN(min) { min = v }` -/
def minLoop : FVal → List FVal → FVal
  | m, [] => m
  | m, v :: vs => minLoop (if v.lt m || m.isNaN then v else m) vs

def maxLoop : FVal → List FVal → FVal
  | m, [] => m
  | m, v :: vs => maxLoop (if m.lt v || m.isNaN then v else m) vs

/-- the pinned `Min` loop (no NaN test) — kept to state the D12 witness -/
def minLoopPinned : FVal → List FVal → FVal
  | m, [] => m
  | m, v :: vs => minLoopPinned (if v.lt m then v else m) vs

inductive AggKind | sum | mean | min | max
  deriving DecidableEq, Repr

def aggFloats (k : AggKind) (xs : List FVal) : Outcome FVal :=
  match k, xs with
  | .sum, xs => .ok (FVal.sum xs)
  | _, [] => .err "empty series"
  | .mean, xs => .ok ((FVal.sum xs).divNat xs.length)
  | .min, x :: xs => .ok (minLoop x xs)
  | .max, x :: xs => .ok (maxLoop x xs)

/-- `Series.Sum/Mean/Min/Max`. -/
def seriesAgg (ω : Oracle) (k : AggKind) (d : List Cell) : Outcome FVal := do
  let xs ← asFloats ω d
  aggFloats k xs

namespace Frame

/-- frame-level `Sum/Mean/Min/Max`: per column, the first failing column aborts. -/
def aggAll (ω : Oracle) (k : AggKind) : Frame → Outcome (List (Str × FVal))
  | [] => .ok []
  | (n, c) :: rest => do
    let v ← seriesAgg ω k c.data
    let r ← aggAll ω k rest
    pure ((n, v) :: r)

def sStat : Str := [115, 116, 97, 116]

def numericCells (ω : Oracle) (d : List Cell) : List FVal := d.filterMap ω.toFloat

/-- `Describe()`: a `stat` column, then `[count, mean, min, max]` for each column having at least one
cell `toFloat` accepts (other cells are skipped). A source column called `stat` is dropped. -/
def describe (ω : Oracle) (f : Frame) : Frame :=
  let stat : Col := { name := sStat, data := [.str ([99, 111, 117, 110, 116]), .str ([109, 101, 97, 110]),
                                               .str ([109, 105, 110]), .str ([109, 97, 120])] }
  f.foldl (fun acc kc =>
    match numericCells ω kc.2.data with
    | [] => acc
    | x :: xs =>
      if acc.has kc.1 then acc
      else acc.set kc.1 { name := kc.1, data :=
        [.flt false (.fin ((x :: xs).length : Rat)), .flt false ((FVal.sum (x :: xs)).divNat (x :: xs).length),
         .flt false (minLoop x xs), .flt false (maxLoop x xs)] })
    [(sStat, stat)]

def sameKind : Cell → Cell → Bool
  | .nil, .nil => true
  | .int t _, .int u _ => t == u
  | .flt s _, .flt r _ => s == r
  | .str _, .str _ => true
  | .bool _, .bool _ => true
  | .time _, .time _ => true
  | _, _ => false

/-- one cell of `Add` -/
def addCell (ω : Oracle) (a b : Cell) : Outcome Cell :=
  match ω.toFloat a, ω.toFloat b with
  | some x, some y => .ok (.flt false (x.add y))
  | _, _ =>
    if sameKind a b then
      match a with
      | .str _ => .ok .nil
      | _ => .err "unable to sum dataframes, unknown data type"
    else .ok .nil

def addCol (ω : Oracle) (fill : Cell) : List Cell → List Cell → Outcome (List Cell)
  | [], [] => .ok []
  | [], _ :: bs => do
    let r ← addCol ω fill [] bs
    pure (fill :: r)
  | _ :: as, [] => do
    let r ← addCol ω fill as []
    pure (fill :: r)
  | a :: as, b :: bs => do
    let c ← addCell ω a b
    let r ← addCol ω fill as bs
    pure (c :: r)

def addAux (ω : Oracle) (fill : Cell) (other : Frame) : Frame → Outcome Frame
  | [] => .ok []
  | (k, c) :: rest =>
    match other.get? k with
    | none => .err "column does not exist in the other dataframe"
    | some oc => do
      let d ← addCol ω fill c.data oc.data
      let r ← addAux ω fill other rest
      pure ((k, { name := k, data := d }) :: r)

/-- `Add(other, fill?)`: same column count and — after the D16 repair — same column names. -/
def add (ω : Oracle) (f other : Frame) (fill : Cell) : Outcome Frame :=
  if f.ncols ≠ other.ncols then .err "the number of columns does not match"
  else addAux ω fill other f

end Frame
end Goframe
