import GoframeModel.Ops.Join
/-
  `Resample` of dataframe/timeseries.go (after the D13/D17/D18 repairs): buckets by civil-field
  truncation, one output row per bucket in ascending time order.
-/
namespace Goframe

/-- days from 1970-01-01 of the proleptic Gregorian date `y-m-d` -/
def daysFromCivil (y m d : Int) : Int :=
  let y := if m ≤ 2 then y - 1 else y
  let era := y / 400
  let yoe := y - era * 400
  let mp := if m > 2 then m - 3 else m + 9
  let doy := (153 * mp + 2) / 5 + d - 1
  let doe := yoe * 365 + yoe / 4 - yoe / 100 + doy
  era * 146097 + doe - 719468

/-- `time.Date(y, mo, d, h, mi, s, 0, loc)` for a fixed-offset location: fields kept, instant recomputed. -/
def GoTime.ofCivil (t : GoTime) (mo d h mi s : Int) : GoTime :=
  { t with mo := mo, d := d, h := h, mi := mi, s := s, ns := 0,
           unix := daysFromCivil t.y mo d * 86400 + h * 3600 + mi * 60 + s - t.off }

inductive Freq | Y | M | D | H | T | S
  deriving DecidableEq, Repr

def parseFreq (s : Str) : Option Freq :=
  if s = [89] then some .Y else if s = [77] then some .M
  else if s = [68] then some .D else if s = [72] then some .H
  else if s = [84] then some .T else if s = [83] then some .S else none

/-- `truncateToFrequency` -/
def truncate (q : Freq) (t : GoTime) : GoTime :=
  match q with
  | .Y => t.ofCivil 1 1 0 0 0
  | .M => t.ofCivil t.mo 1 0 0 0
  | .D => t.ofCivil t.mo t.d 0 0 0
  | .H => t.ofCivil t.mo t.d t.h 0 0
  | .T => t.ofCivil t.mo t.d t.h t.mi 0
  | .S => t.ofCivil t.mo t.d t.h t.mi t.s

/-- Aggregation callbacks of the closed family the harness implements identically in Go. -/
inductive AggFn | count | first | last | joinText
  deriving DecidableEq, Repr

def joinComma : List Str → Str
  | [] => []
  | [s] => s
  | s :: rest => s ++ [44] ++ joinComma rest

def AggFn.eval (ω : Oracle) : AggFn → List Cell → Cell
  | .count, xs => .int .int xs.length
  | .first, xs => xs.headD .nil
  | .last, xs => xs.getLastD .nil
  | .joinText, xs => .str (joinComma (xs.map ω.fmtV))

namespace Frame

/-- the bucket of every row, or an error at the first cell that is not a `time.Time` -/
def bucketsOf (q : Freq) : List Cell → Outcome (List GoTime)
  | [] => .ok []
  | .time t :: rest => do
    let r ← bucketsOf q rest
    pure (truncate q t :: r)
  | _ :: _ => .err "value is not a time.Time"

/-- indexes of the rows falling into bucket `b`, in row order -/
def bucketRows (bs : List GoTime) (b : GoTime) : List Nat :=
  (List.range bs.length).filter (fun i => bs[i]? == some b)

/-- distinct buckets in ascending time order (`order` stands for the order in which Go's map iteration
yields the distinct buckets; the sort makes the result independent of it) -/
def insertAsc (t : GoTime) : List GoTime → List GoTime
  | [] => [t]
  | x :: xs => if t.unix ≤ x.unix then t :: x :: xs else x :: insertAsc t xs

def sortedBuckets (order : List GoTime) : List GoTime := order.foldr insertAsc []

def resampleWith (perm : List GoTime → List GoTime) (ω : Oracle) (f : Frame) (k : Str) (freq : Str) (agg : AggFn) :
    Outcome Frame :=
  match f.get? k with
  | none => .err "datetime column does not exist"
  | some tc =>
    match parseFreq freq with
    | none => .err "unsupported frequency"
    | some q => do
      let bs ← bucketsOf q (tc.data.take f.nrows)
      let order := sortedBuckets (perm bs.eraseDups)
      pure (f.map (fun kc =>
        if kc.1 == k then (kc.1, { name := kc.1, data := order.map Cell.time })
        else (kc.1, { name := kc.1, data := order.map (fun b => agg.eval ω (pick kc.2.data (bucketRows bs b))) })))

/-- `Resample(col, freq, agg)` -/
def resample := resampleWith id

end Frame
end Goframe
