import GoframeModel.Ops.Select
/-
  dataframe/sql_read.go: argument validation, scan destination by declared type, NULL policy,
  ParseDates, error at any row, column assembly. `database/sql`'s scan conversion is modelled only for
  values of the declared column's natural Go type (and NULL); anything else is a scan error.
-/
namespace Goframe
namespace SqlRead

inductive ScanTy | int | float | bool | time | string
  deriving DecidableEq, Repr

def upper (s : Str) : Str := s.map (fun b => if 97 ≤ b ∧ b ≤ 122 then b - 32 else b)

def isInfix (pat : Str) : Str → Bool
  | [] => pat.isEmpty
  | b :: rest => (pat.isPrefixOf (b :: rest)) || isInfix pat rest

/-- `createScanDestination`: substring tests on the upper-cased declared type, in the code's order
(so `POINT` is an integer and `DATETIME2` a time) -/
def scanTyOf (declared : Str) : ScanTy :=
  let u := upper declared
  if isInfix [73, 78, 84] u then .int                                                   -- INT
  else if isInfix [70, 76, 79, 65, 84] u || isInfix [82, 69, 65, 76] u ||
          isInfix [68, 79, 85, 66, 76, 69] u || isInfix [78, 85, 77, 69, 82, 73, 67] u then .float   -- FLOAT REAL DOUBLE NUMERIC
  else if isInfix [66, 79, 79, 76] u then .bool                                         -- BOOL
  else if isInfix [84, 73, 77, 69] u || isInfix [68, 65, 84, 69] u then .time           -- TIME DATE
  else .string

inductive Handler
  | dflt                          -- no option given / nil handler: "nil"
  | named (s : Str)               -- a string: "nil", "zero", "skip_row" or unknown
  | byColumn (m : List (Str × Cell))
  | badType                       -- a value that is neither string nor map
  deriving Repr

structure Opts where
  handler : Handler
  parseDates : List Str
  deriving Repr

structure ResultSet where
  names : List Str
  types : List Str
  rows : List (List Cell)
  errAt : Option Nat              -- iteration fails before delivering this row
  deriving Repr

/-- scan one driver value into the destination: `none` = NULL -/
def scanCell (ty : ScanTy) (v : Cell) : Outcome (Option Cell) :=
  match ty, v with
  | _, .nil => .ok none
  | .int, .int .int64 x => .ok (some (.int .int64 x))
  | .float, .flt false x => .ok (some (.flt false x))
  | .bool, .bool b => .ok (some (.bool b))
  | .time, .time t => .ok (some (.time t))
  | .string, .str s => .ok (some (.str s))
  | _, _ => .err "error scanning row"

def zeroTime : GoTime :=
  { unix := -62135596800, ns := 0, off := 0, y := 1, mo := 1, d := 1, h := 0, mi := 0, s := 0, zone := [85, 84, 67] }

def sNilH : Str := [110, 105, 108]                               -- "nil"
def sZero : Str := [122, 101, 114, 111]                          -- "zero"
def sSkip : Str := [115, 107, 105, 112, 95, 114, 111, 119]       -- "skip_row"

inductive NullRes | value (c : Cell) | skip

/-- `handleNull` -/
def handleNull (h : Handler) (col : Str) (ty : ScanTy) : Outcome NullRes :=
  match h with
  | .dflt => .ok (.value .nil)
  | .named s =>
    if s = sNilH then .ok (.value .nil)
    else if s = sZero then
      .ok (.value (match ty with
        | .string => .str []
        | .int => .int .int64 0
        | .float => .flt false (.fin 0)
        | .bool => .bool false
        | .time => .time zeroTime))
    else if s = sSkip then .ok .skip
    else .err "unknown null handler"
  | .byColumn m =>
    match m.find? (fun kv => kv.1 == col) with
    | some kv => .ok (.value kv.2)
    | none => .ok (.value .nil)
  | .badType => .err "invalid null handler type"

/-- the layouts `parseDateValue` tries, in order (names as the harness passes them to time.Parse) -/
def layouts : List Str :=
  [ [50,48,48,54,45,48,49,45,48,50,84,49,53,58,48,52,58,48,53,90,48,55,58,48,48],                    -- RFC3339
    [50,48,48,54,45,48,49,45,48,50,84,49,53,58,48,52,58,48,53,46,57,57,57,57,57,57,57,57,57,90,48,55,58,48,48],  -- RFC3339Nano
    [50,48,48,54,45,48,49,45,48,50,32,49,53,58,48,52,58,48,53],                                      -- 2006-01-02 15:04:05
    [50,48,48,54,45,48,49,45,48,50],                                                                  -- 2006-01-02
    [50,48,48,54,45,48,49,45,48,50,32,49,53,58,48,52,58,48,53,46,57,57,57,57,57,57],                 -- with microseconds
    [77,111,110,44,32,48,50,32,74,97,110,32,50,48,48,54,32,49,53,58,48,52,58,48,53,32,77,83,84],     -- RFC1123
    [48,50,32,74,97,110,32,48,54,32,49,53,58,48,52,32,77,83,84] ]                                    -- RFC822

def firstParse (ω : Oracle) (s : Str) : List Str → Option GoTime
  | [] => none
  | l :: ls => match ω.timeParse l s with
    | some t => some t
    | none => firstParse ω s ls

/-- `parseDateValue` -/
def parseDate (ω : Oracle) : Cell → Outcome Cell
  | .nil => .ok (.time zeroTime)
  | .time t => .ok (.time t)
  | .str s => match firstParse ω s layouts with
    | some t => .ok (.time t)
    | none => .err "unable to parse date string"
  | .int .int64 v => match ω.timeUnix v with
    | some t => .ok (.time t)
    | none => .err "oracle: time.Unix missing"
  | .int .int v => match ω.timeUnix v with
    | some t => .ok (.time t)
    | none => .err "oracle: time.Unix missing"
  | .flt false v => match ω.timeFromFloat v with
    | some t => .ok (.time t)
    | none => .err "oracle: timeFromFloat64 missing"
  | _ => .err "unsupported type for date parsing"

/-- one row: `none` = skipped -/
def readRow (ω : Oracle) (o : Opts) : List Str → List ScanTy → List Cell → Outcome (Option (List Cell))
  | name :: names, ty :: tys, v :: vs => do
    let sc ← scanCell ty v
    let cell ← match sc with
      | some c => pure (some c)
      | none => (handleNull o.handler name ty).bind (fun r => match r with
          | .value c => .ok (some c)
          | .skip => .ok none)
    match cell with
    | none => pure none
    | some c =>
      let c' ← if o.parseDates.contains name then parseDate ω c else pure c
      let rest ← readRow ω o names tys vs
      pure (rest.map (fun r => c' :: r))
  | _, _, _ => .ok (some [])

/-- Go scans the whole row (all columns) before extracting: a scan error anywhere in the row wins -/
def scanRowOk : List ScanTy → List Cell → Bool
  | ty :: tys, v :: vs => (scanCell ty v).isOk && scanRowOk tys vs
  | _, _ => true

def readRows (ω : Oracle) (o : Opts) (names : List Str) (tys : List ScanTy) (errAt : Option Nat) :
    Nat → List (List Cell) → Outcome (List (List Cell))
  | i, [] => if errAt = some i then .err "error iterating rows" else .ok []
  | i, r :: rs =>
    if errAt = some i then .err "error iterating rows"
    else if !scanRowOk tys r then .err "error scanning row"
    else do
      let row ← readRow ω o names tys r
      let rest ← readRows ω o names tys errAt (i + 1) rs
      pure (match row with
        | some x => x :: rest
        | none => rest)

def assemble (names : List Str) (rows : List (List Cell)) : Nat → Frame → List Str → Outcome Frame
  | _, acc, [] => .ok acc
  | j, acc, n :: ns =>
    if acc.has n then .err "column already exists"
    else assemble names rows (j + 1) (acc.set n { name := n, data := rows.map (fun r => r.getD j .nil) }) ns

/-- `fromSQLRows` -/
def fromRows (ω : Oracle) (rs : ResultSet) (o : Opts) : Outcome Frame := do
  let tys := rs.types.map scanTyOf
  let rows ← readRows ω o rs.names tys rs.errAt 0 rs.rows
  assemble rs.names rows 0 [] rs.names

/-- the four entry points: nil handle and empty query are rejected first, then the query may fail -/
def fromSQL (ω : Oracle) (nilHandle : Bool) (query : Str) (queryErr : Bool) (rs : ResultSet) (o : Opts) : Outcome Frame :=
  if nilHandle then .err "database connection cannot be nil"
  else if query = [] then .err "query cannot be empty"
  else if queryErr then .err "executing SQL query"
  else fromRows ω rs o

end SqlRead
end Goframe
