import GoframeModel.Ops.Select
/-
  `Apply` of dataframe/dataframe.go. Column-wise is sequential. Row-wise is a worker pool: what
  reaches the collector is, for every row index exactly once, the pair (index, fn(row cells)), in an
  arbitrary order `σ`; the collector writes each result at its index.
-/
namespace Goframe

/-- what a callback returns: a slice (`[]any`, `[]string`, `[]int`, `[]bool` all end up as cells),
a single non-nil value, or `nil` -/
inductive ApplyRes
  | slice (vs : List Cell)
  | scalar (v : Cell)
  | nilRes
  deriving DecidableEq, Repr

namespace Frame

/-- `applyColumnWise` -/
def applyColAux (fn : List Cell → ApplyRes) : Frame → Outcome Frame
  | [] => .ok []
  | (k, c) :: rest =>
    match fn c.data with
    | .nilRes => .err "unexpected result type"
    | .slice vs => do
      let r ← applyColAux fn rest
      pure ((k, { name := k, data := vs }) :: r)
    | .scalar v => do
      let r ← applyColAux fn rest
      pure ((k, { name := k, data := List.replicate c.data.length v }) :: r)

def applyCol (fn : List Cell → ApplyRes) (f : Frame) : Outcome Frame :=
  if f.isEmpty then
    .err "function returns no data"
  else applyColAux fn f

/-- the collector's write of one tagged result into the per-column table (columns in sorted order) -/
def writeRes (i : Nat) (res : ApplyRes) : List (List Cell) → Nat → Outcome (List (List Cell))
  | [], _ => .ok []
  | col :: cols, j =>
    match res with
    | .nilRes => .ok (col :: cols)
    | .scalar v => do
      let r ← writeRes i res cols (j + 1)
      pure (col.set i v :: r)
    | .slice vs =>
      match vs[j]? with
      | none => .panic "index out of range"
      | some v => do
        let r ← writeRes i res cols (j + 1)
        pure (col.set i v :: r)

def collect (fn : List Cell → ApplyRes) (f : Frame) : List (List Cell) → List Nat → Outcome (List (List Cell))
  | tbl, [] => .ok tbl
  | tbl, i :: is => do
    let tbl' ← writeRes i (fn (rowCells f i)) tbl 0
    collect fn f tbl' is

/-- `applyRowWise` under delivery order `σ` (a permutation of `0 … nrows-1`) -/
def applyRowWith (σ : List Nat) (fn : List Cell → ApplyRes) (f : Frame) : Outcome Frame :=
  if f.isEmpty then .err "function returns no data"
  else do
    let tbl ← collect fn f (f.map (fun _ => List.replicate f.nrows Cell.nil)) σ
    pure ((f.zip tbl).map (fun (kc, d) => (kc.1, { name := kc.1, data := d })))

/-- the sequential reference: rows delivered in index order -/
def applyRowSeq (fn : List Cell → ApplyRes) (f : Frame) : Outcome Frame :=
  applyRowWith (List.range f.nrows) fn f

end Frame
end Goframe
