import GoframeModel.Ops.Clean
/-
  dataframe/sort.go: the comparator `Less`, `Swap` on whole rows, and `SortValues` on a copy.
  `sort.Sort` itself is a parameter (`sorter`) with the contract `SortContract`; for at most 12 rows
  Go's `sort.Sort` is exactly the insertion sort below, which is what the driver executes.
-/
namespace Goframe

/-- Comparison of two cells of one sort column, as in `DataFrameSorter.Less`:
`none` = tie (go on to the next column), `some r` = decided. -/
def cmpCells (ω : Oracle) (asc : Bool) (a b : Cell) : Option Bool :=
  if a.isNil && b.isNil then none
  else if a.isNil then some false
  else if b.isNil then some true
  else
    match ω.toFloat a, ω.toFloat b with
    | some x, some y =>
      if x.goEq y then none else some (if asc then x.lt y else y.lt x)
    | _, _ =>
      let s1 := ω.fmtV a
      let s2 := ω.fmtV b
      if s1 = s2 then none else some (if asc then strLt s1 s2 else strLt s2 s1)

/-- `Less` on two rows given as the lists of their cells in the sort columns, in `by` order. -/
def lessCells (ω : Oracle) (asc : Bool) : List Cell → List Cell → Bool
  | a :: as, b :: bs =>
    match cmpCells ω asc a b with
    | some r => r
    | none => lessCells ω asc as bs
  | _, _ => false

namespace Frame

/-- the cells of row `i` in the listed columns (absent column ⇒ `nil`; excluded by the existence check) -/
def keyCells (f : Frame) (by_ : List Str) (i : Nat) : List Cell :=
  by_.map (fun k => match f.get? k with
    | some c => c.data.getD i .nil
    | none => .nil)

def less (ω : Oracle) (f : Frame) (by_ : List Str) (asc : Bool) (i j : Nat) : Bool :=
  lessCells ω asc (keyCells f by_ i) (keyCells f by_ j)

end Frame

/-- Go's `insertionSort`: element `x` moves left while `lt x (its left neighbour)`. `rp` is the sorted
prefix in reverse. -/
def insRev {α} (lt : α → α → Bool) (x : α) : List α → List α
  | [] => [x]
  | y :: ys => if lt x y then y :: insRev lt x ys else x :: y :: ys

def insertionSort {α} (lt : α → α → Bool) (xs : List α) : List α :=
  (xs.foldl (fun rp x => insRev lt x rp) []).reverse

/-- What the model assumes of `sort.Sort` driven by a comparator `lt`: the result is a permutation
with no inversion. (Meaningful when `lt` is a strict weak order.) -/
def SortContract (sorter : (Nat → Nat → Bool) → List Nat → List Nat) : Prop :=
  ∀ lt xs, (sorter lt xs).Perm xs ∧ (sorter lt xs).Pairwise (fun a b => lt b a = false)

namespace Frame

/-- `SortValues(by, asc)` with `sort.Sort` abstracted as `sorter` acting on row numbers. An unknown
sort column is an error; the receiver is never touched (sorting happens on a cell-wise copy). -/
def sortValuesWith (sorter : (Nat → Nat → Bool) → List Nat → List Nat)
    (ω : Oracle) (f : Frame) (by_ : List Str) (asc : Bool) : Outcome Frame :=
  if by_.any (fun k => !f.has k) then .err "column does not exist"
  else
    let perm := sorter (less ω f by_ asc) (List.range f.nrows)
    .ok (f.map (fun kc => (kc.1, { kc.2 with data := pick kc.2.data perm })))

def sortValues := sortValuesWith (fun lt xs => insertionSort lt xs)

end Frame
end Goframe
