import GoframeModel.Ops.Select
import GoframeModel.Core.Float
/-
  dataframe/cleaning.go and the conversion half of dataframe/timeseries.go.
-/
namespace Goframe
namespace Frame

/-- `FillNa(v)`: every `nil` cell becomes `v`. -/
def fillNa (f : Frame) (v : Cell) : Frame :=
  f.map (fun kc => (kc.1, { kc.2 with data := kc.2.data.map (fun c => if c.isNil then v else c) }))

/-- Row indexes `DropNa` keeps: rows readable through `Row(i)` whose map holds no `nil`. The first
unreadable row is an error. -/
def dropNaKeep (f : Frame) : Nat → Nat → Outcome (List Nat)
  | _, 0 => .ok []
  | i, cnt + 1 =>
    match rowAt f i with
    | .ok r => do
      let rest ← dropNaKeep f (i + 1) cnt
      pure (if r.any (fun kv => kv.2.isNil) then rest else i :: rest)
    | .err e => .err e
    | .panic p => .panic p

def dropNa (f : Frame) : Outcome Frame := do
  let keep ← dropNaKeep f 0 f.nrows
  pure (f.map (fun kc => (kc.1, { kc.2 with data := pick kc.2.data keep })))

def sInt : Str := [105, 110, 116]
def sFloat64 : Str := [102, 108, 111, 97, 116, 54, 52]
def sString : Str := [115, 116, 114, 105, 110, 103]

/-- Go `int(x)` for a float64: truncation toward zero (finite values in range). -/
def truncToInt (q : Rat) : Int := Int.tdiv q.num q.den

/-- One cell of `Astype`. -/
def convCell (ω : Oracle) (target : Str) (c : Cell) : Outcome Cell :=
  if target = sInt then
    match c with
    | .flt false (.fin q) => .ok (.int .int (truncToInt q))
    | .flt false .nzero => .ok (.int .int 0)
    | .flt false _ => .ok (.int .int (-(2 ^ 63)))      -- amd64 result for NaN/±Inf; never generated
    | _ => .err "cannot convert to int"
  else if target = sFloat64 then
    match c with
    | .int .int v => .ok (.flt false (.fin v))
    | _ => .err "cannot convert to float64"
  else if target = sString then .ok (.str (ω.fmtV c))
  else .err "unsupported target type"

def convAll (g : Cell → Outcome Cell) : List Cell → Outcome (List Cell)
  | [] => .ok []
  | c :: cs => do
    let c' ← g c
    let cs' ← convAll g cs
    pure (c' :: cs')

/-- `Astype(column, target)`: the target name is validated first, every cell is converted into a
new slice, the column is replaced only after the loop. -/
def astype (ω : Oracle) (f : Frame) (k : Str) (target : Str) : Outcome Frame :=
  match f.get? k with
  | none => .err "column does not exist"
  | some c =>
    if target ≠ sInt ∧ target ≠ sFloat64 ∧ target ≠ sString then .err "unsupported target type"
    else do
      let d ← convAll (convCell ω target) c.data
      pure (f.set k { c with data := d })

/-- `AddDatetimeIndex(column, layout)`. -/
def addDatetimeIndex (ω : Oracle) (f : Frame) (k : Str) (layout : Str) : Outcome Frame :=
  match f.get? k with
  | none => .err "column does not exist"
  | some c => do
    let d ← convAll (fun v => match v with
      | .str s => match ω.timeParse layout s with
        | some t => .ok (.time t)
        | none => .err "error parsing datetime"
      | _ => .err "value is not a string") c.data
    pure (f.set k { c with data := d })

/-! ### DropDuplicates -/

/-- One cell of the row key: `name ':' %T ':' len(%v) ':' %v '|'`. -/
def cellKey (ω : Oracle) (name : Str) (c : Cell) : Str :=
  let t := ω.fmtV c
  name ++ [58] ++ c.typeName ++ [58] ++ natStr t.length ++ [58] ++ t ++ [124]

/-- `getRowKey(i, cols)`. -/
def rowKey (ω : Oracle) (f : Frame) (i : Nat) : List Str → Outcome Str
  | [] => .ok []
  | k :: ks =>
    match f.get? k with
    | none => .err "column not found"
    | some c =>
      match c.data[i]? with
      | none => .panic "index out of range"
      | some v => do
        let rest ← rowKey ω f i ks
        pure (cellKey ω k v ++ rest)

def rowKeys (ω : Oracle) (f : Frame) (cols : List Str) : Nat → Nat → Outcome (List Str)
  | _, 0 => .ok []
  | i, cnt + 1 => do
    let k ← rowKey ω f i cols
    let rest ← rowKeys ω f cols (i + 1) cnt
    pure (k :: rest)

inductive Keep | first | last | none
  deriving DecidableEq, Repr

def parseKeep (s : Str) : Option Keep :=
  if s = [] ∨ s = [102, 105, 114, 115, 116] then some .first
  else if s = [108, 97, 115, 116] then some .last
  else if s = [110, 111, 110, 101] then some .none
  else Option.none

/-- Indexes kept, given the row keys in row order. -/
def keepIdx (keep : Keep) (keys : List Str) : List Nat :=
  (List.range keys.length).filter (fun i =>
    let k := keys.getD i []
    match keep with
    | .first => !(keys.take i).contains k
    | .last => !(keys.drop (i + 1)).contains k
    | .none => keys.count k == 1)

structure DedupOpts where
  subset : List Str
  keep : Str
  inplace : Bool

/-- `DropDuplicates(opts)`: returns `(receiver', result)`. `Keep` and the subset are validated before
anything is touched. -/
def dropDuplicates (ω : Oracle) (f : Frame) (o : DedupOpts) : Outcome (Frame × Frame) :=
  let cols := if o.subset.isEmpty then f.keys else o.subset
  match parseKeep o.keep with
  | Option.none => .err "invalid Keep option"
  | some keep =>
    if cols.any (fun c => !f.has c) then .err "column not found"
    else do
      let keys ← rowKeys ω f cols 0 f.nrows
      let idx := keepIdx keep keys
      let out : Frame := f.map (fun kc => (kc.1, { name := kc.1, data := pick kc.2.data idx }))
      if o.inplace then
        let f' : Frame := f.map (fun kc => (kc.1, { kc.2 with data := pick kc.2.data idx }))
        pure (f', f')
      else pure (f, out)

end Frame
end Goframe
