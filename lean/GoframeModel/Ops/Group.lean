import GoframeModel.Ops.Join
import GoframeModel.Core.Float
/-
  dataframe/groupby.go: `Groupby` on one column (group map keyed by the raw cell) or on a list of
  columns (keyed by the `%v` texts joined with `|` — not injective: recorded finding K1), and the
  grouped `Sum` / `Mean` / `Count`.
-/
namespace Goframe

/-- `Groups` and `KeyOrder` of a `GroupedDataFrame`. `groups` is the Go map as an association list in
insertion order, looked up with Go `==`. -/
structure Grouped where
  groups : List (Cell × List Row)
  keyOrder : List Cell
  key : Str
  /-- grouped by ONE column (`Key` is its name) rather than by a list of columns (`Key` is "") -/
  single : Bool := true
  deriving Repr, DecidableEq

namespace Grouped

def lookup (gs : List (Cell × List Row)) (k : Cell) : Option (List Row) :=
  (gs.find? (fun g => g.1.goEq k)).map (·.2)

/-- `groups[k] = append(groups[k], row)` -/
def push : List (Cell × List Row) → Cell → Row → List (Cell × List Row)
  | [], k, r => [(k, [r])]
  | (k', rs) :: rest, k, r =>
    if k'.goEq k then (k', rs ++ [r]) :: rest else (k', rs) :: push rest k r

def step (g : Grouped) (k : Cell) (r : Row) : Grouped :=
  { g with
    keyOrder := if (lookup g.groups k).isSome then g.keyOrder else g.keyOrder ++ [k]
    groups := push g.groups k r }

end Grouped

def sBar : Str := [124]

def joinBar : List Str → Str
  | [] => []
  | [s] => s
  | s :: rest => s ++ sBar ++ joinBar rest

namespace Frame

/-- `Groupby(key string)` -/
def groupByString (f : Frame) (k : Str) : Outcome Grouped :=
  if !f.has k then .err "column does not exist"
  else .ok ((allRows f).foldl (fun g r => g.step (Row.getD r k) r) { groups := [], keyOrder := [], key := k })

/-- the composite key of `groupByList`: `%v` of each key cell joined by `|` -/
def listKey (ω : Oracle) (ks : List Str) (r : Row) : Cell :=
  .str (joinBar (ks.map (fun k => ω.fmtV (Row.getD r k))))

/-- `Groupby(keys []string)` -/
def groupByList (ω : Oracle) (f : Frame) (ks : List Str) : Outcome Grouped :=
  if ks.any (fun k => !f.has k) then .err "column does not exist"
  else .ok ((allRows f).foldl (fun g r => g.step (listKey ω ks r) r) { groups := [], keyOrder := [], key := [], single := false })

end Frame

/-- cells `sumColumn` / `averageColumn` count as numeric: every integer and float width -/
def numOf : Cell → Option FVal
  | .int _ v => some (intToF v)
  | .flt _ v => some v
  | _ => none

/-- the pinned table (only `int`, `float64`, `float32`) — kept to state the D6 witness -/
def numOfPinned : Cell → Option FVal
  | .int .int v => some (intToF v)
  | .flt _ v => some v
  | _ => none

def sumColumn (rows : List Row) (c : Str) : FVal :=
  FVal.sum (rows.filterMap (fun r => numOf (Row.getD r c)))

def averageColumn (rows : List Row) (c : Str) : FVal :=
  let xs := rows.filterMap (fun r => numOf (Row.getD r c))
  if xs.isEmpty then .fin 0 else (FVal.sum xs).divNat xs.length

def sGroupKey : Str := [71, 114, 111, 117, 112, 75, 101, 121]

namespace Grouped

/-- `GetAllColumnNames()`: every name occurring in any row of any group, except the key column. -/
def allColumnNames (g : Grouped) : List Str :=
  let names := g.groups.flatMap (fun kr => kr.2.flatMap (fun r => r.map (·.1)))
  (names.filter (fun n => !(g.single && n == g.key))).eraseDups

/-- Assemble the result frame: `GroupKey`, then one column per requested name; a repeated name (or a
column called `GroupKey`) makes `AddTypedColumn` fail. -/
def assemble (keys : List Cell) : Frame → List (Str × List Cell) → Outcome Frame
  | acc, [] => .ok acc
  | acc, (n, d) :: rest =>
    if acc.has n then .err "column already exists"
    else assemble keys (acc.set n { name := n, data := d }) rest

def aggWith (g : Grouped) (cols : List Str) (cell : List Row → Str → Cell) : Outcome Frame :=
  let rowsOf := g.keyOrder.map (fun k => (lookup g.groups k).getD [])
  assemble g.keyOrder [(sGroupKey, { name := sGroupKey, data := g.keyOrder })]
    (cols.map (fun c => (c, rowsOf.map (fun rs => cell rs c))))

def sum (g : Grouped) (cols : List Str) : Outcome Frame :=
  aggWith g (if cols.isEmpty then g.allColumnNames else cols) (fun rs c => .flt false (sumColumn rs c))

def mean (g : Grouped) (cols : List Str) : Outcome Frame :=
  aggWith g (if cols.isEmpty then g.allColumnNames else cols) (fun rs c => .flt false (averageColumn rs c))

def count (g : Grouped) (cols : List Str) : Outcome Frame :=
  aggWith g cols (fun rs _ => .int .int rs.length)

end Grouped
end Goframe
