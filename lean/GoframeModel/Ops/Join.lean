import GoframeModel.Ops.Select
/-
  dataframe/joins.go: the four joins as written — nested loops over `Row(i)`, `mergeRows` (left
  value wins), `AppendRow` into the pre-created union of columns.
-/
namespace Goframe
namespace Frame

/-- `mergeRows(a, b)`: all of `a`, plus the entries of `b` whose key `a` lacks. -/
def mergeRows (a b : Row) : Row :=
  b.foldl (fun m kv => if Row.has m kv.1 then m else Row.set m kv.1 kv.2) a

/-- `appendCols`: the union of both frames' column names, each with an empty column. -/
def unionEmpty (l r : Frame) : Frame :=
  r.foldl (fun acc kc => if acc.has kc.1 then acc else acc.set kc.1 { name := kc.1, data := [] }) (emptyLike l)

def checkExists (l r : Frame) (k : Str) : Outcome Unit :=
  if !l.has k then .err "key column does not exist in the first DataFrame"
  else if !r.has k then .err "key column does not exist in the second DataFrame"
  else .ok ()

/-- inner loop of Inner/Left/Outer: append `merge a b` for each row `b` of `rs` whose key equals `a`'s. -/
def matchInto (k : Str) (a : Row) : Frame → List Row → Frame × Bool
  | acc, [] => (acc, false)
  | acc, b :: bs =>
    if (Row.getD a k).goEq (Row.getD b k) then
      let (acc', _) := matchInto k a (appendRow acc (mergeRows a b)) bs
      (acc', true)
    else matchInto k a acc bs

def allRows (f : Frame) : List Row := (List.range f.nrows).map f.rowMap

def innerLoop (k : Str) (rs : List Row) : Frame → List Row → Frame
  | acc, [] => acc
  | acc, a :: as => innerLoop k rs (matchInto k a acc rs).1 as

def innerJoin (l r : Frame) (k : Str) : Outcome Frame := do
  checkExists l r k
  pure (innerLoop k (allRows r) (unionEmpty l r) (allRows l))

def leftLoop (k : Str) (rs : List Row) : Frame → List Row → Frame
  | acc, [] => acc
  | acc, a :: as =>
    let (acc', m) := matchInto k a acc rs
    leftLoop k rs (if m then acc' else appendRow acc' a) as

def leftJoin (l r : Frame) (k : Str) : Outcome Frame := do
  checkExists l r k
  pure (leftLoop k (allRows r) (unionEmpty l r) (allRows l))

/-- inner loop of RightJoin: for the right row `b`, scan left rows; merged row is still `merge a b`. -/
def matchIntoR (k : Str) (b : Row) : Frame → List Row → Frame × Bool
  | acc, [] => (acc, false)
  | acc, a :: as =>
    if (Row.getD b k).goEq (Row.getD a k) then
      let (acc', _) := matchIntoR k b (appendRow acc (mergeRows a b)) as
      (acc', true)
    else matchIntoR k b acc as

def rightLoop (k : Str) (ls : List Row) : Frame → List Row → Frame
  | acc, [] => acc
  | acc, b :: bs =>
    let (acc', m) := matchIntoR k b acc ls
    rightLoop k ls (if m then acc' else appendRow acc' b) bs

def rightJoin (l r : Frame) (k : Str) : Outcome Frame := do
  checkExists l r k
  pure (rightLoop k (allRows l) (unionEmpty l r) (allRows r))

/-- first phase of OuterJoin: as LeftJoin, also collecting the matched left keys -/
def outerLoop (k : Str) (rs : List Row) : Frame → List Cell → List Row → Frame × List Cell
  | acc, seen, [] => (acc, seen)
  | acc, seen, a :: as =>
    let (acc', m) := matchInto k a acc rs
    if m then outerLoop k rs acc' (Row.getD a k :: seen) as
    else outerLoop k rs (appendRow acc' a) seen as

def outerTail (k : Str) (seen : List Cell) : Frame → List Row → Frame
  | acc, [] => acc
  | acc, b :: bs =>
    if seen.any (fun s => s.goEq (Row.getD b k)) then outerTail k seen acc bs
    else outerTail k seen (appendRow acc b) bs

def outerJoin (l r : Frame) (k : Str) : Outcome Frame := do
  checkExists l r k
  let (acc, seen) := outerLoop k (allRows r) (unionEmpty l r) [] (allRows l)
  pure (outerTail k seen acc (allRows r))

end Frame
end Goframe
