import GoframeModel.Std.SqlLex
import GoframeModel.Ops.Select
/-
  dataframe/sql_write.go and the parts of dataframe/sql_dialect.go it uses: option validation and
  defaults, dialect resolution, the plan of driver calls of one export (existence query, optional DROP,
  optional CREATE, INSERT batches), the transaction protocol of `ToSQLContext`, and an abstract
  transactional database that gives the recorded statements their meaning.
-/
namespace Goframe
namespace Sql

structure WriteOpts where
  given : Bool                    -- was an options struct passed at all
  ifExists : Str
  dialect : Str
  batchSize : Int
  typeMap : List (Str × Str)      -- column ↦ SQL type text (user-supplied, opaque)
  deriving Repr

def lower (s : Str) : Str := s.map (fun b => if 65 ≤ b ∧ b ≤ 90 then b + 32 else b)

def resolveDialect (s : Str) : Option Dialect :=
  let l := lower s
  if l = [115, 113, 108, 105, 116, 101] ∨ l = [115, 113, 108, 105, 116, 101, 51] then some .sqlite          -- sqlite, sqlite3
  else if l = [112, 111, 115, 116, 103, 114, 101, 115] ∨ l = [112, 111, 115, 116, 103, 114, 101, 115, 113, 108]
       ∨ l = [112, 113] then some .postgres                                                                    -- postgres, postgresql, pq
  else if l = [109, 121, 115, 113, 108] then some .mysql                                                      -- mysql
  else none

def sFail : Str := [102, 97, 105, 108]
def sReplace : Str := [114, 101, 112, 108, 97, 99, 101]
def sAppend : Str := [97, 112, 112, 101, 110, 100]

inductive IfExists | fail | replace | append
  deriving DecidableEq, Repr

structure Resolved where
  mode : IfExists
  dialect : Dialect
  batch : Nat
  typeMap : List (Str × Str)
  deriving Repr

/-- validation of the user's options, then defaults (`fail`, 1000), then dialect resolution -/
def resolve (o : WriteOpts) : Outcome Resolved :=
  if o.given ∧ o.ifExists ≠ [] ∧ o.ifExists ≠ sFail ∧ o.ifExists ≠ sReplace ∧ o.ifExists ≠ sAppend then
    .err "invalid IfExists option"
  else if o.given ∧ o.batchSize < 0 then .err "BatchSize must be greater than 0"
  else if o.given ∧ o.dialect ≠ [] ∧ (resolveDialect o.dialect).isNone then .err "unknown dialect"
  else
    let mode := if o.given ∧ o.ifExists = sReplace then IfExists.replace
                else if o.given ∧ o.ifExists = sAppend then .append else .fail
    let batch : Nat := if o.given ∧ o.batchSize > 0 then o.batchSize.toNat else 1000
    match (if o.given then resolveDialect o.dialect else none) with
    | none => .err "no sql dialect provided"
    | some d => .ok { mode := mode, dialect := d, batch := batch, typeMap := if o.given then o.typeMap else [] }

/-- `GoTypeToSQLType` on the first non-nil cell's Go type (`TEXT` for an all-nil column) -/
def sqlTypeOf (d : Dialect) : Cell → Str
  | .nil => [84, 69, 88, 84]
  | .str _ => [84, 69, 88, 84]
  | .bool _ => (match d with | .sqlite => [73, 78, 84, 69, 71, 69, 82] | .postgres => [66, 79, 79, 76, 69, 65, 78] | .mysql => [84, 73, 78, 89, 73, 78, 84, 40, 49, 41])
  | .time _ => (match d with | .mysql => [68, 65, 84, 69, 84, 73, 77, 69] | _ => [84, 73, 77, 69, 83, 84, 65, 77, 80])
  | .flt true _ => (match d with | .sqlite => [82, 69, 65, 76] | .postgres => [82, 69, 65, 76] | .mysql => [70, 76, 79, 65, 84])
  | .flt false _ => (match d with | .sqlite => [82, 69, 65, 76] | .postgres => [68, 79, 85, 66, 76, 69, 32, 80, 82, 69, 67, 73, 83, 73, 79, 78] | .mysql => [68, 79, 85, 66, 76, 69])
  | .int ty _ =>
    match d with
    | .sqlite => [73, 78, 84, 69, 71, 69, 82]
    | .postgres =>
      (match ty with
       | .int | .int8 | .int16 | .int32 | .uint8 | .uint16 => [73, 78, 84, 69, 71, 69, 82]
       | _ => [66, 73, 71, 73, 78, 84])
    | .mysql =>
      (match ty with
       | .uint8 | .uint16 => [73, 78, 84]
       | _ => [66, 73, 71, 73, 78, 84])

def firstNonNil : List Cell → Cell
  | [] => .nil
  | .nil :: rest => firstNonNil rest
  | c :: _ => c

def columnType (d : Dialect) (typeMap : List (Str × Str)) (k : Str) (data : List Cell) : Str :=
  match typeMap.find? (fun kv => kv.1 == k) with
  | some kv => kv.2
  | none => sqlTypeOf d (firstNonNil data)

/-- `convertGoTypeToSQLNullable` followed by database/sql's `Valuer` unwrapping: what reaches the driver -/
def bound : Cell → Cell
  | .nil => .nil
  | .int _ v => .int .int64 v
  | .flt _ v => .flt false v
  | c => c

def existsQuery (d : Dialect) : Str :=
  match d with
  | .sqlite => [83, 69, 76, 69, 67, 84, 32, 110, 97, 109, 101, 32, 70, 82, 79, 77, 32, 115, 113, 108, 105, 116, 101, 95, 109, 97, 115, 116, 101, 114, 32, 87, 72, 69, 82, 69, 32, 116, 121, 112, 101, 61, 39, 116, 97, 98, 108, 101, 39, 32, 65, 78, 68, 32, 110, 97, 109, 101, 61, 63]
  | .postgres => [83, 69, 76, 69, 67, 84, 32, 116, 97, 98, 108, 101, 110, 97, 109, 101, 32, 70, 82, 79, 77, 32, 112, 103, 95, 116, 97, 98, 108, 101, 115, 32, 87, 72, 69, 82, 69, 32, 115, 99, 104, 101, 109, 97, 110, 97, 109, 101, 61, 39, 112, 117, 98, 108, 105, 99, 39, 32, 65, 78, 68, 32, 116, 97, 98, 108, 101, 110, 97, 109, 101, 61, 36, 49]
  | .mysql => [83, 69, 76, 69, 67, 84, 32, 116, 97, 98, 108, 101, 95, 110, 97, 109, 101, 32, 70, 82, 79, 77, 32, 105, 110, 102, 111, 114, 109, 97, 116, 105, 111, 110, 95, 115, 99, 104, 101, 109, 97, 46, 116, 97, 98, 108, 101, 115, 32, 87, 72, 69, 82, 69, 32, 116, 97, 98, 108, 101, 95, 115, 99, 104, 101, 109, 97, 61, 68, 65, 84, 65, 66, 65, 83, 69, 40, 41, 32, 65, 78, 68, 32, 116, 97, 98, 108, 101, 95, 110, 97, 109, 101, 61, 63]

/-- a call reaching the database/sql driver -/
inductive Call
  | begin
  | query (text : Str) (args : List Cell)
  | exec (stmt : Stmt) (args : List Cell)
  | commit
  | rollback
  deriving DecidableEq, Repr

/-- batch boundaries: `for start := 0; start < n; start += b { end := min(start+b, n) }` -/
def batches (b : Nat) (n : Nat) : List (Nat × Nat) :=
  if b = 0 then []
  else (List.range ((n + b - 1) / b)).map (fun i => (i * b, min (i * b + b) n))

/-- the INSERT call for rows `[lo, hi)`: row-major bound values -/
def insertCall (f : Frame) (table : Str) (lo hi : Nat) : Call :=
  .exec (.insert table f.keys (hi - lo))
    ((List.range (hi - lo)).flatMap (fun i => f.map (fun kc => bound (kc.2.data.getD (lo + i) .nil))))

/-- the calls of `ToSQLTxContext` after the existence query answered `ex`, when no call fails;
`false` as second component = the function returns an error after these calls -/
def bodyAfterQuery (f : Frame) (table : Str) (r : Resolved) (ex : Bool) : List Call × Bool :=
  if ex ∧ r.mode = .fail then ([], false)
  else
    let dropC : List Call := if ex ∧ r.mode = .replace then [.exec (.drop table) []] else []
    let exists' := ex ∧ r.mode = .append
    let createC : List Call := if exists' then [] else
      [.exec (.create table (f.map (fun kc => (kc.1, columnType r.dialect r.typeMap kc.1 kc.2.data)))) []]
    let inserts : List Call := if f.nrows = 0 then [] else
      (batches r.batch f.nrows).map (fun (lo, hi) => insertCall f table lo hi)
    (dropC ++ createC ++ inserts, true)

/-- all driver calls of the body (existence query first) in the absence of driver faults -/
def bodyPlan (f : Frame) (table : Str) (o : WriteOpts) (ex : Bool) : Outcome (List Call × Bool) :=
  (resolve o).bind (fun r =>
    let (cs, good) := bodyAfterQuery f table r ex
    .ok (.query (existsQuery r.dialect) [.str table] :: cs, good))

/-- issue calls in order; the call with index `failAt` fails and ends the body with an error -/
def runCalls (calls : List Call) (failAt : Option Nat) (start : Nat) : List (Call × Bool) × Bool :=
  match calls with
  | [] => ([], true)
  | c :: rest =>
    if failAt = some start then ([(c, false)], false)
    else
      let (tr, good) := runCalls rest failAt (start + 1)
      ((c, true) :: tr, good)

/-- `ToSQLTxContext` on the caller's transaction: trace of (call, succeeded) and whether it returns nil.
Call indexes for fault injection start at `start`. -/
def runBody (f : Frame) (table : Str) (o : WriteOpts) (ex : Bool) (failAt : Option Nat) (start : Nat) :
    List (Call × Bool) × Bool :=
  match bodyPlan f table o ex with
  | .ok (calls, good) =>
    let (tr, ok) := runCalls calls failAt start
    (tr, ok && good)
  | _ => ([], false)

/-- `ToSQLContext`: Begin, deferred Rollback, body, Commit. After `Commit` has been called the
transaction is finished for database/sql whether or not the driver's commit succeeded, so the deferred
Rollback reaches the driver only when Commit was never attempted. -/
def runTx (f : Frame) (table : Str) (o : WriteOpts) (ex : Bool) (failAt : Option Nat) :
    List (Call × Bool) × Bool :=
  if failAt = some 0 then ([(.begin, false)], false)
  else
    let (tr, ok) := runBody f table o ex failAt 1
    if ok then
      let ci := 1 + tr.length
      if failAt = some ci then ((.begin, true) :: tr ++ [(.commit, false)], false)
      else ((.begin, true) :: tr ++ [(.commit, true)], true)
    else ((.begin, true) :: tr ++ [(.rollback, decide (failAt ≠ some (1 + tr.length)))], false)

/-! ### abstract transactional database -/

structure Table where
  cols : List (Str × List Tok)          -- column name, type tokens
  rows : List (List (Str × Cell))       -- each row: column ↦ value (absent = NULL)
  deriving DecidableEq, Repr

abbrev DB := List (Str × Table)

def DB.get? (db : DB) (t : Str) : Option Table := (db.find? (fun kv => kv.1 == t)).map (·.2)

def chunk (k : Nat) : Nat → List Cell → List (List Cell)
  | 0, _ => []
  | fuel + 1, xs => if xs = [] ∨ k = 0 then [] else xs.take k :: chunk k fuel (xs.drop k)

/-- meaning of a parsed statement with its bound values; `none` = the database rejects it -/
def execP (db : DB) (s : PStmt) (args : List Cell) : Option DB :=
  match s with
  | .drop t => if (db.get? t).isSome then some (db.filter (fun kv => kv.1 != t)) else none
  | .create t cols => if (db.get? t).isSome then none else some (db ++ [(t, { cols := cols, rows := [] })])
  | .insert t cols rows =>
    match db.get? t with
    | none => none
    | some tb =>
      if cols.any (fun c => !(tb.cols.any (fun tc => tc.1 == c))) then none
      else if rows.any (fun r => r.length != cols.length) then none
      else if args.length != rows.length * cols.length then none
      else
        let newRows := (chunk cols.length (args.length + 1) args).map (fun vals => cols.zip vals)
        some (db.map (fun kv => if kv.1 == t then (kv.1, { kv.2 with rows := kv.2.rows ++ newRows }) else kv))

end Sql
end Goframe
