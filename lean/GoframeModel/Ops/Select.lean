import GoframeModel.Core.Oracle
/-
  Row access, row/column selection and the structural in-place editors, path by path as in
  dataframe/dataframe.go and dataframe/indexing.go (after the repairs recorded in known_findings.json).
-/
namespace Goframe

/-- Go's 64-bit `int` arithmetic result for the mathematical integer `i`. -/
def wrap64 (i : Int) : Int := (i + 2 ^ 63) % 2 ^ 64 - 2 ^ 63

def inInt64 (i : Int) : Prop := -(2 ^ 63) ≤ i ∧ i < 2 ^ 63

theorem wrap64_id {i : Int} (h : inInt64 i) : wrap64 i = i := by
  unfold wrap64; unfold inInt64 at h; omega

namespace Frame

/-- `Row(index)`: bounds check against `Nrows()`, then `At(index)` on every column (which itself
fails on a column that is too short). -/
def rowAtAux : Frame → Nat → Outcome Row
  | [], _ => .ok []
  | (k, c) :: rest, i =>
    match c.data[i]? with
    | none => .err "error accessing column"
    | some v => do
      let r ← rowAtAux rest i
      pure ((k, v) :: r)

def rowAt (f : Frame) (i : Int) : Outcome Row :=
  if i < 0 ∨ i ≥ f.nrows then .err "index out of bounds" else rowAtAux f i.toNat

/-- `AppendRow(result, row)`: columns named in the row and absent from the frame are created with one
`nil` per existing row; then every column receives the row's cell, or `nil` when the row has none. -/
def addMissing (f : Frame) (n : Nat) : Row → Frame
  | [] => f
  | (k, _) :: rest =>
    addMissing (if f.has k then f else f.set k { name := k, data := List.replicate n .nil }) n rest

def appendRow (f : Frame) (r : Row) : Frame :=
  (addMissing f f.nrows r).map (fun kc => (kc.1, { kc.2 with data := kc.2.data ++ [r.getD kc.1] }))

/-- Append rows `i = a, a+1, …` (`cnt` of them) of `src` to `acc`; a row that cannot be read is skipped. -/
def appendRowsFrom (src : Frame) : Frame → Nat → Nat → Frame
  | acc, _, 0 => acc
  | acc, a, cnt + 1 =>
    match rowAt src a with
    | .ok r => appendRowsFrom src (appendRow acc r) (a + 1) cnt
    | _ => appendRowsFrom src acc (a + 1) cnt

/-- `RowSlice(start, end)`. -/
def rowSlice (f : Frame) (a b : Int) : Frame :=
  let a := if a < 0 then 0 else a
  let b := if b > f.nrows then (f.nrows : Int) else b
  if a ≥ b then emptyLike f else appendRowsFrom f (emptyLike f) a.toNat (b - a).toNat

/-- `Filter(cond)`: the predicate is called once per readable row, in order, with the call number and
the full row map; accepted rows are appended cell by cell to the column of the same name. -/
def filterAux (src : Frame) (p : Nat → Row → Bool) : Frame → Nat → Nat → Nat → Frame
  | acc, _, _, 0 => acc
  | acc, i, calls, cnt + 1 =>
    match rowAt src i with
    | .ok r =>
      let acc' := if p calls r then
          acc.map (fun kc => (kc.1, { kc.2 with data := kc.2.data ++ [r.getD kc.1] }))
        else acc
      filterAux src p acc' (i + 1) (calls + 1) cnt
    | _ => filterAux src p acc (i + 1) calls cnt

def filter (f : Frame) (p : Nat → Row → Bool) : Frame :=
  filterAux f p (emptyLike f) 0 0 f.nrows

/-- The rows `Filter` passes to the predicate, in call order. -/
def filterLogAux (src : Frame) : Nat → Nat → List Row
  | _, 0 => []
  | i, cnt + 1 =>
    match rowAt src i with
    | .ok r => r :: filterLogAux src (i + 1) cnt
    | _ => filterLogAux src (i + 1) cnt

def filterLog (f : Frame) : List Row := filterLogAux f 0 f.nrows

/-- Checked `s[:n]` / `s[k:]`. Go permits `n ≤ cap(s)`; the model is stricter (`n ≤ len(s)`), the two
coincide on rectangular frames, the only ones on which properties are stated. -/
def sliceTo (d : List Cell) (n : Int) : Outcome (List Cell) :=
  if n < 0 ∨ n > d.length then .panic "slice bounds out of range" else .ok (d.take n.toNat)

def sliceFrom (d : List Cell) (k : Int) : Outcome (List Cell) :=
  if k < 0 ∨ k > d.length then .panic "slice bounds out of range" else .ok (d.drop k.toNat)

def mapColsM (g : List Cell → Outcome (List Cell)) : Frame → Outcome Frame
  | [] => .ok []
  | (k, c) :: rest => do
    let d ← g c.data
    let r ← mapColsM g rest
    pure ((k, { name := k, data := d }) :: r)

/-- `Head(n)`: `n` clamped to `[0, Nrows()]`, every column copied up to `n`. -/
def head (f : Frame) (n : Int) : Outcome Frame :=
  let n := if n > f.nrows then (f.nrows : Int) else n
  let n := if n < 0 then 0 else n
  mapColsM (fun d => sliceTo d n) f

/-- `Tail(n)`. The subtraction is Go's 64-bit one. -/
def tail (f : Frame) (n : Int) : Outcome Frame :=
  let total : Int := f.nrows
  let n := if n > total then total else n
  let n := if n < 0 then 0 else n
  mapColsM (fun d => sliceFrom d (wrap64 (total - n))) f

/-- The pinned (unrepaired) `Head`: no lower clamp. Kept to state the D14 witness. -/
def headPinned (f : Frame) (n : Int) : Outcome Frame :=
  let n := if n > f.nrows then (f.nrows : Int) else n
  mapColsM (fun d => sliceTo d n) f

/-- `DropRow(i)`: `append(col.Data[:i], col.Data[i+1:]...)` on every column. -/
def dropRow (f : Frame) (i : Int) : Outcome Frame :=
  if i < 0 ∨ i ≥ f.nrows then .err "index out of bounds"
  else
    let rec go : Frame → Outcome Frame
      | [] => .ok []
      | (k, c) :: rest =>
        if i.toNat + 1 > c.data.length then .panic "slice bounds out of range"
        else do
          let r ← go rest
          pure ((k, { c with data := c.data.eraseIdx i.toNat }) :: r)
    go f

def renameColumn (f : Frame) (old new : Str) : Outcome Frame :=
  match f.get? old with
  | none => .err "column does not exist"
  | some c => if f.has new then .err "column already exists"
    else .ok ((f.erase old).set new { c with name := new })

/-- `AddColumn(col)`: keyed by the column's own name. (No length check: see `OpOk` in C01.) -/
def addColumn (f : Frame) (c : Col) : Outcome Frame :=
  if f.has c.name then .err "column already exists" else .ok (f.set c.name c)

def dropColumn (f : Frame) (k : Str) : Outcome Frame :=
  if f.has k then .ok (f.erase k) else .err "column does not exist"

/-- `MultiSelect(names...)`: copies each named column; a repeated name is ignored the second time
(`AddTypedColumn`'s error is discarded). -/
def multiSelectAux (f : Frame) : Frame → List Str → Outcome Frame
  | acc, [] => .ok acc
  | acc, k :: ks =>
    match f.get? k with
    | none => .err "column does not exist"
    | some c => multiSelectAux f (if acc.has c.name then acc else acc.set c.name c) ks

def multiSelect (f : Frame) (ks : List Str) : Outcome Frame :=
  if ks.isEmpty then .err "please enter 1 or more column name(s)" else multiSelectAux f [] ks

def sIndex : Str := [105, 110, 100, 101, 120]    -- "index"

/-- result columns of Loc/Iloc: one empty column per requested label (a repeat overwrites) -/
def emptyCols : Frame → List Str → Frame
  | acc, [] => acc
  | acc, k :: ks => emptyCols (acc.set k { name := k, data := [] }) ks

/-- Append to every column of `acc` the cell of `r` of the same name. -/
def pushRow (acc : Frame) (r : Row) : Frame :=
  acc.map (fun kc => (kc.1, { kc.2 with data := kc.2.data ++ [r.getD kc.1] }))

def locRow (acc : Frame) (r : Row) (lab : Cell) : List Cell → Frame
  | [] => acc
  | l :: ls => locRow (if lab.goEq l then pushRow acc r else acc) r lab ls

def locAux (f : Frame) (idx : List Cell) (labels : List Cell) : Frame → Nat → Nat → Frame
  | acc, _, 0 => acc
  | acc, i, cnt + 1 =>
    let r := f.rowMap i
    locAux f idx labels (locRow acc r (idx.getD i .nil) labels) (i + 1) cnt

/-- `Loc(rowLabels, colLabels)`. -/
def loc (f : Frame) (labels : List Cell) (cols : List Str) : Outcome Frame :=
  if cols.any (fun c => !f.has c) then .err "column does not exist"
  else match f.get? sIndex with
    | none => .err "'index' column does not exist"
    | some ic =>
      if f.nrows > ic.data.length then .panic "index out of range"
      else .ok (locAux f ic.data labels (emptyCols [] cols) 0 f.nrows)

def ilocRows (f : Frame) : Frame → List Int → Outcome Frame
  | acc, [] => .ok acc
  | acc, i :: is =>
    if i < 0 ∨ i ≥ f.nrows then .err "row index out of bounds"
    else ilocRows f (pushRow acc (f.rowMap i.toNat)) is

/-- `Iloc(rowIndices, colIndices)`: column positions refer to the sorted column names. -/
def iloc (f : Frame) (ris cis : List Int) : Outcome Frame :=
  let names := f.keys
  if cis.any (fun c => decide (c < 0 ∨ c ≥ names.length)) then .err "column index out of bounds"
  else ilocRows f (emptyCols [] (cis.map (fun c => names.getD c.toNat []))) ris

/-- `Shift(periods)`: row `i` receives the source's row `i - periods` (64-bit subtraction). -/
def shiftCol (d : List Cell) (p : Int) : List Cell :=
  (List.range d.length).map (fun (i : Nat) =>
    let j := wrap64 ((i : Int) - p)
    if 0 ≤ j ∧ j < d.length then d.getD j.toNat .nil else .nil)

def shift (f : Frame) (p : Int) : Frame :=
  f.map (fun kc => (kc.1, { name := kc.1, data := shiftCol kc.2.data p }))

/-- the cells at the listed positions, in that order -/
def pick (d : List Cell) (idx : List Nat) : List Cell := idx.map (fun i => d.getD i .nil)

/-- `ColumnNames()`. -/
def columnNames (f : Frame) : List Str := f.keys

/-- Direct cell assignment `df.Columns[k].Data[i] = v` (used by the C02 histories). -/
def setCell (f : Frame) (k : Str) (i : Int) (v : Cell) : Outcome Frame :=
  match f.get? k with
  | none => .panic "nil map entry"
  | some c =>
    if i < 0 ∨ i ≥ c.data.length then .panic "index out of range"
    else .ok (f.set k { c with data := c.data.set i.toNat v })

end Frame
end Goframe
