import GoframeModel.Core.Oracle
/-
  `encoding/csv` with its default configuration (comma, no comment character, strict quotes, field
  count fixed by the first record), modelled rather than assumed because C09/C10 need theorems
  *through* it. Fidelity to the real package is measured by the correspondence run (csv engine, which
  also feeds malformed bytes).

  Reader = `normalise` (what `readLine` does to line ends) followed by a five-state byte machine.
  Writer = `Writer.Write` with `UseCRLF = false`.
-/
namespace Goframe
namespace Csv

def cComma : UInt8 := 44
def cQuote : UInt8 := 34
def cLF : UInt8 := 10
def cCR : UInt8 := 13

/-- `readLine`: every `\n` swallows one directly preceding `\r`; a `\r` that is the very last byte of
the input is dropped. -/
def normalise : List UInt8 → List UInt8
  | [] => []
  | [b] => if b = cCR then [] else [b]
  | a :: b :: rest =>
    if a = cCR ∧ b = cLF then cLF :: normalise rest else a :: normalise (b :: rest)

inductive St | recStart | fieldStart | unq | quoted | qseen
  deriving DecidableEq, Repr

inductive CsvErr | bareQuote | quote | fieldCount
  deriving DecidableEq, Repr

/-- result of the reader (an `Except` with decidable equality) -/
inductive Res (α : Type) where
  | ok (a : α)
  | error (e : CsvErr)
  deriving DecidableEq, Repr

/-- The byte machine. `cur` is the current field reversed, `fs` the fields of the current record
reversed, `rs` the finished records reversed. -/
def machine : St → List UInt8 → List Str → List (List Str) → List UInt8 → Res (List (List Str))
  -- end of input
  | .recStart, _, _, rs, [] => .ok rs.reverse
  | .fieldStart, _, fs, rs, [] => .ok (([] :: fs).reverse :: rs).reverse
  | .unq, cur, fs, rs, [] => .ok ((cur.reverse :: fs).reverse :: rs).reverse
  | .quoted, _, _, _, [] => .error .quote
  | .qseen, cur, fs, rs, [] => .ok ((cur.reverse :: fs).reverse :: rs).reverse
  -- record start: blank lines are skipped
  | .recStart, _, _, rs, b :: rest =>
    if b = cLF then machine .recStart [] [] rs rest
    else if b = cQuote then machine .quoted [] [] rs rest
    else if b = cComma then machine .fieldStart [] [[]] rs rest
    else machine .unq [b] [] rs rest
  | .fieldStart, _, fs, rs, b :: rest =>
    if b = cQuote then machine .quoted [] fs rs rest
    else if b = cComma then machine .fieldStart [] ([] :: fs) rs rest
    else if b = cLF then machine .recStart [] [] ((([] : Str) :: fs).reverse :: rs) rest
    else machine .unq [b] fs rs rest
  | .unq, cur, fs, rs, b :: rest =>
    if b = cQuote then .error .bareQuote
    else if b = cComma then machine .fieldStart [] (cur.reverse :: fs) rs rest
    else if b = cLF then machine .recStart [] [] ((cur.reverse :: fs).reverse :: rs) rest
    else machine .unq (b :: cur) fs rs rest
  | .quoted, cur, fs, rs, b :: rest =>
    if b = cQuote then machine .qseen cur fs rs rest
    else machine .quoted (b :: cur) fs rs rest
  | .qseen, cur, fs, rs, b :: rest =>
    if b = cQuote then machine .quoted (cQuote :: cur) fs rs rest
    else if b = cComma then machine .fieldStart [] (cur.reverse :: fs) rs rest
    else if b = cLF then machine .recStart [] [] ((cur.reverse :: fs).reverse :: rs) rest
    else .error .quote

/-- every record has as many fields as the first one -/
def fieldCountOk : List (List Str) → Bool
  | [] => true
  | r :: rs => rs.all (fun x => x.length == r.length)

/-- all records of the input, or the reader's error -/
def readAll (bytes : List UInt8) : Res (List (List Str)) :=
  match machine .recStart [] [] [] (normalise bytes) with
  | .error e => .error e
  | .ok rs => if fieldCountOk rs then .ok rs else .error .fieldCount

/-! ### writer -/

/-- UTF-8 encodings of the Unicode white-space runes (`unicode.IsSpace`) a field can start with -/
def startsWithSpace : Str → Bool
  | [] => false
  | b :: rest =>
    if b = 32 ∨ (9 ≤ b ∧ b ≤ 13) then true
    else if b = 0xC2 then (match rest with | c :: _ => c = 0x85 ∨ c = 0xA0 | _ => false)
    else if b = 0xE1 then (match rest with | c :: d :: _ => c = 0x9A ∧ d = 0x80 | _ => false)
    else if b = 0xE2 then
      (match rest with
       | c :: d :: _ => (c = 0x80 ∧ ((0x80 ≤ d ∧ d ≤ 0x8A) ∨ d = 0xA8 ∨ d = 0xA9 ∨ d = 0xAF)) ∨ (c = 0x81 ∧ d = 0x9F)
       | _ => false)
    else if b = 0xE3 then (match rest with | c :: d :: _ => c = 0x80 ∧ d = 0x80 | _ => false)
    else false

/-- must this field be quoted for the reader to return it unchanged? (`fieldNeedsQuotes` minus the
purely cosmetic cases) -/
def mustQuote (s : Str) : Bool :=
  s.any (fun b => b = cComma || b = cQuote || b = cLF || b = cCR)

/-- `fieldNeedsQuotes` -/
def needsQuotes (s : Str) : Bool :=
  if s = [] then false
  else if s = [92, 46] then true          -- `\.`
  else mustQuote s || startsWithSpace s

/-- the quoted form: `"` doubled, everything else verbatim -/
def quoteField (s : Str) : Str :=
  cQuote :: (s.flatMap (fun b => if b = cQuote then [cQuote, cQuote] else [b])) ++ [cQuote]

def writeField (q : Str → Bool) (s : Str) : Str := if q s then quoteField s else s

def joinComma : List Str → Str
  | [] => []
  | [s] => s
  | s :: rest => s ++ cComma :: joinComma rest

/-- one record, with quoting decision `q`; goframe writes a record that is a single empty field as `""` -/
def writeRecord (q : Str → Bool) (r : List Str) : Str :=
  if r = [[]] then [cQuote, cQuote, cLF] else joinComma (r.map (writeField q)) ++ [cLF]

def writeAll (q : Str → Bool) (rs : List (List Str)) : Str := rs.flatMap (writeRecord q)

/-- the pinned writer (no special case for a lone empty field) — to state the D10 witness -/
def writeRecordPinned (q : Str → Bool) (r : List Str) : Str := joinComma (r.map (writeField q)) ++ [cLF]

end Csv

/-! ### goframe's CSV import / export -/
namespace Frame

/-- `ToCSVWriter`: sorted header, then every row with cells rendered by `%v` -/
def toCSVRecords (ω : Oracle) (f : Frame) : List (List Str) :=
  f.keys :: (List.range f.nrows).map (fun i => f.map (fun kc => ω.fmtV (kc.2.data.getD i .nil)))

def toCSV (ω : Oracle) (f : Frame) : Str := Csv.writeAll Csv.needsQuotes (toCSVRecords ω f)

/-- the typing rule of `FromCSVReader`: float64 iff the trimmed text parses, else the trimmed text -/
def typeCell (ω : Oracle) (s : Str) : Cell :=
  let t := ω.trim s
  match ω.parseFloat t with
  | some v => .flt false v
  | none => .str t

def hasDup : List Str → Bool
  | [] => false
  | x :: xs => xs.contains x || hasDup xs

def insertCol (kc : Str × Col) : Frame → Frame
  | [] => [kc]
  | x :: xs => if strLt kc.1 x.1 then kc :: x :: xs else x :: insertCol kc xs

/-- `FromCSVReader` -/
def fromCSV (ω : Oracle) (bytes : List UInt8) : Outcome Frame :=
  match Csv.readAll bytes with
  | .error _ => .err "csv reader error"
  | .ok [] => .err "error reading header: EOF"
  | .ok (hdr :: recs) =>
    if hasDup hdr then .err "duplicate column name in header"
    else .ok ((hdr.zipIdx.map (fun (h, j) =>
      (h, ({ name := h, data := recs.map (fun r => typeCell ω (r.getD j [])) } : Col)))).foldl
        (fun acc kc => insertCol kc acc) [])

end Frame
end Goframe
