import GoframeModel.Core.Oracle
/-
  An independent, dialect-aware SQL lexer, and the three statement shapes goframe generates
  (DROP TABLE, CREATE TABLE, multi-row INSERT) with their renderer and parser. SQL text is lexed,
  parsed and given meaning here only; the Go harness's recording driver interprets no SQL.
-/
namespace Goframe
namespace Sql

inductive Dialect | sqlite | postgres | mysql
  deriving DecidableEq, Repr

/-- the identifier quote character: `"` for SQLite and PostgreSQL, backtick for MySQL -/
def Dialect.q : Dialect → UInt8
  | .mysql => 96
  | _ => 34

/-- `QuoteIdentifier` after the D11 repair: the quote character is doubled inside the name -/
def escape (q : UInt8) : Str → Str
  | [] => []
  | b :: rest => if b = q then q :: q :: escape q rest else b :: escape q rest

def quoteIdent (q : UInt8) (name : Str) : Str := q :: (escape q name ++ [q])

/-- the pinned `QuoteIdentifier` (no escaping) — to state the D11 witness -/
def rawQuote (q : UInt8) (name : Str) : Str := q :: (name ++ [q])

/-- read a quoted identifier body (after the opening quote): `qq` is an escaped quote, a single `q`
ends it. Returns the identifier's value and the remaining input; `none` if unterminated. -/
def lexQuotedBody (q : UInt8) : Str → Option (Str × Str)
  | [] => none
  | b :: rest =>
    if b = q then
      match rest with
      | c :: rest' =>
        if c = q then (lexQuotedBody q rest').map (fun (v, r) => (q :: v, r))
        else some ([], c :: rest')
      | [] => some ([], [])
    else (lexQuotedBody q rest).map (fun (v, r) => (b :: v, r))

/-- a quoted identifier at the head of the input -/
def lexQuoted (q : UInt8) : Str → Option (Str × Str)
  | [] => none
  | b :: rest => if b = q then lexQuotedBody q rest else none

inductive Tok
  | word (s : Str)          -- keyword, bare identifier or number
  | qident (s : Str)        -- quoted identifier, unescaped value
  | strlit (s : Str)        -- single-quoted string literal (raw body)
  | punct (c : UInt8)
  | ph (n : Nat)            -- placeholder: 0 for `?`, n for `$n`
  | bad                     -- unterminated quote / comment
  deriving DecidableEq, Repr

def isWordByte (b : UInt8) : Bool :=
  (48 ≤ b && b ≤ 57) || (65 ≤ b && b ≤ 90) || (97 ≤ b && b ≤ 122) || b = 95

def isDigit (b : UInt8) : Bool := 48 ≤ b && b ≤ 57

def digitsVal (ds : Str) : Nat := ds.foldl (fun acc d => acc * 10 + (d.toNat - 48)) 0

/-- lexer states; accumulators are reversed -/
inductive LSt
  | top
  | qid (acc : Str)        -- inside a quoted identifier
  | qidQ (acc : Str)       -- inside a quoted identifier, just saw the quote character
  | str (acc : Str)        -- inside a single-quoted string
  | strQ (acc : Str)
  | word (acc : Str)
  | dollar (acc : Str)     -- `$` followed by digits
  | dash                   -- saw one `-`
  | slash                  -- saw one `/`
  | line                   -- inside `-- …`
  | block                  -- inside `/* …`
  | blockStar              -- inside a block comment, just saw `*`
  deriving DecidableEq, Repr

/-- the transition out of the top state on byte `b` -/
def topStep (d : Dialect) (b : UInt8) : LSt × List Tok :=
  if b = 32 ∨ b = 9 ∨ b = 10 ∨ b = 13 then (.top, [])
  else if b = d.q then (.qid [], [])
  else if b = 39 then (.str [], [])
  else if b = 45 then (.dash, [])
  else if b = 47 then (.slash, [])
  else if b = 63 then (.top, [.ph 0])
  else if b = 36 then (.dollar [], [])
  else if isWordByte b then (.word [b], [])
  else (.top, [.punct b])

/-- one byte: new state and the tokens completed by it -/
def step (d : Dialect) : LSt → UInt8 → LSt × List Tok
  | .top, b => topStep d b
  | .qid acc, b => if b = d.q then (.qidQ acc, []) else (.qid (b :: acc), [])
  | .qidQ acc, b =>
    if b = d.q then (.qid (b :: acc), [])                    -- doubled quote: an escaped quote character
    else let (st, ts) := topStep d b; (st, .qident acc.reverse :: ts)
  | .str acc, b => if b = 39 then (.strQ acc, []) else (.str (b :: acc), [])
  | .strQ acc, b =>
    if b = 39 then (.str (b :: acc), [])
    else let (st, ts) := topStep d b; (st, .strlit acc.reverse :: ts)
  | .word acc, b =>
    if isWordByte b then (.word (b :: acc), [])
    else let (st, ts) := topStep d b; (st, .word acc.reverse :: ts)
  | .dollar acc, b =>
    if isDigit b then (.dollar (b :: acc), [])
    else
      let (st, ts) := topStep d b
      (st, (if acc.isEmpty then Tok.punct 36 else .ph (digitsVal acc.reverse)) :: ts)
  | .dash, b =>
    if b = 45 then (.line, [])
    else let (st, ts) := topStep d b; (st, .punct 45 :: ts)
  | .slash, b =>
    if b = 42 then (.block, [])
    else let (st, ts) := topStep d b; (st, .punct 47 :: ts)
  | .line, b => if b = 10 then (.top, []) else (.line, [])
  | .block, b => if b = 42 then (.blockStar, []) else (.block, [])
  | .blockStar, b => if b = 47 then (.top, []) else if b = 42 then (.blockStar, []) else (.block, [])

/-- tokens completed by the end of input -/
def finish : LSt → List Tok
  | .top => []
  | .qid _ => [.bad]
  | .qidQ acc => [.qident acc.reverse]
  | .str _ => [.bad]
  | .strQ acc => [.strlit acc.reverse]
  | .word acc => [.word acc.reverse]
  | .dollar acc => [if acc.isEmpty then .punct 36 else .ph (digitsVal acc.reverse)]
  | .dash => [.punct 45]
  | .slash => [.punct 47]
  | .line => []
  | .block => [.bad]
  | .blockStar => [.bad]

def run (d : Dialect) : LSt → Str → List Tok
  | st, [] => finish st
  | st, b :: rest => let (st', ts) := step d st b; ts ++ run d st' rest

/-- the lexer -/
def lex (d : Dialect) (s : Str) : List Tok := run d .top s

/-! ### statements -/

inductive Stmt
  | drop (table : Str)
  | create (table : Str) (cols : List (Str × Str))            -- column name, SQL type text
  | insert (table : Str) (cols : List Str) (nrows : Nat)      -- multi-row INSERT with placeholders
  deriving DecidableEq, Repr

def sDropTable : Str := [68, 82, 79, 80, 32, 84, 65, 66, 76, 69, 32]                -- "DROP TABLE "
def sCreateTable : Str := [67, 82, 69, 65, 84, 69, 32, 84, 65, 66, 76, 69, 32]      -- "CREATE TABLE "
def sInsertInto : Str := [73, 78, 83, 69, 82, 84, 32, 73, 78, 84, 79, 32]           -- "INSERT INTO "
def sValues : Str := [32, 86, 65, 76, 85, 69, 83, 32]                                -- " VALUES "

def joinWith (sep : Str) : List Str → Str
  | [] => []
  | [s] => s
  | s :: rest => s ++ sep ++ joinWith sep rest

def commaSp : Str := [44, 32]

def placeholder (d : Dialect) (i : Nat) : Str :=
  match d with
  | .postgres => 36 :: natStr i
  | _ => [63]

/-- the `(…), (…)` part: `nrows` groups of `ncols` placeholders numbered from 1 across the statement -/
def placeholderRows (d : Dialect) (ncols nrows : Nat) : Str :=
  joinWith commaSp ((List.range nrows).map (fun r =>
    40 :: (joinWith commaSp ((List.range ncols).map (fun c => placeholder d (r * ncols + c + 1))) ++ [41])))

/-- the SQL text goframe generates -/
def render (d : Dialect) : Stmt → Str
  | .drop t => sDropTable ++ quoteIdent d.q t
  | .create t cols =>
    sCreateTable ++ quoteIdent d.q t ++ [32, 40] ++
      joinWith commaSp (cols.map (fun c => quoteIdent d.q c.1 ++ 32 :: c.2)) ++ [41]
  | .insert t cols n =>
    sInsertInto ++ quoteIdent d.q t ++ [32, 40] ++ joinWith commaSp (cols.map (quoteIdent d.q)) ++ [41] ++
      sValues ++ placeholderRows d cols.length n

/-- the token stream a statement must lex to, for all names (types are given as their own tokens) -/
def tokensOf (d : Dialect) : Stmt → List Tok
  | .drop t => [.word [68, 82, 79, 80], .word [84, 65, 66, 76, 69], .qident t]
  | .create t cols =>
    [.word [67, 82, 69, 65, 84, 69], .word [84, 65, 66, 76, 69], .qident t, .punct 40] ++
      (joinToks (cols.map (fun c => .qident c.1 :: lex d c.2))) ++ [.punct 41]
  | .insert t cols n =>
    [.word [73, 78, 83, 69, 82, 84], .word [73, 78, 84, 79], .qident t, .punct 40] ++
      joinToks (cols.map (fun c => [.qident c])) ++ [.punct 41, .word [86, 65, 76, 85, 69, 83]] ++
      joinToks ((List.range n).map (fun r =>
        .punct 40 :: joinToks ((List.range cols.length).map (fun c =>
          [.ph (match d with | .postgres => r * cols.length + c + 1 | _ => 0)])) ++ [.punct 41]))
where
  joinToks : List (List Tok) → List Tok
    | [] => []
    | [x] => x
    | x :: rest => x ++ .punct 44 :: joinToks rest

/-! ### parsing token streams back into statements (used on the implementation's statements) -/

def splitTop (ts : List Tok) : List (List Tok) :=
  -- split at top-level commas (parenthesis depth 0)
  let rec go (depth : Nat) (cur : List Tok) (acc : List (List Tok)) : List Tok → List (List Tok)
    | [] => (cur.reverse :: acc).reverse
    | .punct 44 :: rest => if depth = 0 then go 0 [] (cur.reverse :: acc) rest else go depth (.punct 44 :: cur) acc rest
    | .punct 40 :: rest => go (depth + 1) (.punct 40 :: cur) acc rest
    | .punct 41 :: rest => go (depth - 1) (.punct 41 :: cur) acc rest
    | t :: rest => go depth (t :: cur) acc rest
  go 0 [] [] ts

/-- a parsed statement; column types stay token lists (TypeMap values are user-supplied SQL) -/
inductive PStmt
  | drop (table : Str)
  | create (table : Str) (cols : List (Str × List Tok))
  | insert (table : Str) (cols : List Str) (rows : List (List Nat))   -- placeholder numbers per row
  deriving DecidableEq, Repr

def upper (s : Str) : Str := s.map (fun b => if 97 ≤ b ∧ b ≤ 122 then b - 32 else b)

def isWord (t : Tok) (w : Str) : Bool :=
  match t with
  | .word s => upper s == w
  | _ => false

def parse (ts : List Tok) : Option PStmt :=
  match ts with
  | [a, b, .qident t] => if isWord a [68, 82, 79, 80] && isWord b [84, 65, 66, 76, 69] then some (.drop t) else none
  | a :: b :: .qident t :: .punct 40 :: rest =>
    if isWord a [67, 82, 69, 65, 84, 69] && isWord b [84, 65, 66, 76, 69] then
      match rest.getLast? with
      | some (.punct 41) =>
        let defs := if rest.dropLast.isEmpty then [] else splitTop rest.dropLast
        let cols := defs.filterMap (fun d => match d with
          | .qident c :: ty => some (c, ty)
          | _ => none)
        if cols.length == defs.length then some (.create t cols) else none
      | _ => none
    else if isWord a [73, 78, 83, 69, 82, 84] && isWord b [73, 78, 84, 79] then
      -- ( cols ) VALUES (…), (…)
      let colToks := rest.takeWhile (fun x => x != .punct 41)
      let after := (rest.dropWhile (fun x => x != .punct 41)).drop 1
      let cols := (splitTop colToks).filterMap (fun d => match d with
        | [.qident c] => some c
        | _ => none)
      match after with
      | v :: groups =>
        if isWord v [86, 65, 76, 85, 69, 83] && cols.length == (splitTop colToks).length then
          let gs := splitTop groups
          let rows := gs.filterMap (fun g => match g with
            | .punct 40 :: inner =>
              match inner.getLast? with
              | some (.punct 41) =>
                let phs := (splitTop inner.dropLast).filterMap (fun p => match p with
                  | [.ph n] => some n
                  | _ => none)
                if phs.length == (splitTop inner.dropLast).length then some phs else none
              | _ => none
            | _ => none)
          if rows.length == gs.length then some (.insert t cols rows) else none
        else none
      | [] => none
    else none
  | _ => none

end Sql
end Goframe
