import GoframeModel.Core.Oracle
/-
  An independent, dialect-aware SQL lexer, and the three statement shapes goframe generates
  (DROP TABLE, CREATE TABLE, multi-row INSERT) with their renderer and parser. SQL text is lexed,
  parsed and given meaning here only; the Go harness's recording driver interprets no SQL.
-/
namespace Goframe
namespace Sql

inductive Dialect | sqlite | postgres | mysql
  deriving DecidableEq, Repr

/-- the identifier quote character: `"` for SQLite and PostgreSQL, backtick for MySQL -/
def Dialect.q : Dialect → UInt8
  | .mysql => 96
  | _ => 34

/-- `QuoteIdentifier` after the D11 repair: the quote character is doubled inside the name -/
def escape (q : UInt8) : Str → Str
  | [] => []
  | b :: rest => if b = q then q :: q :: escape q rest else b :: escape q rest

def quoteIdent (q : UInt8) (name : Str) : Str := q :: (escape q name ++ [q])

/-- the pinned `QuoteIdentifier` (no escaping) — to state the D11 witness -/
def rawQuote (q : UInt8) (name : Str) : Str := q :: (name ++ [q])

/-- read a quoted identifier body (after the opening quote): `qq` is an escaped quote, a single `q`
ends it. Returns the identifier's value and the remaining input; `none` if unterminated. -/
def lexQuotedBody (q : UInt8) : Str → Option (Str × Str)
  | [] => none
  | b :: rest =>
    if b = q then
      match rest with
      | c :: rest' =>
        if c = q then (lexQuotedBody q rest').map (fun (v, r) => (q :: v, r))
        else some ([], c :: rest')
      | [] => some ([], [])
    else (lexQuotedBody q rest).map (fun (v, r) => (b :: v, r))

/-- a quoted identifier at the head of the input -/
def lexQuoted (q : UInt8) : Str → Option (Str × Str)
  | [] => none
  | b :: rest => if b = q then lexQuotedBody q rest else none

inductive Tok
  | word (s : Str)          -- keyword, bare identifier or number
  | qident (s : Str)        -- quoted identifier, unescaped value
  | strlit (s : Str)        -- single-quoted string literal (raw body)
  | punct (c : UInt8)
  | ph (n : Nat)            -- placeholder: 0 for `?`, n for `$n`
  | bad                     -- unterminated quote / comment
  deriving DecidableEq, Repr

def isWordByte (b : UInt8) : Bool :=
  (48 ≤ b && b ≤ 57) || (65 ≤ b && b ≤ 90) || (97 ≤ b && b ≤ 122) || b = 95

def isDigit (b : UInt8) : Bool := 48 ≤ b && b ≤ 57

def takeWhileB (p : UInt8 → Bool) : Str → Str × Str
  | [] => ([], [])
  | b :: rest => if p b then let (a, r) := takeWhileB p rest; (b :: a, r) else ([], b :: rest)

def digitsVal (ds : Str) : Nat := ds.foldl (fun acc d => acc * 10 + (d.toNat - 48)) 0

def skipLine : Str → Str
  | [] => []
  | b :: rest => if b = 10 then rest else skipLine rest

def skipBlock : Str → Option Str
  | [] => none
  | [_] => none
  | a :: b :: rest => if a = 42 ∧ b = 47 then some rest else skipBlock (b :: rest)

/-- single-quoted string: `''` is an escaped quote -/
def lexString : Str → Option (Str × Str)
  | [] => none
  | b :: rest =>
    if b = 39 then
      match rest with
      | c :: rest' => if c = 39 then (lexString rest').map (fun (v, r) => (39 :: v, r)) else some ([], c :: rest')
      | [] => some ([], [])
    else (lexString rest).map (fun (v, r) => (b :: v, r))

/-- the lexer; `fuel` bounds the number of tokens (the input length suffices) -/
def lexAux (d : Dialect) : Nat → Str → List Tok
  | 0, _ => []
  | _, [] => []
  | fuel + 1, b :: rest =>
    if b = 32 ∨ b = 9 ∨ b = 10 ∨ b = 13 then lexAux d fuel rest
    else if b = d.q then
      match lexQuotedBody d.q rest with
      | some (v, r) => .qident v :: lexAux d fuel r
      | none => [.bad]
    else if b = 39 then
      match lexString rest with
      | some (v, r) => .strlit v :: lexAux d fuel r
      | none => [.bad]
    else if b = 45 ∧ rest.head? = some 45 then lexAux d fuel (skipLine rest)
    else if b = 47 ∧ rest.head? = some 42 then
      match skipBlock (rest.drop 1) with
      | some r => lexAux d fuel r
      | none => [.bad]
    else if b = 63 then .ph 0 :: lexAux d fuel rest
    else if b = 36 ∧ (rest.head?.map isDigit).getD false then
      let (ds, r) := takeWhileB isDigit rest
      .ph (digitsVal ds) :: lexAux d fuel r
    else if isWordByte b then
      let (w, r) := takeWhileB isWordByte rest
      .word (b :: w) :: lexAux d fuel r
    else .punct b :: lexAux d fuel rest

def lex (d : Dialect) (s : Str) : List Tok := lexAux d (s.length + 1) s

/-! ### statements -/

inductive Stmt
  | drop (table : Str)
  | create (table : Str) (cols : List (Str × Str))            -- column name, SQL type text
  | insert (table : Str) (cols : List Str) (nrows : Nat)      -- multi-row INSERT with placeholders
  deriving DecidableEq, Repr

def sDropTable : Str := [68, 82, 79, 80, 32, 84, 65, 66, 76, 69, 32]                -- "DROP TABLE "
def sCreateTable : Str := [67, 82, 69, 65, 84, 69, 32, 84, 65, 66, 76, 69, 32]      -- "CREATE TABLE "
def sInsertInto : Str := [73, 78, 83, 69, 82, 84, 32, 73, 78, 84, 79, 32]           -- "INSERT INTO "
def sValues : Str := [32, 86, 65, 76, 85, 69, 83, 32]                                -- " VALUES "

def joinWith (sep : Str) : List Str → Str
  | [] => []
  | [s] => s
  | s :: rest => s ++ sep ++ joinWith sep rest

def commaSp : Str := [44, 32]

def placeholder (d : Dialect) (i : Nat) : Str :=
  match d with
  | .postgres => 36 :: natStr i
  | _ => [63]

/-- the `(…), (…)` part: `nrows` groups of `ncols` placeholders numbered from 1 across the statement -/
def placeholderRows (d : Dialect) (ncols nrows : Nat) : Str :=
  joinWith commaSp ((List.range nrows).map (fun r =>
    40 :: (joinWith commaSp ((List.range ncols).map (fun c => placeholder d (r * ncols + c + 1))) ++ [41])))

/-- the SQL text goframe generates -/
def render (d : Dialect) : Stmt → Str
  | .drop t => sDropTable ++ quoteIdent d.q t
  | .create t cols =>
    sCreateTable ++ quoteIdent d.q t ++ [32, 40] ++
      joinWith commaSp (cols.map (fun c => quoteIdent d.q c.1 ++ 32 :: c.2)) ++ [41]
  | .insert t cols n =>
    sInsertInto ++ quoteIdent d.q t ++ [32, 40] ++ joinWith commaSp (cols.map (quoteIdent d.q)) ++ [41] ++
      sValues ++ placeholderRows d cols.length n

/-- the token stream a statement must lex to, for all names (types are given as their own tokens) -/
def tokensOf (d : Dialect) : Stmt → List Tok
  | .drop t => [.word [68, 82, 79, 80], .word [84, 65, 66, 76, 69], .qident t]
  | .create t cols =>
    [.word [67, 82, 69, 65, 84, 69], .word [84, 65, 66, 76, 69], .qident t, .punct 40] ++
      (joinToks (cols.map (fun c => .qident c.1 :: lex d c.2))) ++ [.punct 41]
  | .insert t cols n =>
    [.word [73, 78, 83, 69, 82, 84], .word [73, 78, 84, 79], .qident t, .punct 40] ++
      joinToks (cols.map (fun c => [.qident c])) ++ [.punct 41, .word [86, 65, 76, 85, 69, 83]] ++
      joinToks ((List.range n).map (fun r =>
        .punct 40 :: joinToks ((List.range cols.length).map (fun c =>
          [.ph (match d with | .postgres => r * cols.length + c + 1 | _ => 0)])) ++ [.punct 41]))
where
  joinToks : List (List Tok) → List Tok
    | [] => []
    | [x] => x
    | x :: rest => x ++ .punct 44 :: joinToks rest

/-! ### parsing token streams back into statements (used on the implementation's statements) -/

def splitTop (ts : List Tok) : List (List Tok) :=
  -- split at top-level commas (parenthesis depth 0)
  let rec go (depth : Nat) (cur : List Tok) (acc : List (List Tok)) : List Tok → List (List Tok)
    | [] => (cur.reverse :: acc).reverse
    | .punct 44 :: rest => if depth = 0 then go 0 [] (cur.reverse :: acc) rest else go depth (.punct 44 :: cur) acc rest
    | .punct 40 :: rest => go (depth + 1) (.punct 40 :: cur) acc rest
    | .punct 41 :: rest => go (depth - 1) (.punct 41 :: cur) acc rest
    | t :: rest => go depth (t :: cur) acc rest
  go 0 [] [] ts

/-- a parsed statement; column types stay token lists (TypeMap values are user-supplied SQL) -/
inductive PStmt
  | drop (table : Str)
  | create (table : Str) (cols : List (Str × List Tok))
  | insert (table : Str) (cols : List Str) (rows : List (List Nat))   -- placeholder numbers per row
  deriving DecidableEq, Repr

def upper (s : Str) : Str := s.map (fun b => if 97 ≤ b ∧ b ≤ 122 then b - 32 else b)

def isWord (t : Tok) (w : Str) : Bool :=
  match t with
  | .word s => upper s == w
  | _ => false

def parse (ts : List Tok) : Option PStmt :=
  match ts with
  | [a, b, .qident t] => if isWord a [68, 82, 79, 80] && isWord b [84, 65, 66, 76, 69] then some (.drop t) else none
  | a :: b :: .qident t :: .punct 40 :: rest =>
    if isWord a [67, 82, 69, 65, 84, 69] && isWord b [84, 65, 66, 76, 69] then
      match rest.getLast? with
      | some (.punct 41) =>
        let defs := if rest.dropLast.isEmpty then [] else splitTop rest.dropLast
        let cols := defs.filterMap (fun d => match d with
          | .qident c :: ty => some (c, ty)
          | _ => none)
        if cols.length == defs.length then some (.create t cols) else none
      | _ => none
    else if isWord a [73, 78, 83, 69, 82, 84] && isWord b [73, 78, 84, 79] then
      -- ( cols ) VALUES (…), (…)
      let colToks := rest.takeWhile (fun x => x != .punct 41)
      let after := (rest.dropWhile (fun x => x != .punct 41)).drop 1
      let cols := (splitTop colToks).filterMap (fun d => match d with
        | [.qident c] => some c
        | _ => none)
      match after with
      | v :: groups =>
        if isWord v [86, 65, 76, 85, 69, 83] && cols.length == (splitTop colToks).length then
          let gs := splitTop groups
          let rows := gs.filterMap (fun g => match g with
            | .punct 40 :: inner =>
              match inner.getLast? with
              | some (.punct 41) =>
                let phs := (splitTop inner.dropLast).filterMap (fun p => match p with
                  | [.ph n] => some n
                  | _ => none)
                if phs.length == (splitTop inner.dropLast).length then some phs else none
              | _ => none
            | _ => none)
          if rows.length == gs.length then some (.insert t cols rows) else none
        else none
      | [] => none
    else none
  | _ => none

end Sql
end Goframe
