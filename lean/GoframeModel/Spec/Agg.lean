import GoframeModel.Spec.Table
import GoframeModel.Ops.Agg
/-
  C16 — the arithmetic reference for Sum / Mean / Min / Max / Describe / Add.
-/
namespace Goframe
namespace Spec

/-- the numeric values of a column, or `none` if some cell is not numeric (per the AsFloat64 table:
float64, float32, int, int64, numeric text) -/
def valuesOf (ω : Oracle) (d : List Cell) : Option (List FVal) :=
  if d.all (fun c => (ω.asFloat64 c).isSome) then some (d.filterMap ω.asFloat64) else none

/-- least value ignoring NaN; NaN when there is no other value -/
def leastNonNaN (xs : List FVal) : FVal :=
  match xs.filter (fun x => !x.isNaN) with
  | [] => .nan
  | y :: ys => ys.foldl (fun m v => if v.lt m then v else m) y

def greatestNonNaN (xs : List FVal) : FVal :=
  match xs.filter (fun x => !x.isNaN) with
  | [] => .nan
  | y :: ys => ys.foldl (fun m v => if m.lt v then v else m) y

/-- reference value of an aggregate; `none` = must be an error -/
def aggSpec (ω : Oracle) (k : AggKind) (d : List Cell) : Option FVal :=
  match valuesOf ω d with
  | none => none
  | some xs =>
    match k with
    | .sum => some (FVal.sum xs)
    | .mean => if xs.isEmpty then none else some ((FVal.sum xs).divNat xs.length)
    | .min => if xs.isEmpty then none else some (leastNonNaN xs)
    | .max => if xs.isEmpty then none else some (greatestNonNaN xs)

/-- frame level: per column, any failing column makes the call fail -/
def aggAllSpec (ω : Oracle) (k : AggKind) (f : Frame) : Option (List (Str × FVal)) :=
  if f.all (fun kc => (aggSpec ω k kc.2.data).isSome) then
    some (f.map (fun kc => (kc.1, (aggSpec ω k kc.2.data).getD .nan)))
  else none

/-- one cell of `Add` on the property's domain: numeric sum, nil where text is involved -/
def addCellSpec (ω : Oracle) (a b : Cell) : Option Cell :=
  match ω.toFloat a, ω.toFloat b with
  | some x, some y => some (.flt false (x.add y))
  | _, _ =>
    match a, b with
    | .str _, _ => some .nil
    | _, .str _ => some .nil
    | _, _ => none            -- outside the property's quantifier (e.g. bool + bool)

end Spec
end Goframe
