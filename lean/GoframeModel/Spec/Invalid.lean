import GoframeModel.Step
import GoframeModel.Spec.Table
/-
  C20 — which requests are invalid (and must therefore be answered with an error, by the methods that
  have an error result), stated on the request itself: unknown column names, out-of-range indexes,
  unknown option strings, mismatched operands, cells of the wrong type.
-/
namespace Goframe
namespace Spec

def validKeep (s : Str) : Bool := (Frame.parseKeep s).isSome
def validFreq (s : Str) : Bool := (parseFreq s).isSome
def validTarget (s : Str) : Bool := s = Frame.sInt || s = Frame.sFloat64 || s = Frame.sString

def colCells (f : Frame) (k : Str) : List Cell := ((f.get? k).map (·.data)).getD []

/-- `true` when the request is invalid in one of the classes C20 names -/
def invalidRequest (ω : Oracle) (p : Pool) (op : Op) : Bool :=
  match op with
  | .loc t _ cs => match p[t]? with
    | some f => cs.any (fun c => !f.has c) || !f.has Frame.sIndex
    | none => false
  | .iloc t rs cs => match p[t]? with
    | some f => rs.any (fun i => decide (i < 0 ∨ i ≥ f.nrows)) || cs.any (fun c => decide (c < 0 ∨ c ≥ f.ncols))
    | none => false
  | .multiSelect t ks => match p[t]? with
    | some f => ks.isEmpty || ks.any (fun c => !f.has c)
    | none => false
  | .sortValues t by_ _ => match p[t]? with
    | some f => by_.any (fun c => !f.has c)
    | none => false
  | .dedup t sub keep _ => match p[t]? with
    | some f => !validKeep keep || sub.any (fun c => !f.has c)
    | none => false
  | .join _ t u key => match p[t]?, p[u]? with
    | some l, some r => !l.has key || !r.has key
    | _, _ => false
  | .add t u _ => match p[t]?, p[u]? with
    | some l, some r => l.keys != r.keys
    | _, _ => false
  | .resample t c q _ => match p[t]? with
    | some f => !f.has c || !validFreq q || (colCells f c).any (fun x => match x with | .time _ => false | _ => true)
    | none => false
  | .group t list keys _ _ => match p[t]? with
    | some f => if list then keys.any (fun c => !f.has c) else !f.has (keys.headD [])
    | none => false
  | .dropRow t i => match p[t]? with
    | some f => decide (i < 0 ∨ i ≥ f.nrows)
    | none => false
  | .astype t c ty => match p[t]? with
    | some f => !f.has c || !validTarget ty ||
        (ty = Frame.sInt && (colCells f c).any (fun x => match x with | .flt false _ => false | _ => true)) ||
        (ty = Frame.sFloat64 && (colCells f c).any (fun x => match x with | .int .int _ => false | _ => true))
    | none => false
  | .rename t a b => match p[t]? with
    | some f => !f.has a || f.has b
    | none => false
  | .addColumn t c => match p[t]? with
    | some f => f.has c.name
    | none => false
  | .dropColumn t k => match p[t]? with
    | some f => !f.has k
    | none => false
  | .addDatetimeIndex t k l => match p[t]? with
    | some f => !f.has k || (colCells f k).any (fun x => match x with
        | .str s => (ω.timeParse l s).isNone
        | _ => true)
    | none => false
  | _ => false

end Spec
end Goframe
