import GoframeModel.Spec.Table
import GoframeModel.Ops.Group
/-
  C04 / C05 — grouping as a partition of the rows by key tuple, and the grouped aggregates as
  per-group arithmetic, on rows.
-/
namespace Goframe
namespace Spec

def keyTuple (ks : List Str) (r : Row) : List Cell := ks.map (fun k => Row.getD r k)

def tupleEq : List Cell → List Cell → Bool
  | [], [] => true
  | a :: as, b :: bs => a.goEq b && tupleEq as bs
  | _, _ => false

/-- distinct key tuples in order of first appearance -/
def distinctTuples : List (List Cell) → List (List Cell)
  | [] => []
  | t :: ts => t :: (distinctTuples ts).filter (fun u => !tupleEq t u)

/-- the partition: one group per distinct key tuple, in first-appearance order, each listing its rows
in original order -/
def groupsSpec (ks : List Str) (rows : List Row) : List (List Cell × List Row) :=
  (distinctTuples (rows.map (keyTuple ks))).map (fun t => (t, rows.filter (fun r => tupleEq t (keyTuple ks r))))

/-- every row lies in exactly one group -/
def isPartition (ks : List Str) (rows : List Row) (groups : List (List Cell × List Row)) : Bool :=
  rows.all (fun r => (groups.filter (fun g => tupleEq g.1 (keyTuple ks r))).length == 1) &&
  (groups.map (fun g => g.2.length)).sum == rows.length

def numericCellsOf (rows : List Row) (c : Str) : List FVal := rows.filterMap (fun r => numOf (Row.getD r c))

def groupSumSpec (rows : List Row) (c : Str) : FVal := FVal.sum (numericCellsOf rows c)

def groupMeanSpec (rows : List Row) (c : Str) : FVal :=
  let xs := numericCellsOf rows c
  if xs.isEmpty then .fin 0 else (FVal.sum xs).divNat xs.length

/-- two distinct key tuples of the input render to the same `|`-joined text: the input class of the
recorded finding K1 (decidable on the input) -/
def rendersCollide (ω : Oracle) (ks : List Str) (rows : List Row) : Bool :=
  let ts := distinctTuples (rows.map (keyTuple ks))
  let rendered := ts.map (fun t => joinBar (t.map ω.fmtV))
  rendered.any (fun s => rendered.count s > 1)

end Spec
end Goframe
