import GoframeModel.Spec.Table
import GoframeModel.Ops.Clean
/-
  Specifications of C08 (selection), C19 (Shift) and C15 (cleaning / conversion), as functions from
  the inputs to the expected result, written on rows.  `none` = the call must return an error.
-/
namespace Goframe
namespace Spec

/-! ### C08 -/

def headSpec (f : Frame) (n : Int) : Frame :=
  ofRows f.keys ((rowsOf f).take (clamp n 0 f.nrows).toNat)

def tailSpec (f : Frame) (n : Int) : Frame :=
  ofRows f.keys ((rowsOf f).drop (f.nrows - (clamp n 0 f.nrows).toNat))

def rowSliceSpec (f : Frame) (a b : Int) : Frame :=
  let a' := (clamp a 0 f.nrows).toNat
  let b' := (clamp b 0 f.nrows).toNat
  ofRows f.keys (((rowsOf f).take b').drop a')

/-- `Filter`: the rows whose (call-number, row) the predicate accepts; each row seen once, in order -/
def filterSpec (f : Frame) (p : Nat → Row → Bool) : Frame :=
  ofRows f.keys (((rowsOf f).zipIdx.filter (fun ri => p ri.2 ri.1)).map (·.1))

def filterLogSpec (f : Frame) : List Row := rowsOf f

/-- `Iloc`: the listed row positions in the listed order, restricted to the listed column positions -/
def ilocSpec (f : Frame) (ris cis : List Int) : Option Frame :=
  if cis.any (fun c => decide (c < 0 ∨ c ≥ f.ncols)) then none
  else if ris.any (fun i => decide (i < 0 ∨ i ≥ f.nrows)) then none
  else
    let names := sortNames (cis.map (fun c => f.keys.getD c.toNat []))
    some (ofRows names (ris.map (fun i => f.rowMap i.toNat)))

/-- `Loc`: for every row in frame order, once per matching label -/
def locSpec (f : Frame) (labels : List Cell) (cols : List Str) : Option Frame :=
  if cols.any (fun c => !f.has c) then none
  else if !f.has Frame.sIndex then none
  else
    some (ofRows (sortNames cols)
      ((rowsOf f).flatMap (fun r => (labels.filter (fun l => (Row.getD r Frame.sIndex).goEq l)).map (fun _ => r))))

def multiSelectSpec (f : Frame) (ks : List Str) : Option Frame :=
  if ks.isEmpty then none
  else if ks.any (fun c => !f.has c) then none
  else some (ofRows (sortNames ks) (rowsOf f))

def dropRowSpec (f : Frame) (i : Int) : Option Frame :=
  if i < 0 ∨ i ≥ f.nrows then none else some (ofRows f.keys ((rowsOf f).eraseIdx i.toNat))

def dropColumnSpec (f : Frame) (k : Str) : Option Frame :=
  if f.has k then some (ofRows (f.keys.filter (· != k)) (rowsOf f)) else none

def rowSpec (f : Frame) (i : Int) : Option Row :=
  if i < 0 ∨ i ≥ f.nrows then none else some (f.rowMap i.toNat)

/-! ### C19 -/

/-- `Shift(p)`: row `i` holds what row `i - p` held, nil outside the frame -/
def shiftSpec (f : Frame) (p : Int) : Frame :=
  let src := rowsOf f
  ofRows f.keys ((List.range f.nrows).map (fun (i : Nat) =>
    let j : Int := (i : Int) - p
    if 0 ≤ j ∧ j < f.nrows then src.getD j.toNat [] else []))

/-! ### C15 -/

def mapCells (f : Frame) (g : Cell → Cell) : Frame :=
  f.map (fun kc => (kc.1, { kc.2 with data := kc.2.data.map g }))

def fillNaSpec (f : Frame) (v : Cell) : Frame := mapCells f (fun c => if c = .nil then v else c)

def dropNaSpec (f : Frame) : Frame :=
  ofRows f.keys ((rowsOf f).filter (fun r => r.all (fun kv => kv.2 != .nil)))

/-- documented conversion of one cell; `none` = cannot be converted -/
def convSpec (ω : Oracle) (target : Str) (c : Cell) : Option Cell :=
  if target = Frame.sInt then
    match c with
    | .flt false (.fin q) => some (.int .int (Frame.truncToInt q))
    | .flt false .nzero => some (.int .int 0)
    | _ => none
  else if target = Frame.sFloat64 then
    match c with
    | .int .int v => some (.flt false (.fin v))
    | _ => none
  else if target = Frame.sString then some (.str (ω.fmtV c))
  else none

/-- all-or-nothing conversion of a column: every cell converted, or nothing (`none` = error, frame unchanged) -/
def convertColumnSpec (f : Frame) (k : Str) (g : Cell → Option Cell) : Option Frame :=
  match f.get? k with
  | none => none
  | some c =>
    if c.data.all (fun x => (g x).isSome) then
      some (f.map (fun kc => if kc.1 == k then (kc.1, { kc.2 with data := kc.2.data.map (fun x => (g x).getD .nil) }) else kc))
    else none

def astypeSpec (ω : Oracle) (f : Frame) (k ty : Str) : Option Frame :=
  if ty ≠ Frame.sInt ∧ ty ≠ Frame.sFloat64 ∧ ty ≠ Frame.sString then none
  else convertColumnSpec f k (convSpec ω ty)

def addDatetimeIndexSpec (ω : Oracle) (f : Frame) (k layout : Str) : Option Frame :=
  convertColumnSpec f k (fun c => match c with
    | .str s => (ω.timeParse layout s).map Cell.time
    | _ => none)

end Spec
end Goframe
