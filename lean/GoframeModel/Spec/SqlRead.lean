import GoframeModel.Ops.SqlRead
import GoframeModel.Std.Csv
/-
  C14 — the SQL import as a function of the result set: one column per result column, one row per result
  row in result order minus the rows skipped under "skip_row"; a non-NULL value keeps its typed value, NULL
  becomes the policy's value; listed columns are then date-parsed; every error condition yields no frame.
-/
namespace Goframe
namespace Spec
open SqlRead

/-- C14 as a function of the result set: expected frame, or `none` = must be an error -/
def specFromSQL (ω : Oracle) (nilHandle : Bool) (query : Str) (queryErr : Bool) (rs : ResultSet) (o : Opts) : Option Frame :=
  let tys := rs.types.map scanTyOf
  let isNull (c : Cell) : Bool := c == .nil
  let anyNull := rs.rows.any (fun r => r.any isNull)
  let handlerOk := match o.handler with
    | .dflt => true
    | .byColumn _ => true
    | .named s => s == sNilH || s == sZero || s == sSkip
    | .badType => false
  let skipping := match o.handler with
    | .named s => s == sSkip
    | _ => false
  let scanOk := rs.rows.all (fun r => scanRowOk tys r)
  let dup := Frame.hasDup rs.names
  if nilHandle || query.isEmpty || queryErr || rs.errAt.isSome || !scanOk || dup || (anyNull && !handlerOk) then none
  else
    let kept := if skipping then rs.rows.filter (fun r => !(r.any isNull)) else rs.rows
    -- cell: typed value, or the policy's value for NULL; then date parsing for listed columns
    let cellOf (name : Str) (ty : ScanTy) (v : Cell) : Option Cell :=
      let base : Cell := if isNull v then
          (match handleNull o.handler name ty with
           | .ok (.value c) => c
           | _ => .nil)
        else v
      if o.parseDates.contains name then
        (match parseDate ω base with
         | .ok c => some c
         | _ => none)
      else some base
    let cells := kept.map (fun r => (rs.names.zip (tys.zip r)).map (fun (n, ty, v) => cellOf n ty v))
    if cells.any (fun r => r.any Option.isNone) then none
    else
      let rows : List (List Cell) := cells.map (fun r => r.map (fun c => c.getD .nil))
      some ((rs.names.zipIdx.map (fun (n, j) =>
        (n, ({ name := n, data := rows.map (fun r => r.getD j .nil) } : Col)))).foldl (fun acc kc => Frame.insertCol kc acc) [])


/-- a row that is skipped for a NULL but also holds an unparsable date in a listed column: the property
does not say which wins; the specification does not judge this class -/
def ambiguous (ω : Oracle) (rs : ResultSet) (o : Opts) : Bool :=
  let skipping := match o.handler with
    | .named s => s == sSkip
    | _ => false
  let tys := rs.types.map scanTyOf
  skipping && rs.rows.any (fun r => r.any (· == .nil) &&
    (rs.names.zip (tys.zip r)).any (fun (n, _, v) => o.parseDates.contains n && v != .nil && !(parseDate ω v).isOk))

end Spec
end Goframe
