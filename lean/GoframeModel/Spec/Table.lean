import GoframeModel.Core.Oracle
import GoframeModel.Core.Float
/-
  The row view used by every specification: a frame is a list of column names and a list of rows
  (name → cell maps). Specifications are written with list combinators over rows and never mention
  columns-as-slices, loops, map iteration or string keys.
-/
namespace Goframe
namespace Spec

/-- the rows of a frame as name→cell maps, in row order -/
def rowsOf (f : Frame) : List Row := (List.range f.nrows).map f.rowMap

/-- the frame with the given (sorted) column names whose column `k` is `rows.map (·[k])`, nil when absent -/
def ofRows (names : List Str) (rows : List Row) : Frame :=
  names.map (fun k => (k, { name := k, data := rows.map (fun r => Row.getD r k) }))

def insertStr (k : Str) : List Str → List Str
  | [] => [k]
  | x :: xs => if k == x then x :: xs else if strLt k x then k :: x :: xs else x :: insertStr k xs

/-- sorted union of two sorted name lists -/
def sortedUnion (a b : List Str) : List Str := b.foldl (fun acc k => insertStr k acc) a

def sortNames (a : List Str) : List Str := a.foldl (fun acc k => insertStr k acc) []

/-- project a row onto the listed names (absent ↦ nil) -/
def project (names : List Str) (r : Row) : Row := names.map (fun k => (k, Row.getD r k))

/-- left-biased union of two rows -/
def merge (a b : Row) : Row := a ++ b.filter (fun kv => !Row.has a kv.1)

def clamp (x lo hi : Int) : Int := if x < lo then lo else if x > hi then hi else x

end Spec
end Goframe
