import GoframeModel.Spec.Table
import GoframeModel.Ops.Clean
/-
  C06 (SortValues) as a relation between input and output; C07 (DropDuplicates) as a function.
-/
namespace Goframe
namespace Spec

/-- how a sort column is ordered: numerically if every non-nil cell is a number (or numeric text),
as text if none is; otherwise the property does not fix an order -/
inductive ColClass | numeric | textual | mixed
  deriving DecidableEq, Repr

def classify (ω : Oracle) (cells : List Cell) : ColClass :=
  let nn := cells.filter (fun c => c != .nil)
  if nn.all (fun c => (ω.toFloat c).isSome) then .numeric
  else if nn.all (fun c => (ω.toFloat c).isNone) then .textual
  else .mixed

/-- `some true` = a strictly before b, `some false` = strictly after, `none` = tie on this column -/
def specCmp (ω : Oracle) (cls : ColClass) (asc : Bool) (a b : Cell) : Option Bool :=
  match a, b with
  | .nil, .nil => none
  | .nil, _ => some false          -- nil after every non-nil cell, in both directions
  | _, .nil => some true
  | a, b =>
    match cls with
    | .numeric =>
      match ω.toFloat a, ω.toFloat b with
      | some x, some y => if x.goEq y then none else some (if asc then x.lt y else y.lt x)
      | _, _ => none
    | _ =>
      let s := ω.fmtV a; let t := ω.fmtV b
      if s = t then none else some (if asc then strLt s t else strLt t s)

def specLt (ω : Oracle) (cls : List ColClass) (asc : Bool) : List Cell → List Cell → Bool
  | a :: as, b :: bs =>
    match cls with
    | c :: cs =>
      match specCmp ω c asc a b with
      | some r => r
      | none => specLt ω cs asc as bs
    | [] => false
  | _, _ => false

def isPermOf {α} [BEq α] (xs ys : List α) : Bool :=
  xs.length == ys.length && xs.all (fun x => xs.count x == ys.count x)

def noInversion {α} (lt : α → α → Bool) : List α → Bool
  | [] => true
  | x :: rest => rest.all (fun y => !lt y x) && noInversion lt rest

/-- C06: same columns, rows a permutation of the input rows, ordered by the listed columns.
(When a sort column mixes numbers and non-numeric text only the permutation part is required.) -/
def sortSpec (ω : Oracle) (src out : Frame) (by_ : List Str) (asc : Bool) : Bool :=
  let rs := rowsOf src
  let ro := rowsOf out
  let cls := by_.map (fun k => classify ω (rs.map (fun r => Row.getD r k)))
  out.keys == src.keys && out.rect? && isPermOf ro rs &&
  (cls.contains .mixed ||
    noInversion (specLt ω cls asc) (ro.map (fun r => by_.map (fun k => Row.getD r k))))

/-- C07: two rows are duplicates when they are identical on the compared columns -/
def sameOn (cs : List Str) (a b : Row) : Bool := cs.all (fun k => Row.getD a k == Row.getD b k)

def dedupRows (cs : List Str) (keep : Frame.Keep) (rows : List Row) : List Row :=
  (rows.zipIdx.filter (fun ri =>
    match keep with
    | .first => !((rows.take ri.2).any (sameOn cs ri.1))
    | .last => !((rows.drop (ri.2 + 1)).any (sameOn cs ri.1))
    | .none => (rows.filter (sameOn cs ri.1)).length == 1)).map (·.1)

/-- expected result of `DropDuplicates` (`none` = error, nothing removed) -/
def dedupSpec (f : Frame) (subset : List Str) (keep : Str) : Option Frame :=
  let cs := if subset.isEmpty then f.keys else subset
  match Frame.parseKeep keep with
  | none => none
  | some kp => if cs.any (fun c => !f.has c) then none else some (ofRows f.keys (dedupRows cs kp (rowsOf f)))

end Spec
end Goframe
