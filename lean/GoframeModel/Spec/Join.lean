import GoframeModel.Spec.Table
/-
  C03 — relational semantics of the four joins, on rows.
-/
namespace Goframe
namespace Spec

def keyEq (k : Str) (a b : Row) : Bool := (Row.getD a k).goEq (Row.getD b k)

/-- rows of the inner join: every (left,right) pair with identical key, left-major -/
def innerRows (l r : List Row) (k : Str) : List Row :=
  l.flatMap (fun a => (r.filter (keyEq k a)).map (merge a))

/-- left join: additionally every unmatched left row once, in position -/
def leftRows (l r : List Row) (k : Str) : List Row :=
  l.flatMap (fun a =>
    let ms := r.filter (keyEq k a)
    if ms.isEmpty then [a] else ms.map (merge a))

/-- right join: mirror image, ordered by right row then left row; left values still win on shared names -/
def rightRows (l r : List Row) (k : Str) : List Row :=
  r.flatMap (fun b =>
    let ms := l.filter (fun a => keyEq k b a)
    if ms.isEmpty then [b] else ms.map (fun a => merge a b))

/-- outer join: the left join followed by the right rows no left row matches, in their own order -/
def outerRows (l r : List Row) (k : Str) : List Row :=
  leftRows l r k ++ r.filter (fun b => !(l.any (fun a => keyEq k a b)))

def joinSpec (kind : Nat) (l r : Frame) (k : Str) : Option Frame :=
  if !l.has k || !r.has k then none
  else
    let names := sortedUnion l.keys r.keys
    let rows := match kind with
      | 0 => innerRows (rowsOf l) (rowsOf r) k
      | 1 => leftRows (rowsOf l) (rowsOf r) k
      | 2 => rightRows (rowsOf l) (rowsOf r) k
      | _ => outerRows (rowsOf l) (rowsOf r) k
    some (ofRows names rows)

end Spec
end Goframe
