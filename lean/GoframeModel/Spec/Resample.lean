import GoframeModel.Spec.Table
import GoframeModel.Ops.TimeSeries
/-
  C18 — Resample: one row per distinct time bucket in ascending bucket order; the time column holds
  the bucket start, every other column the aggregate over exactly the bucket's cells in row order.
-/
namespace Goframe
namespace Spec

def timeOf : Cell → Option GoTime
  | .time t => some t
  | _ => none

/-- ascending distinct buckets -/
def bucketsAsc (bs : List GoTime) : List GoTime := Frame.sortedBuckets bs.eraseDups

def resampleSpec (ω : Oracle) (f : Frame) (k : Str) (freq : Str) (agg : AggFn) : Option Frame :=
  if !f.has k then none
  else match parseFreq freq with
    | none => none
    | some q =>
      let rows := rowsOf f
      let ts := rows.map (fun r => timeOf (Row.getD r k))
      if ts.any Option.isNone then none
      else
        let bucketOf (r : Row) : Option GoTime := (timeOf (Row.getD r k)).map (truncate q)
        let bs := bucketsAsc (rows.filterMap bucketOf)
        some (ofRows f.keys (bs.map (fun b =>
          f.keys.map (fun c =>
            if c == k then (c, Cell.time b)
            else (c, agg.eval ω ((rows.filter (fun r => bucketOf r == some b)).map (fun r => Row.getD r c)))))))

end Spec
end Goframe
