import GoframeModel.Ops.Select
import GoframeModel.Ops.Clean
import GoframeModel.Ops.Join
import GoframeModel.Ops.Sort
import GoframeModel.Ops.Agg
import GoframeModel.Ops.Group
import GoframeModel.Ops.TimeSeries
import GoframeModel.Ops.Apply
/-
  The public API as a transition system over a pool of live frames: `Op` has one constructor per
  public operation with its arguments (operands are pool indexes, callbacks are tags from a closed
  family the harness implements identically in Go), `step` applies one operation.

  Deriving operations append their result to the pool; in-place operations replace their target.
  An operation that returns an error (or panics) leaves the pool as it is.
-/
namespace Goframe

/-- column-wise / row-wise `Apply` callbacks -/
inductive ApplyFn | copy | reverse | constInt | count | first | strs | ints | bools | ident
  deriving DecidableEq, Repr

def ApplyFn.eval : ApplyFn → List Cell → ApplyRes
  | .copy, xs => .slice xs
  | .reverse, xs => .slice xs.reverse
  | .constInt, _ => .scalar (.int .int 7)
  | .count, xs => .scalar (.int .int xs.length)
  | .first, xs => match xs.headD .nil with
    | .nil => .nilRes
    | v => .scalar v
  | .strs, xs => .slice (xs.map (fun _ => .str [115]))
  | .ints, xs => .slice ((List.range xs.length).map (fun (i : Nat) => .int .int (i : Int)))
  | .bools, xs => .slice (xs.map (fun c => .bool c.isNil))
  | .ident, xs => .slice xs            -- returns the very slice it was given

inductive GroupAgg | sum | mean | count
  deriving DecidableEq, Repr

inductive Op
  -- deriving operations (result appended to the pool)
  | head (t : Nat) (n : Int)
  | tail (t : Nat) (n : Int)
  | rowSlice (t : Nat) (a b : Int)
  | filter (t : Nat) (bits : List Bool)
  | loc (t : Nat) (labels : List Cell) (cols : List Str)
  | iloc (t : Nat) (rows cols : List Int)
  | multiSelect (t : Nat) (ks : List Str)
  | sortValues (t : Nat) (by_ : List Str) (asc : Bool)
  | shift (t : Nat) (p : Int)
  | dedup (t : Nat) (subset : List Str) (keep : Str) (inplace : Bool)
  | join (kind : Nat) (t u : Nat) (key : Str)       -- 0 inner, 1 left, 2 right, 3 outer
  | add (t u : Nat) (fill : Option Cell)
  | applyCol (t : Nat) (fn : ApplyFn)
  | applyRow (t : Nat) (fn : ApplyFn)
  | describe (t : Nat)
  | resample (t : Nat) (col freq : Str) (agg : AggFn)
  | group (t : Nat) (list : Bool) (keys : List Str) (agg : GroupAgg) (cols : List Str)
  -- in-place operations (target replaced)
  | appendRow (t : Nat) (r : Row)
  | dropRow (t : Nat) (i : Int)
  | fillNa (t : Nat) (v : Cell)
  | dropNa (t : Nat)
  | astype (t : Nat) (col ty : Str)
  | rename (t : Nat) (old new : Str)
  | addColumn (t : Nat) (c : Col)
  | dropColumn (t : Nat) (k : Str)
  | setCell (t : Nat) (k : Str) (i : Int) (v : Cell)
  | addDatetimeIndex (t : Nat) (k layout : Str)
  deriving Repr

abbrev Pool := List Frame

def Op.target : Op → Nat
  | .head t _ | .tail t _ | .rowSlice t _ _ | .filter t _ | .loc t _ _ | .iloc t _ _
  | .multiSelect t _ | .sortValues t _ _ | .shift t _ | .dedup t _ _ _ | .join _ t _ _
  | .add t _ _ | .applyCol t _ | .applyRow t _ | .describe t | .resample t _ _ _
  | .group t _ _ _ _ | .appendRow t _ | .dropRow t _ | .fillNa t _ | .dropNa t
  | .astype t _ _ | .rename t _ _ | .addColumn t _ | .dropColumn t _ | .setCell t _ _ _
  | .addDatetimeIndex t _ _ => t

/-- operations that mutate their target (everything else leaves every existing frame untouched) -/
def Op.inPlace : Op → Bool
  | .appendRow .. | .dropRow .. | .fillNa .. | .dropNa .. | .astype .. | .rename ..
  | .addColumn .. | .dropColumn .. | .setCell .. | .addDatetimeIndex .. => true
  | .dedup _ _ _ ip => ip
  | _ => false

inductive StepOut
  | derived (f : Frame)        -- a new frame
  | mutated (f : Frame)        -- the target's new value
  deriving Repr

def bitsPred (bits : List Bool) : Nat → Row → Bool := fun j _ => bits.getD j false

/-- the effect of one operation on its operand frames -/
def opEffect (ω : Oracle) (p : Pool) (op : Op) : Outcome StepOut :=
  match op with
  | .head t n => match p[t]? with
    | none => .err "no such frame"
    | some f => (f.head n).bind (fun r => .ok (.derived r))
  | .tail t n => match p[t]? with
    | none => .err "no such frame"
    | some f => (f.tail n).bind (fun r => .ok (.derived r))
  | .rowSlice t a b => match p[t]? with
    | none => .err "no such frame"
    | some f => .ok (.derived (f.rowSlice a b))
  | .filter t bits => match p[t]? with
    | none => .err "no such frame"
    | some f => .ok (.derived (f.filter (bitsPred bits)))
  | .loc t ls cs => match p[t]? with
    | none => .err "no such frame"
    | some f => (f.loc ls cs).bind (fun r => .ok (.derived r))
  | .iloc t rs cs => match p[t]? with
    | none => .err "no such frame"
    | some f => (f.iloc rs cs).bind (fun r => .ok (.derived r))
  | .multiSelect t ks => match p[t]? with
    | none => .err "no such frame"
    | some f => (f.multiSelect ks).bind (fun r => .ok (.derived r))
  | .sortValues t by_ asc => match p[t]? with
    | none => .err "no such frame"
    | some f => (f.sortValues ω by_ asc).bind (fun r => .ok (.derived r))
  | .shift t q => match p[t]? with
    | none => .err "no such frame"
    | some f => .ok (.derived (f.shift q))
  | .dedup t sub keep ip => match p[t]? with
    | none => .err "no such frame"
    | some f => (f.dropDuplicates ω { subset := sub, keep := keep, inplace := ip }).bind
        (fun (tgt, res) => .ok (if ip then .mutated tgt else .derived res))
  | .join kind t u key => match p[t]?, p[u]? with
    | some l, some r =>
      (match kind with
        | 0 => l.innerJoin r key
        | 1 => l.leftJoin r key
        | 2 => l.rightJoin r key
        | _ => l.outerJoin r key).bind (fun r => .ok (.derived r))
    | _, _ => .err "no such frame"
  | .add t u fill => match p[t]?, p[u]? with
    | some l, some r => (l.add ω r (fill.getD .nil)).bind (fun r => .ok (.derived r))
    | _, _ => .err "no such frame"
  | .applyCol t fn => match p[t]? with
    | none => .err "no such frame"
    | some f => (f.applyCol fn.eval).bind (fun r => .ok (.derived r))
  | .applyRow t fn => match p[t]? with
    | none => .err "no such frame"
    | some f => (f.applyRowSeq fn.eval).bind (fun r => .ok (.derived r))
  | .describe t => match p[t]? with
    | none => .err "no such frame"
    | some f => .ok (.derived (f.describe ω))
  | .resample t c q agg => match p[t]? with
    | none => .err "no such frame"
    | some f => (f.resample ω c q agg).bind (fun r => .ok (.derived r))
  | .group t list keys agg cols => match p[t]? with
    | none => .err "no such frame"
    | some f =>
      (if list then f.groupByList ω keys else f.groupByString (keys.headD [])).bind (fun g =>
        (match agg with
          | .sum => g.sum cols
          | .mean => g.mean cols
          | .count => g.count cols).bind (fun r => .ok (.derived r)))
  | .appendRow t r => match p[t]? with
    | none => .err "no such frame"
    | some f => .ok (.mutated (f.appendRow r))
  | .dropRow t i => match p[t]? with
    | none => .err "no such frame"
    | some f => (f.dropRow i).bind (fun r => .ok (.mutated r))
  | .fillNa t v => match p[t]? with
    | none => .err "no such frame"
    | some f => .ok (.mutated (f.fillNa v))
  | .dropNa t => match p[t]? with
    | none => .err "no such frame"
    | some f => f.dropNa.bind (fun r => .ok (.mutated r))
  | .astype t c ty => match p[t]? with
    | none => .err "no such frame"
    | some f => (f.astype ω c ty).bind (fun r => .ok (.mutated r))
  | .rename t a b => match p[t]? with
    | none => .err "no such frame"
    | some f => (f.renameColumn a b).bind (fun r => .ok (.mutated r))
  | .addColumn t c => match p[t]? with
    | none => .err "no such frame"
    | some f => (f.addColumn c).bind (fun r => .ok (.mutated r))
  | .dropColumn t k => match p[t]? with
    | none => .err "no such frame"
    | some f => (f.dropColumn k).bind (fun r => .ok (.mutated r))
  | .setCell t k i v => match p[t]? with
    | none => .err "no such frame"
    | some f => (f.setCell k i v).bind (fun r => .ok (.mutated r))
  | .addDatetimeIndex t k l => match p[t]? with
    | none => .err "no such frame"
    | some f => (f.addDatetimeIndex ω k l).bind (fun r => .ok (.mutated r))

/-- one step on the pool -/
def step (ω : Oracle) (p : Pool) (op : Op) : Outcome Pool :=
  (opEffect ω p op).bind (fun out =>
    match out with
    | .derived f => .ok (p ++ [f])
    | .mutated f => .ok (p.set op.target f))

/-- a whole history; a failing operation leaves the pool unchanged and the history continues -/
def run (ω : Oracle) : Pool → List Op → Pool
  | p, [] => p
  | p, op :: ops =>
    match step ω p op with
    | .ok p' => run ω p' ops
    | _ => run ω p ops

end Goframe
