import GoframeModel.Props.C19
#print axioms Goframe.C19.shift_wrap
#print axioms Goframe.C19.shift_spec
#print axioms Goframe.C19.shift_cell
#print axioms Goframe.C19.shift_shape
#print axioms Goframe.C19.shift_zero
#print axioms Goframe.C19.shift_inverse
