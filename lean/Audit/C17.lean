import GoframeModel.Props.C17
#print axioms Goframe.C17.collect_perm_invariant
#print axioms Goframe.C17.applyRow_spec
#print axioms Goframe.C17.pool_conservation
#print axioms Goframe.C17.pool_exactly_once
#print axioms Goframe.C17.applyRow_schedule_free
#print axioms Goframe.C17.applyCol_spec
#print axioms Goframe.C17.arrival_order_collector_is_wrong
