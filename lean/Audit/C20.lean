import GoframeModel.Props.C20
#print axioms Goframe.C20.nrows_any_column
