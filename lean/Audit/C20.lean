import GoframeModel.Props.C20
#print axioms Goframe.C20.no_panic
#print axioms Goframe.C20.invalid_is_err
#print axioms Goframe.C20.err_unchanged
#print axioms Goframe.C20.counts_total
#print axioms Goframe.C20.pinned_head_panics
#print axioms Goframe.C20.pinned_sort_missing_panics
