import GoframeModel.Props.C18
#print axioms Goframe.C18.truncate_idem
#print axioms Goframe.C18.same_bucket_iff
#print axioms Goframe.C18.resample_order_free
#print axioms Goframe.C18.resample_sorted
#print axioms Goframe.C18.resample_spec
#print axioms Goframe.C18.resample_invalid
#print axioms Goframe.C18.pinned_order_dependent
