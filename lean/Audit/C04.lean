import GoframeModel.Props.C04
#print axioms Goframe.C04.groupby_single_spec
#print axioms Goframe.C04.groupsSpec_partition
#print axioms Goframe.C04.groupby_list_spec_partial
#print axioms Goframe.C04.groupby_list_collides
#print axioms Goframe.C04.groupby_missing
