import GoframeModel.Props.C08
#print axioms Goframe.C08.head_spec
#print axioms Goframe.C08.tail_spec
#print axioms Goframe.C08.rowSlice_spec
#print axioms Goframe.C08.filter_spec
#print axioms Goframe.C08.iloc_spec
#print axioms Goframe.C08.loc_spec
#print axioms Goframe.C08.multiSelect_spec
#print axioms Goframe.C08.dropRow_spec
#print axioms Goframe.C08.dropColumn_spec
#print axioms Goframe.C08.row_spec
#print axioms Goframe.C08.columnNames_sorted
#print axioms Goframe.C08.head_pinned_panics
