import GoframeModel.Props.C11
#print axioms Goframe.C11.batches_cover
#print axioms Goframe.C11.batch_no_overflow
#print axioms Goframe.C11.insert_args
#print axioms Goframe.C11.bound_spec
#print axioms Goframe.C11.plan_final_table_new
#print axioms Goframe.C11.plan_final_table_append
#print axioms Goframe.C11.fail_mode_writes_nothing
#print axioms Goframe.C11.invalid_options_no_calls
