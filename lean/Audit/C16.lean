import GoframeModel.Props.C16
#print axioms Goframe.C16.series_agg_spec
#print axioms Goframe.C16.min_pinned_nan
#print axioms Goframe.C16.sum_finite
#print axioms Goframe.C16.sum_perm
#print axioms Goframe.C16.min_max_perm
#print axioms Goframe.C16.min_max_bounds
#print axioms Goframe.C16.frame_agg_spec
#print axioms Goframe.C16.describe_agrees
#print axioms Goframe.C16.add_cell_spec
#print axioms Goframe.C16.add_col_lengths
#print axioms Goframe.C16.add_name_mismatch
