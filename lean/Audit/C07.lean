import GoframeModel.Props.C07
#print axioms Goframe.C07.cellKey_injective
#print axioms Goframe.C07.rowKey_injective
#print axioms Goframe.C07.dedup_spec
#print axioms Goframe.C07.pinned_key_collides
