import GoframeModel.Props.C12
#print axioms Goframe.C12.atomic_under_fault
#print axioms Goframe.C12.commit_exactly_once
#print axioms Goframe.C12.body_error_rolls_back
#print axioms Goframe.C12.tx_variants_never_end_tx
#print axioms Goframe.C12.fault_stops_body
