import GoframeModel.Props.C13
#print axioms Goframe.C13.lexQuoted_quoteIdent
#print axioms Goframe.C13.quoteIdent_injective
#print axioms Goframe.C13.lex_quoteIdent
#print axioms Goframe.C13.drop_tokens
#print axioms Goframe.C13.insert_tokens
#print axioms Goframe.C13.create_tokens
#print axioms Goframe.C13.raw_breaks_out
