import GoframeModel.Props.C10
#print axioms Goframe.C10.fromCSV_total
#print axioms Goframe.C10.typeCell_rule
#print axioms Goframe.C10.fromCSV_ok_spec
#print axioms Goframe.C10.fromCSV_err_iff
#print axioms Goframe.C10.reader_rejects_ragged
#print axioms Goframe.C10.reader_rejects_unterminated_quote
