import GoframeModel.Props.C14
#print axioms Goframe.C14.scanTy_table
#print axioms Goframe.C14.scan_keeps_value
#print axioms Goframe.C14.null_policy
#print axioms Goframe.C14.fromRows_plain
#print axioms Goframe.C14.skip_row_spec
#print axioms Goframe.C14.errors_give_no_frame
#print axioms Goframe.C14.unknown_handler_on_null
