import GoframeModel.Props.C06
#print axioms Goframe.C06.less_swo
#print axioms Goframe.C06.less_is_spec
#print axioms Goframe.C06.sort_spec
#print axioms Goframe.C06.sort_missing
#print axioms Goframe.C06.insertionSort_contract
#print axioms Goframe.C06.less_not_swo_without_homog
