import GoframeModel.Props.C02
#print axioms Goframe.C02.alloc_sep
#print axioms Goframe.C02.storeCell_frame
#print axioms Goframe.C02.appendRow_frame
#print axioms Goframe.C02.dropRow_frame
#print axioms Goframe.C02.fillNa_frame
#print axioms Goframe.C02.replaceData_frame
#print axioms Goframe.C02.head_pinned_aliases
#print axioms Goframe.C02.head_copy_is_safe
#print axioms Goframe.C02.step_changes_only_target
