import GoframeModel.Props.C02
#print axioms Goframe.C02.nrows_any_column
