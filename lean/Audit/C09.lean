import GoframeModel.Props.C09
#print axioms Goframe.C09.csv_layer_roundtrip
#print axioms Goframe.C09.needsQuotes_covers
#print axioms Goframe.C09.cell_roundtrip
#print axioms Goframe.C09.C09_roundtrip
#print axioms Goframe.C09.lone_empty_pinned
