import GoframeModel.Props.C05
#print axioms Goframe.C05.numOf_all_widths
#print axioms Goframe.C05.pinned_drops_int64
#print axioms Goframe.C05.gsum_spec
#print axioms Goframe.C05.gmean_spec
#print axioms Goframe.C05.gcount_spec
#print axioms Goframe.C05.gsum_conserves
#print axioms Goframe.C05.gsum_default_cols
