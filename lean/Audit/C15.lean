import GoframeModel.Props.C15
#print axioms Goframe.C15.fillNa_spec
#print axioms Goframe.C15.dropNa_spec
#print axioms Goframe.C15.astype_spec
#print axioms Goframe.C15.addDatetimeIndex_spec
#print axioms Goframe.C15.astype_other_columns
#print axioms Goframe.C15.trunc_toward_zero
