import GoframeModel.Props.C03
#print axioms Goframe.C03.inner_spec
#print axioms Goframe.C03.left_spec
#print axioms Goframe.C03.right_spec
#print axioms Goframe.C03.outer_spec
#print axioms Goframe.C03.join_missing_key
#print axioms Goframe.C03.join_columns
