import GoframeModel.Props.C01
#print axioms Goframe.C01.nrows_any_column
