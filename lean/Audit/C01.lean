import GoframeModel.Props.C01
#print axioms Goframe.C01.nrows_any_column
#print axioms Goframe.C01.step_good
#print axioms Goframe.C01.reach_good
#print axioms Goframe.C01.csv_import_good
#print axioms Goframe.C01.sql_import_good
#print axioms Goframe.C01.appendRow_pinned_ragged
