import Driver.Seq
import GoframeModel.Ops.SqlWrite
/-
  `sqlw` engine (C11, C12, C13): the calls that reached the recording driver are lexed and parsed
  HERE, executed on the abstract transactional database, and compared with the model's plan.
-/
namespace Goframe.Driver
open Goframe Sql

structure TCall where
  kind : String          -- B Q E C RB QA EA
  text : Str
  args : List Cell
  ok : Bool

def pTrace : P (List TCall) := do
  expect "TRACE"
  pList (do
    let kind ← next
    let mut text : Str := []
    let mut args : List Cell := []
    if kind == "Q" || kind == "E" || kind == "QA" || kind == "EA" then
      text ← pStr
      args ← pList pCell
    let okS ← next
    pure { kind := kind, text := text, args := args, ok := okS == "ok" })

def normAssoc (r : List (Str × Cell)) : List (Str × Cell) := r.foldl (fun acc kv => Row.set acc kv.1 kv.2) []

def tableEq (a b : Table) : Bool :=
  a.cols == b.cols && a.rows.length == b.rows.length &&
  (a.rows.zip b.rows).all (fun (x, y) =>
    let x := normAssoc x; let y := normAssoc y
    x.length == y.length && (x.zip y).all (fun (p, q) => p.1 == q.1 && cellApprox p.2 q.2))

def dbEq (a b : DB) : Bool :=
  a.length == b.length && (a.zip b).all (fun (x, y) => x.1 == y.1 && tableEq x.2 y.2)

/-- evolve the abstract database along a trace: (published, working copy inside the transaction);
`none` = some statement could not be parsed or was rejected -/
def evolve (d : Dialect) : List TCall → DB × Option DB → Option (DB × Option DB)
  | [], st => some st
  | c :: rest, (pub, work) =>
    if !c.ok then evolve d rest (pub, if c.kind == "C" then none else work)   -- a failed commit ends the transaction
    else
      match c.kind with
      | "B" => evolve d rest (pub, some pub)
      | "C" => evolve d rest (work.getD pub, none)
      | "RB" => evolve d rest (pub, none)
      | "Q" | "QA" | "N" => evolve d rest (pub, work)
      | "E" =>
        match parse (lex d c.text) with
        | none => none
        | some s =>
          match work with
          | some w => (execP w s c.args).bind (fun w' => evolve d rest (pub, some w'))
          | none => (execP pub s c.args).bind (fun p' => evolve d rest (p', none))
      | "EA" =>
        match parse (lex d c.text) with
        | none => none
        | some s => (execP pub s c.args).bind (fun p' => evolve d rest (p', work))
      | _ => none

/-- statements are compared as token streams: blanks and keyword case do not matter -/
def normTok : Tok → Tok
  | .word w => .word (upper w)
  | t => t

def sameTokens (d : Dialect) (a b : Str) : Bool := (lex d a).map normTok == (lex d b).map normTok

def checkSqlw : P String := do
  let tab ← pOracle
  let _ω := tab.toOracle
  expect "F"
  let f ← pFrame
  let table ← pStr
  let entry ← pNat
  let hasOpts ← pBool
  let ifEx ← pStr
  let dia ← pStr
  let batch ← pInt
  let tm ← pList (do let k ← pStr; let v ← pStr; pure (k, v))
  let ex ← pBool
  let failAt ← pInt
  expect "R"
  let status ← next
  let trace ← pTrace
  let tail ← peek?
  let nextFail := tail == some "NEXTFAIL"
  let cancelled := tail == some "CANCEL" || nextFail
  let o : WriteOpts := { given := hasOpts, ifExists := ifEx, dialect := dia, batchSize := batch, typeMap := tm }
  let fa : Option Nat := if failAt < 0 then none else some failAt.toNat
  let mut c20 := if status == "panic" || status == "hang" then s!"fail:{status}" else "ok"
  -- C20: an unknown IfExists / dialect string or a negative batch size is an invalid request: accepting it is a failure
  if (resolve o).isErr && status == "ok" && failAt < 0 then c20 := firstFail c20 "fail:invalid-request-accepted"
  let own := entry < 2        -- ToSQL / ToSQLContext own the transaction
  let mut c11 := "ok"
  let mut c12 := "ok"
  let mut c13 := "ok"
  let mut corr := "ok"
  if status == "panic" || status == "hang" then
    c11 := s!"fail:{status}"; c12 := s!"fail:{status}"
  -- ---- model trace ----
  let (mtrace, mok) := if own then runTx f table o ex fa else runBody f table o ex fa 0
  let r? := match resolve o with | .ok r => some r | _ => none
  let d := match r? with | some r => r.dialect | none => Dialect.sqlite
  let callEq (m : Call × Bool) (t : TCall) : Bool :=
    m.2 == t.ok && (match m.1 with
      | .begin => t.kind == "B"
      | .commit => t.kind == "C"
      | .rollback => t.kind == "RB"
      | .query text args => t.kind == "Q" && sameTokens d t.text text && t.args == args
      | .exec s args => t.kind == "E" && sameTokens d t.text (render d s) && t.args.length == args.length &&
          (t.args.zip args).all (fun (a, b) => cellApprox a b))
  if cancelled then corr := "ok"
  else if (status == "ok") != mok then corr := s!"fail:status_model={mok}_impl={status}"
  else if !(mtrace.length == trace.length && (mtrace.zip trace).all (fun (m, t) => callEq m t)) then
    corr := "fail:trace-differs"
  -- ---- C13: every statement lexes to one of the three statement shapes whose identifiers are exactly the
  -- table name and the column names: no name ended its identifier early or added tokens ----
  for t in trace do
    if t.kind == "E" || t.kind == "EA" then
      let good := match parse (lex d t.text) with
        | some (.drop tn) => tn == table
        | some (.create tn cols) => tn == table && cols.map (·.1) == f.keys
        | some (.insert tn cols _) => tn == table && cols == f.keys
        | none => false
      if !good then c13 := firstFail c13 "fail:identifier-tokens"
  -- ---- abstract database ----
  let oldRow : List (Str × Cell) := f.keys.map (fun k => (k, Cell.nil))
  let init : DB := if ex then [(table, { cols := f.keys.map (fun k => (k, ([] : List Tok))), rows := [oldRow] })] else []
  let final := evolve d trace (init, if own then none else some init)
  let commitsOk := (trace.filter (fun t => t.kind == "C" && t.ok)).length
  let rollbacks := (trace.filter (fun t => t.kind == "RB")).length
  let failedCommit := trace.any (fun t => t.kind == "C" && !t.ok)
  let beganOk := trace.any (fun t => t.kind == "B" && t.ok)
  let injected := trace.any (fun t => !t.ok)
  -- ---- C12 ----
  if trace.any (fun t => t.kind == "EA" || t.kind == "QA") then c12 := firstFail c12 "fail:statement-outside-transaction"
  if own then
    if injected && status == "ok" then c12 := firstFail c12 "fail:fault-swallowed"
    if status == "ok" then
      if !(commitsOk == 1 && rollbacks == 0 && (trace.getLast?.map (·.kind)) == some "C") then
        c12 := firstFail c12 "fail:commit-protocol"
    else
      if commitsOk != 0 then c12 := firstFail c12 "fail:committed-despite-error"
      if beganOk && rollbacks == 0 && !failedCommit then c12 := firstFail c12 "fail:no-rollback"
      match final with
      | some (pub, _) => if !dbEq pub init then c12 := firstFail c12 "fail:database-changed-by-failed-call"
      | none => pure ()
  else
    if trace.any (fun t => t.kind == "B" || t.kind == "C" || t.kind == "RB") then
      c12 := firstFail c12 "fail:tx-variant-ended-callers-transaction"
    if injected && status == "ok" then c12 := firstFail c12 "fail:fault-swallowed"
  -- a context cancelled before (or while) call k, with further calls still to make, is one of the failures C12 quantifies
  -- over: every later statement runs under the cancelled context and Commit refuses a transaction whose context is done,
  -- so the export must report an error (only a cancellation that arrives during the LAST call may go unnoticed)
  if tail == some "CANCEL" && status == "ok" then
    let nfree := if own then (runTx f table o ex none).1.length else (runBody f table o ex none 0).1.length
    match fa with
    | some k => if k + 1 < nfree then c12 := firstFail c12 "fail:cancellation-ignored"
    | none => pure ()
  -- ---- C11 (fault-free runs) ----
  if fa.isNone then
    match r? with
    | none => if status == "ok" || trace.any (fun t => t.kind != "B" && t.kind != "RB") then c11 := firstFail c11 "fail:invalid-options-accepted"
    | some r =>
      if ex && r.mode == .fail then
        if status == "ok" then c11 := firstFail c11 "fail:existing-table-not-an-error"
        if trace.any (fun t => t.kind == "E" || t.kind == "EA") then c11 := firstFail c11 "fail:wrote-despite-fail-mode"
      else if status != "ok" then c11 := firstFail c11 "fail:spurious-error"
      else
        -- final table
        let work := match final with
          | some (pub, w) => if own then some pub else w
          | none => none
        let created := !(ex && r.mode == .append)
        let expCols : List (Str × List Tok) := if created then
            f.map (fun kc => (kc.1, lex d (columnType d r.typeMap kc.1 kc.2.data)))
          else f.keys.map (fun k => (k, []))
        let newRows := (List.range f.nrows).map (fun i => f.map (fun kc => (kc.1, bound (kc.2.data.getD i .nil))))
        let expTable : Table := { cols := expCols, rows := (if created then [] else [oldRow]) ++ newRows }
        match work with
        | none => c11 := firstFail c11 "fail:statements-rejected-or-unparsable"
        | some w =>
          match w.get? table with
          | none => c11 := firstFail c11 "fail:table-missing"
          | some tb => if !tableEq tb expTable then c11 := firstFail c11 "fail:final-table"
        -- every INSERT: 1..BatchSize rows, placeholders = bound values, PostgreSQL numbering 1..k
        for t in trace do
          if t.kind == "E" then
            match parse (lex d t.text) with
            | some (.insert _ cols rows) =>
              let phs := rows.flatten
              let good := 1 ≤ rows.length && rows.length ≤ r.batch && phs.length == t.args.length &&
                rows.all (fun rw => rw.length == cols.length) &&
                (match d with
                 | .postgres => phs == (List.range phs.length).map (· + 1)
                 | _ => phs.all (· == 0))
              if !good then c11 := firstFail c11 "fail:insert-shape"
            | _ => pure ()
  let ninserts := (trace.filter (fun t => t.kind == "E" && (t.text.take 6 == [73, 78, 83, 69, 82, 84]))).length
  let nontriv := ninserts ≥ 1
  let kindS := if nextFail then "nextfail" else if cancelled then "cancel" else if fa.isSome then "fault" else "plain"
  pure s!"c11={c11} c12={c12} c13={c13} c20={c20} corr={corr} nontrivial={if nontriv then 1 else 0} st_kind={kindS} st_entry={entry} st_inserts={min ninserts 4} st_status={status}"

/-- `qid` engine: QuoteIdentifier against the model and the independent lexer -/
def checkQid : P String := do
  let _ ← pOracle
  expect "Q"
  let name ← pStr
  let mut c13 := "ok"
  let mut corr := "ok"
  for d in [Dialect.sqlite, Dialect.postgres, Dialect.mysql] do
    let st ← next
    let quoted ← pStr
    if st != "ok" then c13 := firstFail c13 s!"fail:{st}"
    if lexQuoted d.q quoted != some (name, []) then c13 := firstFail c13 "fail:not-a-single-identifier-with-that-value"
    if quoted != quoteIdent d.q name then corr := firstFail corr "fail:quoteIdent-differs"
  let special := name.any (fun b => b == 34 || b == 96)
  pure s!"c13={c13} corr={corr} nontrivial={if special then 1 else 0} st_len={min name.length 8}"

end Goframe.Driver
