import Driver.Seq
import GoframeModel.Spec.Group
/-
  `grp` engine (C04, C05): Groupby structure and the grouped aggregates against the partition spec
  and the model.
-/
namespace Goframe.Driver
open Goframe

def normRow (r : Row) : Row := r.foldl (fun acc kv => Row.set acc kv.1 kv.2) []

structure GrpDump where
  ng : Nat
  order : List (Cell × List Row)

def pGrpDump : P GrpDump := do
  expect "NG"
  let ng ← pNat
  expect "KO"
  let order ← pList (do
    let k ← pCell
    let rows ← pList pRow
    pure (k, rows.map normRow))
  pure { ng := ng, order := order }

def rowsApprox (a b : List Row) : Bool :=
  a.length == b.length && (a.zip b).all (fun (x, y) =>
    x.length == y.length && (x.zip y).all (fun (p, q) => p.1 == q.1 && cellApprox p.2 q.2))

def checkGrp : P String := do
  let tab ← pOracle
  let ω := tab.toOracle
  expect "F"
  let f ← pFrame
  -- sums and means are compared at the magnitude of what was summed (see `cellApproxS`)
  let sc := frameMag ω f
  expect "LIST"
  let list ← pBool
  let keys ← pList pStr
  expect "R"
  let status ← next
  let rows := (Spec.rowsOf f).map normRow
  let missing := if list then keys.any (fun k => !f.has k) else !f.has (keys.headD [])
  let mg := if list then f.groupByList ω keys else f.groupByString (keys.headD [])
  let mut c04 := "ok"
  let mut c05 := "ok"
  let mut c20x := "ok"
  let mut corr := "ok"
  let mut known := ""
  let collide := list && Spec.rendersCollide ω keys rows
  let specGroups := Spec.groupsSpec keys rows
  if status == "panic" then
    return s!"c04=fail:panic c05=fail:panic corr=fail:panic nontrivial=0"
  let mut dump : GrpDump := { ng := 0, order := [] }
  if status == "ok" then
    dump ← pGrpDump
    if missing then c04 := "fail:missing-key-accepted"
    else
      -- C04: KeyOrder names every group once in first-appearance order; each group lists exactly its rows
      let good := dump.ng == specGroups.length && dump.order.length == specGroups.length &&
        (dump.order.zip specGroups).all (fun (d, s) =>
          d.2 == s.2 && (list || (match s.1 with | [k] => d.1.goEq k || (d.1 == k) | _ => false))) &&
        Spec.isPartition keys rows (dump.order.zip specGroups |>.map (fun (d, s) => (s.1, d.2)))
      if !good then c04 := "fail:partition"
    match mg with
    | .ok g =>
      let mgroups := g.keyOrder.map (fun k => (k, (Grouped.lookup g.groups k).getD []))
      if !(mgroups.length == dump.order.length &&
           (mgroups.zip dump.order).all (fun (m, d) => m.1 == d.1 && m.2.map normRow == d.2)) then
        corr := "fail:groups-differ"
    | _ => corr := "fail:status_model=err_impl=ok"
  else
    if !missing then c04 := "fail:spurious-error"
    match mg with
    | .err _ => pure ()
    | _ => corr := "fail:status_model=ok_impl=err"
  -- aggregates
  let implGroups := dump.order
  let mut nAgg := 0
  for _ in [0:6] do
    expect "AGG"
    let kind ← next
    let cols ← pList pStr
    expect "R"
    let st ← next
    let res ← if st == "ok" then (do let x ← pFrame; pure (some x)) else pure none
    if status != "ok" then
      -- grouping failed: every aggregation returns that error
      if st != "err" then c04 := firstFail c04 "fail:aggregation-after-error"
    else
      -- model
      let mres := match mg with
        | .ok g => (match kind with
          | "sum" => g.sum cols
          | "mean" => g.mean cols
          | _ => g.count cols)
        | .err e => .err e
        | .panic p => .panic p
      match mres, res with
      | .ok m, some x => if !frameApproxS sc m x then corr := firstFail corr s!"fail:{kind}-differs"
      | .err _, none => pure ()
      | _, _ => corr := firstFail corr s!"fail:{kind}-status"
      -- C05 spec, evaluated on the specification's partition (independent of the implementation's grouping)
      -- no column arguments: every non-key column (for a frame without rows there is no cell to cover,
      -- and the implementation, which learns the names from the grouped rows, emits only GroupKey)
      -- no column arguments: the property demands every NON-KEY column (for a frame without rows there is no cell to
      -- cover, and the implementation, which learns the names from the grouped rows, emits only GroupKey); whether
      -- the key columns themselves are covered as well is not stated, so they are allowed either way
      let noArg := cols.isEmpty && kind != "count"
      let required := if noArg then (if rows.isEmpty then [] else f.keys.filter (fun k => !keys.contains k)) else cols
      let optional := if noArg then f.keys.filter (fun k => keys.contains k) else []
      let mustErr := if noArg then required.contains sGroupKey
        else cols.any (fun c => cols.count c > 1) || cols.contains sGroupKey
      let mayErr := mustErr || optional.contains sGroupKey
      match res with
      | some x =>
        nAgg := nAgg + 1
        let gk := ((x.get? sGroupKey).map (·.data)).getD []
        let present := x.keys.filter (fun c => c != sGroupKey)
        let useCols := if noArg then present else cols
        let okShape := x.rect? && gk.length == specGroups.length &&
          (list || (gk.zip specGroups).all (fun (a, s) => match s.1 with | [k] => a == k | _ => false))
        let okCols := useCols.all (fun c =>
          let col := ((x.get? c).map (·.data)).getD []
          col.length == specGroups.length &&
          (col.zip specGroups).all (fun (v, s) =>
            match kind with
            | "sum" => cellApproxS sc v (.flt false (Spec.groupSumSpec s.2 c))
            | "mean" => cellApproxS sc v (.flt false (Spec.groupMeanSpec s.2 c))
            | _ => v == .int .int s.2.length))
        let okNames := if noArg then
            required.all (fun c => present.contains c) && present.all (fun c => required.contains c || optional.contains c)
          else x.keys == Spec.sortedUnion [sGroupKey] cols
        if !(okShape && okCols && okNames) || mustErr then c05 := firstFail c05 s!"fail:{kind}"
      | none =>
        if !mayErr then
          c05 := firstFail c05 s!"fail:{kind}-error"
          -- a valid request refused (typically after an earlier rejected one left something behind in the grouping)
          c20x := firstFail c20x s!"fail:valid-{kind}-refused"
  -- conservation: the group sums of a numeric column add up to the frame-level Sum
  expect "FS"
  expect "R"
  let fst ← next
  if fst == "ok" then
    let tot ← pList (do let k ← pStr; let c ← pCell; pure (k, c))
    if status == "ok" then
      for (k, c) in tot do
        let col := ((f.get? k).map (·.data)).getD []
        -- the column total is comparable when every cell is a number of a width both sides accept
        if col.all (fun x => (numOf x).isSome) then
          let groupTotal := FVal.sum (specGroups.map (fun s => Spec.groupSumSpec s.2 k))
          if !cellApproxS sc c (.flt false groupTotal) then c05 := firstFail c05 "fail:conservation"
          let implTotal := FVal.sum (implGroups.map (fun g => Spec.groupSumSpec g.2 k))
          if !cellApproxS sc c (.flt false implTotal) then c05 := firstFail c05 "fail:conservation-impl-groups"
  expect "AFTER"
  let after ← pFrame
  if after != f then c04 := firstFail c04 "fail:source-changed"
  -- aggregates of one grouping are independent frames
  let mut c02 := "ok"
  expect "REAGG"
  let ra ← next
  if ra == "ok" then
    let rb ← next
    if rb == "ok" then
      let cmp ← next
      if cmp != "same" then
        c02 := "fail:second-aggregate-sees-edit-of-first-result"
        c05 := firstFail c05 "fail:second-aggregate-sees-edit-of-first-result"
    else if rb == "err" then
      -- the same request on the same grouping succeeded a moment ago: nothing the caller did to the returned frame or
      -- to the returned column list may make it fail now
      c05 := firstFail c05 "fail:second-aggregate-refused-after-first-succeeded"
    else c02 := s!"fail:reaggregate-{rb}"
  -- KeyOrder still names every group once after a returned aggregate was edited in place
  expect "KO2"
  let ko2 ← pList pCell
  if status == "ok" && ko2 != dump.order.map (·.1) then
    c04 := firstFail c04 "fail:keyorder-changed-by-editing-a-returned-aggregate"
  -- the groups are still the partition that was dumped before the aggregations ran (same rows, same cells)
  expect "G2"
  if status == "ok" then
    let dump2 ← pGrpDump
    if dump2.ng != dump.ng || dump2.order != dump.order then
      c04 := firstFail c04 "fail:groups-changed-by-aggregating"
  -- grouping again after an in-place edit sees the edit
  expect "REGROUP"
  let rg ← next
  if rg != "skip" then
    let f2 ← pFrame
    if rg == "ok" then
      let d2 ← pGrpDump
      let rows2 := (Spec.rowsOf f2).map normRow
      let spec2 := Spec.groupsSpec keys rows2
      let collide2 := list && Spec.rendersCollide ω keys rows2
      let good2 := d2.ng == spec2.length && d2.order.length == spec2.length &&
        (d2.order.zip spec2).all (fun (d, s) => d.2 == s.2)
      if !good2 && !collide2 then c04 := firstFail c04 "fail:stale-or-wrong-partition-after-edit"
    else if rg == "panic" then c04 := firstFail c04 "fail:regroup-panic"
  let c20 := if status == "panic" then "fail:panic" else c20x
  -- the recorded finding K1: key given as a list, two distinct tuples render alike, implementation = model
  if (c04 != "ok" || c05 != "ok") && collide && corr == "ok" then known := " known=K1"
  let nontriv := specGroups.length ≥ 2 && rows.length > specGroups.length
  pure s!"c04={c04} c05={c05} c02={c02} c20={c20} corr={corr}{known} nontrivial={if nontriv then 1 else 0} st_groups={min specGroups.length 6} st_list={if list then 1 else 0} st_collide={if collide then 1 else 0}"

end Goframe.Driver
