import Driver.Seq
import GoframeModel.Ops.SqlRead
import GoframeModel.Std.Csv
/-  `sqlr` engine (C14): FromSQL* against a configured result set. -/
namespace Goframe.Driver
open Goframe SqlRead

/-- C14 as a function of the result set: expected frame, or `none` = must be an error -/
def specFromSQL (ω : Oracle) (nilHandle : Bool) (query : Str) (queryErr : Bool) (rs : ResultSet) (o : Opts) : Option Frame :=
  let tys := rs.types.map scanTyOf
  let isNull (c : Cell) : Bool := c == .nil
  let anyNull := rs.rows.any (fun r => r.any isNull)
  let handlerOk := match o.handler with
    | .dflt => true
    | .byColumn _ => true
    | .named s => s == sNilH || s == sZero || s == sSkip
    | .badType => false
  let skipping := match o.handler with
    | .named s => s == sSkip
    | _ => false
  let scanOk := rs.rows.all (fun r => scanRowOk tys r)
  let dup := Frame.hasDup rs.names
  if nilHandle || query.isEmpty || queryErr || rs.errAt.isSome || !scanOk || dup || (anyNull && !handlerOk) then none
  else
    let kept := if skipping then rs.rows.filter (fun r => !(r.any isNull)) else rs.rows
    -- cell: typed value, or the policy's value for NULL; then date parsing for listed columns
    let cellOf (name : Str) (ty : ScanTy) (v : Cell) : Option Cell :=
      let base : Cell := if isNull v then
          (match handleNull o.handler name ty with
           | .ok (.value c) => c
           | _ => .nil)
        else v
      if o.parseDates.contains name then
        (match parseDate ω base with
         | .ok c => some c
         | _ => none)
      else some base
    let cells := kept.map (fun r => (rs.names.zip (tys.zip r)).map (fun (n, ty, v) => cellOf n ty v))
    if cells.any (fun r => r.any Option.isNone) then none
    else
      let rows : List (List Cell) := cells.map (fun r => r.map (fun c => c.getD .nil))
      some ((rs.names.zipIdx.map (fun (n, j) =>
        (n, ({ name := n, data := rows.map (fun r => r.getD j .nil) } : Col)))).foldl (fun acc kc => Frame.insertCol kc acc) [])

def checkSqlr : P String := do
  let tab ← pOracle
  let ω := tab.toOracle
  expect "IN"
  let entry ← pNat
  let nilHandle ← pBool
  let query ← pStr
  let queryErr ← pBool
  let names ← pList pStr
  let types ← pList pStr
  let nrows ← pNat
  let rows ← pMany nrows (pMany names.length pCell)
  let errAtI ← pInt
  let hk ← pNat
  let mut handler : Handler := .dflt
  if hk == 1 then handler := .named sNilH
  else if hk == 2 then handler := .named sZero
  else if hk == 3 then handler := .named sSkip
  else if hk == 5 then handler := .named (← pStr)
  else if hk == 4 then
    let m ← pList (do let k ← pStr; let c ← pCell; pure (k, c))
    handler := .byColumn m
  else if hk == 6 then handler := .badType
  let pd ← pList pStr
  expect "R"
  let status ← next
  let mut res : Option Frame := none
  let mut partialFrame := false
  if status == "ok" then res := some (← pFrame)
  else if (← peek?) == some "PARTIAL" then
    let _ ← next
    partialFrame := true
  let rs : ResultSet := { names := names, types := types, rows := rows, errAt := if errAtI < 0 then none else some errAtI.toNat }
  let o : Opts := { handler := handler, parseDates := pd }
  let mut c14 := "ok"
  let mut corr := "ok"
  if status == "panic" then c14 := "fail:panic"
  if partialFrame then c14 := firstFail c14 "fail:partial-frame-with-error"
  -- a row that is skipped for a NULL but also holds an unparsable date in a listed column: the property
  -- does not say which wins (the code reports the date error if it comes first); not judged by the spec
  let skipping := match handler with
    | .named s => s == sSkip
    | _ => false
  let tys := types.map scanTyOf
  let ambiguous := skipping && rows.any (fun r => r.any (· == .nil) &&
    (names.zip (tys.zip r)).any (fun (n, _, v) => pd.contains n && v != .nil && !(parseDate ω v).isOk))
  if !ambiguous then
   match specFromSQL ω nilHandle query queryErr rs o, res with
   | some e, some x => if !frameApprox e x then c14 := firstFail c14 "fail:frame"
   | none, none => pure ()
   | some _, none => c14 := firstFail c14 "fail:spurious-error"
   | none, some _ => c14 := firstFail c14 "fail:error-swallowed"
  match fromSQL ω nilHandle query queryErr rs o, res with
  | .ok e, some x => if !frameApprox e x then corr := "fail:frame-differs"
  | .err _, none => pure ()
  | _, _ => corr := "fail:status"
  let hasNull := rows.any (fun r => r.any (· == .nil))
  let nontriv := status == "ok" && rows.length ≥ 2 && hasNull
  let c20 := if status == "panic" then "fail:panic" else "ok"
  pure s!"c14={c14} c20={c20} corr={corr} nontrivial={if nontriv then 1 else 0} st_handler={hk} st_entry={entry} st_status={status}"

end Goframe.Driver
