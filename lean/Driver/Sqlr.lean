import Driver.Seq
import GoframeModel.Ops.SqlRead
import GoframeModel.Std.Csv
import GoframeModel.Spec.SqlRead
/-  `sqlr` engine (C14): FromSQL* against a configured result set. -/
namespace Goframe.Driver
open Goframe SqlRead

def checkSqlr : P String := do
  let tab ← pOracle
  let ω := tab.toOracle
  expect "IN"
  let entry ← pNat
  let nilHandle ← pBool
  let query ← pStr
  let queryErr ← pBool
  let names ← pList pStr
  let types ← pList pStr
  let nrows ← pNat
  let rows ← pMany nrows (pMany names.length pCell)
  let errAtI ← pInt
  let hk ← pNat
  let mut handler : Handler := .dflt
  if hk == 1 then handler := .named sNilH
  else if hk == 2 then handler := .named sZero
  else if hk == 3 then handler := .named sSkip
  else if hk == 5 then handler := .named (← pStr)
  else if hk == 4 then
    let m ← pList (do let k ← pStr; let c ← pCell; pure (k, c))
    handler := .byColumn m
  else if hk == 6 then handler := .badType
  let pd ← pList pStr
  expect "R"
  let status ← next
  let mut res : Option Frame := none
  let mut partialFrame := false
  let mut post : Option (Row × String × Frame) := none
  if status == "ok" then
    res := some (← pFrame)
    if (← peek?) == some "POST" then
      let _ ← next
      let row ← pRow
      let pst ← next
      let fr ← pFrame
      post := some (row, pst, fr)
  else if (← peek?) == some "PARTIAL" then
    let _ ← next
    partialFrame := true
  let rs : ResultSet := { names := names, types := types, rows := rows, errAt := if errAtI < 0 then none else some errAtI.toNat }
  let o : Opts := { handler := handler, parseDates := pd }
  let mut c14 := "ok"
  let mut corr := "ok"
  if status == "panic" then c14 := "fail:panic"
  if partialFrame then c14 := firstFail c14 "fail:partial-frame-with-error"
  -- rows skipped for a NULL that also hold an unparsable listed date are not judged by the spec (Spec.ambiguous)
  let ambiguous := Spec.ambiguous ω rs o
  if !ambiguous then
   match Spec.specFromSQL ω nilHandle query queryErr rs o, res with
   | some e, some x => if !frameApprox e x then c14 := firstFail c14 "fail:frame"
   | none, none => pure ()
   | some _, none => c14 := firstFail c14 "fail:spurious-error"
   | none, some _ => c14 := firstFail c14 "fail:error-swallowed"
  match fromSQL ω nilHandle query queryErr rs o, res with
  | .ok e, some x => if !frameApprox e x then corr := "fail:frame-differs"
  | .err _, none => pure ()
  | _, _ => corr := "fail:status"
  let hasNull := rows.any (fun r => r.any (· == .nil))
  let nontriv := status == "ok" && rows.length ≥ 2 && hasNull
  -- C20: a nil handle, an empty query, an unknown handler string or a handler of the wrong type is an invalid
  -- request; accepting it (where the specification demands an error) is a C20 failure too
  let invalidReq := nilHandle || query.isEmpty || hk == 5 || hk == 6
  let c20 := if status == "panic" then "fail:panic"
    else if invalidReq && c14 == "fail:error-swallowed" then "fail:invalid-request-accepted" else "ok"
  -- C01 on an import: whatever is returned is rectangular and stored under own names
  let mut c01 := match res with
    | some f => if f.rect? then "ok" else "fail:not-rectangular"
    | none => "ok"
  -- a row appended to the imported frame lands in its own row and nowhere else
  match res, post with
  | some f, some (row, pst, fr) =>
    if pst != "ok" then c01 := firstFail c01 s!"fail:append-after-import-{pst}"
    else if fr != f.appendRow row then c01 := firstFail c01 "fail:append-after-import-moved-cells"
  | _, _ => pure ()
  pure s!"c01={c01} c14={c14} c20={c20} corr={corr} nontrivial={if nontriv then 1 else 0} st_handler={hk} st_entry={entry} st_status={status}"

end Goframe.Driver
