import Driver.Sqlw
import GoframeModel.Spec.Agg
/-
  `misc` engine (C20): the public accessors and helpers that no other engine calls. Every call ran under
  recover(); the verdict is `fail` for a panic, for an out-of-range index that is not signalled (Column.At
  has an error result, Series.At answers nil), for a wrong answer on a valid request, and for a frame
  that is not exactly as it was afterwards.
-/
namespace Goframe.Driver
open Goframe Sql

def checkMisc : P String := do
  let tab ← pOracle
  let ω := tab.toOracle
  expect "F"
  let f ← pFrame
  let mut c20 := "ok"
  let mut nValid := 0
  for kc in f do
    let d := kc.2.data
    expect "LEN"
    let st ← next
    let l1 ← pInt
    let l2 ← pInt
    if st != "ok" then c20 := firstFail c20 s!"fail:len-{st}"
    else if l1 != (d.length : Int) || l2 != (d.length : Int) then c20 := firstFail c20 "fail:len"
    for _ in [0:3] do
      expect "AT"
      let i ← pInt
      let st1 ← next
      let v ← if st1 == "ok" then (do let c ← pCell; pure (some c)) else pure none
      let st2 ← next
      let sv ← if st2 == "ok" then (do let c ← pCell; pure (some c)) else pure none
      let inRange := decide (0 ≤ i) && decide (i < (d.length : Int))
      if st1 == "panic" || st2 == "panic" then c20 := firstFail c20 "fail:at-panic"
      else if inRange then
        nValid := nValid + 1
        if v != some (d.getD i.toNat .nil) || sv != some (d.getD i.toNat .nil) then c20 := firstFail c20 "fail:at-value"
      else
        if st1 != "err" then c20 := firstFail c20 "fail:column-at-out-of-range-not-signalled"
        if sv != some .nil then c20 := firstFail c20 "fail:series-at-out-of-range"
    expect "ASF"
    let ast ← next
    let fs ← if ast == "ok" then (do
        let xs ← pList pCell
        pure (some (xs.filterMap (fun c => match c with | .flt _ x => some x | _ => none)))) else pure none
    if ast == "panic" then c20 := firstFail c20 "fail:asfloat64-panic"
    match Spec.valuesOf ω d, fs with
    | some e, some g =>
      if !(e.length == g.length && (e.zip g).all (fun (a, b) => cellApprox (.flt false a) (.flt false b))) then
        c20 := firstFail c20 "fail:asfloat64-values"
    | none, none => pure ()
    | some _, none => c20 := firstFail c20 "fail:asfloat64-spurious-error"
    | none, some _ => c20 := firstFail c20 "fail:asfloat64-non-numeric-cell-not-signalled"
  for _ in [0:2] do
    expect "SEL"
    let name ← pStr
    let st ← next
    if st == "panic" then c20 := firstFail c20 "fail:select-panic"
    if st == "ok" then
      let live ← pBool
      if !f.has name then c20 := firstFail c20 "fail:select-unknown-column-accepted"
      else if !live then c20 := firstFail c20 "fail:select-not-the-live-column"
    else if f.has name then c20 := firstFail c20 "fail:select-spurious-error"
  expect "STR"
  let sst ← next
  let _ ← pInt
  if sst != "ok" then c20 := firstFail c20 s!"fail:string-{sst}"
  -- typed columns
  expect "TYPED"
  let name ← pStr
  let m ← pNat
  let _useInts ← pBool
  let vals ← pMany m pCell
  let tst ← next
  let ct ← next
  if ct == "CONV" then
    let cn ← pStr
    let cd ← pList pCell
    if cn != name || cd != vals then c20 := firstFail c20 "fail:convert-to-any-column"
  else if tst != "panic" then c20 := firstFail c20 "fail:convert-missing"
  let target ← pFrame
  if tst == "panic" then c20 := firstFail c20 "fail:typed-panic"
  match f.addColumn { name := name, data := vals }, tst with
  | .ok e, "ok" => if target != e then c20 := firstFail c20 "fail:add-typed-column"
  | .err _, "err" => if target != f then c20 := firstFail c20 "fail:frame-changed-on-error"
  | _, _ => if tst != "panic" then c20 := firstFail c20 "fail:add-typed-column-status"
  -- dialect helpers
  expect "DIAL"
  let di ← pNat
  let idx ← pInt
  let dst ← next
  if dst != "ok" then c20 := firstFail c20 s!"fail:dialect-{dst}"
  else
    let d : Dialect := match di with | 0 => .sqlite | 1 => .postgres | _ => .mysql
    let ph ← pStr
    let te ← pStr
    let tbl ← pStr
    let cols ← pList (do let k ← pStr; let v ← pStr; pure (k, v))
    let ctext ← pStr
    if 0 ≤ idx && ph != placeholder d idx.toNat then c20 := firstFail c20 "fail:placeholder"
    if te != existsQuery d then c20 := firstFail c20 "fail:table-exists-sql"
    if !sameTokens d ctext (render d (.create tbl cols)) then c20 := firstFail c20 "fail:create-table-sql"
  expect "GACN"
  let gst ← next
  let _ ← pInt
  if gst != "ok" then c20 := firstFail c20 s!"fail:get-all-column-names-{gst}"
  expect "AFTER"
  let after ← pFrame
  if after != f then c20 := firstFail c20 "fail:frame-changed"
  pure s!"c20={c20} corr=ok nontrivial={if nValid ≥ 1 then 1 else 0} st_cols={f.length}"

end Goframe.Driver
