import Driver.Seq
import GoframeModel.Spec.Resample
/-  `rsm` engine (C18). -/
namespace Goframe.Driver
open Goframe

/-- `Spec.resampleSpec` with the truncation supplied from outside: for timestamps of a location with daylight-saving
transitions the bucket start is `time.Date(y, m, d, …, loc)` as the Go standard library computes it (the harness
sends that table); the Lean model's own `truncate` is for fixed-offset locations only -/
def resampleSpecWith (tr : GoTime → GoTime) (ω : Oracle) (f : Frame) (k : Str) (freq : Str) (agg : AggFn) : Option Frame :=
  if !f.has k then none
  else match parseFreq freq with
    | none => none
    | some _ =>
      let rows := Spec.rowsOf f
      let ts := rows.map (fun r => Spec.timeOf (Row.getD r k))
      if ts.any Option.isNone then none
      else
        let bucketOf (r : Row) : Option GoTime := (Spec.timeOf (Row.getD r k)).map tr
        let bs := Spec.bucketsAsc (rows.filterMap bucketOf)
        some (Spec.ofRows f.keys (bs.map (fun b =>
          f.keys.map (fun c =>
            if c == k then (c, Cell.time b)
            else (c, agg.eval ω ((rows.filter (fun r => bucketOf r == some b)).map (fun r => Row.getD r c)))))))

def checkRsm : P String := do
  let tab ← pOracle
  let ω := tab.toOracle
  expect "F"
  let f ← pFrame
  let col ← pStr
  let freq ← pStr
  let aggN ← pNat
  let agg ← liftE (aggFnOf aggN)
  expect "R"
  let st ← next
  let res ← if st == "ok" then (do let x ← pFrame; pure (some x)) else pure none
  expect "REP"
  let reps ← pNat
  let ndiff ← pNat
  expect "AFTER"
  let after ← pFrame
  -- daylight-saving location: bucket starts from the standard library's own time.Date (table sent by the harness)
  let mut trTable : List (GoTime × GoTime) := []
  let dst := (← peek?) == some "TR"
  if dst then
    let _ ← next
    trTable ← pList (do
      let a ← pCell
      let b ← pCell
      match a, b with
      | .time x, .time y => pure (x, y)
      | _, _ => throw "TR expects times")
  let tbl := trTable
  let trF : GoTime → GoTime := fun t => ((tbl.find? (fun p => p.1 == t)).map (·.2)).getD t
  let mut c18 := "ok"
  let mut corr := "ok"
  if st == "panic" then c18 := "fail:panic"
  let expected := if dst then resampleSpecWith trF ω f col freq agg else Spec.resampleSpec ω f col freq agg
  match expected, res with
  | some e, some x => if !frameApprox e x then c18 := firstFail c18 "fail:buckets"
  | none, none => pure ()
  | some _, none => c18 := firstFail c18 "fail:spurious-error"
  | none, some _ => c18 := firstFail c18 "fail:invalid-request-accepted"
  if ndiff != 0 then c18 := firstFail c18 s!"fail:{ndiff}-of-{reps}-repeats-differ"
  if after != f then c18 := firstFail c18 "fail:source-changed"
  if !dst then
    match f.resample ω col freq agg, res with
    | .ok e, some x => if !frameApprox e x then corr := "fail:frame-differs"
    | .err _, none => if st != "err" then corr := "fail:status"
    | _, _ => corr := "fail:status"
  let nb := match res with
    | some x => x.nrows
    | none => 0
  let nontriv := nb ≥ 2 && f.nrows > nb
  let c20 := if st == "panic" then "fail:panic" else "ok"
  pure s!"c18={c18} c20={c20} corr={corr} nontrivial={if nontriv then 1 else 0} st_buckets={min nb 6} st_status={st}"

end Goframe.Driver
