import Driver.Seq
import GoframeModel.Spec.Resample
/-  `rsm` engine (C18). -/
namespace Goframe.Driver
open Goframe

def checkRsm : P String := do
  let tab ← pOracle
  let ω := tab.toOracle
  expect "F"
  let f ← pFrame
  let col ← pStr
  let freq ← pStr
  let aggN ← pNat
  let agg ← liftE (aggFnOf aggN)
  expect "R"
  let st ← next
  let res ← if st == "ok" then (do let x ← pFrame; pure (some x)) else pure none
  expect "REP"
  let reps ← pNat
  let ndiff ← pNat
  expect "AFTER"
  let after ← pFrame
  let mut c18 := "ok"
  let mut corr := "ok"
  if st == "panic" then c18 := "fail:panic"
  match Spec.resampleSpec ω f col freq agg, res with
  | some e, some x => if !frameApprox e x then c18 := firstFail c18 "fail:buckets"
  | none, none => pure ()
  | some _, none => c18 := firstFail c18 "fail:spurious-error"
  | none, some _ => c18 := firstFail c18 "fail:invalid-request-accepted"
  if ndiff != 0 then c18 := firstFail c18 s!"fail:{ndiff}-of-{reps}-repeats-differ"
  if after != f then c18 := firstFail c18 "fail:source-changed"
  match f.resample ω col freq agg, res with
  | .ok e, some x => if !frameApprox e x then corr := "fail:frame-differs"
  | .err _, none => if st != "err" then corr := "fail:status"
  | _, _ => corr := "fail:status"
  let nb := match res with
    | some x => x.nrows
    | none => 0
  let nontriv := nb ≥ 2 && f.nrows > nb
  let c20 := if st == "panic" then "fail:panic" else "ok"
  pure s!"c18={c18} c20={c20} corr={corr} nontrivial={if nontriv then 1 else 0} st_buckets={min nb 6} st_status={st}"

end Goframe.Driver
