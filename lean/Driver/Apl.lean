import Driver.Seq
/-  `apl` engine (C17): Apply under a forced completion order against the sequential reference. -/
namespace Goframe.Driver
open Goframe

/-- the callbacks of this engine: those of the transition system (tags 0-9) and three more — results of mixed
kinds, and (column-wise) a slice longer / shorter than the column. `Frame.applyCol` / `applyRowWith` and the
C17 theorems are stated for an arbitrary `List Cell → ApplyRes`, so these need no new proof. -/
def aplEval (tag : Nat) : Except String (List Cell → ApplyRes) :=
  match tag with
  | 10 => pure (fun xs => match xs.headD .nil with
      | .nil => .scalar (.str [110, 47, 97])
      | .str _ => .scalar (.str [110, 47, 97])
      | _ => .slice xs)
  | 11 => pure (fun xs => .slice (xs ++ [.int .int 7]))
  | 12 => pure (fun xs => .slice xs.dropLast)
  | 15 => pure (fun xs => match xs.headD .nil with
      | .nil => .nilRes
      | v => .slice (xs ++ [v, v]))   -- longer than the row: the surplus is ignored; nil: the row stays nil
  | 14 => pure (fun xs => .slice (xs.filter (fun c => !c.isNil)))   -- the non-nil cells: lengths differ between columns
  -- a row validator: an `error` VALUE for rows starting with a negative int (a single value like any other), else the row
  | 13 => pure (fun xs => match xs.headD .nil with
      | .int .int v => if v < 0 then .scalar (unknownCell "*errors.errorString".toUTF8.toList) else .slice xs
      | _ => .slice xs)
  | n => (applyFnOf n).map (·.eval)

def checkApl : P String := do
  let tab ← pOracle
  let _ω := tab.toOracle
  expect "F"
  let f ← pFrame
  let axis ← pNat
  let tagN ← pNat
  let fnEval ← liftE (aplEval tagN)
  expect "SCHED"
  let order ← pList pNat
  expect "R"
  let st ← next
  let res ← if st == "ok" then pFrame? else pure none
  expect "CALLS"
  let calls ← pList (pList pCell)
  expect "ARGMUT"
  let argmut ← pNat
  expect "AFTER"
  let after ← pFrame
  let mut c17 := "ok"
  let mut corr := "ok"
  if st == "panic" || st == "hang" then c17 := s!"fail:{st}"
  if argmut != 0 then c17 := firstFail c17 "fail:callback-argument-overwritten"
  if after != f then c17 := firstFail c17 "fail:source-changed"
  -- the reference: a sequential loop
  let seqRef := if axis == 1 then f.applyRowSeq fnEval else f.applyCol fnEval
  match seqRef, res with
  | .ok e, some x => if !frameApprox e x then c17 := firstFail c17 "fail:differs-from-sequential"
  | .err _, none => if st != "err" then c17 := firstFail c17 "fail:status"
  | _, _ => c17 := firstFail c17 "fail:status"
  -- exactly one call per row (axis 1: the row's cells in sorted-column order) / per column (axis 0)
  let expectedCalls := if axis == 1 then (if f.isEmpty then [] else (List.range f.nrows).map (Frame.rowCells f))
                       else f.map (fun kc => kc.2.data)
  let callsOk := match seqRef with
    | .ok _ => Spec.isPermOf calls expectedCalls
    | _ => true
  if !callsOk then c17 := firstFail c17 "fail:calls"
  -- the model under the schedule that was actually forced
  if axis == 1 && st == "ok" && order.length == f.nrows then
    match f.applyRowWith order fnEval, res with
    | .ok e, some x => if !frameApprox e x then corr := "fail:schedule-model-differs"
    | _, _ => corr := "fail:status"
  let nontriv := axis == 1 && f.nrows ≥ 2 && order != List.range f.nrows
  let c20 := if st == "panic" || st == "hang" then s!"fail:{st}" else "ok"
  pure s!"c17={c17} c20={c20} corr={corr} nontrivial={if nontriv then 1 else 0} st_axis={axis} st_rows={min f.nrows 9} st_fn={tagN}"

end Goframe.Driver
