import Driver.Proto
import GoframeModel.Spec.Select
import GoframeModel.Spec.Join
import GoframeModel.Spec.SortDedup
import GoframeModel.Spec.Invalid
import GoframeModel.Std.Csv
/-
  `seq` engine: a history of public operations over a pool of live frames. After every step the
  harness dumps every live frame; the driver
    * evaluates the specs of C01 (rectangular, stored under own name, Nrows = common length),
      C02 (frames other than the target are cell-for-cell unchanged), C20 (no panic; an error leaves
      every frame unchanged) directly on the implementation's dumps, and
    * compares the implementation's pool with the model's `step`.
-/
namespace Goframe.Driver
open Goframe

def ratAbs (q : Rat) : Rat := if q < 0 then -q else q

/-- equality of cells up to float rounding: relative 2^-40 of the two values, plus an absolute slack of
2^-40 · `sc`. The model adds finite floats as exact rationals; IEEE summation of x₁…xₙ is off by at most
(n-1)·2^-53·Σ|xᵢ|, which is NOT small relative to the result when the terms cancel
(1 + 3·(-0.333…) ≈ 1.4e-17 exactly, 2.8e-17 in float64). So wherever the compared value is a float sum or
mean, `sc` is Σ|xᵢ| over the numeric cells of the summed frame; everywhere else `sc = 0`. -/
def cellApproxS (sc : Rat) (a b : Cell) : Bool :=
  match a, b with
  | .flt s (.fin x), .flt r (.fin y) =>
    s == r && (x == y || ratAbs (x - y) * 1099511627776 ≤ ratAbs x + ratAbs y + sc)
  | .flt s .nzero, .flt r (.fin y) => s == r && (y == 0 || ratAbs y * 1099511627776 ≤ sc)
  | .flt s (.fin x), .flt r .nzero => s == r && (x == 0 || ratAbs x * 1099511627776 ≤ sc)
  | a, b => a == b

def cellApprox (a b : Cell) : Bool := cellApproxS 0 a b

/-- Σ|x| over the cells of a frame that the aggregations read as finite numbers -/
def frameMag (ω : Oracle) (f : Frame) : Rat :=
  f.foldl (fun acc kc => kc.2.data.foldl (fun a c =>
    match ω.toFloat c with
    | some (.fin x) => a + ratAbs x
    | _ => a) acc) 0

def listApproxS (sc : Rat) : List Cell → List Cell → Bool
  | [], [] => true
  | a :: as, b :: bs => cellApproxS sc a b && listApproxS sc as bs
  | _, _ => false

def frameApproxS (sc : Rat) : Frame → Frame → Bool
  | [], [] => true
  | (k, c) :: fs, (k', c') :: gs =>
    k == k' && c.name == c'.name && listApproxS sc c.data c'.data && frameApproxS sc fs gs
  | _, _ => false

def poolApproxS (sc : Rat) : Pool → Pool → Bool
  | [], [] => true
  | f :: fs, g :: gs => frameApproxS sc f g && poolApproxS sc fs gs
  | _, _ => false

def listApprox := listApproxS 0
def frameApprox := frameApproxS 0
def poolApprox := poolApproxS 0

structure DumpEntry where
  same : Bool
  frame : Frame
  nrows : Int

def pDump (prev : Pool) : P (List DumpEntry) := do
  expect "D"
  let k ← pNat
  let mut out : Array DumpEntry := #[]
  for i in [0:k] do
    let t ← next
    if t == "=" then
      match prev[i]? with
      | some f => out := out.push { same := true, frame := f, nrows := -1 }
      | none => throw "= without previous frame"
    else if t == "F" then
      let f ← pFrame
      let n ← pInt
      out := out.push { same := false, frame := f, nrows := n }
    else throw s!"bad dump token {t}"
  pure out.toList

structure SeqVerdict where
  c01 : String := "ok"
  c02 : String := "ok"
  c20 : String := "ok"
  corr : String := "ok"
  okSteps : Nat := 0
  errSteps : Nat := 0
  inplaceOk : Nat := 0
  rel : List (String × String) := []
  bigOk : Nat := 0     -- successful steps whose target had at least 2 rows and 1 column

def firstFail (cur new : String) : String := if cur == "ok" then new else cur

/-- is every key of `by_` present and the result a sorted permutation?  Used for sorts of more than
12 rows, where `sort.Sort` is not the insertion sort of the model. -/
def sortRel (ω : Oracle) (src out : Frame) (by_ : List Str) (asc : Bool) : Bool :=
  let rowsS := src.rows
  let rowsO := out.rows
  src.keys == out.keys && rowsS.length == rowsO.length &&
  rowsS.all (fun r => rowsS.count r == rowsO.count r) &&
  -- a sort column mixing numbers and non-numeric text has no order (`C06.less_not_swo_without_homog`): what the
  -- unstable `sort.Sort` makes of it is not determined, only "whole rows, a permutation" is (as in `Spec.sortSpec`)
  ((by_.map (fun k => Spec.classify ω ((Spec.rowsOf src).map (fun r => Row.getD r k)))).contains .mixed ||
   (let keyIdx := by_.map (fun k => src.keys.idxOf k)
    let kc (r : List Cell) := keyIdx.map (fun i => r.getD i .nil)
    let ks := rowsO.map kc
    (List.range (ks.length - 1)).all (fun i => !lessCells ω asc (ks.getD (i + 1) []) (ks.getD i []))))

def keyHasNaN (f : Frame) (by_ : List Str) : Bool :=
  by_.any (fun k => match f.get? k with
    | some c => c.data.any (fun x => match x with | .flt _ .nan => true | _ => false)
    | none => false)

/-- the per-operation specification (C03, C06, C07, C08, C15, C19) evaluated on the implementation's
own input and output: returns the property key and whether the observed outcome satisfies it -/
def relSpec (ω : Oracle) (pre : Pool) (op : Op) (status : String) (post : Pool) : Option (String × Bool) :=
  let res := post.getLast?.getD []
  -- a request that must be refused: an error, and every live frame exactly as it was
  let refused : Bool := status == "err" && post == pre
  let derivedOk (exp : Frame) : Bool := status == "ok" && post.length == pre.length + 1 && frameApprox exp res
  let mutOk (t : Nat) (exp : Frame) : Bool := status == "ok" && frameApprox exp (post.getD t [])
  let optD (e : Option Frame) : Bool := match e with
    | some x => derivedOk x
    | none => refused
  let optM (t : Nat) (e : Option Frame) : Bool := match e with
    | some x => mutOk t x
    | none => refused
  match op with
  | .head t n => pre[t]?.map (fun f => ("c08", derivedOk (Spec.headSpec f n)))
  | .tail t n => pre[t]?.map (fun f => ("c08", derivedOk (Spec.tailSpec f n)))
  | .rowSlice t a b => pre[t]?.map (fun f => ("c08", derivedOk (Spec.rowSliceSpec f a b)))
  | .filter t bits => pre[t]?.map (fun f => ("c08", derivedOk (Spec.filterSpec f (bitsPred bits))))
  | .iloc t rs cs => pre[t]?.map (fun f => ("c08", optD (Spec.ilocSpec f rs cs)))
  | .loc t ls cs => pre[t]?.map (fun f => ("c08", optD (Spec.locSpec f ls cs)))
  | .multiSelect t ks => pre[t]?.map (fun f => ("c08", optD (Spec.multiSelectSpec f ks)))
  | .dropRow t i => pre[t]?.map (fun f => ("c08", optM t (Spec.dropRowSpec f i)))
  | .dropColumn t k => pre[t]?.map (fun f => ("c08", optM t (Spec.dropColumnSpec f k)))
  | .shift t q => pre[t]?.map (fun f => ("c19", derivedOk (Spec.shiftSpec f q)))
  | .fillNa t v => pre[t]?.map (fun f => ("c15", mutOk t (Spec.fillNaSpec f v)))
  | .dropNa t => pre[t]?.map (fun f => ("c15", mutOk t (Spec.dropNaSpec f)))
  | .astype t k ty => pre[t]?.map (fun f => ("c15", optM t (Spec.astypeSpec ω f k ty)))
  | .addDatetimeIndex t k l => pre[t]?.map (fun f => ("c15", optM t (Spec.addDatetimeIndexSpec ω f k l)))
  | .join kind t u key => match pre[t]?, pre[u]? with
    | some l, some r => some ("c03", optD (Spec.joinSpec kind l r key))
    | _, _ => none
  | .sortValues t by_ asc => pre[t]?.map (fun f =>
      ("c06", if by_.any (fun k => !f.has k) then refused
              else status == "ok" && post.length == pre.length + 1 &&
                -- NaN is not ordered: a key column holding NaN is outside the ordering clause (rows still whole, a permutation)
                (if keyHasNaN f by_ then res.keys == f.keys && res.rect? && Spec.isPermOf (Spec.rowsOf res) (Spec.rowsOf f)
                 else Spec.sortSpec ω f res by_ asc)))
  | .dedup t sub keep ip => pre[t]?.map (fun f =>
      ("c07", match Spec.dedupSpec f sub keep with
        | none => refused
        | some e => if ip then mutOk t e else derivedOk e))
  | _ => none

partial def seqSteps (ω : Oracle) (n : Nat) (idx : Nat) (model impl : Pool) (v : SeqVerdict) : P SeqVerdict := do
  if idx ≥ n then return v
  let kindTok ← next
  if kindTok == "QY" then
    -- read-only accessors: Row(i), ColumnNames(), Nrows()/Ncols()  (C08)
    let q ← next
    let t ← pNat
    let f := impl.getD t []
    let mut good := true
    if q == "qrow" then
      let i ← pInt
      expect "R"
      let status ← next
      match Spec.rowSpec f i with
      | some r =>
        if status == "ok" then
          let got ← pRow
          good := got == (r.foldl (fun acc kv => Row.set acc kv.1 kv.2) [])
        else good := false
      | none =>
        if status == "ok" then
          let _ ← pRow
        good := status == "err"
    else if q == "qnames" then
      expect "R"
      let status ← next
      if status == "ok" then
        let names ← pList pStr
        good := names == f.keys
      else good := false
    else
      expect "R"
      let status ← next
      if status == "ok" then
        let nr ← pInt
        let nc ← pInt
        -- "Nrows/Ncols agree with the content": every column has Nrows cells (no row count agrees with a ragged frame)
        good := nc == (f.ncols : Int) && (f == [] || (nr == (f.nrows : Int) && f.rect?))
      else good := false
    let dump ← pDump impl
    let mut v := v
    if !good && !(v.rel.any (fun kv => kv.1 == "c08")) then
      v := { v with rel := ("c08", s!"fail@{idx}:query-{q}") :: v.rel }
    if dump.any (fun d => !d.same) then
      v := { v with c02 := firstFail v.c02 s!"fail@{idx}:query-changed-a-frame" }
    return ← seqSteps ω n (idx + 1) model impl { v with okSteps := v.okSteps + 1 }
  if kindTok == "CS" then
    -- CSV export followed by import inside a history: the imported frame joins the pool
    let t ← pNat
    let bytes ← pStr
    expect "R"
    let status ← next
    let dump ← pDump impl
    let impl' : Pool := dump.map (·.frame)
    let f := impl.getD t []
    let mut v := v
    if status == "panic" then v := { v with c20 := firstFail v.c20 s!"fail@{idx}:panic" }
    if (List.range impl.length).any (fun i => match dump[i]? with | some d => !d.same | none => true) then
      v := { v with c02 := firstFail v.c02 s!"fail@{idx}:csv-round-trip-changed-a-frame" }
    for d in dump do
      if !d.same && !d.frame.rect? then v := { v with c01 := firstFail v.c01 s!"fail@{idx}:not-rectangular" }
    if v.corr == "ok" then
      let sameText := Frame.toCSV ω f == bytes || (match Csv.readAll bytes, Csv.readAll (Frame.toCSV ω f) with
        | .ok a, .ok b => a == b
        | _, _ => false)
      if !sameText then v := { v with corr := s!"fail@{idx}:csv-text-reads-differently" }
      else match Frame.fromCSV ω bytes, status with
        | .ok m, "ok" =>
          if !(impl'.length == impl.length + 1 && frameApprox m (impl'.getLast?.getD [])) then
            v := { v with corr := s!"fail@{idx}:csv-import-differs" }
        | .err _, "err" => pure ()
        | _, _ => v := { v with corr := s!"fail@{idx}:csv-status" }
    return ← seqSteps ω n (idx + 1) impl' impl' { v with okSteps := v.okSteps + (if status == "ok" then 1 else 0) }
  if kindTok != "OP" then throw s!"expected OP, QY or CS, got {kindTok}"
  let op ← pOp
  expect "R"
  let status ← next
  -- Filter: the rows handed to the predicate, in call order
  let mut filterLogBad := false
  if (← peek?) == some "X" then
    let _ ← next
    let log ← pList pRow
    match op with
    | .filter t _ =>
      let f := impl.getD t []
      let expct := (Spec.filterLogSpec f).map (fun r => r.foldl (fun acc kv => Row.set acc kv.1 kv.2) [])
      filterLogBad := log != expct
    | _ => pure ()
  let dump ← pDump impl
  let impl' : Pool := dump.map (·.frame)
  let mut v := v
  let tag := s!"fail@{idx}"
  if filterLogBad && !(v.rel.any (fun kv => kv.1 == "c08")) then
    v := { v with rel := ("c08", s!"{tag}:predicate-calls") :: v.rel }
  -- C20: no panic, an error changes nothing
  if status == "panic" || status == "hang" then
    v := { v with c20 := firstFail v.c20 s!"{tag}:{status}" }
  if status == "err" then
    v := { v with errSteps := v.errSteps + 1 }
    if impl'.length != impl.length || dump.any (fun d => !d.same) then
      v := { v with c20 := firstFail v.c20 s!"{tag}:frame-changed-on-error" }
  if Spec.invalidRequest ω impl op && status == "ok" then
    v := { v with c20 := firstFail v.c20 s!"{tag}:invalid-request-accepted" }
  -- C02: only the target of an in-place operation may change; nothing else, and never on a derive
  let tgt := op.target
  let mutIdx (i : Nat) : Bool := op.inPlace && i == tgt
  if status == "ok" then
    v := { v with okSteps := v.okSteps + 1, inplaceOk := v.inplaceOk + (if op.inPlace then 1 else 0),
                  bigOk := v.bigOk + (if (impl.getD tgt []).nrows ≥ 2 then 1 else 0) }
    let changed := (List.range impl.length).any (fun i =>
      match dump[i]? with
      | some d => !d.same && !mutIdx i
      | none => true)
    if changed then
      v := { v with c02 := firstFail v.c02 s!"{tag}:non-target-frame-changed" }
  -- C01: every frame rectangular, stored under its own name, Nrows() = common length
  if status == "ok" then
    for d in dump do
      if !d.same then
        if !d.frame.rect? then
          v := { v with c01 := firstFail v.c01 s!"{tag}:not-rectangular" }
        else if d.frame ≠ [] && d.nrows != (d.frame.nrows : Int) then
          v := { v with c01 := firstFail v.c01 s!"{tag}:nrows-mismatch" }
  -- C01, second sentence: an operation that keeps rows keeps them WHOLE — every row of the result of a
  -- row-selecting operation is a row of its source, all cells together (whatever rows it selected, in whatever order)
  if status == "ok" then
    let src := impl.getD tgt []
    let derived : Option Frame := if impl'.length == impl.length + 1 then impl'.getLast? else none
    let out? : Option Frame := match op with
      | .head .. | .tail .. | .rowSlice .. | .filter .. | .sortValues .. => derived
      | .dedup _ _ _ ip => if ip then impl'[tgt]? else derived
      | .dropNa _ | .dropRow _ _ => impl'[tgt]?
      | _ => none
    match out? with
    | some out =>
      if out.keys == src.keys && out.rect? && src.rect? then
        let srcRows := src.rows
        if !(out.rows.all (fun r => srcRows.contains r)) then
          v := { v with c01 := firstFail v.c01 s!"{tag}:rows-torn-apart" }
    | none => pure ()
    -- Shift moves rows whole: every row of the result is a row of the source or the all-nil filler row
    match op, derived with
    | .shift .., some out =>
      -- (quadratic in the row count: the rare frames of many thousand rows are left to the C19 specification)
      if out.keys == src.keys && out.rect? && src.rect? && src.nrows ≤ 1500 then
        let srcRows := src.rows
        if !(out.rows.all (fun r => srcRows.contains r || r.all (· == Cell.nil))) then
          v := { v with c01 := firstFail v.c01 s!"{tag}:rows-torn-apart" }
    | _, _ => pure ()
  -- the operation's own specification, on the implementation's input and output
  match relSpec ω impl op status impl' with
  | some (key, good) =>
    if !good && !(v.rel.any (fun kv => kv.1 == key)) then
      v := { v with rel := (key, s!"{tag}:spec") :: v.rel }
  | none => pure ()
  -- correspondence with the model
  let m := step ω model op
  let mstatus := match m with
    | .ok _ => "ok" | .err _ => "err" | .panic _ => "panic"
  if v.corr == "ok" then
    if mstatus != status then
      v := { v with corr := s!"{tag}:status_model={mstatus}_impl={status}" }
    else match m with
      | .ok mp =>
        let bigSort := match op with
          | .sortValues t by_ asc => match model[t]? with
            | some f => if f.nrows > 12 then some (f, by_, asc) else none
            | none => none
          | _ => none
        match bigSort with
        | some (src, by_, asc) =>
          match impl'.getLast? with
          | some out =>
            if !(sortRel ω src out by_ asc) then
              v := { v with corr := s!"{tag}:sort-not-ordered-permutation" }
          | none => v := { v with corr := s!"{tag}:missing-result" }
        | none =>
          -- Describe's mean is a float sum: compare at the magnitude of the summed frame
          let sc : Rat := match op with
            | .describe t => frameMag ω (impl.getD t [])
            | _ => 0
          if !poolApproxS sc mp impl' then
            v := { v with corr := s!"{tag}:pool-differs" }
      | _ => pure ()
  -- continue from the implementation's state (keeps float rounding from accumulating)
  seqSteps ω n (idx + 1) impl' impl' v

def checkSeq : P String := do
  let tab ← pOracle
  let ω := tab.toOracle
  expect "P"
  let pool ← pList pFrame
  expect "STEPS"
  let n ← pNat
  let v ← seqSteps ω n 0 pool pool {}
  let nontriv := v.bigOk ≥ 1
  let relS := String.intercalate " " (v.rel.map (fun kv => s!"{kv.1}={kv.2}"))
  pure s!"c01={v.c01} c02={v.c02} c20={v.c20} {relS} corr={v.corr} nontrivial={if nontriv then 1 else 0} ok={v.okSteps} err={v.errSteps}"

end Goframe.Driver
