import Driver.Seq
import Driver.Grp
import Driver.Agg
import Driver.Rsm
import Driver.Apl
import Driver.Csv
import Driver.Sqlw
import Driver.Sqlr
import Driver.Misc
/-
  gfdriver: reads protocol lines (one case per line) from the file given as first argument (or stdin),
  writes one verdict line per case: `<case-id> <engine> key=value …`.
-/
open Goframe Goframe.Driver

def checkLine (line : String) : String :=
  let p : P String := do
    let id ← next
    let eng ← next
    let res ← match eng with
      | "SEQ" => checkSeq
      | "GRP" => checkGrp
      | "AGG" => checkAgg
      | "RSM" => checkRsm
      | "APL" => checkApl
      | "CSV" => checkCsv
      | "SQLW" => checkSqlw
      | "QID" => checkQid
      | "SQLR" => checkSqlr
      | "MISC" => checkMisc
      | "PLOT" => (do
          let _ ← pOracle
          expect "PLOT"
          let _ ← pNat
          let f ← pFrame
          expect "R"
          let st ← next
          let good := st == "ok" || st == "err"
          let special := f.any (fun kc => kc.2.data.any (fun c => match c with
            | .flt _ (.fin _) => false
            | _ => true))
          pure s!"c20={if good then "ok" else "fail:plot-" ++ st} corr=ok nontrivial={if special then 1 else 0} st_status={st}")
      | e => throw s!"unknown engine {e}"
    pure s!"{id} {eng} {res}"
  match runP p line with
  | .ok s => s
  | .error e =>
    let id := (line.splitOn " ").headD "?"
    s!"{id} ? badcase={e.replace " " "_"}"

partial def loop (h : IO.FS.Stream) (out : IO.FS.Stream) : IO Unit := do
  let line ← h.getLine
  if line.isEmpty then return ()
  let line := line.trimAsciiEnd.toString
  if !line.isEmpty then
    out.putStrLn (checkLine line)
  loop h out

def main (args : List String) : IO UInt32 := do
  let out ← IO.getStdout
  match args with
  | [path] =>
    let h ← IO.FS.Handle.mk path .read
    loop (IO.FS.Stream.ofHandle h) out
  | _ => loop (← IO.getStdin) out
  out.flush
  return 0
