import Driver.Seq
import GoframeModel.Std.Csv
/-
  `csv` engine (C09, C10): FromCSVReader on generated and mutated bytes; ToCSVWriter → FromCSVReader.
  Also validates the Lean model of `encoding/csv` against the real package on the same bytes.
-/
namespace Goframe.Driver
open Goframe

/-- the property's cell domain for the round trip: numbers, and text that is trimmed, does not read as
a number and contains no CR LF sequence -/
def csvCellOk (ω : Oracle) : Cell → Bool
  | .int _ v => decide (-(9007199254740992 : Int) ≤ v ∧ v ≤ 9007199254740992)
  | .flt _ _ => true
  | .str s => ω.trim s == s && (ω.parseFloat s).isNone && !(hasCRLF s)
  | _ => false
where
  hasCRLF : Str → Bool
    | 13 :: 10 :: _ => true
    | _ :: rest => hasCRLF rest
    | [] => false

/-- what a cell must come back as: numbers as float64 of the same value, text unchanged -/
def csvNormalize : Cell → Cell
  | .int _ v => .flt false (.fin v)
  | .flt _ v => .flt false v
  | c => c

def cellNumEq (a b : Cell) : Bool :=
  match a, b with
  | .flt _ .nan, .flt _ .nan => true
  | a, b => cellApprox a b && (match a, b with
    | .flt _ .nzero, .flt _ (.fin _) => false
    | .flt _ (.fin _), .flt _ .nzero => false
    | _, _ => true)

def frameNumEq (a b : Frame) : Bool :=
  a.length == b.length && (a.zip b).all (fun (x, y) =>
    x.1 == y.1 && x.2.name == y.2.name && x.2.data.length == y.2.data.length &&
    (x.2.data.zip y.2.data).all (fun (p, q) => cellNumEq p q))

def checkCsv : P String := do
  let tab ← pOracle
  let ω := tab.toOracle
  let kind ← next
  if kind == "IMP" then
    let data ← pStr
    expect "R"
    let st ← next
    let res ← if st == "ok" then (do let f ← pFrame; let n ← pInt; pure (some (f, n))) else pure none
    expect "STD"
    let sst ← next
    let stdRecs ← if sst == "ok" then (do let rs ← pList (pList pStr); pure (some rs)) else pure none
    let mut c10 := "ok"
    let mut corr := "ok"
    if st == "panic" then c10 := "fail:panic"
    -- the Lean reader against encoding/csv itself
    match Csv.readAll data, stdRecs with
    | .ok a, some b => if a != b then corr := "fail:reader-model-vs-stdlib-records"
    | .error _, none => pure ()
    | _, _ => corr := "fail:reader-model-vs-stdlib-status"
    -- C10 spec, from the records encoding/csv reports (independent of goframe and of the Lean reader)
    match stdRecs, res with
    | some (hdr :: recs), some (f, nr) =>
      let good := !Frame.hasDup hdr && f.rect? && f.keys == Spec.sortNames hdr &&
        (f == [] || nr == (recs.length : Int)) &&
        hdr.zipIdx.all (fun (h, j) =>
          match f.get? h with
          | some c => c.name == h && c.data.length == recs.length &&
              (c.data.zip recs).all (fun (cell, r) => cellNumEq cell (Frame.typeCell ω (r.getD j [])))
          | none => false)
      if !good then c10 := firstFail c10 (if Frame.hasDup hdr then "fail:repeated-header-accepted" else "fail:typing-or-shape")
    | some (hdr :: _), none => if !Frame.hasDup hdr then c10 := firstFail c10 "fail:spurious-error"
    | some [], some _ => c10 := firstFail c10 "fail:empty-input-accepted"
    | some [], none => pure ()
    | none, some _ => c10 := firstFail c10 "fail:malformed-input-accepted"
    | none, none => pure ()
    -- goframe model
    match Frame.fromCSV ω data, res with
    | .ok m, some (f, _) => if !frameNumEq m f then corr := firstFail corr "fail:frame-differs"
    | .err _, none => pure ()
    | _, _ => corr := firstFail corr "fail:status"
    let nrec := match stdRecs with
      | some rs => rs.length
      | none => 0
    let c20 := if st == "panic" then "fail:panic" else "ok"
    -- C01 on an import: whatever is returned is rectangular, stored under own names, Nrows = common length
    let c01 := match res with
      | some (f, nr) => if !f.rect? then "fail:not-rectangular"
                        else if f != [] && nr != (f.nrows : Int) then "fail:nrows-mismatch" else "ok"
      | none => "ok"
    pure s!"c01={c01} c10={c10} c20={c20} corr={corr} nontrivial={if nrec ≥ 2 then 1 else 0} st_status={st} st_std={sst}"
  else if kind == "RT" then
    let f ← pFrame
    expect "W"
    let wst ← next
    let bytes ← pStr
    expect "R"
    let st ← next
    let back ← if st == "ok" then (do let x ← pFrame; pure (some x)) else pure none
    expect "AFTER"
    let after ← pFrame
    let mut c09 := "ok"
    let mut corr := "ok"
    if wst != "ok" then c09 := s!"fail:write-{wst}"
    if st == "panic" then c09 := firstFail c09 "fail:panic"
    if after != f then c09 := firstFail c09 "fail:source-changed"
    let inDomain := f != [] && f.all (fun kc => kc.2.data.all (csvCellOk ω)) &&
      f.all (fun kc => !(csvCellOk.hasCRLF kc.1))
    if inDomain then
      match back with
      | some b =>
        let expected : Frame := f.map (fun kc => (kc.1, { kc.2 with data := kc.2.data.map csvNormalize }))
        if !frameNumEq expected b then c09 := firstFail c09 "fail:round-trip"
      | none => c09 := firstFail c09 "fail:round-trip-error"
    -- the text is compared through the reader: a different but equivalent quoting decision is not a disagreement
    if Frame.toCSV ω f != bytes then
      match Csv.readAll bytes, Csv.readAll (Frame.toCSV ω f) with
      | .ok a, .ok b => if a != b then corr := "fail:csv-text-reads-differently"
      | _, _ => corr := "fail:csv-text-unreadable"
    match Frame.fromCSV ω bytes, back with
    | .ok m, some b => if !frameNumEq m b then corr := firstFail corr "fail:frame-differs"
    | .err _, none => pure ()
    | _, _ => corr := firstFail corr "fail:status"
    let special := bytes.any (fun b => b == 34)
    let c20 := if st == "panic" || wst == "panic" then "fail:panic" else "ok"
    pure s!"c09={c09} c20={c20} corr={corr} nontrivial={if inDomain && f.nrows ≥ 1 && special then 1 else 0} st_domain={if inDomain then 1 else 0}"
  else throw s!"bad csv case {kind}"

end Goframe.Driver
