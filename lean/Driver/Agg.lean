import Driver.Seq
import GoframeModel.Spec.Agg
/-
  `agg` engine (C16): Series and frame-level Sum/Mean/Min/Max, Describe, Add against the arithmetic
  reference and the model.
-/
namespace Goframe.Driver
open Goframe

def aggKindOf (n : Nat) : AggKind :=
  match n with
  | 0 => .sum | 1 => .mean | 2 => .min | _ => .max

def fvalApproxS (sc : Rat) (a b : FVal) : Bool := cellApproxS sc (.flt false a) (.flt false b)

def checkAgg : P String := do
  let tab ← pOracle
  let ω := tab.toOracle
  expect "F"
  let f ← pFrame
  -- sums and means are compared at the magnitude of what was summed (see `cellApproxS`)
  let sc := frameMag ω f
  let fvalApprox := fvalApproxS sc
  let mut c16 := "ok"
  let mut corr := "ok"
  let mut nNum := 0
  -- series level
  let mut series : List (Str × Nat × Option FVal) := []
  for kc in f do
    for _ in [0:4] do
      expect "S"
      let ki ← pNat
      let st ← next
      let v ← if st == "ok" then (do let c ← pCell; pure (match c with | .flt _ x => some x | _ => none)) else pure none
      if st == "panic" then c16 := firstFail c16 "fail:panic"
      let k := aggKindOf ki
      series := (kc.1, ki, v) :: series
      match Spec.aggSpec ω k kc.2.data, v with
      | some e, some x => if !fvalApprox e x then c16 := firstFail c16 s!"fail:series-{ki}"
      | none, none => pure ()
      | _, _ => c16 := firstFail c16 s!"fail:series-{ki}-status"
      match seriesAgg ω k kc.2.data, v with
      | .ok e, some x => if !fvalApprox e x then corr := firstFail corr s!"fail:series-{ki}"
      | .err _, none => pure ()
      | _, _ => corr := firstFail corr s!"fail:series-{ki}-status"
    if (Spec.valuesOf ω kc.2.data).isSome && kc.2.data.length ≥ 2 then nNum := nNum + 1
  -- frame level: agrees with the per-column values, any failing column fails the call
  for _ in [0:4] do
    expect "FL"
    let ki ← pNat
    let st ← next
    let k := aggKindOf ki
    let got ← if st == "ok" then (do
        let kvs ← pList (do let n ← pStr; let c ← pCell; pure (n, match c with | .flt _ x => x | _ => FVal.nan))
        pure (some kvs)) else pure none
    if st == "panic" then c16 := firstFail c16 "fail:panic"
    match Spec.aggAllSpec ω k f, got with
    | some e, some g =>
      if !(e.length == g.length && (e.zip g).all (fun (a, b) => a.1 == b.1 && fvalApprox a.2 b.2)) then
        c16 := firstFail c16 s!"fail:frame-{ki}"
    | none, none => pure ()
    | _, _ => c16 := firstFail c16 s!"fail:frame-{ki}-status"
    match Frame.aggAll ω k f, got with
    | .ok e, some g =>
      if !(e.length == g.length && (e.zip g).all (fun (a, b) => a.1 == b.1 && fvalApprox a.2 b.2)) then
        corr := firstFail corr s!"fail:frame-{ki}"
    | .err _, none => pure ()
    | _, _ => corr := firstFail corr s!"fail:frame-{ki}-status"
  -- Describe: on an all-numeric column its count/mean/min/max rows equal n and the three aggregates
  expect "DESC"
  let dst ← next
  if dst == "ok" then
    let d ← pFrame
    if !frameApproxS sc (f.describe ω) d then corr := firstFail corr "fail:describe"
    let stat := ((d.get? Frame.sStat).map (·.data)).getD []
    let rowOf (label : Str) : Option Nat := stat.idxOf? (.str label)
    for kc in f do
      if kc.1 != Frame.sStat then
        -- the numeric cells of the column (what Describe summarises); other cells are skipped
        let xs := kc.2.data.filterMap ω.toFloat
        if xs.isEmpty then
          if d.has kc.1 then c16 := firstFail c16 "fail:describe-column-without-numbers"
        else
          let col := ((d.get? kc.1).map (·.data)).getD []
          let cellAt (label : Str) : Cell := match rowOf label with
            | some i => col.getD i .nil
            | none => .nil
          let good :=
            cellApprox (cellAt [99, 111, 117, 110, 116]) (.flt false (.fin (xs.length : Rat))) &&
            cellApproxS sc (cellAt [109, 101, 97, 110]) (.flt false ((FVal.sum xs).divNat xs.length)) &&
            cellApprox (cellAt [109, 105, 110]) (.flt false (Spec.leastNonNaN xs)) &&
            cellApprox (cellAt [109, 97, 120]) (.flt false (Spec.greatestNonNaN xs))
          if !good then c16 := firstFail c16 "fail:describe"
  else c16 := firstFail c16 s!"fail:describe-{dst}"
  -- Add
  expect "ADD"
  let l ← pFrame
  let r ← pFrame
  let hasFill ← pBool
  let fill ← if hasFill then pCell else pure Cell.nil
  expect "R"
  let ast ← next
  let sum ← if ast == "ok" then (do let x ← pFrame; pure (some x)) else pure none
  if ast == "panic" then c16 := firstFail c16 "fail:add-panic"
  match l.add ω r fill, sum with
  | .ok e, some x => if !frameApprox e x then corr := firstFail corr "fail:add"
  | .err _, none => pure ()
  | _, _ => corr := firstFail corr "fail:add-status"
  -- spec of Add on frames with the same column names
  if l.keys == r.keys then
    match sum with
    | some x =>
      let good := x.keys == l.keys && l.all (fun kc =>
        let a := kc.2.data
        let b := ((r.get? kc.1).map (·.data)).getD []
        let o := ((x.get? kc.1).map (·.data)).getD []
        o.length == max a.length b.length &&
        (List.range o.length).all (fun i =>
          let v := o.getD i .nil
          if i < a.length && i < b.length then
            match Spec.addCellSpec ω (a.getD i .nil) (b.getD i .nil) with
            | some e => cellApprox e v
            | none => true
          else v == fill))
      if !good then c16 := firstFail c16 "fail:add"
    | none =>
      -- an error is legitimate only outside the property's domain (two equal non-text, non-numeric kinds)
      let domainOk := l.all (fun kc =>
        let a := kc.2.data
        let b := ((r.get? kc.1).map (·.data)).getD []
        (List.range (min a.length b.length)).all (fun i => (Spec.addCellSpec ω (a.getD i .nil) (b.getD i .nil)).isSome))
      if domainOk && ast == "err" then c16 := firstFail c16 "fail:add-spurious-error"
  expect "AFTER"
  let f' ← pFrame
  let l' ← pFrame
  let r' ← pFrame
  if f' != f || l' != l || r' != r then c16 := firstFail c16 "fail:operand-changed"
  let c20 := if c16.startsWith "fail:panic" || c16.startsWith "fail:add-panic" then c16 else "ok"
  pure s!"c16={c16} c20={c20} corr={corr} nontrivial={if nNum ≥ 1 then 1 else 0} st_numericCols={nNum}"

end Goframe.Driver
