import GoframeModel.Step
/-
  Decoder for the line protocol written by the Go harness (see harness/internal/proto).
  Tokens are blank-separated; strings are `x`+hex; cells are tagged (`N`, `I<ty>:<v>`, `F<w>:<m>:<e>`,
  `S<hex>`, `B0/1`, `T…`); frames are `<ncols> (<key> <name> <len> cell*)*` with `-1` for a nil frame.
-/
namespace Goframe.Driver
open Goframe

structure PState where
  toks : Array String
  pos : Nat

abbrev P := StateT PState (Except String)

def next : P String := do
  let s ← get
  if h : s.pos < s.toks.size then
    set { s with pos := s.pos + 1 }
    pure s.toks[s.pos]
  else throw "unexpected end of line"

def peek? : P (Option String) := do
  let s ← get
  pure s.toks[s.pos]?

def expect (t : String) : P Unit := do
  let x ← next
  if x == t then pure () else throw s!"expected {t}, got {x}"

def hexVal (c : Char) : Option Nat :=
  if '0' ≤ c ∧ c ≤ '9' then some (c.toNat - '0'.toNat)
  else if 'a' ≤ c ∧ c ≤ 'f' then some (c.toNat - 'a'.toNat + 10)
  else none

def hexDecode : List Char → Except String Str
  | [] => pure []
  | [_] => throw "odd hex"
  | a :: b :: rest =>
    match hexVal a, hexVal b with
    | some x, some y => do
      let r ← hexDecode rest
      pure ((x * 16 + y).toUInt8 :: r)
    | _, _ => throw "bad hex"

def strOfTok (t : String) : Except String Str :=
  match t.toList with
  | 'x' :: rest => hexDecode rest
  | _ => throw s!"bad string token {t}"

def pStr : P Str := do
  let t ← next
  match strOfTok t with
  | .ok s => pure s
  | .error e => throw e

def intOfTok (t : String) : Except String Int :=
  match t.toInt? with
  | some i => pure i
  | none => throw s!"bad int {t}"

def pInt : P Int := do
  let t ← next
  match intOfTok t with
  | .ok s => pure s
  | .error e => throw e

def pNat : P Nat := do
  let i ← pInt
  if i < 0 then throw "negative count" else pure i.toNat

def pBool : P Bool := do
  let i ← pInt
  pure (i != 0)

def intTyOf (n : Nat) : Except String IntTy :=
  match n with
  | 0 => pure .int | 1 => pure .int8 | 2 => pure .int16 | 3 => pure .int32 | 4 => pure .int64
  | 5 => pure .uint | 6 => pure .uint8 | 7 => pure .uint16 | 8 => pure .uint32 | 9 => pure .uint64
  | _ => throw "bad int type"

def pow2 (e : Nat) : Nat := 2 ^ e

def fvalOf (parts : List String) : Except String FVal :=
  match parts with
  | ["nan"] => pure .nan
  | ["+inf"] => pure .pinf
  | ["-inf"] => pure .ninf
  | ["-0"] => pure .nzero
  | [m, e] => do
    let m ← intOfTok m
    let e ← intOfTok e
    if e ≥ 0 then pure (.fin ((m * (pow2 e.toNat : Int) : Int) : Rat))
    else pure (.fin (mkRat m (pow2 (-e).toNat)))
  | _ => throw "bad float"

/-- how a cell of a Go type outside the scalar domain is represented (see `cellOfTok`, tag `U`) -/
def unknownCell (goType : Str) : Cell :=
  .time { unix := 0, ns := 0, off := 0, y := 0, mo := 99, d := 0, h := 0, mi := 0, s := 0, zone := goType }

def cellOfTok (t : String) : Except String Cell := do
  if t == "N" then pure .nil
  else
    let tag := t.toList.headD (Char.ofNat 32)
    let body := (t.drop 1).toString
    match tag with
    | 'I' =>
      match body.splitOn ":" with
      | [ty, v] => do
        let ty ← intOfTok ty
        let ty ← intTyOf ty.toNat
        let v ← intOfTok v
        pure (.int ty v)
      | _ => throw s!"bad int cell {t}"
    | 'F' =>
      match body.splitOn ":" with
      | w :: rest => do
        let v ← fvalOf rest
        pure (.flt (w == "32") v)
      | _ => throw s!"bad float cell {t}"
    | 'S' => do
      let s ← hexDecode body.toList
      pure (.str s)
    | 'B' => pure (.bool (body == "1"))
    | 'T' =>
      match body.splitOn ":" with
      | [u, ns, off, y, mo, d, h, mi, s, z] => do
        let u ← intOfTok u; let ns ← intOfTok ns; let off ← intOfTok off
        let y ← intOfTok y; let mo ← intOfTok mo; let d ← intOfTok d
        let h ← intOfTok h; let mi ← intOfTok mi; let s ← intOfTok s
        let z ← hexDecode z.toList
        pure (.time { unix := u, ns := ns.toNat, off := off, y := y, mo := mo, d := d, h := h, mi := mi, s := s, zone := z })
      | _ => throw s!"bad time cell {t}"
    | 'U' => do
      -- a cell of a Go type outside the scalar domain (say a whole []any stored in one cell). The harness never
      -- generates such inputs, so it can only be an implementation OUTPUT; it is decoded as a value that no
      -- expected frame contains (a time with month 99 carrying the Go type name), so every comparison with
      -- the specification fails on it and the case is reported with its input
      let s ← hexDecode body.toList
      pure (unknownCell s)
    | _ => throw s!"unknown cell {t}"

def pCell : P Cell := do
  let t ← next
  match cellOfTok t with
  | .ok s => pure s
  | .error e => throw e

def pMany {α} (n : Nat) (p : P α) : P (List α) := do
  let mut acc : Array α := #[]
  for _ in [0:n] do
    acc := acc.push (← p)
  pure acc.toList

def pList {α} (p : P α) : P (List α) := do
  let n ← pNat
  pMany n p

/-- a dumped column: key, `Name`, cells -/
def pCol : P (Str × Col) := do
  let k ← pStr
  let name ← pStr
  let d ← pList pCell
  pure (k, { name := name, data := d })

def insertSorted (kc : Str × Col) : Frame → Frame
  | [] => [kc]
  | x :: xs => if strLt kc.1 x.1 then kc :: x :: xs else x :: insertSorted kc xs

/-- a dumped frame (`none` for a nil `*DataFrame`); columns are re-sorted by key -/
def pFrame? : P (Option Frame) := do
  let n ← pInt
  if n < 0 then pure none
  else
    let cols ← pMany n.toNat pCol
    pure (some (cols.foldl (fun acc kc => insertSorted kc acc) []))

def pFrame : P Frame := do
  match ← pFrame? with
  | some f => pure f
  | none => throw "unexpected nil frame"

def pRow : P Row := do
  let kvs ← pList (do let k ← pStr; let v ← pCell; pure (k, v))
  pure (kvs.foldl (fun acc kv => Row.set acc kv.1 kv.2) [])

/-! ### oracle tables -/

structure OracleTab where
  fmt : List (Cell × Str) := []
  pf : List (Str × Option FVal) := []
  trim : List (Str × Str) := []
  tparse : List (Str × Str × Option GoTime) := []
  tunix : List (Int × GoTime) := []
  tfloat : List (FVal × GoTime) := []

def OracleTab.toOracle (t : OracleTab) : Oracle where
  fmtFloat s v := ((t.fmt.find? (fun e => e.1 == .flt s v)).map (·.2)).getD (ofString "?fmt")
  fmtTime tm := ((t.fmt.find? (fun e => e.1 == .time tm)).map (·.2)).getD (ofString "?fmt")
  parseFloat s := ((t.pf.find? (fun e => e.1 == s)).map (·.2)).getD none
  trim s := ((t.trim.find? (fun e => e.1 == s)).map (·.2)).getD s
  timeParse l s := ((t.tparse.find? (fun e => e.1 == l && e.2.1 == s)).map (·.2.2)).getD none
  timeUnix v := (t.tunix.find? (fun e => e.1 == v)).map (·.2)
  timeFromFloat v := (t.tfloat.find? (fun e => e.1 == v)).map (·.2)

def pOracleEntry (t : OracleTab) : P OracleTab := do
  let kind ← next
  match kind with
  | "ff" => do
    let c ← pCell; let s ← pStr
    pure { t with fmt := (c, s) :: t.fmt }
  | "pf" => do
    let s ← pStr; let c ← pCell
    let v := match c with
      | .flt _ v => some v
      | _ => none
    pure { t with pf := (s, v) :: t.pf }
  | "tr" => do
    let a ← pStr; let b ← pStr
    pure { t with trim := (a, b) :: t.trim }
  | "tp" => do
    let l ← pStr; let s ← pStr; let c ← pCell
    let v := match c with
      | .time tm => some tm
      | _ => none
    pure { t with tparse := (l, s, v) :: t.tparse }
  | "tu" => do
    let v ← pInt; let c ← pCell
    match c with
    | .time tm => pure { t with tunix := (v, tm) :: t.tunix }
    | _ => throw "bad tu entry"
  | "tf" => do
    let a ← pCell; let c ← pCell
    match a, c with
    | .flt _ v, .time tm => pure { t with tfloat := (v, tm) :: t.tfloat }
    | _, _ => throw "bad tf entry"
  | k => throw s!"bad oracle entry {k}"

def pOracle : P OracleTab := do
  expect "O"
  let n ← pNat
  let mut t : OracleTab := {}
  for _ in [0:n] do
    t ← pOracleEntry t
  pure t

def applyFnOf (n : Nat) : Except String ApplyFn :=
  match n with
  | 0 => pure .copy | 1 => pure .reverse | 2 => pure .constInt | 3 => pure .count
  | 4 => pure .first | 5 => pure .strs | 6 => pure .ints | 7 => pure .bools | 8 => pure .ident
  | 9 => pure .ident     -- harness tag 9 (row-wise only): returns append(xs, xs[0]); the collector reads the first ncols elements, i.e. xs
  | _ => throw "bad apply fn"

def aggFnOf (n : Nat) : Except String AggFn :=
  match n with
  | 0 => pure .count | 1 => pure .first | 2 => pure .last | 3 => pure .joinText | 4 => pure .joinText
  | _ => throw "bad agg fn"

def liftE {α} (e : Except String α) : P α :=
  match e with
  | .ok a => pure a
  | .error m => throw m

/-- one operation of the `seq` engine -/
def pOp : P Op := do
  let name ← next
  match name with
  | "head" => do let t ← pNat; let n ← pInt; pure (.head t n)
  | "tail" => do let t ← pNat; let n ← pInt; pure (.tail t n)
  | "rowslice" => do let t ← pNat; let a ← pInt; let b ← pInt; pure (.rowSlice t a b)
  | "filter" => do let t ← pNat; let bits ← pList pBool; pure (.filter t bits)
  | "loc" => do let t ← pNat; let ls ← pList pCell; let cs ← pList pStr; pure (.loc t ls cs)
  | "iloc" => do let t ← pNat; let rs ← pList pInt; let cs ← pList pInt; pure (.iloc t rs cs)
  | "multiselect" => do let t ← pNat; let ks ← pList pStr; pure (.multiSelect t ks)
  | "sort" => do let t ← pNat; let ks ← pList pStr; let asc ← pBool; pure (.sortValues t ks asc)
  | "shift" => do let t ← pNat; let q ← pInt; pure (.shift t q)
  | "dedup" => do
    let t ← pNat; let sub ← pList pStr; let keep ← pStr; let ip ← pBool
    pure (.dedup t sub keep ip)
  | "join" => do let k ← pNat; let t ← pNat; let u ← pNat; let key ← pStr; pure (.join k t u key)
  | "add" => do
    let t ← pNat; let u ← pNat; let has ← pBool
    let fill ← if has then (do let c ← pCell; pure (some c)) else pure none
    pure (.add t u fill)
  | "applycol" => do let t ← pNat; let fn ← pNat; pure (.applyCol t (← liftE (applyFnOf fn)))
  | "applyrow" => do let t ← pNat; let fn ← pNat; pure (.applyRow t (← liftE (applyFnOf fn)))
  | "describe" => do let t ← pNat; pure (.describe t)
  | "resample" => do
    let t ← pNat; let c ← pStr; let q ← pStr; let a ← pNat
    pure (.resample t c q (← liftE (aggFnOf a)))
  | "group" => do
    let t ← pNat; let list ← pBool; let keys ← pList pStr; let a ← pNat; let cols ← pList pStr
    let agg ← match a with
      | 0 => pure GroupAgg.sum | 1 => pure GroupAgg.mean | 2 => pure GroupAgg.count
      | _ => throw "bad group agg"
    pure (.group t list keys agg cols)
  | "appendrow" => do let t ← pNat; let r ← pRow; pure (.appendRow t r)
  | "droprow" => do let t ← pNat; let i ← pInt; pure (.dropRow t i)
  | "fillna" => do let t ← pNat; let v ← pCell; pure (.fillNa t v)
  | "dropna" => do let t ← pNat; pure (.dropNa t)
  | "astype" => do let t ← pNat; let c ← pStr; let ty ← pStr; pure (.astype t c ty)
  | "rename" => do let t ← pNat; let a ← pStr; let b ← pStr; pure (.rename t a b)
  | "addcol" => do
    let t ← pNat; let name ← pStr; let d ← pList pCell
    pure (.addColumn t { name := name, data := d })
  | "dropcol" => do let t ← pNat; let k ← pStr; pure (.dropColumn t k)
  | "setcell" => do let t ← pNat; let k ← pStr; let i ← pInt; let v ← pCell; pure (.setCell t k i v)
  | "adddt" => do let t ← pNat; let k ← pStr; let l ← pStr; pure (.addDatetimeIndex t k l)
  | n => throw s!"unknown op {n}"

def runP {α} (p : P α) (line : String) : Except String α :=
  let toks := (line.splitOn " ").filter (· ≠ "") |>.toArray
  match p.run { toks := toks, pos := 0 } with
  | .ok (a, _) => .ok a
  | .error e => .error e

end Goframe.Driver
