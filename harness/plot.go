package main

// plot engine (C20, panic/hang-freedom only): LinePlot and BarPlot under a per-call deadline.
// Plotting is not modelled; a panic or a call that does not return is a violation by itself.

import (
	"math"
	"os"
	"path/filepath"
	"time"

	"github.com/kishyassin/goframe/dataframe"
)

var plotDir string

func genPlot(r *Rng) *Enc {
	e := NewEnc()
	n := r.Intn(5)
	vals := func() []any {
		d := make([]any, n)
		for i := range d {
			switch r.Intn(10) {
			case 0:
				d[i] = math.NaN()
			case 1:
				d[i] = Pick(r, []float64{math.Inf(1), math.Inf(-1)})
			case 2:
				d[i] = Pick(r, []float64{1e308, -1e308, math.MaxFloat64, -math.MaxFloat64, 5e-324})
			case 3:
				d[i] = Pick(r, []any{nil, "x", 3, true})
			default:
				d[i] = float64(r.Range(-5, 5))
			}
		}
		return d
	}
	df := dataframe.NewDataFrame()
	df.Columns["x"] = &dataframe.Column[any]{Name: "x", Data: vals()}
	df.Columns["y"] = &dataframe.Column[any]{Name: "y", Data: vals()}
	kind := r.Intn(2)
	xc, yc := "x", "y"
	if r.Chance(10) {
		yc = "zz"
	}
	out := filepath.Join(plotDir, "p.png")
	if r.Chance(5) {
		out = filepath.Join(plotDir, "no-such-dir", "p.png")
	}
	e.Tok("PLOT")
	e.Int(kind)
	e.Frame(df)
	done := make(chan string, 1)
	go func() {
		st, _ := guard(func() error {
			if kind == 0 {
				return df.LinePlot(xc, yc, out)
			}
			return df.BarPlot(yc, out)
		})
		done <- st
	}()
	select {
	case st := <-done:
		e.Tok("R", st)
	case <-time.After(15 * time.Second):
		e.Tok("R", "hang")
	}
	os.Remove(out)
	return e
}
