//go:build verif

package main

// apl engine: Apply under forced completion orders of the row workers (C17). Needs the `verif` build
// tag (dataframe.VerifApplyGate) and is normally built with -race.

import (
	"errors"
	"fmt"
	"runtime"
	"sync"
	"sync/atomic"
	"time"

	"github.com/kishyassin/goframe/dataframe"
)

type applyCall struct{ args []any }

// aplFn: the callbacks of the seq engine plus three that only this engine uses (their Lean counterparts are in
// lean/Driver/Apl.lean): results of mixed kinds, and column-wise results longer / shorter than the column.
func aplFn(tag int) dataframe.FuncType {
	switch tag {
	case 10:
		return func(xs []any) any {
			if len(xs) == 0 || xs[0] == nil {
				return "n/a"
			}
			if _, isText := xs[0].(string); isText {
				return "n/a"
			}
			out := make([]any, len(xs))
			copy(out, xs)
			return out
		}
	case 11:
		return func(xs []any) any {
			out := make([]any, len(xs), len(xs)+1)
			copy(out, xs)
			return append(out, 7)
		}
	case 13:
		return func(xs []any) any {
			if len(xs) > 0 {
				if v, ok := xs[0].(int); ok && v < 0 {
					return errors.New("negative amount")
				}
			}
			out := make([]any, len(xs))
			copy(out, xs)
			return out
		}
	case 15:
		return func(xs []any) any {
			if len(xs) == 0 || xs[0] == nil {
				return nil
			}
			out := make([]any, len(xs), len(xs)+2)
			copy(out, xs)
			return append(out, xs[0], xs[0])
		}
	case 14:
		return func(xs []any) any {
			out := []any{}
			for _, v := range xs {
				if v != nil {
					out = append(out, v)
				}
			}
			return out
		}
	case 12:
		return func(xs []any) any {
			out := make([]any, len(xs))
			copy(out, xs)
			if len(out) > 0 {
				out = out[:len(out)-1]
			}
			return out
		}
	}
	return applyFn(tag)
}

func genApl(r *Rng, tier string) *Enc {
	e := NewEnc()
	n := r.Intn(5)
	if r.Chance(25) {
		n = r.Range(5, 8)
	}
	if r.Chance(8) {
		n = runtime.NumCPU() + r.Range(1, 20) // more rows than workers
	}
	if r.Chance(3) {
		n = 3*runtime.NumCPU() + r.Range(1, 40) // more rows than any worker-sized buffer could hold
	}
	ncols := r.Range(0, 3)
	if r.Chance(90) && ncols == 0 {
		ncols = 1
	}
	aplNames := plainNames
	if r.Chance(20) {
		aplNames = []string{"Total", "price", "qty", "a", "B"} // upper case sorts before lower case
	}
	df := r.Frame(n, ncols, aplNames)
	axis := 1
	if r.Chance(25) {
		axis = 0
	}
	// the axis ARGUMENT: absent means column-wise, and every number other than 0 means row-wise (Apply's documentation)
	axisArg := []int{axis}
	if axis == 0 && r.Chance(30) {
		axisArg = nil
	} else if axis == 1 && r.Chance(20) {
		axisArg = []int{Pick(r, []int{2, -1, 7, 1 << 40})}
	}
	tag := r.Intn(5)
	if r.Chance(25) {
		tag = 8 // identity: a side-effect-free callback that returns the slice it was given
	} else if r.Chance(15) {
		tag = 9 // appends one element to its argument and returns the longer slice
	}
	if axis == 1 && r.Chance(15) {
		tag = 10 // mixed result kinds: a single marker for rows starting with nil or text, the whole row otherwise
	} else if axis == 1 && r.Chance(10) {
		tag = 13 // an error VALUE as the single result of some rows
	} else if axis == 1 && r.Chance(12) {
		tag = 15 // a slice LONGER than the row for most rows, untyped nil for rows starting with nil
	}
	if axis == 0 {
		tag = r.Intn(8)
		if r.Chance(25) {
			tag = Pick(r, []int{10, 11, 12, 14, 14}) // column-wise: mixed kinds, a longer slice, a shorter slice, the non-nil cells
		}
	}
	if df.Ncols() > 0 && r.Chance(12) {
		// the frame has a history: Apply ran on it once, then a column was renamed (nothing remembered from the
		// first call may leak into the recorded one)
		// (under a deadline of its own: a warm-up call that never returns must not stall the run — the recorded call
		// on the same frame then shows the hang)
		dataframe.VerifApplyGate = nil
		warm := make(chan struct{})
		go func() {
			guard(func() error { df.Apply(applyFn(0), axis); return nil })
			close(warm)
		}()
		select {
		case <-warm:
			guard(func() error {
				old := Pick(r, df.ColumnNames())
				return df.RenameColumn(old, old+"z")
			})
		case <-time.After(10 * time.Second):
		}
	}
	if axis == 0 && tag == 14 && n >= 2 && df.Ncols() >= 2 && r.Chance(50) {
		// one column keeps exactly ONE non-nil cell, another keeps all of its cells
		ks := df.ColumnNames()
		for i := range df.Columns[ks[0]].Data {
			df.Columns[ks[0]].Data[i] = nil
			df.Columns[ks[1]].Data[i] = i
		}
		df.Columns[ks[0]].Data[r.Intn(n)] = "only"
	}
	e.Tok("F")
	e.Frame(df)
	e.Int(axis)
	e.Int(tag)

	// desired completion order: a priority per row; among the rows currently waiting at the gate the
	// one with the smallest priority is released next
	prio := r.Perm(max(n, 1))
	var mu sync.Mutex
	var calls []applyCall
	var argMutated atomic.Int32
	base := aplFn(tag)
	fn := func(xs []any) any {
		cp := make([]any, len(xs))
		copy(cp, xs)
		mu.Lock()
		calls = append(calls, applyCall{args: cp})
		mu.Unlock()
		res := base(xs)
		for k := 0; k < 3; k++ {
			runtime.Gosched()
		}
		for i := range xs { // a buffer shared between workers would have been overwritten by now
			if fmt.Sprintf("%T%v", xs[i], xs[i]) != fmt.Sprintf("%T%v", cp[i], cp[i]) {
				argMutated.Store(1)
			}
		}
		return res
	}

	arrived := make(chan int, n+1)
	sent := make(chan int, n+1)
	release := make([]chan struct{}, n)
	for i := range release {
		release[i] = make(chan struct{})
	}
	if axis == 1 {
		dataframe.VerifApplyGate = func(row, phase int) {
			if row < 0 || row >= n {
				return
			}
			if phase == 0 {
				arrived <- row
				<-release[row]
			} else {
				sent <- row
			}
		}
	} else {
		dataframe.VerifApplyGate = nil
	}
	type outT struct {
		res    any
		err    error
		status string
	}
	done := make(chan outT, 1)
	go func() {
		var o outT
		o.status, _ = guard(func() error { o.res, o.err = df.Apply(fn, axisArg...); return o.err })
		done <- o
	}()
	var order []int
	hang := false
	var out outT
	if axis == 1 {
		workers := min(n, runtime.NumCPU())
		waiting := map[int]bool{}
		delivered := 0
		deadline := time.After(10 * time.Second)
	loop:
		for delivered < n {
			// wait until every worker that can be at the gate is at the gate
			want := min(workers, n-delivered)
			for len(waiting) < want {
				select {
				case row := <-arrived:
					waiting[row] = true
				case out = <-done:
					// Apply returned early (error path): stop forcing
					done <- out
					break loop
				case <-deadline:
					hang = true
					break loop
				}
			}
			best := -1
			for row := range waiting {
				if best < 0 || prio[row] < prio[best] {
					best = row
				}
			}
			delete(waiting, best)
			close(release[best])
			select {
			case <-sent:
			case <-deadline:
				hang = true
				break loop
			}
			order = append(order, best)
			delivered++
		}
	}
	if !hang {
		select {
		case out = <-done:
		case <-time.After(10 * time.Second):
			hang = true
		}
	}
	dataframe.VerifApplyGate = nil
	e.Tok("SCHED")
	e.Ints(order)
	if hang {
		hangDetected = true
		e.Tok("R", "hang")
	} else {
		e.Tok("R", out.status)
		if out.status == "ok" {
			if res, ok := out.res.(*dataframe.DataFrame); ok {
				e.Frame(res)
			} else {
				e.Tok("-1")
			}
		}
	}
	mu.Lock()
	e.Tok("CALLS")
	e.Int(len(calls))
	for _, c := range calls {
		e.Cells(c.args)
	}
	mu.Unlock()
	e.Tok("ARGMUT")
	e.Int(int(argMutated.Load()))
	e.Tok("AFTER")
	e.Frame(df)
	return e
}
