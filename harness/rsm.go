package main

// rsm engine: Resample (C18). Each case is called several times: Go randomises map iteration per call.

import (
	"math"
	"time"
	_ "time/tzdata" // daylight-saving locations without depending on the host's zoneinfo

	"github.com/kishyassin/goframe/dataframe"
)

func genRsm(r *Rng, tier string) *Enc {
	e := NewEnc()
	loc := time.UTC
	switch r.Intn(4) {
	case 0:
		loc = zonePlus
	case 1:
		loc = time.FixedZone("M0800", -8*3600)
	}
	// a location WITH daylight-saving transitions (Y, M, D only: the start of a year, month or day is unambiguous)
	dst := false
	if r.Chance(6) {
		if ny, err := time.LoadLocation(Pick(r, []string{"America/New_York", "Europe/Berlin", "Australia/Sydney"})); err == nil {
			loc, dst = ny, true
		}
	}
	n := r.SmallN()
	if r.Chance(50) {
		n = r.Range(4, 16)
	}
	// timestamps clustered around year / month / day / hour boundaries, unsorted, with repeats
	anchors := []time.Time{
		time.Date(2020, 1, 1, 0, 0, 0, 0, loc), time.Date(2019, 12, 31, 23, 59, 59, 0, loc),
		time.Date(2000, 2, 29, 12, 0, 0, 0, loc), time.Date(1900, 3, 1, 0, 0, 1, 0, loc),
		time.Date(2100, 12, 31, 23, 0, 0, 0, loc), time.Date(1969, 12, 31, 23, 59, 59, 0, loc),
		time.Date(2021, 6, 15, 10, 30, 30, 500, loc),
	}
	if dst {
		// shortly after midnight after a clock change, and around the changes themselves
		anchors = []time.Time{
			time.Date(2024, 3, 20, 0, 30, 0, 0, loc), time.Date(2024, 11, 20, 0, 30, 0, 0, loc), time.Date(2024, 3, 10, 12, 0, 0, 0, loc),
			time.Date(2024, 11, 3, 12, 0, 0, 0, loc), time.Date(2024, 4, 7, 0, 15, 0, 0, loc), time.Date(2024, 10, 27, 0, 45, 0, 0, loc),
			time.Date(2024, 12, 31, 23, 30, 0, 0, loc), time.Date(2024, 7, 1, 0, 5, 0, 0, loc),
		}
	}
	far := !dst && r.Chance(6)
	if far {
		// instants far from the Unix epoch (historical dates, "end of time" sentinels): outside what fits a count of
		// nanoseconds in 64 bits, next to ordinary ones
		anchors = []time.Time{
			time.Date(1600, 6, 15, 8, 0, 0, 0, loc), time.Date(1677, 9, 20, 0, 0, 0, 0, loc), time.Date(2262, 4, 12, 0, 0, 0, 0, loc),
			time.Date(2400, 1, 1, 0, 0, 0, 0, loc), time.Date(9999, 12, 31, 23, 59, 59, 0, loc), time.Date(2023, 5, 5, 5, 5, 5, 0, loc),
			time.Date(2024, 1, 1, 0, 0, 0, 0, loc), time.Date(1000, 1, 1, 0, 0, 0, 0, loc),
		}
	}
	base := Pick(r, anchors)
	ts := make([]any, n)
	steps := []time.Duration{time.Second, time.Minute, time.Hour, 24 * time.Hour, 36 * time.Hour, 31 * 24 * time.Hour, 366 * 24 * time.Hour}
	step := Pick(r, steps)
	for i := range ts {
		t := base.Add(time.Duration(r.Range(-4, 4)) * step).Add(time.Duration(r.Range(-2, 2)) * time.Second)
		if r.Chance(10) || (far && r.Bool()) {
			t = Pick(r, anchors)
		}
		ts[i] = t
	}
	// one frame mixing two locations: equal wall clocks in different zones are different buckets. Only UTC / +05:30
	// with Y, M, D or H, where no two distinct bucket starts are the same instant (the order of such a pair is not
	// determined by the property)
	mixed := r.Chance(8) && !dst
	if mixed {
		for i := range ts {
			if t, ok := ts[i].(time.Time); ok {
				wall := time.Date(t.Year(), t.Month(), t.Day(), t.Hour(), t.Minute(), t.Second(), t.Nanosecond(), Pick(r, []*time.Location{time.UTC, zonePlus}))
				ts[i] = wall
			}
		}
	}
	// one bucket with more than 1024 rows
	long := r.Intn(120) == 0
	if long {
		n = Pick(r, []int{1100, 3000})
		ts = make([]any, n)
		for i := range ts {
			ts[i] = base.Add(time.Duration(i) * time.Minute)
		}
	}
	wrong := r.Chance(6)
	if wrong && n > 0 {
		ts[r.Intn(n)] = Pick(r, []any{nil, 5, "2020-01-01"})
	}
	if r.Chance(3) {
		// a whole column of RFC 3339 TEXT: not time.Time cells, so an error — and the column stays text
		for i := range ts {
			ts[i] = Pick(r, []string{"2024-02-29T12:30:00Z", "2024-03-01T00:00:00Z", "2023-12-31T23:59:59+02:00"})
		}
	}
	df := dataframe.NewDataFrame()
	df.Columns["t"] = &dataframe.Column[any]{Name: "t", Data: ts}
	valueCols := []string{"a", "b", "c"}[:r.Range(0, 3)]
	if r.Intn(40) == 0 {
		valueCols = []string{"a", "b", "c", "d", "e", "f", "g", "h", "i", "j", "k", "l", "m"}[:Pick(r, []int{9, 10, 11, 13})] // a wide frame
	}
	for _, name := range valueCols {
		df.Columns[name] = &dataframe.Column[any]{Name: name, Data: r.Column(n, Pick(r, []colKind{kInt, kStr, kBool, kMixed}))}
	}
	if r.Chance(10) && len(valueCols) > 0 && n > 0 {
		c := df.Columns[valueCols[0]]
		c.Data[r.Intn(n)] = math.NaN() // a NaN cell is a cell: the aggregation sees it as it is
	}
	if r.Chance(6) && n > 0 {
		// another column whose name differs from the time column's only in letter case, holding text
		d := make([]any, n)
		for i := range d {
			d[i] = "raw"
		}
		df.Columns["T"] = &dataframe.Column[any]{Name: "T", Data: d}
	}
	if r.Chance(8) && n >= 2 {
		// the frame has a history: it was resampled once, then a row was dropped and another appended (same length,
		// same arrays) — nothing remembered from the first call may leak into the recorded one
		guard(func() error {
			df.Resample("t", freq0(r), aggFn(0))
			if err := df.DropRow(r.Intn(n)); err != nil {
				return err
			}
			row := map[string]any{}
			for _, k := range df.ColumnNames() {
				row[k] = df.Columns[k].Data[0]
			}
			row["t"] = Pick(r, anchors)
			return df.AppendRow(df, row)
		})
	}
	col := "t"
	if r.Chance(5) {
		col = "zz"
	}
	freq := Pick(r, []string{"Y", "M", "D", "H", "T", "S"})
	if r.Chance(6) {
		freq = Pick(r, []string{"Q", "", "W", "d", "0T", "0D", "00H", "15T", "1D", "-1T", "2", "0"})
	}
	agg := r.Intn(5)
	if dst {
		mixed = false
	}
	if mixed && !r.Chance(6) {
		freq = Pick(r, []string{"Y", "M", "D", "H"})
	} else if mixed {
		freq = "Q"
	}
	if long {
		freq = Pick(r, []string{"M", "D", "Y"})
		agg = Pick(r, []int{0, 4, 0, 1})
	}
	if dst {
		freq = Pick(r, []string{"M", "D", "Y", "M"})
	}
	e.Tok("F")
	e.Frame(df)
	e.Str(col)
	e.Str(freq)
	e.Int(agg)
	reps := 8
	if tier == "thorough" {
		reps = 32
	}
	var first string
	ndiff := 0
	var status string
	for k := 0; k < reps; k++ {
		var res *dataframe.DataFrame
		st, _ := guard(func() error { var err error; res, err = df.Resample(col, freq, aggFn(agg)); return err })
		if st == "ok" && agg == 4 {
			// identity aggregation: the cells are the slices handed to the callback; render them now, after the
			// call has finished (a buffer reused between buckets shows as later buckets' data in earlier cells)
			for _, c := range res.Columns {
				for i, v := range c.Data {
					if xs, ok := v.([]any); ok {
						c.Data[i] = aggFn(3)(xs)
					}
				}
			}
		}
		dump := st
		if st == "ok" {
			dump += " " + e.FrameS(res)
		}
		if k == 0 {
			first = dump
			status = st
			e.Tok("R", st)
			if st == "ok" {
				e.Frame(res)
			}
		} else if dump != first {
			ndiff++
		}
	}
	_ = status
	e.Tok("REP")
	e.Int(reps)
	e.Int(ndiff)
	e.Tok("AFTER")
	e.Frame(df)
	if dst {
		// the standard library's own answer to "start of the year / month / day in the timestamp's location"
		type pair struct{ a, b time.Time }
		var tbl []pair
		for _, v := range ts {
			t, ok := v.(time.Time)
			if !ok {
				continue
			}
			var b time.Time
			switch freq {
			case "Y":
				b = time.Date(t.Year(), 1, 1, 0, 0, 0, 0, t.Location())
			case "M":
				b = time.Date(t.Year(), t.Month(), 1, 0, 0, 0, 0, t.Location())
			default:
				b = time.Date(t.Year(), t.Month(), t.Day(), 0, 0, 0, 0, t.Location())
			}
			tbl = append(tbl, pair{t, b})
		}
		e.Tok("TR")
		e.Int(len(tbl))
		for _, p := range tbl {
			e.Cell(p.a)
			e.Cell(p.b)
		}
	}
	return e
}

func freq0(r *Rng) string { return Pick(r, []string{"Y", "M", "D", "H", "T", "S"}) }
